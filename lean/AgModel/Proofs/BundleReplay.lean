import AgModel.Proofs.PoolWiring
import AgModel.Proofs.PoolRecover
import AgModel.Props.C07
/-!
# Standstill bundle replay (C18 part B): helper lemmas

* the per-slot certificate stores vs. the ghost log of the pool: every held certificate was logged
  (`HeldLogged`), every logged certificate of a retained slot is still held — by kind, slot and block —
  (`LogHeld`);
* a receiver that is fed only certificates and own votes: its log contains only the delivered certificates
  (votes of a node below the quorum threshold create no certificate), every delivered certificate in bounds
  is in its log (by kind, slot and block).
-/
namespace AgModel.Pool
open AgModel

/-! ### the slot map of the pool -/

theorem find_append_single {α : Type} (l : List α) (a : α) (f : α → Bool) :
    (l ++ [a]).find? f = match l.find? f with | some x => some x | none => if f a then some a else none := by
  rw [List.find?_append]
  cases l.find? f with
  | some x => rfl
  | none => simp [List.find?_cons]; split <;> simp_all

theorem getSlot_slotState_same (p : Pool) (s : Nat) : (p.slotState s).1.getSlot s = some (p.slotState s).2 := by
  unfold Pool.slotState
  split
  · rename_i st hg; exact hg
  · rename_i hg
    unfold Pool.getSlot at hg ⊢
    dsimp only
    rw [find_append_single, hg]
    simp

theorem getSlot_slotState_other (p : Pool) (s x : Nat) (hx : x ≠ s) : (p.slotState s).1.getSlot x = p.getSlot x := by
  unfold Pool.slotState
  split
  · rfl
  · unfold Pool.getSlot
    dsimp only
    rw [find_append_single]
    cases List.find? (fun y => y.slot == x) p.slots with
    | some y => rfl
    | none =>
      have : (s == x) = false := by simp; omega
      simp [this]

/-- `slot_state(s)` returns the retained state or a fresh one -/
theorem slotState_snd (p : Pool) (s : Nat) :
    p.getSlot s = some (p.slotState s).2 ∨ (p.getSlot s = none ∧ (p.slotState s).2 = { slot := s }) := by
  unfold Pool.slotState
  split
  · rename_i st hg; exact Or.inl hg
  · rename_i hg; exact Or.inr ⟨hg, rfl⟩

theorem find_map_replace (l : List SlotState) (st : SlotState) (hany : l.any (fun x => x.slot == st.slot) = true) :
    (l.map (fun x => if x.slot == st.slot then st else x)).find? (fun x => x.slot == st.slot) = some st := by
  induction l with
  | nil => simp at hany
  | cons y ys ih =>
    simp only [List.map_cons, List.find?_cons]
    cases hy : y.slot == st.slot
    · simp only [Bool.false_eq_true, if_false, hy]
      simp only [List.any_cons, hy, Bool.false_or] at hany
      exact ih hany
    · simp

theorem getSlot_putSlot_same (p : Pool) (st : SlotState) : (p.putSlot st).getSlot st.slot = some st := by
  unfold Pool.putSlot
  split
  · rename_i hany
    exact find_map_replace p.slots st hany
  · rename_i hany
    unfold Pool.getSlot
    dsimp only
    rw [find_append_single]
    have : List.find? (fun x => x.slot == st.slot) p.slots = none := by
      rw [List.find?_eq_none]
      intro x hx hh
      exact hany (List.any_eq_true.mpr ⟨x, hx, hh⟩)
    rw [this]
    simp

theorem getSlot_putSlot_other (p : Pool) (st : SlotState) (x : Nat) (hx : x ≠ st.slot) :
    (p.putSlot st).getSlot x = p.getSlot x := by
  unfold Pool.putSlot
  split
  · unfold Pool.getSlot
    dsimp only
    induction p.slots with
    | nil => rfl
    | cons y ys ih =>
      simp only [List.map_cons, List.find?_cons]
      by_cases hy : y.slot == st.slot
      · have h1 : (st.slot == x) = false := by simp; omega
        have h2 : (y.slot == x) = false := by
          have : y.slot = st.slot := by simpa using hy
          simp [this]; omega
        simp only [hy, if_true, h1, h2]
        exact ih
      · simp only [hy, Bool.false_eq_true, if_false]
        cases hyx : y.slot == x
        · exact ih
        · rfl
  · unfold Pool.getSlot
    dsimp only
    rw [find_append_single]
    cases List.find? (fun y => y.slot == x) p.slots with
    | some y => rfl
    | none =>
      have : (st.slot == x) = false := by simp; omega
      simp [this]

theorem getSlot_pruneW (p : Pool) (x : Nat) : p.prune.getSlot x = if x < p.fin.first then none else p.getSlot x := by
  unfold Pool.prune Pool.getSlot
  dsimp only
  induction p.slots with
  | nil => simp
  | cons y ys ih =>
    simp only [List.filter_cons]
    by_cases hy : y.slot ≥ p.fin.first
    · simp only [hy, decide_true, if_true, List.find?_cons]
      cases hyx : y.slot == x
      · exact ih
      · have : y.slot = x := by simpa using hyx
        have : ¬ x < p.fin.first := by omega
        simp [this]
    · simp only [hy, decide_false, Bool.false_eq_true, if_false, List.find?_cons]
      cases hyx : y.slot == x
      · exact ih
      · have : y.slot = x := by simpa using hyx
        have : x < p.fin.first := by omega
        rw [ih]; simp [this]

theorem getSlot_slotW {p : Pool} {s : Nat} {st : SlotState} (h : p.getSlot s = some st) : st.slot = s :=
  (getSlot_mem p s st h).2

/-! ### operations that keep the certificate stores of the retained slots -/

/-- same slot, same certificate stores -/
def CertsEq (a b : SlotState) : Prop :=
  a.slot = b.slot ∧ a.cNotar = b.cNotar ∧ a.cNf = b.cNf ∧ a.cSkip = b.cSkip ∧ a.cFf = b.cFf ∧ a.cFin = b.cFin

theorem CertsEq.refl (a : SlotState) : CertsEq a a := ⟨rfl, rfl, rfl, rfl, rfl, rfl⟩
theorem CertsEq.trans {a b c : SlotState} (h1 : CertsEq a b) (h2 : CertsEq b c) : CertsEq a c :=
  ⟨h1.1.trans h2.1, h1.2.1.trans h2.2.1, h1.2.2.1.trans h2.2.2.1, h1.2.2.2.1.trans h2.2.2.2.1,
   h1.2.2.2.2.1.trans h2.2.2.2.2.1, h1.2.2.2.2.2.trans h2.2.2.2.2.2⟩

theorem CertsEq.of_coreEq {a b : SlotState} (h : CoreEq a b) : CertsEq a b :=
  ⟨(congrArg SlotState.slot h.eq : a.core.slot = b.core.slot),
   (congrArg SlotState.cNotar h.eq : a.core.cNotar = b.core.cNotar),
   (congrArg SlotState.cNf h.eq : a.core.cNf = b.core.cNf),
   (congrArg SlotState.cSkip h.eq : a.core.cSkip = b.core.cSkip),
   (congrArg SlotState.cFf h.eq : a.core.cFf = b.core.cFf),
   (congrArg SlotState.cFin h.eq : a.core.cFin = b.core.cFin)⟩

theorem CertsEq.certs {a b : SlotState} (h : CertsEq a b) : a.certs = b.certs := by
  unfold SlotState.certs
  rw [h.2.1, h.2.2.1, h.2.2.2.1, h.2.2.2.2.1, h.2.2.2.2.2]

/-- `p'` extends `p`: the watermark did not go back and every slot state retained in `p` at or above the new
    watermark is retained in `p'` with the same certificates -/
def Ext (p p' : Pool) : Prop :=
  p.fin.first ≤ p'.fin.first ∧
  ∀ x, p'.fin.first ≤ x → ∀ st, p.getSlot x = some st → ∃ st', p'.getSlot x = some st' ∧ CertsEq st st'

theorem Ext.refl (p : Pool) : Ext p p := ⟨Nat.le_refl _, fun _ _ st h => ⟨st, h, CertsEq.refl st⟩⟩

theorem Ext.trans {a b c : Pool} (h1 : Ext a b) (h2 : Ext b c) : Ext a c := by
  refine ⟨Nat.le_trans h1.1 h2.1, fun x hx st hs => ?_⟩
  obtain ⟨st1, g1, e1⟩ := h1.2 x (Nat.le_trans h2.1 hx) st hs
  obtain ⟨st2, g2, e2⟩ := h2.2 x hx st1 g1
  exact ⟨st2, g2, e1.trans e2⟩

/-- same finality tracker, same slot map -/
theorem Ext.of_same {p p' : Pool} (hf : p'.fin = p.fin) (hg : ∀ x, p'.getSlot x = p.getSlot x) : Ext p p' :=
  ⟨by rw [hf]; exact Nat.le_refl _, fun x _ st hs => ⟨st, by rw [hg]; exact hs, CertsEq.refl st⟩⟩

theorem slotState_fin (p : Pool) (s : Nat) : (p.slotState s).1.fin = p.fin := congrArg Trk.fin (slotState_trk p s)
theorem putSlot_fin (p : Pool) (st : SlotState) : (p.putSlot st).fin = p.fin := congrArg Trk.fin (putSlot_trk p st)

theorem ext_slotState (p : Pool) (s : Nat) : Ext p (p.slotState s).1 := by
  refine ⟨by rw [slotState_fin]; exact Nat.le_refl _, fun x _ st hs => ?_⟩
  by_cases hx : x = s
  · subst hx
    rcases slotState_snd p x with h | ⟨h, _⟩
    · rw [hs] at h; cases h
      exact ⟨_, getSlot_slotState_same p x, CertsEq.refl _⟩
    · rw [hs] at h; cases h
  · exact ⟨st, by rw [getSlot_slotState_other p s x hx]; exact hs, CertsEq.refl st⟩

/-- replacing a slot state by one with the same certificates -/
theorem ext_putSlot (p : Pool) (st : SlotState) (h : ∀ st0, p.getSlot st.slot = some st0 → CertsEq st0 st) :
    Ext p (p.putSlot st) := by
  refine ⟨by rw [putSlot_fin]; exact Nat.le_refl _, fun x _ st0 hs => ?_⟩
  by_cases hx : x = st.slot
  · subst hx
    exact ⟨st, getSlot_putSlot_same p st, h st0 hs⟩
  · exact ⟨st0, by rw [getSlot_putSlot_other p st x hx]; exact hs, CertsEq.refl st0⟩

theorem ext_prune (p : Pool) : Ext p p.prune := by
  refine ⟨Nat.le_refl _, fun x hx st hs => ⟨st, ?_, CertsEq.refl st⟩⟩
  have hx' : ¬ x < p.fin.first := by
    have : p.prune.fin.first = p.fin.first := rfl
    omega
  rw [getSlot_pruneW, if_neg hx']; exact hs

theorem ext_applyPr (p : Pool) (r : ParentReady.Res) : Ext p (p.applyPr r).1 := by
  unfold Pool.applyPr
  cases r with
  | none => exact Ext.refl p
  | some x => obtain ⟨pr, a, w⟩ := x; exact Ext.of_same rfl (fun _ => rfl)

/-- `handle_finalization` after a finality operation that does not move the watermark back -/
theorem ext_handleFin (p : Pool) (r : Finality.Res) (hmono : ∀ t ev, r = .ok t ev → p.fin.first ≤ t.first) :
    Ext p (p.handleFin r).1 := by
  unfold Pool.handleFin
  cases r with
  | panic => exact Ext.refl p
  | ok t ev =>
    dsimp only
    have h1 : Ext p { p with fin := t } := ⟨hmono t ev rfl, fun x _ st hs => ⟨st, hs, CertsEq.refl st⟩⟩
    exact (h1.trans (ext_applyPr _ _)).trans (ext_prune _)

theorem ext_notifyChildren (p : Pool) (kids : List (Nat × Nat)) (acc : List Event) :
    Ext p (p.notifyChildren kids acc).1 := by
  induction kids generalizing p acc with
  | nil => exact Ext.refl p
  | cons k ks ih =>
    obtain ⟨cs, ch⟩ := k
    unfold Pool.notifyChildren
    split
    · exact ih p acc
    · dsimp only
      split
      · exact ext_slotState p cs
      · rename_i st' evs hn
        have hce := notifyParentCertified_core (p.slotState cs).1.epoch (p.slotState cs).2 ch st' evs hn
        have hsl : st'.slot = cs := by
          rw [← coreEq_slot hce]
          exact getSlot_slotW (getSlot_slotState_same p cs)
        have h2 : Ext (p.slotState cs).1 ((p.slotState cs).1.putSlot st') := by
          apply ext_putSlot
          intro st0 hs
          rw [hsl, getSlot_slotState_same] at hs
          cases hs
          exact CertsEq.of_coreEq hce
        exact ((ext_slotState p cs).trans h2).trans (ih _ _)

theorem ext_notifyWaiting (p : Pool) (b : Nat × Nat) : Ext p (p.notifyWaiting b).1 := by
  unfold Pool.notifyWaiting
  exact (Ext.of_same rfl (fun _ => rfl) : Ext p { p with waiting := p.waiting.filter (·.1 ≠ b) }).trans
    (ext_notifyChildren _ _ _)

theorem ext_addWaiting (p : Pool) (par b : Nat × Nat) : Ext p (Pool.addWaiting p par b) := by
  unfold Pool.addWaiting
  split <;> exact Ext.of_same rfl (fun _ => rfl)

theorem ext_addBlockTail (p : Pool) (b par : Nat × Nat) (e0 : List Event) (cert : Bool) :
    Ext p (Pool.addBlockTail p b par e0 cert).1 := by
  unfold Pool.addBlockTail
  split
  · split
    · exact ext_slotState p b.1
    · rename_i st' evs hn
      have hce := notifyParentCertified_core (p.slotState b.1).1.epoch (p.slotState b.1).2 b.2 st' evs hn
      have hsl : st'.slot = b.1 := by
        rw [← coreEq_slot hce]
        exact getSlot_slotW (getSlot_slotState_same p b.1)
      have h2 : Ext (p.slotState b.1).1 ((p.slotState b.1).1.putSlot st') := by
        apply ext_putSlot
        intro st0 hs
        rw [hsl, getSlot_slotState_same] at hs
        cases hs
        exact CertsEq.of_coreEq hce
      split
      · exact ((ext_slotState p b.1).trans h2).trans (ext_addWaiting _ _ _)
      · exact (ext_slotState p b.1).trans h2
  · exact ext_addWaiting p par b

/-! ### every logged certificate of a retained slot is still held (by kind, slot, block) -/

/-- the slot state holds a certificate of `c`'s kind (for `c`'s block, where the kind names one) -/
def HeldKey (st : SlotState) (c : Cert) : Prop :=
  match c.kind with
  | .notar => ∃ c', st.cNotar = some c' ∧ c'.hash = c.hash
  | .nf => st.isNf c.hash = true
  | .skip => st.cSkip.isSome = true
  | .ff => ∃ c', st.cFf = some c' ∧ c'.hash = c.hash
  | .final => st.cFin.isSome = true

theorem HeldKey.of_certsEq {a b : SlotState} (h : CertsEq a b) {c : Cert} (hk : HeldKey a c) : HeldKey b c := by
  unfold HeldKey SlotState.isNf at *
  rw [← h.2.1, ← h.2.2.1, ← h.2.2.2.1, ← h.2.2.2.2.1, ← h.2.2.2.2.2]
  exact hk

theorem heldKey_addCert_self (st : SlotState) (c : Cert) : HeldKey (st.addCert c) c := by
  unfold HeldKey SlotState.addCert
  cases hk : c.kind <;> dsimp only
  · exact ⟨c, rfl, rfl⟩
  · split
    · assumption
    · simp [SlotState.isNf]
  · rfl
  · exact ⟨c, rfl, rfl⟩
  · rfl

theorem addCert_cNotar_eq (st : SlotState) (c : Cert) :
    (st.addCert c).cNotar = if c.kind = .notar then some c else st.cNotar := by
  unfold SlotState.addCert
  cases c.kind <;> dsimp only
  · rfl
  · split <;> rfl
  all_goals rfl

theorem addCert_cFf_eq (st : SlotState) (c : Cert) :
    (st.addCert c).cFf = if c.kind = .ff then some c else st.cFf := by
  unfold SlotState.addCert
  cases c.kind <;> dsimp only
  · rfl
  · split <;> rfl
  all_goals rfl

theorem heldKey_addCert_other (st : SlotState) (c c0 : Cert) (h : HeldKey st c0)
    (hagree : c0.kind = c.kind → (c.kind = .notar ∨ c.kind = .ff) → c0.hash = c.hash) :
    HeldKey (st.addCert c) c0 := by
  unfold HeldKey at h ⊢
  cases hk0 : c0.kind <;> rw [hk0] at h <;> dsimp only at h ⊢
  · -- notar
    by_cases hk : c.kind = .notar
    · rw [addCert_cNotar_eq, if_pos hk]
      exact ⟨c, rfl, (hagree (by rw [hk0, hk]) (Or.inl hk)).symm⟩
    · rw [addCert_cNotar_eq, if_neg hk]; exact h
  · rw [addCert_isNf]; simp [h]
  · rw [addCert_cSkip]; simp [h]
  · by_cases hk : c.kind = .ff
    · rw [addCert_cFf_eq, if_pos hk]
      exact ⟨c, rfl, (hagree (by rw [hk0, hk]) (Or.inr hk)).symm⟩
    · rw [addCert_cFf_eq, if_neg hk]; exact h
  · rw [addCert_cFin]; simp [h]

/-- **logged ⇒ held**: every certificate of the log whose slot is at or above the watermark is held by the slot
    state of its slot (by kind and block) -/
def LogHeld (p : Pool) (L : List LogItem) : Prop :=
  ∀ c, LogItem.cert c ∈ L → p.fin.first ≤ c.slot → ∃ st, p.getSlot c.slot = some st ∧ HeldKey st c

theorem LogHeld.ext {p p' : Pool} {L : List LogItem} (h : LogHeld p L) (he : Ext p p') : LogHeld p' L := by
  intro c hc hf
  obtain ⟨st, hg, hk⟩ := h c hc (Nat.le_trans he.1 hf)
  obtain ⟨st', hg', e⟩ := he.2 c.slot hf st hg
  exact ⟨st', hg', hk.of_certsEq e⟩

theorem LogHeld.block {p : Pool} {L : List LogItem} (h : LogHeld p L) (b par : Nat × Nat) :
    LogHeld p (L ++ [.block b par]) := by
  intro c hc hf
  rcases List.mem_append.mp hc with hc | hc
  · exact h c hc hf
  · simp at hc

theorem mem_finOps_notar {L : List LogItem} {c : Cert} (hm : LogItem.cert c ∈ L) (hk : c.kind = .notar) :
    Finality.Op.notar (c.slot, c.hash) ∈ finOps L := by
  unfold finOps
  rw [List.mem_flatMap]
  exact ⟨.cert c, hm, by simp [LogItem.finOp, hk]⟩

theorem mem_finOps_ff {L : List LogItem} {c : Cert} (hm : LogItem.cert c ∈ L) (hk : c.kind = .ff) :
    Finality.Op.fastFinal (c.slot, c.hash) ∈ finOps L := by
  unfold finOps
  rw [List.mem_flatMap]
  exact ⟨.cert c, hm, by simp [LogItem.finOp, hk]⟩

theorem mem_finOps_final {L : List LogItem} {c : Cert} (hm : LogItem.cert c ∈ L) (hk : c.kind = .final) :
    Finality.Op.final c.slot ∈ finOps L := by
  unfold finOps
  rw [List.mem_flatMap]
  exact ⟨.cert c, hm, by simp [LogItem.finOp, hk]⟩

/-- under the safety premise two logged notarization (fast-finalization) certificates of one slot name the same block -/
theorem logged_agree {L : List LogItem} (sf : Finality.Safe (finOps L)) {c c0 : Cert}
    (hm : LogItem.cert c ∈ L) (hm0 : LogItem.cert c0 ∈ L) (hs : c0.slot = c.slot) (hk : c0.kind = c.kind)
    (hn : c.kind = .notar ∨ c.kind = .ff) : c0.hash = c.hash := by
  rcases hn with hn | hn
  · have := sf.notar_fun (c0.slot, c0.hash) (c.slot, c.hash) (Or.inr (mem_finOps_notar hm0 (hk.trans hn)))
      (Or.inr (mem_finOps_notar hm hn)) hs
    exact congrArg Prod.snd this
  · have := sf.final_fun (c0.slot, c0.hash) (c.slot, c.hash)
      (.direct (Or.inl (mem_finOps_ff hm0 (hk.trans hn)))) (.direct (Or.inl (mem_finOps_ff hm hn))) hs
    exact congrArg Prod.snd this

/-- storing the certificate (`slot_state(slot).add_cert(cert)`) -/
theorem logHeld_store (p : Pool) (c : Cert) (L : List LogItem) (h : LogHeld p L)
    (sf : Finality.Safe (finOps (L ++ [.cert c]))) :
    LogHeld ((p.slotState c.slot).1.putSlot ((p.slotState c.slot).2.addCert c)) (L ++ [.cert c]) := by
  have hsl : ((p.slotState c.slot).2.addCert c).slot = c.slot := by
    rw [← (SameVotes.addCert _ c).slot]
    exact getSlot_slotW (getSlot_slotState_same p c.slot)
  intro c0 hc0 hf
  rw [putSlot_fin, slotState_fin] at hf
  by_cases hs : c0.slot = c.slot
  · have hgp := getSlot_putSlot_same (p.slotState c.slot).1 ((p.slotState c.slot).2.addCert c)
    rw [hsl] at hgp
    refine ⟨_, by rw [hs]; exact hgp, ?_⟩
    rcases List.mem_append.mp hc0 with hm | hm
    · obtain ⟨st0, hg0, hk0⟩ := h c0 hm hf
      rw [hs] at hg0
      rcases slotState_snd p c.slot with e | ⟨e, _⟩
      · rw [hg0] at e; cases e
        apply heldKey_addCert_other _ c c0 hk0
        intro hk hn
        exact logged_agree sf (List.mem_append_right _ (List.mem_singleton.mpr rfl)) (List.mem_append_left _ hm) hs hk hn
      · rw [hg0] at e; cases e
    · have : c0 = c := by simpa using hm
      subst this
      exact heldKey_addCert_self _ _
  · have hm : LogItem.cert c0 ∈ L := by
      rcases List.mem_append.mp hc0 with hm | hm
      · exact hm
      · have : c0 = c := by simpa using hm
        exact absurd (by rw [this]) hs
    obtain ⟨st0, hg0, hk0⟩ := h c0 hm hf
    refine ⟨st0, ?_, hk0⟩
    rw [getSlot_putSlot_other _ _ _ (by rw [hsl]; exact hs), getSlot_slotState_other _ _ _ hs]
    exact hg0

theorem fin_step_first_le {t t' : Finality.Tracker} (hi : Finality.Inv t) {op : Finality.Op} {ev : Finality.Event}
    (h : Finality.step t op = .ok t' ev) : t.first ≤ t'.first := (Finality.step_spec hi h).first

/-- the tracker / notification part of `add_valid_cert` extends the pool -/
theorem ext_addValidCert (p : Pool) (c : Cert) (hi : Finality.Inv p.fin) :
    Ext ((p.slotState c.slot).1.putSlot ((p.slotState c.slot).2.addCert c)) (p.addValidCert c).1 := by
  have hq : ((p.slotState c.slot).1.putSlot ((p.slotState c.slot).2.addCert c)).fin = p.fin := by
    rw [putSlot_fin, slotState_fin]
  unfold Pool.addValidCert
  dsimp only
  generalize ((p.slotState c.slot).1.putSlot ((p.slotState c.slot).2.addCert c)) = q at hq ⊢
  have hiq : Finality.Inv q.fin := by rw [hq]; exact hi
  cases hk : c.kind <;> dsimp only
  · simp only [show (CertKind.notar == CertKind.notar) = true from rfl, if_true]
    have h1 := ext_handleFin q (Finality.markNotarized q.fin (c.slot, c.hash))
      (fun t ev h => fin_step_first_le hiq (op := .notar (c.slot, c.hash)) h)
    exact (h1.trans (ext_notifyWaiting _ _)).trans (ext_applyPr _ _)
  · simp only [show (CertKind.nf == CertKind.notar) = false from rfl, Bool.false_eq_true, if_false]
    exact (ext_notifyWaiting _ _).trans (ext_applyPr _ _)
  · exact ext_applyPr _ _
  · have h1 := ext_handleFin q (Finality.markFastFinalized q.fin (c.slot, c.hash))
      (fun t ev h => fin_step_first_le hiq (op := .fastFinal (c.slot, c.hash)) h)
    exact h1.trans (ext_notifyWaiting _ _)
  · exact ext_handleFin q (Finality.markFinalized q.fin c.slot)
      (fun t ev h => fin_step_first_le hiq (op := .final c.slot) h)

/-- **`add_valid_cert` keeps logged ⇒ held** -/
theorem logHeld_addValidCert (p : Pool) (c : Cert) (L : List LogItem) (h : LogHeld p L) (hi : Finality.Inv p.fin)
    (sf : Finality.Safe (finOps (L ++ [.cert c]))) : LogHeld (p.addValidCert c).1 (L ++ [.cert c]) :=
  (logHeld_store p c L h sf).ext (ext_addValidCert p c hi)

/-! ### the shape of `add_vote` / `add_cert` -/

/-- the pool after the vote was stored and counted, before the created certificates are added -/
def addVoteQ (p : Pool) (v : Vote) : Pool :=
  (p.slotState v.slot).1.putSlot ((p.slotState v.slot).2.addVote (p.slotState v.slot).1.epoch v).1
/-- the certificates created by the vote -/
def addVoteCs (p : Pool) (v : Vote) : List Cert :=
  ((p.slotState v.slot).2.addVote (p.slotState v.slot).1.epoch v).2.1

theorem addVote_shape (p : Pool) (v : Vote) :
    (((p.addVote v).1 = p ∨ (p.addVote v).1 = (p.slotState v.slot).1) ∧ certsOf (p.addVote v).2.2 = []) ∨
    (Adm (p.slotState v.slot).2 v ∧ (p.addVote v).1 = ((addVoteQ p v).addValidCerts (addVoteCs p v) []).1 ∧
      certsOf (p.addVote v).2.2 = (addVoteCs p v).map LogItem.cert) := by
  unfold Pool.addVote addVoteQ addVoteCs
  split
  · exact Or.inl ⟨Or.inl rfl, rfl⟩
  split
  · exact Or.inl ⟨Or.inl rfl, rfl⟩
  dsimp only
  split
  · exact Or.inl ⟨Or.inr rfl, rfl⟩
  · split
    · exact Or.inl ⟨Or.inr rfl, rfl⟩
    · rename_i hsl hig
      right
      refine ⟨⟨hsl, by simpa using hig⟩, rfl, ?_⟩
      dsimp only
      rw [certsOf_append, certsOf_addValidCerts, certsOf_quiet (slot_addVote_quiet _ _ _)]
      simp [certsOf]

theorem stored_certsEq (e : Epoch) (st : SlotState) (v : Vote) : CertsEq st (st.stored e v) := by
  refine ⟨(stored_slot e st v).symm, (stored_cNotar e st v).symm, ?_, (stored_cSkip e st v).symm,
    (stored_cFf e st v).symm, (stored_cFin e st v).symm⟩
  unfold SlotState.stored; cases v.kind <;> rfl

theorem slot_addVote_certsEq (e : Epoch) (st : SlotState) (v : Vote) : CertsEq st (st.addVote e v).1 :=
  (stored_certsEq e st v).trans (CertsEq.of_coreEq (addVote_core e st v).symm)

theorem addVoteQ_trk (p : Pool) (v : Vote) : (addVoteQ p v).trk = p.trk := by
  unfold addVoteQ; rw [putSlot_trk, slotState_trk]

theorem ext_addVoteQ (p : Pool) (v : Vote) : Ext p (addVoteQ p v) := by
  unfold addVoteQ
  refine (ext_slotState p v.slot).trans (ext_putSlot _ _ ?_)
  intro st0 hs
  have hsl : ((p.slotState v.slot).2.addVote (p.slotState v.slot).1.epoch v).1.slot = v.slot := by
    rw [← (slot_addVote_certsEq _ _ v).1]
    exact getSlot_slotW (getSlot_slotState_same p v.slot)
  rw [hsl, getSlot_slotState_same] at hs
  cases hs
  exact slot_addVote_certsEq _ _ v

theorem addCert_shape (p : Pool) (c : Cert) :
    (((p.addCert c).1 = p ∨ (p.addCert c).1 = (p.slotState c.slot).1) ∧ certsOf (p.addCert c).2.2 = []) ∨
    (p.outOfBounds c.slot = false ∧ (p.addCert c).1 = ((p.slotState c.slot).1.addValidCert c).1 ∧
      certsOf (p.addCert c).2.2 = [.cert c]) := by
  unfold Pool.addCert
  split
  · exact Or.inl ⟨Or.inl rfl, rfl⟩
  rename_i hob
  dsimp only
  split <;> split
  all_goals first
    | exact Or.inl ⟨Or.inr rfl, rfl⟩
    | exact Or.inr ⟨by simpa using hob, rfl, certsOf_addValidCert _ _⟩

/-! ### `HeldLog`: wired, and logged ⇒ held -/

structure HeldLog (p : Pool) (L : List LogItem) : Prop where
  wired : Wired p.trk L
  logHeld : LogHeld p L

theorem finState_inv {L : List LogItem} (hs : Finality.Safe (finOps L)) : Finality.Inv (finState L) := by
  obtain ⟨fevs, hrun, _⟩ := trace_inv L hs
  exact (Finality.run_inv Finality.inv_init hrun).1

theorem HeldLog.inv {p : Pool} {L : List LogItem} (h : HeldLog p L) (hs : Finality.Safe (finOps L)) : Finality.Inv p.fin := by
  have := finState_inv hs
  rw [h.wired.fin] at this
  exact this

theorem HeldLog.ext {p p' : Pool} {L : List LogItem} (h : HeldLog p L) (ht : p'.trk = p.trk) (he : Ext p p') : HeldLog p' L :=
  ⟨by rw [ht]; exact h.wired, h.logHeld.ext he⟩

theorem held_addValidCert (p : Pool) (c : Cert) (L : List LogItem) (h : HeldLog p L) (hc : Consistent (L ++ [.cert c])) :
    HeldLog (p.addValidCert c).1 (L ++ [.cert c]) :=
  ⟨addValidCert_wired p c L h.wired hc, logHeld_addValidCert p c L h.logHeld (h.inv hc.prefix.safe) hc.safe⟩

theorem held_addValidCerts (cs : List Cert) (p : Pool) (acc : List Event) (L : List LogItem) (h : HeldLog p L)
    (hc : Consistent (L ++ cs.map LogItem.cert)) : HeldLog (p.addValidCerts cs acc).1 (L ++ cs.map LogItem.cert) := by
  induction cs generalizing p acc L with
  | nil => simpa [Pool.addValidCerts] using h
  | cons c cs ih =>
    unfold Pool.addValidCerts
    dsimp only
    have e : L ++ (c :: cs).map LogItem.cert = (L ++ [.cert c]) ++ cs.map LogItem.cert := by simp
    rw [e] at hc ⊢
    exact ih (p.addValidCert c).1 (acc ++ (p.addValidCert c).2) (L ++ [.cert c]) (held_addValidCert p c L h hc.prefix) hc

theorem held_addVote (p : Pool) (v : Vote) (L : List LogItem) (h : HeldLog p L)
    (hc : Consistent (L ++ certsOf (p.addVote v).2.2)) : HeldLog (p.addVote v).1 (L ++ certsOf (p.addVote v).2.2) := by
  rcases addVote_shape p v with ⟨h1 | h1, h2⟩ | ⟨_, h2, h3⟩
  · rw [h1, h2, List.append_nil]; exact h
  · rw [h1, h2, List.append_nil]; exact h.ext (slotState_trk _ _) (ext_slotState _ _)
  · rw [h3] at hc ⊢
    rw [h2]
    exact held_addValidCerts _ _ [] L (h.ext (addVoteQ_trk p v) (ext_addVoteQ p v)) hc

theorem held_addCert (p : Pool) (c : Cert) (L : List LogItem) (h : HeldLog p L)
    (hc : Consistent (L ++ certsOf (p.addCert c).2.2)) : HeldLog (p.addCert c).1 (L ++ certsOf (p.addCert c).2.2) := by
  rcases addCert_shape p c with ⟨h1 | h1, h2⟩ | ⟨_, h2, h3⟩
  · rw [h1, h2, List.append_nil]; exact h
  · rw [h1, h2, List.append_nil]; exact h.ext (slotState_trk _ _) (ext_slotState _ _)
  · rw [h3] at hc ⊢
    rw [h2]
    exact held_addValidCert _ c L (h.ext (slotState_trk _ _) (ext_slotState _ _)) hc

theorem notifyParentKnown_certsEq (st : SlotState) (h : Nat) : CertsEq st (st.notifyParentKnown h) := by
  unfold SlotState.notifyParentKnown
  split
  · exact CertsEq.refl st
  · exact ⟨rfl, rfl, rfl, rfl, rfl, rfl⟩

theorem ext_addBlock (p : Pool) (b par : Nat × Nat) (hi : Finality.Inv p.fin) : Ext p (p.addBlock b par).1 := by
  unfold Pool.addBlock
  split
  · exact Ext.refl p
  have hh := ext_handleFin p (Finality.addParent p.fin b par)
    (fun t ev h => fin_step_first_le hi (op := .parent b par) h)
  unfold Pool.handleFin at hh
  cases hr : Finality.addParent p.fin b par with
  | panic => exact Ext.refl p
  | ok t ev =>
    rw [hr] at hh
    dsimp only at hh ⊢
    split
    · exact hh
    · refine hh.trans ?_
      generalize (({ p with fin := t } : Pool).applyPr (ParentReady.handleFinalization p.pr ev)).1.prune = q
      have h2 : Ext (q.slotState b.1).1 ((q.slotState b.1).1.putSlot ((q.slotState b.1).2.notifyParentKnown b.2)) := by
        apply ext_putSlot
        intro st0 hs
        have hsl : ((q.slotState b.1).2.notifyParentKnown b.2).slot = b.1 := by
          rw [← (notifyParentKnown_certsEq _ _).1]
          exact getSlot_slotW (getSlot_slotState_same q b.1)
        rw [hsl, getSlot_slotState_same] at hs
        cases hs
        exact notifyParentKnown_certsEq _ _
      exact ((ext_slotState q b.1).trans h2).trans (ext_addBlockTail _ _ _ _ _)

theorem held_addBlock (p : Pool) (b par : Nat × Nat) (L : List LogItem) (h : HeldLog p L)
    (hc : Consistent (L ++ [.block b par])) : HeldLog (p.addBlock b par).1 (L ++ [.block b par]) :=
  ⟨addBlock_wired p b par L h.wired hc, (h.logHeld.ext (ext_addBlock p b par (h.inv hc.prefix.safe))).block b par⟩

theorem held_poolStep (p : Pool) (op : PoolOp) (L : List LogItem) (h : HeldLog p L)
    (hc : Consistent (L ++ stepItems op (poolStep p op).2)) :
    HeldLog (poolStep p op).1 (L ++ stepItems op (poolStep p op).2) := by
  cases op with
  | vote v => exact held_addVote p v L h (by simpa [stepItems, poolStep] using hc)
  | cert c => exact held_addCert p c L h (by simpa [stepItems, poolStep] using hc)
  | block b par =>
    have : stepItems (.block b par) (poolStep p (.block b par)).2 = [.block b par] := by
      simp [stepItems, poolStep, certsOf_addBlock]
    rw [this] at hc ⊢
    exact held_addBlock p b par L h hc

theorem held_poolRun (ops : List PoolOp) (p : Pool) (L : List LogItem) (h : HeldLog p L)
    (hc : Consistent (L ++ poolLog p ops)) : HeldLog (poolRun p ops).1 (L ++ poolLog p ops) := by
  induction ops generalizing p L with
  | nil => simpa [poolLog, poolRun] using h
  | cons op ops ih =>
    simp only [poolLog, poolRun] at hc ⊢
    rw [← List.append_assoc] at hc ⊢
    exact ih _ _ (held_poolStep p op L h hc.prefix) hc

theorem HeldLog.init (e : Epoch) : HeldLog ({ epoch := e } : Pool) [] :=
  ⟨Wired.init e, fun c hc => by cases hc⟩

/-! ### per-slot-state predicates along the pool operations (generic) -/

section generic
variable (P : SlotState → Prop) (hnew : ∀ x, P { slot := x }) (hce : ∀ a b, CoreEq a b → P a → P b)
include hnew hce

theorem allSlots_addValidCert (p : Pool) (c : Cert) (hall : AllSlots p P)
    (hadd : ∀ st, P st → st.slot = c.slot → P (st.addCert c)) : AllSlots (p.addValidCert c).1 P := by
  have h0 := slotState_spec p c.slot P hall (hnew c.slot)
  exact (addValidCert_tail p c P hnew hce (fun x hx _ => h0.1 x hx) (hadd _ h0.2.1 h0.2.2.1)).1

theorem allSlots_addValidCerts (cs : List Cert) (p : Pool) (acc : List Event) (hall : AllSlots p P)
    (hadd : ∀ c ∈ cs, ∀ st, P st → st.slot = c.slot → P (st.addCert c)) : AllSlots (p.addValidCerts cs acc).1 P := by
  induction cs generalizing p acc with
  | nil => exact hall
  | cons c cs ih =>
    unfold Pool.addValidCerts
    dsimp only
    exact ih _ _ (allSlots_addValidCert P hnew hce p c hall (hadd c List.mem_cons_self))
      (fun c' hc' => hadd c' (List.mem_cons_of_mem _ hc'))

theorem allSlots_addVoteQ (p : Pool) (v : Vote) (hall : AllSlots p P)
    (hvote : ∀ st, P st → st.slot = v.slot → P (st.addVote p.epoch v).1) : AllSlots (addVoteQ p v) P := by
  have h0 := slotState_spec p v.slot P hall (hnew v.slot)
  unfold addVoteQ
  rw [h0.2.2.2.1]
  exact (putSlot_spec _ _ P h0.1 (hvote _ h0.2.1 h0.2.2.1)).1

theorem allSlots_addVote (p : Pool) (v : Vote) (hall : AllSlots p P)
    (hvote : ∀ st, P st → st.slot = v.slot → P (st.addVote p.epoch v).1)
    (hadd : ∀ c ∈ addVoteCs p v, ∀ st, P st → st.slot = c.slot → P (st.addCert c)) : AllSlots (p.addVote v).1 P := by
  rcases addVote_shape p v with ⟨h1 | h1, _⟩ | ⟨_, h2, _⟩
  · rw [h1]; exact hall
  · rw [h1]; exact (slotState_spec p v.slot P hall (hnew v.slot)).1
  · rw [h2]
    exact allSlots_addValidCerts P hnew hce _ _ [] (allSlots_addVoteQ P hnew hce p v hall hvote) hadd

theorem allSlots_addCert (p : Pool) (c : Cert) (hall : AllSlots p P)
    (hadd : ∀ st, P st → st.slot = c.slot → P (st.addCert c)) : AllSlots (p.addCert c).1 P := by
  rcases addCert_shape p c with ⟨h1 | h1, _⟩ | ⟨_, h2, _⟩
  · rw [h1]; exact hall
  · rw [h1]; exact (slotState_spec p c.slot P hall (hnew c.slot)).1
  · rw [h2]
    exact allSlots_addValidCert P hnew hce _ c (slotState_spec p c.slot P hall (hnew c.slot)).1 hadd

theorem allSlots_addWaiting (p : Pool) (par b : Nat × Nat) (hall : AllSlots p P) : AllSlots (Pool.addWaiting p par b) P := by
  rw [AllSlots, (addWaiting_spec p par b).1]; exact hall

theorem allSlots_addBlockTail (p : Pool) (b par : Nat × Nat) (e0 : List Event) (cert : Bool) (hall : AllSlots p P) :
    AllSlots (Pool.addBlockTail p b par e0 cert).1 P := by
  unfold Pool.addBlockTail
  split
  · have k0 := slotState_spec p b.1 P hall (hnew b.1)
    split
    · exact k0.1
    · rename_i st' evs hn
      have hce' := notifyParentCertified_core (p.slotState b.1).1.epoch (p.slotState b.1).2 b.2 st' evs hn
      have k1 := putSlot_spec (p.slotState b.1).1 st' P k0.1 (hce _ _ hce' k0.2.1)
      split
      · exact allSlots_addWaiting P hnew hce _ _ _ k1.1
      · exact k1.1
  · exact allSlots_addWaiting P hnew hce _ _ _ hall

theorem allSlots_addBlock (p : Pool) (b par : Nat × Nat) (hall : AllSlots p P)
    (hpk : ∀ st, P st → P (st.notifyParentKnown b.2)) : AllSlots (p.addBlock b par).1 P := by
  unfold Pool.addBlock
  split
  · exact hall
  split
  · exact hall
  rename_i t ev _
  have h1 := applyPr_spec { p with fin := t } (ParentReady.handleFinalization p.pr ev) P hall
  have h2 := prune_spec _ P h1.1
  dsimp only
  generalize (({ p with fin := t } : Pool).applyPr (ParentReady.handleFinalization p.pr ev)).1.prune = q at h2
  split
  · exact h2.1
  · have g0 := slotState_spec q b.1 P h2.1 (hnew b.1)
    have g1 := putSlot_spec (q.slotState b.1).1 ((q.slotState b.1).2.notifyParentKnown b.2) P g0.1 (hpk _ g0.2.1)
    exact allSlots_addBlockTail P hnew hce _ b par _ _ g1.1

end generic

/-! ### every held certificate was logged -/

/-- the certificate stores of a slot state are well-formed: right kind in each store, the state's own slot -/
def WF (st : SlotState) : Prop :=
  (∀ c, st.cNotar = some c → c.kind = .notar ∧ c.slot = st.slot) ∧
  (∀ c ∈ st.cNf, c.kind = .nf ∧ c.slot = st.slot) ∧
  (∀ c, st.cSkip = some c → c.kind = .skip ∧ c.slot = st.slot) ∧
  (∀ c, st.cFf = some c → c.kind = .ff ∧ c.slot = st.slot) ∧
  (∀ c, st.cFin = some c → c.kind = .final ∧ c.slot = st.slot)

/-- **held ⇒ logged** (and well-formed) -/
def HL (L : List LogItem) (st : SlotState) : Prop := WF st ∧ ∀ c ∈ st.certs, LogItem.cert c ∈ L

theorem HL.fresh (L : List LogItem) (x : Nat) : HL L { slot := x } := by
  refine ⟨⟨?_, ?_, ?_, ?_, ?_⟩, ?_⟩ <;> intro c hc <;> simp [SlotState.certs] at hc

theorem HL.of_certsEq {L : List LogItem} {a b : SlotState} (h : CertsEq a b) (i : HL L a) : HL L b := by
  obtain ⟨⟨w1, w2, w3, w4, w5⟩, hl⟩ := i
  obtain ⟨e0, e1, e2, e3, e4, e5⟩ := h
  refine ⟨⟨?_, ?_, ?_, ?_, ?_⟩, ?_⟩
  · rw [← e1, ← e0]; exact w1
  · rw [← e2, ← e0]; exact w2
  · rw [← e3, ← e0]; exact w3
  · rw [← e4, ← e0]; exact w4
  · rw [← e5, ← e0]; exact w5
  · rw [← (CertsEq.certs ⟨e0, e1, e2, e3, e4, e5⟩)]; exact hl

theorem HL.mono {L L' : List LogItem} (hs : ∀ x, x ∈ L → x ∈ L') {st : SlotState} (i : HL L st) : HL L' st :=
  ⟨i.1, fun c hc => hs _ (i.2 c hc)⟩

theorem HL.addCert {L : List LogItem} {st : SlotState} {c : Cert} (i : HL L st) (hm : LogItem.cert c ∈ L)
    (hs : st.slot = c.slot) : HL L (st.addCert c) := by
  obtain ⟨⟨w1, w2, w3, w4, w5⟩, hl⟩ := i
  have hsl : (st.addCert c).slot = st.slot := ((SameVotes.addCert st c).slot).symm
  have hl' : ∀ x, x ∈ st.certs → LogItem.cert x ∈ L := hl
  simp only [mem_certs] at hl'
  unfold HL WF
  simp only [mem_certs, hsl]
  unfold SlotState.addCert
  cases hk : c.kind <;> dsimp only
  · refine ⟨⟨fun x hx => ?_, w2, w3, w4, w5⟩, fun x hx => ?_⟩
    · cases hx; exact ⟨hk, hs.symm⟩
    · rcases hx with h | h | h | h | h
      · exact hl' x (Or.inl h)
      · exact hl' x (Or.inr (Or.inl h))
      · cases h; exact hm
      · exact hl' x (Or.inr (Or.inr (Or.inr (Or.inl h))))
      · exact hl' x (Or.inr (Or.inr (Or.inr (Or.inr h))))
  · split
    · exact ⟨⟨w1, w2, w3, w4, w5⟩, hl'⟩
    · refine ⟨⟨w1, fun x hx => ?_, w3, w4, w5⟩, fun x hx => ?_⟩
      · rcases List.mem_append.mp hx with h | h
        · exact w2 x h
        · simp at h; subst h; exact ⟨hk, hs.symm⟩
      · rcases hx with h | h | h | h | h
        · exact hl' x (Or.inl h)
        · exact hl' x (Or.inr (Or.inl h))
        · exact hl' x (Or.inr (Or.inr (Or.inl h)))
        · rcases List.mem_append.mp h with h | h
          · exact hl' x (Or.inr (Or.inr (Or.inr (Or.inl h))))
          · simp at h; subst h; exact hm
        · exact hl' x (Or.inr (Or.inr (Or.inr (Or.inr h))))
  · refine ⟨⟨w1, w2, fun x hx => ?_, w4, w5⟩, fun x hx => ?_⟩
    · cases hx; exact ⟨hk, hs.symm⟩
    · rcases hx with h | h | h | h | h
      · exact hl' x (Or.inl h)
      · exact hl' x (Or.inr (Or.inl h))
      · exact hl' x (Or.inr (Or.inr (Or.inl h)))
      · exact hl' x (Or.inr (Or.inr (Or.inr (Or.inl h))))
      · cases h; exact hm
  · refine ⟨⟨w1, w2, w3, fun x hx => ?_, w5⟩, fun x hx => ?_⟩
    · cases hx; exact ⟨hk, hs.symm⟩
    · rcases hx with h | h | h | h | h
      · exact hl' x (Or.inl h)
      · cases h; exact hm
      · exact hl' x (Or.inr (Or.inr (Or.inl h)))
      · exact hl' x (Or.inr (Or.inr (Or.inr (Or.inl h))))
      · exact hl' x (Or.inr (Or.inr (Or.inr (Or.inr h))))
  · refine ⟨⟨w1, w2, w3, w4, fun x hx => ?_⟩, fun x hx => ?_⟩
    · cases hx; exact ⟨hk, hs.symm⟩
    · rcases hx with h | h | h | h | h
      · cases h; exact hm
      · exact hl' x (Or.inr (Or.inl h))
      · exact hl' x (Or.inr (Or.inr (Or.inl h)))
      · exact hl' x (Or.inr (Or.inr (Or.inr (Or.inl h))))
      · exact hl' x (Or.inr (Or.inr (Or.inr (Or.inr h))))

theorem hl_poolStep (p : Pool) (op : PoolOp) (L : List LogItem) (hall : AllSlots p (HL L)) :
    AllSlots (poolStep p op).1 (HL (L ++ stepItems op (poolStep p op).2)) := by
  have hmono : AllSlots p (HL (L ++ stepItems op (poolStep p op).2)) :=
    fun st hst => (hall st hst).mono (fun _ hx => List.mem_append_left _ hx)
  have hce : ∀ a b, CoreEq a b → HL (L ++ stepItems op (poolStep p op).2) a → HL (L ++ stepItems op (poolStep p op).2) b :=
    fun a b h i => i.of_certsEq (CertsEq.of_coreEq h)
  cases op with
  | vote v =>
    show AllSlots (p.addVote v).1 _
    rcases addVote_shape p v with ⟨h1 | h1, _⟩ | ⟨_, h2, h3⟩
    · rw [h1]; exact hmono
    · rw [h1]; exact (slotState_spec p v.slot _ hmono (HL.fresh _ _)).1
    · rw [h2]
      apply allSlots_addValidCerts _ (HL.fresh _) hce _ _ []
      · apply allSlots_addVoteQ _ (HL.fresh _) hce p v hmono
        intro st i _; exact i.of_certsEq (slot_addVote_certsEq _ _ _)
      · intro c hc st i hs
        apply i.addCert _ hs
        apply List.mem_append_right
        simp only [stepItems, poolStep, List.nil_append, h3]
        exact List.mem_map.mpr ⟨c, hc, rfl⟩
  | cert c =>
    show AllSlots (p.addCert c).1 _
    rcases addCert_shape p c with ⟨h1 | h1, _⟩ | ⟨_, h2, h3⟩
    · rw [h1]; exact hmono
    · rw [h1]; exact (slotState_spec p c.slot _ hmono (HL.fresh _ _)).1
    · apply allSlots_addCert _ (HL.fresh _) hce p c hmono
      intro st i hs
      apply i.addCert _ hs
      apply List.mem_append_right
      simp only [stepItems, poolStep, List.nil_append, h3]
      exact List.mem_singleton.mpr rfl
  | block b par =>
    show AllSlots (p.addBlock b par).1 _
    apply allSlots_addBlock _ (HL.fresh _) hce p b par hmono
    intro st i; exact i.of_certsEq (notifyParentKnown_certsEq _ _)

/-- **Every held certificate was logged**, in every pool reachable from a pool with this property. -/
theorem hl_poolRun (ops : List PoolOp) (p : Pool) (L : List LogItem) (hall : AllSlots p (HL L)) :
    AllSlots (poolRun p ops).1 (HL (L ++ poolLog p ops)) := by
  induction ops generalizing p L with
  | nil => simpa [poolLog, poolRun] using hall
  | cons op ops ih =>
    simp only [poolLog, poolRun]
    rw [← List.append_assoc]
    exact ih _ _ (hl_poolStep p op L hall)

/-! ### a receiver of own votes only: no vote creates a certificate (own stake below the quorum threshold) -/

/-- all stored votes are the node's own -/
def OwnVotes (e : Epoch) (st : SlotState) : Prop :=
  (∀ x ∈ st.vNotar, x.1 = e.own) ∧ (∀ x ∈ st.vNf, x.1 = e.own) ∧ (∀ x ∈ st.vSkip, x = e.own) ∧
  (∀ x ∈ st.vSf, x = e.own) ∧ (∀ x ∈ st.vFin, x = e.own)

def RV (e : Epoch) (st : SlotState) : Prop := InvV e st ∧ OwnVotes e st

theorem OwnVotes.of_same {e : Epoch} {a b : SlotState} (h : SameVotes a b) (o : OwnVotes e a) : OwnVotes e b := by
  unfold OwnVotes at *
  rw [← h.notar, ← h.nf, ← h.skip, ← h.sf, ← h.fin]; exact o

theorem InvV.fresh (e : Epoch) (s : Nat) : InvV e { slot := s } := by
  constructor <;> simp [lookupD, stakeOf, SlotState.notarVoters, SlotState.nfVoters, SlotState.skipVoters,
    SlotState.sfVoters, SlotState.finVoters, filter_false_sum]

theorem RV.fresh (e : Epoch) (s : Nat) : RV e { slot := s } :=
  ⟨InvV.fresh e s, by unfold OwnVotes; simp⟩

theorem RV.of_coreEq {e : Epoch} {a b : SlotState} (h : CoreEq a b) (i : RV e a) : RV e b :=
  ⟨i.1.of_coreEq h, i.2.of_same (SameVotes.of_coreEq h)⟩

theorem RV.addCert {e : Epoch} {st : SlotState} (i : RV e st) (c : Cert) : RV e (st.addCert c) :=
  ⟨InvV_addCert e st c i.1, i.2.of_same (SameVotes.addCert st c)⟩

theorem OwnVotes.stored {e : Epoch} {st : SlotState} (o : OwnVotes e st) (v : Vote) (hv : v.signer = e.own) :
    OwnVotes e (st.stored e v) := by
  obtain ⟨o1, o2, o3, o4, o5⟩ := o
  unfold SlotState.stored OwnVotes
  cases v.kind <;> dsimp only
  · exact ⟨fun x hx => by rcases List.mem_append.mp hx with h | h; exact o1 x h; simp at h; rw [h]; exact hv, o2, o3, o4, o5⟩
  · exact ⟨o1, fun x hx => by rcases List.mem_append.mp hx with h | h; exact o2 x h; simp at h; rw [h]; exact hv, o3, o4, o5⟩
  · exact ⟨o1, o2, fun x hx => by rcases List.mem_append.mp hx with h | h; exact o3 x h; simp at h; rw [h]; exact hv, o4, o5⟩
  · exact ⟨o1, o2, o3, fun x hx => by rcases List.mem_append.mp hx with h | h; exact o4 x h; simp at h; rw [h]; exact hv, o5⟩
  · exact ⟨o1, o2, o3, o4, fun x hx => by rcases List.mem_append.mp hx with h | h; exact o5 x h; simp at h; rw [h]; exact hv⟩

theorem RV.vote {e : Epoch} {st : SlotState} (i : RV e st) (v : Vote) (hv : v.signer = e.own) (ha : Adm st v) :
    RV e (st.addVote e v).1 :=
  RV.of_coreEq (addVote_core e st v).symm (⟨stored_InvV e st v i.1 ha, i.2.stored v hv⟩ : RV e (st.stored e v))

/-- the stake of a duplicate-free list of validators that are all the node itself -/
theorem stakeOf_own (e : Epoch) (l : List Nat) (h1 : ∀ x ∈ l, x = e.own) (h2 : l.Nodup) :
    stakeOf e l ≤ e.stake e.own ∧ (e.own ∉ l → stakeOf e l = 0) := by
  cases l with
  | nil => exact ⟨Nat.zero_le _, fun _ => rfl⟩
  | cons x xs =>
    have hx : x = e.own := h1 x List.mem_cons_self
    have hxs : xs = [] := by
      cases xs with
      | nil => rfl
      | cons y ys =>
        have hy : y = e.own := h1 y (List.mem_cons_of_mem _ List.mem_cons_self)
        have := (List.nodup_cons.mp h2).1
        rw [hx, hy] at this
        exact absurd List.mem_cons_self this
    subst hxs; subst hx
    exact ⟨by simp [stakeOf], fun h => absurd List.mem_cons_self h⟩

theorem isMet_monoW {num den x y total : Nat} (hxy : x ≤ y) (h : isMet num den x total = true) : isMet num den y total = true := by
  unfold isMet at *
  simp only [decide_eq_true_eq] at *
  exact Nat.le_trans h (Nat.mul_le_mul_right _ hxy)

theorem not_quorum_of_le {e : Epoch} {x : Nat} (hown : e.isQuorum (e.stake e.own) = false) (hx : x ≤ e.stake e.own) :
    e.isQuorum x = false ∧ e.isStrong x = false := by
  have h1 : e.isQuorum x = false := by
    cases h : e.isQuorum x
    · rfl
    · unfold Epoch.isQuorum at h hown
      rw [isMet_monoW hx h] at hown; cases hown
  refine ⟨h1, ?_⟩
  cases h : e.isStrong x
  · rfl
  · exfalso
    simp [Epoch.isStrong, Epoch.isQuorum, isMet, Gen.STRONG_QUORUM_THRESHOLD_NUM, Gen.STRONG_QUORUM_THRESHOLD_DEN,
      Gen.QUORUM_THRESHOLD_NUM, Gen.QUORUM_THRESHOLD_DEN] at h h1
    omega

theorem mem_range_filter {n : Nat} {f : Nat → Bool} {x : Nat} (h : x ∈ (List.range n).filter f) : f x = true :=
  (List.mem_filter.mp h).2

/-- in a slot state that stores only own votes every counted stake is at most the own stake -/
theorem own_counters {e : Epoch} {st : SlotState} (i : RV e st) :
    (∀ h, lookupD st.sNf h + lookupD st.sNotar h ≤ e.stake e.own) ∧ st.sSkip + st.sSf ≤ e.stake e.own ∧
    st.sFin ≤ e.stake e.own := by
  obtain ⟨iv, o1, o2, o3, o4, o5⟩ := i
  have nd : ∀ f : Nat → Bool, ((List.range e.n).filter f).Nodup := fun f => (filter_range_ok e.n f).2
  refine ⟨fun h => ?_, ?_, ?_⟩
  · rw [iv.cNf, iv.cNotar]
    have a1 : ∀ x ∈ st.notarVoters e.n h, x = e.own := by
      intro x hx
      have := mem_range_filter hx
      simp only [beq_iff_eq] at this
      obtain ⟨pr, hp, hpe⟩ := List.mem_map.mp (mem_keys_of_lookup_some st.vNotar x h this)
      rw [← hpe]; exact o1 pr hp
    have a2 : ∀ x ∈ st.nfVoters e.n h, x = e.own := by
      intro x hx
      have := mem_range_filter hx
      simp only [List.contains_iff_mem] at this
      exact o2 (x, h) this
    obtain ⟨b1, c1⟩ := stakeOf_own e _ a1 (nd _)
    obtain ⟨b2, c2⟩ := stakeOf_own e _ a2 (nd _)
    by_cases m1 : e.own ∈ st.notarVoters e.n h
    · by_cases m2 : e.own ∈ st.nfVoters e.n h
      · exfalso
        have g1 := mem_range_filter m1
        have g2 := mem_range_filter m2
        simp only [beq_iff_eq] at g1
        simp only [List.contains_iff_mem] at g2
        exact iv.noNotarNfSame e.own h g2 g1
      · rw [c2 m2]; omega
    · rw [c1 m1]; omega
  · rw [iv.cSkip, iv.cSf]
    have a1 : ∀ x ∈ st.skipVoters e.n, x = e.own := by
      intro x hx
      have := mem_range_filter hx
      simp only [List.contains_iff_mem] at this
      exact o3 x this
    have a2 : ∀ x ∈ st.sfVoters e.n, x = e.own := by
      intro x hx
      have := mem_range_filter hx
      simp only [List.contains_iff_mem] at this
      exact o4 x this
    obtain ⟨b1, c1⟩ := stakeOf_own e _ a1 (nd _)
    obtain ⟨b2, c2⟩ := stakeOf_own e _ a2 (nd _)
    by_cases m1 : e.own ∈ st.skipVoters e.n
    · by_cases m2 : e.own ∈ st.sfVoters e.n
      · exfalso
        have g1 := mem_range_filter m1
        have g2 := mem_range_filter m2
        simp only [List.contains_iff_mem] at g1 g2
        exact iv.noSkipSf e.own g1 g2
      · rw [c2 m2]; omega
    · rw [c1 m1]; omega
  · rw [iv.cFin]
    have a1 : ∀ x ∈ st.finVoters e.n, x = e.own := by
      intro x hx
      have := mem_range_filter hx
      simp only [List.contains_iff_mem] at this
      exact o5 x this
    exact (stakeOf_own e _ a1 (nd _)).1

/-- **own votes create no certificate** when the own stake is below the quorum threshold -/
theorem newCerts_own_nil {e : Epoch} {st : SlotState} (i : RV e st) (v : Vote)
    (hown : e.isQuorum (e.stake e.own) = false) : st.newCerts e v = [] := by
  obtain ⟨c1, c2, c3⟩ := own_counters i
  have q1 : ∀ h, e.isQuorum (lookupD st.sNf h + lookupD st.sNotar h) = false := fun h => (not_quorum_of_le hown (c1 h)).1
  have q2 : ∀ h, e.isQuorum (lookupD st.sNotar h) = false ∧ e.isStrong (lookupD st.sNotar h) = false :=
    fun h => not_quorum_of_le hown (by have := c1 h; omega)
  have q3 := (not_quorum_of_le hown c2).1
  have q4 := (not_quorum_of_le hown c3).1
  unfold SlotState.newCerts
  cases v.kind <;> dsimp only
  · unfold notarCertsOn; rw [q1, (q2 _).1, (q2 _).2]; rfl
  · unfold nfCertsOn; rw [q1]; rfl
  · unfold skipCertsOn; rw [q3]; rfl
  · unfold skipCertsOn; rw [q3]; rfl
  · unfold finCertsOn; rw [q4]; rfl

/-! ### the receiver's run -/

structure RecvInv (e : Epoch) (p : Pool) : Prop where
  ep : p.epoch = e
  rv : AllSlots p (RV e)

theorem RecvInv.init (e : Epoch) : RecvInv e { epoch := e } := ⟨rfl, fun st h => by simp at h⟩

/-- a vote of the node itself at the receiver: stored (or refused), no certificate is created -/
theorem recv_vote {e : Epoch} {p : Pool} (ri : RecvInv e p) (v : Vote) (hv : v.signer = e.own)
    (hown : e.isQuorum (e.stake e.own) = false) :
    RecvInv e (p.addVote v).1 ∧ certsOf (p.addVote v).2.2 = [] ∧ (p.addVote v).1.trk = p.trk ∧ Ext p (p.addVote v).1 := by
  have h0 := slotState_spec p v.slot (RV e) ri.rv (RV.fresh e v.slot)
  rcases addVote_shape p v with ⟨h1 | h1, h2⟩ | ⟨ha, h2, h3⟩
  · rw [h1]; exact ⟨ri, h2, rfl, Ext.refl p⟩
  · rw [h1]; exact ⟨⟨h0.2.2.2.1.trans ri.ep, h0.1⟩, h2, slotState_trk _ _, ext_slotState _ _⟩
  · have hep : (p.slotState v.slot).1.epoch = e := h0.2.2.2.1.trans ri.ep
    have hcs : addVoteCs p v = [] := by
      unfold addVoteCs
      rw [addVote_certs, hep]
      exact newCerts_own_nil ⟨stored_InvV e _ v h0.2.1.1 ha, h0.2.1.2.stored v hv⟩ v hown
    rw [hcs] at h2 h3
    have hq : (p.addVote v).1 = addVoteQ p v := h2
    rw [hq]
    refine ⟨⟨?_, ?_⟩, h3, addVoteQ_trk p v, ext_addVoteQ p v⟩
    · unfold addVoteQ
      rw [(putSlot_spec _ _ (fun _ => True) (fun _ _ => trivial) trivial).2.1]; exact hep
    · unfold addVoteQ
      rw [hep]
      exact (putSlot_spec _ _ (RV e) h0.1 (h0.2.1.vote v hv ha)).1

theorem recv_cert {e : Epoch} {p : Pool} (ri : RecvInv e p) (c : Cert) : RecvInv e (p.addCert c).1 :=
  ⟨(addCert_epoch p c).trans ri.ep,
   allSlots_addCert (RV e) (RV.fresh e) (fun _ _ h i => i.of_coreEq h) p c ri.rv (fun st i _ => i.addCert c)⟩

/-- the receiver is fed certificates of `certs` and votes of `votes` only -/
def FedBy (certs : List Cert) (votes : List Vote) (rops : List PoolOp) : Prop :=
  ∀ op ∈ rops, (∃ c ∈ certs, op = .cert c) ∨ (∃ v ∈ votes, op = .vote v)

/-- **The receiver's log contains only delivered certificates** (own votes create none; no blocks). -/
theorem recv_log (e : Epoch) (certs : List Cert) (votes : List Vote) (hv : ∀ v ∈ votes, v.signer = e.own)
    (hown : e.isQuorum (e.stake e.own) = false) (rops : List PoolOp) (hf : FedBy certs votes rops)
    (p : Pool) (ri : RecvInv e p) :
    RecvInv e (poolRun p rops).1 ∧ ∀ x ∈ poolLog p rops, ∃ c ∈ certs, x = .cert c := by
  induction rops generalizing p with
  | nil => exact ⟨ri, fun x hx => by cases hx⟩
  | cons op ops ih =>
    have hf' : FedBy certs votes ops := fun o ho => hf o (List.mem_cons_of_mem _ ho)
    simp only [poolRun, poolLog]
    rcases hf op List.mem_cons_self with ⟨c, hc, rfl⟩ | ⟨v, hvm, rfl⟩
    · have r1 := recv_cert ri c
      obtain ⟨g1, g2⟩ := ih hf' (poolStep p (.cert c)).1 r1
      refine ⟨g1, fun x hx => ?_⟩
      rcases List.mem_append.mp hx with h | h
      · have : x = .cert c := by
          rcases addCert_shape p c with ⟨_, h2⟩ | ⟨_, _, h3⟩
          · simp [stepItems, poolStep, h2] at h
          · simpa [stepItems, poolStep, h3] using h
        exact ⟨c, hc, this⟩
      · exact g2 x h
    · obtain ⟨r1, r2, _, _⟩ := recv_vote ri v (hv v hvm) hown
      obtain ⟨g1, g2⟩ := ih hf' (poolStep p (.vote v)).1 r1
      refine ⟨g1, fun x hx => ?_⟩
      rcases List.mem_append.mp hx with h | h
      · simp [stepItems, poolStep, r2] at h
      · exact g2 x h

/-! ### every delivered certificate that is in bounds ends up in the log (by kind and slot) -/

/-- `add_cert` in bounds: the certificate is a duplicate of a held one, or it is added (and announced) -/
theorem addCert_inb (p : Pool) (c : Cert) (hb : p.outOfBounds c.slot = false) :
    ((match c.kind with
      | .notar => (p.slotState c.slot).2.cNotar.isSome
      | .nf => (p.slotState c.slot).2.isNf c.hash
      | .skip => (p.slotState c.slot).2.cSkip.isSome
      | .ff => (p.slotState c.slot).2.cFf.isSome
      | .final => (p.slotState c.slot).2.cFin.isSome) = true ∧ certsOf (p.addCert c).2.2 = []) ∨
    certsOf (p.addCert c).2.2 = [.cert c] := by
  unfold Pool.addCert
  rw [if_neg (by rw [hb]; simp)]
  dsimp only
  cases hk : c.kind <;> dsimp only
  · cases hd : (p.slotState c.slot).2.cNotar.isSome
    · right; simp only [Bool.false_eq_true, if_false]; exact certsOf_addValidCert _ _
    · left; exact ⟨rfl, rfl⟩
  · cases hd : (p.slotState c.slot).2.isNf c.hash
    · right; simp only [Bool.false_eq_true, if_false]; exact certsOf_addValidCert _ _
    · left; exact ⟨rfl, rfl⟩
  · cases hd : (p.slotState c.slot).2.cSkip.isSome
    · right; simp only [Bool.false_eq_true, if_false]; exact certsOf_addValidCert _ _
    · left; exact ⟨rfl, rfl⟩
  · cases hd : (p.slotState c.slot).2.cFf.isSome
    · right; simp only [Bool.false_eq_true, if_false]; exact certsOf_addValidCert _ _
    · left; exact ⟨rfl, rfl⟩
  · cases hd : (p.slotState c.slot).2.cFin.isSome
    · right; simp only [Bool.false_eq_true, if_false]; exact certsOf_addValidCert _ _
    · left; exact ⟨rfl, rfl⟩

/-- a duplicate of a held certificate: a certificate of the same kind and slot (same block, for notar-fallback) is
    in the log -/
theorem dup_logged {L : List LogItem} {st : SlotState} (i : HL L st) (c : Cert) (hs : st.slot = c.slot)
    (hd : (match c.kind with
      | .notar => st.cNotar.isSome
      | .nf => st.isNf c.hash
      | .skip => st.cSkip.isSome
      | .ff => st.cFf.isSome
      | .final => st.cFin.isSome) = true) :
    ∃ c', LogItem.cert c' ∈ L ∧ c'.kind = c.kind ∧ c'.slot = c.slot ∧ (c.kind = .nf → c'.hash = c.hash) := by
  obtain ⟨⟨w1, w2, w3, w4, w5⟩, hl⟩ := i
  have hl' : ∀ x, x ∈ st.certs → LogItem.cert x ∈ L := hl
  simp only [mem_certs] at hl'
  cases hk : c.kind <;> rw [hk] at hd <;> dsimp only at hd
  · obtain ⟨c', e⟩ := Option.isSome_iff_exists.mp hd
    exact ⟨c', hl' c' (Or.inr (Or.inr (Or.inl e))), (w1 c' e).1, (w1 c' e).2.trans hs, fun h => by cases h⟩
  · unfold SlotState.isNf at hd
    obtain ⟨c', hm, e⟩ := List.any_eq_true.mp hd
    exact ⟨c', hl' c' (Or.inr (Or.inr (Or.inr (Or.inl hm)))), (w2 c' hm).1, (w2 c' hm).2.trans hs,
      fun _ => by simpa using e⟩
  · obtain ⟨c', e⟩ := Option.isSome_iff_exists.mp hd
    exact ⟨c', hl' c' (Or.inr (Or.inr (Or.inr (Or.inr e)))), (w3 c' e).1, (w3 c' e).2.trans hs, fun h => by cases h⟩
  · obtain ⟨c', e⟩ := Option.isSome_iff_exists.mp hd
    exact ⟨c', hl' c' (Or.inr (Or.inl e)), (w4 c' e).1, (w4 c' e).2.trans hs, fun h => by cases h⟩
  · obtain ⟨c', e⟩ := Option.isSome_iff_exists.mp hd
    exact ⟨c', hl' c' (Or.inl e), (w5 c' e).1, (w5 c' e).2.trans hs, fun h => by cases h⟩

theorem poolRun_cons (p : Pool) (op : PoolOp) (ops : List PoolOp) :
    (poolRun p (op :: ops)).1 = (poolRun (poolStep p op).1 ops).1 := rfl

/-- **Every delivered certificate that was in bounds whenever it was delivered is in the log** — itself, or (if it
    was refused as a duplicate) a certificate of the same kind and slot (and block, for notar-fallback). -/
theorem delivered_logged (rops : List PoolOp) (p : Pool) (L : List LogItem) (hall : AllSlots p (HL L)) (c : Cert)
    (hc : PoolOp.cert c ∈ rops)
    (hb : ∀ pre, pre <+: rops → (poolRun p pre).1.outOfBounds c.slot = false) :
    ∃ c', LogItem.cert c' ∈ L ++ poolLog p rops ∧ c'.kind = c.kind ∧ c'.slot = c.slot ∧ (c.kind = .nf → c'.hash = c.hash) := by
  induction rops generalizing p L with
  | nil => cases hc
  | cons op ops ih =>
    have hall1 := hl_poolStep p op L hall
    simp only [poolLog]
    rw [← List.append_assoc]
    by_cases hop : op = .cert c
    · subst hop
      have hb0 : p.outOfBounds c.slot = false := hb [] List.nil_prefix
      have h0 := slotState_spec p c.slot (HL L) hall (HL.fresh L c.slot)
      rcases addCert_inb p c hb0 with ⟨hd, _⟩ | h3
      · obtain ⟨c', hm, g⟩ := dup_logged h0.2.1 c h0.2.2.1 hd
        exact ⟨c', List.mem_append_left _ (List.mem_append_left _ hm), g⟩
      · refine ⟨c, List.mem_append_left _ (List.mem_append_right _ ?_), rfl, rfl, fun _ => rfl⟩
        simp [stepItems, poolStep, h3]
    · have hc' : PoolOp.cert c ∈ ops := by
        rcases List.mem_cons.mp hc with h | h
        · exact absurd h.symm hop
        · exact h
      exact ih (poolStep p op).1 _ hall1 hc' (fun pre hp => by
        have := hb (op :: pre) (by
          obtain ⟨t, ht⟩ := hp
          exact ⟨t, by rw [← ht]; rfl⟩)
        rw [poolRun_cons] at this
        exact this)

/-! ### facts about the finality tracker's highest slot, and small log lemmas -/

theorem addValidCerts_epoch (cs : List Cert) (q : Pool) (acc : List Event) : (q.addValidCerts cs acc).1.epoch = q.epoch := by
  induction cs generalizing q acc with
  | nil => rfl
  | cons c cs ih =>
    unfold Pool.addValidCerts
    dsimp only
    rw [ih, addValidCert_epoch]

theorem poolRun_epoch' (ops : List PoolOp) (p : Pool) : (poolRun p ops).1.epoch = p.epoch := by
  induction ops generalizing p with
  | nil => rfl
  | cons op ops ih =>
    simp only [poolRun]
    rw [ih]
    cases op with
    | vote v =>
      show (p.addVote v).1.epoch = p.epoch
      have h0 := slotState_spec p v.slot (fun _ => True) (fun _ _ => trivial) trivial
      rcases addVote_shape p v with ⟨h1 | h1, _⟩ | ⟨_, h2, _⟩
      · rw [h1]
      · rw [h1]; exact h0.2.2.2.1
      · rw [h2, addValidCerts_epoch]
        unfold addVoteQ
        rw [(putSlot_spec _ _ (fun _ => True) (fun _ _ => trivial) trivial).2.1]; exact h0.2.2.2.1
    | cert c => exact addCert_epoch p c
    | block b par => exact addBlock_epoch p b par

theorem poolLog_append (p : Pool) (a b : List PoolOp) :
    poolLog p (a ++ b) = poolLog p a ++ poolLog (poolRun p a).1 b := by
  induction a generalizing p with
  | nil => rfl
  | cons op a ih =>
    simp only [List.cons_append, poolLog, poolRun]
    rw [ih, List.append_assoc]

/-- every finalized block of a safe history is at or below `highest_finalized_slot` -/
theorem final_le_highest {H : List Finality.Op} (sf : Finality.Safe H) {t : Finality.Tracker}
    {evs : List Finality.Event} (ri : Finality.RunInv H t evs) {b : Nat × Nat} (hb : Finality.Final H b) :
    b.1 ≤ t.highest := by
  by_cases hw : t.first ≤ b.1
  · exact ri.inv.dec_le _ (Finality.dec_of_finalHash (ri.rel.final_complete sf (Finality.Sub.refl _) hb hw))
  · have := ri.inv.first_le; omega

/-- a finalized block in the highest finalized slot is directly finalized -/
theorem final_top_direct {H : List Finality.Op} (sf : Finality.Safe H) {b : Nat × Nat} (hb : Finality.Final H b)
    (htop : ∀ c, Finality.Final H c → c.1 ≤ b.1) : Finality.Direct H b := by
  cases hb with
  | direct d => exact d
  | @step c _ hc hl =>
    have := sf.link_lt c b hl
    have := htop c hc
    omega

theorem mem_finOps_ff_inv {L : List LogItem} {b : Nat × Nat} (h : Finality.Op.fastFinal b ∈ finOps L) :
    ∃ c, LogItem.cert c ∈ L ∧ c.kind = .ff ∧ (c.slot, c.hash) = b := by
  unfold finOps at h
  obtain ⟨it, hit, hop⟩ := List.mem_flatMap.mp h
  cases it with
  | block x y => simp [LogItem.finOp] at hop
  | cert c =>
    cases hk : c.kind <;> simp [LogItem.finOp, hk] at hop
    exact ⟨c, hit, hk, by rw [hop]⟩

theorem mem_finOps_notar_inv {L : List LogItem} {b : Nat × Nat} (h : Finality.Op.notar b ∈ finOps L) :
    ∃ c, LogItem.cert c ∈ L ∧ c.kind = .notar ∧ (c.slot, c.hash) = b := by
  unfold finOps at h
  obtain ⟨it, hit, hop⟩ := List.mem_flatMap.mp h
  cases it with
  | block x y => simp [LogItem.finOp] at hop
  | cert c =>
    cases hk : c.kind <;> simp [LogItem.finOp, hk] at hop
    exact ⟨c, hit, hk, by rw [hop]⟩

theorem mem_finOps_final_inv {L : List LogItem} {s : Nat} (h : Finality.Op.final s ∈ finOps L) :
    ∃ c, LogItem.cert c ∈ L ∧ c.kind = .final ∧ c.slot = s := by
  unfold finOps at h
  obtain ⟨it, hit, hop⟩ := List.mem_flatMap.mp h
  cases it with
  | block x y => simp [LogItem.finOp] at hop
  | cert c =>
    cases hk : c.kind <;> simp [LogItem.finOp, hk] at hop
    exact ⟨c, hit, hk, hop.symm⟩

/-- the run invariant of the finality tracker inside a wired pool -/
theorem wired_runInv {p : Pool} {L : List LogItem} (w : Wired p.trk L) (sf : Finality.Safe (finOps L)) :
    ∃ fevs, Finality.RunInv (finOps L) p.fin fevs := by
  obtain ⟨fevs, hrun, _⟩ := trace_inv L sf
  have hfin : finState L = p.fin := w.fin
  rw [hfin] at hrun
  exact ⟨fevs, Finality.runInv_of_run sf hrun⟩

/-! ### the replay setting -/

/-- sender `ops` (consistent history, finalized slot below `2·SLOTS_PER_EPOCH`, own stake below the quorum
    threshold), its bundle `(certs, votes)`, receiver operations `rops`: the bundle in any order, every certificate
    at least once -/
structure Replay (e : Epoch) (ops : List PoolOp) (certs : List Cert) (votes : List Vote) (rops : List PoolOp) : Prop where
  cons : Consistent (poolLog { epoch := e } ops)
  far : (poolRun { epoch := e } ops).1.fin.highest < 2 * Gen.SLOTS_PER_EPOCH
  own : e.isQuorum (e.stake e.own) = false
  bundle : (poolRun { epoch := e } ops).1.recover = [.standstill ((poolRun { epoch := e } ops).1.fin.highest + 1) certs votes]
  fed : FedBy certs votes rops
  all : ∀ c ∈ certs, PoolOp.cert c ∈ rops

namespace Replay
variable {e : Epoch} {ops : List PoolOp} {certs : List Cert} {votes : List Vote} {rops : List PoolOp}

theorem sender_held (_ : Replay e ops certs votes rops) (hc : Consistent (poolLog { epoch := e } ops)) :
    HeldLog (poolRun { epoch := e } ops).1 (poolLog { epoch := e } ops) := by
  have := held_poolRun ops { epoch := e } [] (HeldLog.init e) (by simpa using hc)
  simpa using this

theorem sender_hl (_ : Replay e ops certs votes rops) :
    AllSlots (poolRun { epoch := e } ops).1 (HL (poolLog { epoch := e } ops)) := by
  have := hl_poolRun ops { epoch := e } [] (fun st h => by simp at h)
  simpa using this

/-- every bundled certificate is in the sender's log -/
theorem certs_logged (S : Replay e ops certs votes rops) : ∀ c ∈ certs, LogItem.cert c ∈ poolLog { epoch := e } ops := by
  intro c hc
  have hst : ∃ st ∈ (poolRun { epoch := e } ops).1.slots, c ∈ st.certs := by
    rcases ((recover_contents _ certs votes S.bundle).1 c).mp hc with h1 | ⟨st, hm, _, hcs⟩
    · exact getFinalCerts_held _ _ c h1
    · exact ⟨st, hm, hcs⟩
  obtain ⟨st, hm, hcs⟩ := hst
  exact (S.sender_hl st hm).2 c hcs

theorem votes_own (S : Replay e ops certs votes rops) : ∀ v ∈ votes, v.signer = e.own := by
  intro v hv
  have := (recover_votes_own _ certs votes S.bundle v hv).1
  rw [poolRun_epoch'] at this
  exact this

theorem fed_prefix (S : Replay e ops certs votes rops) {pre : List PoolOp} (hp : pre <+: rops) : FedBy certs votes pre :=
  fun op ho => S.fed op (List.IsPrefix.mem ho hp)

/-- the receiver after any prefix of its operations: its log is a sub-log of the sender's, hence consistent; it is
    wired and holds what it logged -/
theorem recv_prefix (S : Replay e ops certs votes rops) {pre : List PoolOp} (hp : pre <+: rops) :
    (∀ x ∈ poolLog { epoch := e } pre, ∃ c ∈ certs, x = .cert c) ∧
    Consistent (poolLog { epoch := e } pre) ∧
    HeldLog (poolRun { epoch := e } pre).1 (poolLog { epoch := e } pre) ∧
    AllSlots (poolRun { epoch := e } pre).1 (HL (poolLog { epoch := e } pre)) := by
  obtain ⟨_, hlog⟩ := recv_log e certs votes S.votes_own S.own pre (S.fed_prefix hp) { epoch := e } (RecvInv.init e)
  have hsub : ∀ x ∈ poolLog { epoch := e } pre, x ∈ poolLog { epoch := e } ops := by
    intro x hx
    obtain ⟨c, hc, rfl⟩ := hlog x hx
    exact S.certs_logged c hc
  have hcons : Consistent (poolLog { epoch := e } pre) := S.cons.sub hsub
  refine ⟨hlog, hcons, ?_, ?_⟩
  · have := held_poolRun pre { epoch := e } [] (HeldLog.init e) (by simpa using hcons)
    simpa using this
  · have := hl_poolRun pre { epoch := e } [] (fun st h => by simp at h)
    simpa using this

/-- the receiver never finalizes beyond the sender's finalized slot -/
theorem recv_highest_le (S : Replay e ops certs votes rops) {pre : List PoolOp} (hp : pre <+: rops) :
    (poolRun { epoch := e } pre).1.fin.highest ≤ (poolRun { epoch := e } ops).1.fin.highest := by
  obtain ⟨hlog, hcons, hheld, _⟩ := S.recv_prefix hp
  obtain ⟨fq, rq⟩ := wired_runInv hheld.wired hcons.safe
  obtain ⟨fp, rp⟩ := wired_runInv (S.sender_held S.cons).wired S.cons.safe
  rcases rq.hiAtt with h0 | ⟨b, hb, hbe⟩
  · omega
  · rw [← hbe]
    have hsub : Finality.Sub (finOps (poolLog { epoch := e } pre)) (finOps (poolLog { epoch := e } ops)) :=
      finOps_sub (fun x hx => by obtain ⟨c, hc, rfl⟩ := hlog x hx; exact S.certs_logged c hc)
    exact final_le_highest S.cons.safe rp (hb.mono hsub)

/-- a bundled certificate for a slot between the finalized slot and `2·SLOTS_PER_EPOCH` is in bounds whenever it is
    delivered to the receiver -/
theorem recv_inb (S : Replay e ops certs votes rops) (s : Nat) (h1 : (poolRun { epoch := e } ops).1.fin.highest ≤ s)
    (h2 : s < 2 * Gen.SLOTS_PER_EPOCH) {pre : List PoolOp} (hp : pre <+: rops) :
    (poolRun { epoch := e } pre).1.outOfBounds s = false := by
  have hle := S.recv_highest_le hp
  obtain ⟨_, hcons, hheld, _⟩ := S.recv_prefix hp
  obtain ⟨fq, rq⟩ := wired_runInv hheld.wired hcons.safe
  have := rq.inv.first_le
  unfold Pool.outOfBounds
  simp only [Bool.or_eq_false_iff, decide_eq_false_iff_not]
  constructor <;> omega

/-- **every bundled certificate for such a slot reaches the receiver's log**: a certificate of the same kind and
    slot, and of the same block where the kind names one -/
theorem delivered (S : Replay e ops certs votes rops) (c : Cert) (hc : c ∈ certs)
    (h1 : (poolRun { epoch := e } ops).1.fin.highest ≤ c.slot) (h2 : c.slot < 2 * Gen.SLOTS_PER_EPOCH) :
    ∃ c', LogItem.cert c' ∈ poolLog { epoch := e } rops ∧ c'.kind = c.kind ∧ c'.slot = c.slot ∧
      (c.kind = .notar ∨ c.kind = .nf ∨ c.kind = .ff → c'.hash = c.hash) := by
  obtain ⟨c', hm, hk, hs, hh⟩ := delivered_logged rops { epoch := e } [] (fun st h => by simp at h) c (S.all c hc)
    (fun pre hp => S.recv_inb c.slot h1 h2 hp)
  simp only [List.nil_append] at hm
  refine ⟨c', hm, hk, hs, fun hkind => ?_⟩
  rcases hkind with k | k | k
  · obtain ⟨hlog, _⟩ := S.recv_prefix (List.prefix_refl rops)
    obtain ⟨c'', hc'', e''⟩ := hlog _ hm
    cases e''
    exact logged_agree S.cons.safe (S.certs_logged c hc) (S.certs_logged c' hc'') hs hk (Or.inl k)
  · exact hh k
  · obtain ⟨hlog, _⟩ := S.recv_prefix (List.prefix_refl rops)
    obtain ⟨c'', hc'', e''⟩ := hlog _ hm
    cases e''
    exact logged_agree S.cons.safe (S.certs_logged c hc) (S.certs_logged c' hc'') hs hk (Or.inr k)

/-- the receiver's finality tracker, with its run invariant -/
theorem recv_runInv (S : Replay e ops certs votes rops) :
    ∃ fevs, Finality.RunInv (finOps (poolLog { epoch := e } rops)) (poolRun { epoch := e } rops).1.fin fevs := by
  obtain ⟨_, hcons, hheld, _⟩ := S.recv_prefix (List.prefix_refl rops)
  exact wired_runInv hheld.wired hcons.safe

theorem recv_cons (S : Replay e ops certs votes rops) : Consistent (poolLog { epoch := e } rops) :=
  (S.recv_prefix (List.prefix_refl rops)).2.1

/-- a block that is finalized in the receiver's history is at or below its `highest_finalized_slot` -/
theorem recv_final_le (S : Replay e ops certs votes rops) {b : Nat × Nat}
    (hb : Finality.Final (finOps (poolLog { epoch := e } rops)) b) : b.1 ≤ (poolRun { epoch := e } rops).1.fin.highest := by
  obtain ⟨fq, rq⟩ := S.recv_runInv
  exact final_le_highest S.recv_cons.safe rq hb

/-- a bundled fast-finalization certificate finalizes its slot at the receiver -/
theorem recv_ff (S : Replay e ops certs votes rops) (c : Cert) (hc : c ∈ certs) (hk : c.kind = .ff)
    (h1 : (poolRun { epoch := e } ops).1.fin.highest ≤ c.slot) (h2 : c.slot < 2 * Gen.SLOTS_PER_EPOCH) :
    Finality.Final (finOps (poolLog { epoch := e } rops)) (c.slot, c.hash) := by
  obtain ⟨c', hm, hk', hs', hh'⟩ := S.delivered c hc h1 h2
  have := mem_finOps_ff hm (hk'.trans hk)
  rw [hs', hh' (Or.inr (Or.inr hk))] at this
  exact .direct (Or.inl this)

/-- bundled finalization + notarization certificates of one slot finalize it at the receiver -/
theorem recv_fin_notar (S : Replay e ops certs votes rops) (cf cn : Cert) (hcf : cf ∈ certs) (hcn : cn ∈ certs)
    (hkf : cf.kind = .final) (hkn : cn.kind = .notar) (hs : cf.slot = cn.slot)
    (h1 : (poolRun { epoch := e } ops).1.fin.highest ≤ cn.slot) (h2 : cn.slot < 2 * Gen.SLOTS_PER_EPOCH) :
    Finality.Final (finOps (poolLog { epoch := e } rops)) (cn.slot, cn.hash) := by
  obtain ⟨c1, hm1, hk1, hs1, _⟩ := S.delivered cf hcf (by rw [hs]; exact h1) (by rw [hs]; exact h2)
  obtain ⟨c2, hm2, hk2, hs2, hh2⟩ := S.delivered cn hcn h1 h2
  have a := mem_finOps_final hm1 (hk1.trans hkf)
  have b := mem_finOps_notar hm2 (hk2.trans hkn)
  rw [hs1, hs] at a
  rw [hs2, hh2 (Or.inl hkn)] at b
  exact .direct (Or.inr ⟨a, Or.inr b⟩)

theorem getFinalCerts_ff {p : Pool} {s : Nat} {st : SlotState} {c : Cert} (hg : p.getSlot s = some st)
    (hf : st.cFf = some c) : p.getFinalCerts s = [c] := by
  unfold Pool.getFinalCerts; rw [hg]; simp only [hf]

theorem getFinalCerts_fn {p : Pool} {s : Nat} {st : SlotState} {cf cn : Cert} (hg : p.getSlot s = some st)
    (hff : st.cFf = none) (hf : st.cFin = some cf) (hn : st.cNotar = some cn) : p.getFinalCerts s = [cf, cn] := by
  unfold Pool.getFinalCerts; rw [hg]; simp only [hff, hf, hn]

/-- **the sender's bundle proves its finalized slot to the receiver**: the block finalized in the sender's highest
    finalized slot (if it is not genesis) is finalized in the receiver's history -/
theorem recv_reaches (S : Replay e ops certs votes rops) (hpos : 0 < (poolRun { epoch := e } ops).1.fin.highest) :
    ∃ h, Finality.Final (finOps (poolLog { epoch := e } rops)) ((poolRun { epoch := e } ops).1.fin.highest, h) := by
  have hheld := S.sender_held S.cons
  obtain ⟨fp, rp⟩ := wired_runInv hheld.wired S.cons.safe
  have hfirst := rp.inv.first_le
  rcases rp.hiAtt with h0 | ⟨b, hb, hbe⟩
  · omega
  have hd := final_top_direct S.cons.safe hb (fun c hc => by rw [hbe]; exact final_le_highest S.cons.safe rp hc)
  have hcontents := (recover_contents _ certs votes S.bundle).1
  -- the slot state of the finalized slot
  have key : ∀ st, (poolRun { epoch := e } ops).1.getSlot b.1 = some st →
      (∀ c', st.cFf = some c' → ∃ h, Finality.Final (finOps (poolLog { epoch := e } rops)) (b.1, h)) ∧
      (st.cFf = none → ∀ cf cn, st.cFin = some cf → st.cNotar = some cn →
        ∃ h, Finality.Final (finOps (poolLog { epoch := e } rops)) (b.1, h)) := by
    intro st hg
    have hm := getSlot_mem _ _ _ hg
    obtain ⟨⟨w1, _, _, w4, w5⟩, _⟩ := S.sender_hl st hm.1
    constructor
    · intro c' hc'
      have hin : c' ∈ certs := (hcontents c').mpr (Or.inl (by rw [← hbe, getFinalCerts_ff hg hc']; simp))
      have hsl : c'.slot = b.1 := (w4 c' hc').2.trans hm.2
      have := S.recv_ff c' hin (w4 c' hc').1 (by rw [hsl, hbe]; exact Nat.le_refl _) (by rw [hsl, hbe]; exact S.far)
      rw [hsl] at this
      exact ⟨_, this⟩
    · intro hff cf cn hcf hcn
      have hl : (poolRun { epoch := e } ops).1.getFinalCerts (poolRun { epoch := e } ops).1.fin.highest = [cf, cn] := by
        rw [← hbe]; exact getFinalCerts_fn hg hff hcf hcn
      have hin1 : cf ∈ certs := (hcontents cf).mpr (Or.inl (by rw [hl]; simp))
      have hin2 : cn ∈ certs := (hcontents cn).mpr (Or.inl (by rw [hl]; simp))
      have hs1 : cf.slot = b.1 := (w5 cf hcf).2.trans hm.2
      have hs2 : cn.slot = b.1 := (w1 cn hcn).2.trans hm.2
      have := S.recv_fin_notar cf cn hin1 hin2 (w5 cf hcf).1 (w1 cn hcn).1 (hs1.trans hs2.symm)
        (by rw [hs2, hbe]; exact Nat.le_refl _) (by rw [hs2, hbe]; exact S.far)
      rw [hs2] at this
      exact ⟨_, this⟩
  rw [← hbe]
  rcases hd with hfast | ⟨hfin, hnot⟩
  · obtain ⟨c0, hm0, hk0, he0⟩ := mem_finOps_ff_inv hfast
    have hs0 : c0.slot = b.1 := congrArg Prod.fst he0
    obtain ⟨st, hg, hk⟩ := hheld.logHeld c0 hm0 (by rw [hs0, hbe]; exact hfirst)
    rw [hs0] at hg
    unfold HeldKey at hk
    rw [hk0] at hk
    obtain ⟨c', hc', _⟩ := hk
    exact (key st hg).1 c' hc'
  · obtain ⟨c1, hm1, hk1, hs1⟩ := mem_finOps_final_inv hfin
    have hnot' : Finality.Op.notar b ∈ finOps (poolLog { epoch := e } ops) := by
      rcases hnot with h0 | h0
      · rw [h0] at hbe; simp at hbe; omega
      · exact h0
    obtain ⟨c2, hm2, hk2, he2⟩ := mem_finOps_notar_inv hnot'
    have hs2 : c2.slot = b.1 := congrArg Prod.fst he2
    obtain ⟨st, hg, hkk⟩ := hheld.logHeld c1 hm1 (by rw [hs1, hbe]; exact hfirst)
    obtain ⟨st2, hg2, hkk2⟩ := hheld.logHeld c2 hm2 (by rw [hs2, hbe]; exact hfirst)
    rw [hs1] at hg
    rw [hs2, hg] at hg2
    cases hg2
    unfold HeldKey at hkk hkk2
    rw [hk1] at hkk
    rw [hk2] at hkk2
    obtain ⟨cn, hcn, _⟩ := hkk2
    obtain ⟨cf, hcf⟩ := Option.isSome_iff_exists.mp hkk
    cases hff : st.cFf with
    | some c' => exact (key st hg).1 c' hff
    | none => exact (key st hg).2 hff cf cn hcf hcn

/-- **`bundle_replay_finalized`, core**: the receiver reaches exactly the sender's highest finalized slot -/
theorem finalized (S : Replay e ops certs votes rops) :
    (poolRun { epoch := e } rops).1.fin.highest = (poolRun { epoch := e } ops).1.fin.highest := by
  apply Nat.le_antisymm (S.recv_highest_le (List.prefix_refl rops))
  rcases Nat.eq_zero_or_pos (poolRun { epoch := e } ops).1.fin.highest with h0 | hpos
  · omega
  · obtain ⟨h, hf⟩ := S.recv_reaches hpos
    exact S.recv_final_le hf

/-- every logged certificate of a slot above the finalized slot is in the bundle (a certificate of the same kind,
    slot and — where the kind names one — block) -/
theorem bundled (S : Replay e ops certs votes rops) (c : Cert) (hm : LogItem.cert c ∈ poolLog { epoch := e } ops)
    (hs : (poolRun { epoch := e } ops).1.fin.highest < c.slot) :
    ∃ c' ∈ certs, c'.kind = c.kind ∧ c'.slot = c.slot ∧ (c.kind = .notar ∨ c.kind = .nf ∨ c.kind = .ff → c'.hash = c.hash) := by
  have hheld := S.sender_held S.cons
  obtain ⟨fp, rp⟩ := wired_runInv hheld.wired S.cons.safe
  have hfirst := rp.inv.first_le
  obtain ⟨st, hg, hk⟩ := hheld.logHeld c hm (by omega)
  have hmem := getSlot_mem _ _ _ hg
  obtain ⟨⟨w1, w2, w3, w4, w5⟩, _⟩ := S.sender_hl st hmem.1
  have hin : ∀ c', c' ∈ st.certs → c' ∈ certs := fun c' hc' =>
    ((recover_contents _ certs votes S.bundle).1 c').mpr (Or.inr ⟨st, hmem.1, by rw [hmem.2]; exact hs, hc'⟩)
  unfold HeldKey at hk
  cases hkind : c.kind <;> rw [hkind] at hk <;> dsimp only at hk
  · obtain ⟨c', hc', hh⟩ := hk
    exact ⟨c', hin c' ((mem_certs st c').mpr (Or.inr (Or.inr (Or.inl hc')))), (w1 c' hc').1, (w1 c' hc').2.trans hmem.2, fun _ => hh⟩
  · unfold SlotState.isNf at hk
    obtain ⟨c', hc', hh⟩ := List.any_eq_true.mp hk
    exact ⟨c', hin c' ((mem_certs st c').mpr (Or.inr (Or.inr (Or.inr (Or.inl hc'))))), (w2 c' hc').1, (w2 c' hc').2.trans hmem.2,
      fun _ => by simpa using hh⟩
  · obtain ⟨c', hc'⟩ := Option.isSome_iff_exists.mp hk
    exact ⟨c', hin c' ((mem_certs st c').mpr (Or.inr (Or.inr (Or.inr (Or.inr hc'))))), (w3 c' hc').1, (w3 c' hc').2.trans hmem.2,
      fun h => by rcases h with h | h | h <;> cases h⟩
  · obtain ⟨c', hc', hh⟩ := hk
    exact ⟨c', hin c' ((mem_certs st c').mpr (Or.inr (Or.inl hc'))), (w4 c' hc').1, (w4 c' hc').2.trans hmem.2, fun _ => hh⟩
  · obtain ⟨c', hc'⟩ := Option.isSome_iff_exists.mp hk
    exact ⟨c', hin c' ((mem_certs st c').mpr (Or.inl hc')), (w5 c' hc').1, (w5 c' hc').2.trans hmem.2,
      fun h => by rcases h with h | h | h <;> cases h⟩

/-- … and therefore in the receiver's log -/
theorem relayed (S : Replay e ops certs votes rops) (c : Cert) (hm : LogItem.cert c ∈ poolLog { epoch := e } ops)
    (hs : (poolRun { epoch := e } ops).1.fin.highest < c.slot) (h2 : c.slot < 2 * Gen.SLOTS_PER_EPOCH) :
    ∃ c', LogItem.cert c' ∈ poolLog { epoch := e } rops ∧ c'.kind = c.kind ∧ c'.slot = c.slot ∧
      (c.kind = .notar ∨ c.kind = .nf ∨ c.kind = .ff → c'.hash = c.hash) := by
  obtain ⟨c1, hc1, k1, s1, h1⟩ := S.bundled c hm hs
  obtain ⟨c2, hm2, k2, s2, hh2⟩ := S.delivered c1 hc1 (by omega) (by omega)
  exact ⟨c2, hm2, k2.trans k1, s2.trans s1, fun hk => (hh2 (by rw [k1]; exact hk)).trans (h1 hk)⟩

theorem recv_sub (S : Replay e ops certs votes rops) :
    ∀ x ∈ poolLog { epoch := e } rops, x ∈ poolLog { epoch := e } ops := by
  intro x hx
  obtain ⟨c, hc, rfl⟩ := (S.recv_prefix (List.prefix_refl rops)).1 x hx
  exact S.certs_logged c hc

end Replay

/-! ### the window after the finalized slot; the premise on notar-fallback certificates -/

/-- the first slot of the leader window after slot `f` -/
def nextWindow (f : Nat) : Nat := ParentReady.windowFirst f + ParentReady.W

theorem nextWindow_spec (f : Nat) :
    ParentReady.isWindowStart (nextWindow f) = true ∧ f < nextWindow f ∧ nextWindow f ≤ f + ParentReady.W ∧
    (f < 2 * Gen.SLOTS_PER_EPOCH → nextWindow f ≤ 2 * Gen.SLOTS_PER_EPOCH) := by
  simp only [nextWindow, ParentReady.windowFirst, ParentReady.isWindowStart, ParentReady.W, Gen.SLOTS_PER_WINDOW,
    Gen.SLOTS_PER_EPOCH, beq_iff_eq]
  refine ⟨by omega, by omega, by omega, by omega⟩

/-- notar-fallback certificates agree with finality (C01): a notar-fallback certificate for a finalized slot names
    the finalized block; genesis is the block of slot 0 -/
def NfAgree (L : List LogItem) : Prop :=
  ∀ c, LogItem.cert c ∈ L → c.kind = .nf →
    (c.slot = 0 → c.hash = 0) ∧ ∀ h, Finality.Final (finOps L) (c.slot, h) → c.hash = h

namespace Replay
variable {e : Epoch} {ops : List PoolOp} {certs : List Cert} {votes : List Vote} {rops : List PoolOp}

/-- the sender's finalized slot is not skipped in the sender's history -/
theorem top_not_skipped (S : Replay e ops certs votes rops) (hpos : 0 < (poolRun { epoch := e } ops).1.fin.highest) :
    (∃ h, Finality.Final (finOps (poolLog { epoch := e } ops)) ((poolRun { epoch := e } ops).1.fin.highest, h)) ∧
    ¬ SkipCertIn (poolLog { epoch := e } ops) (poolRun { epoch := e } ops).1.fin.highest ∧
    ¬ Finality.Skip (finOps (poolLog { epoch := e } ops)) (poolRun { epoch := e } ops).1.fin.highest := by
  obtain ⟨fp, rp⟩ := wired_runInv (S.sender_held S.cons).wired S.cons.safe
  rcases rp.hiAtt with h0 | ⟨b, hb, hbe⟩
  · omega
  · have hf : Finality.Final (finOps (poolLog { epoch := e } ops)) ((poolRun { epoch := e } ops).1.fin.highest, b.2) := by
      rw [← hbe]; exact hb
    refine ⟨⟨b.2, hf⟩, ?_, ?_⟩
    · rintro ⟨c, hm, hk, hs⟩
      have hd := final_top_direct S.cons.safe hb (fun c' hc' => by rw [hbe]; exact final_le_highest S.cons.safe rp hc')
      exact S.cons.skip_not_direct c hm hk b.2 (by rw [hs, ← hbe]; exact hd)
    · exact S.cons.safe.final_not_skip hf

theorem mem_of_nfCertAcc {L : List LogItem} {b : Nat × Nat} (h : NfCertAcc L b) :
    ∃ c, LogItem.cert c ∈ L ∧ (c.kind = .notar ∨ c.kind = .nf) ∧ (c.slot, c.hash) = b := by
  obtain ⟨pre, c, hp, hk, he, _⟩ := h
  exact ⟨c, List.IsPrefix.mem (List.mem_append_right _ (List.mem_singleton.mpr rfl)) hp, hk, he⟩

theorem mem_of_skCertAcc {L : List LogItem} {s : Nat} (h : SkCertAcc L s) : SkipCertIn L s := by
  obtain ⟨pre, c, hp, hk, he, _⟩ := h
  exact ⟨c, List.IsPrefix.mem (List.mem_append_right _ (List.mem_singleton.mpr rfl)) hp, hk, he⟩

/-- **`bundle_replay_parents`, core**: for the first slot of the window after the finalized slot the receiver
    answers `parents_ready` with the same blocks as the sender -/
theorem parents (S : Replay e ops certs votes rops) (hnf : NfAgree (poolLog { epoch := e } ops)) (b : Nat × Nat) :
    b ∈ ParentReady.parentsReady (poolRun { epoch := e } rops).1.pr (nextWindow (poolRun { epoch := e } ops).1.fin.highest) ↔
    b ∈ ParentReady.parentsReady (poolRun { epoch := e } ops).1.pr (nextWindow (poolRun { epoch := e } ops).1.fin.highest) := by
  obtain ⟨hws, hfw, _, hw2⟩ := nextWindow_spec (poolRun { epoch := e } ops).1.fin.highest
  have hw2' := hw2 S.far
  have hq := S.finalized
  obtain ⟨fp, rp⟩ := wired_runInv (S.sender_held S.cons).wired S.cons.safe
  obtain ⟨fq, rq⟩ := S.recv_runInv
  have hpf := rp.inv.first_le
  have hqf := rq.inv.first_le
  have hsubF : Finality.Sub (finOps (poolLog { epoch := e } rops)) (finOps (poolLog { epoch := e } ops)) :=
    finOps_sub S.recv_sub
  generalize hw : nextWindow (poolRun { epoch := e } ops).1.fin.highest = w at *
  constructor
  · -- receiver ⇒ sender: the receiver's log is a sub-log of the sender's
    intro hb
    obtain ⟨hbw, hnfq, hskq⟩ := (pool_ready_iff e rops S.recv_cons (w := w) (by omega) hws b).mp hb
    have hfb : (poolRun { epoch := e } ops).1.fin.highest ≤ b.1 := by
      rcases Nat.lt_or_ge b.1 (poolRun { epoch := e } ops).1.fin.highest with hlt | hge
      · exfalso
        obtain ⟨_, n1, n2⟩ := S.top_not_skipped (by omega)
        rcases hskq _ hlt hfw with a | a
        · obtain ⟨c, hm, hk, hs⟩ := mem_of_skCertAcc a
          exact n1 ⟨c, S.recv_sub _ hm, hk, hs⟩
        · exact n2 (a.mono hsubF)
      · exact hge
    refine (pool_ready_iff_above e ops S.cons (w := w) (by omega) hws b (by omega)).mpr ⟨hbw, ?_, ?_⟩
    · rcases hnfq with a | a | a
      · exact Or.inl a
      · obtain ⟨c, hm, hk, he⟩ := mem_of_nfCertAcc a
        exact Or.inr (Or.inl ⟨c, S.recv_sub _ hm, hk, he⟩)
      · exact Or.inr (Or.inr (a.mono hsubF))
    · intro u h1 h2
      rcases hskq u h1 h2 with a | a
      · obtain ⟨c, hm, hk, hs⟩ := mem_of_skCertAcc a
        exact Or.inl ⟨c, S.recv_sub _ hm, hk, hs⟩
      · exact Or.inr (a.mono hsubF)
  · -- sender ⇒ receiver: everything the sender's answer rests on is in the bundle
    intro hb
    obtain ⟨hbw, hnfp, hskp⟩ := (pool_ready_iff e ops S.cons (w := w) (by omega) hws b).mp hb
    have hfb : (poolRun { epoch := e } ops).1.fin.highest ≤ b.1 := by
      rcases Nat.lt_or_ge b.1 (poolRun { epoch := e } ops).1.fin.highest with hlt | hge
      · exfalso
        obtain ⟨_, n1, n2⟩ := S.top_not_skipped (by omega)
        rcases hskp _ hlt hfw with a | a
        · exact n1 (mem_of_skCertAcc a)
        · exact n2 a
      · exact hge
    refine (pool_ready_iff_above e rops S.recv_cons (w := w) (by omega) hws b (by omega)).mpr ⟨hbw, ?_, ?_⟩
    · -- the block
      have hcase : b = (0, 0) ∨ (0 < (poolRun { epoch := e } ops).1.fin.highest ∧
            Finality.Final (finOps (poolLog { epoch := e } ops)) b) ∨
          ((poolRun { epoch := e } ops).1.fin.highest < b.1 ∧
            ∃ c, LogItem.cert c ∈ poolLog { epoch := e } ops ∧ (c.kind = .notar ∨ c.kind = .nf) ∧ (c.slot, c.hash) = b) := by
        have hfinal : Finality.Final (finOps (poolLog { epoch := e } ops)) b →
            b = (0, 0) ∨ (0 < (poolRun { epoch := e } ops).1.fin.highest ∧
              Finality.Final (finOps (poolLog { epoch := e } ops)) b) := by
          intro a
          have hle := final_le_highest S.cons.safe rp a
          rcases Nat.eq_zero_or_pos (poolRun { epoch := e } ops).1.fin.highest with h0 | hpos
          · left
            have hb0 : b.1 = 0 := by omega
            have hb' : b = (0, b.2) := Prod.ext hb0 rfl
            have a' := a
            rw [hb'] at a'
            exact Prod.ext hb0 (S.cons.genesis b.2 a')
          · exact Or.inr ⟨hpos, a⟩
        rcases hnfp with a | a | a
        · exact Or.inl a
        · obtain ⟨c, hm, hk, he⟩ := mem_of_nfCertAcc a
          rcases Nat.lt_or_ge (poolRun { epoch := e } ops).1.fin.highest b.1 with hlt | hge
          · exact Or.inr (Or.inr ⟨hlt, c, hm, hk, he⟩)
          · have hbf : b.1 = (poolRun { epoch := e } ops).1.fin.highest := by omega
            have hcs : c.slot = b.1 := congrArg Prod.fst he
            rcases Nat.eq_zero_or_pos (poolRun { epoch := e } ops).1.fin.highest with h0 | hpos
            · left
              rcases hk with hk | hk
              · have := S.cons.safe.notar_fun (0, 0) (c.slot, c.hash) (Or.inl rfl) (Or.inr (mem_finOps_notar hm hk))
                  (by simp; omega)
                rw [← he, ← this]
              · have := (hnf c hm hk).1 (by omega)
                rw [← he, this]
                have : c.slot = 0 := by omega
                rw [this]
            · obtain ⟨⟨hf, hfin⟩, _, _⟩ := S.top_not_skipped hpos
              have hb' : b = ((poolRun { epoch := e } ops).1.fin.highest, hf) := by
                rcases hk with hk | hk
                · have hdir := final_top_direct S.cons.safe hfin (fun c' hc' => final_le_highest S.cons.safe rp hc')
                  have := S.cons.safe.notar_direct (c.slot, c.hash) _ (Or.inr (mem_finOps_notar hm hk)) hdir
                    (by simp; omega)
                  rw [← he, this]
                · have := (hnf c hm hk).2 hf (by rw [hcs, hbf]; exact hfin)
                  rw [← he, this, hcs, hbf]
              exact Or.inr (Or.inl ⟨hpos, by rw [hb']; exact hfin⟩)
        · rcases hfinal a with x | x
          · exact Or.inl x
          · exact Or.inr (Or.inl x)
      rcases hcase with a | ⟨hpos, a⟩ | ⟨hlt, c, hm, hk, he⟩
      · exact Or.inl a
      · obtain ⟨h', hf'⟩ := S.recv_reaches hpos
        have hle := final_le_highest S.cons.safe rp a
        have := S.cons.safe.final_fun _ b (hf'.mono hsubF) a (by simp; omega)
        rw [this] at hf'
        exact Or.inr (Or.inr hf')
      · have hcs : c.slot = b.1 := congrArg Prod.fst he
        obtain ⟨c', hm', hk', hs', hh'⟩ := S.relayed c hm (by omega) (by omega)
        refine Or.inr (Or.inl ⟨c', hm', by rw [hk']; exact hk, ?_⟩)
        rw [hs', hh' (by rcases hk with hk | hk; exact Or.inl hk; exact Or.inr (Or.inl hk))]
        exact he
    · -- the skipped slots in between
      intro u h1 h2
      rcases hskp u h1 h2 with a | a
      · obtain ⟨c, hm, hk, hs⟩ := mem_of_skCertAcc a
        obtain ⟨c', hm', hk', hs', _⟩ := S.relayed c hm (by omega) (by omega)
        exact Or.inl ⟨c', hm', hk'.trans hk, hs'.trans hs⟩
      · exfalso
        obtain ⟨c, p, hc, hl, _, h4⟩ := a
        have := final_le_highest S.cons.safe rp hc
        omega

end Replay

/-- `NfAgree` with bounded quantifiers -/
def NfAgreeC (L : List LogItem) : Prop :=
  ∀ it ∈ L, match it with
    | .cert c => c.kind = .nf → (c.slot = 0 → c.hash = 0) ∧ ∀ b ∈ Finality.finals (finOps L), b.1 = c.slot → c.hash = b.2
    | .block _ _ => True

instance (L : List LogItem) : Decidable (NfAgreeC L) := by
  unfold NfAgreeC
  have : ∀ it : LogItem, Decidable (match it with
    | .cert c => c.kind = .nf → (c.slot = 0 → c.hash = 0) ∧ ∀ b ∈ Finality.finals (finOps L), b.1 = c.slot → c.hash = b.2
    | .block _ _ => True) := by
    intro it; cases it <;> infer_instance
  infer_instance

theorem nfAgreeC_iff {L : List LogItem} (sf : Finality.Safe (finOps L)) : NfAgreeC L ↔ NfAgree L := by
  constructor
  · intro h c hm hk
    have := h (.cert c) hm hk
    exact ⟨this.1, fun hh hf => this.2 (c.slot, hh) ((Finality.mem_finals sf.link_lt).mpr hf) rfl⟩
  · intro h it hm
    cases it with
    | block b par => trivial
    | cert c =>
      intro hk
      refine ⟨(h c hm hk).1, fun b hb e => ?_⟩
      exact (h c hm hk).2 b.2 (by rw [← e]; exact (Finality.mem_finals sf.link_lt).mp hb)

end AgModel.Pool
