import AgModel.Model.LtHash
/-! Lattice-hash commitment: lane arithmetic is an abelian group, the commitment is order independent,
and incremental maintenance (`observe`) agrees with recomputation. Core Lean only. -/
namespace AgModel.LtHash

theorem numLanes_eq : numLanes = 1024 := by decide

/-! ### scalar facts -/

theorem wadd_lt (x y : Nat) : wadd x y < M := by
  unfold wadd M; omega

theorem wsub_lt (x y : Nat) : wsub x y < M := by
  unfold wsub M; omega

theorem wadd_comm (x y : Nat) : wadd x y = wadd y x := by
  unfold wadd M; omega

theorem wadd_right_comm (x y z : Nat) : wadd (wadd x y) z = wadd (wadd x z) y := by
  unfold wadd M; omega

theorem wadd_zero_left (x : Nat) (hx : x < M) : wadd 0 x = x := by
  unfold wadd; unfold M at *; omega

theorem wsub_wadd_cancel (x y : Nat) (hx : x < M) : wsub (wadd x y) y = x := by
  unfold wsub wadd; unfold M at *; omega

theorem wadd_wsub_cancel (x y : Nat) (hx : x < M) : wadd (wsub x y) y = x := by
  unfold wsub wadd; unfold M at *; omega

/-! ### lane vectors -/

theorem addL_nil_left (b : Lanes) : addL [] b = [] := by simp [addL]
theorem addL_nil_right (a : Lanes) : addL a [] = [] := by simp [addL]
theorem addL_cons (x y : Nat) (a b : Lanes) : addL (x :: a) (y :: b) = wadd x y :: addL a b := by
  simp [addL]
theorem subL_nil_left (b : Lanes) : subL [] b = [] := by simp [subL]
theorem subL_nil_right (a : Lanes) : subL a [] = [] := by simp [subL]
theorem subL_cons (x y : Nat) (a b : Lanes) : subL (x :: a) (y :: b) = wsub x y :: subL a b := by
  simp [subL]

theorem addL_length (a b : Lanes) : (addL a b).length = min a.length b.length := by
  simp [addL]

theorem subL_length (a b : Lanes) : (subL a b).length = min a.length b.length := by
  simp [subL]

theorem addL_mem_lt (a b : Lanes) : ∀ x ∈ addL a b, x < M := by
  induction a generalizing b with
  | nil => simp [addL_nil_left]
  | cons x xs ih =>
    cases b with
    | nil => simp [addL_nil_right]
    | cons y ys =>
      intro z hz
      rw [addL_cons, List.mem_cons] at hz
      rcases hz with hz | hz
      · rw [hz]; exact wadd_lt x y
      · exact ih ys z hz

theorem subL_mem_lt (a b : Lanes) : ∀ x ∈ subL a b, x < M := by
  induction a generalizing b with
  | nil => simp [subL_nil_left]
  | cons x xs ih =>
    cases b with
    | nil => simp [subL_nil_right]
    | cons y ys =>
      intro z hz
      rw [subL_cons, List.mem_cons] at hz
      rcases hz with hz | hz
      · rw [hz]; exact wsub_lt x y
      · exact ih ys z hz

theorem identity_ok : LanesOK identity := by
  refine ⟨by simp [identity], ?_⟩
  intro x hx
  simp only [identity, List.mem_replicate] at hx
  rw [hx.2]; unfold M; omega

theorem addL_ok (a b : Lanes) (ha : LanesOK a) (hb : LanesOK b) : LanesOK (addL a b) := by
  refine ⟨?_, addL_mem_lt a b⟩
  rw [addL_length, ha.1, hb.1]; omega

theorem subL_ok (a b : Lanes) (ha : LanesOK a) (hb : LanesOK b) : LanesOK (subL a b) := by
  refine ⟨?_, subL_mem_lt a b⟩
  rw [subL_length, ha.1, hb.1]; omega

theorem addL_comm (a b : Lanes) : addL a b = addL b a := by
  induction a generalizing b with
  | nil => rw [addL_nil_left, addL_nil_right]
  | cons x xs ih =>
    cases b with
    | nil => rw [addL_nil_left, addL_nil_right]
    | cons y ys => rw [addL_cons, addL_cons, wadd_comm, ih]

theorem addL_right_comm (a b c : Lanes) : addL (addL a b) c = addL (addL a c) b := by
  induction a generalizing b c with
  | nil => simp only [addL_nil_left]
  | cons x xs ih =>
    cases b with
    | nil =>
      cases c with
      | nil => simp only [addL_nil_right]
      | cons z zs => simp only [addL_nil_right, addL_nil_left]
    | cons y ys =>
      cases c with
      | nil => simp only [addL_nil_right, addL_nil_left]
      | cons z zs => simp only [addL_cons]; rw [wadd_right_comm, ih]

theorem addL_replicate_zero (n : Nat) (a : Lanes) (hl : a.length = n) (hm : ∀ x ∈ a, x < M) :
    addL (List.replicate n 0) a = a := by
  induction a generalizing n with
  | nil => rw [addL_nil_right]
  | cons x xs ih =>
    cases n with
    | zero => simp at hl
    | succ n =>
      rw [List.replicate_succ, addL_cons, wadd_zero_left x (hm x (by simp)),
        ih n (by simpa using hl) (fun z hz => hm z (by simp [hz]))]

theorem addL_identity (a : Lanes) (ha : LanesOK a) : addL identity a = a :=
  addL_replicate_zero numLanes a ha.1 ha.2

theorem subL_addL_cancel' (a b : Lanes) (hl : a.length = b.length) (hm : ∀ x ∈ a, x < M) :
    subL (addL a b) b = a := by
  induction a generalizing b with
  | nil => rw [addL_nil_left, subL_nil_left]
  | cons x xs ih =>
    cases b with
    | nil => simp at hl
    | cons y ys =>
      rw [addL_cons, subL_cons, wsub_wadd_cancel x y (hm x (by simp)),
        ih ys (by simpa using hl) (fun z hz => hm z (by simp [hz]))]

theorem addL_subL_cancel' (a b : Lanes) (hl : a.length = b.length) (hm : ∀ x ∈ a, x < M) :
    addL (subL a b) b = a := by
  induction a generalizing b with
  | nil => rw [subL_nil_left, addL_nil_left]
  | cons x xs ih =>
    cases b with
    | nil => simp at hl
    | cons y ys =>
      rw [subL_cons, addL_cons, wadd_wsub_cancel x y (hm x (by simp)),
        ih ys (by simpa using hl) (fun z hz => hm z (by simp [hz]))]

theorem subL_addL_cancel (a b : Lanes) (ha : LanesOK a) (hb : LanesOK b) : subL (addL a b) b = a :=
  subL_addL_cancel' a b (ha.1.trans hb.1.symm) ha.2

theorem addL_subL_cancel (a b : Lanes) (ha : LanesOK a) (hb : LanesOK b) : addL (subL a b) b = a :=
  addL_subL_cancel' a b (ha.1.trans hb.1.symm) ha.2

/-! ### the fold with a general accumulator -/

/-- `commitOf` started from an arbitrary accumulator -/
def foldAcc {κ ν : Type} (h : κ → ν → Lanes) (acc : Lanes) (l : List (κ × ν)) : Lanes :=
  l.foldl (fun acc kv => addL acc (h kv.1 kv.2)) acc

theorem commitOf_eq_foldAcc {κ ν : Type} (h : κ → ν → Lanes) (l : List (κ × ν)) :
    commitOf h l = foldAcc h identity l := rfl

theorem foldAcc_nil {κ ν : Type} (h : κ → ν → Lanes) (acc : Lanes) : foldAcc h acc [] = acc := rfl

theorem foldAcc_cons {κ ν : Type} (h : κ → ν → Lanes) (acc : Lanes) (kv : κ × ν) (l : List (κ × ν)) :
    foldAcc h acc (kv :: l) = foldAcc h (addL acc (h kv.1 kv.2)) l := rfl

theorem foldAcc_addL {κ ν : Type} (h : κ → ν → Lanes) (acc x : Lanes) (l : List (κ × ν)) :
    foldAcc h (addL acc x) l = addL (foldAcc h acc l) x := by
  induction l generalizing acc with
  | nil => rfl
  | cons kv l ih => rw [foldAcc_cons, foldAcc_cons, addL_right_comm, ih]

theorem foldAcc_perm {κ ν : Type} (h : κ → ν → Lanes) (l1 l2 : List (κ × ν)) (hp : l1.Perm l2) :
    ∀ acc, foldAcc h acc l1 = foldAcc h acc l2 := by
  induction hp with
  | nil => intro acc; rfl
  | cons x _ ih => intro acc; rw [foldAcc_cons, foldAcc_cons, ih]
  | swap x y l =>
    intro acc
    rw [foldAcc_cons, foldAcc_cons, foldAcc_cons, foldAcc_cons, addL_right_comm]
  | trans _ _ ih1 ih2 => intro acc; rw [ih1, ih2]

theorem foldAcc_ok {κ ν : Type} (h : κ → ν → Lanes) (hOK : ∀ k v, LanesOK (h k v))
    (acc : Lanes) (hacc : LanesOK acc) (l : List (κ × ν)) : LanesOK (foldAcc h acc l) := by
  induction l generalizing acc with
  | nil => exact hacc
  | cons kv l ih =>
    rw [foldAcc_cons]
    exact ih _ (addL_ok _ _ hacc (hOK kv.1 kv.2))

/-! ### contents with pairwise distinct keys -/

theorem filter_ne_eq_self {κ ν : Type} [DecidableEq κ] (l : List (κ × ν)) (k : κ)
    (hk : k ∉ l.map (·.1)) : l.filter (fun kv => kv.1 ≠ k) = l := by
  rw [List.filter_eq_self]
  intro kv hkv
  have : kv.1 ≠ k := by
    intro e
    apply hk
    rw [← e]
    exact List.mem_map_of_mem hkv
  simpa using this

/-- either `k` is vacant, or the contents are the entry under `k` plus everything else -/
theorem find_filter_cases {κ ν : Type} [DecidableEq κ] (l : List (κ × ν)) (k : κ)
    (hnodup : (l.map (·.1)).Nodup) :
    ((l.find? (fun kv => kv.1 = k)).map (·.2) = none ∧ l.filter (fun kv => kv.1 ≠ k) = l) ∨
    (∃ o, (l.find? (fun kv => kv.1 = k)).map (·.2) = some o ∧
      l.Perm ((k, o) :: l.filter (fun kv => kv.1 ≠ k))) := by
  induction l with
  | nil => left; simp
  | cons kv l ih =>
    obtain ⟨k1, v1⟩ := kv
    rw [List.map_cons, List.nodup_cons] at hnodup
    by_cases hk : k1 = k
    · right
      subst hk
      refine ⟨v1, by simp, ?_⟩
      have hf := filter_ne_eq_self l k1 hnodup.1
      rw [List.filter_cons]
      simp only [ne_eq, not_true_eq_false, decide_false, Bool.false_eq_true, ↓reduceIte]
      simp only [ne_eq] at hf
      rw [hf]
    · have e1 : ((k1, v1) :: l).find? (fun kv => kv.1 = k) = l.find? (fun kv => kv.1 = k) := by
        simp [hk]
      have e2 : ((k1, v1) :: l).filter (fun kv => kv.1 ≠ k)
          = (k1, v1) :: l.filter (fun kv => kv.1 ≠ k) := by
        simp [hk]
      rw [e1, e2]
      rcases ih hnodup.2 with ⟨h1, h2⟩ | ⟨o, h1, h2⟩
      · left; exact ⟨h1, by rw [h2]⟩
      · right
        exact ⟨o, h1, (List.Perm.cons _ h2).trans (List.Perm.swap _ _ _)⟩

/-! ### the commitment -/

section
variable {κ ν : Type} (h : κ → ν → Lanes) (hOK : ∀ k v, LanesOK (h k v))
include hOK

theorem commitOf_ok (l : List (κ × ν)) : LanesOK (commitOf h l) :=
  foldAcc_ok h hOK identity identity_ok l

theorem commitOf_cons (k : κ) (v : ν) (l : List (κ × ν)) :
    commitOf h ((k, v) :: l) = addL (commitOf h l) (h k v) := by
  have _ := hOK
  rw [commitOf_eq_foldAcc, commitOf_eq_foldAcc, foldAcc_cons, foldAcc_addL]

/-- order independence: the commitment depends only on the multiset of entries -/
theorem commitOf_perm (l1 l2 : List (κ × ν)) (hp : l1.Perm l2) : commitOf h l1 = commitOf h l2 := by
  have _ := hOK
  exact foldAcc_perm h l1 l2 hp identity

theorem commitOf_append (l1 l2 : List (κ × ν)) : commitOf h (l1 ++ l2) = commitOf h (l2 ++ l1) :=
  commitOf_perm h hOK _ _ List.perm_append_comm

/-- One write. `l` are the contents before (pairwise distinct keys), `old` the value previously stored under `k`
    (`none` if vacant), `new` the value stored now (`none` = deleted), `l'` any listing of the contents after.
    Then `observe` on the maintained commitment yields the commitment recomputed from `l'`. -/
theorem commit_update [DecidableEq κ] (l l' : List (κ × ν)) (k : κ) (old new : Option ν)
    (hnodup : (l.map (·.1)).Nodup)
    (hold : old = (l.find? (fun kv => kv.1 = k)).map (·.2))
    (hl' : l'.Perm ((match new with | some v => [(k, v)] | none => []) ++ l.filter (fun kv => kv.1 ≠ k))) :
    observe (commitOf h l) (old.map (h k)) (new.map (h k)) = commitOf h l' := by
  rcases find_filter_cases l k hnodup with ⟨h1, h2⟩ | ⟨o, h1, h2⟩
  · rw [h1] at hold
    rw [h2] at hl'
    subst hold
    cases new with
    | none =>
      have hp : l'.Perm l := by simpa using hl'
      rw [commitOf_perm h hOK l' l hp]
      rfl
    | some v =>
      have hp : l'.Perm ((k, v) :: l) := by simpa using hl'
      rw [commitOf_perm h hOK l' _ hp, commitOf_cons h hOK]
      rfl
  · rw [h1] at hold
    subst hold
    have e : subL (commitOf h l) (h k o) = commitOf h (l.filter (fun kv => kv.1 ≠ k)) := by
      rw [commitOf_perm h hOK l _ h2, commitOf_cons h hOK,
        subL_addL_cancel _ _ (commitOf_ok h hOK _) (hOK k o)]
    cases new with
    | none =>
      have hp : l'.Perm (l.filter (fun kv => kv.1 ≠ k)) := by simpa using hl'
      rw [commitOf_perm h hOK l' _ hp]
      exact e
    | some v =>
      have hp : l'.Perm ((k, v) :: l.filter (fun kv => kv.1 ≠ k)) := by simpa using hl'
      rw [commitOf_perm h hOK l' _ hp, commitOf_cons h hOK, ← e]
      rfl

end

end AgModel.LtHash
