import AgModel.Proofs.Blockstore
/-! Honest-leader invariant of `AgModel.Blockstore.addShredCore` (core Lean only). -/
namespace AgModel.Blockstore
open AgModel.Merkle

/-! ### counting over `List.range` -/

theorem mapLen_bound {α : Type} (f : Nat → Option α) (n d : Nat) (hf : ∀ i, (f i).isSome → i < n) :
    mapLen (n + d) f = mapLen n f := by
  induction d with
  | zero => rfl
  | succ d ih =>
    unfold mapLen at ih ⊢
    rw [← Nat.add_assoc, List.range_succ, List.countP_append, ih]
    have : (f (n + d)).isSome = false := by
      cases h : (f (n + d)).isSome with
      | false => rfl
      | true => have := hf _ h; omega
    simp [this]

theorem mapLen_full {α : Type} (f : Nat → Option α) (n : Nat) (h : mapLen n f = n) :
    ∀ i, i < n → (f i).isSome := by
  unfold mapLen at h
  have hl : (List.range n).countP (fun i => (f i).isSome) = (List.range n).length := by simpa using h
  rw [List.countP_eq_length] at hl
  intro i hi
  exact hl i (List.mem_range.mpr hi)

theorem mapVals_bound {α : Type} (f : Nat → Option α) (n d : Nat) (hf : ∀ i, n ≤ i → f i = none) :
    mapVals (n + d) f = mapVals n f := by
  induction d with
  | zero => rfl
  | succ d ih =>
    unfold mapVals at ih ⊢
    rw [← Nat.add_assoc, List.range_succ, List.filterMap_append, ih]
    simp [hf (n + d) (by omega)]

theorem mapVals_map {α : Type} (f : Nat → Option α) (g : Nat → α) (n : Nat) (hf : ∀ i, i < n → f i = some (g i)) :
    mapVals n f = (List.range n).map g := by
  unfold mapVals
  induction n with
  | zero => rfl
  | succ n ih =>
    rw [List.range_succ, List.filterMap_append, List.map_append, ih (fun i hi => hf i (by omega))]
    simp [hf n (by omega)]

theorem hasKeyAbove_false {α : Type} (cap : Nat) (f : Nat → Option α) (k : Nat) (hf : ∀ i, (f i).isSome → i ≤ k) :
    hasKeyAbove cap f k = false := by
  unfold hasKeyAbove
  rw [List.any_eq_false]
  intro i _
  cases h : (f i).isSome with
  | false => simp
  | true => have := hf i h; simp; omega

/-! ### honest blocks -/

structure HBlock where
  slot : Nat
  n : Nat
  root : Nat → Nat
  sz : Nat → Nat
  parent : Nat → Option (Nat × Nat)
  txs : Nat → List Nat
  /-- the parent the block ends up with (after an optimistic-handover switch, if any) -/
  fparent : Nat × Nat

namespace HBlock
def isLast (B : HBlock) (i : Nat) : Bool := decide (i + 1 = B.n)
def commit (B : HBlock) (i : Nat) : Commitment := ⟨i, B.isLast i, B.root i⟩
/-- the leader's shred `j` of slice `i` -/
def shred (B : HBlock) (i j : Nat) : Shred := ⟨i, B.isLast i, B.root i, j, B.sz i, true⟩
def rslice (B : HBlock) (i : Nat) : RSlice := ⟨i, B.isLast i, B.root i, B.parent i, some (B.txs i)⟩
def roots (B : HBlock) : List Nat := (List.range B.n).map B.root
def allTxs (B : HBlock) : List Nat := (List.range B.n).flatMap B.txs
/-- the block a correct leader disseminated -/
def block (B : HBlock) : Block := ⟨(Tree.new B.roots).root, B.fparent, B.allTxs⟩

/-- a block a *correct* leader produces, w.r.t. what its slices decode to -/
structure WF (B : HBlock) (env : Nat → Content) (cap : Nat) : Prop where
  npos : 0 < B.n
  ncap : B.n ≤ cap
  szpos : ∀ i, B.sz i ≠ 0
  envok : ∀ i, i < B.n → env (B.root i) = .ok (B.parent i) (some (B.txs i))
  fold : ∃ p, B.parent 0 = some p ∧
    foldSlices ((List.range B.n).map B.rslice) p false [] = some (B.fparent, B.allTxs)
  pslot : B.fparent.1 < B.slot

/-- a shred the leader produced for this block (any slice, any index) -/
def Honest (B : HBlock) (s : Shred) : Prop := s.slice < B.n ∧ s.idx < TOTAL_SHREDS ∧ s = B.shred s.slice s.idx
/-- the leader's shreds carry the data/coding type that fits their index -/
theorem Honest.ty {B : HBlock} {s : Shred} (hs : B.Honest s) : s.ty = true := by
  rw [hs.2.2]; rfl
end HBlock

open HBlock

/-- everything the store holds is the leader's -/
structure Good (B : HBlock) (cap : Nat) (b : BlockData) : Prop where
  hcap : b.cap = cap
  hslot : b.slot = B.slot
  cache : ∀ i c, b.cache i = some c → i < B.n ∧ c = B.commit i
  last : ∀ l, b.lastSlice = some l → l + 1 = B.n
  shreds : ∀ i arr, b.shreds i = some arr → i < B.n ∧ ∀ j s, arr j = some s → j < TOTAL_SHREDS ∧ s = B.shred i j
  slices : ∀ i r, b.slices i = some r → i < B.n ∧ r = B.rslice i
  completed : ∀ blk, b.completed = some blk → blk = B.block

theorem good_new (B : HBlock) (cap : Nat) : Good B cap (BlockData.new cap B.slot) := by
  constructor <;> simp [BlockData.new]

theorem cacheStep_good (B : HBlock) (cap : Nat) (b : BlockData) (s : Shred) (hg : Good B cap b) (hs : B.Honest s) :
    ∃ b1, cacheStep b s = some b1 ∧ Good B cap b1 := by
  obtain ⟨hlt, _, heq⟩ := hs
  have hcom : s.commitment = B.commit s.slice := congrArg Shred.commitment heq
  unfold cacheStep
  cases hc : b.cache s.slice with
  | some c =>
    have := (hg.cache _ _ hc).2
    simp only
    rw [if_neg (by rw [this, hcom]; simp)]
    exact ⟨b, rfl, hg⟩
  | none =>
    refine ⟨_, rfl, ?_⟩
    constructor
    · exact hg.hcap
    · exact hg.hslot
    · intro i c hi
      simp only [upd] at hi
      split at hi
      · rename_i hik; subst hik; simp at hi; subst hi; exact ⟨hlt, hcom⟩
      · exact hg.cache i c hi
    · exact hg.last
    · exact hg.shreds
    · exact hg.slices
    · exact hg.completed

theorem lastStep_good (B : HBlock) (cap : Nat) (b : BlockData) (s : Shred) (hg : Good B cap b) (hs : B.Honest s) :
    ∃ b2, lastStep b s = some b2 ∧ Good B cap b2 := by
  obtain ⟨hlt, _, heq⟩ := hs
  have hil : s.isLast = decide (s.slice + 1 = B.n) := congrArg Shred.isLast heq
  unfold lastStep
  cases hl : b.lastSlice with
  | none =>
    simp only
    by_cases hlast : s.isLast = true
    · simp only [hlast, if_true]
      have hn : s.slice + 1 = B.n := by rw [hil] at hlast; simpa using hlast
      have : hasKeyAbove b.cap b.cache s.slice = false := by
        apply hasKeyAbove_false
        intro i hi
        cases hci : b.cache i with
        | none => simp [hci] at hi
        | some c => have := (hg.cache i c hci).1; omega
      simp only [this, Bool.false_eq_true, if_false]
      refine ⟨_, rfl, ?_⟩
      constructor
      · exact hg.hcap
      · exact hg.hslot
      · exact hg.cache
      · intro l hl'; simp [markLastSlice] at hl'; omega
      · intro i arr hi
        simp only [markLastSlice, retainLe] at hi
        split at hi
        · exact hg.shreds i arr hi
        · simp at hi
      · intro i r hi
        simp only [markLastSlice, retainLe] at hi
        split at hi
        · exact hg.slices i r hi
        · simp at hi
      · exact hg.completed
    · simp only [hlast, Bool.false_eq_true, if_false]
      exact ⟨b, rfl, hg⟩
  | some l =>
    have hln := hg.last l hl
    simp only
    have : ((decide (s.slice < l) && !s.isLast) || (s.slice == l && s.isLast)) = true := by
      rw [hil]
      by_cases h1 : s.slice + 1 = B.n
      · have : s.slice = l := by omega
        simp [this, hln]
      · have : s.slice < l := by omega
        simp [h1, this]
    rw [if_pos this]
    exact ⟨b, rfl, hg⟩

/-- `deshred` on an array holding only the leader's shreds of slice `i` never fails -/
theorem deshred_honest (B : HBlock) (env : Nat → Content) (cap : Nat) (hwf : B.WF env cap) (i : Nat) (hi : i < B.n)
    (arr : ShredArr) (harr : ∀ j s, arr j = some s → j < TOTAL_SHREDS ∧ s = B.shred i j) :
    deshred env arr = .notEnough ∨
    ∃ arr', deshred env arr = .ok (B.rslice i) arr' ∧ ∀ j s, arr' j = some s → j < TOTAL_SHREDS ∧ s = B.shred i j := by
  unfold deshred
  have hpres : ∀ s ∈ present arr, ∃ j, s = B.shred i j := by
    intro s hs
    unfold present at hs
    simp only [List.mem_filterMap, List.mem_range] at hs
    obtain ⟨j, _, hj⟩ := hs
    exact ⟨j, (harr j s hj).2⟩
  cases hp : present arr with
  | nil => left; rfl
  | cons f rest =>
    simp only
    have hall : ∀ s ∈ f :: rest, ∃ j, s = B.shred i j := by rw [← hp]; exact hpres
    obtain ⟨j0, hf⟩ := hall f (List.mem_cons_self)
    have hlay : layoutOk (f :: rest) = true := by
      unfold layoutOk
      simp only [Bool.and_eq_true, decide_eq_true_eq, List.all_eq_true]
      refine ⟨⟨?_, ?_⟩, ?_⟩
      · rw [hf]; exact hwf.szpos i
      · intro s hs; obtain ⟨j, rfl⟩ := hall s hs; rw [hf]; simp [HBlock.shred]
      · intro s hs; obtain ⟨j, rfl⟩ := hall s hs; simp [HBlock.shred]
    simp only [hlay, Bool.not_true, Bool.false_eq_true, if_false]
    split
    · left; rfl
    · right
      have henv : env f.root = .ok (B.parent i) (some (B.txs i)) := by rw [hf]; exact hwf.envok i hi
      rw [henv]
      simp only
      refine ⟨refill f arr, ?_, ?_⟩
      · rw [hf]; rfl
      · intro j s hjs
        unfold refill at hjs
        split at hjs
        · rename_i hj
          cases hold : arr j with
          | some s' => rw [hold] at hjs; simp at hjs; subst hjs; exact harr j s' hold
          | none =>
            rw [hold] at hjs; simp at hjs; subst hjs
            refine ⟨hj, ?_⟩
            rw [hf]; rfl
        · exact harr j s hjs

theorem tryReconstructSlice_good (B : HBlock) (env : Nat → Content) (cap : Nat) (hwf : B.WF env cap)
    (b : BlockData) (i : Nat) (hg : Good B cap b) (hi : i < B.n) (hsome : (b.shreds i).isSome) :
    Good B cap (tryReconstructSlice env b i).1 ∧
    ((tryReconstructSlice env b i).2 = .noAction ∨ (tryReconstructSlice env b i).2 = .complete) := by
  unfold tryReconstructSlice
  split
  · exact ⟨hg, Or.inl rfl⟩
  split
  · exact ⟨hg, Or.inl rfl⟩
  cases harr : b.shreds i with
  | none => simp [harr] at hsome
  | some arr =>
    simp only
    have hh := (hg.shreds i arr harr).2
    rcases deshred_honest B env cap hwf i hi arr hh with hne | ⟨arr', hok, harr'⟩
    · rw [hne]; exact ⟨hg, Or.inl rfl⟩
    · rw [hok]
      simp only
      have hpar : ((B.rslice i).parent.isNone && (B.rslice i).slice == 0) = false := by
        obtain ⟨p, hp, _⟩ := hwf.fold
        by_cases h0 : i = 0
        · subst h0; simp [HBlock.rslice, hp]
        · simp [HBlock.rslice, h0]
      rw [hpar]
      simp only [Bool.false_eq_true, if_false]
      refine ⟨?_, by trivial⟩
      constructor
      · exact hg.hcap
      · exact hg.hslot
      · exact hg.cache
      · exact hg.last
      · intro k a hk
        simp only [upd] at hk
        split at hk
        · rename_i hki; subst hki; simp at hk; subst hk; exact ⟨hi, harr'⟩
        · exact hg.shreds k a hk
      · intro k r hk
        simp only [upd] at hk
        split at hk
        · rename_i hki; subst hki; simp at hk; subst hk; exact ⟨hi, rfl⟩
        · exact hg.slices k r hk
      · exact hg.completed

theorem tryReconstructBlock_good (B : HBlock) (env : Nat → Content) (cap : Nat) (hwf : B.WF env cap)
    (b : BlockData) (hg : Good B cap b) :
    Good B cap (tryReconstructBlock b).1 ∧
    ((tryReconstructBlock b).2 = .noAction ∨ (tryReconstructBlock b).2 = .complete B.block.info) := by
  unfold tryReconstructBlock
  split
  · exact ⟨hg, Or.inl rfl⟩
  split
  · exact ⟨hg, Or.inl rfl⟩
  rename_i last hl
  split
  · exact ⟨hg, Or.inl rfl⟩
  rename_i hlen
  have hln := hg.last last hl
  have hlen : mapLen b.cap b.slices = B.n := by
    have : mapLen b.cap b.slices = last + 1 := by
      cases Nat.decEq (mapLen b.cap b.slices) (last + 1) with
      | isTrue h => exact h
      | isFalse h => exact absurd h hlen
    omega
  have hkeys : ∀ i, (b.slices i).isSome → i < B.n := by
    intro i hi
    cases hsi : b.slices i with
    | none => simp [hsi] at hi
    | some r => exact (hg.slices i r hsi).1
  obtain ⟨d, hd⟩ : ∃ d, b.cap = B.n + d := ⟨b.cap - B.n, by have := hwf.ncap; have := hg.hcap; omega⟩
  have hfull : ∀ i, i < B.n → b.slices i = some (B.rslice i) := by
    intro i hi
    have h1 : mapLen B.n b.slices = B.n := by rw [← mapLen_bound b.slices B.n d hkeys, ← hd]; exact hlen
    have := mapLen_full b.slices B.n h1 i hi
    cases hsi : b.slices i with
    | none => simp [hsi] at this
    | some r => rw [(hg.slices i r hsi).2]
  have hnone : ∀ i, B.n ≤ i → b.slices i = none := by
    intro i hi
    cases hsi : b.slices i with
    | none => rfl
    | some r => have := (hg.slices i r hsi).1; omega
  have hvals : mapVals b.cap b.slices = (List.range B.n).map B.rslice := by
    rw [hd, mapVals_bound b.slices B.n d hnone]
    exact mapVals_map b.slices B.rslice B.n hfull
  have hroots : ((List.range B.n).map B.rslice).map (·.root) = B.roots := by
    simp [HBlock.roots, HBlock.rslice, List.map_map, Function.comp_def]
  obtain ⟨p, hp, hfold⟩ := hwf.fold
  have h0 : b.slices 0 = some (B.rslice 0) := hfull 0 hwf.npos
  have hslot : ¬ (B.fparent.1 ≥ b.slot) := by rw [hg.hslot]; have := hwf.pslot; omega
  simp only [hvals, h0, hroots]
  have hp' : (B.rslice 0).parent = some p := hp
  simp only [hp', hfold, hslot, if_false]
  refine ⟨?_, Or.inr rfl⟩
  constructor
  · exact hg.hcap
  · exact hg.hslot
  · exact hg.cache
  · exact hg.last
  · exact hg.shreds
  · intro i r hi
    simp only at hi
    split at hi
    · simp at hi
    · exact hg.slices i r hi
  · intro blk hb
    simp only [Option.some.injEq] at hb
    rw [← hb]; rfl

theorem reconstruct_good (B : HBlock) (env : Nat → Content) (cap : Nat) (hwf : B.WF env cap)
    (b : BlockData) (i : Nat) (hg : Good B cap b) (hi : i < B.n) (hsome : (b.shreds i).isSome) :
    Good B cap (reconstruct env b i).1 ∧
    ((reconstruct env b i).2 = .none ∨ (reconstruct env b i).2 = .ev (.block B.block.info)) := by
  unfold reconstruct
  have h1 := tryReconstructSlice_good B env cap hwf b i hg hi hsome
  cases hrs : tryReconstructSlice env b i with
  | mk b1 r1 =>
    rw [hrs] at h1
    simp only at h1 ⊢
    rcases h1 with ⟨hg1, rfl | rfl⟩
    · exact ⟨hg1, Or.inl rfl⟩
    · simp only
      have h2 := tryReconstructBlock_good B env cap hwf b1 hg1
      cases hrb : tryReconstructBlock b1 with
      | mk b2 r2 =>
        rw [hrb] at h2
        simp only at h2 ⊢
        rcases h2 with ⟨hg2, rfl | rfl⟩
        · exact ⟨hg2, Or.inl rfl⟩
        · exact ⟨hg2, Or.inr rfl⟩

/-- the outcomes an honest shred can have -/
def HonestRes (B : HBlock) (r : AddRes) : Prop :=
  r = .none ∨ r = .ev .firstShred ∨ r = .err .duplicate ∨ r = .ev (.block B.block.info)

theorem storeStep_good (B : HBlock) (env : Nat → Content) (cap : Nat) (hwf : B.WF env cap)
    (b : BlockData) (s : Shred) (hg : Good B cap b) (hs : B.Honest s) :
    Good B cap (storeStep env b s).1 ∧ HonestRes B (storeStep env b s).2 := by
  obtain ⟨hlt, hidx, heq⟩ := hs
  have harrOld : ∀ j x, ((b.shreds s.slice).getD arrEmpty) j = some x → j < TOTAL_SHREDS ∧ x = B.shred s.slice j := by
    intro j x hjx
    cases hsh : b.shreds s.slice with
    | none => simp [hsh, arrEmpty] at hjx
    | some arr => simp [hsh] at hjx; exact (hg.shreds _ arr hsh).2 j x hjx
  unfold storeStep
  simp only
  split
  · refine ⟨?_, Or.inr (Or.inr (Or.inl rfl))⟩
    constructor
    · exact hg.hcap
    · exact hg.hslot
    · exact hg.cache
    · exact hg.last
    · intro k a hk
      simp only [upd] at hk
      split at hk
      · rename_i hki; subst hki; simp at hk; subst hk; exact ⟨hlt, harrOld⟩
      · exact hg.shreds k a hk
    · exact hg.slices
    · exact hg.completed
  · have hg' : Good B cap { b with shreds := upd b.shreds s.slice (some (upd ((b.shreds s.slice).getD arrEmpty) s.idx (some s))) } := by
      constructor
      · exact hg.hcap
      · exact hg.hslot
      · exact hg.cache
      · exact hg.last
      · intro k a hk
        simp only [upd] at hk
        split at hk
        · rename_i hki; subst hki
          simp at hk; subst hk
          refine ⟨hlt, ?_⟩
          intro j x hjx
          simp only [upd] at hjx
          split at hjx
          · rename_i hj; subst hj; simp at hjx; subst hjx; exact ⟨hidx, heq⟩
          · exact harrOld j x hjx
        · exact hg.shreds k a hk
      · exact hg.slices
      · exact hg.completed
    split
    · exact ⟨hg', Or.inr (Or.inl rfl)⟩
    · have := reconstruct_good B env cap hwf _ s.slice hg' hlt (by simp [upd])
      refine ⟨this.1, ?_⟩
      rcases this.2 with h | h
      · exact Or.inl h
      · exact Or.inr (Or.inr (Or.inr h))

/-- **The honest-leader invariant.** -/
theorem addShred_good (B : HBlock) (env : Nat → Content) (cap : Nat) (hwf : B.WF env cap)
    (b : BlockData) (s : Shred) (hg : Good B cap b) (hs : B.Honest s) :
    Good B cap (addShredCore env b s).1 ∧ HonestRes B (addShredCore env b s).2 := by
  unfold addShredCore
  obtain ⟨b1, hc, hg1⟩ := cacheStep_good B cap b s hg hs
  rw [hc]
  simp only
  obtain ⟨b2, hl, hg2⟩ := lastStep_good B cap b1 s hg1 hs
  rw [hl]
  simp only
  exact storeStep_good B env cap hwf b2 s hg2 hs

/-! ### a completed block is never announced again -/

theorem reconstruct_of_completed (env : Nat → Content) (b : BlockData) (k : Nat) (h : b.completed.isSome = true) :
    reconstruct env b k = (b, .none) := by
  unfold reconstruct tryReconstructSlice
  simp [h]

theorem cacheStep_completed' (b b1 : BlockData) (s : Shred) (h : cacheStep b s = some b1) : b1.completed = b.completed := by
  unfold cacheStep at h
  repeat' split at h
  all_goals simp at h
  all_goals (subst h; rfl)

theorem lastStep_completed' (b b1 : BlockData) (s : Shred) (h : lastStep b s = some b1) : b1.completed = b.completed := by
  unfold lastStep at h
  repeat' split at h
  all_goals simp at h
  all_goals (subst h; rfl)

theorem addShred_of_completed (env : Nat → Content) (b : BlockData) (s : Shred) (h : b.completed.isSome = true) :
    (addShredCore env b s).1.completed = b.completed ∧ ∀ info, (addShredCore env b s).2 ≠ .ev (.block info) := by
  unfold addShredCore
  cases hc : cacheStep b s with
  | none => exact ⟨rfl, by intro info; simp⟩
  | some b1 =>
    have e1 := cacheStep_completed' b b1 s hc
    simp only
    cases hl : lastStep b1 s with
    | none => exact ⟨e1, by intro info; simp⟩
    | some b2 =>
      have e2 := lastStep_completed' b1 b2 s hl
      simp only
      unfold storeStep
      simp only
      split
      · exact ⟨by simp [e2, e1], by intro info; simp⟩
      · split
        · exact ⟨by simp [e2, e1], by intro info; simp⟩
        · rw [reconstruct_of_completed env _ s.slice (by simp [e2, e1, h])]
          exact ⟨by simp [e2, e1], by intro info; simp⟩

end AgModel.Blockstore
