import AgModel.Proofs.ClusterRun
import Mathlib.Algebra.BigOperators.Fin
/-!
# C01 cluster refinement: from the pool's list arithmetic to the weights of `Spec/Stake.lean`

`Pool.stakeOf e ((List.range n).filter p)` — how the pool model counts the stake of the validators satisfying `p` — equals
the weight `Spec.w` of `p` over `Fin n`; the total stake of the epoch is `Spec.total`; the thresholds `Epoch.isQuorum` …
are `Spec.Q` … . With these, a backed certificate is a certificate of the derived history, and a slot state whose stored
votes are signed witnesses the stake clauses of safe-to-notar / safe-to-skip on the derived history.
-/
namespace AgModel.Cluster
open AgModel AgModel.Node AgModel.NodePanic AgModel.Pool AgModel.Spec Finset

theorem list_sum_range (f : ℕ → ℕ) (n : ℕ) : ((List.range n).map f).sum = ∑ i ∈ Finset.range n, f i := by
  induction n with
  | zero => simp
  | succ n ih => rw [List.range_succ, List.map_append, List.sum_append, ih, Finset.sum_range_succ]; simp

theorem list_sum_filter (l : List ℕ) (f : ℕ → ℕ) (p : ℕ → Bool) :
    ((l.filter p).map f).sum = (l.map (fun j => if p j = true then f j else 0)).sum := by
  induction l with
  | nil => rfl
  | cons a t ih =>
    by_cases hp : p a = true
    · simp [List.filter, hp, ih]
    · simp [List.filter, hp, ih]

/-- the pool's recount of the stake of `{v < n | p v}` is the weight of `p` -/
theorem stakeOf_filter_eq_w (c : Cfg) (i : ℕ) (p : ℕ → Bool) :
    stakeOf (c.epoch i) ((List.range c.n).filter p) = w (stakeFn c) (fun v => p v.val = true) := by
  classical
  unfold stakeOf w
  rw [list_sum_filter, list_sum_range, ← Fin.sum_univ_eq_sum_range (fun j => if p j = true then (c.epoch i).stake j else 0) c.n,
    Finset.sum_filter]
  apply Finset.sum_congr rfl
  intro v _
  by_cases hp : p v.val = true <;> simp [hp, stakeFn, Epoch.stake, Cfg.epoch]

theorem stakeOf_filter_le_w (c : Cfg) (i : ℕ) (p : ℕ → Bool) (P : Fin c.n → Prop) (h : ∀ v : Fin c.n, p v.val = true → P v) :
    stakeOf (c.epoch i) ((List.range c.n).filter p) ≤ w (stakeFn c) P := by
  rw [stakeOf_filter_eq_w]; exact w_mono _ h

theorem list_getD_range (l : List ℕ) : (List.range l.length).map (fun j => l.getD j 0) = l := by
  apply List.ext_getElem
  · simp
  · intro k h1 h2
    simp [List.getD_eq_getElem?_getD, List.getElem?_eq_getElem h2]

theorem total_eq (c : Cfg) : total (stakeFn c) = c.stakes.sum := by
  unfold total stakeFn
  rw [Fin.sum_univ_eq_sum_range (fun j => c.stakes.getD j 0) c.n, ← list_sum_range]
  unfold Cfg.n
  rw [list_getD_range]

theorem epoch_total (c : Cfg) (i : ℕ) : (c.epoch i).total = total (stakeFn c) := by
  rw [total_eq]; rfl

theorem epoch_n (c : Cfg) (i : ℕ) : (c.epoch i).n = c.n := rfl

/-! ### thresholds -/

theorem Q_of_isQuorum (c : Cfg) (i x y : ℕ) (h : (c.epoch i).isQuorum x = true) (hle : x ≤ y) : Q y (total (stakeFn c)) := by
  unfold Epoch.isQuorum isMet at h
  rw [decide_eq_true_eq, epoch_total] at h
  unfold Q
  exact Nat.le_trans h (Nat.mul_le_mul_right _ hle)

theorem Strong_of_isStrong (c : Cfg) (i x y : ℕ) (h : (c.epoch i).isStrong x = true) (hle : x ≤ y) :
    Strong y (total (stakeFn c)) := by
  unfold Epoch.isStrong isMet at h
  rw [decide_eq_true_eq, epoch_total] at h
  unfold Strong
  exact Nat.le_trans h (Nat.mul_le_mul_right _ hle)

theorem Weak_of_isWeak (c : Cfg) (i x y : ℕ) (h : (c.epoch i).isWeak x = true) (hle : x ≤ y) : Weak y (total (stakeFn c)) := by
  unfold Epoch.isWeak isMet at h
  rw [decide_eq_true_eq, epoch_total] at h
  unfold Weak
  exact Nat.le_trans h (Nat.mul_le_mul_right _ hle)

theorem Weakest_of_isWeakest (c : Cfg) (i x y : ℕ) (h : (c.epoch i).isWeakest x = true) (hle : x ≤ y) :
    Weakest y (total (stakeFn c)) := by
  unfold Epoch.isWeakest isMet at h
  rw [decide_eq_true_eq, epoch_total] at h
  unfold Weakest
  exact Nat.le_trans h (Nat.mul_le_mul_right _ hle)

/-! ### signed ⇒ in the history -/

theorem hist_notar_of_sig (c : Cfg) (s : State) (v : Fin c.n) (sl h : ℕ) (hs : (sigOf c s).notar v.val sl h) :
    (histOf c s).notar v (Blk.mk' sl h) := by
  intro hc
  by_cases h0 : sl = 0
  · left; rw [h0, Blk.mk'_zero]
  · right
    rw [Blk.mk'_slot, Blk.mk'_hash _ _ h0]
    exact hs hc

theorem hist_nf_of_sig (c : Cfg) (s : State) (v : Fin c.n) (sl h : ℕ) (h0 : sl ≠ 0) (hs : (sigOf c s).nf v.val sl h) :
    (histOf c s).nf v (Blk.mk' sl h) := by
  intro hc
  rw [Blk.mk'_slot, Blk.mk'_hash _ _ h0]
  exact hs hc

/-- everybody has notarized the genesis block (convention of `Spec.Protocol`) -/
theorem notarW_genesis (c : Cfg) (s : State) : notarW (stakeFn c) (histOf c s) Blk.genesis = total (stakeFn c) := by
  unfold notarW
  rw [← w_true]
  congr 1
  funext v
  exact propext ⟨fun _ => trivial, fun _ _ => Or.inl rfl⟩

theorem total_ge (T : ℕ) : Q T T ∧ Strong T T := by
  constructor
  · rw [Q_iff]; omega
  · rw [Strong_iff]; omega

theorem notarCert_genesis (c : Cfg) (s : State) : NotarCert (stakeFn c) (histOf c s) Blk.genesis := by
  unfold NotarCert; rw [notarW_genesis]; exact (total_ge _).1

theorem ffCert_genesis (c : Cfg) (s : State) : FastFinalCert (stakeFn c) (histOf c s) Blk.genesis := by
  unfold FastFinalCert; rw [notarW_genesis]; exact (total_ge _).2

theorem nfCert_of_notarCert {V B : Type} [Fintype V] (stake : V → ℕ) (H : History V B) (b : B) (h : NotarCert stake H b) :
    NFCert stake H b := by
  unfold NotarCert notarW at h
  unfold NFCert
  rw [Q_iff] at h ⊢
  have := w_mono stake (p := fun v => H.notar v b) (q := fun v => H.notar v b ∨ H.nf v b) (fun v hv => Or.inl hv)
  omega

theorem notarCert_of_ffCert {V B : Type} [Fintype V] (stake : V → ℕ) (H : History V B) (b : B) (h : FastFinalCert stake H b) :
    NotarCert stake H b := by
  unfold FastFinalCert at h
  unfold NotarCert
  rw [Strong_iff] at h
  rw [Q_iff]
  omega

/-! ### a backed certificate is a certificate of the derived history -/

/-- the weight of the validators listed in a certificate -/
theorem certStake_le_w (c : Cfg) (i : ℕ) (x : Cert) (P : Fin c.n → Prop)
    (h1 : ∀ v : Fin c.n, v.val ∈ x.sig1 → P v) (h2 : ∀ v : Fin c.n, v.val ∈ x.sig2 → P v) :
    certStake (c.epoch i) x ≤ w (stakeFn c) P := by
  unfold certStake
  apply stakeOf_filter_le_w
  intro v hv
  simp only [Bool.or_eq_true, List.contains_eq_mem, decide_eq_true_eq] at hv
  rcases hv with hv | hv
  · exact h1 v hv
  · exact h2 v hv

/-- what a certificate of the given kind for `(slot, hash)` means on a history -/
def CertOn (c : Cfg) (H : History (Fin c.n) Blk) (k : CertKind) (sl h : ℕ) : Prop :=
  match k with
  | .notar => NotarCert (stakeFn c) H (Blk.mk' sl h)
  | .nf => NFCert (stakeFn c) H (Blk.mk' sl h)
  | .skip => SkipCert (stakeFn c) H sl
  | .ff => FastFinalCert (stakeFn c) H (Blk.mk' sl h)
  | .final => FinalCert (stakeFn c) H sl

/-- **Stage 2, core**: a certificate backed by the signatures known in state `s` is a certificate of the history derived
    from `s`, for every certificate type. -/
theorem certOn_of_backed (c : Cfg) (s : State) (i : ℕ) (x : Cert) (hb : CertBacked (sigOf c s) (c.epoch i) x) :
    CertOn c (histOf c s) x.kind x.slot x.hash := by
  have hthr := hb.thr
  have h1 := hb.s1
  have h2 := hb.s2
  unfold CertOn
  unfold threshold at hthr
  unfold sig1Of at h1
  unfold sig2Of at h2
  cases hk : x.kind <;> simp only [hk] at hthr h1 h2 ⊢
  · -- notarization
    by_cases h0 : x.slot = 0
    · rw [h0, Blk.mk'_zero]; exact notarCert_genesis c s
    · unfold NotarCert notarW
      exact Q_of_isQuorum c i _ _ hthr (certStake_le_w c i x _
        (fun v hv => hist_notar_of_sig c s v _ _ (h1 _ hv)) (fun v hv => hist_notar_of_sig c s v _ _ (h2 _ hv)))
  · -- notar-fallback
    by_cases h0 : x.slot = 0
    · rw [h0, Blk.mk'_zero]; exact nfCert_of_notarCert _ _ _ (notarCert_genesis c s)
    · unfold NFCert
      exact Q_of_isQuorum c i _ _ hthr (certStake_le_w c i x _
        (fun v hv => Or.inl (hist_notar_of_sig c s v _ _ (h1 _ hv))) (fun v hv => Or.inr (hist_nf_of_sig c s v _ _ h0 (h2 _ hv))))
  · -- skip
    unfold SkipCert
    exact Q_of_isQuorum c i _ _ hthr (certStake_le_w c i x _
      (fun v hv => Or.inl (h1 _ hv)) (fun v hv => Or.inr (h2 _ hv)))
  · -- fast-finalization
    by_cases h0 : x.slot = 0
    · rw [h0, Blk.mk'_zero]; exact ffCert_genesis c s
    · unfold FastFinalCert notarW
      exact Strong_of_isStrong c i _ _ hthr (certStake_le_w c i x _
        (fun v hv => hist_notar_of_sig c s v _ _ (h1 _ hv)) (fun v hv => hist_notar_of_sig c s v _ _ (h2 _ hv)))
  · -- finalization
    unfold FinalCert
    exact Q_of_isQuorum c i _ _ hthr (certStake_le_w c i x _ (fun v hv => h1 _ hv) (fun v hv => h2 _ hv))

end AgModel.Cluster

namespace AgModel.Cluster
open AgModel AgModel.Pool AgModel.Spec

/-- the Byzantine stake, as a list computation -/
def byzStake (c : Cfg) : ℕ := stakeOf (c.epoch 0) ((List.range c.n).filter (fun i => !c.correct i))

theorem w_byz (c : Cfg) : w (stakeFn c) (byz c) = byzStake c := by
  unfold byzStake
  rw [stakeOf_filter_eq_w]
  congr 1
  funext v
  unfold byz
  cases c.correct v.val <;> simp

/-- the hypothesis "less than 20 % of the stake is Byzantine" in computable form -/
theorem byz_bound_iff (c : Cfg) : 5 * w (stakeFn c) (byz c) < total (stakeFn c) ↔ 5 * byzStake c < c.stakes.sum := by
  rw [w_byz, total_eq]

end AgModel.Cluster
