import AgModel.Proofs.PoolHeld
/-! Pool-level glue: the per-slot invariant holds for every slot state of every pool reachable by
    `Pool.addVote / addCert / addBlock` (certificates created inside `add_vote` are added one by one by
    `add_valid_cert`, interleaved with pruning and child notifications). -/
namespace AgModel.Pool

/-- intermediate per-slot invariant while the certificates `cs` created by a vote are still to be added -/
structure Mid (e : Epoch) (cs : List Cert) (st : SlotState) : Prop where
  v : InvV e st
  held : HeldOk e st
  pend : Pending e st cs

theorem SlotOk.mid {e : Epoch} {st : SlotState} (h : SlotOk e st) (cs : List Cert) : Mid e cs st :=
  ⟨h.1.1, h.2, ⟨fun b q => Or.inl (h.1.2.tNotar b q), fun b q => Or.inl (h.1.2.tFf b q), fun b q => Or.inl (h.1.2.tNf b q),
    fun q => Or.inl (h.1.2.tSkip q), fun q => Or.inl (h.1.2.tFin q)⟩⟩

theorem Mid.ok {e : Epoch} {st : SlotState} (h : Mid e [] st) : SlotOk e st :=
  ⟨⟨h.v, ⟨fun b q => by simpa using h.pend.tNotar b q, fun b q => by simpa using h.pend.tFf b q,
    fun b q => by simpa using h.pend.tNf b q, fun q => by simpa using h.pend.tSkip q, fun q => by simpa using h.pend.tFin q⟩⟩, h.held⟩

theorem Pending.of_coreEq {e : Epoch} {a b : SlotState} {cs : List Cert} (h : CoreEq a b) (p : Pending e a cs) : Pending e b cs := by
  have h1 : a.cNotar = b.cNotar := (congrArg SlotState.cNotar h.eq : a.core.cNotar = b.core.cNotar)
  have h2 : a.cNf = b.cNf := (congrArg SlotState.cNf h.eq : a.core.cNf = b.core.cNf)
  have h3 : a.cSkip = b.cSkip := (congrArg SlotState.cSkip h.eq : a.core.cSkip = b.core.cSkip)
  have h4 : a.cFf = b.cFf := (congrArg SlotState.cFf h.eq : a.core.cFf = b.core.cFf)
  have h5 : a.cFin = b.cFin := (congrArg SlotState.cFin h.eq : a.core.cFin = b.core.cFin)
  have g1 : a.sNotar = b.sNotar := (congrArg SlotState.sNotar h.eq : a.core.sNotar = b.core.sNotar)
  have g2 : a.sNf = b.sNf := (congrArg SlotState.sNf h.eq : a.core.sNf = b.core.sNf)
  have g3 : a.sSkip = b.sSkip := (congrArg SlotState.sSkip h.eq : a.core.sSkip = b.core.sSkip)
  have g4 : a.sSf = b.sSf := (congrArg SlotState.sSf h.eq : a.core.sSf = b.core.sSf)
  have g5 : a.sFin = b.sFin := (congrArg SlotState.sFin h.eq : a.core.sFin = b.core.sFin)
  constructor
  · intro x q; rw [← g1] at q; rw [← h1]; exact p.tNotar x q
  · intro x q; rw [← g1] at q; rw [← h4]; exact p.tFf x q
  · intro x q; rw [← g1, ← g2] at q
    have := p.tNf x q
    unfold SlotState.isNf at *; rw [← h2]; exact this
  · intro q; rw [← g3, ← g4] at q; rw [← h3]; exact p.tSkip q
  · intro q; rw [← g5] at q; rw [← h5]; exact p.tFin q

theorem Mid.of_coreEq {e : Epoch} {a b : SlotState} {cs : List Cert} (h : CoreEq a b) (m : Mid e cs a) : Mid e cs b :=
  ⟨m.v.of_coreEq h, m.held.of_coreEq h, m.pend.of_coreEq h⟩

/-- adding the next created certificate -/
theorem Mid.addCert {e : Epoch} {c : Cert} {cs : List Cert} {st : SlotState} (m : Mid e (c :: cs) st) (hc : CertOk e c) :
    Mid e cs (st.addCert c) := by
  refine ⟨InvV_addCert e st c m.v, HeldOk_addCert e st c m.held hc, ?_⟩
  obtain ⟨h1, h2, h3, h4, h5⟩ := addCert_counters st c
  have p := m.pend
  constructor
  · intro h hq; rw [h1] at hq
    rcases p.tNotar h hq with a | a
    · left; rw [addCert_cNotar]; simp [a]
    · rw [addCert_cNotar]; simp only [List.any_cons, Bool.or_eq_true] at a
      rcases a with a | a
      · left; simp [a]
      · right; exact a
  · intro h hq; rw [h1] at hq
    rcases p.tFf h hq with a | a
    · left; rw [addCert_cFf]; simp [a]
    · rw [addCert_cFf]; simp only [List.any_cons, Bool.or_eq_true] at a
      rcases a with a | a
      · left; simp [a]
      · right; exact a
  · intro h hq; rw [h1, h2] at hq
    rcases p.tNf h hq with a | a
    · left; rw [addCert_isNf]; simp [a]
    · rw [addCert_isNf]; simp only [List.any_cons, Bool.or_eq_true] at a
      rcases a with a | a
      · left; simp only [Bool.or_eq_true]; right; exact a
      · right; exact a
  · intro hq; rw [h3, h4] at hq
    rcases p.tSkip hq with a | a
    · left; rw [addCert_cSkip]; simp [a]
    · rw [addCert_cSkip]; simp only [List.any_cons, Bool.or_eq_true] at a
      rcases a with a | a
      · left; simp [a]
      · right; exact a
  · intro hq; rw [h5] at hq
    rcases p.tFin hq with a | a
    · left; rw [addCert_cFin]; simp [a]
    · rw [addCert_cFin]; simp only [List.any_cons, Bool.or_eq_true] at a
      rcases a with a | a
      · left; simp [a]
      · right; exact a

/-- adding a certificate that is *not* one of the pending ones keeps them pending -/
theorem Mid.addOther {e : Epoch} {c : Cert} {cs : List Cert} {st : SlotState} (m : Mid e cs st) (hc : CertOk e c) :
    Mid e cs (st.addCert c) := by
  refine ⟨InvV_addCert e st c m.v, HeldOk_addCert e st c m.held hc, ?_⟩
  obtain ⟨h1, h2, h3, h4, h5⟩ := addCert_counters st c
  have p := m.pend
  constructor
  · intro h hq; rw [h1] at hq
    rcases p.tNotar h hq with a | a
    · left; rw [addCert_cNotar]; simp [a]
    · right; exact a
  · intro h hq; rw [h1] at hq
    rcases p.tFf h hq with a | a
    · left; rw [addCert_cFf]; simp [a]
    · right; exact a
  · intro h hq; rw [h1, h2] at hq
    rcases p.tNf h hq with a | a
    · left; rw [addCert_isNf]; simp [a]
    · right; exact a
  · intro hq; rw [h3, h4] at hq
    rcases p.tSkip hq with a | a
    · left; rw [addCert_cSkip]; simp [a]
    · right; exact a
  · intro hq; rw [h5] at hq
    rcases p.tFin hq with a | a
    · left; rw [addCert_cFin]; simp [a]
    · right; exact a

/-- pool invariant with one distinguished slot `s` whose created certificates `cs` are still to be added -/
structure PoolMid (p : Pool) (s : Nat) (cs : List Cert) : Prop where
  pos : 0 < p.epoch.total
  others : ∀ st ∈ p.slots, st.slot ≠ s → SlotOk p.epoch st
  this : ∀ st ∈ p.slots, st.slot = s → Mid p.epoch cs st

/-- the pool invariant: every retained slot state satisfies the per-slot invariant -/
def PoolOk (p : Pool) : Prop := 0 < p.epoch.total ∧ ∀ st ∈ p.slots, SlotOk p.epoch st

theorem PoolOk.mid {p : Pool} (h : PoolOk p) (s : Nat) (cs : List Cert) : PoolMid p s cs :=
  ⟨h.1, fun st hm _ => h.2 st hm, fun st hm _ => (h.2 st hm).mid cs⟩

theorem PoolMid.ok {p : Pool} {s : Nat} (h : PoolMid p s []) : PoolOk p :=
  ⟨h.pos, fun st hm => by
    by_cases hs : st.slot = s
    · exact (h.this st hm hs).ok
    · exact h.others st hm hs⟩

/-- a generic "every slot state satisfies its predicate" view, to transport through the pool plumbing -/
def AllSlots (p : Pool) (P : SlotState → Prop) : Prop := ∀ st ∈ p.slots, P st

theorem getSlot_mem (p : Pool) (s : Nat) (st : SlotState) (h : p.getSlot s = some st) : st ∈ p.slots ∧ st.slot = s := by
  unfold Pool.getSlot at h
  have := List.find?_some h
  exact ⟨List.mem_of_find?_eq_some h, by simpa using this⟩

theorem slotState_spec (p : Pool) (s : Nat) (P : SlotState → Prop) (hall : AllSlots p P) (hnew : P { slot := s }) :
    AllSlots (p.slotState s).1 P ∧ P (p.slotState s).2 ∧ (p.slotState s).2.slot = s ∧
    (p.slotState s).1.epoch = p.epoch ∧ (p.slotState s).1.fin = p.fin ∧ (p.slotState s).1.waiting = p.waiting := by
  unfold Pool.slotState
  split
  · rename_i st hg
    obtain ⟨hm, hs⟩ := getSlot_mem p s st hg
    exact ⟨hall, hall st hm, hs, rfl, rfl, rfl⟩
  · refine ⟨?_, hnew, rfl, rfl, rfl, rfl⟩
    intro st hm
    rcases List.mem_append.mp hm with h | h
    · exact hall st h
    · simp at h; subst h; exact hnew

theorem putSlot_spec (p : Pool) (st : SlotState) (P : SlotState → Prop) (hall : AllSlots p P) (hst : P st) :
    AllSlots (p.putSlot st) P ∧ (p.putSlot st).epoch = p.epoch ∧ (p.putSlot st).fin = p.fin ∧
    (p.putSlot st).waiting = p.waiting := by
  unfold Pool.putSlot
  split
  · refine ⟨?_, rfl, rfl, rfl⟩
    intro x hx
    simp only [List.mem_map] at hx
    obtain ⟨y, hy, rfl⟩ := hx
    split
    · exact hst
    · exact hall y hy
  · refine ⟨?_, rfl, rfl, rfl⟩
    intro x hx
    rcases List.mem_append.mp hx with h | h
    · exact hall x h
    · simp at h; subst h; exact hst

theorem prune_spec (p : Pool) (P : SlotState → Prop) (hall : AllSlots p P) :
    AllSlots p.prune P ∧ p.prune.epoch = p.epoch ∧ p.prune.fin = p.fin := by
  unfold Pool.prune
  exact ⟨fun st hm => hall st (List.mem_filter.mp hm).1, rfl, rfl⟩

theorem applyPr_spec (p : Pool) (r : ParentReady.Res) (P : SlotState → Prop) (hall : AllSlots p P) :
    AllSlots (p.applyPr r).1 P ∧ (p.applyPr r).1.epoch = p.epoch ∧ (p.applyPr r).1.fin = p.fin ∧
    (p.applyPr r).1.slots = p.slots := by
  unfold Pool.applyPr
  split
  · exact ⟨hall, rfl, rfl, rfl⟩
  · exact ⟨hall, rfl, rfl, rfl⟩

theorem handleFin_spec (p : Pool) (r : Finality.Res) (P : SlotState → Prop)
    (hall : AllSlots p P) : AllSlots (p.handleFin r).1 P ∧ (p.handleFin r).1.epoch = p.epoch := by
  unfold Pool.handleFin
  split
  · exact ⟨hall, rfl⟩
  · rename_i t ev
    have h1 := applyPr_spec { p with fin := t } (ParentReady.handleFinalization p.pr ev) P hall
    have h2 := prune_spec _ P h1.1
    exact ⟨h2.1, h2.2.1.trans h1.2.1⟩

end AgModel.Pool
