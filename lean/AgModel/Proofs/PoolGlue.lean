import AgModel.Proofs.PoolHeld
/-! Pool-level glue: the per-slot invariant holds for every slot state of every pool reachable by
    `Pool.addVote / addCert / addBlock` (certificates created inside `add_vote` are added one by one by
    `add_valid_cert`, interleaved with pruning and child notifications). -/
namespace AgModel.Pool

/-- intermediate per-slot invariant while the certificates `cs` created by a vote are still to be added -/
structure Mid (e : Epoch) (cs : List Cert) (st : SlotState) : Prop where
  v : InvV e st
  held : HeldOk e st
  pend : Pending e st cs

theorem SlotOk.mid {e : Epoch} {st : SlotState} (h : SlotOk e st) (cs : List Cert) : Mid e cs st :=
  ⟨h.1.1, h.2, ⟨fun b q => Or.inl (h.1.2.tNotar b q), fun b q => Or.inl (h.1.2.tFf b q), fun b q => Or.inl (h.1.2.tNf b q),
    fun q => Or.inl (h.1.2.tSkip q), fun q => Or.inl (h.1.2.tFin q)⟩⟩

theorem Mid.ok {e : Epoch} {st : SlotState} (h : Mid e [] st) : SlotOk e st :=
  ⟨⟨h.v, ⟨fun b q => by simpa using h.pend.tNotar b q, fun b q => by simpa using h.pend.tFf b q,
    fun b q => by simpa using h.pend.tNf b q, fun q => by simpa using h.pend.tSkip q, fun q => by simpa using h.pend.tFin q⟩⟩, h.held⟩

theorem Pending.of_coreEq {e : Epoch} {a b : SlotState} {cs : List Cert} (h : CoreEq a b) (p : Pending e a cs) : Pending e b cs := by
  have h1 : a.cNotar = b.cNotar := (congrArg SlotState.cNotar h.eq : a.core.cNotar = b.core.cNotar)
  have h2 : a.cNf = b.cNf := (congrArg SlotState.cNf h.eq : a.core.cNf = b.core.cNf)
  have h3 : a.cSkip = b.cSkip := (congrArg SlotState.cSkip h.eq : a.core.cSkip = b.core.cSkip)
  have h4 : a.cFf = b.cFf := (congrArg SlotState.cFf h.eq : a.core.cFf = b.core.cFf)
  have h5 : a.cFin = b.cFin := (congrArg SlotState.cFin h.eq : a.core.cFin = b.core.cFin)
  have g1 : a.sNotar = b.sNotar := (congrArg SlotState.sNotar h.eq : a.core.sNotar = b.core.sNotar)
  have g2 : a.sNf = b.sNf := (congrArg SlotState.sNf h.eq : a.core.sNf = b.core.sNf)
  have g3 : a.sSkip = b.sSkip := (congrArg SlotState.sSkip h.eq : a.core.sSkip = b.core.sSkip)
  have g4 : a.sSf = b.sSf := (congrArg SlotState.sSf h.eq : a.core.sSf = b.core.sSf)
  have g5 : a.sFin = b.sFin := (congrArg SlotState.sFin h.eq : a.core.sFin = b.core.sFin)
  constructor
  · intro x q; rw [← g1] at q; rw [← h1]; exact p.tNotar x q
  · intro x q; rw [← g1] at q; rw [← h4]; exact p.tFf x q
  · intro x q; rw [← g1, ← g2] at q
    have := p.tNf x q
    unfold SlotState.isNf at *; rw [← h2]; exact this
  · intro q; rw [← g3, ← g4] at q; rw [← h3]; exact p.tSkip q
  · intro q; rw [← g5] at q; rw [← h5]; exact p.tFin q

theorem Mid.of_coreEq {e : Epoch} {a b : SlotState} {cs : List Cert} (h : CoreEq a b) (m : Mid e cs a) : Mid e cs b :=
  ⟨m.v.of_coreEq h, m.held.of_coreEq h, m.pend.of_coreEq h⟩

/-- adding the next created certificate -/
theorem Mid.addCert {e : Epoch} {c : Cert} {cs : List Cert} {st : SlotState} (m : Mid e (c :: cs) st) (hc : CertOk e c) :
    Mid e cs (st.addCert c) := by
  refine ⟨InvV_addCert e st c m.v, HeldOk_addCert e st c m.held hc, ?_⟩
  obtain ⟨h1, h2, h3, h4, h5⟩ := addCert_counters st c
  have p := m.pend
  constructor
  · intro h hq; rw [h1] at hq
    rcases p.tNotar h hq with a | a
    · left; rw [addCert_cNotar]; simp [a]
    · rw [addCert_cNotar]; simp only [List.any_cons, Bool.or_eq_true] at a
      rcases a with a | a
      · left; simp [a]
      · right; exact a
  · intro h hq; rw [h1] at hq
    rcases p.tFf h hq with a | a
    · left; rw [addCert_cFf]; simp [a]
    · rw [addCert_cFf]; simp only [List.any_cons, Bool.or_eq_true] at a
      rcases a with a | a
      · left; simp [a]
      · right; exact a
  · intro h hq; rw [h1, h2] at hq
    rcases p.tNf h hq with a | a
    · left; rw [addCert_isNf]; simp [a]
    · rw [addCert_isNf]; simp only [List.any_cons, Bool.or_eq_true] at a
      rcases a with a | a
      · left; simp only [Bool.or_eq_true]; right; exact a
      · right; exact a
  · intro hq; rw [h3, h4] at hq
    rcases p.tSkip hq with a | a
    · left; rw [addCert_cSkip]; simp [a]
    · rw [addCert_cSkip]; simp only [List.any_cons, Bool.or_eq_true] at a
      rcases a with a | a
      · left; simp [a]
      · right; exact a
  · intro hq; rw [h5] at hq
    rcases p.tFin hq with a | a
    · left; rw [addCert_cFin]; simp [a]
    · rw [addCert_cFin]; simp only [List.any_cons, Bool.or_eq_true] at a
      rcases a with a | a
      · left; simp [a]
      · right; exact a

/-- adding a certificate that is *not* one of the pending ones keeps them pending -/
theorem Mid.addOther {e : Epoch} {c : Cert} {cs : List Cert} {st : SlotState} (m : Mid e cs st) (hc : CertOk e c) :
    Mid e cs (st.addCert c) := by
  refine ⟨InvV_addCert e st c m.v, HeldOk_addCert e st c m.held hc, ?_⟩
  obtain ⟨h1, h2, h3, h4, h5⟩ := addCert_counters st c
  have p := m.pend
  constructor
  · intro h hq; rw [h1] at hq
    rcases p.tNotar h hq with a | a
    · left; rw [addCert_cNotar]; simp [a]
    · right; exact a
  · intro h hq; rw [h1] at hq
    rcases p.tFf h hq with a | a
    · left; rw [addCert_cFf]; simp [a]
    · right; exact a
  · intro h hq; rw [h1, h2] at hq
    rcases p.tNf h hq with a | a
    · left; rw [addCert_isNf]; simp [a]
    · right; exact a
  · intro hq; rw [h3, h4] at hq
    rcases p.tSkip hq with a | a
    · left; rw [addCert_cSkip]; simp [a]
    · right; exact a
  · intro hq; rw [h5] at hq
    rcases p.tFin hq with a | a
    · left; rw [addCert_cFin]; simp [a]
    · right; exact a

/-- pool invariant with one distinguished slot `s` whose created certificates `cs` are still to be added -/
structure PoolMid (p : Pool) (s : Nat) (cs : List Cert) : Prop where
  pos : 0 < p.epoch.total
  others : ∀ st ∈ p.slots, st.slot ≠ s → SlotOk p.epoch st
  this : ∀ st ∈ p.slots, st.slot = s → Mid p.epoch cs st

/-- the pool invariant: every retained slot state satisfies the per-slot invariant -/
def PoolOk (p : Pool) : Prop := 0 < p.epoch.total ∧ ∀ st ∈ p.slots, SlotOk p.epoch st

theorem PoolOk.mid {p : Pool} (h : PoolOk p) (s : Nat) (cs : List Cert) : PoolMid p s cs :=
  ⟨h.1, fun st hm _ => h.2 st hm, fun st hm _ => (h.2 st hm).mid cs⟩

theorem PoolMid.ok {p : Pool} {s : Nat} (h : PoolMid p s []) : PoolOk p :=
  ⟨h.pos, fun st hm => by
    by_cases hs : st.slot = s
    · exact (h.this st hm hs).ok
    · exact h.others st hm hs⟩

/-- a generic "every slot state satisfies its predicate" view, to transport through the pool plumbing -/
def AllSlots (p : Pool) (P : SlotState → Prop) : Prop := ∀ st ∈ p.slots, P st

theorem getSlot_mem (p : Pool) (s : Nat) (st : SlotState) (h : p.getSlot s = some st) : st ∈ p.slots ∧ st.slot = s := by
  unfold Pool.getSlot at h
  have := List.find?_some h
  exact ⟨List.mem_of_find?_eq_some h, by simpa using this⟩

theorem slotState_spec (p : Pool) (s : Nat) (P : SlotState → Prop) (hall : AllSlots p P) (hnew : P { slot := s }) :
    AllSlots (p.slotState s).1 P ∧ P (p.slotState s).2 ∧ (p.slotState s).2.slot = s ∧
    (p.slotState s).1.epoch = p.epoch ∧ (p.slotState s).1.fin = p.fin ∧ (p.slotState s).1.waiting = p.waiting := by
  unfold Pool.slotState
  split
  · rename_i st hg
    obtain ⟨hm, hs⟩ := getSlot_mem p s st hg
    exact ⟨hall, hall st hm, hs, rfl, rfl, rfl⟩
  · refine ⟨?_, hnew, rfl, rfl, rfl, rfl⟩
    intro st hm
    rcases List.mem_append.mp hm with h | h
    · exact hall st h
    · simp at h; subst h; exact hnew

theorem putSlot_spec (p : Pool) (st : SlotState) (P : SlotState → Prop) (hall : AllSlots p P) (hst : P st) :
    AllSlots (p.putSlot st) P ∧ (p.putSlot st).epoch = p.epoch ∧ (p.putSlot st).fin = p.fin ∧
    (p.putSlot st).waiting = p.waiting := by
  unfold Pool.putSlot
  split
  · refine ⟨?_, rfl, rfl, rfl⟩
    intro x hx
    simp only [List.mem_map] at hx
    obtain ⟨y, hy, rfl⟩ := hx
    split
    · exact hst
    · exact hall y hy
  · refine ⟨?_, rfl, rfl, rfl⟩
    intro x hx
    rcases List.mem_append.mp hx with h | h
    · exact hall x h
    · simp at h; subst h; exact hst

theorem prune_spec (p : Pool) (P : SlotState → Prop) (hall : AllSlots p P) :
    AllSlots p.prune P ∧ p.prune.epoch = p.epoch ∧ p.prune.fin = p.fin := by
  unfold Pool.prune
  exact ⟨fun st hm => hall st (List.mem_filter.mp hm).1, rfl, rfl⟩

theorem applyPr_spec (p : Pool) (r : ParentReady.Res) (P : SlotState → Prop) (hall : AllSlots p P) :
    AllSlots (p.applyPr r).1 P ∧ (p.applyPr r).1.epoch = p.epoch ∧ (p.applyPr r).1.fin = p.fin ∧
    (p.applyPr r).1.slots = p.slots := by
  unfold Pool.applyPr
  split
  · exact ⟨hall, rfl, rfl, rfl⟩
  · exact ⟨hall, rfl, rfl, rfl⟩

theorem handleFin_spec (p : Pool) (r : Finality.Res) (P : SlotState → Prop)
    (hall : AllSlots p P) : AllSlots (p.handleFin r).1 P ∧ (p.handleFin r).1.epoch = p.epoch := by
  unfold Pool.handleFin
  split
  · exact ⟨hall, rfl⟩
  · rename_i t ev
    have h1 := applyPr_spec { p with fin := t } (ParentReady.handleFinalization p.pr ev) P hall
    have h2 := prune_spec _ P h1.1
    exact ⟨h2.1, h2.2.1.trans h1.2.1⟩

/-! ### part 2: every pool operation preserves the pool invariant -/

/-- per-slot predicate of `PoolMid`, as a single predicate on slot states -/
def MidP (e : Epoch) (s : Nat) (cs : List Cert) (st : SlotState) : Prop :=
  (st.slot = s → Mid e cs st) ∧ (st.slot ≠ s → SlotOk e st)

theorem MidP.of_ok {e : Epoch} {s : Nat} {cs : List Cert} {st : SlotState} (h : SlotOk e st) : MidP e s cs st :=
  ⟨fun _ => h.mid cs, fun _ => h⟩

theorem MidP.nil_ok {e : Epoch} {s : Nat} {st : SlotState} (h : MidP e s [] st) : SlotOk e st := by
  by_cases hs : st.slot = s
  · exact (h.1 hs).ok
  · exact h.2 hs

theorem MidP.init (e : Epoch) (hpos : 0 < e.total) (s x : Nat) (cs : List Cert) : MidP e s cs { slot := x } :=
  MidP.of_ok (SlotOk.init e x hpos)

theorem SlotOk.of_coreEq {e : Epoch} {a b : SlotState} (h : CoreEq a b) (i : SlotOk e a) : SlotOk e b :=
  ⟨⟨i.1.1.of_coreEq h, i.1.2.of_coreEq h⟩, i.2.of_coreEq h⟩

theorem coreEq_slot {a b : SlotState} (h : CoreEq a b) : a.slot = b.slot :=
  (congrArg SlotState.slot h.eq : a.core.slot = b.core.slot)

theorem MidP.of_coreEq {e : Epoch} {s : Nat} {cs : List Cert} {a b : SlotState} (h : CoreEq a b) (m : MidP e s cs a) :
    MidP e s cs b :=
  ⟨fun hs => (m.1 ((coreEq_slot h).trans hs)).of_coreEq h, fun hs => (m.2 (fun e' => hs ((coreEq_slot h).symm.trans e'))).of_coreEq h⟩

theorem putSlot_spec2 (p : Pool) (st : SlotState) (Q : SlotState → Prop)
    (hoth : ∀ x ∈ p.slots, x.slot ≠ st.slot → Q x) (hst : Q st) :
    AllSlots (p.putSlot st) Q ∧ (p.putSlot st).epoch = p.epoch ∧ (p.putSlot st).fin = p.fin := by
  unfold Pool.putSlot
  split
  · refine ⟨?_, rfl, rfl⟩
    intro x hx
    simp only [List.mem_map] at hx
    obtain ⟨y, hy, rfl⟩ := hx
    split
    · exact hst
    · rename_i hne
      exact hoth y hy (by simpa using hne)
  · rename_i hany
    refine ⟨?_, rfl, rfl⟩
    intro x hx
    rcases List.mem_append.mp hx with h | h
    · apply hoth x h
      intro he
      apply hany
      simp only [List.any_eq_true]; exact ⟨x, h, by simp [he]⟩
    · simp at h; subst h; exact hst

theorem notifyChildren_spec (p : Pool) (kids : List (Nat × Nat)) (acc : List Event) (P : SlotState → Prop)
    (hall : AllSlots p P) (hnew : ∀ x, P { slot := x }) (hce : ∀ a b, CoreEq a b → P a → P b) :
    AllSlots (p.notifyChildren kids acc).1 P ∧ (p.notifyChildren kids acc).1.epoch = p.epoch := by
  induction kids generalizing p acc with
  | nil => exact ⟨hall, rfl⟩
  | cons k ks ih =>
    obtain ⟨cs, ch⟩ := k
    unfold Pool.notifyChildren
    split
    · exact ih p acc hall
    · obtain ⟨h1, h2, h3, h4, _, _⟩ := slotState_spec p cs P hall (hnew cs)
      dsimp only
      split
      · exact ⟨h1, h4⟩
      · rename_i st' evs hn
        have hce' := notifyParentCertified_core (p.slotState cs).1.epoch (p.slotState cs).2 ch st' evs hn
        have hput := putSlot_spec (p.slotState cs).1 st' P h1 (hce _ _ hce' h2)
        have := ih ((p.slotState cs).1.putSlot st') (acc ++ evs) hput.1
        exact ⟨this.1, this.2.trans (hput.2.1.trans h4)⟩

theorem notifyWaiting_spec (p : Pool) (b : Nat × Nat) (P : SlotState → Prop)
    (hall : AllSlots p P) (hnew : ∀ x, P { slot := x }) (hce : ∀ a b, CoreEq a b → P a → P b) :
    AllSlots (p.notifyWaiting b).1 P ∧ (p.notifyWaiting b).1.epoch = p.epoch := by
  unfold Pool.notifyWaiting
  exact notifyChildren_spec { p with waiting := p.waiting.filter (·.1 ≠ b) } _ [] P hall hnew hce

/-- the tracker / notification part of `add_valid_cert`, after the certificate was stored -/
theorem addValidCert_tail (p : Pool) (c : Cert) (P : SlotState → Prop)
    (hnew : ∀ x, P { slot := x }) (hce : ∀ a b, CoreEq a b → P a → P b)
    (hQ : ∀ x ∈ (p.slotState c.slot).1.slots, x.slot ≠ c.slot → P x)
    (hst : P ((p.slotState c.slot).2.addCert c)) :
    AllSlots (p.addValidCert c).1 P ∧ (p.addValidCert c).1.epoch = p.epoch := by
  have hs := slotState_spec p c.slot (fun _ => True) (fun _ _ => trivial) trivial
  have hslot : ((p.slotState c.slot).2.addCert c).slot = c.slot := by
    rw [← (SameVotes.addCert _ c).slot]; exact hs.2.2.1
  have hput := putSlot_spec2 (p.slotState c.slot).1 ((p.slotState c.slot).2.addCert c) P
    (fun x hx hne => hQ x hx (by rw [hslot] at hne; exact hne)) hst
  have hep : ((p.slotState c.slot).1.putSlot ((p.slotState c.slot).2.addCert c)).epoch = p.epoch :=
    hput.2.1.trans hs.2.2.2.1
  unfold Pool.addValidCert
  dsimp only
  cases hk : c.kind <;> dsimp only
  · -- notar
    have h1 := handleFin_spec _ (Finality.markNotarized ((p.slotState c.slot).1.putSlot ((p.slotState c.slot).2.addCert c)).fin (c.slot, c.hash)) P hput.1
    simp only [show (CertKind.notar == CertKind.notar) = true from rfl, if_true]
    have h2 := notifyWaiting_spec _ (c.slot, c.hash) P h1.1 hnew hce
    have h3 := fun r => applyPr_spec _ r P h2.1
    exact ⟨(h3 _).1, (h3 _).2.1.trans (h2.2.trans (h1.2.trans hep))⟩
  · -- nf
    simp only [show (CertKind.nf == CertKind.notar) = false from rfl, Bool.false_eq_true, if_false]
    have h2 := notifyWaiting_spec _ (c.slot, c.hash) P hput.1 hnew hce
    have h3 := fun r => applyPr_spec _ r P h2.1
    exact ⟨(h3 _).1, (h3 _).2.1.trans (h2.2.trans hep)⟩
  · -- skip
    have h3 := applyPr_spec _ (ParentReady.markSkipped ((p.slotState c.slot).1.putSlot ((p.slotState c.slot).2.addCert c)).pr c.slot) P hput.1
    exact ⟨h3.1, h3.2.1.trans hep⟩
  · -- ff
    have h1 := handleFin_spec _ (Finality.markFastFinalized ((p.slotState c.slot).1.putSlot ((p.slotState c.slot).2.addCert c)).fin (c.slot, c.hash)) P hput.1
    have h2 := notifyWaiting_spec _ (c.slot, c.hash) P h1.1 hnew hce
    exact ⟨h2.1, h2.2.trans (h1.2.trans hep)⟩
  · -- final
    have h1 := handleFin_spec _ (Finality.markFinalized ((p.slotState c.slot).1.putSlot ((p.slotState c.slot).2.addCert c)).fin c.slot) P hput.1
    exact ⟨h1.1, h1.2.trans hep⟩

theorem SlotOk.addCert {e : Epoch} {st : SlotState} {c : Cert} (h : SlotOk e st) (hc : CertOk e c) : SlotOk e (st.addCert c) :=
  ⟨⟨InvV_addCert e st c h.1.1, InvT_addCert e st c h.1.2⟩, HeldOk_addCert e st c h.2 hc⟩

/-- adding the next pending certificate `c` of slot `s` -/
theorem addValidCert_mid (p : Pool) (s : Nat) (c : Cert) (cs : List Cert) (hpos : 0 < p.epoch.total)
    (hall : AllSlots p (MidP p.epoch s (c :: cs))) (hc : CertOk p.epoch c) (hs : c.slot = s) :
    AllSlots (p.addValidCert c).1 (MidP p.epoch s cs) ∧ (p.addValidCert c).1.epoch = p.epoch := by
  have h0 := slotState_spec p c.slot (MidP p.epoch s (c :: cs)) hall (MidP.init p.epoch hpos s c.slot _)
  apply addValidCert_tail p c (MidP p.epoch s cs) (fun x => MidP.init p.epoch hpos s x cs)
    (fun a b h m => m.of_coreEq h)
  · intro x hx hne
    have := h0.1 x hx
    exact ⟨fun he => absurd (he.trans hs.symm) hne, this.2⟩
  · have hm := h0.2.1
    have hsl : (p.slotState c.slot).2.slot = s := h0.2.2.1.trans hs
    have hsl2 : ((p.slotState c.slot).2.addCert c).slot = s := by
      rw [← (SameVotes.addCert _ c).slot]; exact hsl
    exact ⟨fun _ => (hm.1 hsl).addCert hc, fun hne => absurd hsl2 hne⟩

/-- adding a received (validated) certificate -/
theorem addValidCert_ok (p : Pool) (c : Cert) (hok : PoolOk p) (hc : CertOk p.epoch c) : PoolOk (p.addValidCert c).1 := by
  have hall : AllSlots p (SlotOk p.epoch) := hok.2
  have h0 := slotState_spec p c.slot (SlotOk p.epoch) hall (SlotOk.init p.epoch c.slot hok.1)
  have := addValidCert_tail p c (SlotOk p.epoch) (fun x => SlotOk.init p.epoch x hok.1) (fun a b h m => m.of_coreEq h)
    (fun x hx _ => h0.1 x hx) (h0.2.1.addCert hc)
  exact ⟨by rw [this.2]; exact hok.1, by rw [this.2]; exact this.1⟩

theorem addValidCerts_mid (p : Pool) (s : Nat) (cs : List Cert) (acc : List Event) (hpos : 0 < p.epoch.total)
    (hall : AllSlots p (MidP p.epoch s cs)) (hc : ∀ c ∈ cs, CertOk p.epoch c ∧ c.slot = s) :
    AllSlots (p.addValidCerts cs acc).1 (MidP p.epoch s []) ∧ (p.addValidCerts cs acc).1.epoch = p.epoch := by
  induction cs generalizing p acc with
  | nil => exact ⟨hall, rfl⟩
  | cons c cs ih =>
    unfold Pool.addValidCerts
    dsimp only
    have h1 := addValidCert_mid p s c cs hpos hall (hc c (by simp)).1 (hc c (by simp)).2
    have := ih (p.addValidCert c).1 (acc ++ (p.addValidCert c).2) (by rw [h1.2]; exact hpos)
      (by rw [h1.2]; exact h1.1) (by rw [h1.2]; exact fun x hx => hc x (by simp [hx]))
    rw [h1.2] at this
    exact ⟨this.1, this.2⟩

theorem poolOk_of_mid (p : Pool) (s : Nat) (e : Epoch) (he : p.epoch = e) (hpos : 0 < e.total)
    (hall : AllSlots p (MidP e s [])) : PoolOk p :=
  ⟨by rw [he]; exact hpos, fun st hm => by rw [he]; exact (hall st hm).nil_ok⟩

/-- **`Pool::add_vote` preserves the pool invariant.** -/
theorem addVote_ok (p : Pool) (v : Vote) (hok : PoolOk p) : PoolOk (p.addVote v).1 := by
  unfold Pool.addVote
  split
  · exact hok
  split
  · exact hok
  have h0 := slotState_spec p v.slot (SlotOk p.epoch) hok.2 (SlotOk.init p.epoch v.slot hok.1)
  have hok1 : PoolOk (p.slotState v.slot).1 := ⟨by rw [h0.2.2.2.1]; exact hok.1, by rw [h0.2.2.2.1]; exact h0.1⟩
  dsimp only
  split
  · exact hok1
  · rename_i hsl
    split
    · exact hok1
    · rename_i hig
      have ha : Adm (p.slotState v.slot).2 v := ⟨hsl, by simpa using hig⟩
      have hst := h0.2.1
      have hce := addVote_core (p.slotState v.slot).1.epoch (p.slotState v.slot).2 v
      have hep : (p.slotState v.slot).1.epoch = p.epoch := h0.2.2.2.1
      rw [hep] at hce
      -- the stored state with its pending certificates
      have hmid : Mid p.epoch ((p.slotState v.slot).2.addVote p.epoch v).2.1 ((p.slotState v.slot).2.addVote p.epoch v).1 := by
        rw [addVote_certs]
        have hheld : HeldOk p.epoch ((p.slotState v.slot).2.stored p.epoch v) := by
          intro c hc
          apply hst.2 c
          unfold SlotState.certs at hc ⊢
          rw [stored_cNotar, stored_cFf, stored_cSkip, stored_cFin] at hc
          have : ((p.slotState v.slot).2.stored p.epoch v).cNf = (p.slotState v.slot).2.cNf := by
            unfold SlotState.stored; cases v.kind <;> rfl
          rw [this] at hc; exact hc
        exact (⟨stored_InvV p.epoch _ v hst.1.1 ha, hheld, pending_stored p.epoch _ v hst.1.2⟩ :
          Mid p.epoch _ ((p.slotState v.slot).2.stored p.epoch v)).of_coreEq hce.symm
      have hslot : ((p.slotState v.slot).2.addVote p.epoch v).1.slot = v.slot := by
        rw [coreEq_slot hce, stored_slot]; exact h0.2.2.1
      rw [hep]
      have hput := putSlot_spec2 (p.slotState v.slot).1 ((p.slotState v.slot).2.addVote p.epoch v).1
        (MidP p.epoch v.slot ((p.slotState v.slot).2.addVote p.epoch v).2.1)
        (fun x hx _ => MidP.of_ok (h0.1 x hx))
        ⟨fun _ => hmid, fun hne => absurd hslot hne⟩
      have hcs : ∀ c ∈ ((p.slotState v.slot).2.addVote p.epoch v).2.1, CertOk p.epoch c ∧ c.slot = v.slot := by
        intro c hc
        rw [addVote_certs] at hc
        have j := newCerts_justified p.epoch _ v (stored_InvV p.epoch _ v hst.1.1 ha) c hc
        exact ⟨CertOk.of_justified j, by rw [j.1, stored_slot]; exact h0.2.2.1⟩
      have hep2 : ((p.slotState v.slot).1.putSlot ((p.slotState v.slot).2.addVote p.epoch v).1).epoch = p.epoch :=
        hput.2.1.trans hep
      have := addValidCerts_mid _ v.slot _ [] (by rw [hep2]; exact hok.1) (by rw [hep2]; exact hput.1)
        (by rw [hep2]; exact hcs)
      rw [hep2] at this
      exact poolOk_of_mid _ v.slot p.epoch this.2 hok.1 this.1

/-- **`Pool::add_cert` preserves the pool invariant** (the certificate passed `ValidatedCert`). -/
theorem addCert_ok (p : Pool) (c : Cert) (hok : PoolOk p) (hc : CertOk p.epoch c) : PoolOk (p.addCert c).1 := by
  unfold Pool.addCert
  split
  · exact hok
  have h0 := slotState_spec p c.slot (SlotOk p.epoch) hok.2 (SlotOk.init p.epoch c.slot hok.1)
  have hok1 : PoolOk (p.slotState c.slot).1 := ⟨by rw [h0.2.2.2.1]; exact hok.1, by rw [h0.2.2.2.1]; exact h0.1⟩
  dsimp only
  split <;> split
  all_goals first
    | exact hok1
    | exact addValidCert_ok _ c hok1 (by rw [h0.2.2.2.1]; exact hc)

theorem addWaiting_spec (p : Pool) (par b : Nat × Nat) : (Pool.addWaiting p par b).slots = p.slots ∧ (Pool.addWaiting p par b).epoch = p.epoch := by
  unfold Pool.addWaiting; split <;> exact ⟨rfl, rfl⟩

theorem addBlockTail_ok (r : Pool) (b par : Nat × Nat) (e0 : List Event) (cert : Bool) (hok2 : PoolOk r) :
    PoolOk (Pool.addBlockTail r b par e0 cert).1 := by
  have waitOk : ∀ (x : Pool), PoolOk x → PoolOk (Pool.addWaiting x par b) := by
    intro x hx
    obtain ⟨w1, w2⟩ := addWaiting_spec x par b
    exact ⟨by rw [w2]; exact hx.1, by rw [w1, w2]; exact hx.2⟩
  unfold Pool.addBlockTail
  split
  · have k0 := slotState_spec r b.1 (SlotOk r.epoch) hok2.2 (SlotOk.init r.epoch b.1 hok2.1)
    have hok3 : PoolOk (r.slotState b.1).1 := ⟨by rw [k0.2.2.2.1]; exact hok2.1, by rw [k0.2.2.2.1]; exact k0.1⟩
    split
    · exact hok3
    · rename_i st' evs hn
      have hce := notifyParentCertified_core (r.slotState b.1).1.epoch (r.slotState b.1).2 b.2 st' evs hn
      have k1 := putSlot_spec (r.slotState b.1).1 st' (SlotOk r.epoch) k0.1 (k0.2.1.of_coreEq hce)
      have hok4 : PoolOk ((r.slotState b.1).1.putSlot st') :=
        ⟨by rw [k1.2.1, k0.2.2.2.1]; exact hok2.1, by rw [k1.2.1, k0.2.2.2.1]; exact k1.1⟩
      split
      · exact waitOk _ hok4
      · exact hok4
  · exact waitOk _ hok2

/-- **`Pool::add_block` preserves the pool invariant.** -/
theorem addBlock_ok (p : Pool) (b par : Nat × Nat) (hok : PoolOk p) : PoolOk (p.addBlock b par).1 := by
  unfold Pool.addBlock
  split
  · exact hok
  split
  · exact hok
  rename_i t ev _
  have h1 := applyPr_spec { p with fin := t } (ParentReady.handleFinalization p.pr ev) (SlotOk p.epoch) hok.2
  have h2 := prune_spec _ (SlotOk p.epoch) h1.1
  dsimp only
  have hep : (({ p with fin := t } : Pool).applyPr (ParentReady.handleFinalization p.pr ev)).1.prune.epoch = p.epoch :=
    h2.2.1.trans h1.2.1
  have hokq : PoolOk (({ p with fin := t } : Pool).applyPr (ParentReady.handleFinalization p.pr ev)).1.prune :=
    ⟨by rw [hep]; exact hok.1, by rw [hep]; exact h2.1⟩
  generalize (({ p with fin := t } : Pool).applyPr (ParentReady.handleFinalization p.pr ev)).1.prune = q at hokq hep
  split
  · exact hokq
  · have g0 := slotState_spec q b.1 (SlotOk q.epoch) hokq.2 (SlotOk.init q.epoch b.1 hokq.1)
    have hk : SlotOk q.epoch ((q.slotState b.1).2.notifyParentKnown b.2) :=
      slotStep_ok q.epoch (q.slotState b.1).2 (.parentKnown b.2) g0.2.1 (fun c h => by cases h)
    have g1 := putSlot_spec (q.slotState b.1).1 ((q.slotState b.1).2.notifyParentKnown b.2) (SlotOk q.epoch) g0.1 hk
    have hep1 : ((q.slotState b.1).1.putSlot ((q.slotState b.1).2.notifyParentKnown b.2)).epoch = q.epoch :=
      g1.2.1.trans g0.2.2.2.1
    have hok2 : PoolOk ((q.slotState b.1).1.putSlot ((q.slotState b.1).2.notifyParentKnown b.2)) :=
      ⟨by rw [hep1]; exact hokq.1, by rw [hep1]; exact g1.1⟩
    generalize ((q.slotState b.1).1.putSlot ((q.slotState b.1).2.notifyParentKnown b.2)) = r at hok2
    exact addBlockTail_ok r b par _ _ hok2

/-- the empty pool satisfies the invariant -/
theorem PoolOk.init (e : Epoch) (hpos : 0 < e.total) : PoolOk { epoch := e } :=
  ⟨hpos, fun st hm => by simp at hm⟩

/-! ### every reachable pool -/

inductive PoolOp where
  | vote (v : Vote)
  | cert (c : Cert)
  | block (b par : Nat × Nat)
deriving Repr

def poolStep (p : Pool) : PoolOp → Pool × List Event
  | .vote v => ((p.addVote v).1, (p.addVote v).2.2)
  | .cert c => ((p.addCert c).1, (p.addCert c).2.2)
  | .block b par => p.addBlock b par

def poolRun (p : Pool) : List PoolOp → Pool × List Event
  | [] => (p, [])
  | op :: ops => ((poolRun (poolStep p op).1 ops).1, (poolStep p op).2 ++ (poolRun (poolStep p op).1 ops).2)

theorem poolStep_epoch_ok (p : Pool) (op : PoolOp) (hok : PoolOk p) (hrecv : ∀ c, op = .cert c → CertOk p.epoch c) :
    PoolOk (poolStep p op).1 := by
  cases op with
  | vote v => exact addVote_ok p v hok
  | cert c => exact addCert_ok p c hok (hrecv c rfl)
  | block b par => exact addBlock_ok p b par hok

theorem addVote_epoch (p : Pool) (v : Vote) (hok : PoolOk p) : (p.addVote v).1.epoch = p.epoch := by
  unfold Pool.addVote
  split
  · rfl
  split
  · rfl
  have h0 := slotState_spec p v.slot (fun _ => True) (fun _ _ => trivial) trivial
  dsimp only
  split
  · exact h0.2.2.2.1
  · split
    · exact h0.2.2.2.1
    · -- epoch is never touched: every helper returns `{ p with ... }` of other fields
      have key : ∀ (cs : List Cert) (q : Pool) (acc : List Event), (q.addValidCerts cs acc).1.epoch = q.epoch := by
        intro cs
        induction cs with
        | nil => intro q acc; rfl
        | cons c cs ih =>
          intro q acc
          unfold Pool.addValidCerts
          dsimp only
          rw [ih]
          have hs := slotState_spec q c.slot (fun _ => True) (fun _ _ => trivial) trivial
          exact (addValidCert_tail q c (fun _ => True) (fun _ => trivial) (fun _ _ _ _ => trivial)
            (fun _ _ _ => trivial) trivial).2
      rw [key]
      exact (putSlot_spec _ _ (fun _ => True) (fun _ _ => trivial) trivial).2.1.trans h0.2.2.2.1

theorem addValidCert_epoch (q : Pool) (c : Cert) : (q.addValidCert c).1.epoch = q.epoch :=
  (addValidCert_tail q c (fun _ => True) (fun _ => trivial) (fun _ _ _ _ => trivial) (fun _ _ _ => trivial) trivial).2

theorem addCert_epoch (p : Pool) (c : Cert) : (p.addCert c).1.epoch = p.epoch := by
  unfold Pool.addCert
  split
  · rfl
  have h0 := slotState_spec p c.slot (fun _ => True) (fun _ _ => trivial) trivial
  dsimp only
  split <;> split
  all_goals first
    | exact h0.2.2.2.1
    | exact (addValidCert_epoch _ c).trans h0.2.2.2.1

theorem addBlockTail_epoch (r : Pool) (b par : Nat × Nat) (e0 : List Event) (cert : Bool) :
    (Pool.addBlockTail r b par e0 cert).1.epoch = r.epoch := by
  unfold Pool.addBlockTail
  have k0 := slotState_spec r b.1 (fun _ => True) (fun _ _ => trivial) trivial
  split
  · split
    · exact k0.2.2.2.1
    · split
      · rw [(addWaiting_spec _ par b).2, (putSlot_spec _ _ (fun _ => True) (fun _ _ => trivial) trivial).2.1]
        exact k0.2.2.2.1
      · rw [(putSlot_spec _ _ (fun _ => True) (fun _ _ => trivial) trivial).2.1]
        exact k0.2.2.2.1
  · rw [(addWaiting_spec _ par b).2]

theorem addBlock_epoch (p : Pool) (b par : Nat × Nat) : (p.addBlock b par).1.epoch = p.epoch := by
  unfold Pool.addBlock
  split
  · rfl
  split
  · rfl
  rename_i t ev _
  have h1 := applyPr_spec { p with fin := t } (ParentReady.handleFinalization p.pr ev) (fun _ => True) (fun _ _ => trivial)
  have h2 := prune_spec (({ p with fin := t } : Pool).applyPr (ParentReady.handleFinalization p.pr ev)).1 (fun _ => True) (fun _ _ => trivial)
  have hep : (({ p with fin := t } : Pool).applyPr (ParentReady.handleFinalization p.pr ev)).1.prune.epoch = p.epoch :=
    h2.2.1.trans h1.2.1
  dsimp only
  generalize (({ p with fin := t } : Pool).applyPr (ParentReady.handleFinalization p.pr ev)).1.prune = q at hep
  split
  · exact hep
  · have g0 := slotState_spec q b.1 (fun _ => True) (fun _ _ => trivial) trivial
    have g1 := putSlot_spec (q.slotState b.1).1 ((q.slotState b.1).2.notifyParentKnown b.2) (fun _ => True) (fun _ _ => trivial) trivial
    have hep1 : ((q.slotState b.1).1.putSlot ((q.slotState b.1).2.notifyParentKnown b.2)).epoch = p.epoch :=
      g1.2.1.trans (g0.2.2.2.1.trans hep)
    generalize ((q.slotState b.1).1.putSlot ((q.slotState b.1).2.notifyParentKnown b.2)) = r at hep1
    exact (addBlockTail_epoch r b par _ _).trans hep1

theorem poolStep_epoch (p : Pool) (op : PoolOp) (hok : PoolOk p) : (poolStep p op).1.epoch = p.epoch := by
  cases op with
  | vote v => exact addVote_epoch p v hok
  | cert c => exact addCert_epoch p c
  | block b par => exact addBlock_epoch p b par

/-- **Every reachable pool satisfies the pool invariant**: from the empty pool, after any sequence of
    votes (validated), certificates (validated: `CertOk`) and block registrations. -/
theorem poolRun_ok (ops : List PoolOp) (p : Pool) (hok : PoolOk p)
    (hrecv : ∀ c, PoolOp.cert c ∈ ops → CertOk p.epoch c) :
    PoolOk (poolRun p ops).1 ∧ (poolRun p ops).1.epoch = p.epoch := by
  induction ops generalizing p with
  | nil => exact ⟨hok, rfl⟩
  | cons op ops ih =>
    have h1 := poolStep_epoch_ok p op hok (fun c hc => hrecv c (by simp [hc]))
    have h2 := poolStep_epoch p op hok
    have := ih (poolStep p op).1 h1 (by rw [h2]; exact fun c hc => hrecv c (by simp [hc]))
    simp only [poolRun]
    exact ⟨this.1, this.2.trans h2⟩

end AgModel.Pool
