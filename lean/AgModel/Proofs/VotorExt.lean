import AgModel.Proofs.Votor
/-!
# C05 helpers, part 2: votes are only ever cast for retained slots; the asserts

`Ext v v'`: `v'` is reached from `v` by logging items whose votes are all for slots that `v` still
retains (`firstUnpruned ≤ slot`), and `highest_final_cert_slot` did not decrease. Needs no invariant:
every write in votor.rs is behind a `firstUnpruned ≤ slot` guard (filter or assert).
-/
namespace AgModel.Votor

def Ext (v v' : V) : Prop :=
  v.hfcs ≤ v'.hfcs ∧ ∃ xs, v'.log = xs ++ v.log ∧ ∀ x ∈ xs, ∀ s, x.voteSlot = some s → v.firstUnpruned ≤ s

theorem firstInWindow_mono' {a b : Nat} (h : a ≤ b) : firstInWindow a ≤ firstInWindow b :=
  Nat.mul_le_mul_right W (Nat.div_le_div_right h)

theorem Ext.refl (v : V) : Ext v v := ⟨Nat.le_refl _, [], rfl, by simp⟩

theorem Ext.trans {a b c : V} (h1 : Ext a b) (h2 : Ext b c) : Ext a c := by
  obtain ⟨l1, xs, e1, q1⟩ := h1
  obtain ⟨l2, ys, e2, q2⟩ := h2
  refine ⟨Nat.le_trans l1 l2, ys ++ xs, by rw [e2, e1]; simp, ?_⟩
  intro x hx s hs
  rcases List.mem_append.mp hx with hx | hx
  · have := q2 x hx s hs
    have hm : a.firstUnpruned ≤ b.firstUnpruned := firstInWindow_mono' l1
    omega
  · exact q1 x hx s hs

theorem Ext.upd (v : V) (s : Nat) (f) : Ext v (v.upd s f) := ⟨Nat.le_refl _, [], rfl, by simp⟩
theorem Ext.panic (v : V) : Ext v v.panic := ⟨Nat.le_refl _, [], rfl, by simp⟩

theorem Ext.emit (v : V) (o : Out) (h : ∀ s, (Item.out o).voteSlot = some s → v.firstUnpruned ≤ s) :
    Ext v (v.emit o) :=
  ⟨Nat.le_refl _, [.out o], rfl, by intro x hx s hs; simp at hx; subst hx; exact h s hs⟩

theorem Ext.logEv (v : V) (e : Event) : Ext v (v.logEv e) :=
  ⟨Nat.le_refl _, [.ev e], rfl, by intro x hx s hs; simp at hx; subst hx; simp [Item.voteSlot] at hs⟩

theorem Ext.tryFinal (v : V) (slot hash : Nat) : Ext v (v.tryFinal slot hash) := by
  unfold V.tryFinal
  split
  · exact Ext.panic v
  · rename_i hlt
    simp only []
    split
    · refine (Ext.emit v (.final slot) ?_).trans (Ext.upd _ _ _)
      intro s hs; simp [Item.voteSlot] at hs; omega
    · exact Ext.refl v

theorem Ext.tryNotar (v : V) (slot : Nat) (b : BlockInfo) : Ext v (v.tryNotar slot b).1 := by
  unfold V.tryNotar
  split
  · exact Ext.panic v
  · rename_i hlt
    split
    · exact Ext.refl v
    · split
      · simp only []
        refine ((Ext.emit v (.notar slot b.hash b.pslot b.phash) ?_).trans (Ext.upd _ _ _)).trans (Ext.tryFinal _ _ _)
        intro s hs; simp [Item.voteSlot] at hs; omega
      · exact Ext.refl v

theorem Ext.skipSlots : ∀ (l : List Nat) (v : V), (∀ s ∈ l, v.firstUnpruned ≤ s) → Ext v (v.skipSlots l) := by
  intro l
  induction l with
  | nil => intro v _; exact Ext.refl v
  | cons s rest ih =>
    intro v hb
    unfold V.skipSlots
    split
    · exact ih v (fun k hk => hb k (by simp [hk]))
    · refine ((Ext.upd v s _).trans (Ext.emit _ (.skip s) ?_)).trans (ih _ ?_)
      · intro k hk; simp [Item.voteSlot] at hk; subst hk; exact hb _ (by simp)
      · intro k hk; exact hb k (by simp [hk])

theorem Ext.trySkipWindow (v : V) (slot : Nat) : Ext v (v.trySkipWindow slot) := by
  unfold V.trySkipWindow
  split
  · exact Ext.panic v
  · rename_i hlt
    apply Ext.skipSlots
    intro k hk
    have h1 := mem_windowSlots hk
    have h2 : v.firstUnpruned ≤ firstInWindow slot := firstInWindow_mono (Nat.le_of_not_lt hlt)
    omega

theorem Ext.checkPendingLoop : ∀ (l : List Nat) (v : V), Ext v (v.checkPendingLoop l) := by
  intro l
  induction l with
  | nil => intro v; exact Ext.refl v
  | cons s rest ih =>
    intro v
    unfold V.checkPendingLoop
    split
    · exact (Ext.tryNotar v s _).trans (ih _)
    · exact ih v

theorem Ext.setTimeouts (v : V) (s : Nat) : Ext v (v.setTimeouts s) := by
  unfold V.setTimeouts
  split
  · exact Ext.emit v _ (by intro k hk; simp [Item.voteSlot] at hk)
  · exact Ext.panic v

theorem Ext.emitAll : ∀ (l : List Nat) (v : V), Ext v (v.emitAll (l.map .relay)) := by
  intro l
  induction l with
  | nil => intro v; exact Ext.refl v
  | cons i rest ih =>
    intro v
    exact (Ext.emit v (.relay i) (by intro k hk; simp [Item.voteSlot] at hk)).trans (ih _)

theorem Ext.raisePrune (v : V) (slot : Nat) : Ext v ({ v with hfcs := max v.hfcs slot } : V).prune :=
  ⟨Nat.le_max_left _ _, [], rfl, by simp⟩

theorem Ext.handle (v : V) (e : Event) (hign : v.ignores e = false) : Ext v (v.handle e) := by
  cases e with
  | parentReady slot ps ph =>
    simp only [V.handle]
    exact ((Ext.upd v _ _).trans (Ext.checkPendingLoop _ _)).trans (Ext.setTimeouts _ _)
  | safeToNotar slot hash =>
    simp only [V.ignores, Bool.or_eq_false_iff, decide_eq_false_iff_not] at hign
    simp only [V.handle]
    refine ((Ext.emit v _ ?_).trans (Ext.trySkipWindow _ _)).trans (Ext.upd _ _ _)
    intro k hk; simp [Item.voteSlot] at hk; omega
  | safeToSkip slot =>
    simp only [V.ignores, Bool.or_eq_false_iff, decide_eq_false_iff_not] at hign
    simp only [V.handle]
    refine ((Ext.emit v _ ?_).trans (Ext.trySkipWindow _ _)).trans (Ext.upd _ _ _)
    intro k hk; simp [Item.voteSlot] at hk; omega
  | cert kind slot hash =>
    have hc : ∀ (w : V) k, Ext w (w.emit (.cert k slot hash)) :=
      fun w k => Ext.emit w _ (by intro j hj; simp [Item.voteSlot] at hj)
    cases kind with
    | notar =>
      simp only [V.handle]
      exact ((Ext.upd v _ _).trans (Ext.tryFinal _ _ _)).trans (hc _ _)
    | final =>
      simp only [V.handle]
      exact ((Ext.setTimeouts v _).trans (Ext.raisePrune _ slot)).trans (hc _ _)
    | fastFinal =>
      simp only [V.handle]
      exact ((Ext.setTimeouts v _).trans (Ext.raisePrune _ slot)).trans (hc _ _)
    | skip => exact hc _ _
    | notarFallback => exact hc _ _
  | standstill slot relay => exact Ext.emitAll relay v
  | firstShred slot => exact Ext.upd v _ _
  | invalidBlock slot => exact Ext.trySkipWindow v slot
  | block slot b =>
    simp only [V.handle]
    split
    · exact Ext.refl v
    · split
      · exact (Ext.tryNotar v slot b).trans (Ext.checkPendingLoop _ _)
      · exact (Ext.tryNotar v slot b).trans (Ext.upd _ _ _)
  | timeout slot =>
    simp only [V.handle]
    split
    · exact Ext.refl v
    · exact Ext.trySkipWindow v slot
  | timeoutCrashed slot =>
    simp only [V.handle]
    split
    · exact Ext.refl v
    · exact Ext.trySkipWindow v slot

theorem Ext.step (v : V) (e : Event) : Ext v (step v e) := by
  unfold AgModel.Votor.step
  split
  · exact Ext.refl v
  · simp only []
    split
    · exact Ext.logEv v e
    · rename_i hi
      exact (Ext.logEv v e).trans (Ext.handle _ e (by simpa using hi))

theorem Ext.run : ∀ (es : List Event) (v : V), Ext v (run v es) := by
  intro es
  induction es with
  | nil => intro v; exact Ext.refl v
  | cons e es ih => intro v; exact (Ext.step v e).trans (ih _)

theorem run_append : ∀ (es es' : List Event) (v : V), run v (es ++ es') = run (run v es) es' := by
  intro es
  induction es with
  | nil => intro es' v; rfl
  | cons e es ih => intro es' v; exact ih es' (step v e)

end AgModel.Votor
