import AgModel.Proofs.Votor
/-!
# C05 helpers, part 2: votes are only ever cast for retained slots; the asserts

`Ext v v'`: `v'` is reached from `v` by logging items whose votes are all for slots that `v` still
retains (`firstUnpruned ≤ slot`), and `highest_final_cert_slot` did not decrease. Needs no invariant:
every write in votor.rs is behind a `firstUnpruned ≤ slot` guard (filter or assert).
-/
namespace AgModel.Votor

def Ext (v v' : V) : Prop :=
  v.hfcs ≤ v'.hfcs ∧ ∃ xs, v'.log = xs ++ v.log ∧ ∀ x ∈ xs, ∀ s, x.voteSlot = some s → v.firstUnpruned ≤ s

theorem firstInWindow_mono' {a b : Nat} (h : a ≤ b) : firstInWindow a ≤ firstInWindow b :=
  Nat.mul_le_mul_right W (Nat.div_le_div_right h)

theorem Ext.refl (v : V) : Ext v v := ⟨Nat.le_refl _, [], rfl, by simp⟩

theorem Ext.trans {a b c : V} (h1 : Ext a b) (h2 : Ext b c) : Ext a c := by
  obtain ⟨l1, xs, e1, q1⟩ := h1
  obtain ⟨l2, ys, e2, q2⟩ := h2
  refine ⟨Nat.le_trans l1 l2, ys ++ xs, by rw [e2, e1]; simp, ?_⟩
  intro x hx s hs
  rcases List.mem_append.mp hx with hx | hx
  · have := q2 x hx s hs
    have hm : a.firstUnpruned ≤ b.firstUnpruned := firstInWindow_mono' l1
    omega
  · exact q1 x hx s hs

theorem Ext.upd (v : V) (s : Nat) (f) : Ext v (v.upd s f) := ⟨Nat.le_refl _, [], rfl, by simp⟩
theorem Ext.panic (v : V) : Ext v v.panic := ⟨Nat.le_refl _, [], rfl, by simp⟩

theorem Ext.emit (v : V) (o : Out) (h : ∀ s, (Item.out o).voteSlot = some s → v.firstUnpruned ≤ s) :
    Ext v (v.emit o) :=
  ⟨Nat.le_refl _, [.out o], rfl, by intro x hx s hs; simp at hx; subst hx; exact h s hs⟩

theorem Ext.logEv (v : V) (e : Event) : Ext v (v.logEv e) :=
  ⟨Nat.le_refl _, [.ev e], rfl, by intro x hx s hs; simp at hx; subst hx; simp [Item.voteSlot] at hs⟩

theorem Ext.tryFinal (v : V) (slot hash : Nat) : Ext v (v.tryFinal slot hash) := by
  unfold V.tryFinal
  split
  · exact Ext.panic v
  · rename_i hlt
    simp only []
    split
    · refine (Ext.emit v (.final slot) ?_).trans (Ext.upd _ _ _)
      intro s hs; simp [Item.voteSlot] at hs; omega
    · exact Ext.refl v

theorem Ext.tryNotar (v : V) (slot : Nat) (b : BlockInfo) : Ext v (v.tryNotar slot b).1 := by
  unfold V.tryNotar
  split
  · exact Ext.panic v
  · rename_i hlt
    split
    · exact Ext.refl v
    · split
      · simp only []
        refine ((Ext.emit v (.notar slot b.hash b.pslot b.phash) ?_).trans (Ext.upd _ _ _)).trans (Ext.tryFinal _ _ _)
        intro s hs; simp [Item.voteSlot] at hs; omega
      · exact Ext.refl v

theorem Ext.skipSlots : ∀ (l : List Nat) (v : V), (∀ s ∈ l, v.firstUnpruned ≤ s) → Ext v (v.skipSlots l) := by
  intro l
  induction l with
  | nil => intro v _; exact Ext.refl v
  | cons s rest ih =>
    intro v hb
    unfold V.skipSlots
    split
    · exact ih v (fun k hk => hb k (by simp [hk]))
    · refine ((Ext.upd v s _).trans (Ext.emit _ (.skip s) ?_)).trans (ih _ ?_)
      · intro k hk; simp [Item.voteSlot] at hk; subst hk; exact hb _ (by simp)
      · intro k hk; exact hb k (by simp [hk])

theorem Ext.trySkipWindow (v : V) (slot : Nat) : Ext v (v.trySkipWindow slot) := by
  unfold V.trySkipWindow
  split
  · exact Ext.panic v
  · rename_i hlt
    apply Ext.skipSlots
    intro k hk
    have h1 := mem_windowSlots hk
    have h2 : v.firstUnpruned ≤ firstInWindow slot := firstInWindow_mono (Nat.le_of_not_lt hlt)
    omega

theorem Ext.checkPendingLoop : ∀ (l : List Nat) (v : V), Ext v (v.checkPendingLoop l) := by
  intro l
  induction l with
  | nil => intro v; exact Ext.refl v
  | cons s rest ih =>
    intro v
    unfold V.checkPendingLoop
    split
    · exact (Ext.tryNotar v s _).trans (ih _)
    · exact ih v

theorem Ext.setTimeouts (v : V) (s : Nat) : Ext v (v.setTimeouts s) := by
  unfold V.setTimeouts
  split
  · exact Ext.emit v _ (by intro k hk; simp [Item.voteSlot] at hk)
  · exact Ext.panic v

theorem Ext.emitAll : ∀ (l : List Nat) (v : V), Ext v (v.emitAll (l.map .relay)) := by
  intro l
  induction l with
  | nil => intro v; exact Ext.refl v
  | cons i rest ih =>
    intro v
    exact (Ext.emit v (.relay i) (by intro k hk; simp [Item.voteSlot] at hk)).trans (ih _)

theorem Ext.raisePrune (v : V) (slot : Nat) : Ext v ({ v with hfcs := max v.hfcs slot } : V).prune :=
  ⟨Nat.le_max_left _ _, [], rfl, by simp⟩

theorem Ext.handle (v : V) (e : Event) (hign : v.ignores e = false) : Ext v (v.handle e) := by
  cases e with
  | parentReady slot ps ph =>
    simp only [V.handle]
    exact ((Ext.upd v _ _).trans (Ext.checkPendingLoop _ _)).trans (Ext.setTimeouts _ _)
  | safeToNotar slot hash =>
    simp only [V.ignores, Bool.or_eq_false_iff, decide_eq_false_iff_not] at hign
    simp only [V.handle]
    refine ((Ext.emit v _ ?_).trans (Ext.trySkipWindow _ _)).trans (Ext.upd _ _ _)
    intro k hk; simp [Item.voteSlot] at hk; omega
  | safeToSkip slot =>
    simp only [V.ignores, Bool.or_eq_false_iff, decide_eq_false_iff_not] at hign
    simp only [V.handle]
    refine ((Ext.emit v _ ?_).trans (Ext.trySkipWindow _ _)).trans (Ext.upd _ _ _)
    intro k hk; simp [Item.voteSlot] at hk; omega
  | cert kind slot hash =>
    have hc : ∀ (w : V) k, Ext w (w.emit (.cert k slot hash)) :=
      fun w k => Ext.emit w _ (by intro j hj; simp [Item.voteSlot] at hj)
    cases kind with
    | notar =>
      simp only [V.handle]
      exact ((Ext.upd v _ _).trans (Ext.tryFinal _ _ _)).trans (hc _ _)
    | final =>
      simp only [V.handle]
      exact ((Ext.setTimeouts v _).trans (Ext.raisePrune _ slot)).trans (hc _ _)
    | fastFinal =>
      simp only [V.handle]
      exact ((Ext.setTimeouts v _).trans (Ext.raisePrune _ slot)).trans (hc _ _)
    | skip => exact hc _ _
    | notarFallback => exact hc _ _
  | standstill slot relay => exact Ext.emitAll relay v
  | firstShred slot => exact Ext.upd v _ _
  | invalidBlock slot => exact Ext.trySkipWindow v slot
  | block slot b =>
    simp only [V.handle]
    split
    · exact Ext.refl v
    · split
      · exact (Ext.tryNotar v slot b).trans (Ext.checkPendingLoop _ _)
      · exact (Ext.tryNotar v slot b).trans (Ext.upd _ _ _)
  | timeout slot =>
    simp only [V.handle]
    split
    · exact Ext.refl v
    · exact Ext.trySkipWindow v slot
  | timeoutCrashed slot =>
    simp only [V.handle]
    split
    · exact Ext.refl v
    · exact Ext.trySkipWindow v slot

theorem Ext.step (v : V) (e : Event) : Ext v (step v e) := by
  unfold AgModel.Votor.step
  split
  · exact Ext.refl v
  · simp only []
    split
    · exact Ext.logEv v e
    · rename_i hi
      exact (Ext.logEv v e).trans (Ext.handle _ e (by simpa using hi))

theorem Ext.run : ∀ (es : List Event) (v : V), Ext v (run v es) := by
  intro es
  induction es with
  | nil => intro v; exact Ext.refl v
  | cons e es ih => intro v; exact (Ext.step v e).trans (ih _)

theorem run_append : ∀ (es es' : List Event) (v : V), run v (es ++ es') = run (run v es) es' := by
  intro es
  induction es with
  | nil => intro es' v; rfl
  | cons e es ih => intro es' v; exact ih es' (step v e)

/-! ## the asserts -/

theorem tryFinal_panicked (v : V) (slot hash : Nat) (h : v.firstUnpruned ≤ slot) :
    (v.tryFinal slot hash).panicked = v.panicked := by
  unfold V.tryFinal
  rw [if_neg (Nat.not_lt.mpr h)]
  simp only []
  split <;> rfl

theorem tryNotar_panicked (v : V) (slot : Nat) (b : BlockInfo) (h : v.firstUnpruned ≤ slot) :
    (v.tryNotar slot b).1.panicked = v.panicked := by
  unfold V.tryNotar
  rw [if_neg (Nat.not_lt.mpr h)]
  split
  · rfl
  · split
    · simp only []
      rw [tryFinal_panicked _ _ _ (by simpa using h)]
      rfl
    · rfl

theorem skipSlots_panicked : ∀ (l : List Nat) (v : V), (v.skipSlots l).panicked = v.panicked := by
  intro l
  induction l with
  | nil => intro v; rfl
  | cons s rest ih =>
    intro v; unfold V.skipSlots; split
    · exact ih v
    · rw [ih]; rfl

theorem trySkipWindow_panicked (v : V) (slot : Nat) (h : v.firstUnpruned ≤ slot) :
    (v.trySkipWindow slot).panicked = v.panicked := by
  unfold V.trySkipWindow
  rw [if_neg (Nat.not_lt.mpr h)]
  exact skipSlots_panicked _ _

theorem pending_live {v : V} (hv : Inv none v) {s : Nat} {b : BlockInfo}
    (hb : (v.getS s).pendingBlock = some b) : v.firstUnpruned ≤ s := by
  cases hl : lookup v.slots s with
  | none => simp [V.getS, hl] at hb
  | some st => exact hv.keys s st hl

theorem checkPendingLoop_panicked : ∀ (l : List Nat) {v : V}, Inv none v →
    (v.checkPendingLoop l).panicked = v.panicked := by
  intro l
  induction l with
  | nil => intro v _; rfl
  | cons s rest ih =>
    intro v hv
    unfold V.checkPendingLoop
    split
    · rename_i b hb
      rw [ih (hv.tryNotar s b ((hv.slot s).pendingWit b hb)), tryNotar_panicked _ _ _ (pending_live hv hb)]
    · exact ih hv

theorem emitAll_panicked : ∀ (l : List Out) (v : V), (v.emitAll l).panicked = v.panicked := by
  intro l
  induction l with
  | nil => intro v; rfl
  | cons o rest ih => intro v; unfold V.emitAll; rw [ih]; rfl

theorem setTimeouts_panicked (v : V) (s : Nat) (h : s % W = 0) : (v.setTimeouts s).panicked = v.panicked := by
  unfold V.setTimeouts; rw [if_pos h]; rfl

theorem firstInWindow_mod (s : Nat) : firstInWindow s % W = 0 := Nat.mul_mod_left _ _

/-- the environment assumption under which Votor never panics: the pool announces `ParentReady`
    only for the first slot of a window (`PoolEvent::ParentReady` doc comment; `set_timeouts` asserts it) -/
def Event.wellFormed : Event → Prop
  | .parentReady s _ _ => s % W = 0
  | _ => True

theorem Inv.addParent {v : V} (hv : Inv none v) (slot ps ph : Nat) (hs : v.firstUnpruned ≤ slot)
    (hmem : .ev (.parentReady slot ps ph) ∈ v.log) :
    Inv none (v.upd slot (fun s => { s with parentsReady := insertParent s.parentsReady (ps, ph) })) := by
  have hl := hv.slot slot
  simp only [hs] at hl
  obtain ⟨l1, l2, l3, l4, l5, l6, l7, l8, l9, l10, l11⟩ := hl
  refine hv.updS slot _ hs (fun _ _ h => h) ?_
  constructor
  case parentWit =>
    intro p hp
    rcases mem_insertParent hp with rfl | h
    · exact Or.inr hmem
    · exact l10 p h
  all_goals grind

theorem handle_panicked {v : V} (hv : Inv none v) (e : Event) (hmem : .ev e ∈ v.log)
    (hign : v.ignores e = false) (hwf : e.wellFormed) : (v.handle e).panicked = v.panicked := by
  cases e with
  | parentReady slot ps ph =>
    simp only [V.ignores, Bool.or_eq_false_iff, decide_eq_false_iff_not] at hign
    have hs : v.firstUnpruned ≤ slot := Nat.le_of_not_lt hign.1
    simp only [V.handle]
    rw [setTimeouts_panicked _ _ hwf, V.checkPending, checkPendingLoop_panicked _ (hv.addParent slot ps ph hs hmem)]
    rfl
  | safeToNotar slot hash =>
    simp only [V.ignores, Bool.or_eq_false_iff, decide_eq_false_iff_not] at hign
    simp only [V.handle, upd_panicked]
    rw [trySkipWindow_panicked _ _ (by simpa using Nat.le_of_not_lt hign.1)]; rfl
  | safeToSkip slot =>
    simp only [V.ignores, Bool.or_eq_false_iff, decide_eq_false_iff_not] at hign
    simp only [V.handle, upd_panicked]
    rw [trySkipWindow_panicked _ _ (by simpa using Nat.le_of_not_lt hign.1)]; rfl
  | cert kind slot hash =>
    simp only [V.ignores, decide_eq_false_iff_not] at hign
    have hs : v.firstUnpruned ≤ slot := Nat.le_of_not_lt hign
    cases kind with
    | notar =>
      simp only [V.handle, emit_panicked]
      rw [tryFinal_panicked _ _ _ (by simpa using hs)]; rfl
    | final =>
      simp only [V.handle, emit_panicked]
      show (v.setTimeouts (firstInWindow slot)).panicked = _
      exact setTimeouts_panicked _ _ (firstInWindow_mod slot)
    | fastFinal =>
      simp only [V.handle, emit_panicked]
      show (v.setTimeouts (firstInWindow slot)).panicked = _
      exact setTimeouts_panicked _ _ (firstInWindow_mod slot)
    | skip => rfl
    | notarFallback => rfl
  | standstill slot relay => exact emitAll_panicked _ _
  | firstShred slot => rfl
  | invalidBlock slot =>
    simp only [V.ignores, Bool.or_eq_false_iff, decide_eq_false_iff_not] at hign
    exact trySkipWindow_panicked _ _ (by have := fu_le_hfcs v; omega)
  | block slot b =>
    simp only [V.ignores, Bool.or_eq_false_iff, decide_eq_false_iff_not] at hign
    have hs : v.firstUnpruned ≤ slot := by have := fu_le_hfcs v; omega
    simp only [V.handle]
    split
    · rfl
    · split
      · rw [V.checkPending, checkPendingLoop_panicked _ (hv.tryNotar slot b hmem), tryNotar_panicked _ _ _ hs]
      · rw [upd_panicked, tryNotar_panicked _ _ _ hs]
  | timeout slot =>
    simp only [V.ignores, Bool.or_eq_false_iff, decide_eq_false_iff_not] at hign
    simp only [V.handle]
    split
    · rfl
    · exact trySkipWindow_panicked _ _ (by have := fu_le_hfcs v; omega)
  | timeoutCrashed slot =>
    simp only [V.ignores, Bool.or_eq_false_iff, decide_eq_false_iff_not] at hign
    simp only [V.handle]
    split
    · rfl
    · exact trySkipWindow_panicked _ _ (by have := fu_le_hfcs v; omega)

theorem step_panicked {v : V} (hv : Inv none v) (e : Event) (hwf : e.wellFormed) :
    (step v e).panicked = v.panicked := by
  unfold AgModel.Votor.step
  split
  · rfl
  · simp only []
    split
    · rfl
    · rename_i hi
      have h1 : Inv none (v.logEv e) := hv.note (.ev e) rfl trivial
      exact handle_panicked h1 e (by simp [V.logEv]) (by simpa using hi) hwf

theorem run_panicked : ∀ (es : List Event) {v : V}, Inv none v → (∀ e ∈ es, e.wellFormed) →
    (run v es).panicked = v.panicked := by
  intro es
  induction es with
  | nil => intro v _ _; rfl
  | cons e es ih =>
    intro v hv hwf
    show (run (step v e) es).panicked = _
    rw [ih (hv.step e) (fun e' he' => hwf e' (by simp [he'])), step_panicked hv e (hwf e (by simp))]

end AgModel.Votor
