import AgModel.Proofs.PoolGlue
/-! `recover_from_standstill`: contents of the bundle (helper lemmas for `Props/C18.lean` and `Proofs/BundleReplay.lean`). -/
namespace AgModel.Pool

theorem mem_insertSorted (st x : SlotState) (l : List SlotState) : x ∈ insertSorted st l ↔ x = st ∨ x ∈ l := by
  induction l with
  | nil => simp [insertSorted]
  | cons y ys ih =>
    unfold insertSorted
    split
    · simp
    · simp only [List.mem_cons, ih]
      constructor
      · intro h; rcases h with h | h | h
        · exact Or.inr (Or.inl h)
        · exact Or.inl h
        · exact Or.inr (Or.inr h)
      · intro h; rcases h with h | h | h
        · exact Or.inr (Or.inl h)
        · exact Or.inl h
        · exact Or.inr (Or.inr h)

theorem mem_sortSlots (x : SlotState) (l : List SlotState) : x ∈ sortSlots l ↔ x ∈ l := by
  unfold sortSlots
  induction l with
  | nil => simp
  | cons y ys ih => simp only [List.foldr_cons, mem_insertSorted, ih, List.mem_cons]

/-- **Contents.** The bundle consists of the certificates proving the highest finalized slot (the
    fast-finalization certificate, or finalization + notarization), every certificate held for a later
    slot, and every own vote stored for a later slot — nothing else. -/
theorem recover_contents (p : Pool) (certs : List Cert) (votes : List Vote)
    (h : p.recover = [.standstill (p.fin.highest + 1) certs votes]) :
    (∀ c, c ∈ certs ↔ (c ∈ p.getFinalCerts p.fin.highest ∨ ∃ st ∈ p.slots, st.slot > p.fin.highest ∧ c ∈ st.certs)) ∧
    (∀ v, v ∈ votes ↔ ∃ st ∈ p.slots, st.slot > p.fin.highest ∧ v ∈ st.ownVotes p.epoch) := by
  unfold Pool.recover at h
  simp only [List.cons.injEq, Event.standstill.injEq, and_true, true_and] at h
  obtain ⟨hc, hv⟩ := h
  subst hc; subst hv
  constructor
  · intro c
    simp only [List.mem_append, List.mem_flatMap, mem_sortSlots, List.mem_filter, decide_eq_true_eq]
    constructor
    · intro h; rcases h with h | ⟨st, ⟨hm, hs⟩, hc⟩
      · exact Or.inl h
      · exact Or.inr ⟨st, hm, hs, hc⟩
    · intro h; rcases h with h | ⟨st, hm, hs, hc⟩
      · exact Or.inl h
      · exact Or.inr ⟨st, ⟨hm, hs⟩, hc⟩
  · intro v
    simp only [List.mem_flatMap, mem_sortSlots, List.mem_filter, decide_eq_true_eq]
    constructor
    · intro ⟨st, ⟨hm, hs⟩, hc⟩; exact ⟨st, hm, hs, hc⟩
    · intro ⟨st, hm, hs, hc⟩; exact ⟨st, ⟨hm, hs⟩, hc⟩

/-- the certificates proving a slot are held certificates of that slot's state -/
theorem getFinalCerts_held (p : Pool) (s : Nat) (c : Cert) (h : c ∈ p.getFinalCerts s) :
    ∃ st ∈ p.slots, c ∈ st.certs := by
  unfold Pool.getFinalCerts at h
  split at h
  · simp at h
  · rename_i st hg
    obtain ⟨hm, _⟩ := getSlot_mem p s st hg
    refine ⟨st, hm, ?_⟩
    rw [mem_certs]
    split at h
    · rename_i ff hff
      simp at h; subst h; exact Or.inr (Or.inl hff)
    · split at h
      · rename_i f n hf hn
        simp at h
        rcases h with h | h
        · subst h; exact Or.inl hf
        · subst h; exact Or.inr (Or.inr (Or.inl hn))
      · simp at h

/-- the own votes of the bundle are votes stored (i.e. admitted, hence validated) for the node itself -/
theorem recover_votes_own (p : Pool) (certs : List Cert) (votes : List Vote)
    (h : p.recover = [.standstill (p.fin.highest + 1) certs votes]) :
    ∀ v ∈ votes, v.signer = p.epoch.own ∧ v.slot > p.fin.highest := by
  intro v hv
  obtain ⟨st, _, hs, hvs⟩ := ((recover_contents p certs votes h).2 v).mp hv
  unfold SlotState.ownVotes at hvs
  simp only [List.mem_append] at hvs
  rcases hvs with (((hvs | hvs) | hvs) | hvs) | hvs
  · split at hvs
    · simp at hvs; subst hvs; exact ⟨rfl, hs⟩
    · simp at hvs
  · split at hvs
    · simp at hvs; subst hvs; exact ⟨rfl, hs⟩
    · simp at hvs
  · simp only [List.mem_map] at hvs
    obtain ⟨x, _, rfl⟩ := hvs; exact ⟨rfl, hs⟩
  · split at hvs
    · simp at hvs; subst hvs; exact ⟨rfl, hs⟩
    · simp at hvs
  · split at hvs
    · simp at hvs; subst hvs; exact ⟨rfl, hs⟩
    · simp at hvs

end AgModel.Pool
