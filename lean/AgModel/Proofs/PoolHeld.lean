import AgModel.Proofs.PoolS2N
import AgModel.Props.C03
/-! Validity of every certificate a slot state holds (created or received), as a history invariant. -/
namespace AgModel.Pool

def threshold (e : Epoch) (k : CertKind) (s : Nat) : Bool :=
  match k with
  | .ff => e.isStrong s
  | _ => e.isQuorum s

/-- what `ValidatedCert::try_new` establishes about a certificate (signatures symbolic): signers are
    validators of the epoch, each at most once per aggregate, the aggregates are disjoint, and the stake
    of the signers meets the type's threshold (and, for created certificates, equals the declared one) -/
structure CertOk (e : Epoch) (c : Cert) : Prop where
  r1 : ∀ x ∈ c.sig1, x < e.n
  r2 : ∀ x ∈ c.sig2, x < e.n
  n1 : c.sig1.Nodup
  n2 : c.sig2.Nodup
  disj : ∀ x ∈ c.sig1, x ∉ c.sig2
  thr : threshold e c.kind (stakeOf e c.sig1 + stakeOf e c.sig2) = true

theorem filter_range_ok (n : Nat) (p : Nat → Bool) :
    (∀ x ∈ (List.range n).filter p, x < n) ∧ ((List.range n).filter p).Nodup :=
  ⟨fun x hx => by simpa using (List.mem_filter.mp hx).1, List.Nodup.sublist List.filter_sublist List.nodup_range⟩

theorem stakeOf_nil (e : Epoch) : stakeOf e [] = 0 := rfl

/-- a justified (created) certificate is valid -/
theorem CertOk.of_justified {e : Epoch} {s : SlotState} {c : Cert} (j : Justified e s c) : CertOk e c := by
  obtain ⟨_, j⟩ := j
  cases hk : c.kind <;> simp only [hk] at j
  · obtain ⟨h1, h2, h3, h4⟩ := j
    have := filter_range_ok e.n (fun v => s.vNotar.lookup v == some c.hash)
    refine ⟨by rw [h1]; exact this.1, by rw [h2]; simp, by rw [h1]; exact this.2, by rw [h2]; simp, by rw [h2]; simp, ?_⟩
    rw [h2, stakeOf_nil, Nat.add_zero, ← h3]; simpa [threshold, hk] using h4
  · obtain ⟨h1, h2, h3, h4, h5⟩ := j
    have a := filter_range_ok e.n (fun v => s.vNotar.lookup v == some c.hash)
    have b := filter_range_ok e.n (fun v => s.vNf.contains (v, c.hash))
    refine ⟨by rw [h1]; exact a.1, by rw [h2]; exact b.1, by rw [h1]; exact a.2, by rw [h2]; exact b.2, h3, ?_⟩
    rw [← h4]; simpa [threshold, hk] using h5
  · obtain ⟨h1, h2, h3, h4, h5⟩ := j
    have a := filter_range_ok e.n (fun v => s.vSkip.contains v)
    have b := filter_range_ok e.n (fun v => s.vSf.contains v)
    refine ⟨by rw [h1]; exact a.1, by rw [h2]; exact b.1, by rw [h1]; exact a.2, by rw [h2]; exact b.2, h3, ?_⟩
    rw [← h4]; simpa [threshold, hk] using h5
  · obtain ⟨h1, h2, h3, h4⟩ := j
    have := filter_range_ok e.n (fun v => s.vNotar.lookup v == some c.hash)
    refine ⟨by rw [h1]; exact this.1, by rw [h2]; simp, by rw [h1]; exact this.2, by rw [h2]; simp, by rw [h2]; simp, ?_⟩
    rw [h2, stakeOf_nil, Nat.add_zero, ← h3]; simpa [threshold, hk] using h4
  · obtain ⟨h1, h2, h3, h4⟩ := j
    have := filter_range_ok e.n (fun v => s.vFin.contains v)
    refine ⟨by rw [h1]; exact this.1, by rw [h2]; simp, by rw [h1]; exact this.2, by rw [h2]; simp, by rw [h2]; simp, ?_⟩
    rw [h2, stakeOf_nil, Nat.add_zero, ← h3]; simpa [threshold, hk] using h4

/-- every certificate held by the slot state is valid, of the right kind and for this slot -/
def HeldOk (e : Epoch) (st : SlotState) : Prop := ∀ c ∈ st.certs, CertOk e c

theorem mem_certs (st : SlotState) (c : Cert) :
    c ∈ st.certs ↔ st.cFin = some c ∨ st.cFf = some c ∨ st.cNotar = some c ∨ c ∈ st.cNf ∨ st.cSkip = some c := by
  unfold SlotState.certs
  simp only [List.mem_append, Option.mem_toList, Option.mem_def]
  constructor
  · intro h; rcases h with (((h | h) | h) | h) | h
    · exact Or.inl h
    · exact Or.inr (Or.inl h)
    · exact Or.inr (Or.inr (Or.inl h))
    · exact Or.inr (Or.inr (Or.inr (Or.inl h)))
    · exact Or.inr (Or.inr (Or.inr (Or.inr h)))
  · intro h; rcases h with h | h | h | h | h
    · exact Or.inl (Or.inl (Or.inl (Or.inl h)))
    · exact Or.inl (Or.inl (Or.inl (Or.inr h)))
    · exact Or.inl (Or.inl (Or.inr h))
    · exact Or.inl (Or.inr h)
    · exact Or.inr h

theorem HeldOk_addCert (e : Epoch) (st : SlotState) (c : Cert) (h : HeldOk e st) (hc : CertOk e c) : HeldOk e (st.addCert c) := by
  intro x hx
  rw [mem_certs] at hx
  unfold SlotState.addCert at hx
  cases hk : c.kind <;> simp only [hk] at hx
  · rcases hx with hx | hx | hx | hx | hx
    · exact h x ((mem_certs st x).mpr (Or.inl hx))
    · exact h x ((mem_certs st x).mpr (Or.inr (Or.inl hx)))
    · cases hx; exact hc
    · exact h x ((mem_certs st x).mpr (Or.inr (Or.inr (Or.inr (Or.inl hx)))))
    · exact h x ((mem_certs st x).mpr (Or.inr (Or.inr (Or.inr (Or.inr hx)))))
  · split at hx
    · exact h x ((mem_certs st x).mpr hx)
    · rcases hx with hx | hx | hx | hx | hx
      · exact h x ((mem_certs st x).mpr (Or.inl hx))
      · exact h x ((mem_certs st x).mpr (Or.inr (Or.inl hx)))
      · exact h x ((mem_certs st x).mpr (Or.inr (Or.inr (Or.inl hx))))
      · rcases List.mem_append.mp hx with hx | hx
        · exact h x ((mem_certs st x).mpr (Or.inr (Or.inr (Or.inr (Or.inl hx)))))
        · simp at hx; subst hx; exact hc
      · exact h x ((mem_certs st x).mpr (Or.inr (Or.inr (Or.inr (Or.inr hx)))))
  · rcases hx with hx | hx | hx | hx | hx
    · exact h x ((mem_certs st x).mpr (Or.inl hx))
    · exact h x ((mem_certs st x).mpr (Or.inr (Or.inl hx)))
    · exact h x ((mem_certs st x).mpr (Or.inr (Or.inr (Or.inl hx))))
    · exact h x ((mem_certs st x).mpr (Or.inr (Or.inr (Or.inr (Or.inl hx)))))
    · cases hx; exact hc
  · rcases hx with hx | hx | hx | hx | hx
    · exact h x ((mem_certs st x).mpr (Or.inl hx))
    · cases hx; exact hc
    · exact h x ((mem_certs st x).mpr (Or.inr (Or.inr (Or.inl hx))))
    · exact h x ((mem_certs st x).mpr (Or.inr (Or.inr (Or.inr (Or.inl hx)))))
    · exact h x ((mem_certs st x).mpr (Or.inr (Or.inr (Or.inr (Or.inr hx)))))
  · rcases hx with hx | hx | hx | hx | hx
    · cases hx; exact hc
    · exact h x ((mem_certs st x).mpr (Or.inr (Or.inl hx)))
    · exact h x ((mem_certs st x).mpr (Or.inr (Or.inr (Or.inl hx))))
    · exact h x ((mem_certs st x).mpr (Or.inr (Or.inr (Or.inr (Or.inl hx)))))
    · exact h x ((mem_certs st x).mpr (Or.inr (Or.inr (Or.inr (Or.inr hx)))))

theorem HeldOk_addCerts (e : Epoch) (cs : List Cert) (st : SlotState) (h : HeldOk e st) (hc : ∀ c ∈ cs, CertOk e c) :
    HeldOk e (cs.foldl SlotState.addCert st) := by
  induction cs generalizing st with
  | nil => exact h
  | cons c cs ih =>
    exact ih _ (HeldOk_addCert e st c h (hc c (by simp))) (fun x hx => hc x (by simp [hx]))

theorem HeldOk.of_coreEq {e : Epoch} {a b : SlotState} (h : CoreEq a b) (i : HeldOk e a) : HeldOk e b := by
  have h1 : a.cNotar = b.cNotar := (congrArg SlotState.cNotar h.eq : a.core.cNotar = b.core.cNotar)
  have h2 : a.cNf = b.cNf := (congrArg SlotState.cNf h.eq : a.core.cNf = b.core.cNf)
  have h3 : a.cSkip = b.cSkip := (congrArg SlotState.cSkip h.eq : a.core.cSkip = b.core.cSkip)
  have h4 : a.cFf = b.cFf := (congrArg SlotState.cFf h.eq : a.core.cFf = b.core.cFf)
  have h5 : a.cFin = b.cFin := (congrArg SlotState.cFin h.eq : a.core.cFin = b.core.cFin)
  unfold HeldOk SlotState.certs at *
  rw [← h1, ← h2, ← h3, ← h4, ← h5]; exact i

/-- the full per-slot invariant -/
def SlotOk (e : Epoch) (st : SlotState) : Prop := Inv e st ∧ HeldOk e st

theorem SlotOk.init (e : Epoch) (s : Nat) (hpos : 0 < e.total) : SlotOk e { slot := s } :=
  ⟨Inv.init e s hpos, by intro c hc; simp [SlotState.certs] at hc⟩

/-- every slot operation preserves the full invariant, provided received certificates were validated -/
theorem slotStep_ok (e : Epoch) (st : SlotState) (op : SlotOp) (i : SlotOk e st)
    (hrecv : ∀ c, op = .cert c → CertOk e c) : SlotOk e (slotStep e st op).1 := by
  refine ⟨slotStep_Inv e st op i.1, ?_⟩
  cases op with
  | vote v =>
    simp only [slotStep]
    split
    · exact i.2
    · rename_i hr
      have ha := adm_of_not_refused st v hr
      have hce := addVote_core e st v
      apply HeldOk_addCerts
      · have : HeldOk e (st.stored e v) := by
          intro c hc
          apply i.2 c
          unfold SlotState.certs at hc ⊢
          rw [stored_cNotar, stored_cFf, stored_cSkip, stored_cFin] at hc
          have : (st.stored e v).cNf = st.cNf := by unfold SlotState.stored; cases v.kind <;> rfl
          rw [this] at hc; exact hc
        exact this.of_coreEq hce.symm
      · intro c hc
        rw [addVote_certs] at hc
        exact CertOk.of_justified (newCerts_justified e _ v (stored_InvV e st v i.1.1 ha) c hc)
  | cert c =>
    simp only [slotStep]
    split
    · exact i.2
    · exact HeldOk_addCert e st c i.2 (hrecv c rfl)
  | parentKnown h =>
    simp only [slotStep, SlotState.notifyParentKnown]
    split
    · exact i.2
    · have hc : CoreEq st { st with parents := st.parents ++ [(h, false)] } := ⟨rfl⟩
      exact i.2.of_coreEq hc
  | parentCertified h =>
    simp only [slotStep]
    split
    · exact i.2
    · rename_i s evs hn
      exact i.2.of_coreEq (notifyParentCertified_core e st h s evs hn)

end AgModel.Pool
