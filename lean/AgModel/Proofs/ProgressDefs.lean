import AgModel.Spec.Cluster
import AgModel.Proofs.ClusterRun
/-!
# C02 — the timely (lock-step) schedule of the cluster of executable model nodes: definitions

Once the network is timely, every message a correct node broadcasts reaches every correct node before any timeout for the
slot fires. At the level of the cluster model (`Spec/Cluster.lean`) such a run is, up to the order of independent
deliveries, the *lock-step* schedule defined here as executable functions on cluster states:

* `deliverBlock c b`: the block `b = (slot, hash)` with its parent `c.parentOf b` reaches pool and Votor of every correct node;
* `pumpAll c st`: every correct node's Votor drains its queue of pool events;
* `exchange c lo st`: every vote for a slot `≥ lo` (the slot being decided; older slots are settled) that the Votor of a
  correct node has broadcast so far is delivered to the pool of every correct node — also to the sender's own pool, as
  `All2All::broadcast` does (cf. the delivery loop of `harness/src/bin/cluster.rs`); re-deliveries are duplicates for the pool;
* `deliverTimeouts c ts`: the timeouts of the slots `ts` fire at every correct node.

Only the nodes of correct validators with an index `< n` take part (`correctIds`); Byzantine validators are silent in the
schedule itself (Stage C of `Props/C02Cluster.lean` is about mixing their messages in).
-/
namespace AgModel.Cluster
open AgModel AgModel.Node AgModel.NodePanic AgModel.Pool

/-- the correct validators (indices below `n`), ascending -/
def correctIds (c : Cfg) : List Nat := (List.range c.n).filter c.correct

/-- their stake -/
def correctStake (c : Cfg) : Nat := stakeOf (c.epoch 0) (correctIds c)

/-- a vote broadcast by Votor `j` as the pool sees it -/
def voteOfOut (j : Nat) : Votor.Out → Option Pool.Vote
  | .notar s h _ _ => some ⟨.notar, s, h, j⟩
  | .skip s => some ⟨.skip, s, 0, j⟩
  | .final s => some ⟨.final, s, 0, j⟩
  | .notarFallback s h => some ⟨.nf, s, h, j⟩
  | .skipFallback s => some ⟨.sf, s, 0, j⟩
  | _ => none

/-- the votes for slots `≥ lo` that Votor `j` has broadcast (oldest first) -/
def votesOf (lo j : Nat) (log : List Votor.Item) : List Pool.Vote :=
  ((outsOf log).filterMap (voteOfOut j)).filter (fun v => decide (lo ≤ v.slot))

/-- what the network delivers to one pool in an exchange: all votes of all correct validators, sender by sender -/
def inbox (c : Cfg) (lo : Nat) (st : State) : List NodeOp :=
  (correctIds c).flatMap (fun j => (votesOf lo j (st j).votor.log).map NodeOp.recvVote)

def at_ (i : Nat) (ops : List NodeOp) : List Ev := ops.map (fun op => (i, op))

/-- every correct node receives the same list of operations -/
def allNodes (c : Cfg) (ops : Nat → List NodeOp) : List Ev := (correctIds c).flatMap (fun i => at_ i (ops i))

def blockOps (c : Cfg) (b : Nat × Nat) : List NodeOp :=
  [.poolBlock b (c.parentOf b), .votorBlock b.1 ⟨b.2, (c.parentOf b).1, (c.parentOf b).2⟩]

def deliverBlock (c : Cfg) (b : Nat × Nat) : List Ev := allNodes c (fun _ => blockOps c b)

def pumpAll (c : Cfg) (st : State) : List Ev := allNodes c (fun i => List.replicate (st i).queue.length NodeOp.pump)

def exchange (c : Cfg) (lo : Nat) (st : State) : List Ev := allNodes c (fun _ => inbox c lo st)

def deliverTimeouts (c : Cfg) (ts : List Nat) : List Ev := allNodes c (fun _ => ts.map NodeOp.timeout)

/-- one voting round: exchange, then every Votor handles what its pool produced -/
def round (c : Cfg) (lo : Nat) (st : State) : List Ev :=
  exchange c lo st ++ pumpAll c (run st (exchange c lo st))

/-- `deliverBlock; pumpAll; exchange; pumpAll` — one voting round after the block arrived -/
def fastSched (c : Cfg) (b : Nat × Nat) (st : State) : List Ev :=
  let d := deliverBlock c b
  let p := pumpAll c (run st d)
  d ++ p ++ round c b.1 (run st (d ++ p))

/-- … and a second voting round (finalization votes) -/
def slotSched (c : Cfg) (b : Nat × Nat) (st : State) : List Ev :=
  let f := fastSched c b st
  f ++ round c b.1 (run st f)

/-- the blocks of a leader window, in slot order -/
def windowSched (c : Cfg) : List (Nat × Nat) → State → List Ev
  | [], _ => []
  | b :: bs, st => slotSched c b st ++ windowSched c bs (run st (slotSched c b st))

/-- a silent leader: the timeouts of the slots `ts` fire everywhere, then one voting round (skip votes) -/
def skipSched (c : Cfg) (lo : Nat) (ts : List Nat) (st : State) : List Ev :=
  let d := deliverTimeouts c ts
  d ++ round c lo (run st d)

end AgModel.Cluster
