import AgModel.Proofs.NodePanic
import AgModel.Model.Node
/-!
Operations and runs of the composed node (`Model/Node.lean`: Pool ∘ Votor with the FIFO event queue), and the
invariant "the voting task has only seen well-formed events". Used by C10 (`votor_never_panics`) and by C05
(`Proofs/NodeFallback.lean`: the pool-side ordering of safe-to-notar / safe-to-skip).
-/
namespace AgModel.NodePanic
open AgModel AgModel.Node

/-- inputs of the composed node: the network side (validated votes / certificates, reconstructed blocks) and what
    the runtime may schedule for the voting task -/
inductive NodeOp where
  | recvVote (v : Pool.Vote)
  | recvCert (c : Pool.Cert)
  | poolBlock (b par : Nat × Nat)
  | pump
  | votorBlock (slot : Nat) (b : Votor.BlockInfo)
  | firstShred (slot : Nat)
  | invalidBlock (slot : Nat)
  | timeout (slot : Nat)
  | timeoutCrashed (slot : Nat)

def nodeStep (n : Node) : NodeOp → Node
  | .recvVote v => (recvVote n v).1
  | .recvCert c => (recvCert n c).1
  | .poolBlock b par => (poolBlock n b par).1
  | .pump => (pump n).1
  | .votorBlock s b => (votorStep n (.block s b)).1
  | .firstShred s => (votorStep n (.firstShred s)).1
  | .invalidBlock s => (votorStep n (.invalidBlock s)).1
  | .timeout s => (votorStep n (.timeout s)).1
  | .timeoutCrashed s => (votorStep n (.timeoutCrashed s)).1

def nodeRun (n : Node) : List NodeOp → Node
  | [] => n
  | op :: ops => nodeRun (nodeStep n op) ops

/-- the voting task has only seen well-formed events, and only well-formed ones are queued for it -/
structure VInv (n : Node) : Prop where
  hist : ∃ es, (∀ e ∈ es, Votor.Event.wellFormed e) ∧ n.votor = Votor.run Votor.init es
  queue : ∀ e ∈ n.queue, ∀ ve, toVotor e = some ve → Votor.Event.wellFormed ve

theorem toVotor_wf (evs : List Pool.Event) (h : PROk evs) : ∀ e ∈ evs, ∀ ve, toVotor e = some ve → Votor.Event.wellFormed ve := by
  intro e he ve hv
  cases e with
  | parentReady s ps ph =>
    simp only [toVotor, Option.some.injEq] at hv; subst hv
    have := h s ps ph he
    simpa [Votor.Event.wellFormed, ParentReady.isWindowStart, ParentReady.W, Votor.W] using this
  | cert c => simp only [toVotor, Option.some.injEq] at hv; subst hv; trivial
  | s2n s h' => simp only [toVotor, Option.some.injEq] at hv; subst hv; trivial
  | s2s s => simp only [toVotor, Option.some.injEq] at hv; subst hv; trivial
  | standstill s cs vs => simp only [toVotor, Option.some.injEq] at hv; subst hv; trivial
  | repair a b => simp [toVotor] at hv
  | panic => simp [toVotor] at hv

theorem enqueue_inv (n : Node) (evs : List Pool.Event) (h : PROk evs) (i : VInv n) (hv : (enqueue n evs).votor = n.votor)
    : VInv (enqueue n evs) := by
  unfold enqueue at *
  split
  · exact ⟨i.hist, i.queue⟩
  · refine ⟨i.hist, ?_⟩
    intro e he ve hve
    rcases List.mem_append.mp he with h1 | h1
    · exact i.queue e h1 ve hve
    · exact toVotor_wf evs h e (List.mem_filter.mp h1).1 ve hve

theorem votorStep_inv (n : Node) (e : Votor.Event) (hw : Votor.Event.wellFormed e) (i : VInv n) : VInv (votorStep n e).1 := by
  unfold votorStep
  split
  · exact i
  · obtain ⟨es, hes, hrun⟩ := i.hist
    refine ⟨⟨es ++ [e], ?_, ?_⟩, i.queue⟩
    · intro x hx
      rcases List.mem_append.mp hx with h | h
      · exact hes x h
      · simp at h; subst h; exact hw
    · show Votor.step n.votor e = _
      rw [Votor.run_append, ← hrun]; rfl

theorem nodeStep_inv (n : Node) (op : NodeOp) (i : VInv n) : VInv (nodeStep n op) := by
  cases op with
  | recvVote v =>
    simp only [nodeStep, recvVote]
    split
    · exact i
    · exact enqueue_inv _ _ (addVote_prOk n.pool v) ⟨i.hist, i.queue⟩ (by unfold enqueue; split <;> rfl)
  | recvCert c =>
    simp only [nodeStep, recvCert]
    split
    · exact i
    · exact enqueue_inv _ _ (addCert_prOk n.pool c) ⟨i.hist, i.queue⟩ (by unfold enqueue; split <;> rfl)
  | poolBlock b par =>
    simp only [nodeStep, poolBlock]
    split
    · exact i
    · exact enqueue_inv _ _ (addBlock_prOk n.pool b par) ⟨i.hist, i.queue⟩ (by unfold enqueue; split <;> rfl)
  | pump =>
    simp only [nodeStep, pump]
    split
    · exact i
    · rename_i e rest hq
      have hrest : ∀ x ∈ rest, ∀ ve, toVotor x = some ve → Votor.Event.wellFormed ve :=
        fun x hx => i.queue x (by rw [hq]; exact List.mem_cons_of_mem _ hx)
      split
      · rename_i ve hve
        exact votorStep_inv _ ve (i.queue e (by rw [hq]; simp) ve hve) ⟨i.hist, hrest⟩
      · exact ⟨i.hist, hrest⟩
  | votorBlock s b => exact votorStep_inv n _ trivial i
  | firstShred s => exact votorStep_inv n _ trivial i
  | invalidBlock s => exact votorStep_inv n _ trivial i
  | timeout s => exact votorStep_inv n _ trivial i
  | timeoutCrashed s => exact votorStep_inv n _ trivial i

theorem nodeRun_inv (ops : List NodeOp) (n : Node) (i : VInv n) : VInv (nodeRun n ops) := by
  induction ops generalizing n with
  | nil => exact i
  | cons op ops ih => exact ih _ (nodeStep_inv n op i)

end AgModel.NodePanic
