import AgModel.Proofs.PoolCerts
/-! Safe-to-notar / safe-to-skip: what `check_safe_to_notar` decides, soundness of every emitted event. -/
namespace AgModel.Pool

/-- the stake clause of safe-to-notar -/
def stakeClause (e : Epoch) (st : SlotState) (h : Nat) : Bool :=
  e.isWeakest (lookupD st.sNotar h) && (e.isWeak (lookupD st.sNotar h) || e.isQuorum (lookupD st.sNotar h + st.sSkip))

/-- the node voted in the slot, but not to notarize `h` -/
def ownVotedNot (e : Epoch) (st : SlotState) (h : Nat) : Bool :=
  st.vSkip.contains e.own || (match st.vNotar.lookup e.own with | some h' => h' != h | none => false)

/-- all conditions of safe-to-notar, on the state -/
def S2NCond (e : Epoch) (st : SlotState) (h : Nat) : Prop :=
  stakeClause e st h = true ∧ st.parents.lookup h = some true ∧ ownVotedNot e st h = true

instance (e : Epoch) (st : SlotState) (h : Nat) : Decidable (S2NCond e st h) := by
  unfold S2NCond; infer_instance

/-- the safe-to-skip condition, on the state -/
def S2SCond (e : Epoch) (st : SlotState) : Prop :=
  e.isWeak (st.sNotarOrSkip - st.sTopNotar) = true ∧ (st.vNotar.lookup e.own).isSome = true

instance (e : Epoch) (st : SlotState) : Decidable (S2SCond e st) := by
  unfold S2SCond; infer_instance

/-- everything the safe-to-notar / safe-to-skip conditions read -/
structure SameCond (a b : SlotState) : Prop where
  slot : a.slot = b.slot
  sNotar : a.sNotar = b.sNotar
  sSkip : a.sSkip = b.sSkip
  vSkip : a.vSkip = b.vSkip
  vNotar : a.vNotar = b.vNotar
  nos : a.sNotarOrSkip = b.sNotarOrSkip
  top : a.sTopNotar = b.sTopNotar
  parents : a.parents = b.parents

theorem SameCond.refl (a : SlotState) : SameCond a a := ⟨rfl, rfl, rfl, rfl, rfl, rfl, rfl, rfl⟩
theorem SameCond.trans {a b c : SlotState} (h1 : SameCond a b) (h2 : SameCond b c) : SameCond a c :=
  ⟨h1.slot.trans h2.slot, h1.sNotar.trans h2.sNotar, h1.sSkip.trans h2.sSkip, h1.vSkip.trans h2.vSkip,
   h1.vNotar.trans h2.vNotar, h1.nos.trans h2.nos, h1.top.trans h2.top, h1.parents.trans h2.parents⟩
theorem SameCond.symm {a b : SlotState} (h : SameCond a b) : SameCond b a :=
  ⟨h.slot.symm, h.sNotar.symm, h.sSkip.symm, h.vSkip.symm, h.vNotar.symm, h.nos.symm, h.top.symm, h.parents.symm⟩

theorem SameCond.of_core {a b : SlotState} (hc : a.core = b.core) (hp : a.parents = b.parents) : SameCond a b :=
  ⟨(congrArg SlotState.slot hc : a.core.slot = b.core.slot), (congrArg SlotState.sNotar hc : a.core.sNotar = b.core.sNotar),
   (congrArg SlotState.sSkip hc : a.core.sSkip = b.core.sSkip), (congrArg SlotState.vSkip hc : a.core.vSkip = b.core.vSkip),
   (congrArg SlotState.vNotar hc : a.core.vNotar = b.core.vNotar),
   (congrArg SlotState.sNotarOrSkip hc : a.core.sNotarOrSkip = b.core.sNotarOrSkip),
   (congrArg SlotState.sTopNotar hc : a.core.sTopNotar = b.core.sTopNotar), hp⟩

theorem S2NCond.of_same {e : Epoch} {a b : SlotState} {h : Nat} (s : SameCond a b) (c : S2NCond e a h) : S2NCond e b h := by
  unfold S2NCond stakeClause ownVotedNot at *
  rw [← s.sNotar, ← s.sSkip, ← s.vSkip, ← s.vNotar, ← s.parents]; exact c

theorem S2SCond.of_same {e : Epoch} {a b : SlotState} (s : SameCond a b) (c : S2SCond e a) : S2SCond e b := by
  unfold S2SCond at *
  rw [← s.nos, ← s.top, ← s.vNotar]; exact c

theorem checkS2N_parents (e : Epoch) (st : SlotState) (h : Nat) : (st.checkS2N e h).1.parents = st.parents := by
  unfold SlotState.checkS2N
  dsimp only
  repeat' (first | rfl | split)

theorem checkS2N_same (e : Epoch) (st : SlotState) (h : Nat) : SameCond st (st.checkS2N e h).1 :=
  SameCond.of_core (checkS2N_core e st h).symm (checkS2N_parents e st h).symm

/-- `check_safe_to_notar` answers `SafeToNotar` exactly when all conditions hold; it then moves the
    block from `pending` to `sent`; otherwise `sent` is unchanged. -/
theorem checkS2N_safe_iff (e : Epoch) (st : SlotState) (h : Nat) :
    ((st.checkS2N e h).2 = .safe ↔ S2NCond e st h) ∧
    ((st.checkS2N e h).2 = .safe → (st.checkS2N e h).1.sent = insertSet st.sent h) ∧
    ((st.checkS2N e h).2 ≠ .safe → (st.checkS2N e h).1.sent = st.sent) := by
  unfold SlotState.checkS2N S2NCond stakeClause ownVotedNot
  dsimp only
  by_cases h1 : e.isWeakest (lookupD st.sNotar h) = true
  · simp only [h1, Bool.not_true, Bool.false_eq_true, if_false, Bool.true_and]
    by_cases h2 : (e.isWeak (lookupD st.sNotar h) || e.isQuorum (lookupD st.sNotar h + st.sSkip)) = true
    · have h2' : (!e.isWeak (lookupD st.sNotar h) && !e.isQuorum (lookupD st.sNotar h + st.sSkip)) = false := by
        cases ha : e.isWeak (lookupD st.sNotar h) <;> cases hb : e.isQuorum (lookupD st.sNotar h + st.sSkip) <;> simp_all
      simp only [h2', Bool.false_eq_true, if_false, h2, true_and]
      cases hp : st.parents.lookup h with
      | none => simp
      | some b =>
        cases b with
        | false => simp
        | true =>
          simp only [true_and]
          by_cases hs : st.vSkip.contains e.own = true
          · have hs' : e.own ∈ st.vSkip := by simpa [List.contains_eq_mem] using hs
            simp [hs, hs']
          · have hs' : e.own ∉ st.vSkip := by simpa [List.contains_eq_mem] using hs
            simp only [hs, Bool.false_eq_true, if_false, Bool.false_or]
            cases hl : st.vNotar.lookup e.own with
            | none => simp
            | some h' =>
              by_cases hne : h' = h
              · subst hne; simp
              · simp [hne]
    · have h2' : (!e.isWeak (lookupD st.sNotar h) && !e.isQuorum (lookupD st.sNotar h + st.sSkip)) = true := by
        cases ha : e.isWeak (lookupD st.sNotar h) <;> cases hb : e.isQuorum (lookupD st.sNotar h + st.sSkip) <;> simp_all
      simp [h2', h2]
  · simp [h1]

/-! ### soundness and at-most-once of emitted events -/

def s2nHash : Event → Option Nat
  | .s2n _ h => some h
  | _ => none

/-- every safe-to-notar / safe-to-skip event in `evs` is justified in the reference state `r` -/
def EvSound (e : Epoch) (r : SlotState) (evs : List Event) : Prop :=
  ∀ ev ∈ evs, match ev with
    | .s2n s h => s = r.slot ∧ S2NCond e r h
    | .s2s s => s = r.slot ∧ S2SCond e r
    | _ => True

theorem EvSound.append {e : Epoch} {r : SlotState} {a b : List Event} (h1 : EvSound e r a) (h2 : EvSound e r b) :
    EvSound e r (a ++ b) := by
  intro ev hev
  rcases List.mem_append.mp hev with h | h
  · exact h1 ev h
  · exact h2 ev h

theorem EvSound.of_same {e : Epoch} {a b : SlotState} {evs : List Event} (s : SameCond a b) (h : EvSound e a evs) :
    EvSound e b evs := by
  intro ev hev
  have := h ev hev
  cases ev with
  | s2n sl hh => exact ⟨this.1.trans s.slot, this.2.of_same s⟩
  | s2s sl => exact ⟨this.1.trans s.slot, this.2.of_same s⟩
  | _ => trivial

theorem EvSound.nil (e : Epoch) (r : SlotState) : EvSound e r [] := by intro ev h; simp at h

def isS2S : Event → Bool
  | .s2s _ => true
  | _ => false

/-- emission bookkeeping between a state `a` and a later state `b`: the emitted safe-to-notar hashes are
    pairwise distinct, were not in `a.sent`, are in `b.sent`; `sent` only grows; at most one safe-to-skip
    is emitted and only if the flag was clear (it is set afterwards and never cleared) -/
structure Emit (a b : SlotState) (evs : List Event) : Prop where
  nodup : (evs.filterMap s2nHash).Nodup
  fresh : ∀ h ∈ evs.filterMap s2nHash, h ∉ a.sent ∧ h ∈ b.sent
  mono : ∀ h ∈ a.sent, h ∈ b.sent
  s2sOne : (evs.filter isS2S).length ≤ 1
  s2sFresh : (evs.filter isS2S) ≠ [] → a.sentS2S = false ∧ b.sentS2S = true
  s2sMono : a.sentS2S = true → b.sentS2S = true

theorem Emit.none_of_sent_eq {a b : SlotState} (h : a.sent = b.sent) (h2 : a.sentS2S = b.sentS2S) : Emit a b [] :=
  ⟨by simp, by simp, by intro x hx; rw [← h]; exact hx, by simp, by simp, by intro hx; rw [← h2]; exact hx⟩

theorem Emit.trans {a b c : SlotState} {e1 e2 : List Event} (h1 : Emit a b e1) (h2 : Emit b c e2) : Emit a c (e1 ++ e2) := by
  constructor
  · rw [List.filterMap_append, List.nodup_append]
    refine ⟨h1.nodup, h2.nodup, ?_⟩
    intro x hx y hy hxy
    subst hxy
    exact (h2.fresh x hy).1 (h1.fresh x hx).2
  · intro h hh
    rw [List.filterMap_append] at hh
    rcases List.mem_append.mp hh with hh | hh
    · exact ⟨(h1.fresh h hh).1, h2.mono h (h1.fresh h hh).2⟩
    · exact ⟨fun hm => (h2.fresh h hh).1 (h1.mono h hm), (h2.fresh h hh).2⟩
  · intro h hh; exact h2.mono h (h1.mono h hh)
  · rw [List.filter_append, List.length_append]
    by_cases hA : e1.filter isS2S = []
    · rw [hA]; simpa using h2.s2sOne
    · have := (h1.s2sFresh hA).2
      by_cases hB : e2.filter isS2S = []
      · rw [hB]; simpa using h1.s2sOne
      · have hb := (h2.s2sFresh hB).1
        rw [this] at hb; cases hb
  · intro hne
    rw [List.filter_append] at hne
    by_cases hA : e1.filter isS2S = []
    · have hB : e2.filter isS2S ≠ [] := by intro hB; rw [hA, hB] at hne; exact hne rfl
      have := h2.s2sFresh hB
      refine ⟨?_, this.2⟩
      cases hx : a.sentS2S
      · rfl
      · have hb := h1.s2sMono hx
        rw [this.1] at hb; cases hb
    · exact ⟨(h1.s2sFresh hA).1, h2.s2sMono (h1.s2sFresh hA).2⟩
  · intro hx; exact h2.s2sMono (h1.s2sMono hx)

theorem mem_insertSet (l : List Nat) (k x : Nat) : x ∈ insertSet l k ↔ x ∈ l ∨ x = k := by
  induction l with
  | nil => simp [insertSet]
  | cons y ys ih =>
    unfold insertSet
    split
    · simp only [List.mem_cons]
      constructor
      · intro h; rcases h with h | h | h
        · exact Or.inr h
        · exact Or.inl (Or.inl h)
        · exact Or.inl (Or.inr h)
      · intro h; rcases h with (h | h) | h
        · exact Or.inr (Or.inl h)
        · exact Or.inr (Or.inr h)
        · exact Or.inl h
    · split
      · rename_i hk
        simp only [List.mem_cons]
        constructor
        · intro h; exact Or.inl h
        · intro h; rcases h with h | h
          · exact h
          · left; rw [h, hk]
      · simp only [List.mem_cons, ih]
        constructor
        · intro h; rcases h with h | h | h
          · exact Or.inl (Or.inl h)
          · exact Or.inl (Or.inr h)
          · exact Or.inr h
        · intro h; rcases h with (h | h) | h
          · exact Or.inl h
          · exact Or.inr (Or.inl h)
          · exact Or.inr (Or.inr h)

theorem checkS2N_sentS2S (e : Epoch) (st : SlotState) (h : Nat) : (st.checkS2N e h).1.sentS2S = st.sentS2S := by
  unfold SlotState.checkS2N
  dsimp only
  repeat' (first | rfl | split)

/-- one guarded evaluation of `check_safe_to_notar` (guard: `h ∉ sent`) -/
theorem checkS2N_emit (e : Epoch) (st : SlotState) (h : Nat) (hg : h ∉ st.sent) :
    EvSound e st (s2nOut (st.checkS2N e h).1.slot h (st.checkS2N e h).2) ∧
    Emit st (st.checkS2N e h).1 (s2nOut (st.checkS2N e h).1.slot h (st.checkS2N e h).2) := by
  obtain ⟨hiff, hsafe, hnot⟩ := checkS2N_safe_iff e st h
  cases hr : (st.checkS2N e h).2 with
  | safe =>
    have hc := hiff.mp hr
    have hs := hsafe hr
    simp only [s2nOut]
    constructor
    · intro ev hev
      simp only [List.mem_singleton] at hev; subst hev
      exact ⟨checkS2N_slot e st h, hc⟩
    · have hflag := checkS2N_sentS2S e st h
      refine ⟨(by simp : [h].Nodup), ?_, ?_, (by simp [isS2S]), (by simp [isS2S]), (by intro hx; rw [hflag]; exact hx)⟩
      · intro x hx
        have hx' : x ∈ [h] := hx
        simp only [List.mem_singleton] at hx'; subst hx'
        exact ⟨hg, by rw [hs, mem_insertSet]; exact Or.inr rfl⟩
      · intro x hx; rw [hs, mem_insertSet]; exact Or.inl hx
  | missing =>
    have hs := hnot (by rw [hr]; intro hh; cases hh)
    simp only [s2nOut]
    have hflag := checkS2N_sentS2S e st h
    exact ⟨by intro ev hev; simp only [List.mem_singleton] at hev; subst hev; trivial,
      ⟨(List.nodup_nil : ([] : List Nat).Nodup), (by intro x hx; cases hx), (by intro x hx; rw [hs]; exact hx),
       (by simp [isS2S]), (by simp [isS2S]), (by intro hx; rw [hflag]; exact hx)⟩⟩
  | awaiting =>
    have hs := hnot (by rw [hr]; intro hh; cases hh)
    simp only [s2nOut]
    have hflag := checkS2N_sentS2S e st h
    exact ⟨EvSound.nil e st, ⟨by simp, by simp, (by intro x hx; rw [hs]; exact hx), (by simp), (by simp),
      (by intro hx; rw [hflag]; exact hx)⟩⟩

theorem recheckPending_emit (e : Epoch) (st : SlotState) (hs : List Nat) :
    SameCond st (SlotState.recheckPending e st hs []).1 ∧
    EvSound e st (SlotState.recheckPending e st hs []).2 ∧
    Emit st (SlotState.recheckPending e st hs []).1 (SlotState.recheckPending e st hs []).2 := by
  -- generalise over the accumulator: result events = acc ++ new
  have gen : ∀ (hs : List Nat) (st : SlotState) (acc : List Event),
      ∃ new, (SlotState.recheckPending e st hs acc).2 = acc ++ new ∧
        SameCond st (SlotState.recheckPending e st hs acc).1 ∧ EvSound e st new ∧
        Emit st (SlotState.recheckPending e st hs acc).1 new := by
    intro hs
    induction hs with
    | nil =>
      intro st acc
      exact ⟨[], by simp [SlotState.recheckPending], SameCond.refl _, EvSound.nil e st, Emit.none_of_sent_eq rfl rfl⟩
    | cons h hs ih =>
      intro st acc
      unfold SlotState.recheckPending
      split
      · exact ih st acc
      · rename_i hg
        have hg' : h ∉ st.sent := by simpa [List.contains_eq_mem] using hg
        obtain ⟨hsound, hemit⟩ := checkS2N_emit e st h hg'
        have hsame := checkS2N_same e st h
        obtain ⟨new, hev, hs2, hsound2, hemit2⟩ := ih (st.checkS2N e h).1 (acc ++ s2nOut (st.checkS2N e h).1.slot h (st.checkS2N e h).2)
        refine ⟨s2nOut (st.checkS2N e h).1.slot h (st.checkS2N e h).2 ++ new, ?_, hsame.trans hs2, ?_, hemit.trans hemit2⟩
        · rw [hev, List.append_assoc]
        · exact hsound.append (hsound2.of_same hsame.symm)
  obtain ⟨new, hev, h1, h2, h3⟩ := gen hs st []
  simp only [List.nil_append] at hev
  rw [hev]
  exact ⟨h1, h2, h3⟩

theorem s2sCheck_emit (e : Epoch) (st : SlotState) :
    SameCond st (st.s2sCheck e).1 ∧ EvSound e st (st.s2sCheck e).2 ∧ Emit st (st.s2sCheck e).1 (st.s2sCheck e).2 := by
  unfold SlotState.s2sCheck
  split
  · rename_i hc
    simp only [Bool.and_eq_true, Bool.not_eq_true'] at hc
    refine ⟨⟨rfl, rfl, rfl, rfl, rfl, rfl, rfl, rfl⟩, ?_,
      ⟨(List.nodup_nil : ([] : List Nat).Nodup), (by intro x hx; cases hx), fun x hx => hx, (Nat.le_refl 1 : ([Event.s2s st.slot].filter isS2S).length ≤ 1),
       (fun _ => ⟨hc.1.1, rfl⟩), fun _ => rfl⟩⟩
    intro ev hev
    simp only [List.mem_singleton] at hev; subst hev
    exact ⟨rfl, hc.1.2, hc.2⟩
  · exact ⟨SameCond.refl _, EvSound.nil e st, Emit.none_of_sent_eq rfl rfl⟩

theorem Emit.of_left {a a' b : SlotState} {evs : List Event} (h1 : a'.sent = a.sent) (h2 : a'.sentS2S = a.sentS2S)
    (h : Emit a b evs) : Emit a' b evs :=
  ⟨h.nodup, fun x hx => ⟨by rw [h1]; exact (h.fresh x hx).1, (h.fresh x hx).2⟩, fun x hx => h.mono x (by rw [← h1]; exact hx),
   h.s2sOne, fun hne => ⟨by rw [h2]; exact (h.s2sFresh hne).1, (h.s2sFresh hne).2⟩, fun hx => h.s2sMono (by rw [← h2]; exact hx)⟩

/-- the tail of `count_notar_stake` after the counters were updated (state `A`) -/
def notarTail (e : Epoch) (A : SlotState) (h : Nat) : SlotState × List Event :=
  if !A.sent.contains h then
    (((A.checkS2N e h).1.s2sCheck e).1,
      s2nOut (A.checkS2N e h).1.slot h (A.checkS2N e h).2 ++ ((A.checkS2N e h).1.s2sCheck e).2)
  else ((A.s2sCheck e).1, [] ++ (A.s2sCheck e).2)

theorem notarTail_emit (e : Epoch) (A : SlotState) (h : Nat) :
    SameCond A (notarTail e A h).1 ∧ EvSound e (notarTail e A h).1 (notarTail e A h).2 ∧
    Emit A (notarTail e A h).1 (notarTail e A h).2 := by
  unfold notarTail
  split
  · rename_i hg
    have hg' : h ∉ A.sent := by simpa [List.contains_eq_mem] using hg
    obtain ⟨s1, m1⟩ := checkS2N_emit e A h hg'
    have c1 := checkS2N_same e A h
    obtain ⟨c2, s2, m2⟩ := s2sCheck_emit e (A.checkS2N e h).1
    exact ⟨c1.trans c2, (s1.of_same (c1.trans c2)).append (s2.of_same c2), m1.trans m2⟩
  · obtain ⟨c2, s2, m2⟩ := s2sCheck_emit e A
    simp only [List.nil_append]
    exact ⟨c2, s2.of_same c2, m2⟩

theorem countNotar_tail (e : Epoch) (st : SlotState) (h stake : Nat) :
    ((SlotState.countNotar e st h stake).1, (SlotState.countNotar e st h stake).2.2) =
      notarTail e { st with sNotar := addTo st.sNotar h stake, sNotarOrSkip := st.sNotarOrSkip + stake,
                            sTopNotar := max (lookupD (addTo st.sNotar h stake) h) st.sTopNotar } h := by
  unfold SlotState.countNotar notarTail
  dsimp only
  split <;> rfl

/-- the tail of `count_skip_stake` after the counter was updated (state `A`) -/
def skipTail (e : Epoch) (A : SlotState) : SlotState × List Event :=
  (((SlotState.recheckPending e A A.pending []).1.s2sCheck e).1,
    (SlotState.recheckPending e A A.pending []).2 ++ ((SlotState.recheckPending e A A.pending []).1.s2sCheck e).2)

theorem skipTail_emit (e : Epoch) (A : SlotState) :
    SameCond A (skipTail e A).1 ∧ EvSound e (skipTail e A).1 (skipTail e A).2 ∧ Emit A (skipTail e A).1 (skipTail e A).2 := by
  unfold skipTail
  obtain ⟨c1, s1, m1⟩ := recheckPending_emit e A A.pending
  obtain ⟨c2, s2, m2⟩ := s2sCheck_emit e (SlotState.recheckPending e A A.pending []).1
  exact ⟨c1.trans c2, (s1.of_same (c1.trans c2)).append (s2.of_same c2), m1.trans m2⟩

theorem countSkip_tail (e : Epoch) (st : SlotState) (stake : Nat) (fb : Bool) :
    ((SlotState.countSkip e st stake fb).1, (SlotState.countSkip e st stake fb).2.2) =
      skipTail e (if fb then { st with sSf := st.sSf + stake } else { st with sSkip := st.sSkip + stake }) := by
  unfold SlotState.countSkip skipTail
  rfl

theorem countNotar_emit (e : Epoch) (st : SlotState) (h stake : Nat) (st0 : SlotState)
    (h1 : st0.sent = st.sent) (h2 : st0.sentS2S = st.sentS2S) :
    EvSound e (SlotState.countNotar e st h stake).1 (SlotState.countNotar e st h stake).2.2 ∧
    Emit st0 (SlotState.countNotar e st h stake).1 (SlotState.countNotar e st h stake).2.2 := by
  have t := countNotar_tail e st h stake
  have t1 := congrArg Prod.fst t
  have t2 := congrArg Prod.snd t
  dsimp only at t1 t2
  rw [t1, t2]
  exact ⟨(notarTail_emit e _ h).2.1, Emit.of_left (by exact h1) (by exact h2) (notarTail_emit e _ h).2.2⟩

theorem countSkip_emit (e : Epoch) (st : SlotState) (stake : Nat) (fb : Bool) (st0 : SlotState)
    (h1 : st0.sent = st.sent) (h2 : st0.sentS2S = st.sentS2S) :
    EvSound e (SlotState.countSkip e st stake fb).1 (SlotState.countSkip e st stake fb).2.2 ∧
    Emit st0 (SlotState.countSkip e st stake fb).1 (SlotState.countSkip e st stake fb).2.2 := by
  have t := countSkip_tail e st stake fb
  have t1 := congrArg Prod.fst t
  have t2 := congrArg Prod.snd t
  dsimp only at t1 t2
  rw [t1, t2]
  refine ⟨(skipTail_emit e _).2.1, Emit.of_left (a := if fb then { st with sSf := st.sSf + stake } else { st with sSkip := st.sSkip + stake }) ?_ ?_ (skipTail_emit e _).2.2⟩ <;> cases fb <;> assumption

/-- the store-and-count part of `add_vote` -/
def countOf (e : Epoch) (st : SlotState) (v : Vote) : SlotState × List Cert × List Event :=
  match v.kind with
  | .notar => SlotState.countNotar e { st with vNotar := st.vNotar ++ [(v.signer, v.hash)] } v.hash (e.stake v.signer)
  | .nf => SlotState.countNf e { st with vNf := st.vNf ++ [(v.signer, v.hash)] } v.hash (e.stake v.signer)
  | .skip => SlotState.countSkip e { st with vSkip := st.vSkip ++ [v.signer], sNotarOrSkip := st.sNotarOrSkip + e.stake v.signer } (e.stake v.signer) false
  | .sf => SlotState.countSkip e { st with vSf := st.vSf ++ [v.signer] } (e.stake v.signer) true
  | .final => SlotState.countFin e { st with vFin := st.vFin ++ [v.signer] } (e.stake v.signer)

/-- the own-vote re-check at the end of `add_vote` -/
def ownWrap (e : Epoch) (v : Vote) (r : SlotState × List Cert × List Event) : SlotState × List Cert × List Event :=
  if v.signer = e.own then
    ((SlotState.recheckPending e r.1 r.1.pending []).1, r.2.1, r.2.2 ++ (SlotState.recheckPending e r.1 r.1.pending []).2)
  else (r.1, r.2.1, r.2.2)

theorem addVote_eq (e : Epoch) (st : SlotState) (v : Vote) : st.addVote e v = ownWrap e v (countOf e st v) := by
  unfold SlotState.addVote ownWrap countOf
  cases v.kind <;> rfl

theorem countOf_emit (e : Epoch) (st : SlotState) (v : Vote) :
    EvSound e (countOf e st v).1 (countOf e st v).2.2 ∧ Emit st (countOf e st v).1 (countOf e st v).2.2 := by
  unfold countOf
  cases v.kind <;> dsimp only
  · exact countNotar_emit e _ _ _ st rfl rfl
  · exact ⟨EvSound.nil e _, Emit.none_of_sent_eq rfl rfl⟩
  · exact countSkip_emit e _ _ false st rfl rfl
  · exact countSkip_emit e _ _ true st rfl rfl
  · exact ⟨EvSound.nil e _, Emit.none_of_sent_eq rfl rfl⟩

theorem ownWrap_emit (e : Epoch) (st : SlotState) (v : Vote) (r : SlotState × List Cert × List Event)
    (hs : EvSound e r.1 r.2.2) (hm : Emit st r.1 r.2.2) :
    EvSound e (ownWrap e v r).1 (ownWrap e v r).2.2 ∧ Emit st (ownWrap e v r).1 (ownWrap e v r).2.2 ∧
    SameCond r.1 (ownWrap e v r).1 := by
  unfold ownWrap
  split
  · obtain ⟨c1, s1, m1⟩ := recheckPending_emit e r.1 r.1.pending
    exact ⟨(hs.of_same c1).append (s1.of_same c1), hm.trans m1, c1⟩
  · exact ⟨hs, hm, SameCond.refl _⟩

/-- **Soundness and at-most-once for one `add_vote`**: every safe-to-notar / safe-to-skip event it emits
    is justified in the resulting state, was not signalled before and is recorded as signalled. -/
theorem addVote_emit (e : Epoch) (st : SlotState) (v : Vote) :
    EvSound e (st.addVote e v).1 (st.addVote e v).2.2 ∧ Emit st (st.addVote e v).1 (st.addVote e v).2.2 := by
  rw [addVote_eq]
  obtain ⟨h1, h2⟩ := countOf_emit e st v
  obtain ⟨a, b, _⟩ := ownWrap_emit e st v _ h1 h2
  exact ⟨a, b⟩

theorem addCert_same (a : SlotState) (c : Cert) :
    SameCond a (a.addCert c) ∧ (a.addCert c).sent = a.sent ∧ (a.addCert c).sentS2S = a.sentS2S := by
  unfold SlotState.addCert
  cases c.kind <;> dsimp only
  · exact ⟨⟨rfl, rfl, rfl, rfl, rfl, rfl, rfl, rfl⟩, rfl, rfl⟩
  · split <;> exact ⟨⟨rfl, rfl, rfl, rfl, rfl, rfl, rfl, rfl⟩, rfl, rfl⟩
  all_goals exact ⟨⟨rfl, rfl, rfl, rfl, rfl, rfl, rfl, rfl⟩, rfl, rfl⟩

theorem addCerts_same (cs : List Cert) (a : SlotState) :
    SameCond a (cs.foldl SlotState.addCert a) ∧ (cs.foldl SlotState.addCert a).sent = a.sent ∧
    (cs.foldl SlotState.addCert a).sentS2S = a.sentS2S := by
  induction cs generalizing a with
  | nil => exact ⟨SameCond.refl _, rfl, rfl⟩
  | cons c cs ih =>
    obtain ⟨h1, h2, h3⟩ := addCert_same a c
    obtain ⟨g1, g2, g3⟩ := ih (a.addCert c)
    exact ⟨h1.trans g1, g2.trans h2, g3.trans h3⟩

theorem Emit.of_right {a b b' : SlotState} {evs : List Event} (h1 : b'.sent = b.sent) (h2 : b'.sentS2S = b.sentS2S)
    (h : Emit a b evs) : Emit a b' evs :=
  ⟨h.nodup, fun x hx => ⟨(h.fresh x hx).1, by rw [h1]; exact (h.fresh x hx).2⟩, fun x hx => by rw [h1]; exact h.mono x hx,
   h.s2sOne, fun hne => ⟨(h.s2sFresh hne).1, by rw [h2]; exact (h.s2sFresh hne).2⟩, fun hx => by rw [h2]; exact h.s2sMono hx⟩

/-- **Every step**: the safe-to-notar / safe-to-skip events a slot operation emits are justified in the
    state after the step, were not signalled before, and are recorded so that they are never repeated. -/
theorem slotStep_emit (e : Epoch) (st : SlotState) (op : SlotOp) :
    EvSound e (slotStep e st op).1 (slotStep e st op).2.2 ∧ Emit st (slotStep e st op).1 (slotStep e st op).2.2 := by
  cases op with
  | vote v =>
    simp only [slotStep]
    split
    · exact ⟨EvSound.nil e st, Emit.none_of_sent_eq rfl rfl⟩
    · obtain ⟨h1, h2⟩ := addVote_emit e st v
      obtain ⟨g1, g2, g3⟩ := addCerts_same (st.addVote e v).2.1 (st.addVote e v).1
      exact ⟨h1.of_same g1, h2.of_right g2 g3⟩
  | cert c =>
    simp only [slotStep]
    split
    · exact ⟨EvSound.nil e st, Emit.none_of_sent_eq rfl rfl⟩
    · obtain ⟨_, g2, g3⟩ := addCert_same st c
      exact ⟨EvSound.nil e _, Emit.none_of_sent_eq g2.symm g3.symm⟩
  | parentKnown h =>
    simp only [slotStep, SlotState.notifyParentKnown]
    split
    · exact ⟨EvSound.nil e st, Emit.none_of_sent_eq rfl rfl⟩
    · exact ⟨EvSound.nil e _, Emit.none_of_sent_eq rfl rfl⟩
  | parentCertified h =>
    simp only [slotStep]
    split
    · refine ⟨?_, ⟨(List.nodup_nil : ([] : List Nat).Nodup), (by intro x hx; cases hx), fun x hx => hx,
        (Nat.zero_le 1 : ([Event.panic].filter isS2S).length ≤ 1), (fun hne => absurd rfl hne), fun hx => hx⟩⟩
      intro ev hev; simp only [List.mem_singleton] at hev; subst hev; trivial
    · rename_i s evs hn
      unfold SlotState.notifyParentCertified at hn
      split at hn
      · cases hn
      · dsimp only at hn
        split at hn
        · cases hn
          exact ⟨EvSound.nil e _, Emit.none_of_sent_eq rfl rfl⟩
        · rename_i hg
          cases hn
          have hg' : h ∉ st.sent := by simpa [List.contains_eq_mem] using hg
          obtain ⟨s1, m1⟩ := checkS2N_emit e { st with parents := st.parents.map (fun p => if p.1 == h then (p.1, true) else p) } h hg'
          exact ⟨s1.of_same (checkS2N_same e _ h), Emit.of_left (by rfl) (by rfl) m1⟩

/-- **Every history**: over any sequence of slot operations no safe-to-notar is signalled twice for a
    block and safe-to-skip is signalled at most once. -/
theorem slotRun_emit (e : Epoch) (ops : List SlotOp) (st : SlotState) :
    Emit st (slotRun e st ops).1 (slotRun e st ops).2.2 := by
  induction ops generalizing st with
  | nil => exact Emit.none_of_sent_eq rfl rfl
  | cons op ops ih =>
    simp only [slotRun]
    exact (slotStep_emit e st op).2.trans (ih _)

end AgModel.Pool
