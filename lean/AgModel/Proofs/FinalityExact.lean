import AgModel.Proofs.FinalitySpec
/-!
# Exactness of the finality tracker w.r.t. the naive closure of the history (helpers for C08)

`Rel H t` ties the retained state of a tracker to the history `H`; under the safety premise it is preserved
by every operation, no operation panics, and it determines every retained status from `H` alone.
-/
namespace AgModel.Finality

/-! ### small facts about statuses -/

theorem dec_of_finalHash {o : Option Status} {h : Nat} (e : finalHash o = some h) : Dec o := by
  cases o with
  | none => cases e
  | some x =>
    cases x with
    | notarized _ => cases e
    | finalPending => cases e
    | finalized _ => exact dec_some.mpr rfl
    | implFinalized _ => exact dec_some.mpr rfl
    | implSkipped => cases e

theorem dec_skipped : Dec (some Status.implSkipped) := dec_some.mpr rfl

theorem dec_cases {o : Option Status} (d : Dec o) :
    (∃ h, finalHash o = some h) ∨ o = some .implSkipped := by
  obtain ⟨x, rfl, hd⟩ := d
  cases x with
  | notarized h => cases hd
  | finalPending => cases hd
  | finalized h => exact Or.inl ⟨h, rfl⟩
  | implFinalized h => exact Or.inl ⟨h, rfl⟩
  | implSkipped => exact Or.inr rfl

/-- what the status of a retained slot says about the history -/
def SlotOK (H : List Op) (s : Nat) : Option Status → Prop
  | none => ¬ FinH H s ∧ (∀ h, ¬ NotarH H (s, h)) ∧ ∀ h, ¬ FastH H (s, h)
  | some (.notarized h) => NotarH H (s, h) ∧ ¬ FinH H s ∧ ∀ h', ¬ FastH H (s, h')
  | some .finalPending => FinH H s ∧ (∀ h, ¬ NotarH H (s, h)) ∧ ∀ h, ¬ FastH H (s, h)
  | some (.finalized h) => Direct H (s, h)   -- `Finalized` is only ever written for a directly finalized block
  | some (.implFinalized h) => Final H (s, h)
  | some .implSkipped => Skip H s

theorem slotOK_final {H : List Op} {s : Nat} {o : Option Status} {h : Nat}
    (ok : SlotOK H s o) (e : finalHash o = some h) : Final H (s, h) := by
  cases o with
  | none => cases e
  | some x =>
    cases x with
    | notarized _ => cases e
    | finalPending => cases e
    | finalized h' => cases e; exact .direct ok
    | implFinalized h' => cases e; exact ok
    | implSkipped => cases e

/-- a `Finalized` status is justified by a *direct* finalization -/
theorem slotOK_direct {H : List Op} {s : Nat} {o : Option Status} {h : Nat}
    (ok : SlotOK H s o) (e : o = some (.finalized h)) : Direct H (s, h) := by
  subst e; exact ok

theorem slotOK_skip {H : List Op} {s : Nat} {o : Option Status}
    (ok : SlotOK H s o) (e : o = some .implSkipped) : Skip H s := by
  subst e; exact ok

/-- a decided status stays justified when the history grows -/
theorem slotOK_mono_dec {H H' : List Op} (hs : Sub H H') {s : Nat} {o : Option Status}
    (ok : SlotOK H s o) (d : Dec o) : SlotOK H' s o := by
  obtain ⟨x, rfl, hd⟩ := d
  cases x with
  | notarized h => cases hd
  | finalPending => cases hd
  | finalized h => exact Direct.mono hs ok
  | implFinalized h => exact Final.mono hs ok
  | implSkipped => exact Skip.mono hs ok

/-- the slot an operation carries a certificate for -/
def Op.certSlot : Op → Option Nat
  | .parent _ _ => none
  | .fastFinal b => some b.1
  | .notar b => some b.1
  | .final s => some s

/-- an operation that carries no certificate for slot `s` leaves its status justified -/
theorem slotOK_snoc_other {H : List Op} {op : Op} {s : Nat} {o : Option Status}
    (ok : SlotOK H s o) (hne : op.certSlot ≠ some s) : SlotOK (H ++ [op]) s o := by
  have hN : ∀ h, NotarH (H ++ [op]) (s, h) → NotarH H (s, h) := by
    intro h hn
    rcases notarH_snoc.mp hn with a | a
    · exact a
    · subst a; exact absurd rfl hne
  have hF : FinH (H ++ [op]) s → FinH H s := by
    intro hn
    rcases finH_snoc.mp hn with a | a
    · exact a
    · subst a; exact absurd rfl hne
  have hFF : ∀ h, FastH (H ++ [op]) (s, h) → FastH H (s, h) := by
    intro h hn
    rcases fastH_snoc.mp hn with a | a
    · exact a
    · subst a; exact absurd rfl hne
  have hs := sub_append_left H op
  cases o with
  | none => exact ⟨fun a => ok.1 (hF a), fun h a => ok.2.1 h (hN h a), fun h a => ok.2.2 h (hFF h a)⟩
  | some x =>
    cases x with
    | notarized h => exact ⟨ok.1.mono hs, fun a => ok.2.1 (hF a), fun h a => ok.2.2 h (hFF h a)⟩
    | finalPending => exact ⟨ok.1.mono hs, fun h a => ok.2.1 h (hN h a), fun h a => ok.2.2 h (hFF h a)⟩
    | finalized h => exact Direct.mono hs ok
    | implFinalized h => exact Final.mono hs ok
    | implSkipped => exact Skip.mono hs ok

/-! ### closedness of the retained state under known links -/

/-- what a known link `c → p` from a finalized block `c` obliges: the slots between are implicitly skipped and
    `p` is finalized (as far as retained) -/
def Oblig (t : Tracker) (c p : Nat × Nat) : Prop :=
  (∀ s, p.1 < s → s < c.1 → t.first ≤ s → t.status s = some .implSkipped) ∧
  (t.first ≤ p.1 → finalHash (t.status p.1) = some p.2)

/-- every retained link from a finalized block, except the pending ones, has been followed -/
def Closed (t : Tracker) (pend : Nat × Nat → Prop) : Prop :=
  ∀ c p, t.parents c = some p → t.first ≤ c.1 → finalHash (t.status c.1) = some c.2 → ¬ pend c → Oblig t c p

theorem oblig_transfer {t t' : Tracker} {c p : Nat × Nat} (hf : t'.first = t.first)
    (hsame : ∀ x, Dec (t.status x) → t'.status x = t.status x) (o : Oblig t c p) : Oblig t' c p := by
  constructor
  · intro s h1 h2 h3
    rw [hf] at h3
    have := o.1 s h1 h2 h3
    rw [hsame s (this ▸ dec_skipped)]; exact this
  · intro h3
    rw [hf] at h3
    have := o.2 h3
    rw [hsame _ (dec_of_finalHash this)]; exact this

/-- The relation between the retained state and the history. -/
structure Rel (H : List Op) (t : Tracker) : Prop where
  slot : ∀ s, t.first ≤ s → SlotOK H s (t.status s)
  par : ∀ c p, t.first ≤ c.1 → (t.parents c = some p ↔ LinkH H c p)
  closed : Closed t (fun _ => False)
  wdec : 1 ≤ t.first → Dec (t.status t.first)

/-- completeness: every finalized block of the history at or above the watermark is finalized in the state -/
theorem Rel.final_complete {G H : List Op} {t : Tracker} (sf : Safe G) (hs : Sub H G) (r : Rel H t)
    {b : Nat × Nat} (hb : Final H b) : t.first ≤ b.1 → finalHash (t.status b.1) = some b.2 := by
  induction hb with
  | @direct b d =>
    intro hw
    have ok := r.slot b.1 hw
    cases hst : t.status b.1 with
    | none =>
      rw [hst] at ok
      rcases d with d | d
      · exact absurd d (ok.2.2 b.2)
      · exact absurd d.1 ok.1
    | some x =>
      rw [hst] at ok
      cases x with
      | notarized h =>
        rcases d with d | d
        · exact absurd d (ok.2.2 b.2)
        · exact absurd d.1 ok.2.1
      | finalPending =>
        rcases d with d | d
        · exact absurd d (ok.2.2 b.2)
        · exact absurd d.2 (ok.2.1 b.2)
      | finalized h =>
        have := sf.final_fun (b.1, h) b (Final.mono hs (.direct ok)) (Final.mono hs (.direct d)) rfl
        rw [← this]; rfl
      | implFinalized h =>
        have := sf.final_fun (b.1, h) b (Final.mono hs ok) (Final.mono hs (.direct d)) rfl
        rw [← this]; rfl
      | implSkipped =>
        exact absurd (Skip.mono hs ok) (sf.final_not_skip (Final.mono hs (.direct d)))
  | @step c p hc hl ih =>
    intro hw
    have hlt := sf.link_lt c p (hl.mono hs)
    have hcw : t.first ≤ c.1 := by omega
    have e := ih hcw
    exact (r.closed c p ((r.par c p hcw).mpr hl) hcw e (fun x => x)).2 hw

theorem Rel.skip_complete {G H : List Op} {t : Tracker} (sf : Safe G) (hs : Sub H G) (r : Rel H t)
    {s : Nat} (h : Skip H s) (hw : t.first ≤ s) : t.status s = some .implSkipped := by
  obtain ⟨c, p, hc, hl, h1, h2⟩ := h
  have hcw : t.first ≤ c.1 := by omega
  have e := r.final_complete sf hs hc hcw
  exact (r.closed c p ((r.par c p hcw).mpr hl) hcw e (fun x => x)).1 s h1 h2 hw

/-! ### the implicit-skip loop on undecided slots -/

theorem skipLoop_all {st : Nat → Option Status} {acc : List Nat} {n lo : Nat}
    (h : ∀ s, lo ≤ s → s < lo + n → st s = none ∨ ∃ h, st s = some (.notarized h)) :
    ∃ st', skipLoop st acc n lo = .cont st' (acc ++ List.range' lo n) ∧
      ∀ x, st' x = if lo ≤ x ∧ x < lo + n then some .implSkipped else st x := by
  induction n generalizing st acc lo with
  | zero =>
    refine ⟨st, by simp [skipLoop], ?_⟩
    intro x
    have : ¬ (lo ≤ x ∧ x < lo + 0) := by omega
    simp only [this, if_false]
  | succ n ih =>
    have hnext : ∀ s, lo + 1 ≤ s → s < lo + 1 + n →
        setSt st lo .implSkipped s = none ∨ ∃ h, setSt st lo .implSkipped s = some (.notarized h) := by
      intro s h1 h2
      have : s ≠ lo := by omega
      simp only [setSt, this, if_false]
      exact h s (by omega) (by omega)
    obtain ⟨st', e, hst'⟩ := ih (st := setSt st lo .implSkipped) (acc := acc ++ [lo]) hnext
    refine ⟨st', ?_, ?_⟩
    · have hl : acc ++ [lo] ++ List.range' (lo + 1) n = acc ++ List.range' lo (n + 1) := by
        simp [List.range'_succ]
      rw [← hl, ← e]
      rcases h lo (Nat.le_refl _) (by omega) with h0 | ⟨hh, h0⟩
      · simp only [skipLoop, h0]
      · simp only [skipLoop, h0]
    · intro x
      rw [hst' x]
      by_cases hx : x = lo
      · subst hx
        have a : ¬ (x + 1 ≤ x ∧ x < x + 1 + n) := by omega
        have b : x ≤ x ∧ x < x + (n + 1) := by omega
        simp only [a, b, if_false, setSt, if_true, and_self]
      · by_cases hr : lo + 1 ≤ x ∧ x < lo + 1 + n
        · have b : lo ≤ x ∧ x < lo + (n + 1) := by omega
          simp only [hr, b, and_self, if_true]
        · have b : ¬ (lo ≤ x ∧ x < lo + (n + 1)) := by omega
          simp only [hr, b, if_false, setSt, hx]

end AgModel.Finality
