import AgModel.Proofs.PoolSignedStep
/-!
# C01 cluster refinement, node part: the composed node only ever shows justified events to its Votor

`NInv S e par n` for a node `n = Pool ∘ queue ∘ Votor` (`Model/Node.lean`), relative to a signature log `S`: the pool
satisfies `SgInv`, every queued pool event is justified (`GoodP`), and every event in Votor's log is justified (`GoodV`):
a certificate event comes from a backed certificate, safe-to-notar / safe-to-skip from a slot state witnessing the stake
clause over signed votes (and a certified registered parent), a block event agrees with the global parent function.
`nodeStep_ninv`: kept by every node operation that delivers only signed votes, backed certificates and blocks that agree
with `par` (`NodeOk`). `S` is a parameter here; the cluster (Spec/Cluster.lean) instantiates it with what the correct
nodes' Votors have broadcast so far, and uses monotonicity (`NInv.mono`) when that grows.
-/
namespace AgModel.NodePanic
open AgModel AgModel.Node AgModel.Pool

/-- what is known about an event delivered to Votor -/
def GoodV (S : SigLog) (e : Epoch) (par : Nat × Nat → Nat × Nat) : Votor.Event → Prop
  | .cert k s h => ∃ c, certKind c.kind = k ∧ c.slot = s ∧ c.hash = h ∧ CertBacked S e c
  | .safeToNotar s h => GoodP S e par (.s2n s h)
  | .safeToSkip s => GoodP S e par (.s2s s)
  | .block s b => par (s, b.hash) = (b.pslot, b.phash)
  | _ => True

theorem GoodV.mono {S S' : SigLog} {e : Epoch} {par : Nat × Nat → Nat × Nat} {ve : Votor.Event} (h : GoodV S e par ve)
    (hl : S.le S') : GoodV S' e par ve := by
  cases ve with
  | cert k s hh => obtain ⟨c, a, b, d, f⟩ := h; exact ⟨c, a, b, d, f.mono hl⟩
  | safeToNotar s hh => exact GoodP.mono (par := par) (ev := .s2n s hh) h hl
  | safeToSkip s => exact GoodP.mono (par := par) (ev := .s2s s) h hl
  | block s b => exact h
  | _ => trivial

theorem goodV_of_goodP {S : SigLog} {e : Epoch} {par : Nat × Nat → Nat × Nat} {qe : Pool.Event} {ve : Votor.Event}
    (hg : GoodP S e par qe) (hv : toVotor qe = some ve) : GoodV S e par ve := by
  cases qe with
  | cert c => simp only [toVotor, Option.some.injEq] at hv; subst hv; exact ⟨c, rfl, rfl, rfl, hg⟩
  | s2n s h => simp only [toVotor, Option.some.injEq] at hv; subst hv; exact hg
  | s2s s => simp only [toVotor, Option.some.injEq] at hv; subst hv; exact hg
  | parentReady s ps ph => simp only [toVotor, Option.some.injEq] at hv; subst hv; trivial
  | standstill s cs vs => simp only [toVotor, Option.some.injEq] at hv; subst hv; trivial
  | repair a b => simp [toVotor] at hv
  | panic => simp [toVotor] at hv

structure NInv (S : SigLog) (e : Epoch) (par : Nat × Nat → Nat × Nat) (n : Node) : Prop where
  pool : SgInv S e par n.pool
  queue : ∀ ev ∈ n.queue, GoodP S e par ev
  log : ∀ ve, Votor.Item.ev ve ∈ n.votor.log → GoodV S e par ve

theorem NInv.init (S : SigLog) (e : Epoch) (par : Nat × Nat → Nat × Nat) : NInv S e par ({ pool := { epoch := e } } : Node) :=
  ⟨SgInv.init S e par, (by intro ev h; cases h), (by
    intro ve h
    simp only [Votor.init, List.mem_singleton] at h
    cases h)⟩

theorem NInv.mono {S S' : SigLog} {e : Epoch} {par : Nat × Nat → Nat × Nat} {n : Node} (h : NInv S e par n) (hl : S.le S') :
    NInv S' e par n :=
  ⟨h.pool.mono hl, fun ev hev => (h.queue ev hev).mono hl, fun ve hve => (h.log ve hve).mono hl⟩

/-- the premise on a node operation -/
def NodeOk (S : SigLog) (e : Epoch) (par : Nat × Nat → Nat × Nat) : NodeOp → Prop
  | .recvVote v => S.holds v
  | .recvCert c => CertBacked S e c
  | .poolBlock b p => par b = p
  | .votorBlock s b => par (s, b.hash) = (b.pslot, b.phash)
  | _ => True

theorem enqueue_ninv {S : SigLog} {e : Epoch} {par : Nat × Nat → Nat × Nat} (n : Node) (evs : List Pool.Event)
    (hg : ∀ ev ∈ evs, GoodP S e par ev) (i : NInv S e par n) : NInv S e par (enqueue n evs) := by
  unfold enqueue
  split
  · exact ⟨i.pool, i.queue, i.log⟩
  · refine ⟨i.pool, ?_, i.log⟩
    intro ev hev
    rcases List.mem_append.mp hev with h | h
    · exact i.queue ev h
    · exact hg ev (List.mem_filter.mp h).1

theorem poolOp_ninv {S : SigLog} {e : Epoch} {par : Nat × Nat → Nat × Nat} (hpos : 0 < e.total) (n : Node) (op : PoolOp)
    (hop : OpOk S e par op) (i : NInv S e par n) :
    NInv S e par (enqueue { n with pool := (poolStep n.pool op).1 } (poolStep n.pool op).2) := by
  obtain ⟨h1, h2⟩ := poolStep_sginv hpos n.pool op i.pool hop
  exact enqueue_ninv _ _ h2 ⟨h1, i.queue, i.log⟩

theorem votorStep_ninv {S : SigLog} {e : Epoch} {par : Nat × Nat → Nat × Nat} (n : Node) (ve : Votor.Event)
    (hg : GoodV S e par ve) (i : NInv S e par n) : NInv S e par (votorStep n ve).1 := by
  unfold votorStep
  split
  · exact i
  · refine ⟨i.pool, i.queue, ?_⟩
    intro x hx
    rcases Votor.step_log n.votor ve with hs | ⟨xs, hl, hxs⟩
    · have hx' : Votor.Item.ev x ∈ (Votor.step n.votor ve).log := hx
      rw [hs] at hx'; exact i.log x hx'
    · have hx' : Votor.Item.ev x ∈ (Votor.step n.votor ve).log := hx
      rw [hl] at hx'
      rcases List.mem_append.mp hx' with h | h
      · obtain ⟨o, ho⟩ := hxs _ h; cases ho
      · rcases List.mem_cons.mp h with h | h
        · cases h; exact hg
        · exact i.log x h

/-- **One step of the node keeps the invariant.** -/
theorem nodeStep_ninv {S : SigLog} {e : Epoch} {par : Nat × Nat → Nat × Nat} (hpos : 0 < e.total) (n : Node) (op : NodeOp)
    (i : NInv S e par n) (hok : NodeOk S e par op) : NInv S e par (nodeStep n op) := by
  cases op with
  | recvVote v =>
    simp only [nodeStep, recvVote]
    split
    · exact i
    · exact poolOp_ninv hpos n (.vote v) hok i
  | recvCert c =>
    simp only [nodeStep, recvCert]
    split
    · exact i
    · exact poolOp_ninv hpos n (.cert c) hok i
  | poolBlock b p =>
    simp only [nodeStep, poolBlock]
    split
    · exact i
    · exact poolOp_ninv hpos n (.block b p) hok i
  | pump =>
    simp only [nodeStep, pump]
    split
    · exact i
    · rename_i qe rest hq
      have hrest : ∀ ev ∈ rest, GoodP S e par ev := fun ev hev => i.queue ev (by rw [hq]; exact List.mem_cons_of_mem _ hev)
      have i' : NInv S e par { n with queue := rest } := ⟨i.pool, hrest, i.log⟩
      split
      · rename_i ve hve
        exact votorStep_ninv { n with queue := rest } ve (goodV_of_goodP (i.queue qe (by rw [hq]; simp)) hve) i'
      · exact i'
  | votorBlock s b => exact votorStep_ninv n _ hok i
  | firstShred s => exact votorStep_ninv n _ trivial i
  | invalidBlock s => exact votorStep_ninv n _ trivial i
  | timeout s => exact votorStep_ninv n _ trivial i
  | timeoutCrashed s => exact votorStep_ninv n _ trivial i

end AgModel.NodePanic
