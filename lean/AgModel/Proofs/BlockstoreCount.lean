import AgModel.Proofs.BlockstoreHonest
/-! Delivered sets and counting, for the exact (completeness) invariant of the blockstore model
    (core Lean only). -/
namespace AgModel.Blockstore
open AgModel.Merkle HBlock

/-- a set of delivered shreds: `D i j` = shred `j` of slice `i` has been delivered -/
abbrev DSet := Nat → Nat → Bool

/-- `D ∪ {s}` -/
def dadd (D : DSet) (s : Shred) : DSet := fun i j => D i j || (i == s.slice && j == s.idx)

/-- number of distinct shreds of slice `i` delivered -/
def cnt (D : DSet) (i : Nat) : Nat := (List.range TOTAL_SHREDS).countP (D i)

/-- every slice of the block has at least `DATA_SHREDS` distinct shreds delivered -/
def Full (B : HBlock) (D : DSet) : Prop := ∀ k, k < B.n → DATA_SHREDS ≤ cnt D k

/-- nothing of the block has been delivered -/
def Empty (B : HBlock) (D : DSet) : Prop := ∀ k, k < B.n → cnt D k = 0

instance (B : HBlock) (D : DSet) : Decidable (Full B D) := by unfold Full; infer_instance
instance (B : HBlock) (D : DSet) : Decidable (Empty B D) := by unfold Empty; infer_instance

theorem data_shreds_gt_one : 1 < DATA_SHREDS := by decide
theorem data_shreds_pos : 0 < DATA_SHREDS := by decide

theorem countP_range_set (p : Nat → Bool) (k n : Nat) (hk : k < n) (hp : p k = false) :
    (List.range n).countP (fun j => p j || j == k) = (List.range n).countP p + 1 := by
  induction n with
  | zero => omega
  | succ n ih =>
    rw [List.range_succ, List.countP_append, List.countP_append]
    by_cases hkn : k < n
    · rw [ih hkn]
      have : (n == k) = false := by simp; omega
      simp [this]; omega
    · have hkn' : k = n := by omega
      subst hkn'
      have h1 : (List.range k).countP (fun j => p j || j == k) = (List.range k).countP p := by
        apply List.countP_congr
        intro j hj
        have : j < k := List.mem_range.mp hj
        have : (j == k) = false := by simp; omega
        simp [this]
      rw [h1]
      simp [hp]

theorem cnt_add_other (D : DSet) (s : Shred) (i : Nat) (h : i ≠ s.slice) : cnt (dadd D s) i = cnt D i := by
  unfold cnt
  have : dadd D s i = D i := by
    funext j; simp [dadd, h]
  rw [this]

theorem dadd_same (D : DSet) (s : Shred) (h : D s.slice s.idx = true) : dadd D s = D := by
  funext i j
  unfold dadd
  by_cases hi : i = s.slice
  · by_cases hj : j = s.idx
    · subst hi; subst hj; simp [h]
    · simp [hj]
  · simp [hi]

theorem cnt_add_new (D : DSet) (s : Shred) (h : D s.slice s.idx = false) (hj : s.idx < TOTAL_SHREDS) :
    cnt (dadd D s) s.slice = cnt D s.slice + 1 := by
  unfold cnt
  have : dadd D s s.slice = fun j => D s.slice j || j == s.idx := by
    funext j; simp [dadd]
  rw [this]
  exact countP_range_set (D s.slice) s.idx TOTAL_SHREDS hj h

theorem cnt_mono (D : DSet) (s : Shred) (i : Nat) : cnt D i ≤ cnt (dadd D s) i := by
  unfold cnt
  apply List.countP_mono_left
  intro j _ hj
  simp [dadd, hj]

theorem cnt_pos_of (D : DSet) (i j : Nat) (hj : j < TOTAL_SHREDS) (h : D i j = true) : 0 < cnt D i := by
  unfold cnt
  rw [List.countP_pos_iff]
  exact ⟨j, List.mem_range.mpr hj, h⟩

theorem cnt_zero (D : DSet) (i j : Nat) (hj : j < TOTAL_SHREDS) (h : cnt D i = 0) : D i j = false := by
  cases hd : D i j with
  | false => rfl
  | true => have := cnt_pos_of D i j hj hd; omega

theorem cnt_add_pos (D : DSet) (s : Shred) (hj : s.idx < TOTAL_SHREDS) : 0 < cnt (dadd D s) s.slice :=
  cnt_pos_of _ _ s.idx hj (by simp [dadd])

theorem full_mono (B : HBlock) (D : DSet) (s : Shred) (h : Full B D) : Full B (dadd D s) := by
  intro k hk
  have := h k hk
  have := cnt_mono D s k
  omega

/-- a shred for a slice that is already decodable does not change `Full` -/
theorem full_add_of_ge (B : HBlock) (D : DSet) (s : Shred) (h : DATA_SHREDS ≤ cnt D s.slice) :
    Full B (dadd D s) ↔ Full B D := by
  constructor
  · intro hf k hk
    by_cases hks : k = s.slice
    · subst hks; exact h
    · rw [← cnt_add_other D s k hks]; exact hf k hk
  · exact full_mono B D s

theorem not_full_of_lt (B : HBlock) (D : DSet) (i : Nat) (hi : i < B.n) (h : cnt D i < DATA_SHREDS) : ¬ Full B D := by
  intro hf
  have := hf i hi
  omega

theorem not_empty_add (B : HBlock) (D : DSet) (s : Shred) (hi : s.slice < B.n) (hj : s.idx < TOTAL_SHREDS) :
    ¬ Empty B (dadd D s) := by
  intro he
  have := he s.slice hi
  have := cnt_add_pos D s hj
  omega

/-- after the very first shred nothing is decodable yet -/
theorem not_full_add_of_empty (B : HBlock) (D : DSet) (s : Shred) (hi : s.slice < B.n) (hj : s.idx < TOTAL_SHREDS)
    (he : Empty B D) : ¬ Full B (dadd D s) := by
  apply not_full_of_lt B _ s.slice hi
  have h0 := he s.slice hi
  rw [cnt_add_new D s (cnt_zero D _ _ hj h0) hj, h0]
  exact data_shreds_gt_one

theorem length_filterMap_range {α : Type} (f : Nat → Option α) (n : Nat) :
    ((List.range n).filterMap f).length = (List.range n).countP (fun j => (f j).isSome) := by
  induction n with
  | zero => rfl
  | succ n ih =>
    rw [List.range_succ, List.filterMap_append, List.length_append, List.countP_append, ih]
    cases h : f n <;> simp [h]

theorem mapLen_eq_of_all {α : Type} (f : Nat → Option α) (n : Nat) (h : ∀ i, i < n → (f i).isSome) :
    mapLen n f = n := by
  unfold mapLen
  have : (List.range n).countP (fun i => (f i).isSome) = (List.range n).length := by
    rw [List.countP_eq_length]
    intro i hi
    exact h i (List.mem_range.mp hi)
  simpa using this

theorem mapEmpty_iff {α : Type} (cap : Nat) (f : Nat → Option α) :
    mapEmpty cap f = true ↔ ∀ i, i < cap → f i = none := by
  unfold mapEmpty
  rw [List.all_eq_true]
  constructor
  · intro h i hi
    have := h i (List.mem_range.mpr hi)
    simpa using this
  · intro h i hi
    rw [h i (List.mem_range.mp hi)]; rfl

theorem upd_same {α : Type} (f : Nat → Option α) (k : Nat) (v : Option α) : upd f k v k = v := by
  simp [upd]

theorem upd_other {α : Type} (f : Nat → Option α) (k : Nat) (v : Option α) (i : Nat) (h : i ≠ k) :
    upd f k v i = f i := by
  simp [upd, h]

end AgModel.Blockstore
