import AgModel.Proofs.BlockstoreExactStep
/-! Whole deliveries on the exact invariant: events and final state as functions of the delivered
    set (core Lean only). -/
namespace AgModel.Blockstore
open AgModel.Merkle HBlock

/-- the set of (slice, index) pairs occurring in a delivery -/
def delivered (ss : List Shred) : DSet := fun i j => ss.any (fun s => i == s.slice && j == s.idx)

/-- number of distinct shreds of slice `i` in the delivery `ss` -/
def distinctShreds (ss : List Shred) (i : Nat) : Nat := cnt (delivered ss) i

/-- every slice of `B` (including the last-marked one) has at least `DATA_SHREDS` distinct shreds in `ss` -/
def Enough (B : HBlock) (ss : List Shred) : Prop := ∀ i, i < B.n → DATA_SHREDS ≤ distinctShreds ss i

instance (B : HBlock) (ss : List Shred) : Decidable (Enough B ss) := by unfold Enough; infer_instance

theorem enough_iff_full (B : HBlock) (ss : List Shred) : Enough B ss ↔ Full B (delivered ss) := Iff.rfl

def daddAll (D : DSet) (ss : List Shred) : DSet := ss.foldl dadd D

theorem daddAll_eq (D : DSet) (ss : List Shred) : daddAll D ss = fun i j => D i j || delivered ss i j := by
  induction ss generalizing D with
  | nil => funext i j; simp [daddAll, delivered]
  | cons s rest ih =>
    have : daddAll D (s :: rest) = daddAll (dadd D s) rest := rfl
    rw [this, ih]
    funext i j
    simp [dadd, delivered, Bool.or_assoc]

def dnone : DSet := fun _ _ => false

theorem daddAll_none (ss : List Shred) : daddAll dnone ss = delivered ss := by
  rw [daddAll_eq]; funext i j; simp [dnone]

theorem cnt_dnone (i : Nat) : cnt dnone i = 0 := by
  unfold cnt dnone; simp

theorem empty_dnone (B : HBlock) : Empty B dnone := fun k _ => cnt_dnone k

theorem delivered_append_one (pre : List Shred) (s : Shred) : delivered (pre ++ [s]) = dadd (delivered pre) s := by
  funext i j
  simp [delivered, dadd]

theorem delivered_congr (ss₁ ss₂ : List Shred) (h : ∀ s, s ∈ ss₁ ↔ s ∈ ss₂) : delivered ss₁ = delivered ss₂ := by
  funext i j
  unfold delivered
  rw [Bool.eq_iff_iff, List.any_eq_true, List.any_eq_true]
  constructor
  · rintro ⟨s, hs, hp⟩; exact ⟨s, (h s).mp hs, hp⟩
  · rintro ⟨s, hs, hp⟩; exact ⟨s, (h s).mpr hs, hp⟩

/-- a non-empty delivery of the leader's shreds delivered something -/
theorem not_empty_delivered (B : HBlock) (ss : List Shred) (hss : ∀ s ∈ ss, B.Honest s) (hne : ss ≠ []) :
    ¬ Empty B (delivered ss) := by
  cases ss with
  | nil => exact absurd rfl hne
  | cons s rest =>
    have hs := hss s List.mem_cons_self
    intro he
    have h0 := he s.slice hs.1
    have : delivered (s :: rest) s.slice s.idx = true := by simp [delivered]
    have := cnt_pos_of _ _ _ hs.2.1 this
    omega

/-! ### the canonical state -/

/-- the dissemination `BlockData` of a node that was delivered exactly the set `D` of the leader's shreds -/
def canon (B : HBlock) (cap : Nat) (D : DSet) : BlockData :=
  { cap := cap, slot := B.slot,
    completed := if Full B D then some B.block else none,
    shreds := fun i => if i < B.n ∧ 0 < cnt D i then some (arrOf B D i) else none,
    slices := fun i => if ¬ Full B D ∧ i < B.n ∧ DATA_SHREDS ≤ cnt D i then some (B.rslice i) else none,
    lastSlice := if 0 < cnt D (B.n - 1) then some (B.n - 1) else none,
    tree := if Full B D then some B.roots else none,
    cache := fun i => if i < B.n ∧ 0 < cnt D i then some (B.commit i) else none }

theorem exact_canon (B : HBlock) (cap : Nat) (D : DSet) (b : BlockData) (hg : Exact B cap D D D b) :
    b = canon B cap D := by
  have h1 := hg.hcap
  have h2 := hg.hslot
  have h3 := funext hg.cache
  have h4 := hg.last
  have h5 := funext hg.shreds
  have h6 := funext hg.slices
  have h7 := hg.completed
  have h8 := hg.tree
  cases b
  simp only at h1 h2 h3 h4 h5 h6 h7 h8
  subst h1 h2 h3 h4 h5 h6 h7 h8
  rfl

/-- the state a completed block ends in does not depend on which shreds were delivered -/
def canonFull (B : HBlock) (cap : Nat) : BlockData :=
  { cap := cap, slot := B.slot, completed := some B.block,
    shreds := fun i => if i < B.n then some (fun j => if j < TOTAL_SHREDS then some (B.shred i j) else none) else none,
    slices := fun _ => none,
    lastSlice := some (B.n - 1),
    tree := some B.roots,
    cache := fun i => if i < B.n then some (B.commit i) else none }

theorem canon_full (B : HBlock) (cap : Nat) (D : DSet) (hn : 0 < B.n) (hf : Full B D) : canon B cap D = canonFull B cap := by
  have hdp := data_shreds_pos
  have hpos : ∀ i, i < B.n → 0 < cnt D i := fun i hi => by have := hf i hi; omega
  unfold canon canonFull
  congr 1
  · rw [if_pos hf]
  · funext i
    by_cases hi : i < B.n
    · rw [if_pos ⟨hi, hpos i hi⟩, if_pos hi, arrOf_of_ge B D i (hf i hi)]
    · rw [if_neg (fun h => hi h.1), if_neg hi]
  · funext i
    rw [if_neg (fun h => h.1 hf)]
  · rw [if_pos (hpos (B.n - 1) (by omega))]
  · rw [if_pos hf]
  · funext i
    by_cases hi : i < B.n
    · rw [if_pos ⟨hi, hpos i hi⟩, if_pos hi]
    · rw [if_neg (fun h => hi h.1), if_neg hi]

/-! ### one dissemination step, and whole deliveries -/

theorem isBadErr_resOf (B : HBlock) (D : DSet) (s : Shred) : isBadErr (resOf B D s) = false := by
  unfold resOf
  split
  · rfl
  · split
    · rfl
    · split <;> rfl

/-- the events of one honest step -/
def stepEvents (B : HBlock) (D : DSet) (s : Shred) : List Event :=
  if Empty B D then [.firstShred]
  else if ¬ Full B D ∧ Full B (dadd D s) then [.block B.block.info] else []

theorem evOf_resOf (B : HBlock) (D : DSet) (s : Shred) (hs : B.Honest s) :
    evOf (resOf B D s) = stepEvents B D s := by
  have hdp := data_shreds_pos
  unfold resOf stepEvents
  by_cases hdup : D s.slice s.idx = true ∨ DATA_SHREDS ≤ cnt D s.slice
  · rw [if_pos hdup]
    have hne : ¬ Empty B D := by
      intro he
      have h0 := he s.slice hs.1
      rcases hdup with h | h
      · have := cnt_pos_of D _ _ hs.2.1 h; omega
      · omega
    rw [if_neg hne]
    have : ¬ (¬ Full B D ∧ Full B (dadd D s)) := by
      rintro ⟨h1, h2⟩
      rcases hdup with h | h
      · rw [dadd_same D s h] at h2; exact h1 h2
      · exact h1 ((full_add_of_ge B D s h).mp h2)
    rw [if_neg this]; rfl
  · rw [if_neg hdup]
    by_cases he : Empty B D
    · rw [if_pos he, if_pos he]; rfl
    · rw [if_neg he, if_neg he]
      have hnf : ¬ Full B D := by
        apply not_full_of_lt B D s.slice hs.1
        have : ¬ DATA_SHREDS ≤ cnt D s.slice := fun h => hdup (Or.inr h)
        omega
      by_cases hf : Full B (dadd D s)
      · rw [if_pos hf, if_pos ⟨hnf, hf⟩]; rfl
      · rw [if_neg hf, if_neg (fun h => hf h.2)]; rfl

theorem addDissem_exact (B : HBlock) (env : Nat → Content) (cap : Nat) (hwf : B.WF env cap)
    (D : DSet) (sd : SlotData) (s : Shred) (hm : sd.misbehaved = false) (hg : Exact B cap D D D sd.dis)
    (hs : B.Honest s) :
    (addDissem env sd s).1.misbehaved = false ∧ (addDissem env sd s).1.rep = sd.rep ∧
      Exact B cap (dadd D s) (dadd D s) (dadd D s) (addDissem env sd s).1.dis ∧
      (addDissem env sd s).2.1 = resOf B D s ∧ (addDissem env sd s).2.2 = stepEvents B D s := by
  have h := addShred_exact B env cap hwf D sd.dis s hg hs
  unfold addDissem
  simp only [hm, Bool.false_eq_true, if_false, addShred_of_ty env sd.dis s hs.ty]
  cases hr : addShredCore env sd.dis s with
  | mk b r =>
    rw [hr] at h
    simp only at h ⊢
    obtain ⟨hx, rfl⟩ := h
    simp only [isBadErr_resOf, Bool.false_eq_true, if_false]
    exact ⟨by trivial, by trivial, hx, by trivial, evOf_resOf B D s hs⟩

theorem runDissem_append (env : Nat → Content) (sd : SlotData) (xs ys : List Shred) :
    runDissem env sd (xs ++ ys) =
      ((runDissem env (runDissem env sd xs).1 ys).1, (runDissem env sd xs).2 ++ (runDissem env (runDissem env sd xs).1 ys).2) := by
  induction xs generalizing sd with
  | nil => simp [runDissem]
  | cons x rest ih =>
    simp only [List.cons_append, runDissem]
    rw [ih]
    simp [List.append_assoc]

/-- **Exact run.** State and events of a whole delivery of the leader's shreds, from the state of the
    delivered set `D`. -/
theorem runDissem_exact (B : HBlock) (env : Nat → Content) (cap : Nat) (hwf : B.WF env cap)
    (ss : List Shred) (hss : ∀ s ∈ ss, B.Honest s)
    (D : DSet) (sd : SlotData) (hm : sd.misbehaved = false) (hg : Exact B cap D D D sd.dis) :
    (runDissem env sd ss).1.misbehaved = false ∧ (runDissem env sd ss).1.rep = sd.rep ∧
      Exact B cap (daddAll D ss) (daddAll D ss) (daddAll D ss) (runDissem env sd ss).1.dis ∧
      (runDissem env sd ss).2 =
        (if Empty B D ∧ ss ≠ [] then [.firstShred] else []) ++
        (if ¬ Full B D ∧ Full B (daddAll D ss) then [.block B.block.info] else []) := by
  induction ss generalizing D sd with
  | nil =>
    refine ⟨hm, rfl, hg, ?_⟩
    have : ¬ (¬ Full B D ∧ Full B (daddAll D [])) := fun h => h.1 h.2
    simp [runDissem, this]
  | cons s rest ih =>
    have hs := hss s List.mem_cons_self
    obtain ⟨h1, h2, h3, _, h5⟩ := addDissem_exact B env cap hwf D sd s hm hg hs
    obtain ⟨i1, i2, i3, i4⟩ := ih (fun x hx => hss x (List.mem_cons_of_mem _ hx)) (dadd D s) (addDissem env sd s).1 h1 h3
    have hda : daddAll D (s :: rest) = daddAll (dadd D s) rest := rfl
    simp only [runDissem]
    refine ⟨i1, by rw [i2, h2], by rw [hda]; exact i3, ?_⟩
    rw [i4, h5, hda]
    have hne : ¬ Empty B (dadd D s) := not_empty_add B D s hs.1 hs.2.1
    have hmono : ∀ (E : DSet) (l : List Shred), Full B E → Full B (daddAll E l) := by
      intro E l
      induction l generalizing E with
      | nil => exact fun h => h
      | cons x l ihl => intro h; exact ihl (dadd E x) (full_mono B E x h)
    by_cases he : Empty B D
    · have hnf1 : ¬ Full B D := by
        intro hf
        have := hf 0 hwf.npos
        have := he 0 hwf.npos
        have := data_shreds_pos
        omega
      have hnf2 : ¬ Full B (dadd D s) := not_full_add_of_empty B D s hs.1 hs.2.1 he
      simp [stepEvents, he, hne, hnf1, hnf2]
    · by_cases hf0 : Full B D
      · have hf1 := full_mono B D s hf0
        simp [stepEvents, he, hne, hf0, hf1]
      · by_cases hf1 : Full B (dadd D s)
        · have hf2 := hmono _ rest hf1
          simp [stepEvents, he, hne, hf0, hf1, hf2]
        · simp [stepEvents, he, hne, hf0, hf1]

/-- a fresh slot is the state of the empty delivered set -/
theorem exact_fresh (B : HBlock) (env : Nat → Content) (cap : Nat) (hwf : B.WF env cap) :
    Exact B cap dnone dnone dnone (SlotData.new cap B.slot).dis :=
  exact_new B cap dnone cnt_dnone hwf.npos

/-- **Exact run from a fresh slot.** -/
theorem runDissem_fresh (B : HBlock) (env : Nat → Content) (cap : Nat) (hwf : B.WF env cap)
    (ss : List Shred) (hss : ∀ s ∈ ss, B.Honest s) :
    (runDissem env (SlotData.new cap B.slot) ss).1 = ⟨canon B cap (delivered ss), [], false⟩ ∧
      (runDissem env (SlotData.new cap B.slot) ss).2 =
        (if ss = [] then [] else [.firstShred]) ++ (if Enough B ss then [.block B.block.info] else []) := by
  obtain ⟨h1, h2, h3, h4⟩ := runDissem_exact B env cap hwf ss hss dnone (SlotData.new cap B.slot) rfl
    (exact_fresh B env cap hwf)
  rw [daddAll_none] at h3 h4
  constructor
  · have := exact_canon B cap _ _ h3
    cases hsd : (runDissem env (SlotData.new cap B.slot) ss).1 with
    | mk dis rep mis =>
      rw [hsd] at h1 h2 this
      simp only at h1 h2 this
      rw [h1, h2, this]
      rfl
  · rw [h4]
    have hnf : ¬ Full B dnone := by
      intro hf
      have := hf 0 hwf.npos
      rw [cnt_dnone] at this
      exact absurd this (by decide)
    congr 1
    · by_cases hnil : ss = []
      · rw [if_neg (fun h => h.2 hnil), if_pos hnil]
      · rw [if_pos ⟨empty_dnone B, hnil⟩, if_neg hnil]
    · apply ite_iff
      constructor
      · intro h; exact h.2
      · intro h; exact ⟨hnf, h⟩

theorem not_enough_nil (B : HBlock) (hn : 0 < B.n) : ¬ Enough B [] := by
  intro h
  have := h 0 hn
  have h0 : distinctShreds [] 0 = 0 := cnt_dnone 0
  rw [h0] at this
  exact absurd this (by decide)

theorem empty_delivered_iff (B : HBlock) (ss : List Shred) (hss : ∀ s ∈ ss, B.Honest s) :
    Empty B (delivered ss) ↔ ss = [] := by
  constructor
  · intro he
    cases hnil : decide (ss = []) with
    | true => exact of_decide_eq_true hnil
    | false => exact absurd he (not_empty_delivered B ss hss (of_decide_eq_false hnil))
  · intro h; subst h; exact empty_dnone B

end AgModel.Blockstore
