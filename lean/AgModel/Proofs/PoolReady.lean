import AgModel.Proofs.PoolWiring
import AgModel.Proofs.NodeFallback
import AgModel.Proofs.ParentReadySound
import AgModel.Proofs.FinalitySound
/-!
# C01 cluster refinement, pool part 3: every `ParentReady` event a pool emits is justified

The pool feeds its two trackers (`Model/Finality.lean`, `Model/ParentReady.lean`) from the certificates it stores and the
blocks registered with it. For abstract predicates (`TP`): `F : Finality.FP` (in the finalized log / gap / notarization
certificate / finalization certificate, with their closure properties), `CP` (block certified), `SP` (slot skip-certified)
with `L ⊆ CP` and `G ⊆ SP` — if every certificate passing through `add_valid_cert` satisfies the predicate of its type
(`CertT`) and every registration agrees with the parent function, then (`poolStep_ti`) the tracker invariants
(`Finality.FI`, `ParentReady.PRI`) are kept and every `ParentReady(w, p)` event emitted satisfies
`ReadyP CP SP w p`: `p` is in an earlier slot and certified, every slot in between is skip-certified.
No premise on the safety of the history is needed (soundness only; contrast `pool_ready_iff`, C07).
-/
namespace AgModel.Pool
open AgModel

structure TP where
  F : Finality.FP
  CP : Nat × Nat → Prop
  SP : Nat → Prop
  cpL : ∀ b, F.L b → CP b
  spG : ∀ u, F.G u → SP u

/-- the tracker invariants of a pool -/
def TI (T : TP) (p : Pool) : Prop := Finality.FI T.F p.fin ∧ ParentReady.PRI T.CP T.SP p.pr

theorem TI.of_trk {T : TP} {p q : Pool} (h : TI T p) (e : q.trk = p.trk) : TI T q := by
  have e1 : q.fin = p.fin := congrArg Trk.fin e
  have e2 : q.pr = p.pr := congrArg Trk.pr e
  unfold TI; rw [e1, e2]; exact h

theorem TI.init (T : TP) (e : Epoch) (hN : T.F.N (0, 0)) (hC : T.CP (0, 0)) : TI T { epoch := e } :=
  ⟨Finality.FI.init T.F hN, ParentReady.PRI.init hC⟩

/-- what a certificate passing through `add_valid_cert` must satisfy -/
def CertT (T : TP) (c : Cert) : Prop :=
  match c.kind with
  | .notar => T.F.N (c.slot, c.hash) ∧ T.CP (c.slot, c.hash)
  | .nf => T.CP (c.slot, c.hash)
  | .skip => T.SP c.slot
  | .ff => T.F.L (c.slot, c.hash)
  | .final => T.F.Fc c.slot

/-- a `ParentReady` event is justified -/
def ReadyEv (T : TP) : Event → Prop
  | .parentReady w a b => ParentReady.ReadyP T.CP T.SP w (a, b)
  | _ => True

theorem readyEv_of_quiet (T : TP) {ev : Event} (h : ev.quiet = true) : ReadyEv T ev := by
  cases ev <;> first | trivial | (simp [Event.quiet] at h)

theorem readyEv_quiet (T : TP) {evs : List Event} (h : Quiet evs) : ∀ ev ∈ evs, ReadyEv T ev :=
  fun ev hev => readyEv_of_quiet T (h ev hev)

theorem applyPr_ti (T : TP) (p : Pool) (r : ParentReady.Res) (h : TI T p)
    (hr : ∀ pr' anns wk, r = some (pr', anns, wk) →
      ParentReady.PRI T.CP T.SP pr' ∧ ∀ a ∈ anns, ParentReady.ReadyP T.CP T.SP a.1 a.2) :
    TI T (p.applyPr r).1 ∧ ∀ ev ∈ (p.applyPr r).2, ReadyEv T ev := by
  unfold Pool.applyPr
  split
  · exact ⟨h, fun ev hev => by simp only [List.mem_singleton] at hev; subst hev; trivial⟩
  · rename_i pr anns wk
    obtain ⟨a, b⟩ := hr pr anns wk rfl
    refine ⟨⟨h.1, a⟩, ?_⟩
    intro ev hev
    unfold prEvents at hev
    obtain ⟨x, hx, rfl⟩ := List.mem_map.mp hev
    exact b x hx

theorem TI.prune {T : TP} {p : Pool} (h : TI T p) : TI T p.prune :=
  ⟨h.1, h.2.prune _⟩

/-- `handle_finalization` with a sound result of the finality tracker -/
theorem handleFin_ti (T : TP) (p : Pool) (r : Finality.Res) (h : TI T p) (hr : Finality.ResOk T.F r) :
    TI T (p.handleFin r).1 ∧ ∀ ev ∈ (p.handleFin r).2, ReadyEv T ev := by
  unfold Pool.handleFin
  split
  · exact ⟨h, fun ev hev => by simp only [List.mem_singleton] at hev; subst hev; trivial⟩
  · rename_i t ev
    obtain ⟨hfi, hev⟩ := hr
    have h1 : TI T ({ p with fin := t } : Pool) := ⟨hfi, h.2⟩
    have := applyPr_ti T ({ p with fin := t } : Pool) (ParentReady.handleFinalization p.pr ev) h1 (by
      intro pr' anns wk he
      apply ParentReady.handleFinalization_pri h.2 ev ?_ ?_ he
      · intro b hb
        rcases List.mem_append.mp hb with hb | hb
        · exact T.cpL b (hev.fin b (by simpa using hb))
        · exact T.cpL b (hev.impl b hb)
      · intro s hs; exact T.spG s (hev.skip s hs))
    exact ⟨this.1.prune, this.2⟩

theorem handleFin_step_ti (T : TP) (p : Pool) (op : Finality.Op) (h : TI T p) (hop : Finality.OpF T.F op) :
    TI T (p.handleFin (Finality.step p.fin op)).1 ∧ ∀ ev ∈ (p.handleFin (Finality.step p.fin op)).2, ReadyEv T ev :=
  handleFin_ti T p _ h (Finality.step_fi T.F p.fin op h.1 hop)

/-- `add_valid_cert` -/
theorem addValidCert_ti (T : TP) (c : Cert) (p : Pool) (h : TI T p) (hc : CertT T c) :
    TI T (p.addValidCert c).1 ∧ ∀ ev ∈ (p.addValidCert c).2, ReadyEv T ev := by
  have h0 : TI T ((p.slotState c.slot).1.putSlot ((p.slotState c.slot).2.addCert c)) :=
    h.of_trk (by rw [putSlot_trk, slotState_trk])
  unfold Pool.addValidCert
  dsimp only
  generalize ((p.slotState c.slot).1.putSlot ((p.slotState c.slot).2.addCert c)) = p1 at h0
  unfold CertT at hc
  have hnf : ∀ q : Pool, TI T q → T.CP (c.slot, c.hash) →
      TI T (q.applyPr (ParentReady.markNotarFallback q.pr (c.slot, c.hash))).1 ∧
      ∀ ev ∈ (q.applyPr (ParentReady.markNotarFallback q.pr (c.slot, c.hash))).2, ReadyEv T ev := by
    intro q hq hcp
    exact applyPr_ti T q _ hq (fun pr' anns wk he => ParentReady.markNotarFallback_pri hq.2 _ hcp he)
  have hwake : ∀ q : Pool, TI T q → TI T (q.notifyWaiting (c.slot, c.hash)).1 ∧
      ∀ ev ∈ (q.notifyWaiting (c.slot, c.hash)).2, ReadyEv T ev :=
    fun q hq => ⟨hq.of_trk (notifyWaiting_trk q _), readyEv_quiet T (notifyWaiting_quiet q _)⟩
  cases hk : c.kind <;> simp only [hk] at hc ⊢
  · -- notarization
    simp only [show (CertKind.notar == CertKind.notar) = true from rfl, if_true]
    have a1 := handleFin_step_ti T p1 (.notar (c.slot, c.hash)) h0 hc.1
    have a2 := hwake _ a1.1
    have a3 := hnf _ a2.1 hc.2
    refine ⟨a3.1, ?_⟩
    intro ev hev
    simp only [List.mem_append, List.mem_singleton] at hev
    rcases hev with (((hev | hev) | hev) | hev) | hev
    · exact a1.2 ev hev
    · exact a2.2 ev hev
    · exact a3.2 ev hev
    · subst hev; trivial
    · subst hev; trivial
  · -- notar-fallback
    simp only [show (CertKind.nf == CertKind.notar) = false from rfl, Bool.false_eq_true, if_false]
    have a2 := hwake _ h0
    have a3 := hnf _ a2.1 hc
    refine ⟨a3.1, ?_⟩
    intro ev hev
    simp only [List.mem_append, List.mem_singleton, List.not_mem_nil, false_or] at hev
    rcases hev with ((hev | hev) | hev) | hev
    · exact a2.2 ev hev
    · exact a3.2 ev hev
    · subst hev; trivial
    · subst hev; trivial
  · -- skip
    have a1 := applyPr_ti T p1 (ParentReady.markSkipped p1.pr c.slot) h0
      (fun pr' anns wk he => ParentReady.markSkipped_pri h0.2 _ hc he)
    refine ⟨a1.1, ?_⟩
    intro ev hev
    simp only [List.mem_append, List.mem_singleton] at hev
    rcases hev with hev | hev
    · exact a1.2 ev hev
    · subst hev; trivial
  · -- fast-finalization
    have a1 := handleFin_step_ti T p1 (.fastFinal (c.slot, c.hash)) h0 hc
    have a2 := hwake _ a1.1
    refine ⟨a2.1, ?_⟩
    intro ev hev
    simp only [List.mem_append, List.mem_singleton] at hev
    rcases hev with (hev | hev) | hev
    · exact a1.2 ev hev
    · exact a2.2 ev hev
    · subst hev; trivial
  · -- finalization
    have a1 := handleFin_step_ti T p1 (.final c.slot) h0 hc
    refine ⟨a1.1, ?_⟩
    intro ev hev
    simp only [List.mem_append, List.mem_singleton] at hev
    rcases hev with hev | hev
    · exact a1.2 ev hev
    · subst hev; trivial

theorem addValidCerts_ti (T : TP) (cs : List Cert) (p : Pool) (acc : List Event) (h : TI T p) (hc : ∀ c ∈ cs, CertT T c)
    (hacc : ∀ ev ∈ acc, ReadyEv T ev) :
    TI T (p.addValidCerts cs acc).1 ∧ ∀ ev ∈ (p.addValidCerts cs acc).2, ReadyEv T ev := by
  induction cs generalizing p acc with
  | nil => exact ⟨h, hacc⟩
  | cons c cs ih =>
    rw [addValidCerts_cons]
    obtain ⟨a, b⟩ := addValidCert_ti T c p h (hc c (by simp))
    apply ih _ _ a (fun c' hc' => hc c' (by simp [hc']))
    intro ev hev
    rcases List.mem_append.mp hev with hev | hev
    · exact hacc ev hev
    · exact b ev hev

theorem addBlockTail_ready (T : TP) (r : Pool) (b par : Nat × Nat) (e0 : List Event) (cert : Bool)
    (h0 : ∀ ev ∈ e0, ReadyEv T ev) : ∀ ev ∈ (Pool.addBlockTail r b par e0 cert).2, ReadyEv T ev := by
  unfold Pool.addBlockTail
  split
  · split
    · intro ev hev
      rcases List.mem_append.mp hev with hev | hev
      · exact h0 ev hev
      · simp only [List.mem_singleton] at hev; subst hev; trivial
    · rename_i st' evs hn
      split
      · exact h0
      · intro ev hev
        rcases List.mem_append.mp hev with hev | hev
        · exact h0 ev hev
        · exact readyEv_quiet T (notifyParentCertified_quiet _ _ _ _ _ hn) ev hev
  · exact h0

/-- `add_block` -/
theorem addBlock_ti (T : TP) (p : Pool) (b par : Nat × Nat) (h : TI T p) (hp : T.F.par b = par) :
    TI T (p.addBlock b par).1 ∧ ∀ ev ∈ (p.addBlock b par).2, ReadyEv T ev := by
  have hres := Finality.addParent_fi T.F p.fin b par h.1 hp
  unfold Pool.addBlock
  split
  · exact ⟨h, fun ev hev => by simp only [List.mem_singleton] at hev; subst hev; trivial⟩
  · split
    · exact ⟨h, fun ev hev => by simp only [List.mem_singleton] at hev; subst hev; trivial⟩
    · rename_i t ev hst
      rw [hst] at hres
      have a := handleFin_ti T p (.ok t ev) h hres
      unfold Pool.handleFin at a
      dsimp only at a ⊢
      split
      · exact a
      · refine ⟨a.1.of_trk ?_, addBlockTail_ready T _ b par _ _ a.2⟩
        rw [addBlockTail_trk, putSlot_trk, slotState_trk]

/-- **One pool operation**: the tracker invariants are kept and every emitted `ParentReady` event is justified, provided
    every certificate announced by the operation (= every certificate that went through `add_valid_cert`) satisfies the
    predicate of its type and a registration agrees with the parent function. -/
theorem poolStep_ti (T : TP) (p : Pool) (op : PoolOp) (h : TI T p)
    (hc : ∀ c, Event.cert c ∈ (poolStep p op).2 → CertT T c) (hb : ∀ b par, op = .block b par → T.F.par b = par) :
    TI T (poolStep p op).1 ∧ ∀ ev ∈ (poolStep p op).2, ReadyEv T ev := by
  cases op with
  | vote v =>
    simp only [poolStep] at hc ⊢
    rcases addVote_cases p v with h1 | h1 | ⟨_, h1, hev⟩
    · rcases addVote_out p v with ⟨_, _, h3⟩ | ⟨_, h3⟩ | ⟨hok, h3⟩
      · rw [h1, h3]; exact ⟨h, fun ev hev => by cases hev⟩
      · rw [h1, h3]; exact ⟨h, fun ev hev => by simp only [List.mem_singleton] at hev; subst hev; trivial⟩
      · rw [h3]
        have hmod : TI T ((p.slotState v.slot).1.putSlot ((p.slotState v.slot).2.addVote p.epoch v).1) :=
          h.of_trk (by rw [putSlot_trk, slotState_trk])
        have a := addValidCerts_ti T ((p.slotState v.slot).2.addVote p.epoch v).2.1 _ [] hmod
          (fun c hcm => hc c (by rw [h3]; exact List.mem_append_left _ ((addValidCerts_events _ _ _).2 c hcm)))
          (fun _ hx => by cases hx)
        rw [h1]
        exact ⟨h, fun ev hev => (List.mem_append.mp hev).elim (a.2 ev) (readyEv_quiet T (slot_addVote_quiet _ _ _) ev)⟩
    · rcases addVote_out p v with ⟨_, _, h3⟩ | ⟨_, h3⟩ | ⟨hok, h3⟩
      · rw [h1, h3]; exact ⟨h.of_trk (slotState_trk _ _), fun ev hev => by cases hev⟩
      · rw [h1, h3]
        exact ⟨h.of_trk (slotState_trk _ _), fun ev hev => by simp only [List.mem_singleton] at hev; subst hev; trivial⟩
      · rw [h3]
        have hmod : TI T ((p.slotState v.slot).1.putSlot ((p.slotState v.slot).2.addVote p.epoch v).1) :=
          h.of_trk (by rw [putSlot_trk, slotState_trk])
        have a := addValidCerts_ti T ((p.slotState v.slot).2.addVote p.epoch v).2.1 _ [] hmod
          (fun c hcm => hc c (by rw [h3]; exact List.mem_append_left _ ((addValidCerts_events _ _ _).2 c hcm)))
          (fun _ hx => by cases hx)
        rw [h1]
        exact ⟨h.of_trk (slotState_trk _ _),
          fun ev hev => (List.mem_append.mp hev).elim (a.2 ev) (readyEv_quiet T (slot_addVote_quiet _ _ _) ev)⟩
    · have hmod : TI T ((p.slotState v.slot).1.putSlot ((p.slotState v.slot).2.addVote p.epoch v).1) :=
        h.of_trk (by rw [putSlot_trk, slotState_trk])
      have a := addValidCerts_ti T ((p.slotState v.slot).2.addVote p.epoch v).2.1 _ [] hmod
        (fun c hcm => hc c (hev c hcm)) (fun _ hx => by cases hx)
      rw [h1]
      refine ⟨a.1, ?_⟩
      rcases addVote_out p v with ⟨_, _, h3⟩ | ⟨_, h3⟩ | ⟨_, h3⟩
      · rw [h3]; intro ev hev; cases hev
      · rw [h3]; intro ev hev; simp only [List.mem_singleton] at hev; subst hev; trivial
      · rw [h3]
        exact fun ev hev => (List.mem_append.mp hev).elim (a.2 ev) (readyEv_quiet T (slot_addVote_quiet _ _ _) ev)
  | cert c =>
    simp only [poolStep] at hc ⊢
    rcases addCert_cases p c with h1 | h1 | ⟨h1, hev⟩
    · rcases addCert_out p c with ⟨_, h3⟩ | ⟨_, h3⟩
      · rw [h1, h3]; exact ⟨h, fun ev hev => by cases hev⟩
      · have a := addValidCert_ti T c (p.slotState c.slot).1 (h.of_trk (slotState_trk _ _))
          (hc c (by rw [h3]; exact addValidCert_event _ c))
        rw [h1, h3]; exact ⟨h, a.2⟩
    · rcases addCert_out p c with ⟨_, h3⟩ | ⟨_, h3⟩
      · rw [h1, h3]; exact ⟨h.of_trk (slotState_trk _ _), fun ev hev => by cases hev⟩
      · have a := addValidCert_ti T c (p.slotState c.slot).1 (h.of_trk (slotState_trk _ _))
          (hc c (by rw [h3]; exact addValidCert_event _ c))
        rw [h1, h3]; exact ⟨h.of_trk (slotState_trk _ _), a.2⟩
    · have a := addValidCert_ti T c (p.slotState c.slot).1 (h.of_trk (slotState_trk _ _)) (hc c hev)
      rw [h1]
      refine ⟨a.1, ?_⟩
      rcases addCert_out p c with ⟨_, h3⟩ | ⟨_, h3⟩
      · rw [h3]; intro ev hev; cases hev
      · rw [h3]; exact a.2
  | block b par =>
    simp only [poolStep]
    exact addBlock_ti T p b par h (hb b par rfl)

end AgModel.Pool

namespace AgModel.Pool
open AgModel

/-- `T'` is weaker than `T` (same parent function) -/
structure TP.le (T T' : TP) : Prop where
  par : T'.F.par = T.F.par
  L : ∀ b, T.F.L b → T'.F.L b
  N : ∀ b, T.F.N b → T'.F.N b
  Fc : ∀ s, T.F.Fc s → T'.F.Fc s
  CP : ∀ b, T.CP b → T'.CP b
  SP : ∀ s, T.SP s → T'.SP s

theorem readyP_mono {T T' : TP} (hl : T.le T') {w : Nat} {p : Nat × Nat} (h : ParentReady.ReadyP T.CP T.SP w p) :
    ParentReady.ReadyP T'.CP T'.SP w p :=
  ⟨h.1, hl.CP _ h.2.1, fun u a b => hl.SP _ (h.2.2 u a b)⟩

theorem TI.mono {T T' : TP} {p : Pool} (h : TI T p) (hl : T.le T') : TI T' p := by
  obtain ⟨hf, hp⟩ := h
  refine ⟨⟨?_, ?_, ?_, ?_, ?_⟩, ⟨?_, ?_, ?_⟩⟩
  · intro b q hb; rw [hl.par]; exact hf.parents b q hb
  · intro s x hx; exact hl.L _ (hf.fin s x hx)
  · intro s x hx; exact hl.L _ (hf.impl s x hx)
  · intro s x hx; exact hl.N _ (hf.notar s x hx)
  · intro s hx; exact hl.Fc _ (hf.pend s hx)
  · intro s q hq; exact readyP_mono hl (hp.ready s q hq)
  · intro s x hx; exact hl.CP _ (hp.nfs s x hx)
  · intro s hx; exact hl.SP _ (hp.skip s hx)

theorem ReadyEv.mono {T T' : TP} {ev : Event} (h : ReadyEv T ev) (hl : T.le T') : ReadyEv T' ev := by
  cases ev with
  | parentReady w a b => exact readyP_mono hl h
  | _ => trivial

end AgModel.Pool
