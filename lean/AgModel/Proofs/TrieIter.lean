import AgModel.Proofs.Trie
/-! `Iter::next`'s explicit-stack loop (`iterStack`) yields the in-order traversal `toList`. -/
namespace AgModel.Trie

def sumSize (st : List Node) : Nat := (st.map size).sum

theorem sumSize_cons (n : Node) (st : List Node) : sumSize (n :: st) = size n + sumSize st := by
  simp [sumSize]

theorem sumSize_append (a b : List Node) : sumSize (a ++ b) = sumSize a + sumSize b := by
  simp [sumSize]

theorem size_pos (n : Node) : 0 < size n := by cases n <;> simp [size]

theorem sumSize_children_le (n : Node) : sumSize (chainChildren n) + 1 ≤ size n := by
  induction n with
  | leaf k v => simp [chainChildren, sumSize, size]
  | nil => simp [chainChildren, sumSize, size]
  | cons c ch rest _ ihr => simp only [chainChildren, sumSize_cons, size]; omega

/-- what may sit on the iterator's stack: a leaf or a well-formed branch -/
def stackOK (n : Node) : Prop := (∃ k v, n = .leaf k v) ∨ (∃ P lb, n.wf P lb = true)

theorem children_ok (n : Node) : ∀ (P : List Nat) (lb : Nat), n.wf P lb = true →
    (∀ ch ∈ chainChildren n, stackOK ch) ∧ (chainChildren n).flatMap toList = toList n := by
  induction n with
  | leaf k v => intro P lb h; simp [Node.wf] at h
  | nil => intro P lb _; simp [chainChildren, toList]
  | cons c ch rest _ ihr =>
    intro P lb h
    rw [wf_cons_iff] at h
    obtain ⟨_, _, h3, h4⟩ := h
    obtain ⟨i1, i2⟩ := ihr P (c + 1) h4
    refine ⟨?_, by simp [chainChildren, toList, i2]⟩
    intro x hx
    simp only [chainChildren, List.mem_cons] at hx
    rcases hx with hx | hx
    · subst hx
      cases x with
      | leaf k v => exact Or.inl ⟨k, v, rfl⟩
      | nil => simp [wfc] at h3
      | cons c' ch' r' =>
        simp only [wfc, Bool.and_eq_true] at h3
        exact Or.inr ⟨_, _, h3.1⟩
    · exact i1 x hx

theorem iterStack_eq (fuel : Nat) : ∀ (st : List Node), (∀ n ∈ st, stackOK n) → sumSize st ≤ fuel →
    iterStack fuel st = st.flatMap toList := by
  induction fuel with
  | zero =>
    intro st _ hs
    cases st with
    | nil => simp [iterStack]
    | cons n st => have := size_pos n; simp [sumSize_cons] at hs; omega
  | succ f ih =>
    intro st hok hs
    cases st with
    | nil => simp [iterStack]
    | cons n st =>
      have hok' : ∀ m ∈ st, stackOK m := fun m hm => hok m (by simp [hm])
      rw [sumSize_cons] at hs
      cases n with
      | leaf k v =>
        simp only [iterStack, List.flatMap_cons, toList, List.singleton_append, size] at hs ⊢
        rw [ih st hok' (by omega)]
      | nil =>
        simp only [iterStack, chainChildren, List.nil_append, List.flatMap_cons, toList, size] at hs ⊢
        exact ih st hok' (by omega)
      | cons c ch rest =>
        have hwf : ∃ P lb, Node.wf (.cons c ch rest) P lb = true := by
          rcases hok (.cons c ch rest) (by simp) with ⟨k, v, e⟩ | h
          · cases e
          · exact h
        obtain ⟨P, lb, hwf⟩ := hwf
        obtain ⟨c1, c2⟩ := children_ok _ P lb hwf
        have hsz := sumSize_children_le (.cons c ch rest)
        simp only [iterStack]
        rw [ih _ (by
              intro m hm
              rcases List.mem_append.1 hm with hm | hm
              · exact c1 m hm
              · exact hok' m hm)
            (by rw [sumSize_append]; omega)]
        rw [List.flatMap_append, c2, List.flatMap_cons]

/-- the iterator of a reachable state: the explicit-stack loop started with `[root]` and enough fuel
    yields exactly the in-order listing -/
theorem iter_stack_eq_toList (s : State) (h : s.wf = true) :
    iterStack (size s.root) [s.root] = s.iter := by
  simp only [State.wf, Bool.and_eq_true] at h
  rw [iterStack_eq _ [s.root] (by
        intro n hn
        simp only [List.mem_singleton] at hn
        subst hn
        exact Or.inr ⟨[], 0, h.1⟩)
      (by simp [sumSize])]
  simp [State.iter]

end AgModel.Trie
