import AgModel.Proofs.PoolS2NGlue
/-! Pool-level glue for C06, part 5: the pool **forwards** every slot-level safe-to-notar event: whatever is recorded in the
    `sent` set of a slot state of a reachable pool was emitted as `Event.s2n` among the events of the run. Events-aware
    versions of the induction principles (the caller learns that the events of an inner call are among the events of the
    outer one). -/
namespace AgModel.Pool

/-- every recorded safe-to-notar signal of the slot state is among the events `E` -/
def QE (E : Event → Prop) (st : SlotState) : Prop := ∀ h ∈ st.sent, E (.s2n st.slot h)

theorem QE_init (E : Event → Prop) (s : Nat) : QE E { slot := s } := by
  intro h hh; simp at hh

theorem QE.of_eq {E : Event → Prop} {a b : SlotState} (h : QE E a) (hs : b.slot = a.slot) (hp : b.sent = a.sent) : QE E b := by
  intro x hx; rw [hs]; rw [hp] at hx; exact h x hx

theorem QE.vote {E : Event → Prop} {e : Epoch} {st : SlotState} (v : Vote) (h : QE E st)
    (hE : ∀ ev ∈ (st.addVote e v).2.2, E ev) : QE E (st.addVote e v).1 := by
  intro x hx
  rcases (addVote_traced e st v).s2n x hx with y | y
  · rw [addVote_slot]; exact h x y
  · obtain ⟨ev, hm, hs⟩ := List.mem_filterMap.mp y
    have hsound := (addVote_emit e st v).1 ev hm
    cases ev with
    | s2n sl hh' =>
      simp only [s2nHash, Option.some.injEq] at hs; subst hs
      rw [← hsound.1]; exact hE _ hm
    | _ => simp [s2nHash] at hs

theorem QE.certified {E : Event → Prop} {e : Epoch} {st st' : SlotState} {h : Nat} {evs : List Event}
    (hn : st.notifyParentCertified e h = some (st', evs)) (hq : QE E st) (hE : ∀ ev ∈ evs, E ev) : QE E st' := by
  have ht := slotStep_traced e st (.parentCertified h)
  have hm := (slotStep_emit e st (.parentCertified h)).1
  simp only [slotStep, hn] at ht hm
  intro x hx
  rcases ht.s2n x hx with y | y
  · rw [(notifyParentCertified_spec hn).1]; exact hq x y
  · obtain ⟨ev, hmem, hs⟩ := List.mem_filterMap.mp y
    have hsound := hm ev hmem
    cases ev with
    | s2n sl hh' =>
      simp only [s2nHash, Option.some.injEq] at hs; subst hs
      rw [← hsound.1]; exact hE _ hmem
    | _ => simp [s2nHash] at hs

/-! ### unfolding equations and monotonicity of the accumulated events -/

theorem notifyChildren_cons (p : Pool) (cs ch : Nat) (rest : List (Nat × Nat)) (acc : List Event) :
    p.notifyChildren ((cs, ch) :: rest) acc =
      if cs < p.fin.first then p.notifyChildren rest acc
      else match (p.slotState cs).2.notifyParentCertified (p.slotState cs).1.epoch ch with
        | none => ((p.slotState cs).1, acc ++ [.panic])
        | some (st, evs) => ((p.slotState cs).1.putSlot st).notifyChildren rest (acc ++ evs) := by
  rw [Pool.notifyChildren]
  rfl

theorem notifyChildren_mono (kids : List (Nat × Nat)) (p : Pool) (acc : List Event) :
    ∀ ev ∈ acc, ev ∈ (p.notifyChildren kids acc).2 := by
  induction kids generalizing p acc with
  | nil => intro ev h; exact h
  | cons k ks ih =>
    obtain ⟨cs, ch⟩ := k
    intro ev hev
    rw [notifyChildren_cons]
    split
    · exact ih p acc ev hev
    · split
      · exact List.mem_append_left _ hev
      · exact ih _ _ ev (List.mem_append_left _ hev)

theorem notifyChildren_satE (e : Epoch) (E : Event → Prop) (kids : List (Nat × Nat)) (p : Pool) (acc : List Event)
    (he : p.epoch = e) (hs : SlotsSat p (QE E)) :
    ∀ r, p.notifyChildren kids acc = r → (∀ ev ∈ r.2, E ev) → SlotsSat r.1 (QE E) := by
  induction kids generalizing p acc with
  | nil => intro r hr _; subst hr; exact hs
  | cons k ks ih =>
    obtain ⟨cs, ch⟩ := k
    intro r hr hE
    rw [notifyChildren_cons] at hr
    split at hr
    · exact ih p acc he hs r hr hE
    · split at hr
      · subst hr; exact hs.slotState cs (QE_init E cs)
      · rename_i st' evs hn
        have hmono : ∀ ev ∈ acc ++ evs, ev ∈ r.2 := by
          intro ev hev; rw [← hr]; exact notifyChildren_mono ks _ _ ev hev
        have hq : QE E st' := QE.certified hn (hs.slotState_snd cs (QE_init E cs))
          (fun ev hev => hE ev (hmono ev (List.mem_append_right _ hev)))
        exact ih _ _ ((mod_frame p cs st').1.trans he) (hs.mod cs st' (QE_init E cs) hq) r hr hE

theorem notifyWaiting_satE (e : Epoch) (E : Event → Prop) (p : Pool) (b : Nat × Nat) (he : p.epoch = e)
    (hs : SlotsSat p (QE E)) (hE : ∀ ev ∈ (p.notifyWaiting b).2, E ev) : SlotsSat (p.notifyWaiting b).1 (QE E) := by
  unfold Pool.notifyWaiting at hE ⊢
  exact notifyChildren_satE e E ((p.waiting.lookup b).getD []) { p with waiting := p.waiting.filter (·.1 ≠ b) } [] he
    (fun s st hg => hs s st hg) _ rfl hE

/-! ### events-aware induction principles -/

/-- as `addValidCert_ind`; the wake step learns that the events of `notify_waiting_children` are among those of the
    whole `add_valid_cert` -/
theorem addValidCert_indE (E : Event → Prop) (c : Cert) (p : Pool) (I J : Pool → Prop)
    (hstore : J (p.stored c))
    (hadv : ∀ q t r, q.fin.first ≤ t.first → J q → J (q.advance t r))
    (hprJ : ∀ q r, J q → J (q.applyPr r).1)
    (hprI : ∀ q r, I q → I (q.applyPr r).1)
    (hwake : (c.kind = .notar ∨ c.kind = .nf ∨ c.kind = .ff) → ∀ q, (∀ ev ∈ (q.notifyWaiting (c.slot, c.hash)).2, E ev) →
      J q → I (q.notifyWaiting (c.slot, c.hash)).1)
    (hweak : (c.kind = .skip ∨ c.kind = .final) → ∀ q, J q → I q)
    (hE : ∀ ev ∈ (p.addValidCert c).2, E ev) :
    I (p.addValidCert c).1 := by
  have hfin : ∀ q op, J q → J (q.handleFin (Finality.step q.fin op)).1 := by
    intro q op hq
    rcases handleFin_cases q op with h | ⟨t, r, hm, h⟩
    · rw [h]; exact hq
    · rw [h]; exact hadv q t r hm hq
  unfold Pool.stored at hstore
  unfold Pool.addValidCert at hE ⊢
  dsimp only at hE ⊢
  generalize ((p.slotState c.slot).1.putSlot ((p.slotState c.slot).2.addCert c)) = p1 at hstore hE ⊢
  cases hk : c.kind <;> simp only [hk] at hE ⊢
  · simp only [show (CertKind.notar == CertKind.notar) = true from rfl, if_true] at hE ⊢
    refine hprI _ _ (hwake (Or.inl hk) _ (fun ev hev => hE ev ?_) (hfin p1 (.notar (c.slot, c.hash)) hstore))
    simp only [List.mem_append]
    exact Or.inl (Or.inl (Or.inl (Or.inr hev)))
  · simp only [show (CertKind.nf == CertKind.notar) = false from rfl, Bool.false_eq_true, if_false] at hE ⊢
    refine hprI _ _ (hwake (Or.inr (Or.inl hk)) _ (fun ev hev => hE ev ?_) hstore)
    simp only [List.mem_append]
    exact Or.inl (Or.inl (Or.inl (Or.inr hev)))
  · exact hweak (Or.inl hk) _ (hprJ _ _ hstore)
  · refine hwake (Or.inr (Or.inr hk)) _ (fun ev hev => hE ev ?_) (hfin p1 (.fastFinal (c.slot, c.hash)) hstore)
    simp only [List.mem_append]
    exact Or.inl (Or.inr hev)
  · exact hweak (Or.inr hk) _ (hfin p1 (.final c.slot) hstore)

theorem addValidCerts_indE (E : Event → Prop) (I : Pool → Prop) (cs : List Cert) (p : Pool) (acc : List Event)
    (hvc : ∀ c ∈ cs, ∀ q, (∀ ev ∈ (q.addValidCert c).2, E ev) → I q → I (q.addValidCert c).1) (hp : I p)
    (hE : ∀ ev ∈ (p.addValidCerts cs acc).2, E ev) : I (p.addValidCerts cs acc).1 := by
  induction cs generalizing p acc with
  | nil => exact hp
  | cons c cs ih =>
    unfold Pool.addValidCerts at hE ⊢
    dsimp only at hE ⊢
    refine ih _ _ (fun c' hc' => hvc c' (by simp [hc'])) (hvc c (by simp) p ?_ hp) hE
    intro ev hev
    exact hE ev ((addValidCerts_events cs _ _).1 ev (List.mem_append_right _ hev))

/-- the last way `Pool::add_vote` can end, with its events -/
theorem addVote_cases_events (p : Pool) (v : Vote) :
    (p.addVote v).1 = p ∨ (p.addVote v).1 = (p.slotState v.slot).1 ∨
    (Adm (p.slotState v.slot).2 v ∧
      (p.addVote v).1 = (((p.slotState v.slot).1.putSlot ((p.slotState v.slot).2.addVote p.epoch v).1).addValidCerts
        ((p.slotState v.slot).2.addVote p.epoch v).2.1 []).1 ∧
      (p.addVote v).2.2 = (((p.slotState v.slot).1.putSlot ((p.slotState v.slot).2.addVote p.epoch v).1).addValidCerts
        ((p.slotState v.slot).2.addVote p.epoch v).2.1 []).2 ++ ((p.slotState v.slot).2.addVote p.epoch v).2.2) := by
  unfold Pool.addVote
  split
  · exact Or.inl rfl
  split
  · exact Or.inl rfl
  dsimp only
  split
  · exact Or.inr (Or.inl rfl)
  · rename_i hsl
    split
    · exact Or.inr (Or.inl rfl)
    · rename_i hig
      have ha : Adm (p.slotState v.slot).2 v := ⟨hsl, by simpa using hig⟩
      have hep : (p.slotState v.slot).1.epoch = p.epoch := (slotState_frame p v.slot).1
      rw [hep]
      exact Or.inr (Or.inr ⟨ha, rfl, rfl⟩)

theorem addCert_cases_events (p : Pool) (c : Cert) :
    (p.addCert c).1 = p ∨ (p.addCert c).1 = (p.slotState c.slot).1 ∨
    ((p.addCert c).1 = ((p.slotState c.slot).1.addValidCert c).1 ∧ (p.addCert c).2.2 = ((p.slotState c.slot).1.addValidCert c).2) := by
  unfold Pool.addCert
  split
  · exact Or.inl rfl
  dsimp only
  split <;> split
  all_goals first
    | exact Or.inr (Or.inl rfl)
    | exact Or.inr (Or.inr ⟨rfl, rfl⟩)

/-- the ways `Pool::add_block` can end, with its events -/
theorem addBlock_cases (p : Pool) (b par : Nat × Nat) :
    (p.addBlock b par).1 = p ∨
    (∃ t r, p.fin.first ≤ t.first ∧ (p.addBlock b par).1 = p.advance t r) ∨
    (∃ t r e0, p.fin.first ≤ t.first ∧
      p.addBlock b par = Pool.addBlockTail ((p.advance t r).known b) b par e0 (((p.advance t r).known b).certifiedB par)) := by
  unfold Pool.addBlock
  split
  · exact Or.inl rfl
  split
  · exact Or.inl rfl
  rename_i t ev hst
  have hmono : p.fin.first ≤ t.first := fin_first_mono (op := .parent b par) hst
  dsimp only
  split
  · exact Or.inr (Or.inl ⟨t, _, hmono, rfl⟩)
  · exact Or.inr (Or.inr ⟨t, ParentReady.handleFinalization p.pr ev, _, hmono, rfl⟩)

/-! ### the invariant through the pool operations -/

def EmitInv (e : Epoch) (E : Event → Prop) (p : Pool) : Prop := p.epoch = e ∧ SlotsSat p (QE E)

theorem EmitInv.slotState {e : Epoch} {E : Event → Prop} {p : Pool} (h : EmitInv e E p) (s : Nat) : EmitInv e E (p.slotState s).1 :=
  ⟨(slotState_frame p s).1.trans h.1, h.2.slotState s (QE_init E s)⟩

theorem addValidCert_emit (e : Epoch) (E : Event → Prop) (c : Cert) (p : Pool) (h : EmitInv e E p)
    (hE : ∀ ev ∈ (p.addValidCert c).2, E ev) : EmitInv e E (p.addValidCert c).1 := by
  apply addValidCert_indE E c p (EmitInv e E) (EmitInv e E) ?_ ?_ ?_ ?_ ?_ (fun _ _ hq => hq) hE
  · unfold Pool.stored
    refine ⟨(mod_frame p c.slot _).1.trans h.1, h.2.mod c.slot _ (QE_init E _) ?_⟩
    exact (h.2.slotState_snd c.slot (QE_init E _)).of_eq (addCert_slot _ c) (addCert_same _ c).2.1
  · intro q t r _ hq; exact ⟨(advance_epoch q t r).trans hq.1, hq.2.advance t r⟩
  · intro q r hq; exact ⟨(applyPr_frame q r).1.trans hq.1, hq.2.applyPr r⟩
  · intro q r hq; exact ⟨(applyPr_frame q r).1.trans hq.1, hq.2.applyPr r⟩
  · intro _ q hEq hq
    exact ⟨(notifyWaiting_frame q _).1.trans hq.1, notifyWaiting_satE e E q _ hq.1 hq.2 hEq⟩

theorem addBlockTail_emit (e : Epoch) (E : Event → Prop) (r : Pool) (b par : Nat × Nat) (e0 : List Event) (cert : Bool)
    (h : EmitInv e E r) (hE : ∀ ev ∈ (Pool.addBlockTail r b par e0 cert).2, E ev) :
    EmitInv e E (Pool.addBlockTail r b par e0 cert).1 := by
  refine ⟨(addBlockTail_epoch r b par e0 cert).trans h.1, ?_⟩
  generalize hr : Pool.addBlockTail r b par e0 cert = res at hE ⊢
  unfold Pool.addBlockTail at hr
  split at hr
  · split at hr
    · subst hr; exact h.2.slotState b.1 (QE_init E _)
    · rename_i st' evs hn
      rw [(slotState_frame r b.1).1, h.1] at hn
      have hm : (∀ ev ∈ evs, E ev) → SlotsSat ((r.slotState b.1).1.putSlot st') (QE E) := fun hev =>
        h.2.mod b.1 st' (QE_init E _) (QE.certified hn (h.2.slotState_snd b.1 (QE_init E _)) hev)
      split at hr
      · rename_i hemp
        subst hr
        have : evs = [] := by simpa using hemp
        exact (hm (fun ev hev => by rw [this] at hev; cases hev)).addWaiting par b
      · subst hr
        exact hm (fun ev hev => hE ev (List.mem_append_right _ hev))
  · subst hr
    exact h.2.addWaiting par b

theorem poolStep_emit (e : Epoch) (E : Event → Prop) (p : Pool) (op : PoolOp) (h : EmitInv e E p)
    (hE : ∀ ev ∈ (poolStep p op).2, E ev) : EmitInv e E (poolStep p op).1 := by
  cases op with
  | vote v =>
    simp only [poolStep] at hE ⊢
    rcases addVote_cases_events p v with h1 | h1 | ⟨ha, h1, h2⟩
    · rw [h1]; exact h
    · rw [h1]; exact h.slotState _
    · rw [h1]
      rw [h2] at hE
      apply addValidCerts_indE E (EmitInv e E) _ _ _ (fun c _ q hEq hq => addValidCert_emit e E c q hq hEq)
      · refine ⟨(mod_frame p v.slot _).1.trans h.1, h.2.mod v.slot _ (QE_init E _) ?_⟩
        rw [h.1] at hE ⊢
        exact (h.2.slotState_snd v.slot (QE_init E _)).vote v (fun ev hev => hE ev (List.mem_append_right _ hev))
      · intro ev hev; exact hE ev (List.mem_append_left _ hev)
  | cert c =>
    simp only [poolStep] at hE ⊢
    rcases addCert_cases_events p c with h1 | h1 | ⟨h1, h2⟩
    · rw [h1]; exact h
    · rw [h1]; exact h.slotState _
    · rw [h1]; rw [h2] at hE
      exact addValidCert_emit e E c _ (h.slotState _) hE
  | block b par =>
    simp only [poolStep] at hE ⊢
    have hadv : ∀ t r, EmitInv e E (p.advance t r) := fun t r => ⟨(advance_epoch p t r).trans h.1, h.2.advance t r⟩
    rcases addBlock_cases p b par with h1 | ⟨t, r, _, h1⟩ | ⟨t, r, e0, _, h1⟩
    · rw [h1]; exact h
    · rw [h1]; exact hadv t r
    · rw [h1] at hE ⊢
      apply addBlockTail_emit e E _ b par e0 _ ?_ hE
      have hq := hadv t r
      obtain ⟨k1, _, _, _, _⟩ := notifyParentKnown_spec ((p.advance t r).slotState b.1).2 b.2
      refine ⟨(known_frame _ b).1.trans hq.1, hq.2.mod b.1 _ (QE_init E _) ?_⟩
      refine (hq.2.slotState_snd b.1 (QE_init E _)).of_eq k1 ?_
      unfold SlotState.notifyParentKnown; split <;> rfl

/-- **The pool forwards every safe-to-notar event**: in every pool reached by a run, each hash recorded in the `sent` set of
    a slot state was emitted as `Event.s2n` (for that slot) among the events of the run. -/
theorem poolRun_emit (e : Epoch) (E : Event → Prop) (ops : List PoolOp) (p : Pool) (h : EmitInv e E p)
    (hE : ∀ ev ∈ (poolRun p ops).2, E ev) : EmitInv e E (poolRun p ops).1 := by
  induction ops generalizing p with
  | nil => exact h
  | cons op ops ih =>
    simp only [poolRun] at hE ⊢
    exact ih _ (poolStep_emit e E p op h (fun ev hev => hE ev (List.mem_append_left _ hev)))
      (fun ev hev => hE ev (List.mem_append_right _ hev))

end AgModel.Pool
