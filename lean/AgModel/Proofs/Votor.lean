import AgModel.Model.Votor
/-!
# Helper lemmas for C05: the invariant linking Votor's per-slot flags to its history

`Inv ex v`: for every slot that is still retained (`firstUnpruned ≤ s`) the flags of `SlotState`
say exactly which votes are in the ghost log; for every slot (retained or pruned) the log-only facts
(`once`, `finalClean`, `Hist Good`) hold. `ex` exempts one slot from the `badWindow` clause: the
`SafeToNotar` / `SafeToSkip` arms broadcast the fallback vote *before* they set `bad_window`.
-/
namespace AgModel.Votor

/-! ## association list -/

theorem lookup_insertS (m : Slots) (s k : Nat) (v : SlotState) :
    lookup (insertS m s v) k = if s = k then some v else lookup m k := by
  induction m with
  | nil => simp [insertS, lookup]
  | cons p t ih =>
    obtain ⟨k', w⟩ := p
    simp only [insertS]
    by_cases h1 : k' = s
    · simp only [h1, if_true, lookup]
      by_cases h2 : s = k <;> simp [h2]
    · simp only [h1, if_false]
      by_cases h3 : s < k'
      · simp only [h3, if_true, lookup]
      · simp only [h3, if_false, lookup, ih]
        by_cases h2 : s = k
        · have : ¬ k' = k := by omega
          simp [h2, this]
        · simp [h2]

theorem lookup_filter (m : Slots) (b k : Nat) :
    lookup (m.filter (fun p => decide (b ≤ p.1))) k = if b ≤ k then lookup m k else none := by
  induction m with
  | nil => simp [lookup]
  | cons p t ih =>
    obtain ⟨k', w⟩ := p
    simp only [List.filter]
    by_cases h : b ≤ k'
    · simp only [h, decide_true, lookup, ih]
      split <;> split <;> simp_all
    · simp only [h, decide_false, ih, lookup]
      split
      · have : ¬ k' = k := by omega
        simp [this]
      · rfl

/-! ## item classifiers -/

def Item.isInit (s : Nat) : Item → Bool
  | .out (.notar s' _ _ _) => s' == s
  | .out (.skip s') => s' == s
  | _ => false

def Item.isNotarOf (s : Nat) : Item → Bool
  | .out (.notar s' _ _ _) => s' == s
  | _ => false

def Item.isBad (s : Nat) : Item → Bool
  | .out (.skip s') => s' == s
  | .out (.skipFallback s') => s' == s
  | .out (.notarFallback s' _) => s' == s
  | _ => false

def Item.isFinal (s : Nat) : Item → Bool
  | .out (.final s') => s' == s
  | _ => false

/-- `x` is no vote for slot `s` -/
def Item.quiet (x : Item) (s : Nat) : Prop :=
  x.isInit s = false ∧ x.isNotarOf s = false ∧ x.isBad s = false ∧ x.isFinal s = false

/-- the slot a vote is for -/
def Item.voteSlot : Item → Option Nat
  | .out (.notar s _ _ _) | .out (.skip s) | .out (.final s) | .out (.notarFallback s _)
  | .out (.skipFallback s) => some s
  | _ => none

theorem Item.quiet_of_voteSlot (x : Item) (s : Nat) (h : x.voteSlot ≠ some s) : x.quiet s := by
  unfold Item.quiet
  cases x with
  | ev e => simp [Item.isInit, Item.isNotarOf, Item.isBad, Item.isFinal]
  | out o => cases o <;> simp_all [Item.isInit, Item.isNotarOf, Item.isBad, Item.isFinal, Item.voteSlot]

/-! ## history predicates -/

/-- `P x past` holds for every item `x` of the log with the items `past` logged before it -/
def Hist (P : Item → List Item → Prop) : List Item → Prop
  | [] => True
  | x :: past => P x past ∧ Hist P past

theorem Hist.split {P : Item → List Item → Prop} : ∀ {log : List Item}, Hist P log →
    ∀ (a : List Item) (x : Item) (b : List Item), log = a ++ x :: b → P x b := by
  intro log
  induction log with
  | nil => intro _ a x b h; cases a <;> simp at h
  | cons y t ih =>
    intro hh a x b h
    cases a with
    | nil => simp at h; obtain ⟨rfl, rfl⟩ := h; exact hh.1
    | cons z a' => simp at h; exact ih hh.2 a' x b h.2

/-- what must be true of the past whenever a vote is cast -/
def Good : Item → List Item → Prop
  | .out (.notar s h ps ph), past =>
    .ev (.block s ⟨h, ps, ph⟩) ∈ past ∧
    (if s % W = 0 then .ev (.parentReady s ps ph) ∈ past
     else ps + 1 = s ∧ ((ps = 0 ∧ ph = 0) ∨ ∃ a b, .out (.notar ps ph a b) ∈ past))
  | .out (.final s), past =>
    ∃ h, ((s = 0 ∧ h = 0) ∨ ∃ ps ph, .out (.notar s h ps ph) ∈ past) ∧
         ((s = 0 ∧ h = 0) ∨ .ev (.cert .notar s h) ∈ past)
  | .out (.notarFallback s h), past => ∃ rest, past = .ev (.safeToNotar s h) :: rest
  | .out (.skipFallback s), past => ∃ rest, past = .ev (.safeToSkip s) :: rest
  | _, _ => True

/-! ## the invariant -/

structure SlotInv (log : List Item) (live : Prop) (exempt : Prop) (s : Nat) (st : SlotState) : Prop where
  notarVoted : ∀ h, st.votedNotar = some h → st.voted = true
  gen : live → s = 0 → st.voted = true
  unvoted : live → st.voted = false → ∀ x ∈ log, x.isInit s = false
  noNotar : live → st.votedNotar = none → ∀ x ∈ log, x.isNotarOf s = false
  notarWit : ∀ h, st.votedNotar = some h → (s = 0 ∧ h = 0) ∨ ∃ ps ph, .out (.notar s h ps ph) ∈ log
  good : live → ¬ exempt → st.badWindow = false → ∀ x ∈ log, x.isBad s = false
  unretired : live → st.retired = false → ∀ x ∈ log, x.isFinal s = false
  retiredNotar : st.retired = true → st.votedNotar ≠ none
  certWit : ∀ h, st.blockNotarized = some h → (s = 0 ∧ h = 0) ∨ .ev (.cert .notar s h) ∈ log
  parentWit : ∀ p ∈ st.parentsReady, (s = 0 ∧ p = (0, 0)) ∨ .ev (.parentReady s p.1 p.2) ∈ log
  pendingWit : ∀ b, st.pendingBlock = some b → .ev (.block s b) ∈ log

structure Inv (ex : Option Nat) (v : V) : Prop where
  slot : ∀ s, SlotInv v.log (v.firstUnpruned ≤ s) (ex = some s) s (v.getS s)
  keys : ∀ s st, lookup v.slots s = some st → v.firstUnpruned ≤ s
  once : ∀ s, v.log.countP (·.isInit s) ≤ 1
  finalClean : ∀ s, (∃ x ∈ v.log, x.isFinal s = true) → ∀ x ∈ v.log, x.isBad s = false
  hist : Hist Good v.log

theorem SlotInv.default (log : List Item) (ex : Prop) (s : Nat) : SlotInv log False ex s {} := by
  constructor <;> simp

/-- items that are no votes for `s` do not disturb the slot's invariant -/
theorem SlotInv.prepend {log : List Item} {live ex ex' : Prop} {s : Nat} {st : SlotState}
    (h : SlotInv log live ex s st) (xs : List Item) (hq : ∀ x ∈ xs, x.quiet s) (hex : ex → ex') :
    SlotInv (xs ++ log) live ex' s st := by
  have mem : ∀ {x}, x ∈ log → x ∈ xs ++ log := fun hx => List.mem_append_right _ hx
  constructor
  · exact h.notarVoted
  · exact h.gen
  · intro hl hv x hx
    rcases List.mem_append.mp hx with hx | hx
    · exact (hq x hx).1
    · exact h.unvoted hl hv x hx
  · intro hl hv x hx
    rcases List.mem_append.mp hx with hx | hx
    · exact (hq x hx).2.1
    · exact h.noNotar hl hv x hx
  · intro hh hv
    rcases h.notarWit hh hv with h1 | ⟨ps, ph, h1⟩
    · exact Or.inl h1
    · exact Or.inr ⟨ps, ph, mem h1⟩
  · intro hl he hv x hx
    rcases List.mem_append.mp hx with hx | hx
    · exact (hq x hx).2.2.1
    · exact h.good hl (fun e => he (hex e)) hv x hx
  · intro hl hv x hx
    rcases List.mem_append.mp hx with hx | hx
    · exact (hq x hx).2.2.2
    · exact h.unretired hl hv x hx
  · exact h.retiredNotar
  · intro hh hv
    rcases h.certWit hh hv with h1 | h1
    · exact Or.inl h1
    · exact Or.inr (mem h1)
  · intro p hp
    rcases h.parentWit p hp with h1 | h1
    · exact Or.inl h1
    · exact Or.inr (mem h1)
  · intro b hb
    exact mem (h.pendingWit b hb)

theorem countP_zero_of_all_false {p : Item → Bool} {l : List Item} (h : ∀ x ∈ l, p x = false) :
    l.countP p = 0 := by
  rw [List.countP_eq_zero]; intro x hx; simp [h x hx]

/-- **Frame lemma.** `v'` differs from `v` only in slot `s` and in a log prefix `xs` whose votes are
    all for slot `s`. -/
theorem Inv.frame {ex ex' : Option Nat} {v v' : V} (hv : Inv ex v) (s : Nat) (xs : List Item)
    (hh : v'.hfcs = v.hfcs) (hlog : v'.log = xs ++ v.log)
    (hget : ∀ k, k ≠ s → lookup v'.slots k = lookup v.slots k)
    (hs : v.firstUnpruned ≤ s)
    (hq : ∀ k, k ≠ s → ∀ x ∈ xs, x.quiet k)
    (hex : ∀ k, k ≠ s → ex = some k → ex' = some k)
    (hslot : SlotInv v'.log True (ex' = some s) s (v'.getS s))
    (honce : v'.log.countP (·.isInit s) ≤ 1)
    (hclean : (∃ x ∈ v'.log, x.isFinal s = true) → ∀ x ∈ v'.log, x.isBad s = false)
    (hhist : Hist Good v'.log) : Inv ex' v' := by
  have hfu : v'.firstUnpruned = v.firstUnpruned := by simp [V.firstUnpruned, hh]
  constructor
  · intro k
    by_cases hk : k = s
    · subst hk
      have : (v'.firstUnpruned ≤ k) = True := by simp [hfu, hs]
      rw [this]; exact hslot
    · have hg : v'.getS k = v.getS k := by simp [V.getS, hget k hk]
      rw [hg, hfu, hlog]
      exact (hv.slot k).prepend xs (hq k hk) (hex k hk)
  · intro k st hk
    rw [hfu]
    by_cases hks : k = s
    · subst hks; exact hs
    · rw [hget k hks] at hk; exact hv.keys k st hk
  · intro k
    by_cases hk : k = s
    · subst hk; exact honce
    · rw [hlog, List.countP_append, countP_zero_of_all_false (fun x hx => (hq k hk x hx).1)]
      simpa using hv.once k
  · intro k
    by_cases hk : k = s
    · subst hk; exact hclean
    · rw [hlog]
      intro ⟨x, hx, hxf⟩ y hy
      have hxl : x ∈ v.log := by
        rcases List.mem_append.mp hx with hx | hx
        · have := (hq k hk x hx).2.2.2; simp [this] at hxf
        · exact hx
      rcases List.mem_append.mp hy with hy | hy
      · exact (hq k hk y hy).2.2.1
      · exact hv.finalClean k ⟨x, hxl, hxf⟩ y hy
  · exact hhist

/-! ## state accessors under the primitive updates -/

@[simp] theorem upd_log (v : V) (s : Nat) (f) : (v.upd s f).log = v.log := rfl
@[simp] theorem upd_hfcs (v : V) (s : Nat) (f) : (v.upd s f).hfcs = v.hfcs := rfl
@[simp] theorem upd_panicked (v : V) (s : Nat) (f) : (v.upd s f).panicked = v.panicked := rfl
@[simp] theorem upd_fu (v : V) (s : Nat) (f) : (v.upd s f).firstUnpruned = v.firstUnpruned := rfl
@[simp] theorem emit_log (v : V) (o : Out) : (v.emit o).log = .out o :: v.log := rfl
@[simp] theorem emit_hfcs (v : V) (o : Out) : (v.emit o).hfcs = v.hfcs := rfl
@[simp] theorem emit_slots (v : V) (o : Out) : (v.emit o).slots = v.slots := rfl
@[simp] theorem emit_panicked (v : V) (o : Out) : (v.emit o).panicked = v.panicked := rfl
@[simp] theorem emit_fu (v : V) (o : Out) : (v.emit o).firstUnpruned = v.firstUnpruned := rfl
@[simp] theorem emit_getS (v : V) (o : Out) (k : Nat) : (v.emit o).getS k = v.getS k := rfl
@[simp] theorem panic_log (v : V) : v.panic.log = v.log := rfl
@[simp] theorem panic_hfcs (v : V) : v.panic.hfcs = v.hfcs := rfl
@[simp] theorem panic_slots (v : V) : v.panic.slots = v.slots := rfl
@[simp] theorem panic_fu (v : V) : v.panic.firstUnpruned = v.firstUnpruned := rfl
@[simp] theorem panic_getS (v : V) (k : Nat) : v.panic.getS k = v.getS k := rfl

theorem lookup_upd (v : V) (s k : Nat) (f) :
    lookup (v.upd s f).slots k = if s = k then some (f (v.getS s)) else lookup v.slots k := by
  simp [V.upd, lookup_insertS]

theorem getS_upd (v : V) (s k : Nat) (f) :
    (v.upd s f).getS k = if s = k then f (v.getS s) else v.getS k := by
  show ((lookup (v.upd s f).slots k).getD {}) = _
  rw [lookup_upd]; split <;> rfl

@[simp] theorem getS_upd_self (v : V) (s : Nat) (f) : (v.upd s f).getS s = f (v.getS s) := by
  simp [getS_upd]

theorem getS_upd_ne (v : V) (s k : Nat) (f) (h : s ≠ k) : (v.upd s f).getS k = v.getS k := by
  simp [getS_upd, h]

theorem Inv.panic {ex} {v : V} (hv : Inv ex v) : Inv ex v.panic :=
  ⟨hv.slot, hv.keys, hv.once, hv.finalClean, hv.hist⟩

/-- one logged item together with an update of the slot it is about -/
theorem Inv.act {ex ex' : Option Nat} {v : V} (hv : Inv ex v) (s : Nat) (x : Item) (f : SlotState → SlotState)
    (hs : v.firstUnpruned ≤ s) (hx : ∀ k, k ≠ s → x.voteSlot ≠ some k)
    (hex : ∀ k, k ≠ s → ex = some k → ex' = some k)
    (hslot : SlotInv (x :: v.log) True (ex' = some s) s (f (v.getS s)))
    (honce : (x :: v.log).countP (·.isInit s) ≤ 1)
    (hclean : (∃ y ∈ x :: v.log, y.isFinal s = true) → ∀ y ∈ x :: v.log, y.isBad s = false)
    (hgood : Good x v.log) :
    Inv ex' (({ v with log := x :: v.log } : V).upd s f) := by
  refine Inv.frame hv s [x] rfl rfl ?_ hs ?_ hex ?_ honce hclean ⟨hgood, hv.hist⟩
  · intro k hk; rw [lookup_upd]; simp [Ne.symm hk]
  · intro k hk y hy; simp at hy; subst hy; exact Item.quiet_of_voteSlot _ _ (hx k hk)
  · rw [getS_upd_self]; exact hslot

/-- a vote logged without touching the slot's state -/
theorem Inv.vote {ex ex' : Option Nat} {v : V} (hv : Inv ex v) (s : Nat) (x : Item)
    (hs : v.firstUnpruned ≤ s) (hx : ∀ k, k ≠ s → x.voteSlot ≠ some k)
    (hex : ∀ k, k ≠ s → ex = some k → ex' = some k)
    (hslot : SlotInv (x :: v.log) True (ex' = some s) s (v.getS s))
    (honce : (x :: v.log).countP (·.isInit s) ≤ 1)
    (hclean : (∃ y ∈ x :: v.log, y.isFinal s = true) → ∀ y ∈ x :: v.log, y.isBad s = false)
    (hgood : Good x v.log) :
    Inv ex' ({ v with log := x :: v.log } : V) := by
  refine Inv.frame hv s [x] rfl rfl (fun _ _ => rfl) hs ?_ hex hslot honce hclean ⟨hgood, hv.hist⟩
  intro k hk y hy; simp at hy; subst hy; exact Item.quiet_of_voteSlot _ _ (hx k hk)

/-- an update of one retained slot's state, nothing logged -/
theorem Inv.updS {ex ex' : Option Nat} {v : V} (hv : Inv ex v) (s : Nat) (f : SlotState → SlotState)
    (hs : v.firstUnpruned ≤ s) (hex : ∀ k, k ≠ s → ex = some k → ex' = some k)
    (hslot : SlotInv v.log True (ex' = some s) s (f (v.getS s))) : Inv ex' (v.upd s f) := by
  refine Inv.frame hv s [] rfl rfl ?_ hs (by simp) hex ?_ (hv.once s) (hv.finalClean s) hv.hist
  · intro k hk; rw [lookup_upd]; simp [Ne.symm hk]
  · rw [getS_upd_self]; exact hslot

/-- an item that is no vote (event, certificate, relay, timer request) -/
theorem Inv.note {ex : Option Nat} {v : V} (hv : Inv ex v) (x : Item) (hx : x.voteSlot = none)
    (hgood : Good x v.log) : Inv ex ({ v with log := x :: v.log } : V) := by
  have hq : ∀ k, x.quiet k := fun k => Item.quiet_of_voteSlot _ _ (by simp [hx])
  have hl := hv.slot v.firstUnpruned
  refine Inv.frame hv v.firstUnpruned [x] rfl rfl (fun _ _ => rfl) (Nat.le_refl _) ?_ (fun _ _ h => h) ?_ ?_ ?_ ⟨hgood, hv.hist⟩
  · intro k _ y hy; simp at hy; subst hy; exact hq k
  · have := hl.prepend [x] (by intro y hy; simp at hy; subst hy; exact hq _) (fun h => h)
    simp only [List.singleton_append, Nat.le_refl] at this
    exact this
  · show (x :: v.log).countP _ ≤ 1
    rw [List.countP_cons]; simp [(hq v.firstUnpruned).1]; exact hv.once _
  · intro ⟨y, hy, hyf⟩ z hz
    have hyl : y ∈ v.log := by
      rcases List.mem_cons.mp hy with rfl | h
      · simp [(hq _).2.2.2] at hyf
      · exact h
    rcases List.mem_cons.mp hz with rfl | h
    · exact (hq _).2.2.1
    · exact hv.finalClean _ ⟨y, hyl, hyf⟩ z h

/-! ## the primitives preserve the invariant -/

theorem mem_cons_of_mem' {x : Item} {l : List Item} {y : Item} (h : y ∈ l) : y ∈ x :: l :=
  List.mem_cons_of_mem _ h

theorem Inv.tryFinal {v : V} (hv : Inv none v) (slot hash : Nat) : Inv none (v.tryFinal slot hash) := by
  unfold V.tryFinal
  split
  · exact hv.panic
  · rename_i hlt
    have hs : v.firstUnpruned ≤ slot := Nat.le_of_not_lt hlt
    simp only []
    split
    · rename_i hc
      obtain ⟨hbn, hvn, hbad⟩ := hc
      have hl := hv.slot slot
      simp only [hs] at hl
      obtain ⟨l1, l2, l3, l4, l5, l6, l7, l8, l9, l10, l11⟩ := hl
      refine hv.act slot (.out (.final slot)) _ hs (by intro k hk; simp [Item.voteSlot]; omega) (by simp) ?_ ?_ ?_ ?_
      · constructor <;> simp only [List.mem_cons] <;> grind [Item.isInit, Item.isNotarOf, Item.isBad, Item.isFinal]
      · rw [List.countP_cons]; simp [Item.isInit]; exact hv.once slot
      · intro _ y hy
        rcases List.mem_cons.mp hy with rfl | h
        · simp [Item.isBad]
        · exact l6 trivial (by simp) hbad y h
      · exact ⟨hash, l5 hash hvn, l9 hash hbn⟩
    · exact hv

@[simp] theorem tryFinal_hfcs (v : V) (slot hash : Nat) : (v.tryFinal slot hash).hfcs = v.hfcs := by
  unfold V.tryFinal; split
  · rfl
  · simp only []; split <;> rfl

theorem Inv.tryNotar {v : V} (hv : Inv none v) (slot : Nat) (b : BlockInfo)
    (hb : .ev (.block slot b) ∈ v.log) : Inv none (v.tryNotar slot b).1 := by
  unfold V.tryNotar
  split
  · exact hv.panic
  · rename_i hlt
    have hs : v.firstUnpruned ≤ slot := Nat.le_of_not_lt hlt
    split
    · exact hv
    · rename_i hvoted
      split
      · rename_i hpar
        simp only []
        apply Inv.tryFinal
        have hl := hv.slot slot
        simp only [hs] at hl
        obtain ⟨l1, l2, l3, l4, l5, l6, l7, l8, l9, l10, l11⟩ := hl
        have hnv : (v.getS slot).voted = false := by simpa using hvoted
        have hnr : (v.getS slot).retired = false := by
          cases hr : (v.getS slot).retired with
          | false => rfl
          | true =>
            have := l8 hr
            cases hn : (v.getS slot).votedNotar with
            | none => exact absurd hn this
            | some h => have := l1 h hn; simp [hnv] at this
        refine hv.act slot (.out (.notar slot b.hash b.pslot b.phash)) _ hs
          (by intro k hk; simp [Item.voteSlot]; omega) (by simp) ?_ ?_ ?_ ?_
        · constructor
          case notarWit =>
            intro h hh
            simp only [Option.some.injEq] at hh
            subst hh
            exact Or.inr ⟨_, _, List.mem_cons_self⟩
          all_goals (simp only [List.mem_cons]; grind [Item.isInit, Item.isNotarOf, Item.isBad, Item.isFinal])
        · rw [List.countP_cons, countP_zero_of_all_false (l3 trivial hnv)]; split <;> omega
        · intro ⟨y, hy, hyf⟩
          rcases List.mem_cons.mp hy with rfl | h
          · simp [Item.isFinal] at hyf
          · have := l7 trivial hnr y h; simp [this] at hyf
        · refine ⟨hb, ?_⟩
          unfold V.parentOk at hpar
          split
          · rename_i hw
            simp only [hw, if_true] at hpar
            have hmem : (b.pslot, b.phash) ∈ (v.getS slot).parentsReady := by
              simpa using hpar
            rcases l10 _ hmem with ⟨h0, _⟩ | h
            · have := l2 trivial h0; simp [hnv] at this
            · exact h
          · rename_i hw
            simp only [hw, if_false, Bool.and_eq_true, decide_eq_true_eq] at hpar
            refine ⟨hpar.1, ?_⟩
            exact (hv.slot b.pslot).notarWit b.phash hpar.2
      · exact hv

@[simp] theorem tryNotar_hfcs (v : V) (slot : Nat) (b : BlockInfo) : (v.tryNotar slot b).1.hfcs = v.hfcs := by
  unfold V.tryNotar
  split
  · rfl
  · split
    · rfl
    · split
      · simp
      · rfl

theorem W_pos : 0 < W := by decide

theorem upd_emit (v : V) (s : Nat) (f : SlotState → SlotState) (o : Out) :
    (v.upd s f).emit o = ({ v with log := .out o :: v.log } : V).upd s f := rfl

theorem firstInWindow_le (s : Nat) : firstInWindow s ≤ s := Nat.div_mul_le_self s W

theorem firstInWindow_mono {h s : Nat} (hle : firstInWindow h ≤ s) : firstInWindow h ≤ firstInWindow s := by
  unfold firstInWindow at *
  have : h / W ≤ s / W := (Nat.le_div_iff_mul_le W_pos).mpr hle
  exact Nat.mul_le_mul_right W this

theorem mem_windowSlots {s k : Nat} (h : k ∈ windowSlots s) : firstInWindow s ≤ k := by
  unfold windowSlots at h
  rw [List.mem_range'] at h
  obtain ⟨i, _, rfl⟩ := h
  omega

theorem Inv.skipSlots {ex : Option Nat} : ∀ (l : List Nat) {v : V}, Inv ex v →
    (∀ s ∈ l, v.firstUnpruned ≤ s) → Inv ex (v.skipSlots l) := by
  intro l
  induction l with
  | nil => intro v hv _; exact hv
  | cons s rest ih =>
    intro v hv hb
    unfold V.skipSlots
    have hs : v.firstUnpruned ≤ s := hb s (by simp)
    split
    · exact ih hv (fun k hk => hb k (by simp [hk]))
    · rename_i hvoted
      apply ih
      · have hl := hv.slot s
        simp only [hs] at hl
        obtain ⟨l1, l2, l3, l4, l5, l6, l7, l8, l9, l10, l11⟩ := hl
        have hnv : (v.getS s).voted = false := by simpa using hvoted
        have hnn : (v.getS s).votedNotar = none := by
          cases hn : (v.getS s).votedNotar with
          | none => rfl
          | some h => have := l1 h hn; simp [hnv] at this
        have hnr : (v.getS s).retired = false := by
          cases hr : (v.getS s).retired with
          | false => rfl
          | true => exact absurd hnn (l8 hr)
        rw [upd_emit]
        refine hv.act s (.out (.skip s)) _ hs (by intro k hk; simp [Item.voteSlot]; omega) (fun _ _ h => h) ?_ ?_ ?_ trivial
        · constructor
          all_goals (simp only [List.mem_cons]; grind [Item.isInit, Item.isNotarOf, Item.isBad, Item.isFinal])
        · rw [List.countP_cons, countP_zero_of_all_false (l3 trivial hnv)]; split <;> omega
        · intro ⟨y, hy, hyf⟩
          rcases List.mem_cons.mp hy with rfl | h
          · simp [Item.isFinal] at hyf
          · have := l7 trivial hnr y h; simp [this] at hyf
      · intro k hk; exact hb k (by simp [hk])

@[simp] theorem skipSlots_hfcs : ∀ (l : List Nat) (v : V), (v.skipSlots l).hfcs = v.hfcs := by
  intro l
  induction l with
  | nil => intro v; rfl
  | cons s rest ih =>
    intro v; unfold V.skipSlots; split
    · exact ih v
    · rw [ih]; rfl

theorem Inv.trySkipWindow {ex : Option Nat} {v : V} (hv : Inv ex v) (slot : Nat) :
    Inv ex (v.trySkipWindow slot) := by
  unfold V.trySkipWindow
  split
  · exact hv.panic
  · rename_i hlt
    apply hv.skipSlots
    intro k hk
    have h1 := mem_windowSlots hk
    have h2 : v.firstUnpruned ≤ firstInWindow slot := firstInWindow_mono (Nat.le_of_not_lt hlt)
    omega

@[simp] theorem trySkipWindow_hfcs (v : V) (slot : Nat) : (v.trySkipWindow slot).hfcs = v.hfcs := by
  unfold V.trySkipWindow; split
  · rfl
  · simp

theorem Inv.checkPendingLoop : ∀ (l : List Nat) {v : V}, Inv none v → Inv none (v.checkPendingLoop l) := by
  intro l
  induction l with
  | nil => intro v hv; exact hv
  | cons s rest ih =>
    intro v hv
    unfold V.checkPendingLoop
    split
    · rename_i b hb
      exact ih (hv.tryNotar s b ((hv.slot s).pendingWit b hb))
    · exact ih hv

@[simp] theorem checkPendingLoop_hfcs : ∀ (l : List Nat) (v : V), (v.checkPendingLoop l).hfcs = v.hfcs := by
  intro l
  induction l with
  | nil => intro v; rfl
  | cons s rest ih =>
    intro v; unfold V.checkPendingLoop; split
    · rw [ih]; simp
    · exact ih v

theorem Inv.checkPending {v : V} (hv : Inv none v) : Inv none v.checkPending := hv.checkPendingLoop _

@[simp] theorem checkPending_hfcs (v : V) : v.checkPending.hfcs = v.hfcs := by simp [V.checkPending]

theorem Inv.setTimeouts {ex} {v : V} (hv : Inv ex v) (s : Nat) : Inv ex (v.setTimeouts s) := by
  unfold V.setTimeouts
  split
  · exact hv.note (.out (.timer s)) rfl trivial
  · exact hv.panic

@[simp] theorem setTimeouts_hfcs (v : V) (s : Nat) : (v.setTimeouts s).hfcs = v.hfcs := by
  unfold V.setTimeouts; split <;> rfl

@[simp] theorem setTimeouts_slots (v : V) (s : Nat) : (v.setTimeouts s).slots = v.slots := by
  unfold V.setTimeouts; split <;> rfl

theorem Inv.emitAll {ex} : ∀ (l : List Nat) {v : V}, Inv ex v → Inv ex (v.emitAll (l.map .relay)) := by
  intro l
  induction l with
  | nil => intro v hv; exact hv
  | cons i rest ih => intro v hv; exact ih (hv.note (.out (.relay i)) rfl trivial)

/-- raising `highest_final_cert_slot` and pruning -/
theorem Inv.raisePrune {v : V} (hv : Inv none v) (slot : Nat) :
    Inv none ({ v with hfcs := max v.hfcs slot } : V).prune := by
  have hmono : v.firstUnpruned ≤ firstInWindow (max v.hfcs slot) := by
    apply firstInWindow_mono
    have := firstInWindow_le v.hfcs
    show firstInWindow v.hfcs ≤ _
    omega
  have hget : ∀ k, ({ v with hfcs := max v.hfcs slot } : V).prune.getS k =
      if firstInWindow (max v.hfcs slot) ≤ k then v.getS k else {} := by
    intro k
    show (lookup (v.slots.filter _) k).getD {} = _
    rw [show (fun p : Nat × SlotState => decide (({ v with hfcs := max v.hfcs slot } : V).firstUnpruned ≤ p.1)) =
      (fun p => decide (firstInWindow (max v.hfcs slot) ≤ p.1)) from rfl, lookup_filter]
    split <;> rfl
  constructor
  · intro k
    rw [hget]
    show SlotInv v.log (firstInWindow (max v.hfcs slot) ≤ k) _ _ _
    by_cases hk : firstInWindow (max v.hfcs slot) ≤ k
    · simp only [hk, if_true]
      have := hv.slot k
      have hk' : v.firstUnpruned ≤ k := by omega
      simpa [hk'] using this
    · simp only [hk, if_false]
      exact SlotInv.default _ _ _
  · intro k st hk
    show firstInWindow (max v.hfcs slot) ≤ k
    have : lookup (v.slots.filter (fun p => decide (firstInWindow (max v.hfcs slot) ≤ p.1))) k = some st := hk
    rw [lookup_filter] at this
    split at this
    · assumption
    · cases this
  · exact hv.once
  · exact hv.finalClean
  · exact hv.hist

theorem mem_insertParent {l : List (Nat × Nat)} {p q : Nat × Nat} (h : q ∈ insertParent l p) : q = p ∨ q ∈ l := by
  unfold insertParent at h
  split at h
  · exact Or.inr h
  · simpa using h

theorem tryNotar_false (v : V) (s : Nat) (b : BlockInfo) (h : (v.tryNotar s b).2 = false) :
    (v.tryNotar s b).1 = v ∨ (v.tryNotar s b).1 = v.panic := by
  unfold V.tryNotar at *
  split
  · exact Or.inr rfl
  · split
    · exact Or.inl rfl
    · split
      · rename_i h1 h2 h3; simp [h1, h2, h3] at h
      · exact Or.inl rfl

theorem fu_le_hfcs (v : V) : v.firstUnpruned ≤ v.hfcs := firstInWindow_le _

/-- the fallback arms: vote first, `bad_window` last -/
theorem Inv.fallback {v : V} (hv : Inv none v) (slot : Nat) (x : Item)
    (hx : x = .out (.skipFallback slot) ∨ ∃ h, x = .out (.notarFallback slot h))
    (hgood : Good x v.log) (hs : v.firstUnpruned ≤ slot) (hr : (v.getS slot).retired = false) :
    Inv none ((({ v with log := x :: v.log } : V).trySkipWindow slot).upd slot (fun s => { s with badWindow := true })) := by
  have hvs : x.voteSlot = some slot := by
    rcases hx with rfl | ⟨h, rfl⟩ <;> rfl
  have hni : x.isInit slot = false ∧ x.isNotarOf slot = false ∧ x.isFinal slot = false := by
    rcases hx with rfl | ⟨h, rfl⟩ <;> simp [Item.isInit, Item.isNotarOf, Item.isFinal]
  have hl := hv.slot slot
  simp only [hs] at hl
  have h1 : Inv (some slot) ({ v with log := x :: v.log } : V) := by
    obtain ⟨l1, l2, l3, l4, l5, l6, l7, l8, l9, l10, l11⟩ := hl
    refine hv.vote slot x hs (by intro k hk; simp [hvs]; omega) (by simp) ?_ ?_ ?_ hgood
    · constructor
      all_goals ((try simp only [List.mem_cons]); grind)
    · rw [List.countP_cons]; simp [hni.1]; exact hv.once slot
    · intro ⟨y, hy, hyf⟩
      rcases List.mem_cons.mp hy with rfl | h
      · simp [hni.2.2] at hyf
      · have := l7 trivial hr y h; simp [this] at hyf
  have h2 := h1.trySkipWindow slot
  have hs2 : (({ v with log := x :: v.log } : V).trySkipWindow slot).firstUnpruned ≤ slot := by
    simp only [V.firstUnpruned, trySkipWindow_hfcs]; exact hs
  have hl2 := h2.slot slot
  simp only [hs2] at hl2
  obtain ⟨l1, l2, l3, l4, l5, l6, l7, l8, l9, l10, l11⟩ := hl2
  refine h2.updS slot _ hs2 (by intro k hk h; simp at h; omega) ?_
  constructor
  all_goals grind

theorem Inv.handle {v : V} (hv : Inv none v) (e : Event) (hhead : ∃ rest, v.log = .ev e :: rest)
    (hign : v.ignores e = false) : Inv none (v.handle e) := by
  obtain ⟨rest, hhead⟩ := hhead
  have hmem : .ev e ∈ v.log := by simp [hhead]
  cases e with
  | parentReady slot ps ph =>
    simp only [V.ignores, Bool.or_eq_false_iff, decide_eq_false_iff_not] at hign
    have hs : v.firstUnpruned ≤ slot := Nat.le_of_not_lt hign.1
    simp only [V.handle]
    apply Inv.setTimeouts
    apply Inv.checkPending
    have hl := hv.slot slot
    simp only [hs] at hl
    obtain ⟨l1, l2, l3, l4, l5, l6, l7, l8, l9, l10, l11⟩ := hl
    refine hv.updS slot _ hs (fun _ _ h => h) ?_
    constructor
    case parentWit =>
      intro p hp
      rcases mem_insertParent hp with rfl | h
      · exact Or.inr hmem
      · exact l10 p h
    all_goals grind
  | safeToNotar slot hash =>
    simp only [V.ignores, Bool.or_eq_false_iff, decide_eq_false_iff_not] at hign
    exact hv.fallback slot (.out (.notarFallback slot hash)) (Or.inr ⟨hash, rfl⟩) ⟨rest, hhead⟩
      (Nat.le_of_not_lt hign.1) hign.2
  | safeToSkip slot =>
    simp only [V.ignores, Bool.or_eq_false_iff, decide_eq_false_iff_not] at hign
    exact hv.fallback slot (.out (.skipFallback slot)) (Or.inl rfl) ⟨rest, hhead⟩
      (Nat.le_of_not_lt hign.1) hign.2
  | cert kind slot hash =>
    simp only [V.ignores, decide_eq_false_iff_not] at hign
    have hs : v.firstUnpruned ≤ slot := Nat.le_of_not_lt hign
    cases kind with
    | notar =>
      simp only [V.handle]
      refine Inv.note (Inv.tryFinal ?_ slot hash) _ rfl trivial
      have hl := hv.slot slot
      simp only [hs] at hl
      obtain ⟨l1, l2, l3, l4, l5, l6, l7, l8, l9, l10, l11⟩ := hl
      refine hv.updS slot _ hs (fun _ _ h => h) ?_
      constructor
      case certWit =>
        intro h hh
        simp only [Option.some.injEq] at hh
        subst hh
        exact Or.inr hmem
      all_goals grind
    | final =>
      simp only [V.handle]
      exact Inv.note (Inv.raisePrune (hv.setTimeouts _) slot) _ rfl trivial
    | fastFinal =>
      simp only [V.handle]
      exact Inv.note (Inv.raisePrune (hv.setTimeouts _) slot) _ rfl trivial
    | skip => exact hv.note _ rfl trivial
    | notarFallback => exact hv.note _ rfl trivial
  | standstill slot relay => exact hv.emitAll relay
  | firstShred slot =>
    simp only [V.ignores, Bool.or_eq_false_iff, decide_eq_false_iff_not] at hign
    have hs : v.firstUnpruned ≤ slot := by have := fu_le_hfcs v; omega
    have hl := hv.slot slot
    simp only [hs] at hl
    obtain ⟨l1, l2, l3, l4, l5, l6, l7, l8, l9, l10, l11⟩ := hl
    simp only [V.handle]
    refine hv.updS slot _ hs (fun _ _ h => h) ?_
    constructor
    all_goals grind
  | invalidBlock slot => exact hv.trySkipWindow slot
  | block slot b =>
    simp only [V.ignores, Bool.or_eq_false_iff, decide_eq_false_iff_not] at hign
    have hs : v.firstUnpruned ≤ slot := by have := fu_le_hfcs v; omega
    simp only [V.handle]
    split
    · exact hv
    · have h1 := hv.tryNotar slot b hmem
      split
      · exact h1.checkPending
      · rename_i hr2
        have hr2' : (v.tryNotar slot b).2 = false := by simpa using hr2
        have hcase := tryNotar_false v slot b hr2'
        have hlog : (v.tryNotar slot b).1.log = v.log := by rcases hcase with h | h <;> rw [h] <;> rfl
        have hs1 : (v.tryNotar slot b).1.firstUnpruned ≤ slot := by
          simp only [V.firstUnpruned, tryNotar_hfcs]; exact hs
        have hl := h1.slot slot
        simp only [hs1] at hl
        obtain ⟨l1, l2, l3, l4, l5, l6, l7, l8, l9, l10, l11⟩ := hl
        refine h1.updS slot _ hs1 (fun _ _ h => h) ?_
        constructor
        case pendingWit =>
          intro b' hb'
          simp only [Option.some.injEq] at hb'
          subst hb'
          rw [hlog]; exact hmem
        all_goals grind
  | timeout slot =>
    simp only [V.handle]
    split
    · exact hv
    · exact hv.trySkipWindow slot
  | timeoutCrashed slot =>
    simp only [V.handle]
    split
    · exact hv
    · exact hv.trySkipWindow slot

theorem Inv.step {v : V} (hv : Inv none v) (e : Event) : Inv none (step v e) := by
  unfold AgModel.Votor.step
  split
  · exact hv
  · have h1 : Inv none (v.logEv e) := hv.note (.ev e) rfl trivial
    simp only []
    split
    · exact h1
    · rename_i hi
      exact h1.handle e ⟨v.log, rfl⟩ (by simpa using hi)

theorem Inv.init : Inv none init := by
  have hg : ∀ k, AgModel.Votor.init.getS k = if k = 0 then genesisState else {} := by
    intro k
    show (lookup [(0, genesisState)] k).getD {} = _
    simp only [lookup]
    by_cases hk : k = 0
    · subst hk; simp
    · have : ¬ 0 = k := fun h => hk h.symm
      simp [this, hk]
  constructor
  · intro k
    rw [hg]
    by_cases hk : k = 0
    · subst hk
      constructor <;> simp [genesisState, AgModel.Votor.init, Item.isInit, Item.isNotarOf, Item.isBad, Item.isFinal]
    · simp only [hk, if_false]
      constructor <;> simp [AgModel.Votor.init, Item.isInit, Item.isNotarOf, Item.isBad, Item.isFinal, hk]
  · intro k st hk
    show firstInWindow 0 ≤ k
    simp [firstInWindow]
  · intro s; simp [AgModel.Votor.init, Item.isInit]
  · intro s; simp [AgModel.Votor.init, Item.isFinal]
  · exact ⟨trivial, trivial⟩

theorem Inv.run : ∀ (es : List Event) {v : V}, Inv none v → Inv none (run v es) := by
  intro es
  induction es with
  | nil => intro v hv; exact hv
  | cons e es ih => intro v hv; exact ih (hv.step e)

/-- the invariant holds in every reachable state -/
theorem inv_reachable (es : List Event) : Inv none (run init es) := Inv.init.run es

end AgModel.Votor
