import AgModel.Model.Wire
/-! Lawfulness of the codec combinators of `AgModel.Wire` and of the message codecs built from them
(core Lean only). -/
namespace AgModel.Wire

/-- The two laws every codec of the wire format satisfies:
    `rt`: decoding the encoding of a representable value, followed by anything, returns the value
          and exactly the rest;
    `dv`: whatever the decoder returns is a representable value. -/
structure Lawful {α : Type} (c : Codec α) : Prop where
  rt : ∀ a rest, c.valid a → c.dec (c.enc a ++ rest) = some (a, rest)
  dv : ∀ bs a rest, c.dec bs = some (a, rest) → c.valid a

/-! ### integers -/

theorem leBytes_length (k n : Nat) : (leBytes k n).length = k := by
  induction k generalizing n with
  | zero => rfl
  | succ k ih => simp [leBytes, ih]

theorem leVal_leBytes (k n : Nat) : leVal (leBytes k n) = n % 256 ^ k := by
  induction k generalizing n with
  | zero => simp [leBytes, leVal, Nat.mod_one]
  | succ k ih =>
    simp only [leBytes, leVal, ih, Nat.mod_mod]
    rw [Nat.pow_succ, Nat.mul_comm (256 ^ k) 256, Nat.mod_mul]

theorem leVal_lt (bs : Bytes) : leVal bs < 256 ^ bs.length := by
  induction bs with
  | nil => simp [leVal]
  | cons b bs ih =>
    simp only [leVal, List.length_cons, Nat.pow_succ]
    have : b % 256 < 256 := Nat.mod_lt _ (by decide)
    omega

theorem take_append_len {α : Type} (a b : List α) (n : Nat) (h : a.length = n) : (a ++ b).take n = a := by
  subst h; simp

theorem drop_append_len {α : Type} (a b : List α) (n : Nat) (h : a.length = n) : (a ++ b).drop n = b := by
  subst h; simp

theorem uint_lawful (k : Nat) : Lawful (uint k) where
  rt a rest h := by
    have hl := leBytes_length k a
    simp only [uint, List.length_append, hl]
    rw [if_neg (by omega), take_append_len _ _ _ hl, drop_append_len _ _ _ hl, leVal_leBytes]
    simp only [uint] at h
    rw [Nat.mod_eq_of_lt h]
  dv bs a rest h := by
    simp only [uint] at h ⊢
    split at h
    · simp at h
    · simp only [Option.some.injEq, Prod.mk.injEq] at h
      rw [← h.1]
      have := leVal_lt (bs.take k)
      rw [List.length_take] at this
      have hk : min k bs.length = k := by omega
      rw [hk] at this; exact this

theorem uint_dec_enc (k a : Nat) (rest : Bytes) (h : a < 256 ^ k) :
    (uint k).dec (leBytes k a ++ rest) = some (a, rest) := (uint_lawful k).rt a rest h

theorem bool_lawful : Lawful bool where
  rt a rest _ := by cases a <;> simp [bool]
  dv _ _ _ _ := trivial

/-! ### combinators -/

theorem map_mod_id (b : Bytes) (h : ∀ x ∈ b, x < 256) : b.map (· % 256) = b := by
  induction b with
  | nil => rfl
  | cons x xs ih =>
    simp only [List.map_cons]
    rw [Nat.mod_eq_of_lt (h x (by simp)), ih (fun y hy => h y (by simp [hy]))]

theorem blob_lawful (n : Nat) : Lawful (blob n) where
  rt a rest h := by
    obtain ⟨hl, hb⟩ := h
    simp only [blob, map_mod_id a hb, List.length_append]
    rw [if_neg (by omega), take_append_len _ _ _ hl, drop_append_len _ _ _ hl, map_mod_id a hb]
  dv bs a rest h := by
    simp only [blob] at h ⊢
    split at h
    · simp at h
    · simp only [Option.some.injEq, Prod.mk.injEq] at h
      rw [← h.1]
      refine ⟨by simp; omega, ?_⟩
      intro x hx
      simp only [List.mem_map] at hx
      obtain ⟨y, _, rfl⟩ := hx
      exact Nat.mod_lt _ (by decide)

theorem pair_lawful {α β : Type} {a : Codec α} {b : Codec β} (ha : Lawful a) (hb : Lawful b) : Lawful (pair a b) where
  rt p rest h := by
    simp only [pair, List.append_assoc]
    rw [ha.rt p.1 _ h.1]
    simp only
    rw [hb.rt p.2 _ h.2]
  dv bs p rest h := by
    simp only [pair] at h ⊢
    split at h
    · simp at h
    · rename_i x r hx
      split at h
      · simp at h
      · rename_i y r' hy
        simp only [Option.some.injEq, Prod.mk.injEq] at h
        rw [← h.1]
        exact ⟨ha.dv _ _ _ hx, hb.dv _ _ _ hy⟩

theorem iso_lawful {α β : Type} {c : Codec α} (hc : Lawful c) (to : α → β) (frm : β → α)
    (hinv : ∀ a, frm (to a) = a) : Lawful (iso c to frm) where
  rt b rest h := by
    simp only [iso]
    rw [hc.rt (frm b) rest h.1]
    simp only [h.2]
  dv bs b rest h := by
    simp only [iso] at h ⊢
    split at h
    · simp at h
    · rename_i a r ha
      simp only [Option.some.injEq, Prod.mk.injEq] at h
      rw [← h.1, hinv]
      exact ⟨hc.dv _ _ _ ha, rfl⟩

theorem guard_lawful {α : Type} {c : Codec α} (hc : Lawful c) (p : α → Bool) : Lawful (guard c p) where
  rt a rest h := by
    simp only [guard]
    rw [hc.rt a rest h.1]
    simp [h.2]
  dv bs a rest h := by
    simp only [guard] at h ⊢
    split at h
    · simp at h
    · rename_i x r hx
      split at h
      · rename_i hp
        simp only [Option.some.injEq, Prod.mk.injEq] at h
        rw [← h.1]
        exact ⟨hc.dv _ _ _ hx, hp⟩
      · simp at h

theorem decN_encAll {α : Type} {c : Codec α} (hc : Lawful c) (l : List α) (rest : Bytes) (h : ∀ x ∈ l, c.valid x) :
    decN c l.length (encAll c l ++ rest) = some (l, rest) := by
  induction l with
  | nil => rfl
  | cons x xs ih =>
    simp only [List.length_cons, decN, encAll, List.append_assoc]
    rw [hc.rt x _ (h x (by simp))]
    simp only
    rw [ih (fun y hy => h y (by simp [hy]))]

theorem decN_valid {α : Type} {c : Codec α} (hc : Lawful c) (n : Nat) (bs : Bytes) (l : List α) (rest : Bytes)
    (h : decN c n bs = some (l, rest)) : l.length = n ∧ ∀ x ∈ l, c.valid x := by
  induction n generalizing bs l rest with
  | zero => simp only [decN, Option.some.injEq, Prod.mk.injEq] at h; rw [← h.1]; simp
  | succ n ih =>
    simp only [decN] at h
    split at h
    · simp at h
    · rename_i x r hx
      split at h
      · simp at h
      · rename_i xs r' hxs
        simp only [Option.some.injEq, Prod.mk.injEq] at h
        rw [← h.1]
        have := ih r xs r' hxs
        refine ⟨by simp [this.1], ?_⟩
        intro y hy
        simp only [List.mem_cons] at hy
        rcases hy with rfl | hy
        · exact hc.dv _ _ _ hx
        · exact this.2 y hy

theorem vec_lawful {α : Type} {c : Codec α} (hc : Lawful c) (elemSize limit : Nat) : Lawful (vec c elemSize limit) where
  rt l rest h := by
    obtain ⟨h1, h2, h3⟩ := h
    simp only [vec, List.append_assoc]
    rw [uint_dec_enc 8 l.length _ h2]
    simp only
    rw [if_neg (by omega)]
    exact decN_encAll hc l rest h3
  dv bs l rest h := by
    simp only [vec] at h ⊢
    split at h
    · simp at h
    · rename_i n r hn
      split at h
      · simp at h
      · rename_i hlim
        have := decN_valid hc n r l rest h
        have hn' := (uint_lawful 8).dv _ _ _ hn
        simp only [uint] at hn'
        rw [this.1]
        exact ⟨by omega, hn', this.2⟩

theorem opt_lawful {α : Type} {c : Codec α} (hc : Lawful c) : Lawful (opt c) where
  rt a rest h := by
    cases a with
    | none => simp [opt]
    | some a =>
      simp only [opt, List.cons_append]
      simp only [opt] at h
      rw [hc.rt a rest h]
      simp
  dv bs a rest h := by
    simp only [opt] at h
    split at h
    · simp at h
    · rename_i t r
      split at h
      · simp only [Option.some.injEq, Prod.mk.injEq] at h; rw [← h.1]; trivial
      · split at h
        · split at h
          · simp at h
          · rename_i x r' hx
            simp only [Option.some.injEq, Prod.mk.injEq] at h
            rw [← h.1]
            exact hc.dv _ _ _ hx
        · simp at h

theorem tagged_lawful {α : Type} (tagOf : α → Nat) (variants : Nat → Option (Codec α))
    (hv : ∀ t c, variants t = some c → Lawful c)
    (htag : ∀ t c a, variants t = some c → c.valid a → tagOf a = t)
    (hlt : ∀ t c, variants t = some c → t < 256 ^ 4) : Lawful (tagged tagOf variants) where
  rt a rest h := by
    obtain ⟨c, hc, hval⟩ := h
    simp only [tagged, hc, List.append_assoc]
    rw [uint_dec_enc 4 (tagOf a) _ (hlt _ _ hc)]
    simp only [hc]
    exact (hv _ _ hc).rt a rest hval
  dv bs a rest h := by
    simp only [tagged] at h ⊢
    split at h
    · simp at h
    · rename_i t r ht
      split at h
      · simp at h
      · rename_i c hc
        have hval := (hv _ _ hc).dv _ _ _ h
        have := htag t c a hc hval
        exact ⟨c, by rw [this]; exact hc, hval⟩

/-! ### consequences of lawfulness (for every codec) -/

/-- round trip under `deserialize_exact` -/
theorem Lawful.decode_encode {α : Type} {c : Codec α} (hc : Lawful c) (a : α) (h : c.valid a) :
    decodeExact c (c.enc a) = some a := by
  have := hc.rt a [] h
  rw [List.append_nil] at this
  simp [decodeExact, this]

/-- trailing bytes after a valid encoding are rejected -/
theorem Lawful.rejects_trailing {α : Type} {c : Codec α} (hc : Lawful c) (a : α) (h : c.valid a) (t : Bytes) (ht : t ≠ []) :
    decodeExact c (c.enc a ++ t) = none := by
  have := hc.rt a t h
  simp only [decodeExact, this]
  cases t with
  | nil => exact absurd rfl ht
  | cons x xs => rfl

/-- whatever decodes, re-encodes to a byte string that decodes to the same message (so the second
    encoding equals the first: the encoding is stable) -/
theorem Lawful.reencode_stable {α : Type} {c : Codec α} (hc : Lawful c) (bs : Bytes) (a : α)
    (h : decodeExact c bs = some a) : decodeExact c (c.enc a) = some a := by
  unfold decodeExact at h
  split at h
  · rename_i a' heq
    simp only [Option.some.injEq] at h
    subst h
    exact hc.decode_encode a' (hc.dv _ _ _ heq)
  · simp at h

/-- encodings of distinct representable values differ -/
theorem Lawful.enc_injective {α : Type} {c : Codec α} (hc : Lawful c) (a b : α) (ha : c.valid a) (hb : c.valid b)
    (h : c.enc a = c.enc b) : a = b := by
  have h1 := hc.rt a [] ha
  have h2 := hc.rt b [] hb
  rw [h, h2] at h1
  simp only [Option.some.injEq, Prod.mk.injEq, and_true] at h1
  exact h1.symm

/-! ### the message codecs are lawful -/

theorem u64_lawful : Lawful u64 := uint_lawful 8
theorem hash_lawful : Lawful hash := blob_lawful 32
theorem sliceIndex_lawful : Lawful sliceIndex := guard_lawful u64_lawful _
theorem shredIndex_lawful : Lawful shredIndex := guard_lawful u64_lawful _
theorem indSig_lawful (k : CryptoOk) : Lawful (indSig k) := guard_lawful (blob_lawful 96) _
theorem hashVec_lawful : Lawful hashVec := vec_lawful hash_lawful _ _
theorem byteVec_lawful : Lawful byteVec := vec_lawful (uint_lawful 1) _ _

theorem payload_lawful : Lawful payload := by
  unfold payload
  apply tagged_lawful
  · intro t c h
    rcases t with _ | _ | _ | _ | _ | t <;> simp only [Option.some.injEq] at h
    all_goals first
      | (subst h; first
          | exact iso_lawful (pair_lawful u64_lawful hash_lawful) _ _ (fun _ => rfl)
          | exact iso_lawful u64_lawful _ _ (fun _ => rfl))
      | cases h
  · intro t c a h hval
    rcases t with _ | _ | _ | _ | _ | t <;> simp only [Option.some.injEq] at h
    all_goals first
      | (subst h; obtain ⟨_, he⟩ := hval; rw [← he]; rfl)
      | cases h
  · intro t c h
    rcases t with _ | _ | _ | _ | _ | t <;> simp only [Option.some.injEq] at h
    all_goals first
      | (subst h; decide)
      | cases h

theorem vote_lawful (k : CryptoOk) : Lawful (vote k) := by
  have hh : Lawful (hashedVote k) := pair_lawful u64_lawful (pair_lawful hash_lawful (pair_lawful (indSig_lawful k) u64_lawful))
  have hp : Lawful (plainVote k) := pair_lawful u64_lawful (pair_lawful (indSig_lawful k) u64_lawful)
  unfold vote
  apply tagged_lawful
  · intro t c h
    rcases t with _ | _ | _ | _ | _ | t <;> simp only [Option.some.injEq] at h
    all_goals first
      | (subst h; first
          | exact iso_lawful hh _ _ (fun _ => rfl)
          | exact iso_lawful hp _ _ (fun _ => rfl))
      | cases h
  · intro t c a h hval
    rcases t with _ | _ | _ | _ | _ | t <;> simp only [Option.some.injEq] at h
    all_goals first
      | (subst h; obtain ⟨_, he⟩ := hval; rw [← he]; rfl)
      | cases h
  · intro t c h
    rcases t with _ | _ | _ | _ | _ | t <;> simp only [Option.some.injEq] at h
    all_goals first
      | (subst h; decide)
      | cases h

theorem aggRaw_lawful (k : CryptoOk) : Lawful (aggRaw k) :=
  pair_lawful (guard_lawful (blob_lawful 96) _) (pair_lawful u64_lawful (vec_lawful u64_lawful _ _))

theorem wordsFor_le (nb len : Nat) (h : nb ≤ 64 * len) : wordsFor nb ≤ len := by
  unfold wordsFor; omega

theorem agg_lawful (k : CryptoOk) : Lawful (agg k) where
  rt a rest h := by
    obtain ⟨hraw, hw, hmax⟩ := h
    simp only [agg]
    rw [(aggRaw_lawful k).rt _ rest hraw]
    simp only
    rw [if_neg (by omega), if_neg (by rw [hw]; unfold wordsFor; omega)]
    rw [← hw, List.take_length]
  dv bs a rest h := by
    simp only [agg] at h ⊢
    split at h
    · simp at h
    · rename_i sig nb ws r hraw
      split at h
      · simp at h
      · split at h
        · simp at h
        · rename_i h1 h2
          simp only [Option.some.injEq, Prod.mk.injEq] at h
          rw [← h.1]
          have hv := (aggRaw_lawful k).dv _ _ _ hraw
          have hle := wordsFor_le nb ws.length (by omega)
          simp only [aggRaw, pair, guard, blob, vec, u64, uint] at hv ⊢
          obtain ⟨hs, hnb, hlen, hlen2, hall⟩ := hv
          refine ⟨⟨hs, hnb, ?_, ?_, ?_⟩, ?_, ?_⟩
          · rw [List.length_take]; omega
          · rw [List.length_take]; omega
          · intro x hx; exact hall x (List.mem_of_mem_take hx)
          · rw [List.length_take]; omega
          · rw [List.length_take]; omega

theorem cert_lawful (k : CryptoOk) : Lawful (cert k) := by
  have ha := agg_lawful k
  have ho := opt_lawful ha
  unfold cert
  apply tagged_lawful
  · intro t c h
    rcases t with _ | _ | _ | _ | _ | t <;> simp only [Option.some.injEq] at h
    all_goals first
      | (subst h; first
          | exact iso_lawful (pair_lawful u64_lawful (pair_lawful hash_lawful (pair_lawful ha u64_lawful))) _ _ (fun _ => rfl)
          | exact iso_lawful (pair_lawful u64_lawful (pair_lawful hash_lawful (pair_lawful ho (pair_lawful ho u64_lawful)))) _ _ (fun _ => rfl)
          | exact iso_lawful (pair_lawful u64_lawful (pair_lawful ho (pair_lawful ho u64_lawful))) _ _ (fun _ => rfl)
          | exact iso_lawful (pair_lawful u64_lawful (pair_lawful ha u64_lawful)) _ _ (fun _ => rfl))
      | cases h
  · intro t c a h hval
    rcases t with _ | _ | _ | _ | _ | t <;> simp only [Option.some.injEq] at h
    all_goals first
      | (subst h; obtain ⟨_, he⟩ := hval; rw [← he]; rfl)
      | cases h
  · intro t c h
    rcases t with _ | _ | _ | _ | _ | t <;> simp only [Option.some.injEq] at h
    all_goals first
      | (subst h; decide)
      | cases h

theorem consensusMsg_lawful (k : CryptoOk) : Lawful (consensusMsg k) := by
  unfold consensusMsg
  apply tagged_lawful
  · intro t c h
    rcases t with _ | _ | t <;> simp only [Option.some.injEq] at h
    all_goals first
      | (subst h; first
          | exact iso_lawful (vote_lawful k) _ _ (fun _ => rfl)
          | exact iso_lawful (cert_lawful k) _ _ (fun _ => rfl))
      | cases h
  · intro t c a h hval
    rcases t with _ | _ | t <;> simp only [Option.some.injEq] at h
    all_goals first
      | (subst h; obtain ⟨_, he⟩ := hval; rw [← he]; rfl)
      | cases h
  · intro t c h
    rcases t with _ | _ | t <;> simp only [Option.some.injEq] at h
    all_goals first
      | (subst h; decide)
      | cases h

theorem transaction_lawful : Lawful transaction := byteVec_lawful

theorem shredFields_lawful : Lawful shredFields :=
  pair_lawful u64_lawful (pair_lawful sliceIndex_lawful (pair_lawful bool_lawful (pair_lawful shredIndex_lawful byteVec_lawful)))

theorem shredPayloadType_lawful : Lawful shredPayloadType := by
  unfold shredPayloadType
  apply tagged_lawful
  · intro t c h
    rcases t with _ | _ | t <;> simp only [Option.some.injEq] at h
    all_goals first
      | (subst h; exact iso_lawful shredFields_lawful _ _ (fun _ => rfl))
      | cases h
  · intro t c a h hval
    rcases t with _ | _ | t <;> simp only [Option.some.injEq] at h
    all_goals first
      | (subst h; obtain ⟨_, he⟩ := hval; rw [← he]; rfl)
      | cases h
  · intro t c h
    rcases t with _ | _ | t <;> simp only [Option.some.injEq] at h
    all_goals first
      | (subst h; decide)
      | cases h

theorem shred_lawful : Lawful shred :=
  iso_lawful (pair_lawful shredPayloadType_lawful (pair_lawful (blob_lawful 64) hashVec_lawful)) _ _ (fun _ => rfl)

theorem reqType_lawful : Lawful reqType := by
  unfold reqType
  apply tagged_lawful
  · intro t c h
    rcases t with _ | _ | _ | t <;> simp only [Option.some.injEq] at h
    all_goals first
      | (subst h; first
          | exact iso_lawful (pair_lawful u64_lawful hash_lawful) _ _ (fun _ => rfl)
          | exact iso_lawful (pair_lawful u64_lawful (pair_lawful hash_lawful sliceIndex_lawful)) _ _ (fun _ => rfl)
          | exact iso_lawful (pair_lawful u64_lawful (pair_lawful hash_lawful (pair_lawful sliceIndex_lawful shredIndex_lawful))) _ _ (fun _ => rfl))
      | cases h
  · intro t c a h hval
    rcases t with _ | _ | _ | t <;> simp only [Option.some.injEq] at h
    all_goals first
      | (subst h; obtain ⟨_, he⟩ := hval; rw [← he]; rfl)
      | cases h
  · intro t c h
    rcases t with _ | _ | _ | t <;> simp only [Option.some.injEq] at h
    all_goals first
      | (subst h; decide)
      | cases h

theorem repairRequest_lawful : Lawful repairRequest := pair_lawful u64_lawful reqType_lawful

theorem repairResponse_lawful : Lawful repairResponse := by
  have hr := reqType_lawful
  unfold repairResponse
  apply tagged_lawful
  · intro t c h
    rcases t with _ | _ | _ | _ | t <;> simp only [Option.some.injEq] at h
    all_goals first
      | (subst h; first
          | exact iso_lawful (pair_lawful hr (pair_lawful sliceIndex_lawful (pair_lawful hash_lawful hashVec_lawful))) _ _ (fun _ => rfl)
          | exact iso_lawful (pair_lawful hr (pair_lawful hash_lawful hashVec_lawful)) _ _ (fun _ => rfl)
          | exact iso_lawful (pair_lawful hr shred_lawful) _ _ (fun _ => rfl)
          | exact iso_lawful hr _ _ (fun _ => rfl))
      | cases h
  · intro t c a h hval
    rcases t with _ | _ | _ | _ | t <;> simp only [Option.some.injEq] at h
    all_goals first
      | (subst h; obtain ⟨_, he⟩ := hval; rw [← he]; rfl)
      | cases h
  · intro t c h
    rcases t with _ | _ | _ | _ | t <;> simp only [Option.some.injEq] at h
    all_goals first
      | (subst h; decide)
      | cases h

end AgModel.Wire

namespace AgModel.Wire

/-! ### encoded lengths -/

theorem encAll_uint_length (k : Nat) (l : List Nat) : (encAll (uint k) l).length = k * l.length := by
  induction l with
  | nil => rfl
  | cons x xs ih =>
    simp only [encAll, List.length_append, ih, List.length_cons]
    have : ((uint k).enc x).length = k := leBytes_length k x
    rw [this, Nat.mul_succ]; omega

theorem encAll_hash_length (l : List Bytes) (h : ∀ x ∈ l, x.length = 32) : (encAll hash l).length = 32 * l.length := by
  induction l with
  | nil => rfl
  | cons x xs ih =>
    simp only [encAll, List.length_append, List.length_cons]
    rw [ih (fun y hy => h y (by simp [hy]))]
    have : (hash.enc x).length = 32 := by simp [hash, blob, h x (by simp)]
    rw [this, Nat.mul_succ]; omega

theorem agg_enc_length (k : CryptoOk) (a : AggW) : ((agg k).enc a).length = a.sig.length + 16 + 8 * a.words.length := by
  simp only [agg, aggRaw, pair, guard, blob, u64, vec, uint, List.length_append, List.length_map, leBytes_length]
  have := encAll_uint_length 8 a.words
  simp only [uint] at this
  omega

theorem opt_agg_enc_length (k : CryptoOk) (a : Option AggW) :
    ((opt (agg k)).enc a).length = match a with | none => 1 | some a => 1 + (a.sig.length + 16 + 8 * a.words.length) := by
  cases a with
  | none => rfl
  | some a => simp only [opt, List.length_cons, agg_enc_length]; omega

end AgModel.Wire
