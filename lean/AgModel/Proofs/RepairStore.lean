import AgModel.Proofs.RepairRun
import AgModel.Proofs.BlockstoreInv
import AgModel.Proofs.BlockstoreFlag
import AgModel.Proofs.BlockstoreType
/-!
The blockstore invariant at slot / store level, its preservation by `add_shred_from_repair`,
`add_shred_from_dissemination` and by every step of the repair task, and panic-freedom of the
repair task (helper lemmas for `Props/C14Live.lean`).
-/
namespace AgModel.Repair
open AgModel.Blockstore AgModel.Merkle

/-- **The blockstore invariant of one slot**: the dissemination spot and every repair spot satisfy
    `BInv`, repair spots belong to the slot, a completed repaired block hashes to its key, every
    stored shred's last-slice flag agrees with the last-slice marker of its spot (`FlagInv`) and its data/coding
    type fits its index (`TyInv`). -/
structure SInv (sd : SlotData) : Prop where
  dis : BInv sd.dis
  rep : ∀ h b, repGet sd.rep h = some b → BInv b ∧ b.slot = sd.dis.slot ∧ b.cap = sd.dis.cap
  ok : RepOk sd
  flg : FlagInv sd.dis ∧ ∀ h b, repGet sd.rep h = some b → FlagInv b
  /-- (D15 `fix:`) every stored shred has the data/coding type that fits its index -/
  typ : TyInv sd.dis ∧ ∀ h b, repGet sd.rep h = some b → TyInv b

theorem sinv_new (cap slot : Nat) : SInv (SlotData.new cap slot) := by
  refine ⟨binv_new cap slot, ?_, repOk_new cap slot, ⟨flagInv_new cap slot, ?_⟩, ⟨tyInv_new cap slot, ?_⟩⟩
  · intro h b hb; simp [SlotData.new, repGet] at hb
  · intro h b hb; simp [SlotData.new, repGet] at hb
  · intro h b hb; simp [SlotData.new, repGet] at hb

theorem flagIfBad_fst_cases (sd : SlotData) (r : AddRes) :
    (flagIfBad sd r).1.dis = sd.dis ∧ (flagIfBad sd r).1.rep = sd.rep := ⟨flagIfBad_dis sd r, flagIfBad_rep sd r⟩

theorem addRepair_res (env : Nat → Content) (sd : SlotData) (h : H) (s : Shred) :
    (addRepair env sd h s).2.1 = (addShred env ((repGet sd.rep h).getD (BlockData.new sd.dis.cap sd.dis.slot)) s).2 ∨
    (addRepair env sd h s).2.1 = .err .invalidShred := by
  unfold addRepair
  simp only [flagIfBad_res]
  unfold fileRepair
  split
  · split
    · right; rfl
    · left; rfl
  · left; rfl

/-- **`add_shred_from_repair` is total and keeps the invariant** — for every requested hash and every
    validated shred (any slice / index / flags), from every state satisfying the invariant. -/
theorem addRepair_sinv (env : Nat → Content) (sd : SlotData) (h : H) (s : Shred) (hinv : SInv sd) :
    SInv (addRepair env sd h s).1 ∧ (addRepair env sd h s).2.1 ≠ .panic := by
  have hspot : BInv ((repGet sd.rep h).getD (BlockData.new sd.dis.cap sd.dis.slot)) ∧
      ((repGet sd.rep h).getD (BlockData.new sd.dis.cap sd.dis.slot)).slot = sd.dis.slot ∧
      ((repGet sd.rep h).getD (BlockData.new sd.dis.cap sd.dis.slot)).cap = sd.dis.cap := by
    cases hg : repGet sd.rep h with
    | none => exact ⟨binv_new _ _, rfl, rfl⟩
    | some b => exact hinv.rep h b hg
  obtain ⟨hb', hnp⟩ := addShredF_binv env _ s hspot.1
  obtain ⟨hslot, hcap⟩ := addShredF_slot_cap env ((repGet sd.rep h).getD (BlockData.new sd.dis.cap sd.dis.slot)) s
  have hspotf : FlagInv ((repGet sd.rep h).getD (BlockData.new sd.dis.cap sd.dis.slot)) := by
    cases hg : repGet sd.rep h with
    | none => exact flagInv_new _ _
    | some b => exact hinv.flg.2 h b hg
  have hf' := addShredF_flagInv env _ s hspot.1 hspotf
  have hspott : TyInv ((repGet sd.rep h).getD (BlockData.new sd.dis.cap sd.dis.slot)) := by
    cases hg : repGet sd.rep h with
    | none => exact tyInv_new _ _
    | some b => exact hinv.typ.2 h b hg
  have ht' := addShred_tyInv env _ s hspott
  refine ⟨⟨?_, ?_, addRepair_repOk env sd h s hinv.ok, ⟨?_, ?_⟩, ⟨?_, ?_⟩⟩, ?_⟩
  · rw [addRepair_dis]; exact hinv.dis
  · intro h' b hg
    rw [addRepair_dis]
    unfold addRepair at hg
    simp only [flagIfBad_rep] at hg
    unfold fileRepair at hg
    have hset : ∀ b0, repGet (repSet sd.rep h (addShred env ((repGet sd.rep h).getD (BlockData.new sd.dis.cap sd.dis.slot)) s).1) h' = some b0 →
        BInv b0 ∧ b0.slot = sd.dis.slot ∧ b0.cap = sd.dis.cap := by
      intro b0 hb0
      rw [repGet_repSet] at hb0
      split at hb0
      · simp only [Option.some.injEq] at hb0; subst hb0
        exact ⟨hb', hslot.trans hspot.2.1, hcap.trans hspot.2.2⟩
      · exact hinv.rep h' b0 hb0
    split at hg
    · split at hg
      · simp only at hg
        rw [repGet_repDel] at hg
        split at hg
        · simp at hg
        · exact hinv.rep h' b hg
      · exact hset b hg
    · exact hset b hg
  · rw [addRepair_dis]; exact hinv.flg.1
  · intro h' b hg
    unfold addRepair at hg
    simp only [flagIfBad_rep] at hg
    unfold fileRepair at hg
    have hset : ∀ b0, repGet (repSet sd.rep h (addShred env ((repGet sd.rep h).getD (BlockData.new sd.dis.cap sd.dis.slot)) s).1) h' = some b0 →
        FlagInv b0 := by
      intro b0 hb0
      rw [repGet_repSet] at hb0
      split at hb0
      · simp only [Option.some.injEq] at hb0; subst hb0
        exact hf'
      · exact hinv.flg.2 h' b0 hb0
    split at hg
    · split at hg
      · simp only at hg
        rw [repGet_repDel] at hg
        split at hg
        · simp at hg
        · exact hinv.flg.2 h' b hg
      · exact hset b hg
    · exact hset b hg
  · rw [addRepair_dis]; exact hinv.typ.1
  · intro h' b hg
    unfold addRepair at hg
    simp only [flagIfBad_rep] at hg
    unfold fileRepair at hg
    have hset : ∀ b0, repGet (repSet sd.rep h (addShred env ((repGet sd.rep h).getD (BlockData.new sd.dis.cap sd.dis.slot)) s).1) h' = some b0 →
        TyInv b0 := by
      intro b0 hb0
      rw [repGet_repSet] at hb0
      split at hb0
      · simp only [Option.some.injEq] at hb0; subst hb0
        exact ht'
      · exact hinv.typ.2 h' b0 hb0
    split at hg
    · split at hg
      · simp only at hg
        rw [repGet_repDel] at hg
        split at hg
        · simp at hg
        · exact hinv.typ.2 h' b hg
      · exact hset b hg
    · exact hset b hg
  · rcases addRepair_res env sd h s with hr | hr
    · rw [hr]; exact hnp
    · rw [hr]; simp

theorem addDissem_sinv (env : Nat → Content) (sd : SlotData) (s : Shred) (hinv : SInv sd) :
    SInv (addDissem env sd s).1 ∧ (addDissem env sd s).2.1 ≠ .panic := by
  obtain ⟨hb', hnp⟩ := addShredF_binv env sd.dis s hinv.dis
  obtain ⟨hslot, hcap⟩ := addShredF_slot_cap env sd.dis s
  by_cases hm : sd.misbehaved = true
  · rw [addDissem_flagged env sd s hm]; exact ⟨hinv, by simp⟩
  · have hm' : sd.misbehaved = false := by simpa using hm
    have hok := addDissem_repOk env sd s hinv.ok
    have hdis : (addDissem env sd s).1.dis = (addShred env sd.dis s).1 ∧ (addDissem env sd s).1.rep = sd.rep ∧
        (addDissem env sd s).2.1 = (addShred env sd.dis s).2 := by
      unfold addDissem
      simp only [hm', Bool.false_eq_true, if_false]
      split
      · exact ⟨flag_dis _, flag_rep' _, rfl⟩
      · exact ⟨rfl, rfl, rfl⟩
    refine ⟨⟨by rw [hdis.1]; exact hb', ?_, hok,
      ⟨by rw [hdis.1]; exact addShredF_flagInv env sd.dis s hinv.dis hinv.flg.1,
       by intro h b hg; rw [hdis.2.1] at hg; exact hinv.flg.2 h b hg⟩,
      ⟨by rw [hdis.1]; exact addShred_tyInv env sd.dis s hinv.typ.1,
       by intro h b hg; rw [hdis.2.1] at hg; exact hinv.typ.2 h b hg⟩⟩, by rw [hdis.2.2]; exact hnp⟩
    intro h b hg
    rw [hdis.2.1] at hg
    rw [hdis.1]
    obtain ⟨h1, h2, h3⟩ := hinv.rep h b hg
    exact ⟨h1, h2.trans hslot.symm, h3.trans hcap.symm⟩

/-- the leader's own slices (`add_own_slice`, under its own assert and with a parent on the first slice) -/
theorem addOwn_sinv (sd : SlotData) (c : Commitment) (sz : Nat) (parent : Option (Nat × Nat)) (txs : Option (List Nat))
    (hinv : SInv sd) (hl : sd.dis.lastSlice = none) (hp : c.slice = 0 → parent.isSome) :
    SInv (addOwn sd c sz parent txs).1 := by
  obtain ⟨h1, h2, h3⟩ := addOwnSlice_binv sd.dis c sz parent txs hinv.dis hl hp
  have e : (addOwn sd c sz parent txs).1 = { sd with dis := (addOwnSlice sd.dis c sz parent txs).1 } := by
    unfold addOwn
    generalize addOwnSlice sd.dis c sz parent txs = res
    obtain ⟨b, r⟩ := res
    cases r <;> rfl
  rw [e]
  refine ⟨h1, ?_, ?_, ⟨addOwnSlice_flagInv sd.dis c sz parent txs hinv.flg.1 hl, hinv.flg.2⟩,
    ⟨addOwnSlice_tyInv sd.dis c sz parent txs hinv.typ.1 hl, hinv.typ.2⟩⟩
  · intro h b hg
    obtain ⟨a1, a2, a3⟩ := hinv.rep h b hg
    exact ⟨a1, a2.trans h2.symm, a3.trans h3.symm⟩
  · intro h b blk hg hc
    exact hinv.ok h b blk hg hc

theorem runDissem_sinv (env : Nat → Content) (ss : List Shred) (sd : SlotData) (hinv : SInv sd) :
    SInv (runDissem env sd ss).1 := by
  induction ss generalizing sd with
  | nil => exact hinv
  | cons s rest ih =>
    simp only [runDissem]
    exact ih _ (addDissem_sinv env sd s hinv).1

/-! ### the whole store and the repair task -/

/-- the invariant of the whole blockstore -/
def StoreInv (cap : Nat) (store : Store) : Prop :=
  ∀ slot, SInv (storeGet cap store slot) ∧ (storeGet cap store slot).dis.slot = slot ∧ (storeGet cap store slot).dis.cap = cap

theorem storeInv_nil (cap : Nat) : StoreInv cap [] := by
  intro slot; exact ⟨sinv_new cap slot, rfl, rfl⟩

theorem storeInv_set (env : Nat → Content) (cap : Nat) (store : Store) (b : Bid) (s : Shred) (h : StoreInv cap store) :
    StoreInv cap (storeSet store b.slot (addRepair env (storeGet cap store b.slot) b.hash s).1) := by
  intro slot
  rw [storeGet_storeSet]
  split
  · rename_i hs; subst hs
    rw [addRepair_dis]
    exact ⟨(addRepair_sinv env _ b.hash s (h b.slot).1).1, (h b.slot).2⟩
  · exact h slot

/-- a block announced by `add_shred` has its parent in an earlier slot than the block data's own -/
theorem addShred_block_parent (env : Nat → Content) (b : BlockData) (s : Shred) (info : BlockInfo)
    (h : (addShredCore env b s).2 = .ev (.block info)) : info.parent.1 < b.slot := by
  have heq : addShredCore env b s = ((addShredCore env b s).1, .ev (.block info)) := Prod.ext rfl h
  obtain ⟨b1, hb1⟩ := addShred_block_origin env b _ s info heq
  obtain ⟨_, _, _, _, _, _, _, _, _, _, hslot, _⟩ := tryReconstructBlock_complete b1 _ info hb1
  have h1 : (tryReconstructBlock b1).1.slot = b1.slot := by
    unfold tryReconstructBlock
    split
    · rfl
    split
    · rfl
    split
    · rfl
    simp only
    repeat' split
    all_goals rfl
  rw [hb1] at h1
  simp only at h1
  rw [← h1, (addShred_slot_cap env b s).1] at hslot
  exact hslot

/-- **The repair task never panics**: under the invariants, no response whatsoever reaches the
    `unreachable!`, a blockstore `expect`, the `assert_eq!` on the block hash or the `assert!` of
    `pool.add_block`. -/
theorem handleResponse_no_panic (env : Nat → Content) (cap : Nat) (st : RepairSt) (store : Store) (resp : Resp)
    (hk : RootsKnown st) (hs : StoreInv cap store) :
    (handleResponse env cap st store resp).2.2.panic = false ∧ StoreInv cap (handleResponse env cap st store resp).2.1 := by
  by_cases hout : resp.req ∈ st.outstanding
  case neg => rw [unsolicited_ignored env cap st store resp hout]; exact ⟨rfl, hs⟩
  by_cases hv : Valid st resp
  case neg => rw [invalid_response_inert env cap st store resp hk hv]; exact ⟨rfl, hs⟩
  cases resp with
  | nack r =>
    simp only [Resp.req] at hout
    rw [handle_nack env cap st store r hout]; exact ⟨rfl, hs⟩
  | lastRoot r l root π =>
    cases r with
    | last b =>
      simp only [Resp.req] at hout
      have hv' : checkProofLast root l b.hash π = true := hv
      rw [handle_last_valid env cap st store b l root π hout hv']; exact ⟨rfl, hs⟩
    | root _ _ => exact absurd hv (by simp [Valid])
    | shred _ _ _ => exact absurd hv (by simp [Valid])
  | sliceRoot r root π =>
    cases r with
    | root b i =>
      simp only [Resp.req] at hout
      have hv' : checkProof root i b.hash π = true := hv
      rw [handle_root_valid env cap st store b i root π hout hv']; exact ⟨rfl, hs⟩
    | last _ => exact absurd hv (by simp [Valid])
    | shred _ _ _ => exact absurd hv (by simp [Valid])
  | shred r slot s sigOk =>
    cases r with
    | shred b i j =>
      simp only [Resp.req] at hout
      obtain ⟨rfl, hsl, hidx, hroot, hlast, hty, rfl⟩ := valid_shred_eq st b i j slot s sigOk hv
      rw [handle_shred_valid env cap st store b i j s hout hsl hidx hroot hlast hty]
      refine ⟨?_, storeInv_set env cap store b s hs⟩
      obtain ⟨hsi, hslot, _⟩ := hs b.slot
      have hnp := (addRepair_sinv env _ b.hash s hsi).2
      cases hres : (addRepair env (storeGet cap store b.slot) b.hash s).2.1 with
      | panic => exact absurd hres hnp
      | none => rfl
      | err e => rfl
      | ev e =>
        cases e with
        | firstShred => rfl
        | invalidBlock => rfl
        | block info =>
          have hh := repair_announces_requested_hash env _ b.hash s info hres
          have hpar : info.parent.1 < b.slot := by
            rcases addRepair_res env (storeGet cap store b.slot) b.hash s with hr | hr
            · rw [hres, addShred_of_ty _ _ s hty] at hr
              have := addShred_block_parent env _ s info hr.symm
              have hspot : ((repGet (storeGet cap store b.slot).rep b.hash).getD
                  (BlockData.new (storeGet cap store b.slot).dis.cap (storeGet cap store b.slot).dis.slot)).slot = b.slot := by
                cases hg : repGet (storeGet cap store b.slot).rep b.hash with
                | none => exact hslot
                | some bb => exact ((hsi.rep b.hash bb hg).2.1).trans hslot
              omega
            · rw [hres] at hr; simp at hr
          simp only [shredOut, hh, ne_eq, not_true_eq_false, if_false]
          rw [if_neg (by omega)]
    | last _ => exact absurd hv (by simp [Valid])
    | root _ _ => exact absurd hv (by simp [Valid])

theorem stepEv_no_panic (env : Nat → Content) (cap : Nat) (σ : Sys) (e : Ev)
    (hk : RootsKnown σ.st) (hs : StoreInv cap σ.store) :
    (stepEv env cap σ e).2.panic = false ∧ RootsKnown (stepEv env cap σ e).1.st ∧ StoreInv cap (stepEv env cap σ e).1.store := by
  cases e with
  | resp r =>
    obtain ⟨h1, h2⟩ := handleResponse_no_panic env cap σ.st σ.store r hk hs
    exact ⟨h1, handleResponse_rootsKnown env cap σ.st σ.store r hk, h2⟩
  | timeout =>
    refine ⟨?_, fireTimeout_rootsKnown σ.st hk, hs⟩
    simp only [stepEv, fireTimeout]
    split
    · rfl
    · split <;> rfl
  | start b =>
    refine ⟨?_, repairBlock_rootsKnown cap σ.st σ.store b hk, hs⟩
    simp only [stepEv, repairBlock]
    split <;> rfl

/-- no step of any schedule panics -/
theorem run_no_panic (env : Nat → Content) (cap : Nat) (evs : List Ev) (σ : Sys)
    (hk : RootsKnown σ.st) (hs : StoreInv cap σ.store) :
    (∀ o ∈ (run env cap σ evs).2, o.panic = false) ∧ RootsKnown (run env cap σ evs).1.st ∧
      StoreInv cap (run env cap σ evs).1.store := by
  induction evs generalizing σ with
  | nil => exact ⟨by simp [run], hk, hs⟩
  | cons e rest ih =>
    obtain ⟨h1, h2, h3⟩ := stepEv_no_panic env cap σ e hk hs
    obtain ⟨r1, r2, r3⟩ := ih _ h2 h3
    simp only [run]
    refine ⟨?_, r2, r3⟩
    intro o ho
    rcases List.mem_cons.mp ho with rfl | ho
    · exact h1
    · exact r1 o ho

end AgModel.Repair
