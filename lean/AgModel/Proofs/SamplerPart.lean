import AgModel.Proofs.Sampler
/-! Lemmas about the repaired `PartitionSampler::new` (`AgModel.Sampler.partition`, fix D8): the
    front-to-back loop on `stake · numBins` units with bins of `total` units fills every bin exactly. -/
namespace AgModel.Sampler

theorem nat_sum_reverse (l : List Nat) : l.reverse.sum = l.sum := by
  induction l with
  | nil => rfl
  | cons a l ih => simp only [List.reverse_cons, List.sum_append, ih, List.sum_cons, List.sum_nil]; omega

theorem binSum_reverse (b : List (Nat × Nat)) : binSum b.reverse = binSum b := by
  unfold binSum; rw [List.map_reverse, nat_sum_reverse]

theorem unitsIn_reverse (v : Nat) (b : List (Nat × Nat)) : unitsIn v b.reverse = unitsIn v b := by
  unfold unitsIn; rw [List.filter_reverse, List.map_reverse, nat_sum_reverse]

theorem unitsIn_cons (v : Nat) (e : Nat × Nat) (b : List (Nat × Nat)) :
    unitsIn v (e :: b) = (if e.1 = v then e.2 else 0) + unitsIn v b := by
  unfold unitsIn
  by_cases h : e.1 = v <;> simp [h]

/-- units of `v` placed so far. -/
def placed (v : Nat) (st : PState) : Nat := unitsIn v st.cur + (st.done.map (unitsIn v)).sum

/-- the loop invariant: `j` bins lie after the current one, `R` units are still to be placed and they
    fill the remaining room exactly; completed bins are exactly full; a non-last bin is never left full. -/
structure PFull (cap B : Nat) (P : Nat → Prop) (st : PState) (R j : Nat) : Prop where
  len : st.done.length = st.curIdx
  idx : st.curIdx + j + 1 = B
  cs : st.curStake = binSum st.cur
  le : st.curStake ≤ cap
  lt : 0 < j → st.curStake < cap
  room : R = j * cap + (cap - st.curStake)
  full : ∀ b ∈ st.done, binSum b = cap
  pos : ∀ b ∈ st.cur :: st.done, ∀ e ∈ b, 0 < e.2 ∧ P e.1

theorem placeOne_full (cap B : Nat) (P : Nat → Prop) (hcap : 0 < cap) (id : Nat) (hid : P id) (v : Nat) :
    ∀ (fuel : Nat) (st : PState) (s R' j : Nat), PFull cap B P st (s + R') j → (s = 0 ∨ j + 1 ≤ fuel) →
      ∃ j', j' ≤ j ∧ PFull cap B P (placeOne cap B fuel st id s) R' j' ∧
        placed v (placeOne cap B fuel st id s) = placed v st + (if id = v then s else 0) := by
  intro fuel
  induction fuel with
  | zero =>
    intro st s R' j h hf
    have hs : s = 0 := by omega
    subst hs
    exact ⟨j, Nat.le_refl _, by simpa [placeOne] using h, by simp [placeOne]⟩
  | succ fuel ih =>
    intro st s R' j h hf
    unfold placeOne
    by_cases hs : s = 0
    · subst hs
      simp only [if_true]
      exact ⟨j, Nat.le_refl _, by simpa using h, by simp⟩
    · simp only [hs, if_false]
      have hroom := h.room
      have hle := h.le
      have hlt := h.lt
      have hidx := h.idx
      by_cases hadv : st.curIdx < B - 1 ∧ (s - min s (cap - st.curStake) > 0 ∨ st.curStake + min s (cap - st.curStake) = cap)
      · -- the bin is completed, advance
        simp only [hadv, and_self, if_true]
        have hj : 0 < j := by omega
        have hlt' := hlt hj
        have htake : st.curStake + min s (cap - st.curStake) = cap := by
          rcases hadv.2 with h1 | h1
          · have : min s (cap - st.curStake) = cap - st.curStake := by omega
            omega
          · exact h1
        obtain ⟨j0, rfl⟩ : ∃ j0, j = j0 + 1 := ⟨j - 1, by omega⟩
        have hmul : (j0 + 1) * cap = j0 * cap + cap := Nat.succ_mul j0 cap
        have hnew : PFull cap B P ⟨((id, min s (cap - st.curStake)) :: st.cur).reverse :: st.done, [], st.curIdx + 1, 0⟩
            ((s - min s (cap - st.curStake)) + R') j0 := by
          refine ⟨by simp [h.len], by simp only; omega, by simp [binSum], Nat.zero_le _, fun _ => hcap, ?_, ?_, ?_⟩
          · simp only; omega
          · intro b hb
            simp only [List.mem_cons] at hb
            rcases hb with hb | hb
            · subst hb
              rw [binSum_reverse]
              have := h.cs
              simp only [binSum, List.map_cons, List.sum_cons] at this ⊢
              omega
            · exact h.full b hb
          · intro b hb e he
            simp only [List.mem_cons] at hb
            rcases hb with hb | hb | hb
            · subst hb; simp at he
            · subst hb
              simp only [List.mem_reverse, List.mem_cons] at he
              rcases he with he | he
              · subst he; exact ⟨by simp only; omega, hid⟩
              · exact h.pos st.cur (by simp) e he
            · exact h.pos b (by simp [hb]) e he
        obtain ⟨j', hj', hfull, hpl⟩ := ih _ (s - min s (cap - st.curStake)) R' j0 hnew (by omega)
        refine ⟨j', by omega, hfull, ?_⟩
        rw [hpl]
        simp only [placed, List.map_cons, List.sum_cons, unitsIn_reverse, unitsIn_cons]
        have hu0 : unitsIn v [] = 0 := by simp [unitsIn]
        rw [hu0]
        by_cases hv : id = v <;> simp only [hv, if_true, if_false] <;> omega
      · -- stay in the bin: everything was placed
        simp only [hadv, if_false]
        have hrest : s - min s (cap - st.curStake) = 0 ∧ min s (cap - st.curStake) = s ∧
            st.curStake + s ≤ cap ∧ (0 < j → st.curStake + s < cap) := by
          by_cases hj : 0 < j
          · have h1 : st.curIdx < B - 1 := by omega
            have h2 : ¬ (s - min s (cap - st.curStake) > 0 ∨ st.curStake + min s (cap - st.curStake) = cap) :=
              fun hc => hadv ⟨h1, hc⟩
            have := hlt hj
            omega
          · have hj0 : j = 0 := by omega
            subst hj0
            simp only [Nat.zero_mul, Nat.zero_add] at hroom
            omega
        obtain ⟨hr0, hmin, hfit, hfit'⟩ := hrest
        have hnew : PFull cap B P ⟨st.done, (id, min s (cap - st.curStake)) :: st.cur, st.curIdx,
            st.curStake + min s (cap - st.curStake)⟩ ((s - min s (cap - st.curStake)) + R') j := by
          refine ⟨h.len, hidx, ?_, by simp only; omega, fun hj => by have := hfit' hj; simp only; omega, ?_, h.full, ?_⟩
          · have := h.cs
            simp only [binSum, List.map_cons, List.sum_cons] at this ⊢
            omega
          · simp only; omega
          · intro b hb e he
            simp only [List.mem_cons] at hb
            rcases hb with hb | hb
            · subst hb
              simp only [List.mem_cons] at he
              rcases he with he | he
              · subst he; exact ⟨by simp only; omega, hid⟩
              · exact h.pos st.cur (by simp) e he
            · exact h.pos b (by simp [hb]) e he
        obtain ⟨j', hj', hfull, hpl⟩ := ih _ (s - min s (cap - st.curStake)) R' j hnew (Or.inl hr0)
        refine ⟨j', hj', hfull, ?_⟩
        rw [hpl]
        simp only [placed, unitsIn_cons]
        by_cases hv : id = v <;> simp only [hv, if_true, if_false] <;> omega

theorem placeAll_full (cap B : Nat) (P : Nat → Prop) (hcap : 0 < cap) (units : List Nat) (v : Nat) :
    ∀ (order : List Nat) (st : PState) (R' j : Nat), (∀ id ∈ order, P id) →
      PFull cap B P st ((order.map (units.getD · 0)).sum + R') j →
      ∃ j', PFull cap B P (placeAll cap B units st order) R' j' ∧
        placed v (placeAll cap B units st order) = placed v st + order.count v * units.getD v 0 := by
  intro order
  induction order with
  | nil => intro st R' j _ h; exact ⟨j, by simpa [placeAll] using h, by simp [placeAll]⟩
  | cons id rest ih =>
    intro st R' j hP h
    simp only [placeAll]
    have h' : PFull cap B P st (units.getD id 0 + ((rest.map (units.getD · 0)).sum + R')) j := by
      simpa [Nat.add_assoc] using h
    have hj := h.idx
    obtain ⟨j1, _, hf1, hp1⟩ := placeOne_full cap B P hcap id (hP id (by simp)) v (B + 2) st
      (units.getD id 0) _ j h' (Or.inr (by omega))
    obtain ⟨j2, hf2, hp2⟩ := ih _ R' j1 (fun i hi => hP i (by simp [hi])) hf1
    refine ⟨j2, hf2, ?_⟩
    rw [hp2, hp1, List.count_cons]
    by_cases hv : id = v
    · subst hv; simp only [if_true, beq_self_eq_true, Nat.add_mul, Nat.one_mul]; omega
    · have : (id == v) = false := by simp [hv]
      simp only [hv, this, if_false]; simp

/-! ### the order is a permutation of the non-zero-weight validators: it carries the whole stake -/

theorem sum_indicator (w : List Nat) (id : Nat) : ∀ n,
    ((List.range n).map (fun v => if id = v then w.getD v 0 else 0)).sum = if id < n then w.getD id 0 else 0 := by
  intro n
  induction n with
  | zero => simp
  | succ n ih =>
    rw [List.range_succ, List.map_append, List.sum_append, ih]
    simp only [List.map_cons, List.map_nil, List.sum_cons, List.sum_nil]
    by_cases h1 : id < n
    · have : id ≠ n := by omega
      have h2 : id < n + 1 := by omega
      simp [h1, this, h2]
    · by_cases h2 : id = n
      · subst h2; simp
      · have h3 : ¬ id < n + 1 := by omega
        simp [h1, h2, h3]

theorem sum_map_add (l : List Nat) (f g : Nat → Nat) :
    (l.map (fun v => f v + g v)).sum = (l.map f).sum + (l.map g).sum := by
  induction l with
  | nil => rfl
  | cons a l ih => simp only [List.map_cons, List.sum_cons, ih]; omega

theorem sum_order_count (w : List Nat) (n : Nat) : ∀ (order : List Nat), (∀ id ∈ order, id < n) →
    (order.map (w.getD · 0)).sum = ((List.range n).map (fun v => order.count v * w.getD v 0)).sum := by
  intro order
  induction order with
  | nil =>
    intro _
    have : ∀ l : List Nat, (l.map (fun _ => 0)).sum = 0 := by
      intro l; induction l with
      | nil => rfl
      | cons a l ih => simp only [List.map_cons, List.sum_cons, ih]
    simp [this]
  | cons id rest ih =>
    intro h
    have hid : id < n := h id (by simp)
    rw [List.map_cons, List.sum_cons, ih (fun i hi => h i (by simp [hi]))]
    have : (fun v => (id :: rest).count v * w.getD v 0) =
        (fun v => (if id = v then w.getD v 0 else 0) + rest.count v * w.getD v 0) := by
      funext v
      rw [List.count_cons]
      by_cases hv : id = v
      · subst hv; simp [Nat.add_mul]; omega
      · have : (id == v) = false := by simp [hv]
        simp [hv, this]
    rw [this, sum_map_add, sum_indicator, if_pos hid]

theorem sum_range_getD (w : List Nat) : ((List.range w.length).map (fun v => w.getD v 0)).sum = w.sum := by
  have : (List.range w.length).map (fun v => w.getD v 0) = w := by
    apply List.ext_getElem
    · simp
    · intro i h1 h2
      simp [List.getD_eq_getElem?_getD, List.getElem?_eq_getElem h2]
  rw [this]

theorem orderOk_spec (w order : List Nat) (h : orderOk w order = true) :
    (∀ id ∈ order, id < w.length) ∧
      ∀ v, v < w.length → order.count v = if w.getD v 0 = 0 then 0 else 1 := by
  unfold orderOk at h
  simp only [Bool.and_eq_true, List.all_eq_true, List.mem_range, beq_iff_eq, decide_eq_true_eq] at h
  exact ⟨h.2, h.1⟩

theorem sum_order_eq (w order : List Nat) (h : orderOk w order = true) :
    (order.map (w.getD · 0)).sum = w.sum := by
  obtain ⟨hlt, hc⟩ := orderOk_spec w order h
  rw [sum_order_count w w.length order hlt, ← sum_range_getD w]
  congr 1
  apply List.map_congr_left
  intro v hv
  rw [hc v (List.mem_range.mp hv)]
  by_cases h0 : w.getD v 0 = 0
  · rw [if_pos h0, h0]
  · rw [if_neg h0, Nat.one_mul]

theorem unitsOf_getD (w : List Nat) (B v : Nat) : (unitsOf w B).getD v 0 = w.getD v 0 * B := by
  unfold unitsOf
  simp only [List.getD_eq_getElem?_getD, List.getElem?_map]
  cases w[v]? <;> simp

theorem orderOk_unitsOf (w order : List Nat) (B : Nat) (hB : 0 < B) (h : orderOk w order = true) :
    orderOk (unitsOf w B) order = true := by
  have hlen : (unitsOf w B).length = w.length := by simp [unitsOf]
  unfold orderOk at h ⊢
  simp only [hlen, unitsOf_getD]
  have : ∀ v, (w.getD v 0 * B = 0) = (w.getD v 0 = 0) := by
    intro v
    apply propext
    constructor
    · intro h0
      rcases Nat.mul_eq_zero.mp h0 with h1 | h1
      · exact h1
      · omega
    · intro h0; rw [h0, Nat.zero_mul]
  simpa only [this] using h

/-- the state after the loop and what it means for the bins. -/
theorem partition_run (w order : List Nat) (B : Nat) (hB : 0 < B) (hT : 0 < total w)
    (hord : orderOk w order = true) (v : Nat) :
    ∃ st, st = placeAll (total w) B (unitsOf w B) ⟨[], [], 0, 0⟩ order ∧
      PFull (total w) B (· < w.length) st 0 0 ∧
      placed v st = order.count v * (w.getD v 0 * B) := by
  have hsum : ((order.map ((unitsOf w B).getD · 0)).sum + 0) = (B - 1) * total w + (total w - 0) := by
    rw [Nat.add_zero, sum_order_eq _ _ (orderOk_unitsOf w order B hB hord)]
    unfold unitsOf
    rw [sum_map_mul]
    obtain ⟨b, rfl⟩ : ∃ b, B = b + 1 := ⟨B - 1, by omega⟩
    simp only [Nat.add_sub_cancel, Nat.sub_zero, total]
    rw [Nat.mul_comm, Nat.succ_mul]
  have hinit : PFull (total w) B (· < w.length) ⟨[], [], 0, 0⟩
      ((order.map ((unitsOf w B).getD · 0)).sum + 0) (B - 1) := by
    refine ⟨rfl, by simp only; omega, by simp [binSum], Nat.zero_le _, fun _ => hT, ?_, by simp, by simp⟩
    simpa using hsum
  obtain ⟨j', hf, hp⟩ := placeAll_full (total w) B (· < w.length) hT (unitsOf w B) v order _ 0 (B - 1)
    (orderOk_spec w order hord).1 hinit
  refine ⟨_, rfl, ?_, ?_⟩
  · have hr := hf.room
    have hl := hf.lt
    have hj0 : j' = 0 := by
      by_cases hj : 0 < j'
      · have := hl hj; omega
      · omega
    subst hj0
    exact hf
  · rw [hp, unitsOf_getD]; simp [placed, unitsIn]

theorem binsOf_last (B : Nat) (st : PState) (hidx : st.curIdx + 0 + 1 = B) :
    binsOf B st = (st.cur.reverse :: st.done).reverse := by
  unfold binsOf
  have : B - st.curIdx - 1 = 0 := by omega
  simp [this]

/-- **Everything about a repaired partition in one statement** (for `Props.C17`). -/
theorem partition_spec (w order : List Nat) (B : Nat) (hB : 0 < B) (hT : 0 < total w)
    (hord : orderOk w order = true) :
    ∃ bins, partition w order B = some bins ∧ bins.length = B ∧
      (∀ b ∈ bins, b ≠ [] ∧ binSum b = total w ∧ ∀ e ∈ b, 0 < e.2 ∧ e.1 < w.length) ∧
      ∀ v, v < w.length → (bins.map (unitsIn v)).sum = w.getD v 0 * B := by
  obtain ⟨st, hst, hf, _⟩ := partition_run w order B hB hT hord 0
  have hbins : binsOf B st = (st.cur.reverse :: st.done).reverse := binsOf_last B st hf.idx
  have hcur : binSum st.cur = total w := by
    have h1 := hf.room
    have h2 := hf.cs
    have h3 := hf.le
    omega
  have hall : ∀ b ∈ binsOf B st, b ≠ [] ∧ binSum b = total w ∧ ∀ e ∈ b, 0 < e.2 ∧ e.1 < w.length := by
    intro b hb
    rw [hbins] at hb
    simp only [List.mem_reverse, List.mem_cons] at hb
    have hsum : binSum b = total w := by
      rcases hb with hb | hb
      · subst hb; rw [binSum_reverse]; exact hcur
      · exact hf.full b hb
    refine ⟨?_, hsum, ?_⟩
    · intro hnil; subst hnil; simp [binSum] at hsum; omega
    · rcases hb with hb | hb
      · subst hb
        intro e he
        exact hf.pos st.cur (by simp) e (by simpa using he)
      · exact hf.pos b (by simp [hb])
  have hpart : partition w order B = some (binsOf B st) := by
    unfold partition
    have hB0 : ¬ B = 0 := by omega
    simp only [hB0, if_false, ← hst]
    have : (binsOf B st).any (·.isEmpty) = false := by
      rw [List.any_eq_false]
      intro b hb
      have := (hall b hb).1
      cases b <;> simp_all
    simp [this]
  refine ⟨_, hpart, ?_, hall, ?_⟩
  · rw [hbins]; simp only [List.length_reverse, List.length_cons, hf.len]; have := hf.idx; omega
  · intro v hv
    obtain ⟨st', hst', _, hp⟩ := partition_run w order B hB hT hord v
    have hst2 : st' = st := by rw [hst', hst]
    subst hst2
    rw [hbins, List.map_reverse, nat_sum_reverse, List.map_cons, List.sum_cons, unitsIn_reverse]
    have hc := (orderOk_spec w order hord).2 v hv
    unfold placed at hp
    rw [hp, hc]
    by_cases h0 : w.getD v 0 = 0
    · rw [if_pos h0, h0]; simp
    · rw [if_neg h0, Nat.one_mul]

theorem binsValid_mem : ∀ (bins : List (List (Nat × Nat))) (c : List Nat), binsValid bins c = true →
    ∀ v ∈ c, ∃ b ∈ bins, ∃ e ∈ b, e.1 = v ∧ 0 < e.2
  | [], [], _ => by simp
  | [], _ :: _, h => by simp [binsValid] at h
  | _ :: _, [], h => by simp [binsValid] at h
  | b :: bs, x :: xs, h => by
    simp only [binsValid, Bool.and_eq_true, List.any_eq_true, beq_iff_eq, decide_eq_true_eq] at h
    intro v hv
    simp only [List.mem_cons] at hv
    rcases hv with hv | hv
    · subst hv
      obtain ⟨e, he, h1, h2⟩ := h.1
      exact ⟨b, by simp, e, he, h1, h2⟩
    · obtain ⟨b', hb', r⟩ := binsValid_mem bs xs h.2 v hv
      exact ⟨b', by simp [hb'], r⟩

theorem le_sum_of_mem : ∀ (l : List Nat) (r : Nat), r ∈ l → r ≤ l.sum
  | [], _, h => by simp at h
  | a :: l, r, h => by
    simp only [List.mem_cons] at h
    simp only [List.sum_cons]
    rcases h with h | h
    · omega
    · have := le_sum_of_mem l r h; omega

theorem unitsIn_pos (v : Nat) : ∀ (b : List (Nat × Nat)) (e : Nat × Nat), e ∈ b → e.1 = v → 0 < e.2 → 0 < unitsIn v b
  | [], _, h, _, _ => by simp at h
  | a :: b, e, h, h1, h2 => by
    rw [unitsIn_cons]
    simp only [List.mem_cons] at h
    rcases h with h | h
    · subst h; simp only [h1, if_true]; omega
    · have := unitsIn_pos v b e h h1 h2; omega

/-- the fallback weights FA1 hands to the partition sampler have positive total. -/
theorem fa1_weights_pos (stakes : List Nat) (k : Nat) (f : Fa1) (hT : 0 < total stakes)
    (h : fa1 stakes k = some f) : 0 < total f.weights := by
  have hne : stakes ≠ [] := by intro h; subst h; simp [total] at hT
  unfold fa1 at h
  simp only [hne, if_false] at h
  split at h
  · simp at h
  · split at h
    · simp at h
    · injection h with h
      subst h
      simp only
      split
      · exact hT
      · rename_i hz
        simp only [List.all_eq_true, beq_iff_eq, Classical.not_forall] at hz
        obtain ⟨r, hr, hr0⟩ := hz
        have : r ≤ (residuals stakes k).sum := le_sum_of_mem _ r hr
        unfold total
        omega

end AgModel.Sampler
