import AgModel.Proofs.ProgressPool
/-!
# C02 progress, pool part 2: the phases of one slot in a pool

`TReady hi s p P`: the trackers of pool `P` are ready for slot `s` with parent `p` (`p` is finalized or genesis, every slot
strictly between is skip-marked and undecided, nothing is known about `s` and later slots). `TMid hi s h p nf nt P`: the block
`(s, h)` with parent `p` is registered; `nf` / `nt`: the notar-fallback / notarization certificate of `(s, h)` has been added.
`PSlot e s st P`: the pool holds state `st` for slot `s`, nothing for later slots, and nobody waits for a block of slot `≥ s`.
-/
namespace AgModel.Pool
open AgModel
open AgModel.ParentReady (get isWindowStart)

structure TReady (hi s : Nat) (p : Nat × Nat) (P : Pool) : Prop where
  plt : p.1 < s
  first_le : P.fin.first ≤ p.1
  high_le : P.fin.highest ≤ p.1
  bound : hi < P.fin.highest + 2 * Gen.SLOTS_PER_EPOCH
  statusNone : ∀ t, p.1 < t → P.fin.status t = none
  parentsNone : ∀ b, p.1 < b.1 → P.fin.parents b = none
  parentOk : P.fin.status p.1 = some (.finalized p.2) ∨
    (p = (0, 0) ∧ P.fin.status 0 = some (.notarized 0) ∧ P.fin.parents (0, 0) = none ∧ (get P.pr 0).nfs = [0])
  root_le : P.pr.root ≤ p.1
  between : ∀ t, p.1 < t → t < s → (get P.pr t).skip = true
  atS : (get P.pr s).skip = false ∧ (get P.pr s).nfs = [] ∧ (get P.pr s).ready = (if isWindowStart s then [p] else [])
  above : ∀ t, s < t → (get P.pr t).skip = false ∧ (get P.pr t).nfs = [] ∧ (get P.pr t).ready = []
  prParent : isWindowStart s = false → p.1 + 1 = s ∧ (get P.pr p.1).nfs = [p.2] ∧ (get P.pr p.1).skip = false
  /-- the highest finalized slot of the finality tracker is the parent's -/
  highEq : P.fin.highest = p.1

structure TMid (hi s h : Nat) (p : Nat × Nat) (nf nt : Bool) (P : Pool) : Prop where
  plt : p.1 < s
  first_le : P.fin.first ≤ p.1
  high_le : P.fin.highest ≤ p.1
  bound : hi < P.fin.highest + 2 * Gen.SLOTS_PER_EPOCH
  statusS : P.fin.status s = (if nt then some (.notarized h) else none)
  statusNone : ∀ t, p.1 < t → t ≠ s → P.fin.status t = none
  parentS : P.fin.parents (s, h) = some p
  parentsNone : ∀ b, p.1 < b.1 → b ≠ (s, h) → P.fin.parents b = none
  parentOk : P.fin.status p.1 = some (.finalized p.2) ∨
    (p = (0, 0) ∧ P.fin.status 0 = some (.notarized 0) ∧ P.fin.parents (0, 0) = none ∧ (get P.pr 0).nfs = [0])
  root_le : P.pr.root ≤ p.1
  between : ∀ t, p.1 < t → t < s → (get P.pr t).skip = true
  atS : (get P.pr s).skip = false ∧ (get P.pr s).nfs = (if nf then [h] else []) ∧
    (get P.pr s).ready = (if isWindowStart s then [p] else [])
  next : (get P.pr (s + 1)).skip = false ∧ (get P.pr (s + 1)).nfs = [] ∧
    (get P.pr (s + 1)).ready = (if nf && isWindowStart (s + 1) then [(s, h)] else [])
  above : ∀ t, s + 1 < t → (get P.pr t).skip = false ∧ (get P.pr t).nfs = [] ∧ (get P.pr t).ready = []
  prParent : isWindowStart s = false → p.1 + 1 = s ∧ (get P.pr p.1).nfs = [p.2] ∧ (get P.pr p.1).skip = false

structure PSlot (e : Epoch) (s : Nat) (st : SlotState) (P : Pool) : Prop where
  epoch : P.epoch = e
  slot : P.getSlot s = some st
  noAbove : ∀ t, s < t → P.getSlot t = none
  waiting : WaitBelow P s

/-! ### certificates, one by one -/

theorem PSlot.of_views {e : Epoch} {s : Nat} {a a' : SlotState} {Q Q' : Pool} (ps : PSlot e s a Q) (he : Q'.epoch = Q.epoch)
    (f : Nat) (hf : f ≤ s) (hg : ∀ t, Q'.getSlot t = if f ≤ t then (if t = s then some a' else Q.getSlot t) else none)
    (hw : WaitBelow Q' s) : PSlot e s a' Q' := by
  refine ⟨he.trans ps.epoch, ?_, ?_, hw⟩
  · rw [hg, if_pos hf, if_pos rfl]
  · intro t ht
    rw [hg, if_pos (by omega), if_neg (by omega)]
    exact ps.noAbove t ht

/-- the notar-fallback certificate of `(s, h)` -/
theorem cert_nf {e : Epoch} {hi s h : Nat} {p : Nat × Nat} {a : SlotState} {Q : Pool} (ps : PSlot e s a Q)
    (tm : TMid hi s h p false false Q) (c : Cert) (hk : c.kind = .nf) (hs : c.slot = s) (hh : c.hash = h) :
    PSlot e s (a.addCert c) (Q.addValidCert c).1 ∧ TMid hi s h p true false (Q.addValidCert c).1 ∧
    (Q.addValidCert c).2 = prEvents (if isWindowStart (s + 1) then [(s + 1, (s, h))] else []) ++ [.repair s h, .cert c] := by
  subst hs hh
  obtain ⟨pr', wk, hm, hr, g1, g2, g3⟩ := ParentReady.markNotarFallback_new Q.pr c.slot c.hash
    (Nat.le_trans tm.root_le (Nat.le_of_lt tm.plt)) (by rw [tm.atS.2.1]; rfl) tm.next.1 (by rw [tm.next.2.2]; rfl)
  obtain ⟨v1, v2, v3, v4, v5, v6⟩ := addValidCert_nf Q c a hk ps.slot (ps.waiting.lookup _ (Nat.le_refl _)) pr' _ wk hm
  refine ⟨?_, ?_, v1⟩
  · exact ps.of_views v2 0 (Nat.zero_le _) (by intro t; rw [v5]; simp) (fun k hk' => ps.waiting k (v6 k hk'))
  · refine ⟨tm.plt, by rw [v3]; exact tm.first_le, by rw [v3]; exact tm.high_le, by rw [v3]; exact tm.bound,
      by rw [v3]; exact tm.statusS, by rw [v3]; exact tm.statusNone, by rw [v3]; exact tm.parentS,
      by rw [v3]; exact tm.parentsNone, ?_, by rw [v4, hr]; exact tm.root_le, ?_, ?_, ?_, ?_, ?_⟩
    · rw [v3, v4]
      rcases tm.parentOk with h1 | ⟨h1, h2, h3, h4⟩
      · exact Or.inl h1
      · refine Or.inr ⟨h1, h2, h3, ?_⟩
        rw [g3 0 (by have := tm.plt; rw [h1] at this; simp at this; omega) (by omega)]; exact h4
    · intro t h1 h2
      rw [v4, g3 t (by omega) (by omega)]; exact tm.between t h1 h2
    · rw [v4, g1]
      refine ⟨tm.atS.1, ?_, tm.atS.2.2⟩
      simp [tm.atS.2.1]
    · rw [v4, g2]
      split
      · rename_i hw
        simp [tm.next.1, tm.next.2.1, hw]
      · rename_i hw
        have hw' : isWindowStart (c.slot + 1) = false := by simpa using hw
        refine ⟨tm.next.1, tm.next.2.1, ?_⟩
        rw [tm.next.2.2]; simp [hw']
    · intro t ht
      rw [v4, g3 t (by omega) (by omega)]; exact tm.above t ht
    · intro hw
      obtain ⟨q1, q2, q3⟩ := tm.prParent hw
      rw [v4, g3 p.1 (by omega) (by omega)]
      exact ⟨q1, q2, q3⟩

/-- the notarization certificate of `(s, h)` -/
theorem cert_notar {e : Epoch} {hi s h : Nat} {p : Nat × Nat} {a : SlotState} {Q : Pool} (ps : PSlot e s a Q)
    (tm : TMid hi s h p true false Q) (c : Cert) (hk : c.kind = .notar) (hs : c.slot = s) (hh : c.hash = h) :
    PSlot e s (a.addCert c) (Q.addValidCert c).1 ∧ TMid hi s h p true true (Q.addValidCert c).1 ∧
    (Q.addValidCert c).2 = [.repair s h, .cert c] := by
  subst hs hh
  have hfs : Q.fin.first ≤ c.slot := Nat.le_trans tm.first_le (Nat.le_of_lt tm.plt)
  have hfin := Finality.markNotarized_fresh Q.fin (c.slot, c.hash) hfs (by simpa using tm.statusS)
  have hgp : ∀ x, Q.fin.first ≤ x → get (ParentReady.prune Q.pr Q.fin.first) x = get Q.pr x :=
    fun x hx => ParentReady.get_prune_ge _ hx
  obtain ⟨pr', hm, hr, g⟩ := ParentReady.markNotarFallback_known (ParentReady.prune Q.pr Q.fin.first) (c.slot, c.hash)
    (Or.inr (by rw [hgp _ hfs, tm.atS.2.1]; simp))
  obtain ⟨v1, v2, v3, v4, v5, v6⟩ := addValidCert_notar Q c a hk ps.slot ps.waiting _ hfin pr' [] [] hm
  have hgx : ∀ x, p.1 ≤ x → get pr' x = get Q.pr x := fun x hx => by rw [g x, hgp x (Nat.le_trans tm.first_le hx)]
  have hstat : ∀ x, x ≠ c.slot →
      ({ Q.fin with status := Finality.setSt Q.fin.status (c.slot, c.hash).1 (.notarized (c.slot, c.hash).2) } :
        Finality.Tracker).status x = Q.fin.status x := by
    intro x hx
    show Finality.setSt Q.fin.status c.slot _ x = _
    unfold Finality.setSt; rw [if_neg hx]
  refine ⟨?_, ?_, by simpa [prEvents] using v1⟩
  · exact ps.of_views v2 Q.fin.first hfs v5 v6
  · have hplt := tm.plt
    refine ⟨tm.plt, by rw [v3]; exact tm.first_le, by rw [v3]; exact tm.high_le, by rw [v3]; exact tm.bound,
      ?_, ?_, by rw [v3]; exact tm.parentS, by rw [v3]; exact tm.parentsNone, ?_, ?_, ?_, ?_, ?_, ?_, ?_⟩
    · rw [v3]; simp [Finality.setSt]
    · intro t h1 h2
      rw [v3, hstat t h2]; exact tm.statusNone t h1 h2
    · rw [v3, v4, hstat p.1 (by omega)]
      rcases tm.parentOk with h1 | ⟨h1, h2, h3, h4⟩
      · exact Or.inl h1
      · refine Or.inr ⟨h1, ?_, h3, ?_⟩
        · rw [hstat 0 (by rw [h1] at hplt; simp at hplt; omega)]; exact h2
        · rw [hgx 0 (by rw [h1]; exact Nat.le_refl _)]; exact h4
    · rw [v4, hr]; exact tm.first_le
    · intro t h1 h2
      rw [v4, hgx t (by omega)]; exact tm.between t h1 h2
    · rw [v4, hgx _ (by omega)]; exact tm.atS
    · rw [v4, hgx _ (by omega)]; exact tm.next
    · intro t ht
      rw [v4, hgx t (by omega)]; exact tm.above t ht
    · intro hw
      rw [v4, hgx p.1 (Nat.le_refl _)]; exact tm.prParent hw

/-- the fast-finalization certificate of `(s, h)`, or the finalization certificate of slot `s`, after the notarization
    certificate: the slot is finalized, the pool is ready for slot `s + 1` with parent `(s, h)` -/
theorem cert_fin {e : Epoch} {hi s h : Nat} {p : Nat × Nat} {a : SlotState} {Q : Pool} (ps : PSlot e s a Q)
    (tm : TMid hi s h p true true Q) (c : Cert) (hk : (c.kind = .ff ∧ c.hash = h) ∨ c.kind = .final) (hs : c.slot = s) :
    PSlot e s (a.addCert c) (Q.addValidCert c).1 ∧ TReady hi (s + 1) (s, h) (Q.addValidCert c).1 ∧
    (Q.addValidCert c).2 = [.cert c] := by
  subst hs
  have hplt := tm.plt
  have hfs : Q.fin.first ≤ c.slot := Nat.le_trans tm.first_le (Nat.le_of_lt tm.plt)
  have hst : Q.fin.status c.slot = some (.notarized h) := by simpa using tm.statusS
  -- both certificates lead to `handle_finalized_block`
  obtain ⟨t', ev, hhf, fd⟩ := Finality.handleFinalizedBlock_spec
    { Q.fin with status := Finality.setSt Q.fin.status c.slot (.finalized h) } (c.slot, h) p hplt tm.first_le
    (Nat.le_trans tm.high_le (Nat.le_of_lt hplt)) tm.parentS (by simp [Finality.setSt])
    (by
      intro x h1 h2
      show Finality.setSt Q.fin.status c.slot _ x = none
      unfold Finality.setSt; rw [if_neg (by simp only [] at h2; omega)]; exact tm.statusNone x h1 (by simp only [] at h2; omega))
    (by
      show (Finality.setSt Q.fin.status c.slot _ p.1 = _) ∨ (_ ∧ Finality.setSt Q.fin.status c.slot _ 0 = _ ∧ _)
      unfold Finality.setSt
      rw [if_neg (by omega)]
      rcases tm.parentOk with h1 | ⟨h1, h2, h3, _⟩
      · exact Or.inl h1
      · refine Or.inr ⟨h1, ?_, h3⟩
        rw [if_neg (by rw [h1] at hplt; simp at hplt; omega)]; exact h2)
  have hfin : (match c.kind with
      | .ff => Finality.markFastFinalized Q.fin (c.slot, c.hash)
      | _ => Finality.markFinalized Q.fin c.slot) = .ok t' ev := by
    rcases hk with ⟨hk, hh⟩ | hk
    · simp only [hk]
      unfold Finality.markFastFinalized
      rw [if_neg (by simp only; omega)]
      simp only [hst, hh, if_true]
      exact hhf
    · simp only [hk]
      unfold Finality.markFinalized
      rw [if_neg (by omega)]
      simp only [hst]
      exact hhf
  obtain ⟨pr1, hm, hr, g⟩ := ParentReady.handleFinalization_known Q.pr ev
    (by
      intro b hb
      rw [fd.evF] at hb
      simp only [Option.toList, List.cons_append, List.nil_append, List.mem_cons] at hb
      rcases hb with rfl | hb
      · right; rw [tm.atS.2.1]; simp
      · rcases fd.evI with h0 | hp0
        · rw [h0] at hb; cases hb
        · rw [hp0.2.2] at hb
          simp only [List.mem_singleton] at hb
          subst hb
          right
          obtain ⟨hp0, hn0, h0⟩ := hp0
          rcases tm.parentOk with h1 | ⟨_, _, _, h4⟩
          · exfalso
            rw [hp0] at h1 hplt
            have : Finality.setSt Q.fin.status c.slot (.finalized h) 0 = Q.fin.status 0 := by
              unfold Finality.setSt; rw [if_neg (by simp at hplt; omega)]
            have hn0' : Finality.setSt Q.fin.status c.slot (.finalized h) 0 = some (.notarized 0) := hn0
            rw [this, h1] at hn0'
            cases hn0'
          · rw [h4]; simp)
    (by
      intro x hx
      rw [fd.evS, List.mem_range'_1] at hx
      right
      exact tm.between x (by omega) (by omega))
  have hk' : c.kind = .ff ∨ c.kind = .final := hk.elim (fun x => Or.inl x.1) Or.inr
  obtain ⟨v1, v2, v3, v4, v5, v6⟩ := addValidCert_fin Q c a hk' ps.slot ps.waiting t' ev hfin pr1 [] [] hm
  have hfl : t'.first ≤ c.slot := fd.first_le
  have hgx : ∀ x, c.slot ≤ x → get (ParentReady.prune pr1 t'.first) x = get Q.pr x := fun x hx => by
    rw [ParentReady.get_prune_ge _ (Nat.le_trans hfl hx), g x]
  refine ⟨ps.of_views v2 t'.first hfl v5 v6, ?_, by simpa [prEvents] using v1⟩
  refine ⟨Nat.lt_succ_self _, by rw [v3]; exact hfl, by rw [v3, fd.highest]; exact Nat.le_refl _, ?_, ?_, ?_, ?_, ?_, ?_, ?_, ?_, ?_,
    by rw [v3]; exact fd.highest⟩
  · rw [v3, fd.highest]
    have := tm.bound; have := tm.high_le
    show hi < c.slot + _
    omega
  · intro t ht
    rw [v3, fd.statusAbove t ht]
    show Finality.setSt Q.fin.status c.slot _ t = none
    unfold Finality.setSt
    rw [if_neg (by simp only [] at ht; omega)]
    exact tm.statusNone t (by simp only [] at ht; omega) (by simp only [] at ht; omega)
  · intro b hb
    rw [v3, fd.parentsAbove b (by simp only [] at hb ⊢; omega)]
    exact tm.parentsNone b (by simp only [] at hb; omega) (by intro e; rw [e] at hb; simp at hb)
  · left; rw [v3]; exact fd.status
  · rw [v4]; show t'.first ≤ c.slot; exact hfl
  · intro t h1 h2; simp only [] at h1; omega
  · rw [v4, hgx _ (by omega)]
    have := tm.next
    simpa using this
  · intro t ht
    rw [v4, hgx t (by omega)]; exact tm.above t ht
  · intro _
    rw [v4, hgx _ (Nat.le_refl _)]
    refine ⟨rfl, ?_, tm.atS.1⟩
    simpa using tm.atS.2.1

/-- a finalization certificate for a slot that is already finalized (the fast path finalized it first) changes nothing -/
theorem cert_final_done {e : Epoch} {hi s h : Nat} {a : SlotState} {Q : Pool} (ps : PSlot e s a Q)
    (tr : TReady hi (s + 1) (s, h) Q) (hst : Q.fin.status s = some (.finalized h)) (c : Cert) (hk : c.kind = .final)
    (hs : c.slot = s) :
    PSlot e s (a.addCert c) (Q.addValidCert c).1 ∧ TReady hi (s + 1) (s, h) (Q.addValidCert c).1 ∧
    (Q.addValidCert c).1.fin.status s = some (.finalized h) ∧ (Q.addValidCert c).2 = [.cert c] := by
  subst hs
  have hfl : Q.fin.first ≤ c.slot := tr.first_le
  have hfin : (match c.kind with
      | .ff => Finality.markFastFinalized Q.fin (c.slot, c.hash)
      | _ => Finality.markFinalized Q.fin c.slot) = .ok Q.fin {} := by
    simp only [hk]
    exact Finality.markFinalized_done Q.fin c.slot h hfl hst
  obtain ⟨v1, v2, v3, v4, v5, v6⟩ := addValidCert_fin Q c a (Or.inr hk) ps.slot ps.waiting Q.fin {} hfin Q.pr [] []
    (ParentReady.handleFinalization_empty _)
  have hgx : ∀ x, c.slot ≤ x → get (ParentReady.prune Q.pr Q.fin.first) x = get Q.pr x := fun x hx =>
    ParentReady.get_prune_ge _ (Nat.le_trans hfl hx)
  refine ⟨ps.of_views v2 Q.fin.first hfl v5 v6, ?_, by rw [v3]; exact hst, by simpa [prEvents] using v1⟩
  refine ⟨tr.plt, by rw [v3]; exact tr.first_le, by rw [v3]; exact tr.high_le, by rw [v3]; exact tr.bound,
    by rw [v3]; exact tr.statusNone, by rw [v3]; exact tr.parentsNone, ?_, ?_, ?_, ?_, ?_, ?_, by rw [v3]; exact tr.highEq⟩
  · left; rw [v3]; exact hst
  · rw [v4]; exact hfl
  · intro t h1 h2; simp only [] at h1; omega
  · rw [v4, hgx _ (by omega)]; exact tr.atS
  · intro t ht
    rw [v4, hgx t (by omega)]; exact tr.above t ht
  · intro hw
    rw [v4, hgx _ (Nat.le_refl _)]; exact tr.prParent hw

/-! ### the block is registered -/

theorem WaitBelow.addWaiting {P : Pool} {s : Nat} (h : WaitBelow P s) (par b : Nat × Nat) (hp : par.1 < s) :
    WaitBelow (Pool.addWaiting P par b) s := by
  unfold Pool.addWaiting
  split
  · intro k hk
    simp only [List.mem_map] at hk
    obtain ⟨k', hk', rfl⟩ := hk
    split
    · exact h k' hk'
    · exact h k' hk'
  · intro k hk
    simp only [List.mem_append, List.mem_singleton] at hk
    rcases hk with hk | rfl
    · exact h k hk
    · exact hp

theorem notarSt_empty (e : Epoch) (hpos : 0 < e.total) (s h : Nat) (c : Bool) :
    NotarSt e s h [] [] ({ slot := s, parents := [(h, c)] } : SlotState) := by
  have hq : e.isQuorum (stakeOf e []) = false := isMet_zero _ _ _ (by decide) hpos
  have hf : e.isStrong (stakeOf e []) = false := isMet_zero _ _ _ (by decide) hpos
  refine ⟨⟨rfl, rfl, rfl, rfl, rfl, rfl, rfl, rfl, rfl, rfl, rfl, rfl, rfl, Or.inl rfl⟩, ?_⟩
  refine ⟨?_, fun _ => rfl, ?_, fun _ => rfl, ?_, ?_⟩
  · intro hh; rw [hq] at hh; cases hh
  · intro hh; rw [hf] at hh; cases hh
  · rw [hq]; rfl
  · rw [hq]; rfl

/-- `add_block` for the block `(s, h)` with parent `p` in a pool that is ready for slot `s` with parent `p` -/
theorem addBlock_ready {e : Epoch} (hpos : 0 < e.total) {hi s h : Nat} {p : Nat × Nat} {P : Pool}
    (he : P.epoch = e) (tr : TReady hi s p P) (hn : ∀ t, s ≤ t → P.getSlot t = none) (hw : WaitBelow P s) :
    ∃ st, (P.addBlock (s, h) p).2 = [] ∧ PSlot e s st (P.addBlock (s, h) p).1 ∧ NotarSt e s h [] [] st ∧
      TMid hi s h p false false (P.addBlock (s, h) p).1 := by
  have hplt := tr.plt
  have hfs : P.fin.first ≤ s := Nat.le_trans tr.first_le (Nat.le_of_lt hplt)
  have hap := Finality.addParent_fresh P.fin (s, h) p hplt hfs (tr.parentsNone _ hplt) (tr.statusNone _ hplt)
  -- the pool after the finality tracker and `prune`
  let P1 : Pool := P.advance { P.fin with parents := Finality.setPar P.fin.parents (s, h) p } (some (P.pr, [], []))
  have hP1fin : P1.fin = { P.fin with parents := Finality.setPar P.fin.parents (s, h) p } := advance_fin _ _ _
  have hP1g : ∀ t, P1.getSlot t = if P.fin.first ≤ t then P.getSlot t else none := fun t => getSlot_advance _ _ _ t
  have hP1s : P1.getSlot s = none := by rw [hP1g, if_pos hfs]; exact hn s (Nat.le_refl _)
  have hP1e : P1.epoch = e := (advance_epoch _ _ _).trans he
  have hP1w : WaitBelow P1 s := hw.advance _ _
  have hP1pr : P1.pr = ParentReady.prune P.pr P.fin.first := rfl
  -- the slot state is created and learns the block
  let P3 : Pool := (P1.slotState s).1.putSlot ((P1.slotState s).2.notifyParentKnown h)
  have hst2 : (P1.slotState s).2 = { slot := s } := slotState_snd_of_none hP1s
  have hnk : (P1.slotState s).2.notifyParentKnown h = { slot := s, parents := [(h, false)] } := by
    rw [hst2]; rfl
  have hP3g : ∀ t, P3.getSlot t = if t = s then some { slot := s, parents := [(h, false)] } else P1.getSlot t := by
    intro t
    show ((P1.slotState s).1.putSlot _).getSlot t = _
    rw [getSlot_putSlot, hnk, getSlot_slotState]
    by_cases hts : t = s
    · simp [hts]
    · simp [hts]
  have hP3e : P3.epoch = e := by
    show ((P1.slotState s).1.putSlot _).epoch = _
    rw [(putSlot_frame _ _).1, (slotState_frame _ _).1]; exact hP1e
  have hP3trk : P3.trk = P1.trk := by
    show ((P1.slotState s).1.putSlot _).trk = _
    rw [putSlot_trk, slotState_trk]
  have hP3w : WaitBelow P3 s := by
    intro k hk
    have : P3.waiting = P1.waiting := by
      show ((P1.slotState s).1.putSlot _).waiting = _
      rw [(putSlot_frame _ _).2.2, (slotState_frame _ _).2.2]
    rw [this] at hk; exact hP1w k hk
  -- the tail
  have htail : ∀ cert : Bool, ∃ st, (Pool.addBlockTail P3 (s, h) p [] cert).2 = [] ∧
      PSlot e s st (Pool.addBlockTail P3 (s, h) p [] cert).1 ∧ NotarSt e s h [] [] st := by
    intro cert
    cases cert with
    | false =>
      refine ⟨_, rfl, ⟨?_, ?_, ?_, ?_⟩, notarSt_empty e hpos s h false⟩
      · show (Pool.addWaiting P3 p (s, h)).epoch = e
        rw [(addWaiting_frame _ _ _).1]; exact hP3e
      · show (Pool.addWaiting P3 p (s, h)).getSlot s = _
        rw [getSlot_addWaiting, hP3g, if_pos rfl]
      · intro t ht
        show (Pool.addWaiting P3 p (s, h)).getSlot t = _
        rw [getSlot_addWaiting, hP3g, if_neg (by omega), hP1g]
        split
        · exact hn t (by omega)
        · rfl
      · exact hP3w.addWaiting _ _ hplt
    | true =>
      have hg3 : P3.getSlot s = some { slot := s, parents := [(h, false)] } := by rw [hP3g, if_pos rfl]
      have hnpc : SlotState.notifyParentCertified e ({ slot := s, parents := [(h, false)] } : SlotState) h =
          some ({ slot := s, parents := [(h, true)] }, []) := by
        have hwk : e.isWeakest 0 = false := isMet_zero _ _ _ (by decide) hpos
        simp [SlotState.notifyParentCertified, SlotState.checkS2N, lookupD, hwk, s2nOut]
      refine ⟨_, ?_, ⟨?_, ?_, ?_, ?_⟩, notarSt_empty e hpos s h true⟩
      · unfold Pool.addBlockTail
        simp only [if_true]
        rw [slotState_of_some hg3]
        simp only [hP3e, hnpc, List.isEmpty_nil, if_true]
      · unfold Pool.addBlockTail
        simp only [if_true]
        rw [slotState_of_some hg3]
        simp only [hP3e, hnpc, List.isEmpty_nil, if_true]
        rw [(addWaiting_frame _ _ _).1, (putSlot_frame _ _).1]; exact hP3e
      · unfold Pool.addBlockTail
        simp only [if_true]
        rw [slotState_of_some hg3]
        simp only [hP3e, hnpc, List.isEmpty_nil, if_true]
        rw [getSlot_addWaiting, getSlot_putSlot, if_pos rfl]
      · intro t ht
        unfold Pool.addBlockTail
        simp only [if_true]
        rw [slotState_of_some hg3]
        simp only [hP3e, hnpc, List.isEmpty_nil, if_true]
        rw [getSlot_addWaiting, getSlot_putSlot, if_neg (by simp only []; omega), hP3g, if_neg (by omega), hP1g]
        split
        · exact hn t (by omega)
        · rfl
      · unfold Pool.addBlockTail
        simp only [if_true]
        rw [slotState_of_some hg3]
        simp only [hP3e, hnpc, List.isEmpty_nil, if_true]
        exact (hP3w.putSlot _).addWaiting _ _ hplt
  -- assemble
  have hres : ∃ cert : Bool, P.addBlock (s, h) p = Pool.addBlockTail P3 (s, h) p [] cert := by
    unfold Pool.addBlock
    rw [if_neg (by simp only []; omega), hap]
    simp only [ParentReady.handleFinalization_empty, Pool.applyPr, prEvents, List.map_nil]
    have hf1 : ¬ s < P1.fin.first := by rw [hP1fin]; simp only []; omega
    refine ⟨(match P3.getSlot p.1 with | some ps => ps.isNfOrStronger p.2 | none => false), ?_⟩
    show (if s < P1.fin.first then _ else _) = _
    rw [if_neg hf1]
    rfl
  obtain ⟨cert, hres⟩ := hres
  obtain ⟨st, t1, t2, t3⟩ := htail cert
  refine ⟨st, by rw [hres]; exact t1, by rw [hres]; exact t2, t3, ?_⟩
  have htrk : (P.addBlock (s, h) p).1.trk = P1.trk := by rw [hres, addBlockTail_trk, hP3trk]
  have hfin : (P.addBlock (s, h) p).1.fin = { P.fin with parents := Finality.setPar P.fin.parents (s, h) p } :=
    (congrArg Trk.fin htrk).trans hP1fin
  have hpr : (P.addBlock (s, h) p).1.pr = ParentReady.prune P.pr P.fin.first := (congrArg Trk.pr htrk).trans hP1pr
  have hgx : ∀ x, p.1 ≤ x → get (ParentReady.prune P.pr P.fin.first) x = get P.pr x := fun x hx =>
    ParentReady.get_prune_ge _ (Nat.le_trans tr.first_le hx)
  have hpar : ∀ b, b ≠ (s, h) → Finality.setPar P.fin.parents (s, h) p b = P.fin.parents b := by
    intro b hb; unfold Finality.setPar; rw [if_neg hb]
  refine ⟨hplt, by rw [hfin]; exact tr.first_le, by rw [hfin]; exact tr.high_le, by rw [hfin]; exact tr.bound,
    ?_, ?_, ?_, ?_, ?_, ?_, ?_, ?_, ?_, ?_, ?_⟩
  · rw [hfin]; exact tr.statusNone s hplt
  · intro t h1 _; rw [hfin]; exact tr.statusNone t h1
  · rw [hfin]; show Finality.setPar P.fin.parents (s, h) p (s, h) = some p
    unfold Finality.setPar; rw [if_pos rfl]
  · intro b h1 h2; rw [hfin]; show Finality.setPar P.fin.parents (s, h) p b = none
    rw [hpar b h2]; exact tr.parentsNone b h1
  · rw [hfin, hpr]
    rcases tr.parentOk with h1 | ⟨h1, h2, h3, h4⟩
    · exact Or.inl h1
    · refine Or.inr ⟨h1, h2, ?_, ?_⟩
      · show Finality.setPar P.fin.parents (s, h) p (0, 0) = none
        rw [hpar _ (by intro e0; have := congrArg Prod.fst e0; simp at this; omega)]; exact h3
      · rw [hgx 0 (by rw [h1]; exact Nat.le_refl _)]; exact h4
  · rw [hpr]; exact tr.first_le
  · intro t h1 h2; rw [hpr, hgx t (by omega)]; exact tr.between t h1 h2
  · rw [hpr, hgx s (by omega)]; exact tr.atS
  · rw [hpr, hgx _ (by omega)]
    have := tr.above (s + 1) (by omega)
    simpa using this
  · intro t ht; rw [hpr, hgx t (by omega)]; exact tr.above t (by omega)
  · intro hw'; rw [hpr, hgx _ (Nat.le_refl _)]; exact tr.prParent hw'

/-! ### `add_vote` -/

theorem addVote_admitted (Q : Pool) (v : Vote) (hb : Q.outOfBounds v.slot = false) (hn : v.signer < Q.epoch.n)
    (hc : (Q.slotState v.slot).2.checkSlashable v = none) (hi : (Q.slotState v.slot).2.shouldIgnore v = false) :
    Q.addVote v =
      ((((Q.slotState v.slot).1.putSlot ((Q.slotState v.slot).2.addVote (Q.slotState v.slot).1.epoch v).1).addValidCerts
          ((Q.slotState v.slot).2.addVote (Q.slotState v.slot).1.epoch v).2.1 []).1, .ok,
       (((Q.slotState v.slot).1.putSlot ((Q.slotState v.slot).2.addVote (Q.slotState v.slot).1.epoch v).1).addValidCerts
          ((Q.slotState v.slot).2.addVote (Q.slotState v.slot).1.epoch v).2.1 []).2 ++
        ((Q.slotState v.slot).2.addVote (Q.slotState v.slot).1.epoch v).2.2) := by
  unfold Pool.addVote
  rw [hb]
  simp only [Bool.false_eq_true, if_false]
  rw [if_neg (by omega)]
  simp only [hc, hi, Bool.false_eq_true, if_false]

theorem addVote_dup (Q : Pool) (v : Vote) (a : SlotState) (hb : Q.outOfBounds v.slot = false) (hn : v.signer < Q.epoch.n)
    (hg : Q.getSlot v.slot = some a) (hc : a.checkSlashable v = none) (hi : a.shouldIgnore v = true) :
    Q.addVote v = (Q, .dup, []) := by
  unfold Pool.addVote
  rw [hb]
  simp only [Bool.false_eq_true, if_false]
  rw [if_neg (by omega), slotState_of_some hg]
  simp only [hc, hi, if_true]

theorem TMid.of_trk {hi s h : Nat} {p : Nat × Nat} {nf nt : Bool} {Q Q' : Pool} (t : TMid hi s h p nf nt Q)
    (e : Q'.trk = Q.trk) : TMid hi s h p nf nt Q' := by
  have e1 : Q'.fin = Q.fin := congrArg Trk.fin e
  have e2 : Q'.pr = Q.pr := congrArg Trk.pr e
  obtain ⟨a1, a2, a3, a4, a5, a6, a7, a8, a9, a10, a11, a12, a13, a14, a15⟩ := t
  refine ⟨a1, ?_, ?_, ?_, ?_, ?_, ?_, ?_, ?_, ?_, ?_, ?_, ?_, ?_, ?_⟩ <;> (first | rw [e1, e2] | rw [e1] | rw [e2]) <;> assumption

theorem TReady.of_trk {hi s : Nat} {p : Nat × Nat} {Q Q' : Pool} (t : TReady hi s p Q) (e : Q'.trk = Q.trk) :
    TReady hi s p Q' := by
  have e1 : Q'.fin = Q.fin := congrArg Trk.fin e
  have e2 : Q'.pr = Q.pr := congrArg Trk.pr e
  obtain ⟨a1, a2, a3, a4, a5, a6, a7, a8, a9, a10, a11, a12, a13⟩ := t
  refine ⟨a1, ?_, ?_, ?_, ?_, ?_, ?_, ?_, ?_, ?_, ?_, ?_, ?_⟩ <;> (first | rw [e1, e2] | rw [e1] | rw [e2]) <;> assumption

theorem PSlot.putSlot {e : Epoch} {s : Nat} {a a' : SlotState} {Q : Pool} (ps : PSlot e s a Q) (hs : a'.slot = s) :
    PSlot e s a' (Q.putSlot a') := by
  refine ⟨(putSlot_frame Q a').1.trans ps.epoch, ?_, ?_, ps.waiting.putSlot _⟩
  · rw [getSlot_putSlot, hs, if_pos rfl]
  · intro t ht
    rw [getSlot_putSlot, hs, if_neg (by omega)]
    exact ps.noAbove t ht

end AgModel.Pool
