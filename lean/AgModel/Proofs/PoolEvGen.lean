import AgModel.Proofs.NodeFallback
/-!
# A per-slot predicate and an event predicate through every pool operation (generic form)

`Proofs/NodeFallback.lean` (part 1) carries "every stored own vote is logged" (`QO`) through `poolStep` and shows that the
safe-to events an operation emits are backed by it (`GoodO`). The same call-structure argument is needed for other
per-slot predicates (C01 cluster refinement: "every stored vote is signed"), so here it is once, for any per-slot
predicate `Q` and event predicate `G` with:

* `Q` holds for fresh slot states, is kept by `notify_parent_known` / `notify_parent_certified`;
* `G` holds for every safe-to event that is justified (`EvSound`, C06 `s2n_s2s_sound`) in a slot state satisfying `Q`,
  and for all other events;
* (per operation) `Q` is kept by storing the operation's vote resp. by adding the certificates involved.
-/
namespace AgModel.Pool

structure EvGen (e : Epoch) (Q : SlotState → Prop) (G : Event → Prop) : Prop where
  init : ∀ s, Q { slot := s }
  kid : ∀ k, KidSite e Q k
  known : ∀ st h, Q st → Q (st.notifyParentKnown h)
  sound : ∀ st evs, Q st → EvSound e st evs → ∀ ev ∈ evs, G ev
  pr : ∀ s a b, G (.parentReady s a b)
  panic : G .panic
  repair : ∀ a b, G (.repair a b)
  cert : ∀ c, G (.cert c)

/-- the pool invariant: every slot state satisfies `Q` -/
def PInv (e : Epoch) (Q : SlotState → Prop) (p : Pool) : Prop := p.epoch = e ∧ SlotsSat p Q

variable {e : Epoch} {Q : SlotState → Prop} {G : Event → Prop}

theorem PInv.init (g : EvGen e Q G) : PInv e Q { epoch := e } := ⟨rfl, SlotsSat.init e _⟩

theorem PInv.slotState (g : EvGen e Q G) {p : Pool} (h : PInv e Q p) (s : Nat) : PInv e Q (p.slotState s).1 :=
  ⟨(slotState_frame p s).1.trans h.1, h.2.slotState s (g.init s)⟩

theorem PInv.advance {p : Pool} (h : PInv e Q p) (t : Finality.Tracker) (r : ParentReady.Res) : PInv e Q (p.advance t r) :=
  ⟨(advance_epoch p t r).trans h.1, h.2.advance t r⟩

theorem PInv.handleFin {p : Pool} (h : PInv e Q p) (op : Finality.Op) : PInv e Q (p.handleFin (Finality.step p.fin op)).1 := by
  rcases handleFin_cases p op with h1 | ⟨t, r, _, h1⟩
  · rw [h1]; exact h
  · rw [h1]; exact h.advance t r

theorem PInv.stored (g : EvGen e Q G) {p : Pool} (h : PInv e Q p) (c : Cert)
    (hc : ∀ st, st.slot = c.slot → Q st → Q (st.addCert c)) : PInv e Q (p.stored c) := by
  unfold Pool.stored
  refine ⟨(mod_frame p c.slot _).1.trans h.1, h.2.mod c.slot _ (g.init _) ?_⟩
  exact hc _ (slotState_snd_slot p c.slot) (h.2.slotState_snd c.slot (g.init _))

theorem addValidCert_pinv (g : EvGen e Q G) (c : Cert) (p : Pool) (h : PInv e Q p)
    (hc : ∀ st, st.slot = c.slot → Q st → Q (st.addCert c)) : PInv e Q (p.addValidCert c).1 :=
  addValidCert_sat e Q g.init c p h.1 h.2 hc (fun _ _ _ k _ => g.kid k)

theorem PInv.known (g : EvGen e Q G) {p : Pool} (h : PInv e Q p) (b : Nat × Nat) : PInv e Q (p.known b) :=
  ⟨(known_frame _ b).1.trans h.1, h.2.mod b.1 _ (g.init _) (g.known _ b.2 (h.2.slotState_snd b.1 (g.init _)))⟩

/-! ### the events -/

theorem applyPr_g (g : EvGen e Q G) (p : Pool) (r : ParentReady.Res) : ∀ ev ∈ (p.applyPr r).2, G ev := by
  intro ev hev
  unfold Pool.applyPr at hev
  split at hev
  · simp only [List.mem_singleton] at hev; subst hev; exact g.panic
  · unfold prEvents at hev
    obtain ⟨a, _, rfl⟩ := List.mem_map.mp hev
    exact g.pr _ _ _

theorem handleFin_g (g : EvGen e Q G) (p : Pool) (r : Finality.Res) : ∀ ev ∈ (p.handleFin r).2, G ev := by
  intro ev hev
  unfold Pool.handleFin at hev
  split at hev
  · simp only [List.mem_singleton] at hev; subst hev; exact g.panic
  · exact applyPr_g g _ _ ev hev

theorem notifyChildren_g (g : EvGen e Q G) (kids : List (Nat × Nat)) (p : Pool) (acc : List Event)
    (he : p.epoch = e) (hs : SlotsSat p Q) (hacc : ∀ ev ∈ acc, G ev) :
    ∀ ev ∈ (p.notifyChildren kids acc).2, G ev := by
  induction kids generalizing p acc with
  | nil => exact hacc
  | cons k ks ih =>
    obtain ⟨cs, ch⟩ := k
    rw [notifyChildren_cons]
    split
    · exact ih p acc he hs hacc
    · split
      · intro ev hev
        rcases List.mem_append.mp hev with hev | hev
        · exact hacc ev hev
        · simp only [List.mem_singleton] at hev; subst hev; exact g.panic
      · rename_i st' evs hn
        rw [(slotState_frame p cs).1, he] at hn
        have hq : Q st' := g.kid (cs, ch) _ st' evs (slotState_snd_slot p cs) hn (hs.slotState_snd cs (g.init cs))
        have hsound := (slotStep_emit e (p.slotState cs).2 (.parentCertified ch)).1
        simp only [slotStep, hn] at hsound
        apply ih _ _ ((mod_frame p cs st').1.trans he) (hs.mod cs st' (g.init cs) hq)
        intro ev hev
        rcases List.mem_append.mp hev with hev | hev
        · exact hacc ev hev
        · exact g.sound _ _ hq hsound ev hev

theorem notifyWaiting_g (g : EvGen e Q G) (p : Pool) (par0 : Nat × Nat) (h : PInv e Q p) :
    ∀ ev ∈ (p.notifyWaiting par0).2, G ev := by
  unfold Pool.notifyWaiting
  exact notifyChildren_g g ((p.waiting.lookup par0).getD []) { p with waiting := p.waiting.filter (·.1 ≠ par0) } []
    h.1 (fun s st hg => h.2 s st hg) (fun _ hx => by cases hx)

theorem addValidCert_g (g : EvGen e Q G) (c : Cert) (p : Pool) (h : PInv e Q p)
    (hc : ∀ st, st.slot = c.slot → Q st → Q (st.addCert c)) : ∀ ev ∈ (p.addValidCert c).2, G ev := by
  have hmid := h.stored g c hc
  have hwake : ∀ q, PInv e Q q → ∀ ev ∈ (q.notifyWaiting (c.slot, c.hash)).2, G ev :=
    fun q hq => notifyWaiting_g g q _ hq
  have hfin : ∀ op, PInv e Q ((p.stored c).handleFin (Finality.step (p.stored c).fin op)).1 := fun op => hmid.handleFin op
  intro ev hev
  unfold Pool.addValidCert at hev
  dsimp only at hev
  unfold Pool.stored at hmid hfin
  generalize ((p.slotState c.slot).1.putSlot ((p.slotState c.slot).2.addCert c)) = p1 at hmid hfin hev
  cases hk : c.kind <;> simp only [hk] at hev
  · simp only [show (CertKind.notar == CertKind.notar) = true from rfl, if_true] at hev
    simp only [List.mem_append, List.mem_singleton] at hev
    rcases hev with (((hev | hev) | hev) | hev) | hev
    · exact handleFin_g g _ _ ev hev
    · exact hwake _ (hfin (.notar (c.slot, c.hash))) ev hev
    · exact applyPr_g g _ _ ev hev
    · subst hev; exact g.repair _ _
    · subst hev; exact g.cert _
  · simp only [show (CertKind.nf == CertKind.notar) = false from rfl, Bool.false_eq_true, if_false] at hev
    simp only [List.mem_append, List.mem_singleton, List.not_mem_nil, false_or] at hev
    rcases hev with ((hev | hev) | hev) | hev
    · exact hwake _ hmid ev hev
    · exact applyPr_g g _ _ ev hev
    · subst hev; exact g.repair _ _
    · subst hev; exact g.cert _
  · simp only [List.mem_append, List.mem_singleton] at hev
    rcases hev with hev | hev
    · exact applyPr_g g _ _ ev hev
    · subst hev; exact g.cert _
  · simp only [List.mem_append, List.mem_singleton] at hev
    rcases hev with (hev | hev) | hev
    · exact handleFin_g g _ _ ev hev
    · exact hwake _ (hfin (.fastFinal (c.slot, c.hash))) ev hev
    · subst hev; exact g.cert _
  · simp only [List.mem_append, List.mem_singleton] at hev
    rcases hev with hev | hev
    · exact handleFin_g g _ _ ev hev
    · subst hev; exact g.cert _

theorem addValidCerts_pinv (g : EvGen e Q G) (cs : List Cert) (p : Pool) (acc : List Event) (h : PInv e Q p)
    (hc : ∀ c ∈ cs, ∀ st, st.slot = c.slot → Q st → Q (st.addCert c)) : PInv e Q (p.addValidCerts cs acc).1 :=
  addValidCerts_ind (PInv e Q) cs p acc (fun c hcm q hq => addValidCert_pinv g c q hq (hc c hcm)) h

theorem addValidCerts_g (g : EvGen e Q G) (cs : List Cert) (p : Pool) (acc : List Event) (h : PInv e Q p)
    (hc : ∀ c ∈ cs, ∀ st, st.slot = c.slot → Q st → Q (st.addCert c)) (hacc : ∀ ev ∈ acc, G ev) :
    ∀ ev ∈ (p.addValidCerts cs acc).2, G ev := by
  induction cs generalizing p acc with
  | nil => exact hacc
  | cons c cs ih =>
    rw [addValidCerts_cons]
    apply ih _ _ (addValidCert_pinv g c p h (hc c (by simp))) (fun c' hc' => hc c' (by simp [hc']))
    intro ev hev
    rcases List.mem_append.mp hev with hev | hev
    · exact hacc ev hev
    · exact addValidCert_g g c p h (hc c (by simp)) ev hev

theorem addBlockTail_g (g : EvGen e Q G) (r : Pool) (b par : Nat × Nat) (e0 : List Event) (cert : Bool)
    (h : PInv e Q r) (h0 : ∀ ev ∈ e0, G ev) : ∀ ev ∈ (Pool.addBlockTail r b par e0 cert).2, G ev := by
  unfold Pool.addBlockTail
  split
  · split
    · intro ev hev
      rcases List.mem_append.mp hev with hev | hev
      · exact h0 ev hev
      · simp only [List.mem_singleton] at hev; subst hev; exact g.panic
    · rename_i st' evs hn
      rw [(slotState_frame r b.1).1, h.1] at hn
      have hq : Q st' := g.kid b _ st' evs (slotState_snd_slot r b.1) hn (h.2.slotState_snd b.1 (g.init _))
      have hsound := (slotStep_emit e (r.slotState b.1).2 (.parentCertified b.2)).1
      simp only [slotStep, hn] at hsound
      split
      · exact h0
      · intro ev hev
        rcases List.mem_append.mp hev with hev | hev
        · exact h0 ev hev
        · exact g.sound _ _ hq hsound ev hev
  · exact h0

theorem addVote_ok_adm (p : Pool) (v : Vote) (hok : (p.addVote v).2.1 = .ok) : Adm (p.slotState v.slot).2 v := by
  unfold Pool.addVote at hok
  split at hok
  · cases hok
  split at hok
  · cases hok
  dsimp only at hok
  split at hok
  · cases hok
  · rename_i hsl
    split at hok
    · cases hok
    · rename_i hig
      exact ⟨hsl, by simpa using hig⟩

/-- the premise on an operation: storing its vote keeps `Q` and so does adding each certificate it creates; adding the
    delivered certificate keeps `Q` -/
def OpKeeps (e : Epoch) (Q : SlotState → Prop) : PoolOp → Prop
  | .vote v => ∀ st, st.slot = v.slot → Adm st v → Q st →
      Q (st.addVote e v).1 ∧ ∀ c ∈ (st.addVote e v).2.1, ∀ st', st'.slot = c.slot → Q st' → Q (st'.addCert c)
  | .cert c => ∀ st, st.slot = c.slot → Q st → Q (st.addCert c)
  | .block _ _ => True

/-- **The invariant is kept** -/
theorem poolStep_pinv (g : EvGen e Q G) (p : Pool) (op : PoolOp) (h : PInv e Q p) (hop : OpKeeps e Q op) :
    PInv e Q (poolStep p op).1 := by
  cases op with
  | vote v =>
    simp only [poolStep]
    rcases addVote_cases p v with h1 | h1 | ⟨ha, h1, _⟩
    · rw [h1]; exact h
    · rw [h1]; exact h.slotState g _
    · rw [h1]
      have hst : Q (p.slotState v.slot).2 := h.2.slotState_snd v.slot (g.init _)
      obtain ⟨k1, k2⟩ := hop _ (slotState_snd_slot p v.slot) ha hst
      rw [h.1]
      refine addValidCerts_pinv g _ _ _ ?_ k2
      exact ⟨(mod_frame p v.slot _).1.trans h.1, h.2.mod v.slot _ (g.init _) k1⟩
  | cert c =>
    simp only [poolStep]
    exact addCert_ind (PInv e Q) p c (fun s hp => hp.slotState g s) (fun _ q hq => addValidCert_pinv g c q hq hop) h
  | block b par =>
    simp only [poolStep]
    apply addBlock_ind (PInv e Q) p b par (fun _ => h)
    intro _ t r _
    have hq := h.advance t r
    refine ⟨fun _ e0 => ?_, fun _ => hq⟩
    have hk := hq.known g b
    exact ⟨(addBlockTail_epoch _ b par e0 _).trans hk.1,
      addBlockTail_sat e Q g.init _ b par e0 _ hk.1 hk.2 (fun _ => g.kid b)⟩

/-- **Every event an operation emits satisfies `G`** -/
theorem poolStep_g (g : EvGen e Q G) (p : Pool) (op : PoolOp) (h : PInv e Q p) (hop : OpKeeps e Q op) :
    ∀ ev ∈ (poolStep p op).2, G ev := by
  cases op with
  | vote v =>
    simp only [poolStep]
    rcases addVote_out p v with ⟨_, _, h3⟩ | ⟨_, h3⟩ | ⟨hok, h3⟩
    · rw [h3]; intro ev hev; cases hev
    · rw [h3]; intro ev hev; simp only [List.mem_singleton] at hev; subst hev; exact g.panic
    · -- the vote was admitted
      have ha : Adm (p.slotState v.slot).2 v := addVote_ok_adm p v hok
      have hst : Q (p.slotState v.slot).2 := h.2.slotState_snd v.slot (g.init _)
      obtain ⟨k1, k2⟩ := hop _ (slotState_snd_slot p v.slot) ha hst
      have hmod : PInv e Q ((p.slotState v.slot).1.putSlot ((p.slotState v.slot).2.addVote e v).1) :=
        ⟨(mod_frame p v.slot _).1.trans h.1, h.2.mod v.slot _ (g.init _) k1⟩
      intro ev hev
      rw [h3, h.1] at hev
      rcases List.mem_append.mp hev with hev | hev
      · exact addValidCerts_g g _ _ [] hmod k2 (fun _ hx => by cases hx) ev hev
      · exact g.sound _ _ k1 (addVote_emit e _ v).1 ev hev
  | cert c =>
    simp only [poolStep]
    rcases addCert_out p c with ⟨_, h3⟩ | ⟨_, h3⟩
    · rw [h3]; intro ev hev; cases hev
    · rw [h3]; exact addValidCert_g g c _ (h.slotState g _) hop
  | block b par =>
    simp only [poolStep]
    have ht : ∀ ev ∈ trackerEvents p (.block b par), G ev := by
      intro ev hev
      simp only [trackerEvents] at hev
      split at hev
      · simp only [List.mem_singleton] at hev; subst hev; exact g.panic
      · split at hev
        · simp only [List.mem_singleton] at hev; subst hev; exact g.panic
        · exact applyPr_g g _ _ ev hev
    rcases addBlock_full p b par with ⟨_, h1⟩ | ⟨_, t, r, _, h1 | h1⟩
    · rw [h1]; intro ev hev; simp only [List.mem_singleton] at hev; subst hev; exact g.panic
    · rw [h1]; exact ht
    · rw [h1]
      exact addBlockTail_g g _ b par _ _ ((h.advance t r).known g b) ht

end AgModel.Pool
