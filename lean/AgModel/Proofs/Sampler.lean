import AgModel.Model.Sampler
/-! Helper lemmas for `Props/C17.lean` (core Lean only). -/
namespace AgModel.Sampler

theorem cut_le (T k s : Nat) (hk : 0 < k) : cut T k s ≤ s := by
  unfold cut seats
  have h1 : s * k / T * T ≤ s * k := Nat.div_mul_le_self _ _
  calc s * k / T * T / k ≤ s * k / k := Nat.div_le_div_right h1
    _ = s := Nat.mul_div_cancel s hk

theorem sum_div_le (T : Nat) (l : List Nat) : (l.map (· / T)).sum ≤ l.sum / T := by
  by_cases hT : T = 0
  · subst hT; simp
    induction l with
    | nil => simp
    | cons a l ih => simp [ih]
  have hpos : 0 < T := Nat.pos_of_ne_zero hT
  induction l with
  | nil => simp
  | cons a l ih =>
    simp only [List.map_cons, List.sum_cons]
    rw [Nat.le_div_iff_mul_le hpos, Nat.add_mul]
    have h1 : a / T * T ≤ a := Nat.div_mul_le_self _ _
    have h2 : (l.map (· / T)).sum * T ≤ l.sum := (Nat.le_div_iff_mul_le hpos).mp ih
    omega

theorem sum_map_mul (k : Nat) (l : List Nat) : (l.map (· * k)).sum = l.sum * k := by
  induction l with
  | nil => simp
  | cons a l ih => simp [ih, Nat.add_mul]

theorem seats_sum_le (stakes : List Nat) (k : Nat) (hT : 0 < total stakes) :
    (stakes.map (seats (total stakes) k)).sum ≤ k := by
  have h := sum_div_le (total stakes) (stakes.map (· * k))
  rw [List.map_map, sum_map_mul] at h
  have : stakes.sum * k / total stakes = k := by
    unfold total at *; rw [Nat.mul_comm, Nat.mul_div_cancel _ hT]
  rw [this] at h
  exact h

theorem requiredFrom_length (T k i : Nat) (l : List Nat) :
    (requiredFrom T k i l).length = (l.map (seats T k)).sum := by
  induction l generalizing i with
  | nil => simp [requiredFrom]
  | cons s l ih => simp [requiredFrom, ih]

theorem requiredFrom_count (T k i : Nat) (l : List Nat) (v : Nat) :
    (requiredFrom T k i l).count v = if i ≤ v ∧ v < i + l.length then seats T k (l.getD (v - i) 0) else 0 := by
  induction l generalizing i with
  | nil =>
    have : ¬ (i ≤ v ∧ v < i + 0) := by omega
    simp only [requiredFrom, List.count_nil, List.length_nil, this, if_false]
  | cons s l ih =>
    simp only [requiredFrom, List.count_append, List.count_replicate, ih, List.length_cons]
    by_cases h1 : i = v
    · subst h1
      have : ¬ (i + 1 ≤ i ∧ i < i + 1 + l.length) := by omega
      simp [this]
    · have : ¬ (i == v) = true := by simpa using h1
      simp only [this]
      by_cases h2 : i + 1 ≤ v ∧ v < i + 1 + l.length
      · have h3 : i ≤ v ∧ v < i + (l.length + 1) := by omega
        have h4 : v - i = (v - (i + 1)) + 1 := by omega
        simp [h2, h3, h4]
      · have h3 : ¬ (i ≤ v ∧ v < i + (l.length + 1)) := by omega
        simp [h2, h3]

theorem requiredFrom_mem_lt (T k i : Nat) (l : List Nat) (v : Nat) (h : v ∈ requiredFrom T k i l) :
    v < i + l.length := by
  have := requiredFrom_count T k i l v
  have hp := List.count_pos_iff.mpr h
  by_cases hc : i ≤ v ∧ v < i + l.length
  · exact hc.2
  · simp [hc] at this; omega

theorem required_length_le (stakes : List Nat) (k : Nat) (hT : 0 < total stakes) :
    (required stakes k).length ≤ k := by
  unfold required; rw [requiredFrom_length]; exact seats_sum_le stakes k hT

theorem required_count (stakes : List Nat) (k v : Nat) (hv : v < stakes.length) :
    (required stakes k).count v = seats (total stakes) k (stakes.getD v 0) := by
  unfold required; rw [requiredFrom_count]; simp [hv]

theorem required_mem_lt (stakes : List Nat) (k v : Nat) (h : v ∈ required stakes k) : v < stakes.length := by
  have := requiredFrom_mem_lt _ _ _ _ _ h; omega

/-- FA1 pre-processing never panics on a non-empty set with positive total stake and `k ≥ 1`. -/
theorem fa1_some (stakes : List Nat) (k : Nat) (hk : 0 < k) (hT : 0 < total stakes) :
    ∃ f, fa1 stakes k = some f ∧ f.req = required stakes k ∧ f.req.length + f.kPrime = k ∧
      f.weights.length = stakes.length := by
  have hne : stakes ≠ [] := by intro h; subst h; simp [total] at hT
  have hle := required_length_le stakes k hT
  unfold fa1
  have h1 : ¬ (k = 0 ∨ total stakes = 0) := by omega
  have h2 : ¬ ((required stakes k).length > k) := by omega
  simp only [hne, h1, h2, if_false]
  refine ⟨_, rfl, rfl, by simp; omega, ?_⟩
  simp only
  split <;> simp [residuals]

theorem fa2_some_req (stakes : List Nat) (k : Nat) (req med : List Nat) (hT : 0 < total stakes)
    (h : fa2 stakes k = some (req, med)) : req = required stakes k := by
  have hne : stakes ≠ [] := by intro h; subst h; simp [total] at hT
  unfold fa2 at h
  simp only [hne, if_false] at h
  by_cases h1 : k = 0 ∨ total stakes = 0
  · simp [h1] at h
  · simp only [h1, if_false] at h
    by_cases h2 : (stakes.map (roundSeats (total stakes) k)).sum > k
    · simp [h2] at h
    · simp only [h2, if_false] at h
      injection h with h; injection h with h3 h4; exact h3.symm

theorem count_take_le (c : List Nat) (r v : Nat) : (c.take r).count v ≤ c.count v :=
  List.Sublist.count_le v (List.take_sublist r c)

theorem floor_of_prefix (stakes : List Nat) (k : Nat) (c : List Nat)
    (hp : c.take (required stakes k).length = required stakes k) :
    floorGuarantee stakes k c = true := by
  unfold floorGuarantee
  simp only [List.all_eq_true, List.mem_range, decide_eq_true_eq]
  intro v hv
  have h1 := count_take_le c (required stakes k).length v
  rw [hp, required_count stakes k v hv] at h1
  exact h1


theorem length_of_take_drop (c req : List Nat) (m : Nat) (h1 : c.take req.length = req)
    (h2 : (c.drop req.length).length = m) : c.length = req.length + m := by
  have h3 : (c.take req.length).length = req.length := by rw [h1]
  rw [List.length_take] at h3
  rw [List.length_drop] at h2
  omega

theorem mem_of_take_drop (c : List Nat) (r : Nat) (v : Nat) (h : v ∈ c) : v ∈ c.take r ∨ v ∈ c.drop r := by
  rw [← List.take_append_drop r c] at h
  exact List.mem_append.mp h

theorem iidValid_spec (weights : List Nat) (k : Nat) (c : List Nat) (h : iidValid weights k c = true) :
    c.length = k ∧ ∀ v ∈ c, v < weights.length ∧ 0 < weights.getD v 0 := by
  unfold iidValid at h
  simp only [Bool.and_eq_true, beq_iff_eq, List.all_eq_true, decide_eq_true_eq] at h
  exact ⟨h.1, fun v hv => by have := h.2 v hv; simpa using this⟩

/-- decaying acceptance: counters -/
theorem decayAccept_bound (num den : Nat) (hden : 0 < den) (counts counts' : List Nat) (v : Nat)
    (h : decayAccept num den counts v = some counts')
    (hb : ∀ w, counts.getD w 0 ≤ capOf num den) : ∀ w, counts'.getD w 0 ≤ capOf num den := by
  unfold decayAccept at h
  split at h
  · rename_i hlt
    injection h with h; subst h
    intro w
    have hcap : counts.getD v 0 + 1 ≤ capOf num den := by
      unfold capOf divCeil
      rw [Nat.le_div_iff_mul_le hden, Nat.add_mul]
      omega
    simp only [List.getD_eq_getElem?_getD, List.getElem?_set]
    by_cases hvw : v = w
    · subst hvw
      by_cases hlen : v < counts.length
      · have hg : counts.getD v 0 = counts[v] := by simp [List.getD_eq_getElem?_getD, hlen]
        rw [hg] at hcap
        simp [hlen]; exact hcap
      · simp [hlen]
    · have := hb w
      simp [hvw]; simpa [List.getD_eq_getElem?_getD] using this
  · simp at h

theorem decayAccept_count (num den : Nat) (counts counts' : List Nat) (v : Nat)
    (h : decayAccept num den counts v = some counts') (hv : v < counts.length) :
    counts'.length = counts.length ∧
    ∀ w, counts'.getD w 0 = counts.getD w 0 + (if v = w then 1 else 0) := by
  unfold decayAccept at h
  split at h
  · injection h with h; subst h
    refine ⟨by simp, ?_⟩
    intro w
    simp only [List.getD_eq_getElem?_getD, List.getElem?_set]
    by_cases hvw : v = w
    · subst hvw; simp [hv]
    · simp [hvw]
  · simp at h

theorem decayReplay_spec (num den : Nat) (hden : 0 < den) (c : List Nat) :
    ∀ (counts counts' : List Nat), decayReplay num den counts c = some counts' →
      (∀ v ∈ c, v < counts.length) → (∀ w, counts.getD w 0 ≤ capOf num den) →
      (∀ w, counts'.getD w 0 ≤ capOf num den) ∧ ∀ w, counts'.getD w 0 = counts.getD w 0 + c.count w := by
  induction c with
  | nil => intro counts counts' h _ hb; simp [decayReplay] at h; subst h; exact ⟨hb, by simp⟩
  | cons v vs ih =>
    intro counts counts' h hlt hb
    simp only [decayReplay] at h
    cases ha : decayAccept num den counts v with
    | none => simp [ha] at h
    | some c1 =>
      simp only [ha] at h
      have hv : v < counts.length := hlt v (by simp)
      have ⟨hl, hc⟩ := decayAccept_count num den counts c1 v ha hv
      have hb1 := decayAccept_bound num den hden counts c1 v ha hb
      have ⟨r1, r2⟩ := ih c1 counts' h (fun w hw => by rw [hl]; exact hlt w (by simp [hw])) hb1
      refine ⟨r1, ?_⟩
      intro w
      rw [r2 w, hc w, List.count_cons]
      by_cases hvw : v = w <;> simp [hvw] <;> omega

def PInv (numBins : Nat) (st : PState) : Prop := st.done.length = st.curIdx ∧ st.curIdx ≤ numBins - 1

theorem placeOne_inv (spb numBins fuel : Nat) (st : PState) (id stake : Nat) (h : PInv numBins st) :
    PInv numBins (placeOne spb numBins fuel st id stake) := by
  induction fuel generalizing st stake with
  | zero => simpa [placeOne] using h
  | succ fuel ih =>
    unfold placeOne
    split
    · exact h
    · apply ih
      split
      · rename_i hc
        refine ⟨by simp [h.1], ?_⟩
        simp only
        omega
      · exact h

theorem placeAll_inv (spb numBins : Nat) (weights : List Nat) (order : List Nat) (st : PState)
    (h : PInv numBins st) : PInv numBins (placeAll spb numBins weights st order) := by
  induction order generalizing st with
  | nil => simpa [placeAll] using h
  | cons id rest ih => simp only [placeAll]; exact ih _ (placeOne_inv _ _ _ _ _ _ h)

theorem binsOf_length (numBins : Nat) (st : PState) (h : PInv numBins st) (hn : 0 < numBins) :
    (binsOf numBins st).length = numBins := by
  unfold binsOf
  simp only [List.length_append, List.length_reverse, List.length_cons, List.length_replicate, h.1]
  have := h.2
  omega

theorem partition_length (weights order : List Nat) (numBins : Nat) (bins : List (List (Nat × Nat)))
    (h : partition weights order numBins = some bins) : bins.length = numBins := by
  unfold partition at h
  split at h
  · rename_i h0; injection h with h; subst h; simp [h0]
  · rename_i h0
    simp only at h
    split at h
    · simp at h
    · injection h with h
      subst h
      exact binsOf_length numBins _ (placeAll_inv _ _ _ _ _ ⟨rfl, by simp⟩) (by omega)

theorem partition_nonempty (weights order : List Nat) (numBins : Nat) (bins : List (List (Nat × Nat)))
    (h : partition weights order numBins = some bins) : ∀ b ∈ bins, b ≠ [] := by
  unfold partition at h
  split at h
  · injection h with h; subst h; simp
  · simp only at h
    split at h
    · simp at h
    · rename_i hany
      injection h with h
      subst h
      intro b hb hnil
      apply hany
      simp only [List.any_eq_true]
      exact ⟨b, hb, by simp [hnil]⟩

theorem binsValid_length : ∀ (bins : List (List (Nat × Nat))) (c : List Nat), binsValid bins c = true → c.length = bins.length
  | [], [], _ => rfl
  | [], _ :: _, h => by simp [binsValid] at h
  | _ :: _, [], h => by simp [binsValid] at h
  | b :: bs, v :: vs, h => by
    simp only [binsValid, Bool.and_eq_true] at h
    simp [binsValid_length bs vs h.2]

end AgModel.Sampler
