import AgModel.Proofs.VotorExt
/-!
# C05 / C01 helper: a correct node never votes in the genesis slot

`Votor::new` creates slot 0 voted (`voted = true`, `voted_notar = Some(GENESIS)`) and retired. `Zero v`: as long as slot 0
is retained its state stays voted and retired, and the only vote for slot 0 the log can contain is the finalize vote
(`try_final(0, GENESIS)` is reachable through a notarization certificate for the genesis block). Needed by the cluster
refinement (C01): the derived history has no skip / fallback vote and no notarization vote of a correct node in slot 0.
-/
namespace AgModel.Votor

/-- slot 0, while retained, is voted and retired -/
def Z0 (v : V) : Prop := v.firstUnpruned = 0 → (v.getS 0).voted = true ∧ (v.getS 0).retired = true

/-- the only vote for slot 0 in the log is the finalize vote -/
def ZL (l : List Item) : Prop := ∀ x ∈ l, x.voteSlot = some 0 → x = .out (.final 0)

def Zero (v : V) : Prop := Z0 v ∧ ZL v.log

theorem Zero.panic {v : V} (h : Zero v) : Zero v.panic := h

theorem Zero.upd {v : V} (h : Zero v) (s : Nat) (f : SlotState → SlotState)
    (hf1 : ∀ st, st.voted = true → (f st).voted = true) (hf2 : ∀ st, st.retired = true → (f st).retired = true) :
    Zero (v.upd s f) := by
  refine ⟨?_, h.2⟩
  intro hfu
  have h0 := h.1 hfu
  by_cases hs : s = 0
  · subst hs
    rw [getS_upd_self]
    exact ⟨hf1 _ h0.1, hf2 _ h0.2⟩
  · rw [getS_upd_ne v s 0 f hs]; exact h0

theorem Zero.emit {v : V} (h : Zero v) (o : Out) (ho : (Item.out o).voteSlot = some 0 → o = .final 0) : Zero (v.emit o) := by
  refine ⟨h.1, ?_⟩
  intro x hx hs
  rcases List.mem_cons.mp hx with rfl | hx
  · rw [ho hs]
  · exact h.2 x hx hs

theorem Zero.logEv {v : V} (h : Zero v) (e : Event) : Zero (v.logEv e) := by
  refine ⟨h.1, ?_⟩
  intro x hx hs
  rcases List.mem_cons.mp hx with rfl | hx
  · simp [Item.voteSlot] at hs
  · exact h.2 x hx hs

theorem Zero.tryFinal {v : V} (h : Zero v) (slot hash : Nat) : Zero (v.tryFinal slot hash) := by
  unfold V.tryFinal
  split
  · exact h.panic
  · simp only []
    split
    · refine (h.emit (.final slot) ?_).upd slot _ (by intros; assumption) (by intros; rfl)
      intro hs
      simp only [Item.voteSlot, Option.some.injEq] at hs
      rw [hs]
    · exact h

theorem Zero.tryNotar {v : V} (h : Zero v) (slot : Nat) (b : BlockInfo) : Zero (v.tryNotar slot b).1 := by
  unfold V.tryNotar
  split
  · exact h.panic
  · rename_i hlt
    split
    · exact h
    · rename_i hv
      split
      · simp only []
        refine ((h.emit (.notar slot b.hash b.pslot b.phash) ?_).upd slot _ (by intros; rfl) (by intros; assumption)).tryFinal _ _
        intro hs
        simp only [Item.voteSlot, Option.some.injEq] at hs
        subst hs
        have := h.1 (by omega)
        rw [this.1] at hv
        exact absurd rfl hv
      · exact h

theorem Zero.skipSlots : ∀ (l : List Nat) {v : V}, Zero v → (∀ s ∈ l, v.firstUnpruned ≤ s) → Zero (v.skipSlots l) := by
  intro l
  induction l with
  | nil => intro v h _; exact h
  | cons s rest ih =>
    intro v h hb
    unfold V.skipSlots
    split
    · exact ih h (fun k hk => hb k (by simp [hk]))
    · rename_i hv
      refine ih ((h.upd s _ (by intros; rfl) (by intros; assumption)).emit (.skip s) ?_) (fun k hk => hb k (by simp [hk]))
      intro hs
      simp only [Item.voteSlot, Option.some.injEq] at hs
      subst hs
      have hfu : v.firstUnpruned = 0 := by have := hb 0 (by simp); omega
      have := h.1 hfu
      rw [this.1] at hv
      exact absurd rfl hv

theorem Zero.trySkipWindow {v : V} (h : Zero v) (slot : Nat) : Zero (v.trySkipWindow slot) := by
  unfold V.trySkipWindow
  split
  · exact h.panic
  · rename_i hlt
    apply Zero.skipSlots _ h
    intro k hk
    have h1 := mem_windowSlots hk
    have h2 : v.firstUnpruned ≤ firstInWindow slot := firstInWindow_mono (Nat.le_of_not_lt hlt)
    omega

theorem Zero.checkPendingLoop : ∀ (l : List Nat) {v : V}, Zero v → Zero (v.checkPendingLoop l) := by
  intro l
  induction l with
  | nil => intro v h; exact h
  | cons s rest ih =>
    intro v h
    unfold V.checkPendingLoop
    split
    · exact ih (h.tryNotar s _)
    · exact ih h

theorem Zero.setTimeouts {v : V} (h : Zero v) (s : Nat) : Zero (v.setTimeouts s) := by
  unfold V.setTimeouts
  split
  · exact h.emit _ (by intro hs; simp [Item.voteSlot] at hs)
  · exact h.panic

theorem Zero.emitAll : ∀ (l : List Nat) {v : V}, Zero v → Zero (v.emitAll (l.map .relay)) := by
  intro l
  induction l with
  | nil => intro v h; exact h
  | cons i rest ih =>
    intro v h
    exact ih (h.emit (.relay i) (by intro hs; simp [Item.voteSlot] at hs))

theorem Zero.raisePrune {v : V} (h : Zero v) (slot : Nat) : Zero ({ v with hfcs := max v.hfcs slot } : V).prune := by
  refine ⟨?_, h.2⟩
  intro hfu
  have hfu' : firstInWindow (max v.hfcs slot) = 0 := hfu
  have hle : v.firstUnpruned ≤ firstInWindow (max v.hfcs slot) := firstInWindow_mono' (Nat.le_max_left _ _)
  have h0 := h.1 (by omega)
  have hg : (({ v with hfcs := max v.hfcs slot } : V).prune).getS 0 = v.getS 0 := by
    show ((lookup (v.slots.filter (fun p => decide (firstInWindow (max v.hfcs slot) ≤ p.1))) 0).getD {}) = _
    rw [lookup_filter, hfu']
    rfl
  rw [hg]; exact h0

theorem Zero.handle {v : V} (h : Zero v) (e : Event) (hign : v.ignores e = false) : Zero (v.handle e) := by
  cases e with
  | parentReady slot ps ph =>
    simp only [V.handle]
    exact ((h.upd slot _ (by intros; assumption) (by intros; assumption)).checkPendingLoop _).setTimeouts _
  | safeToNotar slot hash =>
    simp only [V.ignores, Bool.or_eq_false_iff, decide_eq_false_iff_not] at hign
    simp only [V.handle]
    refine ((h.emit (.notarFallback slot hash) ?_).trySkipWindow _).upd slot _ (by intros; assumption) (by intros; assumption)
    intro hs
    simp only [Item.voteSlot, Option.some.injEq] at hs
    subst hs
    have := h.1 (by omega)
    rw [this.2] at hign
    exact absurd hign.2 (by simp)
  | safeToSkip slot =>
    simp only [V.ignores, Bool.or_eq_false_iff, decide_eq_false_iff_not] at hign
    simp only [V.handle]
    refine ((h.emit (.skipFallback slot) ?_).trySkipWindow _).upd slot _ (by intros; assumption) (by intros; assumption)
    intro hs
    simp only [Item.voteSlot, Option.some.injEq] at hs
    subst hs
    have := h.1 (by omega)
    rw [this.2] at hign
    exact absurd hign.2 (by simp)
  | cert kind slot hash =>
    have hc : ∀ {w : V} k, Zero w → Zero (w.emit (.cert k slot hash)) :=
      fun k hw => hw.emit _ (by intro hs; simp [Item.voteSlot] at hs)
    cases kind with
    | notar =>
      simp only [V.handle]
      exact hc _ ((h.upd slot _ (by intros; assumption) (by intros; assumption)).tryFinal _ _)
    | final =>
      simp only [V.handle]
      exact hc _ ((h.setTimeouts _).raisePrune slot)
    | fastFinal =>
      simp only [V.handle]
      exact hc _ ((h.setTimeouts _).raisePrune slot)
    | skip => exact hc _ h
    | notarFallback => exact hc _ h
  | standstill slot relay => exact Zero.emitAll relay h
  | firstShred slot => exact h.upd slot _ (by intros; assumption) (by intros; assumption)
  | invalidBlock slot => exact h.trySkipWindow slot
  | block slot b =>
    simp only [V.handle]
    split
    · exact h
    · split
      · exact (h.tryNotar slot b).checkPendingLoop _
      · exact (h.tryNotar slot b).upd slot _ (by intros; assumption) (by intros; assumption)
  | timeout slot =>
    simp only [V.handle]
    split
    · exact h
    · exact h.trySkipWindow slot
  | timeoutCrashed slot =>
    simp only [V.handle]
    split
    · exact h
    · exact h.trySkipWindow slot

theorem Zero.step {v : V} (h : Zero v) (e : Event) : Zero (step v e) := by
  unfold AgModel.Votor.step
  split
  · exact h
  · simp only []
    split
    · exact h.logEv e
    · rename_i hi
      exact (h.logEv e).handle e (by simpa using hi)

theorem Zero.init : Zero init := by
  refine ⟨fun _ => ⟨rfl, rfl⟩, ?_⟩
  intro x hx hs
  simp only [Votor.init, List.mem_singleton] at hx
  subst hx
  simp [Item.voteSlot] at hs

theorem Zero.run : ∀ (es : List Event) {v : V}, Zero v → Zero (run v es) := by
  intro es
  induction es with
  | nil => intro v h; exact h
  | cons e es ih => intro v h; exact ih (h.step e)

/-- **No vote in the genesis slot**: for every event list, the only vote for slot 0 a Votor ever casts is the finalize vote
    (after a notarization certificate for the genesis block): no notarization, skip or fallback vote for slot 0. -/
theorem no_vote_in_slot_zero (es : List Event) (x : Item) (hx : x ∈ (Votor.run Votor.init es).log)
    (hs : x.voteSlot = some 0) : x = .out (.final 0) :=
  (Zero.init.run es).2 x hx hs

end AgModel.Votor
