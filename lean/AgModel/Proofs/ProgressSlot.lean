import AgModel.Proofs.PoolCerts
/-!
# C02 progress, slot-state part: votes of the timely schedule entering one `SlotState`

* `Silent evs`: only repair requests (nothing Votor sees, no panic);
* `Calm e h st`: the safe-to-notar / safe-to-skip machinery stays silent for block `h` — the own vote (if any) is a notarization
  vote for `h`, nothing was signalled, the notar-or-skip stake does not exceed the top notar stake;
* `NotarSt e s h X F st`: the state of slot `s` after exactly the validators `X` voted notar for `h` and `F` voted final, with
  every certificate whose threshold is met (and no other).
-/
namespace AgModel.Pool

def Silent (evs : List Event) : Prop := ∀ ev ∈ evs, ∃ a b, ev = .repair a b

theorem Silent.nil : Silent [] := fun _ h => by cases h

theorem Silent.append {a b : List Event} (ha : Silent a) (hb : Silent b) : Silent (a ++ b) := by
  intro ev h
  rcases List.mem_append.mp h with h | h
  · exact ha ev h
  · exact hb ev h

structure Calm (e : Epoch) (h : Nat) (st : SlotState) : Prop where
  noSkip : st.vSkip.contains e.own = false
  ownNotar : ∀ x, st.vNotar.lookup e.own = some x → x = h
  sent : st.sent = []
  sentS2S : st.sentS2S = false
  pending : st.pending = [] ∨ st.pending = [h]
  top : st.sNotarOrSkip ≤ st.sTopNotar

theorem isMet_zero (num den total : Nat) (hn : 0 < num) (hpos : 0 < total) : isMet num den 0 total = false := by
  unfold isMet
  simp
  exact Nat.ne_of_gt (Nat.mul_pos hpos hn)

theorem insertSet_calm (l : List Nat) (h : Nat) (hl : l = [] ∨ l = [h]) : insertSet l h = [h] := by
  rcases hl with rfl | rfl
  · rfl
  · simp [insertSet]

theorem checkS2N_calm (e : Epoch) (h : Nat) (st : SlotState) (hc : Calm e h st) :
    Silent (s2nOut (st.checkS2N e h).1.slot h (st.checkS2N e h).2) ∧ Calm e h (st.checkS2N e h).1 := by
  have hp : Calm e h { st with pending := insertSet st.pending h } :=
    ⟨hc.noSkip, hc.ownNotar, hc.sent, hc.sentS2S, Or.inr (insertSet_calm _ _ hc.pending), hc.top⟩
  unfold SlotState.checkS2N
  dsimp only
  split
  · exact ⟨Silent.nil, hc⟩
  · split
    · exact ⟨Silent.nil, hp⟩
    · split
      · refine ⟨?_, hc⟩
        intro ev hev
        simp only [s2nOut, List.mem_singleton] at hev
        exact ⟨_, _, hev⟩
      · exact ⟨Silent.nil, hc⟩
      · rw [hc.noSkip]
        simp only [Bool.false_eq_true, if_false]
        split
        · rename_i h' hl
          have := hc.ownNotar h' hl
          subst this
          simp only [ne_eq, not_true_eq_false, if_false]
          exact ⟨Silent.nil, hc⟩
        · exact ⟨Silent.nil, hp⟩

theorem recheckPending_calm (e : Epoch) (h : Nat) : ∀ (hs : List Nat) (st : SlotState) (acc : List Event),
    (∀ x ∈ hs, x = h) → Calm e h st → Silent acc →
    Silent (SlotState.recheckPending e st hs acc).2 ∧ Calm e h (SlotState.recheckPending e st hs acc).1 := by
  intro hs
  induction hs with
  | nil => intro st acc _ hc ha; exact ⟨ha, hc⟩
  | cons x xs ih =>
    intro st acc hx hc ha
    have hxh : x = h := hx x List.mem_cons_self
    subst hxh
    unfold SlotState.recheckPending
    rw [hc.sent]
    simp only [List.contains_nil, Bool.false_eq_true, if_false]
    obtain ⟨h1, h2⟩ := checkS2N_calm e x st hc
    exact ih _ _ (fun y hy => hx y (List.mem_cons_of_mem _ hy)) h2 (ha.append h1)

theorem recheckPending_own_calm (e : Epoch) (h : Nat) (st : SlotState) (hc : Calm e h st) :
    Silent (SlotState.recheckPending e st st.pending []).2 ∧ Calm e h (SlotState.recheckPending e st st.pending []).1 := by
  apply recheckPending_calm e h st.pending st [] _ hc Silent.nil
  intro x hx
  rcases hc.pending with hp | hp
  · rw [hp] at hx; cases hx
  · rw [hp] at hx; simpa using hx

theorem s2sCheck_calm (e : Epoch) (hpos : 0 < e.total) (h : Nat) (st : SlotState) (hc : Calm e h st) : st.s2sCheck e = (st, []) := by
  unfold SlotState.s2sCheck
  have : st.sNotarOrSkip - st.sTopNotar = 0 := Nat.sub_eq_zero_of_le hc.top
  rw [this]
  have : e.isWeak 0 = false := isMet_zero _ _ _ (by decide) hpos
  rw [this]
  simp

/-- the state after a notarization vote was stored and counted -/
def countedNotar (A : SlotState) (h stake : Nat) : SlotState :=
  { A with sNotar := addTo A.sNotar h stake, sNotarOrSkip := A.sNotarOrSkip + stake,
           sTopNotar := max (lookupD (addTo A.sNotar h stake) h) A.sTopNotar }

theorem countNotar_sent_nil (e : Epoch) (A : SlotState) (h stake : Nat) (hs : A.sent = []) :
    (SlotState.countNotar e A h stake).1 = (((countedNotar A h stake).checkS2N e h).1.s2sCheck e).1 ∧
    (SlotState.countNotar e A h stake).2.2 =
      s2nOut ((countedNotar A h stake).checkS2N e h).1.slot h ((countedNotar A h stake).checkS2N e h).2 ++
        (((countedNotar A h stake).checkS2N e h).1.s2sCheck e).2 := by
  unfold SlotState.countNotar
  dsimp only
  have hc : (!A.sent.contains h) = true := by rw [hs]; rfl
  simp only [hc, if_true]
  exact ⟨rfl, rfl⟩

theorem countNotar_calm (e : Epoch) (hpos : 0 < e.total) (A : SlotState) (h stake : Nat) (hc : Calm e h A)
    (ht : A.sNotarOrSkip ≤ lookupD A.sNotar h) :
    Silent (SlotState.countNotar e A h stake).2.2 ∧ Calm e h (SlotState.countNotar e A h stake).1 := by
  have hB : Calm e h (countedNotar A h stake) := by
    refine ⟨hc.noSkip, hc.ownNotar, hc.sent, hc.sentS2S, hc.pending, ?_⟩
    show A.sNotarOrSkip + stake ≤ max (lookupD (addTo A.sNotar h stake) h) A.sTopNotar
    rw [lookupD_addTo]
    simp only [if_true]
    omega
  obtain ⟨e1, e2⟩ := countNotar_sent_nil e A h stake hc.sent
  obtain ⟨h1, h2⟩ := checkS2N_calm e h _ hB
  have h3 := s2sCheck_calm e hpos h _ h2
  rw [e1, e2, h3]
  exact ⟨h1.append Silent.nil, h2⟩

theorem addVote_notar_calm (e : Epoch) (hpos : 0 < e.total) (st : SlotState) (v : Vote) (hk : v.kind = .notar)
    (hc : Calm e v.hash { st with vNotar := st.vNotar ++ [(v.signer, v.hash)] })
    (ht : st.sNotarOrSkip ≤ lookupD st.sNotar v.hash) :
    Silent (st.addVote e v).2.2 ∧ Calm e v.hash (st.addVote e v).1 := by
  obtain ⟨h1, h2⟩ := countNotar_calm e hpos { st with vNotar := st.vNotar ++ [(v.signer, v.hash)] } v.hash (e.stake v.signer) hc ht
  unfold SlotState.addVote
  simp only [hk]
  split
  · obtain ⟨h3, h4⟩ := recheckPending_own_calm e v.hash _ h2
    exact ⟨h1.append h3, h4⟩
  · exact ⟨h1, h2⟩

theorem addVote_final_calm (e : Epoch) (h : Nat) (st : SlotState) (v : Vote) (hk : v.kind = .final)
    (hc : Calm e h st) : Silent (st.addVote e v).2.2 ∧ Calm e h (st.addVote e v).1 := by
  have hA : Calm e h { st with vFin := st.vFin ++ [v.signer], sFin := st.sFin + e.stake v.signer } :=
    ⟨hc.noSkip, hc.ownNotar, hc.sent, hc.sentS2S, hc.pending, hc.top⟩
  unfold SlotState.addVote
  simp only [hk, SlotState.countFin]
  split
  · obtain ⟨h3, h4⟩ := recheckPending_own_calm e h _ hA
    exact ⟨Silent.nil.append h3, h4⟩
  · exact ⟨Silent.nil, hA⟩

/-! ### `addCert` by kind -/

theorem addCert_notar (st : SlotState) (c : Cert) (hk : c.kind = .notar) : st.addCert c = { st with cNotar := some c } := by
  unfold SlotState.addCert; simp only [hk]
theorem addCert_ff (st : SlotState) (c : Cert) (hk : c.kind = .ff) : st.addCert c = { st with cFf := some c } := by
  unfold SlotState.addCert; simp only [hk]
theorem addCert_final (st : SlotState) (c : Cert) (hk : c.kind = .final) : st.addCert c = { st with cFin := some c } := by
  unfold SlotState.addCert; simp only [hk]
theorem addCert_skip (st : SlotState) (c : Cert) (hk : c.kind = .skip) : st.addCert c = { st with cSkip := some c } := by
  unfold SlotState.addCert; simp only [hk]
theorem addCert_nf_new (st : SlotState) (c : Cert) (hk : c.kind = .nf) (hn : st.isNf c.hash = false) :
    st.addCert c = { st with cNf := st.cNf ++ [c] } := by
  unfold SlotState.addCert; simp only [hk, hn, Bool.false_eq_true, if_false]

theorem isNf_append_single (st : SlotState) (c : Cert) (h : Nat) :
    ({ st with cNf := st.cNf ++ [c] } : SlotState).isNf h = (st.isNf h || c.hash == h) := by
  simp [SlotState.isNf, List.any_append]

/-! ### the slot of the block -/

/-- everything of slot `s` except the certificates, after exactly the validators `X` voted notar for `h` and `F` voted final -/
structure NotarBase (e : Epoch) (s h : Nat) (X F : List Nat) (st : SlotState) : Prop where
  slot : st.slot = s
  vNotar : st.vNotar = X.map (fun j => (j, h))
  vNf : st.vNf = []
  vSkip : st.vSkip = []
  vSf : st.vSf = []
  vFin : st.vFin = F
  sNotar : lookupD st.sNotar h = stakeOf e X
  sNf : lookupD st.sNf h = 0
  sFin : st.sFin = stakeOf e F
  sNotarOrSkip : st.sNotarOrSkip = stakeOf e X
  sTop : st.sTopNotar = stakeOf e X
  sent : st.sent = []
  sentS2S : st.sentS2S = false
  pending : st.pending = [] ∨ st.pending = [h]

/-- the certificates of slot `s`: exactly those whose threshold is met, all for `h` -/
structure NotarCerts (e : Epoch) (h : Nat) (X F : List Nat) (st : SlotState) : Prop where
  cNotarSome : e.isQuorum (stakeOf e X) = true → ∃ x, st.cNotar = some x ∧ x.hash = h
  cNotarNone : e.isQuorum (stakeOf e X) = false → st.cNotar = none
  cFfSome : e.isStrong (stakeOf e X) = true → ∃ x, st.cFf = some x ∧ x.hash = h
  cFfNone : e.isStrong (stakeOf e X) = false → st.cFf = none
  cNf : st.isNf h = e.isQuorum (stakeOf e X)
  cFin : st.cFin.isSome = e.isQuorum (stakeOf e F)

def NotarSt (e : Epoch) (s h : Nat) (X F : List Nat) (st : SlotState) : Prop :=
  NotarBase e s h X F st ∧ NotarCerts e h X F st

theorem lookup_map_pair (X : List Nat) (h k : Nat) :
    (X.map (fun j => (j, h))).lookup k = if k ∈ X then some h else none := by
  induction X with
  | nil => simp
  | cons a t ih =>
    simp only [List.map_cons, List.lookup_cons, List.mem_cons]
    by_cases hk : k = a
    · subst hk; simp
    · have : (k == a) = false := by simpa using hk
      simp only [this, ih, hk, false_or]

theorem NotarBase.calm {e : Epoch} {s h : Nat} {X F : List Nat} {st : SlotState} (b : NotarBase e s h X F st) : Calm e h st := by
  refine ⟨by rw [b.vSkip]; rfl, ?_, b.sent, b.sentS2S, b.pending, by rw [b.sNotarOrSkip, b.sTop]; exact Nat.le_refl _⟩
  intro x hx
  rw [b.vNotar, lookup_map_pair] at hx
  split at hx
  · cases hx; rfl
  · cases hx

theorem NotarBase.addCert {e : Epoch} {s h : Nat} {X F : List Nat} {st : SlotState} (b : NotarBase e s h X F st) (c : Cert) :
    NotarBase e s h X F (st.addCert c) := by
  obtain ⟨b1, b2, b3, b4, b5, b6, b7, b8, b9, b10, b11, b12, b13, b14⟩ := b
  unfold SlotState.addCert
  cases c.kind <;> dsimp only
  · exact ⟨b1, b2, b3, b4, b5, b6, b7, b8, b9, b10, b11, b12, b13, b14⟩
  · split <;> exact ⟨b1, b2, b3, b4, b5, b6, b7, b8, b9, b10, b11, b12, b13, b14⟩
  all_goals exact ⟨b1, b2, b3, b4, b5, b6, b7, b8, b9, b10, b11, b12, b13, b14⟩

theorem NotarBase.addCerts {e : Epoch} {s h : Nat} {X F : List Nat} (cs : List Cert) {st : SlotState} (b : NotarBase e s h X F st) :
    NotarBase e s h X F (cs.foldl SlotState.addCert st) := by
  induction cs generalizing st with
  | nil => exact b
  | cons c cs ih => exact ih (b.addCert c)

theorem stakeOf_append (e : Epoch) (X Y : List Nat) : stakeOf e (X ++ Y) = stakeOf e X + stakeOf e Y := by
  simp [stakeOf]

theorem stakeOf_single (e : Epoch) (j : Nat) : stakeOf e [j] = e.stake j := by simp [stakeOf]

theorem isMet_mono_le (num den a b total : Nat) (hab : a ≤ b) (h : isMet num den a total = true) : isMet num den b total = true := by
  unfold isMet at *
  simp only [decide_eq_true_eq, ge_iff_le] at *
  exact Nat.le_trans h (Nat.mul_le_mul_right _ hab)

theorem isStrong_isQuorum (e : Epoch) (x : Nat) (h : e.isStrong x = true) : e.isQuorum x = true := by
  unfold Epoch.isStrong Epoch.isQuorum isMet at *
  simp only [decide_eq_true_eq, ge_iff_le, Gen.STRONG_QUORUM_THRESHOLD_NUM, Gen.STRONG_QUORUM_THRESHOLD_DEN,
    Gen.QUORUM_THRESHOLD_NUM, Gen.QUORUM_THRESHOLD_DEN] at *
  omega

theorem foldl_addCert_cNotar (cs : List Cert) (st : SlotState) :
    (cs.foldl SlotState.addCert st).cNotar.isSome = (st.cNotar.isSome || cs.any (fun c => c.kind == .notar)) := by
  induction cs generalizing st with
  | nil => simp
  | cons c cs ih => rw [List.foldl_cons, ih, addCert_cNotar, List.any_cons, Bool.or_assoc]

theorem foldl_addCert_cFf (cs : List Cert) (st : SlotState) :
    (cs.foldl SlotState.addCert st).cFf.isSome = (st.cFf.isSome || cs.any (fun c => c.kind == .ff)) := by
  induction cs generalizing st with
  | nil => simp
  | cons c cs ih => rw [List.foldl_cons, ih, addCert_cFf, List.any_cons, Bool.or_assoc]

theorem foldl_addCert_cFin (cs : List Cert) (st : SlotState) :
    (cs.foldl SlotState.addCert st).cFin.isSome = (st.cFin.isSome || cs.any (fun c => c.kind == .final)) := by
  induction cs generalizing st with
  | nil => simp
  | cons c cs ih => rw [List.foldl_cons, ih, addCert_cFin, List.any_cons, Bool.or_assoc]

theorem foldl_addCert_cSkip (cs : List Cert) (st : SlotState) :
    (cs.foldl SlotState.addCert st).cSkip.isSome = (st.cSkip.isSome || cs.any (fun c => c.kind == .skip)) := by
  induction cs generalizing st with
  | nil => simp
  | cons c cs ih => rw [List.foldl_cons, ih, addCert_cSkip, List.any_cons, Bool.or_assoc]

theorem foldl_addCert_isNf (cs : List Cert) (st : SlotState) (h : Nat) :
    (cs.foldl SlotState.addCert st).isNf h = (st.isNf h || cs.any (fun c => c.kind == .nf && c.hash == h)) := by
  induction cs generalizing st with
  | nil => simp
  | cons c cs ih => rw [List.foldl_cons, ih, addCert_isNf, List.any_cons, Bool.or_assoc]

theorem addCert_cNotar_hash (st : SlotState) (c : Cert) (h : Nat) (hc : c.hash = h) (hs : ∀ x, st.cNotar = some x → x.hash = h) :
    ∀ x, (st.addCert c).cNotar = some x → x.hash = h := by
  unfold SlotState.addCert
  cases c.kind <;> dsimp only
  · intro x hx; cases hx; exact hc
  · split <;> exact hs
  all_goals exact hs

theorem addCert_cFf_hash (st : SlotState) (c : Cert) (h : Nat) (hc : c.hash = h) (hs : ∀ x, st.cFf = some x → x.hash = h) :
    ∀ x, (st.addCert c).cFf = some x → x.hash = h := by
  unfold SlotState.addCert
  cases c.kind <;> dsimp only
  · exact hs
  · split <;> exact hs
  · exact hs
  · intro x hx; cases hx; exact hc
  · exact hs

theorem foldl_addCert_cNotar_hash (cs : List Cert) (st : SlotState) (h : Nat) (hc : ∀ c ∈ cs, c.hash = h)
    (hs : ∀ x, st.cNotar = some x → x.hash = h) : ∀ x, (cs.foldl SlotState.addCert st).cNotar = some x → x.hash = h := by
  induction cs generalizing st with
  | nil => exact hs
  | cons c cs ih =>
    rw [List.foldl_cons]
    exact ih _ (fun x hx => hc x (List.mem_cons_of_mem _ hx)) (addCert_cNotar_hash st c h (hc c List.mem_cons_self) hs)

theorem foldl_addCert_cFf_hash (cs : List Cert) (st : SlotState) (h : Nat) (hc : ∀ c ∈ cs, c.hash = h)
    (hs : ∀ x, st.cFf = some x → x.hash = h) : ∀ x, (cs.foldl SlotState.addCert st).cFf = some x → x.hash = h := by
  induction cs generalizing st with
  | nil => exact hs
  | cons c cs ih =>
    rw [List.foldl_cons]
    exact ih _ (fun x hx => hc x (List.mem_cons_of_mem _ hx)) (addCert_cFf_hash st c h (hc c List.mem_cons_self) hs)

theorem any_three (b1 b2 b3 : Bool) (x1 x2 x3 : Cert) (p : Cert → Bool) :
    ((if b1 = true then [x1] else []) ++ (if b2 = true then [x2] else []) ++ (if b3 = true then [x3] else [])).any p =
      (b1 && p x1 || b2 && p x2 || b3 && p x3) := by
  cases b1 <;> cases b2 <;> cases b3 <;> simp [Bool.or_assoc]

theorem map_three {β : Type} (b1 b2 b3 : Bool) (x1 x2 x3 : Cert) (f : Cert → β) :
    ((if b1 = true then [x1] else []) ++ (if b2 = true then [x2] else []) ++ (if b3 = true then [x3] else [])).map f =
      (if b1 = true then [f x1] else []) ++ (if b2 = true then [f x2] else []) ++ (if b3 = true then [f x3] else []) := by
  cases b1 <;> cases b2 <;> cases b3 <;> simp

theorem mem_three (b1 b2 b3 : Bool) (x1 x2 x3 c : Cert)
    (h : c ∈ (if b1 = true then [x1] else []) ++ (if b2 = true then [x2] else []) ++ (if b3 = true then [x3] else [])) :
    c = x1 ∨ c = x2 ∨ c = x3 := by
  cases b1 <;> cases b2 <;> cases b3 <;> simp at h <;> grind

theorem option_some_of_isSome {α : Type} {o : Option α} (h : o.isSome = true) : ∃ x, o = some x := by
  cases o with
  | none => cases h
  | some x => exact ⟨x, rfl⟩

/-- identifying data of a certificate -/
def cid3 (c : Cert) : CertKind × Nat × Nat := (c.kind, c.slot, c.hash)

/-- the certificates the notarization vote of `j` creates, after those of `X` -/
def newNotarCerts (e : Epoch) (s h : Nat) (X : List Nat) (j : Nat) : List (CertKind × Nat × Nat) :=
  (if e.isQuorum (stakeOf e (X ++ [j])) && !e.isQuorum (stakeOf e X) then [(.nf, s, h), (.notar, s, h)] else []) ++
  (if e.isStrong (stakeOf e (X ++ [j])) && !e.isStrong (stakeOf e X) then [(.ff, s, h)] else [])

theorem CoreEq.fields {a b : SlotState} (h : CoreEq a b) :
    a.slot = b.slot ∧ a.vNotar = b.vNotar ∧ a.vNf = b.vNf ∧ a.vSkip = b.vSkip ∧ a.vSf = b.vSf ∧ a.vFin = b.vFin ∧
    a.sNotar = b.sNotar ∧ a.sNf = b.sNf ∧ a.sFin = b.sFin ∧ a.sNotarOrSkip = b.sNotarOrSkip ∧ a.sTopNotar = b.sTopNotar ∧
    a.cNotar = b.cNotar ∧ a.cNf = b.cNf ∧ a.cFf = b.cFf ∧ a.cFin = b.cFin ∧ a.cSkip = b.cSkip ∧ a.sSkip = b.sSkip ∧ a.sSf = b.sSf :=
  ⟨(congrArg SlotState.slot h.eq :), (congrArg SlotState.vNotar h.eq :), (congrArg SlotState.vNf h.eq :), (congrArg SlotState.vSkip h.eq :),
   (congrArg SlotState.vSf h.eq :), (congrArg SlotState.vFin h.eq :), (congrArg SlotState.sNotar h.eq :), (congrArg SlotState.sNf h.eq :),
   (congrArg SlotState.sFin h.eq :), (congrArg SlotState.sNotarOrSkip h.eq :), (congrArg SlotState.sTopNotar h.eq :),
   (congrArg SlotState.cNotar h.eq :), (congrArg SlotState.cNf h.eq :), (congrArg SlotState.cFf h.eq :), (congrArg SlotState.cFin h.eq :),
   (congrArg SlotState.cSkip h.eq :), (congrArg SlotState.sSkip h.eq :), (congrArg SlotState.sSf h.eq :)⟩

theorem NotarSt.admit_notar {e : Epoch} {s h : Nat} {X F : List Nat} {st : SlotState} (hst : NotarSt e s h X F st) {j : Nat}
    (hj : j ∉ X) : st.checkSlashable ⟨.notar, s, h, j⟩ = none ∧ st.shouldIgnore ⟨.notar, s, h, j⟩ = false := by
  obtain ⟨b, _⟩ := hst
  have hl : st.vNotar.lookup j = none := by rw [b.vNotar, lookup_map_pair, if_neg hj]
  constructor
  · simp [SlotState.checkSlashable, b.vSkip, hl]
  · simp [SlotState.shouldIgnore, b.vNf, hl]

theorem NotarSt.dup_notar {e : Epoch} {s h : Nat} {X F : List Nat} {st : SlotState} (hst : NotarSt e s h X F st) {j : Nat}
    (hj : j ∈ X) : st.checkSlashable ⟨.notar, s, h, j⟩ = none ∧ st.shouldIgnore ⟨.notar, s, h, j⟩ = true := by
  obtain ⟨b, _⟩ := hst
  have hl : st.vNotar.lookup j = some h := by rw [b.vNotar, lookup_map_pair, if_pos hj]
  constructor
  · simp [SlotState.checkSlashable, b.vSkip, hl]
  · simp [SlotState.shouldIgnore, hl]

theorem NotarSt.admit_final {e : Epoch} {s h : Nat} {X F : List Nat} {st : SlotState} (hst : NotarSt e s h X F st) {j : Nat}
    (hj : j ∉ F) : st.checkSlashable ⟨.final, s, 0, j⟩ = none ∧ st.shouldIgnore ⟨.final, s, 0, j⟩ = false := by
  obtain ⟨b, _⟩ := hst
  constructor
  · simp [SlotState.checkSlashable, b.vSkip, b.vSf, b.vNf]
  · simp [SlotState.shouldIgnore, b.vFin, hj]

theorem NotarSt.dup_final {e : Epoch} {s h : Nat} {X F : List Nat} {st : SlotState} (hst : NotarSt e s h X F st) {j : Nat}
    (hj : j ∈ F) : st.checkSlashable ⟨.final, s, 0, j⟩ = none ∧ st.shouldIgnore ⟨.final, s, 0, j⟩ = true := by
  obtain ⟨b, _⟩ := hst
  constructor
  · simp [SlotState.checkSlashable, b.vSkip, b.vSf, b.vNf]
  · simp [SlotState.shouldIgnore, b.vFin, hj]

/-- **the notarization vote of `j` enters the slot state**: silent, the state is that of `X ++ [j]`, and exactly the
    certificates whose threshold was just crossed are created -/
theorem NotarSt.addNotar {e : Epoch} (hpos : 0 < e.total) {s h : Nat} {X F : List Nat} {st : SlotState}
    (hst : NotarSt e s h X F st) (j : Nat) :
    Silent (st.addVote e ⟨.notar, s, h, j⟩).2.2 ∧
    NotarSt e s h (X ++ [j]) F
      ((st.addVote e ⟨.notar, s, h, j⟩).2.1.foldl SlotState.addCert (st.addVote e ⟨.notar, s, h, j⟩).1) ∧
    (st.addVote e ⟨.notar, s, h, j⟩).2.1.map cid3 = newNotarCerts e s h X j := by
  obtain ⟨b, cc⟩ := hst
  have hcalm0 : Calm e h { st with vNotar := st.vNotar ++ [(j, h)] } := by
    have c0 := b.calm
    refine ⟨c0.noSkip, ?_, c0.sent, c0.sentS2S, c0.pending, c0.top⟩
    intro x hx
    simp only [lookup_append_single] at hx
    split at hx
    · rename_i y hy; cases hx; exact c0.ownNotar _ hy
    · split at hx
      · cases hx; rfl
      · cases hx
  obtain ⟨hsil, hcalm⟩ := addVote_notar_calm e hpos st ⟨.notar, s, h, j⟩ rfl hcalm0 (by
    show st.sNotarOrSkip ≤ lookupD st.sNotar h
    rw [b.sNotarOrSkip, b.sNotar]; exact Nat.le_refl _)
  have hcore := addVote_core e st ⟨.notar, s, h, j⟩
  have hcerts := addVote_certs e st ⟨.notar, s, h, j⟩
  obtain ⟨f1, f2, f3, f4, f5, f6, f7, f8, f9, f10, f11, f12, f13, f14, f15, f16, f17, f18⟩ := hcore.fields
  generalize (st.addVote e ⟨.notar, s, h, j⟩) = r at *
  have hN : stakeOf e (X ++ [j]) = stakeOf e X + e.stake j := by rw [stakeOf_append, stakeOf_single]
  have hsn : lookupD (addTo st.sNotar h (e.stake j)) h = stakeOf e (X ++ [j]) := by
    rw [lookupD_addTo, b.sNotar, hN]; simp
  -- the base of the new state
  have hbase : NotarBase e s h (X ++ [j]) F r.1 := by
    refine ⟨f1.trans b.slot, ?_, f3.trans b.vNf, f4.trans b.vSkip, f5.trans b.vSf, f6.trans b.vFin, ?_, ?_, f9.trans b.sFin,
      ?_, ?_, hcalm.sent, hcalm.sentS2S, hcalm.pending⟩
    · rw [f2]; show st.vNotar ++ [(j, h)] = _; rw [b.vNotar]; simp
    · rw [f7]; exact hsn
    · rw [f8]; exact b.sNf
    · rw [f10]; show st.sNotarOrSkip + e.stake j = _; rw [b.sNotarOrSkip, hN]
    · rw [f11]; show max (lookupD (addTo st.sNotar h (e.stake j)) h) st.sTopNotar = _
      rw [hsn, b.sTop, hN]; omega
  -- the created certificates
  have hnf0 : (st.stored e ⟨.notar, s, h, j⟩).isNf h = e.isQuorum (stakeOf e X) := by rw [stored_isNf]; exact cc.cNf
  have hlist : r.2.1 = notarCertsOn e (st.stored e ⟨.notar, s, h, j⟩) h := hcerts
  have hq : e.isQuorum (stakeOf e X) = true → e.isQuorum (stakeOf e (X ++ [j])) = true :=
    fun hh => isMet_mono_le _ _ _ _ _ (by omega) hh
  have hf : e.isStrong (stakeOf e X) = true → e.isStrong (stakeOf e (X ++ [j])) = true :=
    fun hh => isMet_mono_le _ _ _ _ _ (by omega) hh
  have hS1 : lookupD (st.stored e ⟨.notar, s, h, j⟩).sNotar h = stakeOf e (X ++ [j]) := hsn
  have hS2 : lookupD (st.stored e ⟨.notar, s, h, j⟩).sNf h = 0 := b.sNf
  have hS3 : (st.stored e ⟨.notar, s, h, j⟩).cNotar = st.cNotar := rfl
  have hS4 : (st.stored e ⟨.notar, s, h, j⟩).cFf = st.cFf := rfl
  have hS5 : (st.stored e ⟨.notar, s, h, j⟩).slot = s := b.slot
  have hlist' : r.2.1 =
      (if (e.isQuorum (stakeOf e (X ++ [j])) && !e.isQuorum (stakeOf e X)) = true then [mkNfCert e (st.stored e ⟨.notar, s, h, j⟩) h] else []) ++
      (if (e.isQuorum (stakeOf e (X ++ [j])) && st.cNotar.isNone) = true then [notarCertOf e (st.stored e ⟨.notar, s, h, j⟩) h] else []) ++
      (if (e.isStrong (stakeOf e (X ++ [j])) && st.cFf.isNone) = true then [ffCertOf e (st.stored e ⟨.notar, s, h, j⟩) h] else []) := by
    rw [hlist]
    unfold notarCertsOn
    rw [hS1, hS2, hnf0, hS3, hS4, Nat.zero_add]
  have hcN : st.cNotar.isSome = e.isQuorum (stakeOf e X) := by
    cases hq0 : e.isQuorum (stakeOf e X)
    · rw [cc.cNotarNone hq0]; rfl
    · obtain ⟨x, hx, _⟩ := cc.cNotarSome hq0; rw [hx]; rfl
  have hcF : st.cFf.isSome = e.isStrong (stakeOf e X) := by
    cases hf0 : e.isStrong (stakeOf e X)
    · rw [cc.cFfNone hf0]; rfl
    · obtain ⟨x, hx, _⟩ := cc.cFfSome hf0; rw [hx]; rfl
  have hcN' : st.cNotar.isNone = !e.isQuorum (stakeOf e X) := by rw [← hcN]; cases st.cNotar <;> rfl
  have hcF' : st.cFf.isNone = !e.isStrong (stakeOf e X) := by rw [← hcF]; cases st.cFf <;> rfl
  have hhash : ∀ c ∈ r.2.1, c.hash = h := by
    intro c hc
    rw [hlist'] at hc
    rcases mem_three _ _ _ _ _ _ _ hc with rfl | rfl | rfl <;> rfl
  have hr12 : r.1.cNotar = st.cNotar := f12
  have hr14 : r.1.cFf = st.cFf := f14
  have hr15 : r.1.cFin = st.cFin := f15
  have hrnf : r.1.isNf h = st.isNf h := by unfold SlotState.isNf; rw [f13]; rfl
  have hkN : r.2.1.any (fun c => c.kind == .notar) = (e.isQuorum (stakeOf e (X ++ [j])) && !e.isQuorum (stakeOf e X)) := by
    rw [hlist', any_three, hcN', hcF']
    generalize e.isQuorum (stakeOf e (X ++ [j])) = q1
    generalize e.isQuorum (stakeOf e X) = q0
    generalize e.isStrong (stakeOf e (X ++ [j])) = g1
    generalize e.isStrong (stakeOf e X) = g0
    cases q1 <;> cases q0 <;> cases g1 <;> cases g0 <;> rfl
  have hkF : r.2.1.any (fun c => c.kind == .ff) = (e.isStrong (stakeOf e (X ++ [j])) && !e.isStrong (stakeOf e X)) := by
    rw [hlist', any_three, hcN', hcF']
    generalize e.isQuorum (stakeOf e (X ++ [j])) = q1
    generalize e.isQuorum (stakeOf e X) = q0
    generalize e.isStrong (stakeOf e (X ++ [j])) = g1
    generalize e.isStrong (stakeOf e X) = g0
    cases q1 <;> cases q0 <;> cases g1 <;> cases g0 <;> rfl
  have hkNf : r.2.1.any (fun c => c.kind == .nf && c.hash == h) = (e.isQuorum (stakeOf e (X ++ [j])) && !e.isQuorum (stakeOf e X)) := by
    rw [hlist', any_three, hcN', hcF']
    have hb : ((mkNfCert e (st.stored e ⟨.notar, s, h, j⟩) h).hash == h) = true := by simp [mkNfCert]
    rw [hb]
    generalize e.isQuorum (stakeOf e (X ++ [j])) = q1
    generalize e.isQuorum (stakeOf e X) = q0
    generalize e.isStrong (stakeOf e (X ++ [j])) = g1
    generalize e.isStrong (stakeOf e X) = g0
    cases q1 <;> cases q0 <;> cases g1 <;> cases g0 <;> rfl
  have hkFin : r.2.1.any (fun c => c.kind == .final) = false := by
    rw [hlist', any_three, hcN', hcF']
    generalize e.isQuorum (stakeOf e (X ++ [j])) = q1
    generalize e.isQuorum (stakeOf e X) = q0
    generalize e.isStrong (stakeOf e (X ++ [j])) = g1
    generalize e.isStrong (stakeOf e X) = g0
    cases q1 <;> cases q0 <;> cases g1 <;> cases g0 <;> rfl
  have hisN : (r.2.1.foldl SlotState.addCert r.1).cNotar.isSome = e.isQuorum (stakeOf e (X ++ [j])) := by
    rw [foldl_addCert_cNotar, hr12, hcN, hkN]
    cases hq0 : e.isQuorum (stakeOf e X) <;> cases hq1 : e.isQuorum (stakeOf e (X ++ [j])) <;> simp
    have := hq hq0; rw [hq1] at this; cases this
  have hisF : (r.2.1.foldl SlotState.addCert r.1).cFf.isSome = e.isStrong (stakeOf e (X ++ [j])) := by
    rw [foldl_addCert_cFf, hr14, hcF, hkF]
    cases hf0 : e.isStrong (stakeOf e X) <;> cases hf1 : e.isStrong (stakeOf e (X ++ [j])) <;> simp
    have := hf hf0; rw [hf1] at this; cases this
  refine ⟨hsil, ⟨hbase.addCerts _, ?_⟩, ?_⟩
  · refine ⟨?_, ?_, ?_, ?_, ?_, ?_⟩
    · intro hq1
      obtain ⟨x, hx⟩ := option_some_of_isSome (hisN.trans hq1)
      refine ⟨x, hx, foldl_addCert_cNotar_hash _ _ h hhash ?_ x hx⟩
      intro y hy
      rw [hr12] at hy
      cases hq0 : e.isQuorum (stakeOf e X)
      · rw [cc.cNotarNone hq0] at hy; cases hy
      · obtain ⟨z, hz, hzh⟩ := cc.cNotarSome hq0; rw [hz] at hy; cases hy; exact hzh
    · intro hq1
      have := hisN.trans hq1
      cases hx : (r.2.1.foldl SlotState.addCert r.1).cNotar with
      | none => rfl
      | some x => rw [hx] at this; cases this
    · intro hf1
      obtain ⟨x, hx⟩ := option_some_of_isSome (hisF.trans hf1)
      refine ⟨x, hx, foldl_addCert_cFf_hash _ _ h hhash ?_ x hx⟩
      intro y hy
      rw [hr14] at hy
      cases hf0 : e.isStrong (stakeOf e X)
      · rw [cc.cFfNone hf0] at hy; cases hy
      · obtain ⟨z, hz, hzh⟩ := cc.cFfSome hf0; rw [hz] at hy; cases hy; exact hzh
    · intro hf1
      have := hisF.trans hf1
      cases hx : (r.2.1.foldl SlotState.addCert r.1).cFf with
      | none => rfl
      | some x => rw [hx] at this; cases this
    · rw [foldl_addCert_isNf, hrnf, cc.cNf, hkNf]
      cases hq0 : e.isQuorum (stakeOf e X) <;> cases hq1 : e.isQuorum (stakeOf e (X ++ [j])) <;> simp
      have := hq hq0; rw [hq1] at this; cases this
    · rw [foldl_addCert_cFin, hr15, hkFin, Bool.or_false]; exact cc.cFin
  · rw [hlist', map_three]
    unfold newNotarCerts
    rw [hcN', hcF']
    cases hq0 : e.isQuorum (stakeOf e X) <;> cases hq1 : e.isQuorum (stakeOf e (X ++ [j])) <;>
      cases hf0 : e.isStrong (stakeOf e X) <;> cases hf1 : e.isStrong (stakeOf e (X ++ [j])) <;>
      simp [cid3, mkNfCert, notarCertOf, ffCertOf, hS5]

/-- **the finalization vote of `j` enters the slot state** -/
theorem NotarSt.addFinal {e : Epoch} {s h : Nat} {X F : List Nat} {st : SlotState}
    (hst : NotarSt e s h X F st) (j : Nat) :
    Silent (st.addVote e ⟨.final, s, 0, j⟩).2.2 ∧
    NotarSt e s h X (F ++ [j])
      ((st.addVote e ⟨.final, s, 0, j⟩).2.1.foldl SlotState.addCert (st.addVote e ⟨.final, s, 0, j⟩).1) ∧
    (st.addVote e ⟨.final, s, 0, j⟩).2.1.map cid3 =
      (if (e.isQuorum (stakeOf e (F ++ [j])) && !e.isQuorum (stakeOf e F)) = true then [(.final, s, 0)] else []) := by
  obtain ⟨b, cc⟩ := hst
  obtain ⟨hsil, hcalm⟩ := addVote_final_calm e h st ⟨.final, s, 0, j⟩ rfl b.calm
  have hcore := addVote_core e st ⟨.final, s, 0, j⟩
  have hcerts := addVote_certs e st ⟨.final, s, 0, j⟩
  obtain ⟨f1, f2, f3, f4, f5, f6, f7, f8, f9, f10, f11, f12, f13, f14, f15, f16, f17, f18⟩ := hcore.fields
  generalize (st.addVote e ⟨.final, s, 0, j⟩) = r at *
  have hN : stakeOf e (F ++ [j]) = stakeOf e F + e.stake j := by rw [stakeOf_append, stakeOf_single]
  have hbase : NotarBase e s h X (F ++ [j]) r.1 := by
    refine ⟨f1.trans b.slot, f2.trans b.vNotar, f3.trans b.vNf, f4.trans b.vSkip, f5.trans b.vSf, ?_, ?_, ?_, ?_,
      f10.trans b.sNotarOrSkip, f11.trans b.sTop, hcalm.sent, hcalm.sentS2S, hcalm.pending⟩
    · rw [f6]; show st.vFin ++ [j] = _; rw [b.vFin]
    · rw [f7]; exact b.sNotar
    · rw [f8]; exact b.sNf
    · rw [f9]; show st.sFin + e.stake j = _; rw [b.sFin, hN]
  have hcF' : st.cFin.isNone = !e.isQuorum (stakeOf e F) := by rw [← cc.cFin]; cases st.cFin <;> rfl
  have hlist' : r.2.1 =
      (if (e.isQuorum (stakeOf e (F ++ [j])) && !e.isQuorum (stakeOf e F)) = true then
        [finCertOf e (st.stored e ⟨.final, s, 0, j⟩)] else []) := by
    rw [hcerts]
    show finCertsOn e _ = _
    unfold finCertsOn
    have h1 : (st.stored e ⟨.final, s, 0, j⟩).sFin = stakeOf e (F ++ [j]) := by
      show st.sFin + e.stake j = _; rw [b.sFin, hN]
    have h2 : (st.stored e ⟨.final, s, 0, j⟩).cFin = st.cFin := rfl
    rw [h1, h2, hcF']
  have hq : e.isQuorum (stakeOf e F) = true → e.isQuorum (stakeOf e (F ++ [j])) = true :=
    fun hh => isMet_mono_le _ _ _ _ _ (by omega) hh
  have hS5 : (st.stored e ⟨.final, s, 0, j⟩).slot = s := b.slot
  have hkinds : ∀ c ∈ r.2.1, c.kind = .final := by
    intro c hc
    rw [hlist'] at hc
    split at hc
    · simp only [List.mem_singleton] at hc; subst hc; rfl
    · cases hc
  have hsame : ∀ (cs : List Cert) (a : SlotState), (∀ c ∈ cs, c.kind = .final) →
      (cs.foldl SlotState.addCert a).cNotar = a.cNotar ∧ (cs.foldl SlotState.addCert a).cFf = a.cFf ∧
      (cs.foldl SlotState.addCert a).isNf h = a.isNf h := by
    intro cs
    induction cs with
    | nil => intro a _; exact ⟨rfl, rfl, rfl⟩
    | cons c cs ih =>
      intro a hk
      rw [List.foldl_cons]
      obtain ⟨i1, i2, i3⟩ := ih (a.addCert c) (fun x hx => hk x (List.mem_cons_of_mem _ hx))
      rw [i1, i2, i3, addCert_final a c (hk c List.mem_cons_self)]
      exact ⟨rfl, rfl, rfl⟩
  obtain ⟨s1, s2, s3⟩ := hsame r.2.1 r.1 hkinds
  refine ⟨hsil, ⟨hbase.addCerts _, ?_⟩, ?_⟩
  · refine ⟨?_, ?_, ?_, ?_, ?_, ?_⟩
    · intro hq1; rw [s1, f12]; exact cc.cNotarSome hq1
    · intro hq1; rw [s1, f12]; exact cc.cNotarNone hq1
    · intro hq1; rw [s2, f14]; exact cc.cFfSome hq1
    · intro hq1; rw [s2, f14]; exact cc.cFfNone hq1
    · rw [s3]
      have : r.1.isNf h = st.isNf h := by unfold SlotState.isNf; rw [f13]; rfl
      rw [this]; exact cc.cNf
    · rw [foldl_addCert_cFin, f15]
      show (st.cFin.isSome || _) = _
      rw [cc.cFin, hlist']
      cases hq0 : e.isQuorum (stakeOf e F) <;> cases hq1 : e.isQuorum (stakeOf e (F ++ [j])) <;> simp [finCertOf]
      have := hq hq0; rw [hq1] at this; cases this
  · rw [hlist']
    split
    · simp [cid3, finCertOf, hS5]
    · rfl

/-! ### a slot that is being skipped -/

/-- the state of a slot `t` in which exactly the validators `Y` voted skip (and nothing else happened) -/
structure SkipSt (e : Epoch) (t : Nat) (Y : List Nat) (st : SlotState) : Prop where
  slot : st.slot = t
  vNotar : st.vNotar = []
  vNf : st.vNf = []
  vSkip : st.vSkip = Y
  vSf : st.vSf = []
  vFin : st.vFin = []
  sSkip : st.sSkip = stakeOf e Y
  sSf : st.sSf = 0
  cSkip : st.cSkip.isSome = e.isQuorum (stakeOf e Y)
  pending : st.pending = []
  sentS2S : st.sentS2S = false

theorem SkipSt.init (e : Epoch) (hpos : 0 < e.total) (t : Nat) : SkipSt e t [] { slot := t } := by
  refine ⟨rfl, rfl, rfl, rfl, rfl, rfl, rfl, rfl, ?_, rfl, rfl⟩
  show false = e.isQuorum 0
  exact (isMet_zero _ _ _ (by decide) hpos).symm

theorem SkipSt.admits {e : Epoch} {t : Nat} {Y : List Nat} {st : SlotState} (hst : SkipSt e t Y st) {j : Nat} (hj : j ∉ Y) :
    st.checkSlashable ⟨.skip, t, 0, j⟩ = none ∧ st.shouldIgnore ⟨.skip, t, 0, j⟩ = false := by
  constructor
  · simp [SlotState.checkSlashable, hst.vFin, hst.vNotar]
  · simp [SlotState.shouldIgnore, hst.vSkip, hst.vSf, hj]

theorem SkipSt.addSkip {e : Epoch} {t : Nat} {Y : List Nat} {st : SlotState} (hst : SkipSt e t Y st) (j : Nat) :
    (st.addVote e ⟨.skip, t, 0, j⟩).2.2 = [] ∧
    SkipSt e t (Y ++ [j]) ((st.addVote e ⟨.skip, t, 0, j⟩).2.1.foldl SlotState.addCert (st.addVote e ⟨.skip, t, 0, j⟩).1) ∧
    (st.addVote e ⟨.skip, t, 0, j⟩).2.1.map cid3 =
      (if (e.isQuorum (stakeOf e (Y ++ [j])) && !e.isQuorum (stakeOf e Y)) = true then [(.skip, t, 0)] else []) := by
  have hcore := addVote_core e st ⟨.skip, t, 0, j⟩
  have hcerts := addVote_certs e st ⟨.skip, t, 0, j⟩
  obtain ⟨f1, f2, f3, f4, f5, f6, f7, f8, f9, f10, f11, f12, f13, f14, f15, f16, f17, f18⟩ := hcore.fields
  have hev : (st.addVote e ⟨.skip, t, 0, j⟩).2.2 = [] ∧ (st.addVote e ⟨.skip, t, 0, j⟩).1.pending = [] ∧
      (st.addVote e ⟨.skip, t, 0, j⟩).1.sentS2S = false := by
    unfold SlotState.addVote SlotState.countSkip
    simp only [Bool.false_eq_true, if_false, hst.pending, SlotState.recheckPending, SlotState.s2sCheck, hst.vNotar,
      List.lookup_nil, Option.isSome_none, Bool.and_false, List.append_nil]
    split <;> simp [hst.pending, hst.sentS2S, SlotState.recheckPending]
  obtain ⟨e1, e2, e3⟩ := hev
  generalize (st.addVote e ⟨.skip, t, 0, j⟩) = r at *
  have hN : stakeOf e (Y ++ [j]) = stakeOf e Y + e.stake j := by rw [stakeOf_append, stakeOf_single]
  have hcS' : st.cSkip.isNone = !e.isQuorum (stakeOf e Y) := by rw [← hst.cSkip]; cases st.cSkip <;> rfl
  have hlist' : r.2.1 =
      (if (e.isQuorum (stakeOf e (Y ++ [j])) && !e.isQuorum (stakeOf e Y)) = true then
        [skipCertOf e (st.stored e ⟨.skip, t, 0, j⟩)] else []) := by
    rw [hcerts]
    show skipCertsOn e _ = _
    unfold skipCertsOn
    have h1 : (st.stored e ⟨.skip, t, 0, j⟩).sSkip = stakeOf e (Y ++ [j]) := by
      show st.sSkip + e.stake j = _; rw [hst.sSkip, hN]
    have h2 : (st.stored e ⟨.skip, t, 0, j⟩).cSkip = st.cSkip := rfl
    have h3 : (st.stored e ⟨.skip, t, 0, j⟩).sSf = 0 := hst.sSf
    rw [h1, h2, h3, hcS', Nat.add_zero]
  have hq : e.isQuorum (stakeOf e Y) = true → e.isQuorum (stakeOf e (Y ++ [j])) = true :=
    fun hh => isMet_mono_le _ _ _ _ _ (by omega) hh
  have hS5 : (st.stored e ⟨.skip, t, 0, j⟩).slot = t := hst.slot
  have hkinds : ∀ c ∈ r.2.1, c.kind = .skip := by
    intro c hc
    rw [hlist'] at hc
    split at hc
    · simp only [List.mem_singleton] at hc; subst hc; rfl
    · cases hc
  have hsame : ∀ (cs : List Cert) (a : SlotState), (∀ c ∈ cs, c.kind = .skip) →
      (cs.foldl SlotState.addCert a).slot = a.slot ∧ (cs.foldl SlotState.addCert a).vNotar = a.vNotar ∧
      (cs.foldl SlotState.addCert a).vNf = a.vNf ∧ (cs.foldl SlotState.addCert a).vSkip = a.vSkip ∧
      (cs.foldl SlotState.addCert a).vSf = a.vSf ∧ (cs.foldl SlotState.addCert a).vFin = a.vFin ∧
      (cs.foldl SlotState.addCert a).sSkip = a.sSkip ∧ (cs.foldl SlotState.addCert a).sSf = a.sSf ∧
      (cs.foldl SlotState.addCert a).pending = a.pending ∧ (cs.foldl SlotState.addCert a).sentS2S = a.sentS2S := by
    intro cs
    induction cs with
    | nil => intro a _; exact ⟨rfl, rfl, rfl, rfl, rfl, rfl, rfl, rfl, rfl, rfl⟩
    | cons c cs ih =>
      intro a hk
      rw [List.foldl_cons]
      obtain ⟨i1, i2, i3, i4, i5, i6, i7, i8, i9, i10⟩ := ih (a.addCert c) (fun x hx => hk x (List.mem_cons_of_mem _ hx))
      rw [i1, i2, i3, i4, i5, i6, i7, i8, i9, i10, addCert_skip a c (hk c List.mem_cons_self)]
      exact ⟨rfl, rfl, rfl, rfl, rfl, rfl, rfl, rfl, rfl, rfl⟩
  obtain ⟨s1, s2, s3, s4, s5, s6, s7, s8, s9, s10⟩ := hsame r.2.1 r.1 hkinds
  refine ⟨e1, ?_, ?_⟩
  · refine ⟨by rw [s1, f1]; exact hst.slot, by rw [s2, f2]; exact hst.vNotar, by rw [s3, f3]; exact hst.vNf, ?_,
      by rw [s5, f5]; exact hst.vSf, by rw [s6, f6]; exact hst.vFin, ?_, by rw [s8, f18]; exact hst.sSf, ?_,
      by rw [s9]; exact e2, by rw [s10]; exact e3⟩
    · rw [s4, f4]; show st.vSkip ++ [j] = _; rw [hst.vSkip]
    · rw [s7, f17]; show st.sSkip + e.stake j = _; rw [hst.sSkip, hN]
    · rw [foldl_addCert_cSkip, f16]
      show (st.cSkip.isSome || _) = _
      rw [hst.cSkip, hlist']
      cases hq0 : e.isQuorum (stakeOf e Y) <;> cases hq1 : e.isQuorum (stakeOf e (Y ++ [j])) <;> simp [skipCertOf]
      have := hq hq0; rw [hq1] at this; cases this
  · rw [hlist']
    split
    · simp [cid3, skipCertOf, hS5]
    · rfl

end AgModel.Pool
