import AgModel.Proofs.BlockstoreHonest
/-!
Liveness of reconstruction for a correct leader's block (core Lean only): on top of `Good` (everything
held is the leader's) the invariant `Extra` says that an incomplete block still misses something —
so once every shred of every slice is stored the block *is* completed. Used by C14 (`repair_completes`).
-/
namespace AgModel.Blockstore
open AgModel.Merkle HBlock

theorem total_shreds_eq : TOTAL_SHREDS = 64 := rfl
theorem data_shreds_eq : DATA_SHREDS = 32 := rfl

/-- shred `(i, j)` is stored -/
def Stored (b : BlockData) (i j : Nat) : Prop := ∃ arr, b.shreds i = some arr ∧ (arr j).isSome

theorem filterMap_range_full {α : Type} (f : Nat → Option α) (n : Nat) (h : ∀ j, j < n → (f j).isSome) :
    ((List.range n).filterMap f).length = n := by
  induction n with
  | zero => rfl
  | succ n ih =>
    rw [List.range_succ, List.filterMap_append, List.length_append, ih (fun j hj => h j (by omega))]
    have := h n (by omega)
    cases hf : f n with
    | none => simp [hf] at this
    | some x => simp [hf]

/-- `deshred` says "not enough" only if a shred is missing -/
theorem deshred_notEnough_missing (env : Nat → Content) (arr : ShredArr) (h : deshred env arr = .notEnough) :
    ∃ j, j < TOTAL_SHREDS ∧ arr j = none := by
  rcases Classical.em (∃ j, j < TOTAL_SHREDS ∧ arr j = none) with hex | hno
  · exact hex
  · exfalso
    have hall : ∀ j, j < TOTAL_SHREDS → (arr j).isSome := by
      intro j hj
      cases harr : arr j with
      | none => exact absurd ⟨j, hj, harr⟩ hno
      | some x => rfl
    have hlen : (present arr).length = TOTAL_SHREDS := filterMap_range_full arr TOTAL_SHREDS hall
    unfold deshred at h
    cases hp : present arr with
    | nil => rw [hp] at hlen; simp [total_shreds_eq] at hlen
    | cons f rest =>
      rw [hp] at h hlen
      simp only at h
      split at h
      · simp at h
      · split at h
        · rename_i hlt
          rw [hlen, total_shreds_eq, data_shreds_eq] at hlt; omega
        · split at h <;> simp at h

/-- what an incomplete block of a correct leader still misses -/
structure Extra (B : HBlock) (b : BlockData) : Prop where
  /-- a slice that is not reconstructed yet misses a shred -/
  miss : b.completed = none → ∀ i arr, i < B.n → b.slices i = none → b.shreds i = some arr →
    ∃ j, j < TOTAL_SHREDS ∧ arr j = none
  /-- an incomplete block misses a slice -/
  open_ : b.completed = none → ∃ i, i < B.n ∧ b.slices i = none
  /-- the last slice is only reconstructed after the last-slice marker was seen -/
  sl : (b.slices (B.n - 1)).isSome → b.lastSlice.isSome

structure Live (B : HBlock) (cap : Nat) (b : BlockData) : Prop where
  good : Good B cap b
  extra : Extra B b

theorem extra_new (B : HBlock) (cap : Nat) (hn : 0 < B.n) : Extra B (BlockData.new cap B.slot) := by
  constructor
  · intro _ i arr _ _ h; simp [BlockData.new] at h
  · intro _; exact ⟨0, hn, rfl⟩
  · intro h; simp [BlockData.new] at h

theorem live_new (B : HBlock) (cap : Nat) (hn : 0 < B.n) : Live B cap (BlockData.new cap B.slot) :=
  ⟨good_new B cap, extra_new B cap hn⟩

/-! ### the three stages of `add_shred` -/

theorem cacheStep_fields (b b1 : BlockData) (s : Shred) (h : cacheStep b s = some b1) :
    b1.completed = b.completed ∧ b1.shreds = b.shreds ∧ b1.slices = b.slices ∧ b1.lastSlice = b.lastSlice ∧
      b1.cap = b.cap ∧ b1.slot = b.slot ∧ b1.tree = b.tree := by
  unfold cacheStep at h
  split at h
  · split at h
    · simp at h
    · simp at h; subst h; simp
  · simp at h; subst h; simp

theorem cacheStep_extra (B : HBlock) (b b1 : BlockData) (s : Shred) (h : cacheStep b s = some b1) (he : Extra B b) :
    Extra B b1 := by
  obtain ⟨h1, h2, h3, h4, _⟩ := cacheStep_fields b b1 s h
  constructor
  · rw [h1, h2, h3]; exact he.miss
  · rw [h1, h3]; exact he.open_
  · rw [h3, h4]; exact he.sl

theorem lastStep_extra (B : HBlock) (cap : Nat) (b b2 : BlockData) (s : Shred) (hg : Good B cap b) (hs : B.Honest s)
    (h : lastStep b s = some b2) (he : Extra B b) :
    Extra B b2 ∧ (s.isLast = true → b2.lastSlice.isSome) ∧
      (∀ i, i < B.n → b2.shreds i = b.shreds i) ∧ b2.completed = b.completed := by
  obtain ⟨hlt, _, heq⟩ := hs
  have hil : s.isLast = decide (s.slice + 1 = B.n) := congrArg Shred.isLast heq
  unfold lastStep at h
  cases hl : b.lastSlice with
  | some l =>
    rw [hl] at h
    simp only at h
    split at h
    · simp at h; subst h
      exact ⟨he, by intro _; simp [hl], by intro i _; rfl, rfl⟩
    · simp at h
  | none =>
    rw [hl] at h
    simp only at h
    by_cases hlast : s.isLast = true
    · simp only [hlast, if_true] at h
      split at h
      · simp at h
      · simp at h; subst h
        have hn : s.slice + 1 = B.n := by rw [hil] at hlast; simpa using hlast
        have hret : ∀ {α : Type} (f : Nat → Option α) i, i < B.n → retainLe f s.slice i = f i := by
          intro α f i hi; unfold retainLe; rw [if_pos (by omega)]
        refine ⟨?_, by intro _; simp [markLastSlice], ?_, rfl⟩
        · constructor
          · intro hc i arr hi hsl hsh
            simp only [markLastSlice] at hc hsl hsh
            rw [hret _ i hi] at hsl hsh
            exact he.miss hc i arr hi hsl hsh
          · intro hc
            simp only [markLastSlice] at hc
            obtain ⟨i, hi, hsl⟩ := he.open_ hc
            exact ⟨i, hi, by simp only [markLastSlice]; rw [hret _ i hi]; exact hsl⟩
          · intro _; simp [markLastSlice]
        · intro i hi; simp only [markLastSlice]; exact hret _ i hi
    · simp only [hlast, Bool.false_eq_true, if_false] at h
      simp at h; subst h
      exact ⟨he, by intro hh; exact absurd hh hlast, by intro i _; rfl, rfl⟩

theorem tryReconstructBlock_noAction (b : BlockData) (h : (tryReconstructBlock b).2 = .noAction) :
    b.completed.isSome ∨ b.lastSlice = none ∨ ∃ last, b.lastSlice = some last ∧ mapLen b.cap b.slices ≠ last + 1 := by
  unfold tryReconstructBlock at h
  split at h
  · left; assumption
  · split at h
    · right; left; assumption
    · rename_i last hl
      split at h
      · rename_i hne; right; right; exact ⟨last, hl, hne⟩
      · simp only at h
        repeat' split at h
        all_goals simp at h

theorem tryReconstructBlock_noAction_same (b : BlockData) (h : (tryReconstructBlock b).2 = .noAction) :
    (tryReconstructBlock b).1 = b := by
  rcases tryReconstructBlock_noAction b h with h1 | h1 | ⟨last, h1, h2⟩
  · unfold tryReconstructBlock; simp [h1]
  · unfold tryReconstructBlock
    split
    · rfl
    · simp [h1]
  · unfold tryReconstructBlock
    split
    · rfl
    · simp [h1, h2]

theorem mapLen_all {α : Type} (f : Nat → Option α) (n : Nat) (h : ∀ i, i < n → (f i).isSome) : mapLen n f = n := by
  unfold mapLen
  have : (List.range n).countP (fun i => (f i).isSome) = (List.range n).length := by
    rw [List.countP_eq_length]
    intro i hi; exact h i (List.mem_range.mp hi)
  simpa using this

/-- with all slices reconstructed and the last slice known, the block reconstructs -/
theorem tryReconstructBlock_full (B : HBlock) (env : Nat → Content) (cap : Nat) (hwf : B.WF env cap) (b : BlockData)
    (hg : Good B cap b) (hc : b.completed = none) (hall : ∀ i, i < B.n → (b.slices i).isSome) (hl : b.lastSlice.isSome) :
    (tryReconstructBlock b).2 = .complete B.block.info := by
  rcases (tryReconstructBlock_good B env cap hwf b hg).2 with hno | hco
  · exfalso
    rcases tryReconstructBlock_noAction b hno with h | h | ⟨last, h1, h2⟩
    · simp [hc] at h
    · simp [h] at hl
    · apply h2
      have hln := hg.last last h1
      have hkeys : ∀ i, (b.slices i).isSome → i < B.n := by
        intro i hi
        cases hsi : b.slices i with
        | none => simp [hsi] at hi
        | some r => exact (hg.slices i r hsi).1
      obtain ⟨d, hd⟩ : ∃ d, b.cap = B.n + d := ⟨b.cap - B.n, by have := hwf.ncap; have := hg.hcap; omega⟩
      rw [hd, mapLen_bound b.slices B.n d hkeys, mapLen_all b.slices B.n hall]; omega
  · exact hco


/-- `Extra` without the "a slice is missing" part (which only holds once `try_reconstruct_block` ran) -/
structure Extra0 (B : HBlock) (b : BlockData) : Prop where
  miss : b.completed = none → ∀ i arr, i < B.n → b.slices i = none → b.shreds i = some arr →
    ∃ j, j < TOTAL_SHREDS ∧ arr j = none
  sl : (b.slices (B.n - 1)).isSome → b.lastSlice.isSome

theorem refill_some (f : Shred) (arr : ShredArr) (j : Nat) (h : (arr j).isSome) : (refill f arr j).isSome := by
  unfold refill
  split
  · cases harr : arr j with
    | none => simp [harr] at h
    | some x => simp
  · exact h

theorem tryReconstructSlice_extra (B : HBlock) (env : Nat → Content) (cap : Nat) (hwf : B.WF env cap)
    (b : BlockData) (i : Nat) (hg : Good B cap b) (hi : i < B.n) (arr : ShredArr) (harr : b.shreds i = some arr)
    (hmiss : b.completed = none → ∀ i' arr', i' ≠ i → i' < B.n → b.slices i' = none → b.shreds i' = some arr' →
      ∃ j, j < TOTAL_SHREDS ∧ arr' j = none)
    (hopen : b.completed = none → ∃ i, i < B.n ∧ b.slices i = none)
    (hsl : (b.slices (B.n - 1)).isSome → b.lastSlice.isSome) (hlast : i = B.n - 1 → b.lastSlice.isSome) :
    Extra0 B (tryReconstructSlice env b i).1 ∧
    ((tryReconstructSlice env b i).2 = .noAction → Extra B (tryReconstructSlice env b i).1) ∧
    (∀ i' j, Stored b i' j → Stored (tryReconstructSlice env b i).1 i' j) := by
  unfold tryReconstructSlice
  split
  · rename_i hc
    have hcn : ¬ b.completed = none := by intro h; simp [h] at hc
    exact ⟨⟨fun h => absurd h hcn, hsl⟩, fun _ => ⟨fun h => absurd h hcn, fun h => absurd h hcn, hsl⟩, fun _ _ h => h⟩
  split
  · rename_i hs
    have hmiss' : b.completed = none → ∀ i' arr', i' < B.n → b.slices i' = none → b.shreds i' = some arr' →
        ∃ j, j < TOTAL_SHREDS ∧ arr' j = none := by
      intro hc i' arr' hi' hsl' hsh'
      by_cases hii : i' = i
      · subst hii; simp [hsl'] at hs
      · exact hmiss hc i' arr' hii hi' hsl' hsh'
    exact ⟨⟨hmiss', hsl⟩, fun _ => ⟨hmiss', hopen, hsl⟩, fun _ _ h => h⟩
  rename_i hcomp hsli
  rw [harr]
  simp only
  have hh := (hg.shreds i arr harr).2
  rcases deshred_honest B env cap hwf i hi arr hh with hne | ⟨arr', hok, _⟩
  · rw [hne]
    simp only
    have hmiss' : b.completed = none → ∀ i' arr', i' < B.n → b.slices i' = none → b.shreds i' = some arr' →
        ∃ j, j < TOTAL_SHREDS ∧ arr' j = none := by
      intro hc i' arr' hi' hsl' hsh'
      by_cases hii : i' = i
      · subst hii
        rw [harr] at hsh'; simp at hsh'; subst hsh'
        exact deshred_notEnough_missing env arr hne
      · exact hmiss hc i' arr' hii hi' hsl' hsh'
    exact ⟨⟨hmiss', hsl⟩, fun _ => ⟨hmiss', hopen, hsl⟩, fun _ _ h => h⟩
  · rw [hok]
    simp only
    have hpar : ((B.rslice i).parent.isNone && (B.rslice i).slice == 0) = false := by
      obtain ⟨p, hp, _⟩ := hwf.fold
      by_cases h0 : i = 0
      · subst h0; simp [HBlock.rslice, hp]
      · simp [HBlock.rslice, h0]
    rw [hpar]
    simp only [Bool.false_eq_true, if_false]
    refine ⟨⟨?_, ?_⟩, by intro h; simp at h, ?_⟩
    · intro hc i' a hi' hsl' hsh'
      simp only [upd] at hsl' hsh'
      by_cases hii : i' = i
      · simp [hii] at hsl'
      · simp only [hii, if_false] at hsl' hsh'
        exact hmiss hc i' a hii hi' hsl' hsh'
    · intro hs
      simp only [upd] at hs ⊢
      by_cases hii : B.n - 1 = i
      · exact hlast hii.symm
      · simp only [hii, if_false] at hs; exact hsl hs
    · -- stored shreds are kept by the refill
      intro i' j hst
      obtain ⟨a, ha, hj⟩ := hst
      by_cases hii : i' = i
      · subst hii
        rw [harr] at ha; simp at ha; subst ha
        refine ⟨arr', by simp [upd], ?_⟩
        -- `arr'` is the refill of `arr`
        unfold deshred at hok
        split at hok
        · simp at hok
        · split at hok
          · simp at hok
          · split at hok
            · simp at hok
            · split at hok
              · simp at hok
              · simp at hok
                rw [← hok.2]
                exact refill_some _ _ _ hj
      · exact ⟨a, by simp [upd, hii, ha], hj⟩

theorem tryReconstructBlock_extra (B : HBlock) (env : Nat → Content) (cap : Nat) (hwf : B.WF env cap) (b : BlockData)
    (hg : Good B cap b) (he : Extra0 B b) :
    Extra B (tryReconstructBlock b).1 ∧ (tryReconstructBlock b).1.shreds = b.shreds := by
  rcases (tryReconstructBlock_good B env cap hwf b hg).2 with hno | hco
  · rw [tryReconstructBlock_noAction_same b hno]
    refine ⟨⟨he.miss, ?_, he.sl⟩, rfl⟩
    intro hc
    rcases Classical.em (∃ i, i < B.n ∧ b.slices i = none) with hex | hnex
    · exact hex
    · exfalso
      have hall : ∀ i, i < B.n → (b.slices i).isSome := by
        intro i hi
        cases hsi : b.slices i with
        | none => exact absurd ⟨i, hi, hsi⟩ hnex
        | some r => rfl
      have hl := he.sl (hall (B.n - 1) (by have := hwf.npos; omega))
      have := tryReconstructBlock_full B env cap hwf b hg hc hall hl
      rw [hno] at this; simp at this
  · have heq : tryReconstructBlock b = ((tryReconstructBlock b).1, .complete B.block.info) := Prod.ext rfl hco
    obtain ⟨last, _, _, _, _, hl, _, _, _, _, _, _, hcc, _⟩ := tryReconstructBlock_complete b _ _ heq
    have hcn : ¬ (tryReconstructBlock b).1.completed = none := by rw [hcc]; simp
    have hshr : (tryReconstructBlock b).1.shreds = b.shreds ∧ (tryReconstructBlock b).1.lastSlice = b.lastSlice := by
      unfold tryReconstructBlock
      split
      · exact ⟨rfl, rfl⟩
      split
      · exact ⟨rfl, rfl⟩
      split
      · exact ⟨rfl, rfl⟩
      simp only
      repeat' split
      all_goals exact ⟨rfl, rfl⟩
    refine ⟨⟨fun h => absurd h hcn, fun h => absurd h hcn, ?_⟩, hshr.1⟩
    intro _; rw [hshr.2, hl]; rfl


theorem reconstruct_fst (env : Nat → Content) (b : BlockData) (k : Nat) :
    (reconstruct env b k).1 =
      (if (tryReconstructSlice env b k).2 = .complete then (tryReconstructBlock (tryReconstructSlice env b k).1).1
       else (tryReconstructSlice env b k).1) := by
  unfold reconstruct
  split
  · rename_i b1 heq; simp [heq]
  · rename_i b1 heq; simp [heq]
  · rename_i b1 heq; simp [heq]
  · rename_i b1 heq
    simp only [heq, if_true]
    split
    · rename_i b2 heq2; simp [heq2]
    · rename_i b2 heq2; simp [heq2]
    · rename_i b2 heq2; simp [heq2]
    · rename_i b2 info heq2; simp [heq2]

theorem reconstruct_extra (B : HBlock) (env : Nat → Content) (cap : Nat) (hwf : B.WF env cap)
    (b : BlockData) (i : Nat) (hg : Good B cap b) (hi : i < B.n) (arr : ShredArr) (harr : b.shreds i = some arr)
    (hmiss : b.completed = none → ∀ i' arr', i' ≠ i → i' < B.n → b.slices i' = none → b.shreds i' = some arr' →
      ∃ j, j < TOTAL_SHREDS ∧ arr' j = none)
    (hopen : b.completed = none → ∃ i, i < B.n ∧ b.slices i = none)
    (hsl : (b.slices (B.n - 1)).isSome → b.lastSlice.isSome) (hlast : i = B.n - 1 → b.lastSlice.isSome) :
    Extra B (reconstruct env b i).1 ∧ (∀ i' j, Stored b i' j → Stored (reconstruct env b i).1 i' j) := by
  rw [reconstruct_fst]
  obtain ⟨hA0, hAn, hAg⟩ := tryReconstructSlice_extra B env cap hwf b i hg hi arr harr hmiss hopen hsl hlast
  have hG := tryReconstructSlice_good B env cap hwf b i hg hi (by simp [harr])
  split
  · have hB := tryReconstructBlock_extra B env cap hwf _ hG.1 hA0
    refine ⟨hB.1, ?_⟩
    intro i' j hst
    obtain ⟨a, ha, hj⟩ := hAg i' j hst
    exact ⟨a, by rw [hB.2]; exact ha, hj⟩
  · rename_i hnc
    have hno : (tryReconstructSlice env b i).2 = .noAction := by
      rcases hG.2 with h | h
      · exact h
      · exact absurd h hnc
    exact ⟨hAn hno, hAg⟩

theorem insert_good (B : HBlock) (cap : Nat) (b : BlockData) (s : Shred) (hg : Good B cap b) (hs : B.Honest s) :
    Good B cap { b with shreds := upd b.shreds s.slice (some (upd ((b.shreds s.slice).getD arrEmpty) s.idx (some s))) } := by
  obtain ⟨hlt, hidx, heq⟩ := hs
  have harrOld : ∀ j x, ((b.shreds s.slice).getD arrEmpty) j = some x → j < TOTAL_SHREDS ∧ x = B.shred s.slice j := by
    intro j x hjx
    cases hsh : b.shreds s.slice with
    | none => simp [hsh, arrEmpty] at hjx
    | some arr => simp [hsh] at hjx; exact (hg.shreds _ arr hsh).2 j x hjx
  constructor
  · exact hg.hcap
  · exact hg.hslot
  · exact hg.cache
  · exact hg.last
  · intro k a hk
    simp only [upd] at hk
    split at hk
    · rename_i hki; subst hki
      simp at hk; subst hk
      refine ⟨hlt, ?_⟩
      intro j x hjx
      simp only [upd] at hjx
      split at hjx
      · rename_i hj; subst hj; simp at hjx; subst hjx; exact ⟨hidx, heq⟩
      · exact harrOld j x hjx
    · exact hg.shreds k a hk
  · exact hg.slices
  · exact hg.completed

theorem mapEmpty_none {α : Type} (cap : Nat) (f : Nat → Option α) (h : mapEmpty cap f = true) (i : Nat) (hi : i < cap) :
    f i = none := by
  unfold mapEmpty at h
  rw [List.all_eq_true] at h
  have := h i (List.mem_range.mpr hi)
  cases hf : f i with
  | none => rfl
  | some x => simp [hf] at this

theorem storeStep_extra (B : HBlock) (env : Nat → Content) (cap : Nat) (hwf : B.WF env cap)
    (b : BlockData) (s : Shred) (hg : Good B cap b) (hs : B.Honest s) (he : Extra B b)
    (hlast : s.isLast = true → b.lastSlice.isSome) :
    Extra B (storeStep env b s).1 ∧ (∀ i j, Stored b i j → Stored (storeStep env b s).1 i j) ∧
      Stored (storeStep env b s).1 s.slice s.idx := by
  have hs' := hs
  obtain ⟨hlt, hidx, heq⟩ := hs
  have hil : s.isLast = decide (s.slice + 1 = B.n) := congrArg Shred.isLast heq
  unfold storeStep
  simp only
  split
  · -- duplicate: nothing changes
    rename_i hdup
    cases hsh : b.shreds s.slice with
    | none => simp [hsh, arrEmpty] at hdup
    | some arr =>
      simp only [hsh, Option.getD_some] at hdup ⊢
      have hsame : upd b.shreds s.slice (some arr) = b.shreds := by
        funext k; simp only [upd]; split
        · rename_i hk; subst hk; exact hsh.symm
        · rfl
      simp only [hsame]
      exact ⟨he, fun _ _ h => h, ⟨arr, hsh, hdup⟩⟩
  · rename_i hnd
    have hg' := insert_good B cap b s hg hs'
    have hgrow : ∀ i j, Stored b i j →
        Stored { b with shreds := upd b.shreds s.slice (some (upd ((b.shreds s.slice).getD arrEmpty) s.idx (some s))) } i j := by
      intro i j hst
      obtain ⟨a, ha, hj⟩ := hst
      by_cases hii : i = s.slice
      · subst hii
        refine ⟨upd ((b.shreds s.slice).getD arrEmpty) s.idx (some s), by simp [upd], ?_⟩
        simp only [ha, Option.getD_some, upd]
        split
        · rfl
        · exact hj
      · exact ⟨a, by simp [upd, hii, ha], hj⟩
    have hnew : Stored { b with shreds := upd b.shreds s.slice (some (upd ((b.shreds s.slice).getD arrEmpty) s.idx (some s))) } s.slice s.idx :=
      ⟨upd ((b.shreds s.slice).getD arrEmpty) s.idx (some s), by simp [upd], by simp [upd]⟩
    split
    · -- the very first shred of the block
      rename_i hfirst
      have hnone : b.shreds s.slice = none :=
        mapEmpty_none b.cap b.shreds hfirst s.slice (by have := hwf.ncap; have := hg.hcap; omega)
      refine ⟨⟨?_, he.open_, he.sl⟩, hgrow, hnew⟩
      intro hc i arr hi hsl hsh
      simp only [upd] at hsh
      by_cases hii : i = s.slice
      · simp only [hii, if_true, hnone, Option.getD_none, Option.some.injEq] at hsh
        subst hsh
        by_cases h0 : s.idx = 0
        · exact ⟨1, by rw [total_shreds_eq]; omega, by simp [upd, h0, arrEmpty]⟩
        · refine ⟨0, by rw [total_shreds_eq]; omega, ?_⟩
          simp only [upd, arrEmpty]
          rw [if_neg (by omega)]
      · simp only [hii, if_false] at hsh
        exact he.miss hc i arr hi hsl hsh
    · -- store and try to reconstruct
      have hR := reconstruct_extra B env cap hwf _ s.slice hg' hlt
        (upd ((b.shreds s.slice).getD arrEmpty) s.idx (some s)) (by simp [upd])
        (by
          intro hc i' arr' hne hi' hsl hsh
          simp only [upd, hne, if_false] at hsh
          exact he.miss hc i' arr' hi' hsl hsh)
        he.open_ he.sl
        (by
          intro hn
          apply hlast
          rw [hil]; have := hwf.npos; simp; omega)
      exact ⟨hR.1, fun i j hst => hR.2 i j (hgrow i j hst), hR.2 _ _ hnew⟩

/-- **The liveness invariant is preserved by every shred of the leader**, stored shreds stay stored and
    the new one is stored. -/
theorem addShred_live (B : HBlock) (env : Nat → Content) (cap : Nat) (hwf : B.WF env cap)
    (b : BlockData) (s : Shred) (hl : Live B cap b) (hs : B.Honest s) :
    Live B cap (addShredCore env b s).1 ∧ (∀ i j, Stored b i j → Stored (addShredCore env b s).1 i j) ∧
      Stored (addShredCore env b s).1 s.slice s.idx := by
  obtain ⟨hg, he⟩ := hl
  have hgood := addShred_good B env cap hwf b s hg hs
  refine ⟨⟨hgood.1, ?_⟩, ?_⟩
  all_goals
    unfold addShredCore
    obtain ⟨b1, hc, hg1⟩ := cacheStep_good B cap b s hg hs
    have he1 := cacheStep_extra B b b1 s hc he
    have hf1 := cacheStep_fields b b1 s hc
    rw [hc]
    simp only
    obtain ⟨b2, hl2, hg2⟩ := lastStep_good B cap b1 s hg1 hs
    obtain ⟨he2, hlast, hsh2, _⟩ := lastStep_extra B cap b1 b2 s hg1 hs hl2 he1
    rw [hl2]
    simp only
    have h3 := storeStep_extra B env cap hwf b2 s hg2 hs he2 hlast
  · exact h3.1
  · have hst2 : ∀ i j, Stored b i j → Stored b2 i j := by
      intro i j hst
      obtain ⟨a, ha, hj⟩ := hst
      have hi : i < B.n := (hg.shreds i a ha).1
      exact ⟨a, by rw [hsh2 i hi, hf1.2.1]; exact ha, hj⟩
    exact ⟨fun i j hst => h3.2.1 i j (hst2 i j hst), h3.2.2⟩

/-- **Reconstruction is live**: a leader's block of which every shred is stored is completed. -/
theorem live_all_stored_completed (B : HBlock) (cap : Nat) (b : BlockData) (hl : Live B cap b)
    (hall : ∀ i j, i < B.n → j < TOTAL_SHREDS → Stored b i j) : b.completed = some B.block := by
  cases hc : b.completed with
  | some blk => rw [hl.good.completed blk hc]
  | none =>
    exfalso
    obtain ⟨i, hi, hsl⟩ := hl.extra.open_ hc
    obtain ⟨arr, harr, _⟩ := hall i 0 hi (by rw [total_shreds_eq]; omega)
    obtain ⟨j, hj, hnone⟩ := hl.extra.miss hc i arr hi hsl harr
    obtain ⟨arr', harr', hsome⟩ := hall i j hi hj
    rw [harr] at harr'; simp at harr'; subst harr'
    simp [hnone] at hsome

end AgModel.Blockstore
