import AgModel.Model.ParentReady
/-!
# Soundness of the parent-ready tracker, without any premise on the history

For arbitrary predicates `CP` ("block is certified") and `SP` ("slot is skip-certified"): if every notar-fallback /
finalization mark the tracker is given satisfies `CP` and every skip mark satisfies `SP`, then every pair `(s, p)` the
tracker ever puts into a ready list — in particular every pair it announces — satisfies

    ReadyP s p :  p.1 < s  ∧  CP p  ∧  ∀ u, p.1 < u → u < s → SP u.

Unlike `ready_iff` (C07, exactness) this direction needs no premise on pruning or on the safety of the history: a pruned
state just forgets. Used by the C01 cluster refinement (rule R5 for the first slot of a leader window).
-/
namespace AgModel.ParentReady

variable {CP : Nat × Nat → Prop} {SP : Nat → Prop}

/-- the parent `p` may be announced for the window starting at `s` -/
def ReadyP (CP : Nat × Nat → Prop) (SP : Nat → Prop) (s : Nat) (p : Nat × Nat) : Prop :=
  p.1 < s ∧ CP p ∧ ∀ u, p.1 < u → u < s → SP u

/-- what holds of every retained per-slot state -/
structure PRI (CP : Nat × Nat → Prop) (SP : Nat → Prop) (t : Tracker) : Prop where
  ready : ∀ s p, p ∈ (get t s).ready → ReadyP CP SP s p
  nfs : ∀ s h, h ∈ (get t s).nfs → CP (s, h)
  skip : ∀ s, (get t s).skip = true → SP s

theorem get_put (t : Tracker) (s : Nat) (v : PState) (x : Nat) : get (put t s v) x = if x = s then v else get t x := by
  unfold get put
  by_cases h : x = s <;> simp [h]

theorem get_touch (t : Tracker) (s x : Nat) : get (touch t s) x = get t x := by
  unfold touch
  rw [get_put]
  split
  · rename_i h; rw [h]
  · rfl

theorem PRI.init (h0 : CP (0, 0)) : PRI CP SP ParentReady.init := by
  have hg : ∀ s, get ParentReady.init s = if s = 0 then { nfs := [0] } else {} := by
    intro s; unfold get ParentReady.init; by_cases h : s = 0 <;> simp [h]
  constructor
  · intro s p hp; rw [hg] at hp; split at hp <;> simp at hp
  · intro s h hh
    rw [hg] at hh
    split at hh
    · rename_i hs; simp at hh; subst hs; subst hh; exact h0
    · simp at hh
  · intro s hs; rw [hg] at hs; split at hs <;> simp at hs

theorem PRI.put {t : Tracker} (h : PRI CP SP t) (s : Nat) (v : PState)
    (h1 : ∀ p ∈ v.ready, ReadyP CP SP s p) (h2 : ∀ x ∈ v.nfs, CP (s, x)) (h3 : v.skip = true → SP s) : PRI CP SP (put t s v) := by
  constructor
  · intro x p hp
    rw [get_put] at hp
    split at hp
    · rename_i hx; rw [hx]; exact h1 p hp
    · exact h.ready x p hp
  · intro x y hy
    rw [get_put] at hy
    split at hy
    · rename_i hx; rw [hx]; exact h2 y hy
    · exact h.nfs x y hy
  · intro x hx
    rw [get_put] at hx
    split at hx
    · rename_i hxs; rw [hxs]; exact h3 hx
    · exact h.skip x hx

theorem PRI.touch {t : Tracker} (h : PRI CP SP t) (s : Nat) : PRI CP SP (touch t s) :=
  ⟨fun x p hp => h.ready x p (by rw [get_touch] at hp; exact hp), fun x y hy => h.nfs x y (by rw [get_touch] at hy; exact hy),
   fun x hx => h.skip x (by rw [get_touch] at hx; exact hx)⟩

theorem PRI.prune {t : Tracker} (h : PRI CP SP t) (r : Nat) : PRI CP SP (prune t r) := by
  have hg : ∀ s, get (ParentReady.prune t r) s = if s < r then {} else get t s := by
    intro s; unfold get ParentReady.prune; by_cases hs : s < r <;> simp [hs]
  constructor
  · intro s p hp; rw [hg] at hp; split at hp
    · simp at hp
    · exact h.ready s p hp
  · intro s x hx; rw [hg] at hx; split at hx
    · simp at hx
    · exact h.nfs s x hx
  · intro s hs; rw [hg] at hs; split at hs
    · simp at hs
    · exact h.skip s hs

theorem addToReady_pri {t : Tracker} (h : PRI CP SP t) (s : Nat) (id : Nat × Nat) (hid : ReadyP CP SP s id)
    {t' : Tracker} {w : List Wake} (hr : addToReady t s id = some (t', w)) : PRI CP SP t' := by
  unfold addToReady at hr
  dsimp only at hr
  split at hr
  · simp only [Option.some.injEq, Prod.mk.injEq] at hr
    rw [← hr.1]
    apply h.put
    · intro p hp; simp only [List.mem_singleton] at hp; rw [hp]; exact hid
    · exact h.nfs s
    · exact h.skip s
  · split at hr
    · cases hr
    · simp only [Option.some.injEq, Prod.mk.injEq] at hr
      rw [← hr.1]
      apply h.put
      · intro p hp
        rcases List.mem_append.mp hp with hp | hp
        · exact h.ready s p hp
        · simp only [List.mem_singleton] at hp; rw [hp]; exact hid
      · exact h.nfs s
      · exact h.skip s

theorem addToReady_skip {t : Tracker} (s : Nat) (id : Nat × Nat) {t' : Tracker} {w : List Wake}
    (hr : addToReady t s id = some (t', w)) (x : Nat) : (get t' x).skip = (get t x).skip := by
  unfold addToReady at hr
  dsimp only at hr
  split at hr
  · simp only [Option.some.injEq, Prod.mk.injEq] at hr
    rw [← hr.1, get_put]; split
    · rename_i hx; rw [hx]
    · rfl
  · split at hr
    · cases hr
    · simp only [Option.some.injEq, Prod.mk.injEq] at hr
      rw [← hr.1, get_put]; split
      · rename_i hx; rw [hx]
      · rfl

theorem addAllToReady_pri (s : Nat) : ∀ (ids : List (Nat × Nat)) {t : Tracker}, PRI CP SP t → (∀ id ∈ ids, ReadyP CP SP s id) →
    ∀ {t' : Tracker} {w : List Wake}, addAllToReady t s ids = some (t', w) →
      PRI CP SP t' ∧ ∀ x, (get t' x).skip = (get t x).skip := by
  intro ids
  induction ids with
  | nil =>
    intro t h _ t' w hr
    simp only [addAllToReady, Option.some.injEq, Prod.mk.injEq] at hr
    rw [← hr.1]; exact ⟨h, fun _ => rfl⟩
  | cons id rest ih =>
    intro t h hids t' w hr
    unfold addAllToReady at hr
    split at hr
    · cases hr
    · rename_i t1 w1 h1
      split at hr
      · cases hr
      · rename_i t2 w2 h2
        simp only [Option.some.injEq, Prod.mk.injEq] at hr
        rw [← hr.1]
        obtain ⟨a, b⟩ := ih (addToReady_pri h s id (hids id (by simp)) h1) (fun x hx => hids x (by simp [hx])) h2
        exact ⟨a, fun x => (b x).trans (addToReady_skip s id h1 x)⟩

/-- the forward loop: every id may be announced at `slot`; then the invariant is kept and every new pair is justified -/
theorem fwd_pri : ∀ (f : Nat) {t : Tracker} (slot : Nat) (ids : List (Nat × Nat)), PRI CP SP t →
    (∀ id ∈ ids, ReadyP CP SP slot id) →
    ∀ {t' : Tracker} {new : List (Nat × (Nat × Nat))} {w : List Wake}, fwd f t slot ids = some (t', new, w) →
      PRI CP SP t' ∧ ∀ a ∈ new, ReadyP CP SP a.1 a.2 := by
  intro f
  induction f with
  | zero =>
    intro t slot ids h _ t' new w hr
    simp only [fwd, Option.some.injEq, Prod.mk.injEq] at hr
    rw [← hr.1, ← hr.2.1]
    exact ⟨h, fun a ha => by cases ha⟩
  | succ f ih =>
    intro t slot ids h hids t' new w hr
    unfold fwd at hr
    dsimp only at hr
    -- the first step
    have hstep : ∀ t1 w1, (if isWindowStart slot then addAllToReady (touch t slot) slot ids else some (touch t slot, [])) = some (t1, w1) →
        PRI CP SP t1 := by
      intro t1 w1 he
      split at he
      · exact (addAllToReady_pri slot ids (h.touch slot) hids he).1
      · simp only [Option.some.injEq, Prod.mk.injEq] at he; rw [← he.1]; exact h.touch slot
    have hnew1 : ∀ a ∈ (if isWindowStart slot then ids.map (fun p => (slot, p)) else []), ReadyP CP SP a.1 a.2 := by
      intro a ha
      split at ha
      · obtain ⟨p, hp, rfl⟩ := List.mem_map.mp ha; exact hids p hp
      · cases ha
    split at hr
    · cases hr
    · rename_i t1 w1 he
      have h1 := hstep t1 w1 he
      split at hr
      · rename_i hsk
        split at hr
        · cases hr
        · rename_i t2 new2 w2 h2
          simp only [Option.some.injEq, Prod.mk.injEq] at hr
          rw [← hr.1, ← hr.2.1]
          have hsp : SP slot := h1.skip slot hsk
          obtain ⟨a, b⟩ := ih (slot + 1) ids h1 (by
            intro id hid
            obtain ⟨x, y, z⟩ := hids id hid
            refine ⟨by omega, y, ?_⟩
            intro u hu1 hu2
            by_cases hus : u = slot
            · rw [hus]; exact hsp
            · exact z u hu1 (by omega)) h2
          refine ⟨a, ?_⟩
          intro x hx
          rcases List.mem_append.mp hx with hx | hx
          · exact hnew1 x hx
          · exact b x hx
      · simp only [Option.some.injEq, Prod.mk.injEq] at hr
        rw [← hr.1, ← hr.2.1]
        exact ⟨h1, hnew1⟩

/-- `mark_notar_fallback` -/
theorem markNotarFallback_pri {t : Tracker} (h : PRI CP SP t) (id : Nat × Nat) (hid : CP id)
    {t' : Tracker} {new : List (Nat × (Nat × Nat))} {w : List Wake} (hr : markNotarFallback t id = some (t', new, w)) :
    PRI CP SP t' ∧ ∀ a ∈ new, ReadyP CP SP a.1 a.2 := by
  unfold markNotarFallback at hr
  split at hr
  · simp only [Option.some.injEq, Prod.mk.injEq] at hr
    rw [← hr.1, ← hr.2.1]; exact ⟨h, fun a ha => by cases ha⟩
  · dsimp only at hr
    split at hr
    · simp only [Option.some.injEq, Prod.mk.injEq] at hr
      rw [← hr.1, ← hr.2.1]; exact ⟨h.touch _, fun a ha => by cases ha⟩
    · apply fwd_pri _ (id.1 + 1) [id] _ _ hr
      · apply h.put
        · exact h.ready id.1
        · intro x hx
          rcases List.mem_append.mp hx with hx | hx
          · exact h.nfs id.1 x hx
          · simp only [List.mem_singleton] at hx; rw [hx]; exact hid
        · exact h.skip id.1
      · intro x hx
        simp only [List.mem_singleton] at hx
        rw [hx]
        exact ⟨by omega, hid, fun u h1 h2 => by omega⟩

/-- the backward collection of `mark_skipped`: all slots from `s1` to `ms` are skip-certified; every collected potential
    parent may be announced for slot `ms + 1` -/
theorem collect_pri (ms : Nat) : ∀ (n : Nat) {t : Tracker} (s1 : Nat) (acc : List (Nat × Nat)), PRI CP SP t →
    (∀ u, s1 ≤ u → u ≤ ms → SP u) → s1 ≤ ms + 1 → (∀ id ∈ acc, ReadyP CP SP (ms + 1) id) →
    PRI CP SP (collect ms n t s1 acc).1 ∧ ∀ id ∈ (collect ms n t s1 acc).2, ReadyP CP SP (ms + 1) id := by
  intro n
  induction n with
  | zero => intro t s1 acc h _ _ hacc; exact ⟨h, hacc⟩
  | succ n ih =>
    intro t s1 acc h hk hle hacc
    unfold collect
    dsimp only
    have ht := h.touch (s1 - 1)
    have hacc1 : ∀ id ∈ (if s1 - 1 ≠ ms then acc ++ (get (touch t (s1 - 1)) (s1 - 1)).nfs.map (fun x => (s1 - 1, x)) else acc),
        ReadyP CP SP (ms + 1) id := by
      intro id hid
      split at hid
      · rename_i hne
        rcases List.mem_append.mp hid with hid | hid
        · exact hacc id hid
        · obtain ⟨x, hx, rfl⟩ := List.mem_map.mp hid
          refine ⟨by dsimp only; omega, ht.nfs _ x hx, ?_⟩
          intro u hu1 hu2
          exact hk u (by dsimp only at hu1; omega) (by omega)
      · exact hacc id hid
    split
    · exact ⟨ht, hacc1⟩
    · rename_i hsk
      have hsk' : (get (touch t (s1 - 1)) (s1 - 1)).skip = true := by simpa using hsk
      have hsp : SP (s1 - 1) := ht.skip _ hsk'
      apply ih (s1 - 1) _ ht
      · intro u hu1 hu2
        by_cases hus : u = s1 - 1
        · rw [hus]; exact hsp
        · exact hk u (by omega) hu2
      · omega
      · intro id hid
        rcases List.mem_append.mp hid with hid | hid
        · exact hacc1 id hid
        · obtain ⟨a, b, d⟩ := ht.ready _ id hid
          refine ⟨by omega, b, ?_⟩
          intro u hu1 hu2
          by_cases hlt : u < s1 - 1
          · exact d u hu1 hlt
          · by_cases hus : u = s1 - 1
            · rw [hus]; exact hsp
            · exact hk u (by omega) (by omega)

/-- `mark_skipped` -/
theorem markSkipped_pri {t : Tracker} (h : PRI CP SP t) (ms : Nat) (hms : SP ms)
    {t' : Tracker} {new : List (Nat × (Nat × Nat))} {w : List Wake} (hr : markSkipped t ms = some (t', new, w)) :
    PRI CP SP t' ∧ ∀ a ∈ new, ReadyP CP SP a.1 a.2 := by
  unfold markSkipped at hr
  split at hr
  · simp only [Option.some.injEq, Prod.mk.injEq] at hr
    rw [← hr.1, ← hr.2.1]; exact ⟨h, fun a ha => by cases ha⟩
  · dsimp only at hr
    split at hr
    · simp only [Option.some.injEq, Prod.mk.injEq] at hr
      rw [← hr.1, ← hr.2.1]; exact ⟨h.touch _, fun a ha => by cases ha⟩
    · have h1 : PRI CP SP ({ put t ms { get t ms with skip := true } with top := max t.top ms } : Tracker) := by
        have := h.put ms { get t ms with skip := true } (h.ready ms) (h.nfs ms) (fun _ => hms)
        exact ⟨this.ready, this.nfs, this.skip⟩
      have hc := fun n => collect_pri ms n (ms + 1) [] h1 (fun u a b => by omega) (Nat.le_refl _)
        (fun id hid => by cases hid)
      exact fwd_pri _ (ms + 1) _ (hc _).1 (hc _).2 hr

theorem markAllNf_pri : ∀ (bs : List (Nat × Nat)) {t : Tracker}, PRI CP SP t → (∀ b ∈ bs, CP b) →
    ∀ {t' : Tracker} {new : List (Nat × (Nat × Nat))} {w : List Wake}, markAllNf t bs = some (t', new, w) →
      PRI CP SP t' ∧ ∀ a ∈ new, ReadyP CP SP a.1 a.2 := by
  intro bs
  induction bs with
  | nil =>
    intro t h _ t' new w hr
    simp only [markAllNf, Option.some.injEq, Prod.mk.injEq] at hr
    rw [← hr.1, ← hr.2.1]; exact ⟨h, fun a ha => by cases ha⟩
  | cons b rest ih =>
    intro t h hb t' new w hr
    unfold markAllNf at hr
    split at hr
    · cases hr
    · rename_i t1 n1 w1 h1
      split at hr
      · cases hr
      · rename_i t2 n2 w2 h2
        simp only [Option.some.injEq, Prod.mk.injEq] at hr
        rw [← hr.1, ← hr.2.1]
        obtain ⟨a1, b1⟩ := markNotarFallback_pri h b (hb b (by simp)) h1
        obtain ⟨a2, b2⟩ := ih a1 (fun x hx => hb x (by simp [hx])) h2
        exact ⟨a2, fun x hx => (List.mem_append.mp hx).elim (b1 x) (b2 x)⟩

theorem markAllSkipped_pri : ∀ (ss : List Nat) {t : Tracker}, PRI CP SP t → (∀ s ∈ ss, SP s) →
    ∀ {t' : Tracker} {new : List (Nat × (Nat × Nat))} {w : List Wake}, markAllSkipped t ss = some (t', new, w) →
      PRI CP SP t' ∧ ∀ a ∈ new, ReadyP CP SP a.1 a.2 := by
  intro ss
  induction ss with
  | nil =>
    intro t h _ t' new w hr
    simp only [markAllSkipped, Option.some.injEq, Prod.mk.injEq] at hr
    rw [← hr.1, ← hr.2.1]; exact ⟨h, fun a ha => by cases ha⟩
  | cons s rest ih =>
    intro t h hs t' new w hr
    unfold markAllSkipped at hr
    split at hr
    · cases hr
    · rename_i t1 n1 w1 h1
      split at hr
      · cases hr
      · rename_i t2 n2 w2 h2
        simp only [Option.some.injEq, Prod.mk.injEq] at hr
        rw [← hr.1, ← hr.2.1]
        obtain ⟨a1, b1⟩ := markSkipped_pri h s (hs s (by simp)) h1
        obtain ⟨a2, b2⟩ := ih a1 (fun x hx => hs x (by simp [hx])) h2
        exact ⟨a2, fun x hx => (List.mem_append.mp hx).elim (b1 x) (b2 x)⟩

theorem lastMax_mem : ∀ (l : List (Nat × (Nat × Nat))) (x : Nat × (Nat × Nat)), lastMax l = some x → x ∈ l := by
  intro l
  induction l with
  | nil => intro x h; cases h
  | cons a rest ih =>
    intro x h
    unfold lastMax at h
    split at h
    · simp only [Option.some.injEq] at h; rw [← h]; simp
    · rename_i y hy
      split at h
      · simp only [Option.some.injEq] at h; rw [← h]; exact List.mem_cons_of_mem _ (ih y hy)
      · simp only [Option.some.injEq] at h; rw [← h]; simp

/-- `handle_finalization` -/
theorem handleFinalization_pri {t : Tracker} (h : PRI CP SP t) (ev : Finality.Event)
    (hF : ∀ b ∈ ev.finalized.toList ++ ev.implFinalized, CP b) (hS : ∀ s ∈ ev.implSkipped, SP s)
    {t' : Tracker} {new : List (Nat × (Nat × Nat))} {w : List Wake} (hr : handleFinalization t ev = some (t', new, w)) :
    PRI CP SP t' ∧ ∀ a ∈ new, ReadyP CP SP a.1 a.2 := by
  unfold handleFinalization at hr
  split at hr
  · cases hr
  · rename_i t1 n1 w1 h1
    split at hr
    · cases hr
    · rename_i t2 n2 w2 h2
      simp only [Option.some.injEq, Prod.mk.injEq] at hr
      rw [← hr.1, ← hr.2.1]
      obtain ⟨a1, b1⟩ := markAllNf_pri _ h hF h1
      obtain ⟨a2, b2⟩ := markAllSkipped_pri _ a1 hS h2
      refine ⟨a2, ?_⟩
      intro x hx
      have hx' : lastMax (n1 ++ n2) = some x := by
        cases hl : lastMax (n1 ++ n2) with
        | none => rw [hl] at hx; cases hx
        | some y => rw [hl] at hx; simp only [Option.toList, List.mem_singleton] at hx; rw [hx]
      exact (List.mem_append.mp (lastMax_mem _ x hx')).elim (b1 x) (b2 x)

end AgModel.ParentReady
