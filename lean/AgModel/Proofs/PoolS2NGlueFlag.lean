import AgModel.Proofs.PoolS2NGlueSlots
/-! Pool-level glue for C06, part 3: **flag completeness**. For every registered pair (block, parent) whose slot is
    retained, the slot state of the block exists and the block's parent entry is `true`, or it is `false`, the pool
    holds no certificate for the parent, and the block waits in the waiting map under its parent (`FlagOk`).
    While `add_valid_cert` runs, the children of the block being certified (`x = some par0`) are exempt from
    "no certificate held" until `notify_waiting_children` has gone through them (`rem` = children still to wake). -/
namespace AgModel.Pool

/-- the pool holds a notarization, notar-fallback or fast-finalization certificate for `par` -/
def Held (p : Pool) (par : Nat × Nat) : Prop := ∃ st, p.getSlot par.1 = some st ∧ st.isNfOrStronger par.2 = true

def FlagOk (p : Pool) (x : Option (Nat × Nat)) (rem : List (Nat × Nat)) (r : Reg) : Prop :=
  p.fin.first ≤ r.1.1 → ∃ st, p.getSlot r.1.1 = some st ∧
    (st.parents.lookup r.1.2 = some true ∨
     (st.parents.lookup r.1.2 = some false ∧
       ((x = some r.2 ∧ r.1 ∈ rem) ∨ (x ≠ some r.2 ∧ ¬ Held p r.2 ∧ r.1 ∈ kidsOf p r.2))))

theorem FlagOk.known {p : Pool} {x : Option (Nat × Nat)} {rem : List (Nat × Nat)} {r : Reg} (h : FlagOk p x rem r)
    (hf : p.fin.first ≤ r.1.1) : ∃ st, p.getSlot r.1.1 = some st ∧ (st.parents.lookup r.1.2).isSome = true := by
  obtain ⟨st, hg, hc⟩ := h hf
  refine ⟨st, hg, ?_⟩
  rcases hc with hc | ⟨hc, _⟩ <;> rw [hc] <;> rfl

theorem FlagOk.transfer {p q : Pool} {x : Option (Nat × Nat)} {rem rem' : List (Nat × Nat)} {r : Reg}
    (h : FlagOk p x rem r)
    (hf : q.fin.first ≤ r.1.1 → p.fin.first ≤ r.1.1)
    (hslot : q.fin.first ≤ r.1.1 → ∀ st, p.getSlot r.1.1 = some st → ∃ st', q.getSlot r.1.1 = some st' ∧
        ∀ f, st.parents.lookup r.1.2 = some f → st'.parents.lookup r.1.2 = some f ∨ st'.parents.lookup r.1.2 = some true)
    (hheld : x ≠ some r.2 → Held q r.2 → Held p r.2)
    (hkids : x ≠ some r.2 → q.fin.first ≤ r.1.1 → r.1 ∈ kidsOf p r.2 → r.1 ∈ kidsOf q r.2)
    (hrem : q.fin.first ≤ r.1.1 → r.1 ∈ rem →
      r.1 ∈ rem' ∨ ∃ st', q.getSlot r.1.1 = some st' ∧ st'.parents.lookup r.1.2 = some true) :
    FlagOk q x rem' r := by
  intro hq
  obtain ⟨st, hg, hc⟩ := h (hf hq)
  obtain ⟨st', hg', hl⟩ := hslot hq st hg
  refine ⟨st', hg', ?_⟩
  rcases hc with hc | ⟨hc, hw⟩
  · left; rcases hl true hc with a | a <;> exact a
  · rcases hl false hc with a | a
    · rcases hw with ⟨hx, hr⟩ | ⟨hx, hnh, hk⟩
      · rcases hrem hq hr with b | ⟨st'', hg'', ht⟩
        · right; exact ⟨a, Or.inl ⟨hx, b⟩⟩
        · left; rw [hg'] at hg''; cases hg''; exact ht
      · right; exact ⟨a, Or.inr ⟨hx, fun hh => hnh (hheld hx hh), hkids hx hq hk⟩⟩
    · left; exact a

/-! ### `Held` through the primitives -/

theorem held_old {p : Pool} {s y : Nat} (hh : (p.slotState s).2.isNfOrStronger y = true) : Held p (s, y) := by
  cases hg : p.getSlot s with
  | none => rw [slotState_snd_of_none hg, isNfOrStronger_init] at hh; cases hh
  | some st => rw [slotState_snd_of_some hg] at hh; exact ⟨st, hg, hh⟩

theorem Held.of_mod {p : Pool} {s : Nat} {st' : SlotState} {par : Nat × Nat} (hs : st'.slot = s)
    (h : Held ((p.slotState s).1.putSlot st') par) :
    (par.1 = s ∧ st'.isNfOrStronger par.2 = true) ∨ (par.1 ≠ s ∧ Held p par) := by
  obtain ⟨st, hg, hh⟩ := h
  rw [getSlot_mod p s st' hs] at hg
  by_cases he : par.1 = s
  · simp only [he, if_true] at hg; cases hg; exact Or.inl ⟨he, hh⟩
  · simp only [he, if_false] at hg; exact Or.inr ⟨he, st, hg, hh⟩

theorem Held.of_slotState {p : Pool} {s : Nat} {par : Nat × Nat} (h : Held (p.slotState s).1 par) : Held p par := by
  obtain ⟨st, hg, hh⟩ := h
  rw [getSlot_slotState] at hg
  by_cases he : par.1 = s
  · simp only [he, if_true] at hg; cases hg
    have := held_old hh
    rw [← he] at this; exact this
  · simp only [he, if_false] at hg; exact ⟨st, hg, hh⟩

theorem Held.of_advance {p : Pool} {t : Finality.Tracker} {r : ParentReady.Res} {par : Nat × Nat}
    (h : Held (p.advance t r) par) : Held p par := by
  obtain ⟨st, hg, hh⟩ := h
  rw [getSlot_advance] at hg
  split at hg
  · exact ⟨st, hg, hh⟩
  · cases hg

theorem Held.of_getSlot {p q : Pool} {par : Nat × Nat} (hs : ∀ s, q.getSlot s = p.getSlot s) (h : Held q par) : Held p par := by
  obtain ⟨st, hg, hh⟩ := h
  exact ⟨st, by rw [← hs]; exact hg, hh⟩

/-! ### `FlagOk` through the primitives -/

/-- a pool that differs only in fields the invariant does not read -/
theorem FlagOk.of_views {p q : Pool} {x : Option (Nat × Nat)} {rem : List (Nat × Nat)} {r : Reg} (h : FlagOk p x rem r)
    (hf : q.fin = p.fin) (hs : ∀ s, q.getSlot s = p.getSlot s) (hw : q.waiting = p.waiting) : FlagOk q x rem r := by
  apply h.transfer
  · intro hq; rw [hf] at hq; exact hq
  · intro _ st hg; exact ⟨st, by rw [hs]; exact hg, fun f hf' => Or.inl hf'⟩
  · intro _ hh; exact hh.of_getSlot hs
  · intro _ _ hk; unfold kidsOf at *; rw [hw]; exact hk
  · intro _ hr; exact Or.inl hr

theorem FlagOk.slotState {p : Pool} {x : Option (Nat × Nat)} {rem : List (Nat × Nat)} {r : Reg} (h : FlagOk p x rem r) (s : Nat) :
    FlagOk (p.slotState s).1 x rem r := by
  obtain ⟨_, hf, hw⟩ := slotState_frame p s
  apply h.transfer
  · intro hq; rw [hf] at hq; exact hq
  · intro _ st hg
    rw [getSlot_slotState]
    by_cases he : r.1.1 = s
    · simp only [he, if_true]
      exact ⟨_, rfl, fun f hf' => Or.inl (by rw [slotState_snd_of_some (he ▸ hg)]; exact hf')⟩
    · simp only [he, if_false]; exact ⟨st, hg, fun f hf' => Or.inl hf'⟩
  · intro _ hh; exact hh.of_slotState
  · intro _ _ hk; unfold kidsOf at *; rw [hw]; exact hk
  · intro _ hr; exact Or.inl hr

/-- one slot state is replaced: entries of `parents` only move from `false` to `true`, and the only certificate that
    may appear is one for the exempt block `x` -/
theorem FlagOk.mod {p : Pool} {s : Nat} {st' : SlotState} {x : Option (Nat × Nat)} {rem rem' : List (Nat × Nat)} {r : Reg}
    (hs : st'.slot = s) (h : FlagOk p x rem r)
    (hpar : ∀ y f, (p.slotState s).2.parents.lookup y = some f → st'.parents.lookup y = some f ∨ st'.parents.lookup y = some true)
    (hcert : ∀ y, st'.isNfOrStronger y = true → (p.slotState s).2.isNfOrStronger y = true ∨ x = some (s, y))
    (hrem : ∀ k ∈ rem, k ∈ rem' ∨ (k.1 = s ∧ st'.parents.lookup k.2 = some true)) :
    FlagOk ((p.slotState s).1.putSlot st') x rem' r := by
  have hfr := mod_frame p s st'
  apply h.transfer
  · intro hq; rw [hfr.2.1] at hq; exact hq
  · intro _ st hg
    rw [getSlot_mod p s st' hs]
    by_cases he : r.1.1 = s
    · simp only [he, if_true]
      refine ⟨st', rfl, fun f hf => ?_⟩
      have : (p.slotState s).2 = st := slotState_snd_of_some (he ▸ hg)
      rw [← this] at hf
      exact hpar _ f hf
    · simp only [he, if_false]
      exact ⟨st, hg, fun f hf => Or.inl hf⟩
  · intro hx hh
    rcases Held.of_mod hs hh with ⟨h1, h2⟩ | ⟨_, h2⟩
    · rcases hcert _ h2 with h3 | h3
      · have : Held p (s, r.2.2) := held_old h3
        rw [← h1] at this; exact this
      · exfalso; apply hx; rw [h3, ← h1]
    · exact h2
  · intro _ _ hk; unfold kidsOf at *; rw [hfr.2.2]; exact hk
  · intro _ hr
    rcases hrem _ hr with a | ⟨a, b⟩
    · exact Or.inl a
    · right; refine ⟨st', ?_, b⟩; rw [getSlot_mod p s st' hs, if_pos a]

theorem FlagOk.advance {p : Pool} {x : Option (Nat × Nat)} {rem rem' : List (Nat × Nat)} {r : Reg}
    (t : Finality.Tracker) (r0 : ParentReady.Res) (hm : p.fin.first ≤ t.first) (h : FlagOk p x rem r)
    (hrem : ∀ k ∈ rem, t.first ≤ k.1 → k ∈ rem') : FlagOk (p.advance t r0) x rem' r := by
  have hfin := advance_fin p t r0
  apply h.transfer
  · intro hq; rw [hfin] at hq; omega
  · intro hq st hg
    rw [hfin] at hq
    rw [getSlot_advance, if_pos hq]
    exact ⟨st, hg, fun f hf => Or.inl hf⟩
  · intro _ hh; exact hh.of_advance
  · intro _ hq hk; rw [hfin] at hq; exact kidsOf_advance t r0 hk hq
  · intro hq hr; rw [hfin] at hq; exact Or.inl (hrem _ hr hq)

theorem FlagOk.addWaiting {p : Pool} {rem : List (Nat × Nat)} {r : Reg} {x : Option (Nat × Nat)} (h : FlagOk p x rem r) (par b : Nat × Nat) :
    FlagOk (Pool.addWaiting p par b) x rem r := by
  apply h.transfer
  · intro hq; rw [(addWaiting_frame p par b).2] at hq; exact hq
  · intro _ st hg; exact ⟨st, by rw [getSlot_addWaiting]; exact hg, fun f hf' => Or.inl hf'⟩
  · intro _ hh; exact hh.of_getSlot (getSlot_addWaiting p par b)
  · intro _ _ hk; exact (kidsOf_addWaiting p par b).1 _ _ hk
  · intro _ hr; exact Or.inl hr

theorem FlagOk.none_rem {p : Pool} {rem rem' : List (Nat × Nat)} {r : Reg} (h : FlagOk p none rem r) : FlagOk p none rem' r := by
  intro hq
  obtain ⟨st, hg, hc⟩ := h hq
  refine ⟨st, hg, ?_⟩
  rcases hc with hc | ⟨hc, hw⟩
  · exact Or.inl hc
  · rcases hw with ⟨hx, _⟩ | hw
    · cases hx
    · exact Or.inr ⟨hc, Or.inr hw⟩

/-- opening the exemption: the children of `par0` are (for the moment) only required to wait under `par0` -/
theorem FlagOk.exempt {p : Pool} {r : Reg} (h : FlagOk p none [] r) (par0 : Nat × Nat) :
    FlagOk p (some par0) (kidsOf p par0) r := by
  intro hq
  obtain ⟨st, hg, hc⟩ := h hq
  refine ⟨st, hg, ?_⟩
  rcases hc with hc | ⟨hc, hw⟩
  · exact Or.inl hc
  · rcases hw with ⟨hx, _⟩ | ⟨_, hnh, hk⟩
    · cases hx
    · right
      refine ⟨hc, ?_⟩
      by_cases he : some par0 = some r.2
      · left; refine ⟨he, ?_⟩
        have : par0 = r.2 := by simpa using he
        rw [this]; exact hk
      · right; exact ⟨he, hnh, hk⟩

/-- closing the exemption once every child has been woken -/
theorem FlagOk.close {p : Pool} {r : Reg} {par0 : Nat × Nat} (h : FlagOk p (some par0) [] r) : FlagOk p none [] r := by
  intro hq
  obtain ⟨st, hg, hc⟩ := h hq
  refine ⟨st, hg, ?_⟩
  rcases hc with hc | ⟨hc, hw⟩
  · exact Or.inl hc
  · rcases hw with ⟨_, hr⟩ | ⟨_, hnh, hk⟩
    · cases hr
    · exact Or.inr ⟨hc, Or.inr ⟨by simp, hnh, hk⟩⟩

/-! ### waking the children of a certified block -/

theorem notifyChildren_flag (R : List Reg) (par0 : Nat × Nat) (kids : List (Nat × Nat)) (p : Pool) (acc : List Event)
    (hreg : ∀ k ∈ kids, (k, par0) ∈ R)
    (hF : ∀ r ∈ R, FlagOk p (some par0) kids r) :
    (∀ r ∈ R, FlagOk (p.notifyChildren kids acc).1 (some par0) [] r) ∧
    (Event.panic ∉ acc → Event.panic ∉ (p.notifyChildren kids acc).2) := by
  induction kids generalizing p acc with
  | nil => exact ⟨hF, fun h => h⟩
  | cons k ks ih =>
    obtain ⟨cs, ch⟩ := k
    unfold Pool.notifyChildren
    split
    · rename_i hlt
      apply ih p acc (fun k hk => hreg k (by simp [hk]))
      intro r hr
      apply (hF r hr).transfer (fun hq => hq) (fun _ st hg => ⟨st, hg, fun f hf => Or.inl hf⟩) (fun _ hh => hh)
        (fun _ _ hk => hk)
      intro hq hm
      rcases List.mem_cons.mp hm with he | hm
      · rw [he] at hq; dsimp only at hq; omega
      · exact Or.inl hm
    · rename_i hge
      have hge' : p.fin.first ≤ cs := by omega
      obtain ⟨st0, hg0, hk0⟩ := (hF _ (hreg (cs, ch) (by simp))).known hge'
      have hst0 : (p.slotState cs).2 = st0 := slotState_snd_of_some hg0
      dsimp only
      split
      · rename_i hn
        exfalso
        rw [hst0] at hn
        obtain ⟨st', evs, hn'⟩ := notifyParentCertified_isSome (e := (p.slotState cs).1.epoch) hk0
        rw [hn] at hn'; cases hn'
      · rename_i st' evs hn
        obtain ⟨n1, n2, n3, n4⟩ := notifyParentCertified_spec hn
        have hsl : st'.slot = cs := n1.trans (slotState_snd_slot p cs)
        have hev : Event.panic ∉ evs := notifyParentCertified_events hn
        have := ih ((p.slotState cs).1.putSlot st') (acc ++ evs) (fun k hk => hreg k (by simp [hk])) (by
          intro r hr
          apply (hF r hr).mod hsl
          · intro y f hy
            rw [n3]
            by_cases hyc : y = ch
            · right; simp only [hyc, if_true]; rw [hyc] at hy; rw [hy]; rfl
            · left; simp only [hyc, if_false]; exact hy
          · intro y hy; left; rw [← n4]; exact hy
          · intro k hk
            rcases List.mem_cons.mp hk with he | hk
            · right
              subst he
              refine ⟨rfl, ?_⟩
              rw [n3]; simp only [if_true]
              cases hh : (p.slotState cs).2.parents.lookup ch with
              | none => rw [hh] at n2; cases n2
              | some _ => rfl
            · exact Or.inl hk)
        refine ⟨this.1, fun hacc => this.2 ?_⟩
        intro hm
        rcases List.mem_append.mp hm with hm | hm
        · exact hacc hm
        · exact hev hm

/-- `notify_waiting_children(par0)` closes the exemption, and never hits `parent not known` -/
theorem notifyWaiting_flag (R : List Reg) (p : Pool) (par0 : Nat × Nat) (hW : WaitReg R p)
    (hF : ∀ r ∈ R, FlagOk p (some par0) (kidsOf p par0) r) :
    (∀ r ∈ R, FlagOk (p.notifyWaiting par0).1 none [] r) ∧ Event.panic ∉ (p.notifyWaiting par0).2 := by
  unfold Pool.notifyWaiting
  have := notifyChildren_flag R par0 ((p.waiting.lookup par0).getD []) { p with waiting := p.waiting.filter (·.1 ≠ par0) } []
    (fun k hk => hW.kidsOf hk) (by
      intro r hr
      apply FlagOk.transfer (hF r hr)
      · intro hq; exact hq
      · intro _ st hg; exact ⟨st, hg, fun f hf => Or.inl hf⟩
      · intro _ hh; exact hh
      · intro hx _ hk
        unfold kidsOf at hk ⊢
        dsimp only
        rw [lookup_filter_ne]
        have : ¬ r.2 = par0 := fun e => hx (by rw [e])
        simp only [this, if_false]; exact hk
      · intro _ hm; exact Or.inl hm)
  exact ⟨fun r hr => (this.1 r hr).close, this.2 (by simp)⟩

/-! ### the invariant and the mid-state of `add_valid_cert` -/

/-- the block whose children `add_valid_cert(c)` wakes -/
def wakes (c : Cert) : Option (Nat × Nat) :=
  match c.kind with
  | .skip | .final => none
  | _ => some (c.slot, c.hash)

theorem wakes_strong {c : Cert} (h : c.kind = .notar ∨ c.kind = .nf ∨ c.kind = .ff) : wakes c = some (c.slot, c.hash) := by
  unfold wakes; rcases h with h | h | h <;> rw [h]

theorem wakes_weak {c : Cert} (h : c.kind = .skip ∨ c.kind = .final) : wakes c = none := by
  unfold wakes; rcases h with h | h <;> rw [h]

def FlagInv (R : List Reg) (p : Pool) : Prop := WaitReg R p ∧ ∀ r ∈ R, FlagOk p none [] r

def FlagMid (R : List Reg) (c : Cert) (p : Pool) : Prop :=
  WaitReg R p ∧ ∀ r ∈ R, FlagOk p (wakes c) (kidsOf p (c.slot, c.hash)) r

/-- the pool right after `add_valid_cert(c)` stored the certificate in its slot state -/
def Pool.stored (p : Pool) (c : Cert) : Pool := (p.slotState c.slot).1.putSlot ((p.slotState c.slot).2.addCert c)

/-- storing the certificate opens the exemption for the children of the certified block -/
theorem FlagInv.stored {R : List Reg} {p : Pool} (h : FlagInv R p) (c : Cert) : FlagMid R c (p.stored c) := by
  unfold Pool.stored
  have hfr := mod_frame p c.slot ((p.slotState c.slot).2.addCert c)
  refine ⟨h.1.of_waiting hfr.2.2, fun r hr => ?_⟩
  have h0 : FlagOk p (wakes c) (kidsOf p (c.slot, c.hash)) r := by
    cases hw : wakes c with
    | none => exact (h.2 r hr).none_rem
    | some par0 =>
      have : par0 = (c.slot, c.hash) := by
        unfold wakes at hw; split at hw
        · cases hw
        · cases hw
        · cases hw; rfl
      rw [this]; exact (h.2 r hr).exempt _
  have hk : kidsOf ((p.slotState c.slot).1.putSlot ((p.slotState c.slot).2.addCert c)) (c.slot, c.hash) = kidsOf p (c.slot, c.hash) := by
    unfold kidsOf; rw [hfr.2.2]
  rw [hk]
  apply h0.mod ((addCert_slot _ c).trans (slotState_snd_slot p c.slot))
  · intro y f hy; left; rw [addCert_parents]; exact hy
  · intro y hy
    rcases addCert_isNfOrStronger _ c y hy with a | ⟨a, b⟩
    · exact Or.inl a
    · right; rw [wakes_strong a, b]
  · intro k hk'; exact Or.inl hk'

theorem FlagMid.advance {R : List Reg} {c : Cert} {q : Pool} (hq : FlagMid R c q) (t : Finality.Tracker) (r : ParentReady.Res)
    (hm : q.fin.first ≤ t.first) : FlagMid R c (q.advance t r) :=
  ⟨hq.1.advance t r, fun r' hr' => (hq.2 r' hr').advance t r hm (fun _ hk hf => kidsOf_advance t r hk hf)⟩

/-- waking the children closes the exemption and never hits `parent not known` -/
theorem FlagMid.wake {R : List Reg} {c : Cert} {q : Pool} (hq : FlagMid R c q) (hs : c.kind = .notar ∨ c.kind = .nf ∨ c.kind = .ff) :
    FlagInv R (q.notifyWaiting (c.slot, c.hash)).1 ∧ Event.panic ∉ (q.notifyWaiting (c.slot, c.hash)).2 := by
  unfold FlagMid at hq
  rw [wakes_strong hs] at hq
  have := notifyWaiting_flag R q _ hq.1 hq.2
  exact ⟨⟨hq.1.notifyWaiting _, this.1⟩, this.2⟩

theorem addValidCert_flag (R : List Reg) (c : Cert) (p : Pool) (h : FlagInv R p) : FlagInv R (p.addValidCert c).1 := by
  apply addValidCert_ind c p (FlagInv R) (FlagMid R c)
  · exact h.stored c
  · intro q t r hm hq; exact hq.advance t r hm
  · intro q r hq
    obtain ⟨_, hf, hw⟩ := applyPr_frame q r
    refine ⟨hq.1.of_waiting hw, fun r' hr' => ?_⟩
    have : kidsOf (q.applyPr r).1 (c.slot, c.hash) = kidsOf q (c.slot, c.hash) := by unfold kidsOf; rw [hw]
    rw [this]
    exact (hq.2 r' hr').of_views hf (getSlot_applyPr q r) hw
  · intro q r hq
    obtain ⟨_, hf, hw⟩ := applyPr_frame q r
    exact ⟨hq.1.of_waiting hw, fun r' hr' => (hq.2 r' hr').of_views hf (getSlot_applyPr q r) hw⟩
  · intro hs q hq; exact (hq.wake hs).1
  · intro hs q hq
    unfold FlagMid at hq
    rw [wakes_weak hs] at hq
    exact ⟨hq.1, fun r hr => (hq.2 r hr).none_rem⟩

theorem FlagInv.slotState {R : List Reg} {p : Pool} (h : FlagInv R p) (s : Nat) : FlagInv R (p.slotState s).1 :=
  ⟨h.1.of_waiting (slotState_frame p s).2.2, fun r hr => (h.2 r hr).slotState s⟩

theorem addVote_flag (R : List Reg) (p : Pool) (v : Vote) (h : FlagInv R p) : FlagInv R (p.addVote v).1 := by
  apply addVote_ind (FlagInv R) p v (fun s hp => hp.slotState s) ?_ (fun c _ _ q hq => addValidCert_flag R c q hq) h
  intro _ _
  have hfr := mod_frame p v.slot ((p.slotState v.slot).2.addVote p.epoch v).1
  refine ⟨h.1.of_waiting hfr.2.2, fun r hr => ?_⟩
  apply (h.2 r hr).mod ((addVote_slot _ _ v).trans (slotState_snd_slot p v.slot))
  · intro y f hy; left; rw [addVote_parents]; exact hy
  · intro y hy; left; rw [addVote_isNfOrStronger] at hy; exact hy
  · intro k hk; exact Or.inl hk

theorem addCert_flag (R : List Reg) (p : Pool) (c : Cert) (h : FlagInv R p) : FlagInv R (p.addCert c).1 :=
  addCert_ind (FlagInv R) p c (fun s hp => hp.slotState s) (fun _ q hq => addValidCert_flag R c q hq) h

/-! ### `add_block` -/

theorem known_frame (q : Pool) (b : Nat × Nat) :
    (q.known b).epoch = q.epoch ∧ (q.known b).fin = q.fin ∧ (q.known b).waiting = q.waiting := mod_frame q b.1 _

/-- after `notify_parent_known` the block has an entry in its slot state -/
theorem known_known (q : Pool) (b : Nat × Nat) :
    ∃ st, (q.known b).getSlot b.1 = some st ∧ (st.parents.lookup b.2).isSome = true := by
  obtain ⟨k1, k2, _⟩ := notifyParentKnown_spec (q.slotState b.1).2 b.2
  refine ⟨_, ?_, k2⟩
  unfold Pool.known
  rw [getSlot_mod q b.1 _ (k1.trans (slotState_snd_slot q b.1)), if_pos rfl]

theorem FlagOk.knownStep {q : Pool} {x : Reg} (h : FlagOk q none [] x) (b : Nat × Nat) : FlagOk (q.known b) none [] x := by
  obtain ⟨k1, _, k3, _, k5⟩ := notifyParentKnown_spec (q.slotState b.1).2 b.2
  unfold Pool.known
  apply h.mod (k1.trans (slotState_snd_slot q b.1))
  · intro y f hy; exact Or.inl (k3 y f hy)
  · intro y hy; left; rw [← k5]; exact hy
  · intro k hk; exact Or.inl hk

theorem addBlockTail_flagOk (r : Pool) (b par : Nat × Nat) (e0 : List Event) (cert : Bool) {x : Reg}
    (h : FlagOk r none [] x) : FlagOk (Pool.addBlockTail r b par e0 cert).1 none [] x := by
  unfold Pool.addBlockTail
  split
  · split
    · exact h.slotState b.1
    · rename_i st' evs hn
      obtain ⟨n1, n2, n3, n4⟩ := notifyParentCertified_spec hn
      have hm : FlagOk ((r.slotState b.1).1.putSlot st') none [] x := by
        apply h.mod (n1.trans (slotState_snd_slot r b.1))
        · intro y f hy
          rw [n3]
          by_cases hyc : y = b.2
          · right; simp only [hyc, if_true]; rw [hyc] at hy; rw [hy]; rfl
          · left; simp only [hyc, if_false]; exact hy
        · intro y hy; left; rw [← n4]; exact hy
        · intro k hk; exact Or.inl hk
      split
      · exact hm.addWaiting par b
      · exact hm
  · exact h.addWaiting par b

theorem addBlockTail_waitReg (R : List Reg) (r : Pool) (b par : Nat × Nat) (e0 : List Event) (cert : Bool)
    (hb : (b, par) ∈ R) (hW : WaitReg R r) : WaitReg R (Pool.addBlockTail r b par e0 cert).1 := by
  unfold Pool.addBlockTail
  split
  · split
    · exact hW.of_waiting (slotState_frame r b.1).2.2
    · rename_i st' evs hn
      have hm : WaitReg R ((r.slotState b.1).1.putSlot st') := hW.of_waiting (mod_frame r b.1 st').2.2
      split
      · exact hm.addWaiting par b hb
      · exact hm
  · exact hW.addWaiting par b hb

/-- the freshly registered pair satisfies the invariant, and `add_block` does not hit `parent not known` -/
theorem addBlockTail_new (r : Pool) (b par : Nat × Nat) (e0 : List Event)
    (hk : ∃ st, r.getSlot b.1 = some st ∧ (st.parents.lookup b.2).isSome = true) :
    FlagOk (Pool.addBlockTail r b par e0 (r.certifiedB par)).1 none [] (b, par) ∧
    (Event.panic ∉ e0 → Event.panic ∉ (Pool.addBlockTail r b par e0 (r.certifiedB par)).2) := by
  obtain ⟨st0, hg0, hk0⟩ := hk
  have hst0 : (r.slotState b.1).2 = st0 := slotState_snd_of_some hg0
  have hwait : ∀ (q : Pool) (st : SlotState), q.getSlot b.1 = some st → (st.parents.lookup b.2).isSome = true →
      (st.parents.lookup b.2 = some false → ¬ Held q par) → FlagOk (Pool.addWaiting q par b) none [] (b, par) := by
    intro q st hg hs hnh _
    refine ⟨st, by rw [getSlot_addWaiting]; exact hg, ?_⟩
    cases hl : st.parents.lookup b.2 with
    | none => rw [hl] at hs; cases hs
    | some f =>
      cases f with
      | true => exact Or.inl rfl
      | false =>
        right
        refine ⟨rfl, Or.inr ⟨by simp, fun hh => hnh hl (hh.of_getSlot (getSlot_addWaiting q par b)), (kidsOf_addWaiting q par b).2⟩⟩
  unfold Pool.addBlockTail
  split
  · split
    · rename_i hn
      exfalso
      rw [hst0] at hn
      obtain ⟨st', evs, hn'⟩ := notifyParentCertified_isSome (e := (r.slotState b.1).1.epoch) hk0
      rw [hn] at hn'; cases hn'
    · rename_i st' evs hn
      obtain ⟨n1, n2, n3, n4⟩ := notifyParentCertified_spec hn
      have hsl : st'.slot = b.1 := n1.trans (slotState_snd_slot r b.1)
      have htrue : st'.parents.lookup b.2 = some true := by
        rw [n3]; simp only [if_true]
        cases hh : (r.slotState b.1).2.parents.lookup b.2 with
        | none => rw [hh] at n2; cases n2
        | some _ => rfl
      have hg' : ((r.slotState b.1).1.putSlot st').getSlot b.1 = some st' := by
        rw [getSlot_mod r b.1 st' hsl, if_pos rfl]
      have hev : Event.panic ∉ evs := notifyParentCertified_events hn
      split
      · refine ⟨hwait _ st' hg' (by rw [htrue]; rfl) (fun hf => by rw [htrue] at hf; cases hf), fun h => h⟩
      · refine ⟨fun _ => ⟨st', hg', Or.inl htrue⟩, fun h hm => ?_⟩
        rcases List.mem_append.mp hm with hm | hm
        · exact h hm
        · exact hev hm
  · rename_i hc
    refine ⟨hwait r st0 hg0 hk0 ?_, fun h => h⟩
    intro _ hh
    apply hc
    obtain ⟨ps, hg, hi⟩ := hh
    unfold Pool.certifiedB
    rw [hg]; exact hi

/-- `add_block`'s own call of `notify_parent_certified` is for the entry it has just created: no `parent not known` -/
theorem addBlockTail_no_panic (r : Pool) (b par : Nat × Nat) (e0 : List Event) (cert : Bool)
    (hk : ∃ st, r.getSlot b.1 = some st ∧ (st.parents.lookup b.2).isSome = true) (h0 : Event.panic ∉ e0) :
    Event.panic ∉ (Pool.addBlockTail r b par e0 cert).2 := by
  obtain ⟨st0, hg0, hk0⟩ := hk
  have hst0 : (r.slotState b.1).2 = st0 := slotState_snd_of_some hg0
  unfold Pool.addBlockTail
  split
  · split
    · rename_i hn
      exfalso
      rw [hst0] at hn
      obtain ⟨st', evs, hn'⟩ := notifyParentCertified_isSome (e := (r.slotState b.1).1.epoch) hk0
      rw [hn] at hn'; cases hn'
    · rename_i st' evs hn
      split
      · exact h0
      · intro hm
        rcases List.mem_append.mp hm with hm | hm
        · exact h0 hm
        · exact notifyParentCertified_events hn hm
  · exact h0

/-- the registrations an operation adds to the ghost list -/
def regsOf (p : Pool) : PoolOp → List Reg
  | .block b par => if accepted p b par then [(b, par)] else []
  | _ => []

theorem FlagInv.advance {R : List Reg} {p : Pool} (h : FlagInv R p) (t : Finality.Tracker) (r : ParentReady.Res)
    (hm : p.fin.first ≤ t.first) : FlagInv R (p.advance t r) :=
  ⟨h.1.advance t r, fun x hx => (h.2 x hx).advance t r hm (fun _ hk _ => hk)⟩

theorem addBlock_flag (R : List Reg) (p : Pool) (b par : Nat × Nat) (h : FlagInv R p) :
    FlagInv (R ++ regsOf p (.block b par)) (p.addBlock b par).1 := by
  by_cases ha : accepted p b par
  · have hR : R ++ regsOf p (.block b par) = R ++ [(b, par)] := by simp [regsOf, ha]
    rw [hR]
    have hbR : (b, par) ∈ R ++ [(b, par)] := by simp
    -- the old pairs, and the waiting map
    have hold : WaitReg (R ++ [(b, par)]) (p.addBlock b par).1 ∧ ∀ x ∈ R, FlagOk (p.addBlock b par).1 none [] x := by
      apply addBlock_ind (fun q => WaitReg (R ++ [(b, par)]) q ∧ ∀ x ∈ R, FlagOk q none [] x) p b par (fun hn => absurd ha hn)
      intro _ t r hm
      have hq := h.advance t r hm
      have hq1 : WaitReg (R ++ [(b, par)]) (p.advance t r) := hq.1.mono (fun x hx => by simp [hx])
      refine ⟨fun _ e0 => ⟨?_, fun x hx => ?_⟩, fun _ => ⟨hq1, hq.2⟩⟩
      · exact addBlockTail_waitReg _ _ b par e0 _ hbR (hq1.of_waiting (known_frame _ b).2.2)
      · exact addBlockTail_flagOk _ b par e0 _ ((hq.2 x hx).knownStep b)
    -- the new pair
    have hnew : FlagOk (p.addBlock b par).1 none [] (b, par) := by
      apply addBlock_ind (fun q => FlagOk q none [] (b, par)) p b par (fun hn => absurd ha hn)
      intro _ t r _
      refine ⟨fun _ e0 => (addBlockTail_new _ b par e0 (known_known _ b)).1, fun hlt hq => ?_⟩
      rw [advance_fin] at hq
      dsimp only at hq; omega
    refine ⟨hold.1, fun x hx => ?_⟩
    rcases List.mem_append.mp hx with hx | hx
    · exact hold.2 x hx
    · simp only [List.mem_singleton] at hx; subst hx; exact hnew
  · have hR : R ++ regsOf p (.block b par) = R := by simp [regsOf, ha]
    rw [hR]
    exact addBlock_ind (FlagInv R) p b par (fun _ => h) (fun hn => absurd hn ha)

/-! ### every reachable pool -/

/-- ghost: the accepted registrations of a run, in order -/
def regsRun (p : Pool) : List PoolOp → List Reg
  | [] => []
  | op :: ops => regsOf p op ++ regsRun (poolStep p op).1 ops

theorem poolStep_flag (R : List Reg) (p : Pool) (op : PoolOp) (h : FlagInv R p) :
    FlagInv (R ++ regsOf p op) (poolStep p op).1 := by
  cases op with
  | vote v => simp only [regsOf, List.append_nil, poolStep]; exact addVote_flag R p v h
  | cert c => simp only [regsOf, List.append_nil, poolStep]; exact addCert_flag R p c h
  | block b par => exact addBlock_flag R p b par h

theorem poolRun_flag (ops : List PoolOp) (R : List Reg) (p : Pool) (h : FlagInv R p) :
    FlagInv (R ++ regsRun p ops) (poolRun p ops).1 := by
  induction ops generalizing R p with
  | nil => simp only [regsRun, List.append_nil, poolRun]; exact h
  | cons op ops ih =>
    simp only [regsRun, poolRun, ← List.append_assoc]
    exact ih _ _ (poolStep_flag R p op h)

theorem FlagInv.init (e : Epoch) : FlagInv [] { epoch := e } :=
  ⟨fun _ _ hm => by simp at hm, fun _ hr => by simp at hr⟩

theorem poolRun_append (p : Pool) (a b : List PoolOp) :
    poolRun p (a ++ b) = ((poolRun (poolRun p a).1 b).1, (poolRun p a).2 ++ (poolRun (poolRun p a).1 b).2) := by
  induction a generalizing p with
  | nil => simp [poolRun]
  | cons op a ih => simp only [List.cons_append, poolRun, ih, List.append_assoc]

theorem regsRun_append (p : Pool) (a b : List PoolOp) :
    regsRun p (a ++ b) = regsRun p a ++ regsRun (poolRun p a).1 b := by
  induction a generalizing p with
  | nil => simp [regsRun, poolRun]
  | cons op a ih => simp only [List.cons_append, regsRun, poolRun, ih, List.append_assoc]

/-- a registration `.block b par` in the op list that the tracker accepted is in the ghost list -/
theorem mem_regsRun (p : Pool) (pre post : List PoolOp) (b par : Nat × Nat) (ha : accepted (poolRun p pre).1 b par) :
    (b, par) ∈ regsRun p (pre ++ .block b par :: post) := by
  rw [regsRun_append]
  apply List.mem_append_right
  simp [regsRun, regsOf, ha]

/-- and conversely: the ghost list holds nothing else -/
theorem regsRun_mem (ops : List PoolOp) (p : Pool) (x : Reg) (hx : x ∈ regsRun p ops) :
    ∃ pre post, ops = pre ++ .block x.1 x.2 :: post ∧ accepted (poolRun p pre).1 x.1 x.2 := by
  induction ops generalizing p with
  | nil => simp [regsRun] at hx
  | cons op ops ih =>
    simp only [regsRun, List.mem_append] at hx
    rcases hx with hx | hx
    · cases op with
      | vote v => simp [regsOf] at hx
      | cert c => simp [regsOf] at hx
      | block b par =>
        simp only [regsOf] at hx
        split at hx
        · rename_i ha
          simp only [List.mem_singleton] at hx; subst hx
          exact ⟨[], ops, rfl, ha⟩
        · cases hx
    · obtain ⟨pre, post, he, ha⟩ := ih _ hx
      exact ⟨op :: pre, post, by rw [he]; rfl, ha⟩

end AgModel.Pool
