import AgModel.Proofs.BlockProducerE2E
import AgModel.Model.ProducerLoop
import AgModel.Model.Votor
/-! Lemmas about `AgModel.BlockProducer.Loop` (the window loop of `block_production_loop`). -/
namespace AgModel.BlockProducer

/-! ### the parent in mode `.ready` / at most one switch in mode `.notReady` -/

theorem step_seen_parent (c : Cfg) (s : PState) (si : SliceIn) (h : s.seen = true) :
    (step c s si).1.seen = true ∧ (step c s si).1.parent = s.parent := by
  unfold step
  by_cases hs : s.status = .running
  · simp only [hs, ne_eq, not_true_eq_false, if_false]
    split
    · exact ⟨h, rfl⟩
    · split
      · exact ⟨h, rfl⟩
      · split
        · exact ⟨h, rfl⟩
        · simp [h, newParent, prApplies]
  · simp [hs, h]

theorem run_seen_parent (c : Cfg) (ins : List SliceIn) (s : PState) (h : s.seen = true) :
    (run c s ins).1.parent = s.parent := by
  induction ins generalizing s with
  | nil => rfl
  | cons si rest ih =>
    rw [run_cons]
    obtain ⟨h1, h2⟩ := step_seen_parent c s si h
    rw [ih _ h1, h2]

/-- `produce_block_parent_ready` never changes the parent -/
theorem produce_ready_parent (c : Cfg) (ins : List SliceIn) (hm : c.mode = .ready) :
    (produce c ins).1.parent = c.parent := by
  unfold produce
  rw [run_seen_parent c ins (init c) (by simp [init, hm])]
  rfl

theorem step_parent_switch (c : Cfg) (s : PState) (si : SliceIn) :
    (step c s si).1.parent = s.parent ∨
    (si.pr = some (step c s si).1.parent ∧ (step c s si).1.parent.2 ≠ c.parent.2 ∧ (step c s si).1.seen = true) := by
  unfold step
  by_cases hs : s.status = .running
  · simp only [hs, ne_eq, not_true_eq_false, if_false]
    split
    · exact Or.inl rfl
    · split
      · exact Or.inl rfl
      · split
        · exact Or.inl rfl
        · simp only [newParent, prApplies]
          cases hseen : s.seen with
          | true => simp
          | false =>
            cases hpr : si.pr with
            | none => simp
            | some np => by_cases hh : np.2 = c.parent.2 <;> simp [hh]
  · simp [hs]

/-- the final parent is the one the state has, or a ParentReady received in some slice whose hash differs from the
    hash of the parent the producer was called with -/
theorem run_parent_switch (c : Cfg) (ins : List SliceIn) (s : PState) :
    (run c s ins).1.parent = s.parent ∨
    ∃ si ∈ ins, si.pr = some (run c s ins).1.parent ∧ (run c s ins).1.parent.2 ≠ c.parent.2 := by
  induction ins generalizing s with
  | nil => exact Or.inl rfl
  | cons si rest ih =>
    rw [run_cons]
    rcases step_parent_switch c s si with h | ⟨h1, h2, h3⟩
    · rcases ih (step c s si).1 with h' | ⟨x, hx, h'⟩
      · left; rw [h', h]
      · right; exact ⟨x, List.mem_cons_of_mem _ hx, h'⟩
    · right
      refine ⟨si, List.mem_cons_self, ?_⟩
      simp only [run_seen_parent c rest _ h3]
      exact ⟨h1, h2⟩

namespace Loop

/-! ### `produceSlots` -/

theorem W_eq : W = 4 := rfl

theorem produceSlots_cons (eq : Bool) (s : Nat) (ss : List Nat) (m : Mode) (par : Nat × Nat) (b : BlockIn)
    (bs : List BlockIn) :
    produceSlots eq (s :: ss) m par (b :: bs) =
      if (produce ⟨m, s, par, eq⟩ b.ins).1.status = .done then
        (⟨s, b.hash, (produce ⟨m, s, par, eq⟩ b.ins).1.parent⟩ :: (produceSlots eq ss .ready (s, b.hash) bs).1,
         (produceSlots eq ss .ready (s, b.hash) bs).2)
      else ([], false) := rfl

/-- inversion: a non-empty result -/
theorem produceSlots_head (eq : Bool) (ss : List Nat) (m : Mode) (par : Nat × Nat) (bs : List BlockIn)
    (x : Produced) (rest : List Produced) (h : (produceSlots eq ss m par bs).1 = x :: rest) :
    ∃ s ss' b bs', ss = s :: ss' ∧ bs = b :: bs' ∧ (produce ⟨m, s, par, eq⟩ b.ins).1.status = .done ∧
      x = ⟨s, b.hash, (produce ⟨m, s, par, eq⟩ b.ins).1.parent⟩ ∧
      rest = (produceSlots eq ss' .ready (s, b.hash) bs').1 := by
  cases ss with
  | nil => simp [produceSlots] at h
  | cons s ss' =>
    cases bs with
    | nil => simp [produceSlots] at h
    | cons b bs' =>
      rw [produceSlots_cons] at h
      by_cases hd : (produce ⟨m, s, par, eq⟩ b.ins).1.status = .done
      · simp only [hd, if_true, List.cons.injEq] at h
        exact ⟨s, ss', b, bs', rfl, rfl, hd, h.1.symm, h.2.symm⟩
      · simp [hd] at h

/-- the produced slots are a prefix of the slots asked for; all of them when every production completed -/
theorem produceSlots_slots (eq : Bool) (ss : List Nat) (m : Mode) (par : Nat × Nat) (bs : List BlockIn) :
    (∃ k, (produceSlots eq ss m par bs).1.map (·.slot) = ss.take k) ∧
    ((produceSlots eq ss m par bs).2 = true → (produceSlots eq ss m par bs).1.map (·.slot) = ss) := by
  induction ss generalizing m par bs with
  | nil => exact ⟨⟨0, by simp [produceSlots]⟩, fun _ => by simp [produceSlots]⟩
  | cons s ss' ih =>
    cases bs with
    | nil => exact ⟨⟨0, by simp [produceSlots]⟩, fun h => by simp [produceSlots] at h⟩
    | cons b bs' =>
      rw [produceSlots_cons]
      by_cases hd : (produce ⟨m, s, par, eq⟩ b.ins).1.status = .done
      · simp only [hd, if_true]
        obtain ⟨⟨k, hk⟩, h2⟩ := ih .ready (s, b.hash) bs'
        refine ⟨⟨k + 1, ?_⟩, fun h => ?_⟩
        · simp only [List.map_cons, List.take_succ_cons, hk]
        · simp only [List.map_cons, h2 h]
      · simp only [hd, if_false]
        exact ⟨⟨0, by simp⟩, fun h => by simp at h⟩

/-- the first produced block in mode `.ready` has the given parent -/
theorem produceSlots_head_ready (eq : Bool) (ss : List Nat) (par : Nat × Nat) (bs : List BlockIn)
    (x : Produced) (rest : List Produced) (h : (produceSlots eq ss .ready par bs).1 = x :: rest) :
    x.parent = par := by
  obtain ⟨s, ss', b, bs', _, _, _, hx, _⟩ := produceSlots_head eq ss .ready par bs x rest h
  rw [hx]
  exact produce_ready_parent ⟨.ready, s, par, eq⟩ b.ins rfl

/-- consecutive produced blocks: the later one is built on the earlier one -/
theorem produceSlots_chain (eq : Bool) (len : Nat) : ∀ (n : Nat) (m : Mode) (par : Nat × Nat) (bs : List BlockIn)
    (pre : List Produced) (a b : Produced) (post : List Produced),
    (produceSlots eq (List.range' n len) m par bs).1 = pre ++ a :: b :: post →
    b.slot = a.slot + 1 ∧ b.parent = (a.slot, a.hash) := by
  induction len with
  | zero => intro n m par bs pre a b post h; simp [produceSlots] at h
  | succ len ih =>
    intro n m par bs pre a b post h
    cases pre with
    | nil =>
      rw [List.nil_append] at h
      obtain ⟨s, ss', bi, bs', hss, _, _, hx, hrest⟩ := produceSlots_head eq _ m par bs a (b :: post) h
      rw [List.range'_succ, List.cons.injEq] at hss
      obtain ⟨rfl, rfl⟩ := hss
      have hp := produceSlots_head_ready eq _ _ _ b post hrest.symm
      obtain ⟨s2, ss2, _, _, hss2, _, _, hb, _⟩ := produceSlots_head eq _ _ _ _ b post hrest.symm
      cases len with
      | zero => simp at hss2
      | succ len' =>
        rw [List.range'_succ, List.cons.injEq] at hss2
        subst hx
        refine ⟨?_, hp⟩
        rw [hb]; exact hss2.1.symm
    | cons x pre' =>
      rw [List.cons_append] at h
      obtain ⟨s, ss', bi, bs', hss, _, _, _, hrest⟩ := produceSlots_head eq _ m par bs x _ h
      rw [List.range'_succ, List.cons.injEq] at hss
      obtain ⟨rfl, rfl⟩ := hss
      exact ih _ _ _ _ pre' a b post hrest.symm

/-- every produced block is a completed `produce` on one of the inputs: the first one as the window was entered, every
    later one called with a parent in an earlier slot -/
theorem produceSlots_mem (eq : Bool) (len : Nat) : ∀ (n : Nat) (m : Mode) (par : Nat × Nat) (bs : List BlockIn),
    ∀ x ∈ (produceSlots eq (List.range' n len) m par bs).1,
    ∃ m' par' bi, bi ∈ bs ∧ ((par' = par ∧ m' = m ∧ x.slot = n) ∨ par'.1 < x.slot) ∧ n ≤ x.slot ∧ x.hash = bi.hash ∧
      (produce ⟨m', x.slot, par', eq⟩ bi.ins).1.status = .done ∧
      (produce ⟨m', x.slot, par', eq⟩ bi.ins).1.parent = x.parent := by
  induction len with
  | zero => intro n m par bs x hx; simp [produceSlots] at hx
  | succ len ih =>
    intro n m par bs x hx
    cases hres : (produceSlots eq (List.range' n (len + 1)) m par bs).1 with
    | nil => rw [hres] at hx; simp at hx
    | cons y rest =>
      obtain ⟨s, ss', bi, bs', hss, hbs, hd, hy, hrest⟩ := produceSlots_head eq _ m par bs y rest hres
      rw [List.range'_succ, List.cons.injEq] at hss
      obtain ⟨rfl, rfl⟩ := hss
      rw [hres, List.mem_cons] at hx
      rcases hx with rfl | hx
      · refine ⟨m, par, bi, by rw [hbs]; exact List.mem_cons_self, ?_, ?_, ?_, ?_, ?_⟩ <;> rw [hy]
        · exact Or.inl ⟨rfl, rfl, rfl⟩
        · exact Nat.le_refl _
        · exact hd
      · rw [hrest] at hx
        obtain ⟨m', par', bj, h1, h2, h3, h4, h5, h6⟩ := ih (n + 1) .ready (n, bi.hash) bs' x hx
        refine ⟨m', par', bj, by rw [hbs]; exact List.mem_cons_of_mem _ h1, ?_, by omega, h4, h5, h6⟩
        rcases h2 with ⟨h21, _, h23⟩ | h2
        · right; rw [h21, h23]; exact Nat.lt_succ_self n
        · exact Or.inr h2

/-! ### `entry` / `produceWindow` -/

/-- the slots a leader produces in window `w` (slot 0, genesis, is never produced) -/
def slotsOf (w : Nat) : List Nat := if w = 0 then List.range' 1 (W - 1) else List.range' (w * W) W

theorem slotsOf_eq (w : Nat) : slotsOf w = if w = 0 then (windowSlots 0).drop 1 else windowSlots w := by
  unfold slotsOf
  split
  · rfl
  · rfl

theorem slotsOf_range (w : Nat) : ∃ n len, slotsOf w = List.range' n len ∧ w * W ≤ n ∧ n + len ≤ w * W + W ∧ 0 < n ∧
    (w = 0 → n = 1) ∧ (w ≠ 0 → n = w * W) := by
  unfold slotsOf
  split
  · rename_i h; subst h; exact ⟨1, W - 1, rfl, by simp, by simp [W_eq], by omega, fun _ => rfl, fun h => absurd rfl h⟩
  · rename_i h
    refine ⟨w * W, W, rfl, Nat.le_refl _, Nat.le_refl _, ?_, fun h0 => absurd h0 h, fun _ => rfl⟩
    rw [W_eq]; omega

theorem mem_slotsOf (w s : Nat) (h : s ∈ slotsOf w) : s / W = w ∧ s ≠ 0 ∧ w * W ≤ s := by
  obtain ⟨n, len, h1, h2, h3, h4, _⟩ := slotsOf_range w
  rw [h1, List.mem_range'_1] at h
  rw [W_eq] at h2 h3 ⊢
  omega

theorem slotsOf_pairwise (w : Nat) : (slotsOf w).Pairwise (· < ·) := by
  obtain ⟨n, len, h1, _⟩ := slotsOf_range w
  rw [h1]; exact List.pairwise_lt_range'

theorem slotsOf_nodup (w : Nat) : (slotsOf w).Nodup := by
  obtain ⟨n, len, h1, _⟩ := slotsOf_range w
  rw [h1]; exact List.nodup_range'

theorem slotsOf_head (w : Nat) : ∃ t, slotsOf w = (if w = 0 then 1 else w * W) :: t := by
  unfold slotsOf
  split
  · exact ⟨_, (List.range'_succ (s := 1) (n := 2) (step := 1))⟩
  · exact ⟨_, (List.range'_succ (s := w * W) (n := 3) (step := 1))⟩

theorem waitFor_notSeen (fs : Nat) (i : FirstSlotIn) (p : Nat × Nat)
    (h : waitForFirstSlot fs i = some (.parentReadyNotSeen p)) : ∃ hh, i.prevBlock = some hh ∧ p = (fs - 1, hh) := by
  unfold waitForFirstSlot at h
  split at h
  · simp at h
  · split at h
    · simp at h
    · split at h
      · simp at h
      · split at h
        · rename_i hh hp
          simp only [Option.some.injEq, SlotReady.parentReadyNotSeen.injEq] at h
          exact ⟨hh, hp, h.symm⟩
        · split at h <;> simp at h

theorem waitFor_ready (fs : Nat) (i : FirstSlotIn) (p : Nat × Nat)
    (h : waitForFirstSlot fs i = some (.ready p)) : i.genesisWindow = true ∨ i.already = some p ∨ i.prFirst = some p := by
  unfold waitForFirstSlot at h
  split at h
  · rename_i hg; exact Or.inl hg
  · split at h
    · rename_i q hq
      simp only [Option.some.injEq, SlotReady.ready.injEq] at h
      right; left; rw [hq, h]
    · split at h
      · rename_i q hq
        simp only [Option.some.injEq, SlotReady.ready.injEq] at h
        right; right; rw [hq, h]
      · split at h
        · simp at h
        · split at h <;> simp at h

/-- what the window is entered with -/
theorem entry_inr (leader : Nat → Nat) (me w : Nat) (i : WindowIn) (slots : List Nat) (m : Mode) (p : Nat × Nat)
    (h : entry leader me w i = .inr (slots, m, p)) :
    leader (w * W) = me ∧ slots = slotsOf w ∧
    (w = 0 → m = .ready ∧ p = (0, 0)) ∧
    (w ≠ 0 →
      (m = .ready ∧ waitForFirstSlot (w * W) { i.first with genesisWindow := false } = some (.ready p)) ∨
      (m = .notReady ∧ waitForFirstSlot (w * W) { i.first with genesisWindow := false } = some (.parentReadyNotSeen p))) := by
  unfold entry at h
  by_cases hl : leader (w * W) = me
  case neg => simp [hl] at h
  simp only [hl, ne_eq, not_true_eq_false, if_false] at h
  by_cases hw : w = 0
  · subst hw
    simp only [decide_true, waitForFirstSlot, if_true, Nat.zero_mul, GENESIS] at h
    simp only [Sum.inr.injEq, Prod.mk.injEq] at h
    refine ⟨hl, ?_, fun _ => ⟨h.2.1.symm, h.2.2.symm⟩, fun h0 => absurd rfl h0⟩
    rw [← h.1, slotsOf_eq]; rfl
  · have hd : decide (w = 0) = false := by simp [hw]
    have hne : w * W ≠ 0 := by rw [W_eq]; omega
    rw [hd] at h
    refine ⟨hl, ?_, fun h0 => absurd h0 hw, fun _ => ?_⟩
    · split at h
      · simp at h
      · simp at h
      · simp only [hne, if_false, Sum.inr.injEq, Prod.mk.injEq] at h
        rw [← h.1, slotsOf_eq, if_neg hw]
      · simp only [Sum.inr.injEq, Prod.mk.injEq] at h
        rw [← h.1, slotsOf_eq, if_neg hw]
    · split at h
      · simp at h
      · simp at h
      · rename_i q hq
        simp only [hne, if_false, Sum.inr.injEq, Prod.mk.injEq] at h
        left; exact ⟨h.2.1.symm, by rw [← h.2.2]; exact hq⟩
      · rename_i q hq
        simp only [Sum.inr.injEq, Prod.mk.injEq] at h
        right; exact ⟨h.2.1.symm, by rw [← h.2.2]; exact hq⟩

/-- `produceWindow` produces nothing (verdict `notLeader` / `skip` / `waiting`) or runs the productions -/
theorem produceWindow_cases (leader : Nat → Nat) (me w : Nat) (i : WindowIn) :
    (∃ v, entry leader me w i = .inl v ∧ produceWindow leader me w i = ⟨v, []⟩ ∧
      (v = .notLeader ∨ v = .skip ∨ v = .waiting)) ∨
    (∃ slots m p, entry leader me w i = .inr (slots, m, p) ∧
      produceWindow leader me w i = fin (produceSlots i.eq slots m p i.blocks)) := by
  unfold produceWindow
  cases he : entry leader me w i with
  | inl v =>
    left
    refine ⟨v, rfl, rfl, ?_⟩
    unfold entry at he
    split at he
    · simp only [Sum.inl.injEq] at he; subst he; simp
    · split at he
      · simp only [Sum.inl.injEq] at he; subst he; simp
      · simp only [Sum.inl.injEq] at he; subst he; simp
      · split at he <;> simp at he
      · simp at he
  | inr t =>
    obtain ⟨slots, m, p⟩ := t
    right
    exact ⟨slots, m, p, rfl, rfl⟩

theorem fin_verdict (r : List Produced × Bool) : (fin r).verdict = .complete ∨ (fin r).verdict = .stuck := by
  unfold fin
  cases r.2 <;> simp

/-- blocks were produced: the window was entered -/
theorem blocks_ne_nil (leader : Nat → Nat) (me w : Nat) (i : WindowIn) (h : (produceWindow leader me w i).blocks ≠ []) :
    ∃ slots m p, entry leader me w i = .inr (slots, m, p) ∧
      (produceWindow leader me w i).blocks = (produceSlots i.eq slots m p i.blocks).1 := by
  rcases produceWindow_cases leader me w i with ⟨v, _, hv, _⟩ | ⟨slots, m, p, he, hp⟩
  · rw [hv] at h; exact absurd rfl h
  · exact ⟨slots, m, p, he, by rw [hp]; rfl⟩

theorem blocks_slots_prefix (leader : Nat → Nat) (me w : Nat) (i : WindowIn) :
    ∃ k, (produceWindow leader me w i).blocks.map (·.slot) = (slotsOf w).take k := by
  by_cases h : (produceWindow leader me w i).blocks = []
  · exact ⟨0, by rw [h]; simp⟩
  · obtain ⟨slots, m, p, he, hb⟩ := blocks_ne_nil leader me w i h
    obtain ⟨_, hs, _⟩ := entry_inr leader me w i slots m p he
    rw [hb, hs]
    exact (produceSlots_slots _ _ _ _ _).1

theorem blocks_slot_mem (leader : Nat → Nat) (me w : Nat) (i : WindowIn) (b : Produced)
    (hb : b ∈ (produceWindow leader me w i).blocks) : b.slot ∈ slotsOf w := by
  obtain ⟨k, hk⟩ := blocks_slots_prefix leader me w i
  have : b.slot ∈ (produceWindow leader me w i).blocks.map (·.slot) := List.mem_map_of_mem hb
  rw [hk] at this
  exact List.mem_of_mem_take this

/-- the first produced block -/
theorem first_block_shape (leader : Nat → Nat) (me w : Nat) (i : WindowIn) (b : Produced) (rest : List Produced)
    (hb : (produceWindow leader me w i).blocks = b :: rest) :
    ∃ m p bi bs', entry leader me w i = .inr (slotsOf w, m, p) ∧ i.blocks = bi :: bs' ∧
      (produce ⟨m, if w = 0 then 1 else w * W, p, i.eq⟩ bi.ins).1.status = .done ∧
      b = ⟨if w = 0 then 1 else w * W, bi.hash, (produce ⟨m, if w = 0 then 1 else w * W, p, i.eq⟩ bi.ins).1.parent⟩ := by
  obtain ⟨slots, m, p, he, hbl⟩ := blocks_ne_nil leader me w i (by rw [hb]; simp)
  obtain ⟨_, hs, _⟩ := entry_inr leader me w i slots m p he
  subst hs
  rw [hbl] at hb
  obtain ⟨s, ss', bi, bs', hss, hbs, hd, hx, _⟩ := produceSlots_head _ _ _ _ _ _ _ hb
  obtain ⟨t, ht⟩ := slotsOf_head w
  rw [ht, List.cons.injEq] at hss
  rw [← hss.1] at hd hx
  exact ⟨m, p, bi, bs', he, hbs, hd, hx⟩

/-- the parent the window is entered with is in an earlier slot when the ParentReady parents are -/
theorem entry_parent_lt (leader : Nat → Nat) (me w : Nat) (i : WindowIn) (slots : List Nat) (m : Mode) (p : Nat × Nat)
    (he : entry leader me w i = .inr (slots, m, p))
    (h1 : ∀ q, i.first.already = some q → q.1 < w * W) (h2 : ∀ q, i.first.prFirst = some q → q.1 < w * W) :
    p.1 < (if w = 0 then 1 else w * W) := by
  obtain ⟨_, _, h0, hn⟩ := entry_inr leader me w i slots m p he
  by_cases hw : w = 0
  · rw [if_pos hw, (h0 hw).2]; exact Nat.zero_lt_one
  · rw [if_neg hw]
    rcases hn hw with ⟨_, hr⟩ | ⟨_, hr⟩
    · rcases waitFor_ready _ _ _ hr with h | h | h
      · simp at h
      · exact h1 p h
      · exact h2 p h
    · obtain ⟨hh, _, hp⟩ := waitFor_notSeen _ _ _ hr
      rw [hp]
      have : w * W ≠ 0 := by rw [W_eq]; omega
      simp only; omega

/-! ### the parent function of the produced blocks -/

/-- the parent of the produced block with the given id (slot, hash); `(0, 0)` for unknown blocks -/
def parentOfBlocks (bl : List Produced) (id : Nat × Nat) : Nat × Nat :=
  match bl.find? (fun b => b.slot == id.1) with
  | some b => b.parent
  | none => (0, 0)

theorem find_slot_of_nodup (bl : List Produced) (hn : (bl.map (·.slot)).Nodup) :
    ∀ b ∈ bl, bl.find? (fun x => x.slot == b.slot) = some b := by
  induction bl with
  | nil => intro b hb; simp at hb
  | cons x rest ih =>
    intro b hb
    rw [List.map_cons, List.nodup_cons] at hn
    rw [List.mem_cons] at hb
    rcases hb with rfl | hb
    · simp
    · have hne : x.slot ≠ b.slot := by
        intro he
        exact hn.1 (he ▸ List.mem_map_of_mem hb)
      rw [List.find?_cons_of_neg (by simpa using hne)]
      exact ih hn.2 b hb

/-! ### Votor's `try_notar` -/

theorem tryNotar_of_parentOk (v : AgModel.Votor.V) (slot : Nat) (b : AgModel.Votor.BlockInfo)
    (h1 : v.firstUnpruned ≤ slot) (h2 : (v.getS slot).voted = false) (h3 : v.parentOk slot b = true) :
    (v.tryNotar slot b).2 = true := by
  unfold AgModel.Votor.V.tryNotar
  have : ¬ slot < v.firstUnpruned := by omega
  simp [this, h2, h3]

end Loop
end AgModel.BlockProducer
