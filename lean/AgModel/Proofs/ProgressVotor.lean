import AgModel.Proofs.ProgressDefs
import AgModel.Proofs.VotorExt
/-!
# C02 progress, Votor part: what the voting component does in the timely schedule

`VReady s p v`: Votor `v` is *ready for slot `s` with parent `p`* — it has not voted in `s` or later, nothing is pending, the
finalized watermark is below `s`, and `p` is an acceptable parent (`ParentReady(s, p)` was handled if `s` starts a window,
otherwise `p` is the block of slot `s - 1` this Votor notarized). `VAt s h …`: it has notarized `(s, h)`; the flags say which of
the events of slot `s` it has handled. `VSkipped s E p`: it has skipped the slots `s … E-1`.
-/
namespace AgModel.Cluster
open AgModel AgModel.Votor AgModel.NodePanic

@[simp] theorem logEv_hfcs (v : V) (e : Event) : (v.logEv e).hfcs = v.hfcs := rfl
@[simp] theorem logEv_getS (v : V) (e : Event) (k : Nat) : (v.logEv e).getS k = v.getS k := rfl
@[simp] theorem logEv_panicked (v : V) (e : Event) : (v.logEv e).panicked = v.panicked := rfl
@[simp] theorem logEv_slots (v : V) (e : Event) : (v.logEv e).slots = v.slots := rfl
@[simp] theorem logEv_fu (v : V) (e : Event) : (v.logEv e).firstUnpruned = v.firstUnpruned := rfl
@[simp] theorem logEv_log (v : V) (e : Event) : (v.logEv e).log = .ev e :: v.log := rfl

/-! ### votes in the log -/

theorem outsOf_cons_out (o : Out) (L : List Item) : outsOf (.out o :: L) = outsOf L ++ [o] := by
  simp [outsOf]

theorem outsOf_cons_ev (e : Event) (L : List Item) : outsOf (.ev e :: L) = outsOf L := by
  simp [outsOf]

theorem votesOf_cons_ev (lo j : Nat) (e : Event) (L : List Item) : votesOf lo j (.ev e :: L) = votesOf lo j L := by
  simp [votesOf, outsOf_cons_ev]

theorem votesOf_cons_out (lo j : Nat) (o : Out) (L : List Item) :
    votesOf lo j (.out o :: L) = votesOf lo j L ++
      (match voteOfOut j o with | some v => if lo ≤ v.slot then [v] else [] | none => []) := by
  simp only [votesOf, outsOf_cons_out, List.filterMap_append, List.filter_append]
  congr 1
  cases h : voteOfOut j o with
  | none => simp [h]
  | some v => by_cases hv : lo ≤ v.slot <;> simp [h, hv]

theorem votesOf_succ (lo j : Nat) (L : List Item) :
    votesOf (lo + 1) j L = (votesOf lo j L).filter (fun v => decide (lo + 1 ≤ v.slot)) := by
  simp only [votesOf, List.filter_filter]
  congr 1
  funext v
  by_cases h : lo + 1 ≤ v.slot
  · have : lo ≤ v.slot := by omega
    simp [h, this]
  · simp [h]

theorem votesOf_mono (lo lo' j : Nat) (L : List Item) (hle : lo ≤ lo') (h : votesOf lo j L = []) : votesOf lo' j L = [] := by
  simp only [votesOf, List.filter_eq_nil_iff] at h ⊢
  intro v hv hd
  exact h v hv (by simp only [decide_eq_true_eq] at hd ⊢; omega)

/-! ### slot states -/

/-- nothing has happened in the slot (apart, possibly, from `ParentReady`) -/
def FreshS (st : SlotState) : Prop :=
  st.voted = false ∧ st.votedNotar = none ∧ st.badWindow = false ∧ st.blockNotarized = none ∧ st.pendingBlock = none ∧
    st.retired = false

theorem freshS_default : FreshS {} := ⟨rfl, rfl, rfl, rfl, rfl, rfl⟩

def NoPending (v : V) : Prop := ∀ x ∈ v.slots, x.2.pendingBlock = none

theorem NoPending.pendingSlots {v : V} (h : NoPending v) : v.pendingSlots = [] := by
  unfold V.pendingSlots
  rw [List.map_eq_nil_iff, List.filter_eq_nil_iff]
  intro x hx
  rw [h x hx]; simp

theorem mem_insertS {m : Slots} {s : Nat} {v : SlotState} {x : Nat × SlotState} (h : x ∈ insertS m s v) : x = (s, v) ∨ x ∈ m := by
  induction m with
  | nil => simp [insertS] at h; exact Or.inl h
  | cons p t ih =>
    obtain ⟨k, w⟩ := p
    simp only [insertS] at h
    split at h
    · rcases List.mem_cons.mp h with h | h
      · exact Or.inl h
      · exact Or.inr (List.mem_cons_of_mem _ h)
    · split at h
      · rcases List.mem_cons.mp h with h | h
        · exact Or.inl h
        · exact Or.inr h
      · rcases List.mem_cons.mp h with h | h
        · exact Or.inr (by rw [h]; exact List.mem_cons_self)
        · rcases ih h with h | h
          · exact Or.inl h
          · exact Or.inr (List.mem_cons_of_mem _ h)

theorem NoPending.upd {v : V} (h : NoPending v) (s : Nat) (f : SlotState → SlotState)
    (hf : (f (v.getS s)).pendingBlock = none) : NoPending (v.upd s f) := by
  intro x hx
  rcases mem_insertS hx with rfl | hx
  · exact hf
  · exact h x hx

theorem lookup_mem {m : Slots} {k : Nat} {st : SlotState} (h : lookup m k = some st) : (k, st) ∈ m := by
  induction m with
  | nil => simp [lookup] at h
  | cons q t ih =>
    obtain ⟨k', w⟩ := q
    simp only [lookup] at h
    split at h
    · rename_i e; subst e; cases h; exact List.mem_cons_self
    · exact List.mem_cons_of_mem _ (ih h)

theorem NoPending.getS {v : V} (h : NoPending v) (k : Nat) : (v.getS k).pendingBlock = none := by
  cases hl : lookup v.slots k with
  | none => simp [V.getS, hl]
  | some st =>
    have := h _ (lookup_mem hl)
    simpa [V.getS, hl] using this

theorem NoPending.emit {v : V} (h : NoPending v) (o : Out) : NoPending (v.emit o) := h
theorem NoPending.logEv {v : V} (h : NoPending v) (e : Event) : NoPending (v.logEv e) := h

theorem NoPending.checkPending {v : V} (h : NoPending v) : v.checkPending = v := by
  unfold V.checkPending
  rw [h.pendingSlots]; rfl

theorem NoPending.prune {v : V} (h : NoPending v) : NoPending v.prune :=
  fun x hx => h x (List.mem_filter.mp hx).1

theorem getS_prune (v : V) (k : Nat) (hk : v.firstUnpruned ≤ k) : v.prune.getS k = v.getS k := by
  show ((lookup v.prune.slots k).getD {}) = (lookup v.slots k).getD {}
  unfold V.prune
  rw [lookup_filter, if_pos hk]

theorem getS_prune_fresh (v : V) (k : Nat) (h : FreshS (v.getS k)) : FreshS (v.prune.getS k) := by
  show FreshS ((lookup v.prune.slots k).getD {})
  unfold V.prune
  rw [lookup_filter]
  split
  · exact h
  · exact freshS_default

/-! ### the predicates -/

/-- ready for slot `s` with parent `p` -/
structure VReady (s : Nat) (p : Nat × Nat) (v : V) : Prop where
  alive : v.panicked = false
  hfcs : v.hfcs < s
  fresh : ∀ t, s ≤ t → FreshS (v.getS t)
  noPending : NoPending v
  parentW : s % W = 0 → (v.getS s).parentsReady.contains p = true
  parentI : s % W ≠ 0 → p.1 + 1 = s ∧ (v.getS p.1).votedNotar = some p.2
  quiet : ∀ j, votesOf s j v.log = []
  /-- the highest finalized slot this Votor knows is the parent's -/
  hfcsEq : v.hfcs = p.1

/-- has notarized `(s, h)`; `fv`: has seen the notarization certificate (and cast the finalization vote); `nr`: has handled
    `ParentReady(s + 1, (s, h))`; `hf`: has seen a (fast-)finalization certificate of slot `s` -/
structure VAt (s h : Nat) (fv nr hf : Bool) (v : V) : Prop where
  alive : v.panicked = false
  hfcs : if hf then v.hfcs = s else v.hfcs < s
  voted : (v.getS s).voted = true
  votedNotar : (v.getS s).votedNotar = some h
  good : (v.getS s).badWindow = false
  notarized : (v.getS s).blockNotarized = (if fv then some h else none)
  fresh : ∀ t, s < t → FreshS (v.getS t)
  noPending : NoPending v
  votes : ∀ j, votesOf s j v.log = ⟨.notar, s, h, j⟩ :: (if fv then [⟨.final, s, 0, j⟩] else [])
  next : nr = true → (v.getS (s + 1)).parentsReady.contains (s, h) = true

theorem VAt.hfcs_le {s h : Nat} {fv nr hf : Bool} {v : V} (a : VAt s h fv nr hf v) : v.hfcs ≤ s := by
  have := a.hfcs
  cases hf <;> simp at this <;> omega

theorem VAt.fu_le {s h : Nat} {fv nr hf : Bool} {v : V} (a : VAt s h fv nr hf v) : v.firstUnpruned ≤ s :=
  Nat.le_trans (fu_le_hfcs v) a.hfcs_le

/-! ### the block arrives -/

theorem step_block {s h : Nat} {p : Nat × Nat} {v : V} (r : VReady s p v) :
    VAt s h false false false (Votor.step v (.block s ⟨h, p.1, p.2⟩)) := by
  have hfu : v.firstUnpruned ≤ s := Nat.le_trans (fu_le_hfcs v) (Nat.le_of_lt r.hfcs)
  have hfs := r.fresh s (Nat.le_refl _)
  obtain ⟨f1, f2, f3, f4, f5, f6⟩ := hfs
  have hpok : (v.logEv (.block s ⟨h, p.1, p.2⟩)).parentOk s ⟨h, p.1, p.2⟩ = true := by
    unfold V.parentOk
    by_cases hw : s % W = 0
    · rw [if_pos hw]; exact r.parentW hw
    · rw [if_neg hw]
      obtain ⟨a, b⟩ := r.parentI hw
      simp only [Bool.and_eq_true, decide_eq_true_eq]
      exact ⟨a, b⟩
  have hst : Votor.step v (.block s ⟨h, p.1, p.2⟩) =
      ((v.logEv (.block s ⟨h, p.1, p.2⟩)).emit (.notar s h p.1 p.2)).upd s
        (fun st => { st with voted := true, votedNotar := some h, pendingBlock := none }) := by
    unfold Votor.step
    rw [if_neg (by rw [r.alive]; simp)]
    have hign : (v.logEv (.block s ⟨h, p.1, p.2⟩)).ignores (.block s ⟨h, p.1, p.2⟩) = false := by
      show (decide (s ≤ v.hfcs) || (v.getS s).retired) = false
      rw [f6]; simp; exact r.hfcs
    simp only [hign, Bool.false_eq_true, if_false]
    show (if ((v.logEv _).getS s).voted = true then _ else _) = _
    have hv0 : ((v.logEv (.block s ⟨h, p.1, p.2⟩)).getS s).voted = false := f1
    rw [hv0]
    simp only [Bool.false_eq_true, if_false]
    have htn : (v.logEv (.block s ⟨h, p.1, p.2⟩)).tryNotar s ⟨h, p.1, p.2⟩ =
        ((((v.logEv (.block s ⟨h, p.1, p.2⟩)).emit (.notar s h p.1 p.2)).upd s
          (fun st => { st with voted := true, votedNotar := some h, pendingBlock := none })), true) := by
      unfold V.tryNotar
      rw [if_neg (by show ¬ s < v.firstUnpruned; omega)]
      rw [hv0]
      simp only [Bool.false_eq_true, if_false]
      rw [hpok]
      simp only [if_true]
      congr 1
      unfold V.tryFinal
      rw [if_neg (by show ¬ s < v.firstUnpruned; omega)]
      simp only [getS_upd_self, emit_getS]
      have : ((v.logEv (.block s ⟨h, p.1, p.2⟩)).getS s).blockNotarized = none := f4
      rw [this]
      simp
    rw [htn]
    simp only [if_true]
    apply NoPending.checkPending
    apply NoPending.upd
    · exact r.noPending
    · rfl
  rw [hst]
  refine ⟨r.alive, by simpa using r.hfcs, by simp, by simp, by simpa using f3, by simpa using f4, ?_, ?_, ?_, by simp⟩
  · intro t ht
    rw [getS_upd_ne _ _ _ _ (by omega)]
    exact r.fresh t (by omega)
  · apply NoPending.upd
    · exact r.noPending
    · rfl
  · intro j
    show votesOf s j (.out (.notar s h p.1 p.2) :: .ev (.block s ⟨h, p.1, p.2⟩) :: v.log) = _
    rw [votesOf_cons_out, votesOf_cons_ev, r.quiet j]
    simp [voteOfOut]

/-! ### the events of slot `s` -/

theorem contains_insertParent (l : List (Nat × Nat)) (p : Nat × Nat) : (insertParent l p).contains p = true := by
  unfold insertParent
  split
  · assumption
  · simp

theorem step_parentReady {s h : Nat} {fv nr hf : Bool} {v : V} (a : VAt s h fv nr hf v) (hw : (s + 1) % W = 0) :
    VAt s h fv true hf (Votor.step v (.parentReady (s + 1) s h)) := by
  have hfu := a.fu_le
  obtain ⟨f1, f2, f3, f4, f5, f6⟩ := a.fresh (s + 1) (by omega)
  have hnp : NoPending ((v.logEv (.parentReady (s + 1) s h)).upd (s + 1)
      (fun st => { st with parentsReady := insertParent st.parentsReady (s, h) })) := by
    apply NoPending.upd
    · exact a.noPending
    · exact f5
  have hst : Votor.step v (.parentReady (s + 1) s h) =
      (((v.logEv (.parentReady (s + 1) s h)).upd (s + 1)
        (fun st => { st with parentsReady := insertParent st.parentsReady (s, h) })).emit (.timer (s + 1))) := by
    unfold Votor.step
    rw [if_neg (by rw [a.alive]; simp)]
    have hign : (v.logEv (.parentReady (s + 1) s h)).ignores (.parentReady (s + 1) s h) = false := by
      show (decide (s + 1 < v.firstUnpruned) || (v.getS (s + 1)).retired) = false
      rw [f6]; simp; omega
    simp only [hign, Bool.false_eq_true, if_false]
    show (V.checkPending _).setTimeouts (s + 1) = _
    rw [hnp.checkPending]
    unfold V.setTimeouts
    rw [if_pos hw]
  rw [hst]
  refine ⟨a.alive, by simpa using a.hfcs, ?_, ?_, ?_, ?_, ?_, ?_, ?_, ?_⟩
  · simp only [emit_getS]; rw [getS_upd_ne _ _ _ _ (by omega)]; exact a.voted
  · simp only [emit_getS]; rw [getS_upd_ne _ _ _ _ (by omega)]; exact a.votedNotar
  · simp only [emit_getS]; rw [getS_upd_ne _ _ _ _ (by omega)]; exact a.good
  · simp only [emit_getS]; rw [getS_upd_ne _ _ _ _ (by omega)]; exact a.notarized
  · intro t ht
    simp only [emit_getS]
    rw [getS_upd]
    split
    · rename_i e; subst e; exact ⟨f1, f2, f3, f4, f5, f6⟩
    · exact a.fresh t ht
  · exact hnp
  · intro j
    show votesOf s j (.out (.timer (s + 1)) :: .ev (.parentReady (s + 1) s h) :: v.log) = _
    rw [votesOf_cons_out, votesOf_cons_ev, a.votes j]
    simp [voteOfOut]
  · intro _
    simp only [emit_getS, getS_upd_self, logEv_getS]
    exact contains_insertParent _ _

theorem step_cert_nf {s h : Nat} {fv nr hf : Bool} {v : V} (a : VAt s h fv nr hf v) :
    VAt s h fv nr hf (Votor.step v (.cert .notarFallback s h)) := by
  have hfu := a.fu_le
  have hst : Votor.step v (.cert .notarFallback s h) = (v.logEv (.cert .notarFallback s h)).emit (.cert .notarFallback s h) := by
    unfold Votor.step
    rw [if_neg (by rw [a.alive]; simp)]
    have hign : (v.logEv (.cert .notarFallback s h)).ignores (.cert .notarFallback s h) = false := by
      show decide (s < v.firstUnpruned) = false
      simp; omega
    simp only [hign, Bool.false_eq_true, if_false]
    rfl
  rw [hst]
  refine ⟨a.alive, by simpa using a.hfcs, a.voted, a.votedNotar, a.good, a.notarized, a.fresh, a.noPending, ?_, a.next⟩
  intro j
  show votesOf s j (.out (.cert .notarFallback s h) :: .ev (.cert .notarFallback s h) :: v.log) = _
  rw [votesOf_cons_out, votesOf_cons_ev, a.votes j]
  simp [voteOfOut]

theorem step_cert_notar {s h : Nat} {nr hf : Bool} {v : V} (a : VAt s h false nr hf v) :
    VAt s h true nr hf (Votor.step v (.cert .notar s h)) := by
  have hfu := a.fu_le
  have hst : Votor.step v (.cert .notar s h) =
      (((((v.logEv (.cert .notar s h)).upd s (fun st => { st with blockNotarized := some h })).emit (.final s)).upd s
        (fun st => { st with retired := true })).emit (.cert .notar s h)) := by
    unfold Votor.step
    rw [if_neg (by rw [a.alive]; simp)]
    have hign : (v.logEv (.cert .notar s h)).ignores (.cert .notar s h) = false := by
      show decide (s < v.firstUnpruned) = false
      simp; omega
    simp only [hign, Bool.false_eq_true, if_false]
    show (V.tryFinal _ s h).emit _ = _
    congr 1
    unfold V.tryFinal
    rw [if_neg (by show ¬ s < v.firstUnpruned; omega)]
    simp only [getS_upd_self, logEv_getS]
    rw [if_pos ⟨trivial, a.votedNotar, a.good⟩]
  rw [hst]
  refine ⟨a.alive, by simpa using a.hfcs, ?_, ?_, ?_, ?_, ?_, ?_, ?_, ?_⟩
  · simpa using a.voted
  · simpa using a.votedNotar
  · simpa using a.good
  · simp
  · intro t ht
    simp only [emit_getS]
    rw [getS_upd_ne _ _ _ _ (by omega)]
    simp only [emit_getS]
    rw [getS_upd_ne _ _ _ _ (by omega)]
    exact a.fresh t ht
  · apply NoPending.emit
    apply NoPending.upd
    · apply NoPending.emit
      apply NoPending.upd
      · exact a.noPending
      · exact a.noPending.getS s
    · simp only [emit_getS, getS_upd_self, logEv_getS]
      exact a.noPending.getS s
  · intro j
    show votesOf s j (.out (.cert .notar s h) :: .out (.final s) :: .ev (.cert .notar s h) :: v.log) = _
    rw [votesOf_cons_out, votesOf_cons_out, votesOf_cons_ev, a.votes j]
    simp [voteOfOut]
  · intro hn
    simp only [emit_getS]
    rw [getS_upd_ne _ _ _ _ (by omega)]
    simp only [emit_getS]
    rw [getS_upd_ne _ _ _ _ (by omega)]
    exact a.next hn

/-- a finalization or fast-finalization certificate of slot `s` -/
theorem step_cert_raise {s h h' : Nat} {fv nr hf : Bool} {v : V} (a : VAt s h fv nr hf v) (k : CertKind)
    (hk : k = .final ∨ k = .fastFinal) : VAt s h fv nr true (Votor.step v (.cert k s h')) := by
  have hfu := a.fu_le
  have hle := a.hfcs_le
  have hmax : max v.hfcs s = s := Nat.max_eq_right hle
  have hst : Votor.step v (.cert k s h') =
      (({ ((v.logEv (.cert k s h')).emit (.timer (firstInWindow s))) with hfcs := s } : V).prune).emit (.cert k s h') := by
    unfold Votor.step
    rw [if_neg (by rw [a.alive]; simp)]
    have hign : (v.logEv (.cert k s h')).ignores (.cert k s h') = false := by
      show decide (s < v.firstUnpruned) = false
      simp; omega
    simp only [hign, Bool.false_eq_true, if_false]
    rcases hk with rfl | rfl
    · show (V.prune { (V.setTimeouts _ (firstInWindow s)) with hfcs := max (V.setTimeouts _ (firstInWindow s)).hfcs s }).emit _ = _
      unfold V.setTimeouts
      rw [if_pos (firstInWindow_mod s)]
      simp only [emit_hfcs, logEv_hfcs, hmax]
    · show (V.prune { (V.setTimeouts _ (firstInWindow s)) with hfcs := max (V.setTimeouts _ (firstInWindow s)).hfcs s }).emit _ = _
      unfold V.setTimeouts
      rw [if_pos (firstInWindow_mod s)]
      simp only [emit_hfcs, logEv_hfcs, hmax]
  rw [hst]
  have hfu' : ({ ((v.logEv (.cert k s h')).emit (.timer (firstInWindow s))) with hfcs := s } : V).firstUnpruned = firstInWindow s := rfl
  have hg : ∀ t, s ≤ t → (({ ((v.logEv (.cert k s h')).emit (.timer (firstInWindow s))) with hfcs := s } : V).prune).getS t = v.getS t := by
    intro t ht
    rw [getS_prune _ _ (by rw [hfu']; exact Nat.le_trans (firstInWindow_le s) ht)]
    rfl
  refine ⟨a.alive, rfl, ?_, ?_, ?_, ?_, ?_, ?_, ?_, ?_⟩
  · simp only [emit_getS]; rw [hg s (Nat.le_refl _)]; exact a.voted
  · simp only [emit_getS]; rw [hg s (Nat.le_refl _)]; exact a.votedNotar
  · simp only [emit_getS]; rw [hg s (Nat.le_refl _)]; exact a.good
  · simp only [emit_getS]; rw [hg s (Nat.le_refl _)]; exact a.notarized
  · intro t ht
    simp only [emit_getS]; rw [hg t (by omega)]; exact a.fresh t ht
  · apply NoPending.emit
    apply NoPending.prune
    exact a.noPending
  · intro j
    show votesOf s j (.out (.cert k s h') :: .out (.timer (firstInWindow s)) :: .ev (.cert k s h') :: v.log) = _
    rw [votesOf_cons_out, votesOf_cons_out, votesOf_cons_ev, a.votes j]
    simp [voteOfOut]
  · intro hn
    simp only [emit_getS]; rw [hg (s + 1) (by omega)]; exact a.next hn

/-- slot `s` is done: ready for slot `s + 1` with parent `(s, h)` -/
theorem VAt.ready_next {s h : Nat} {fv nr : Bool} {v : V} (a : VAt s h fv nr true v) (hn : (s + 1) % W = 0 → nr = true) :
    VReady (s + 1) (s, h) v := by
  have hh : v.hfcs = s := by simpa using a.hfcs
  refine ⟨a.alive, by omega, fun t ht => a.fresh t (by omega), a.noPending, fun hw => a.next (hn hw),
    fun _ => ⟨rfl, a.votedNotar⟩, ?_, hh⟩
  intro j
  rw [votesOf_succ, a.votes j]
  cases fv <;> simp

/-! ### a silent leader: timeouts -/

/-- has skipped the slots `s ≤ t < E`; `nr`: has handled `ParentReady(E, p)` -/
structure VSkipped (s E : Nat) (p : Nat × Nat) (nr : Bool) (v : V) : Prop where
  alive : v.panicked = false
  hfcs : v.hfcs < s
  voted : ∀ t, s ≤ t → t < E → (v.getS t).voted = true
  unretired : ∀ t, s ≤ t → (v.getS t).retired = false
  fresh : ∀ t, E ≤ t → FreshS (v.getS t)
  noPending : NoPending v
  votes : ∀ j, votesOf s j v.log = (List.range' s (E - s)).map (fun t => (⟨.skip, t, 0, j⟩ : Pool.Vote))
  next : nr = true → (v.getS E).parentsReady.contains p = true
  hfcsEq : v.hfcs = p.1

theorem NoPending.skipSlots : ∀ (l : List Nat) {v : V}, NoPending v → NoPending (v.skipSlots l) := by
  intro l
  induction l with
  | nil => intro v h; exact h
  | cons t rest ih =>
    intro v h
    unfold V.skipSlots
    split
    · exact ih h
    · apply ih
      apply NoPending.emit
      apply NoPending.upd h
      exact h.getS t

/-- `skipSlots` over the ascending slots `a, a+1, …, a+n-1`, none of which at or above `s` is voted: skip votes for exactly
    those at or above `s` enter the log (as far as votes for slots `≥ s` are concerned), in order, and they are marked voted -/
theorem skipSlots_spec (s : Nat) : ∀ (n a : Nat) (v : V), (∀ t, s ≤ t → a ≤ t → (v.getS t).voted = false) →
    (∀ j, votesOf s j (v.skipSlots (List.range' a n)).log =
      votesOf s j v.log ++ ((List.range' a n).filter (fun t => decide (s ≤ t))).map (fun t => (⟨.skip, t, 0, j⟩ : Pool.Vote))) ∧
    (∀ t, a ≤ t → t < a + n → s ≤ t → ((v.skipSlots (List.range' a n)).getS t).voted = true) ∧
    (∀ t, ((v.skipSlots (List.range' a n)).getS t).retired = (v.getS t).retired) ∧
    (∀ t, a + n ≤ t → (v.skipSlots (List.range' a n)).getS t = v.getS t) ∧
    (∀ t, (v.getS t).voted = true → ((v.skipSlots (List.range' a n)).getS t).voted = true) := by
  intro n
  induction n with
  | zero =>
    intro a v _
    refine ⟨fun j => by simp [V.skipSlots], fun t h1 h2 => by omega, fun t => rfl, fun t _ => rfl, fun t h => h⟩
  | succ n ih =>
    intro a v hv
    rw [List.range'_succ]
    unfold V.skipSlots
    split
    · rename_i hvoted
      have hlt : a < s := by
        by_cases h : s ≤ a
        · rw [hv a h (Nat.le_refl _)] at hvoted; cases hvoted
        · omega
      obtain ⟨i1, i2, i3, i4, i5⟩ := ih (a + 1) v (fun t h1 h2 => hv t h1 (by omega))
      refine ⟨?_, ?_, i3, fun t ht => i4 t (by omega), i5⟩
      · intro j
        rw [i1 j, List.filter_cons]
        have : decide (s ≤ a) = false := by simp; omega
        simp [this]
      · intro t h1 h2 h3
        exact i2 t (by omega) (by omega) h3
    · rename_i hvoted
      have hw : ∀ t, t ≠ a → ((v.upd a (fun st => { st with voted := true, badWindow := true })).emit (.skip a)).getS t = v.getS t := by
        intro t hne
        simp only [emit_getS]
        exact getS_upd_ne _ _ _ _ (Ne.symm hne)
      have hwa : (((v.upd a (fun st => { st with voted := true, badWindow := true })).emit (.skip a)).getS a).voted = true := by
        simp
      obtain ⟨i1, i2, i3, i4, i5⟩ := ih (a + 1) ((v.upd a (fun st => { st with voted := true, badWindow := true })).emit (.skip a))
        (fun t h1 h2 => by rw [hw t (by omega)]; exact hv t h1 (by omega))
      refine ⟨?_, ?_, ?_, ?_, ?_⟩
      · intro j
        rw [i1 j]
        show votesOf s j (.out (.skip a) :: v.log) ++ _ = _
        rw [votesOf_cons_out, List.filter_cons]
        by_cases hsa : s ≤ a <;> simp [voteOfOut, hsa]
      · intro t h1 h2 h3
        by_cases hta : t = a
        · subst hta; exact i5 t hwa
        · exact i2 t (by omega) (by omega) h3
      · intro t
        rw [i3 t]
        by_cases hta : t = a
        · subst hta; simp
        · rw [hw t hta]
      · intro t ht
        rw [i4 t (by omega), hw t (by omega)]
      · intro t ht
        apply i5
        by_cases hta : t = a
        · subst hta; exact hwa
        · rw [hw t hta]; exact ht

theorem filter_ge_range' (a n s : Nat) (h1 : a ≤ s) (h2 : s ≤ a + n) :
    (List.range' a n).filter (fun t => decide (s ≤ t)) = List.range' s (a + n - s) := by
  have hsplit : List.range' a n = List.range' a (s - a) ++ List.range' s (a + n - s) := by
    have := List.range'_append_1 (s := a) (m := s - a) (n := a + n - s)
    rw [show a + (s - a) = s by omega, show s - a + (a + n - s) = n by omega] at this
    exact this.symm
  rw [hsplit, List.filter_append]
  have e1 : (List.range' a (s - a)).filter (fun t => decide (s ≤ t)) = [] := by
    rw [List.filter_eq_nil_iff]
    intro x hx
    rw [List.mem_range'_1] at hx
    simp; omega
  have e2 : (List.range' s (a + n - s)).filter (fun t => decide (s ≤ t)) = List.range' s (a + n - s) := by
    rw [List.filter_eq_self]
    intro x hx
    rw [List.mem_range'_1] at hx
    simp; omega
  rw [e1, e2, List.nil_append]

theorem lt_window_end (s : Nat) : s < firstInWindow s + W := by
  simp only [firstInWindow, W, Gen.SLOTS_PER_WINDOW]; omega

theorem window_end_mod (s : Nat) : (firstInWindow s + W) % W = 0 := by
  simp only [firstInWindow, W, Gen.SLOTS_PER_WINDOW]; omega

/-- the timeout of slot `s` fires at a Votor that is ready for `s`: it skips the rest of the window -/
theorem step_timeout {s : Nat} {p : Nat × Nat} {v : V} (r : VReady s p v) :
    VSkipped s (firstInWindow s + W) p false (Votor.step v (.timeout s)) := by
  have hfu : v.firstUnpruned ≤ s := Nat.le_trans (fu_le_hfcs v) (Nat.le_of_lt r.hfcs)
  obtain ⟨f1, f2, f3, f4, f5, f6⟩ := r.fresh s (Nat.le_refl _)
  have hst : Votor.step v (.timeout s) = (v.logEv (.timeout s)).skipSlots (List.range' (firstInWindow s) W) := by
    unfold Votor.step
    rw [if_neg (by rw [r.alive]; simp)]
    have hign : (v.logEv (.timeout s)).ignores (.timeout s) = false := by
      show (decide (s ≤ v.hfcs) || (v.getS s).retired) = false
      rw [f6]; simp; exact r.hfcs
    simp only [hign, Bool.false_eq_true, if_false]
    show (if ((v.logEv _).getS s).voted = true then _ else _) = _
    have hv0 : ((v.logEv (.timeout s)).getS s).voted = false := f1
    rw [hv0]
    simp only [Bool.false_eq_true, if_false]
    unfold V.trySkipWindow
    rw [if_neg (by show ¬ s < v.firstUnpruned; omega)]
    rfl
  obtain ⟨i1, i2, i3, i4, _⟩ := skipSlots_spec s W (firstInWindow s) (v.logEv (.timeout s))
    (fun t h1 _ => (r.fresh t h1).1)
  rw [hst]
  refine ⟨by rw [skipSlots_panicked]; exact r.alive, by simpa using r.hfcs, ?_, ?_, ?_, ?_, ?_, (by intro h; cases h),
    by simpa using r.hfcsEq⟩
  · intro t h1 h2
    exact i2 t (Nat.le_trans (firstInWindow_le s) h1) h2 h1
  · intro t ht
    rw [i3 t]; exact (r.fresh t ht).2.2.2.2.2
  · intro t ht
    rw [i4 t ht]
    exact r.fresh t (by have := lt_window_end s; omega)
  · exact NoPending.skipSlots _ (r.noPending.logEv _)
  · intro j
    rw [i1 j, filter_ge_range' _ _ _ (firstInWindow_le s) (Nat.le_of_lt (lt_window_end s))]
    show votesOf s j (.ev (.timeout s) :: v.log) ++ _ = _
    rw [votesOf_cons_ev, r.quiet j, List.nil_append]

/-- a later timeout of the window finds the slot voted: nothing happens -/
theorem step_timeout_voted {s E t : Nat} {p : Nat × Nat} {nr : Bool} {v : V} (a : VSkipped s E p nr v) (h1 : s ≤ t) (h2 : t < E) :
    VSkipped s E p nr (Votor.step v (.timeout t)) := by
  have hst : Votor.step v (.timeout t) = v.logEv (.timeout t) := by
    unfold Votor.step
    rw [if_neg (by rw [a.alive]; simp)]
    dsimp only
    split
    · rfl
    · show (if ((v.logEv _).getS t).voted = true then _ else _) = _
      have : ((v.logEv (.timeout t)).getS t).voted = true := a.voted t h1 h2
      rw [if_pos this]
  rw [hst]
  refine ⟨a.alive, a.hfcs, a.voted, a.unretired, a.fresh, a.noPending, ?_, a.next, a.hfcsEq⟩
  intro j
  show votesOf s j (.ev (.timeout t) :: v.log) = _
  rw [votesOf_cons_ev, a.votes j]

theorem step_cert_skip {s E t h' : Nat} {p : Nat × Nat} {nr : Bool} {v : V} (a : VSkipped s E p nr v) (h1 : s ≤ t) :
    VSkipped s E p nr (Votor.step v (.cert .skip t h')) := by
  have hfu : v.firstUnpruned ≤ s := Nat.le_trans (fu_le_hfcs v) (Nat.le_of_lt a.hfcs)
  have hst : Votor.step v (.cert .skip t h') = (v.logEv (.cert .skip t h')).emit (.cert .skip t h') := by
    unfold Votor.step
    rw [if_neg (by rw [a.alive]; simp)]
    have hign : (v.logEv (.cert .skip t h')).ignores (.cert .skip t h') = false := by
      show decide (t < v.firstUnpruned) = false
      simp; omega
    simp only [hign, Bool.false_eq_true, if_false]
    rfl
  rw [hst]
  refine ⟨a.alive, a.hfcs, a.voted, a.unretired, a.fresh, a.noPending, ?_, a.next, a.hfcsEq⟩
  intro j
  show votesOf s j (.out (.cert .skip t h') :: .ev (.cert .skip t h') :: v.log) = _
  rw [votesOf_cons_out, votesOf_cons_ev, a.votes j]
  simp [voteOfOut]

theorem step_parentReady_skipped {s E : Nat} {p : Nat × Nat} {nr : Bool} {v : V} (a : VSkipped s E p nr v) (hw : E % W = 0)
    (hsE : s ≤ E) : VSkipped s E p true (Votor.step v (.parentReady E p.1 p.2)) := by
  have hfu : v.firstUnpruned ≤ s := Nat.le_trans (fu_le_hfcs v) (Nat.le_of_lt a.hfcs)
  obtain ⟨f1, f2, f3, f4, f5, f6⟩ := a.fresh E (Nat.le_refl _)
  have hnp : NoPending ((v.logEv (.parentReady E p.1 p.2)).upd E
      (fun st => { st with parentsReady := insertParent st.parentsReady (p.1, p.2) })) := by
    apply NoPending.upd
    · exact a.noPending
    · exact f5
  have hst : Votor.step v (.parentReady E p.1 p.2) =
      (((v.logEv (.parentReady E p.1 p.2)).upd E
        (fun st => { st with parentsReady := insertParent st.parentsReady (p.1, p.2) })).emit (.timer E)) := by
    unfold Votor.step
    rw [if_neg (by rw [a.alive]; simp)]
    have hign : (v.logEv (.parentReady E p.1 p.2)).ignores (.parentReady E p.1 p.2) = false := by
      show (decide (E < v.firstUnpruned) || (v.getS E).retired) = false
      rw [f6]; simp; omega
    simp only [hign, Bool.false_eq_true, if_false]
    show (V.checkPending _).setTimeouts E = _
    rw [hnp.checkPending]
    unfold V.setTimeouts
    rw [if_pos hw]
  rw [hst]
  refine ⟨a.alive, by simpa using a.hfcs, ?_, ?_, ?_, hnp, ?_, ?_, by simpa using a.hfcsEq⟩
  · intro t h1 h2
    simp only [emit_getS]; rw [getS_upd_ne _ _ _ _ (by omega)]; exact a.voted t h1 h2
  · intro t h1
    simp only [emit_getS]
    rw [getS_upd]
    split
    · rename_i e; subst e; exact f6
    · exact a.unretired t h1
  · intro t ht
    simp only [emit_getS]
    rw [getS_upd]
    split
    · rename_i e; subst e; exact ⟨f1, f2, f3, f4, f5, f6⟩
    · exact a.fresh t ht
  · intro j
    show votesOf s j (.out (.timer E) :: .ev (.parentReady E p.1 p.2) :: v.log) = _
    rw [votesOf_cons_out, votesOf_cons_ev, a.votes j]
    simp [voteOfOut]
  · intro _
    simp only [emit_getS, getS_upd_self, logEv_getS]
    exact contains_insertParent _ _

/-- the window is skipped: ready for the first slot of the next window, with the same parent -/
theorem VSkipped.ready_next {s E : Nat} {p : Nat × Nat} {v : V} (a : VSkipped s E p true v) (hw : E % W = 0) (hsE : s < E) :
    VReady E p v := by
  refine ⟨a.alive, by have := a.hfcs; omega, a.fresh, a.noPending, fun _ => a.next rfl, fun h => absurd hw h, ?_, a.hfcsEq⟩
  intro j
  have hv := a.votes j
  simp only [votesOf] at hv ⊢
  rw [List.filter_eq_nil_iff]
  intro x hx hd
  simp only [decide_eq_true_eq] at hd
  have hx' : x ∈ ((outsOf v.log).filterMap (voteOfOut j)).filter (fun v => decide (s ≤ v.slot)) :=
    List.mem_filter.mpr ⟨hx, by simp; omega⟩
  rw [hv] at hx'
  obtain ⟨t, ht, rfl⟩ := List.mem_map.mp hx'
  rw [List.mem_range'_1] at ht
  simp only at hd
  omega

end AgModel.Cluster
