import AgModel.Proofs.FinalityStep
/-!
# Whole runs of the tracker: cumulative reports vs. the naive closure of the history
-/
namespace AgModel.Finality

/-- all blocks reported finalized (directly or implicitly) by a list of events, in order -/
def repF (evs : List Event) : List (Nat × Nat) := evs.flatMap evF
/-- all slots reported implicitly skipped -/
def repS (evs : List Event) : List Nat := evs.flatMap (·.implSkipped)

theorem repF_snoc (evs : List Event) (ev : Event) : repF (evs ++ [ev]) = repF evs ++ evF ev := by
  simp [repF, List.flatMap_append]
theorem repS_snoc (evs : List Event) (ev : Event) : repS (evs ++ [ev]) = repS evs ++ ev.implSkipped := by
  simp [repS, List.flatMap_append]

structure RunInv (H : List Op) (t : Tracker) (evs : List Event) : Prop where
  rel : Rel H t
  inv : Inv t
  hiAtt : t.highest = 0 ∨ ∃ b, Final H b ∧ b.1 = t.highest
  repFin : ∀ s h, t.first ≤ s → ((s, h) ∈ repF evs ↔ finalHash (t.status s) = some h)
  repSkip : ∀ s, t.first ≤ s → (s ∈ repS evs ↔ t.status s = some .implSkipped)
  below : ∀ s, 1 ≤ s → s < t.first → (s ∈ repS evs ∨ ∃ h, (s, h) ∈ repF evs)
  soundF : ∀ b, b ∈ repF evs → Final H b
  soundS : ∀ s, s ∈ repS evs → Skip H s
  nodupF : ((repF evs).map (·.1)).Nodup
  nodupS : (repS evs).Nodup
  next : ¬ Dec (t.status (t.first + 1))

theorem skipped_of_dec {o : Option Status} (d : Dec o) (e : finalHash o = none) : o = some .implSkipped := by
  rcases dec_cases d with ⟨h, e'⟩ | e'
  · rw [e] at e'; cases e'
  · exact e'

theorem runInv_init : RunInv [] init [] := by
  refine ⟨rel_init, inv_init, Or.inl rfl, ?_, ?_, ?_, ?_, ?_, List.nodup_nil, List.nodup_nil, ?_⟩
  rotate_right
  · intro ⟨x, hx, hd⟩; cases hx
  · intro s h _
    constructor
    · intro a; cases a
    · intro a
      exfalso
      by_cases hs : s = 0
      · subst hs; cases a
      · have : init.status s = none := by simp only [init, hs, if_false]
        rw [this] at a; cases a
  · intro s _
    constructor
    · intro a; cases a
    · intro a
      exfalso
      by_cases hs : s = 0
      · subst hs; cases a
      · have : init.status s = none := by simp only [init, hs, if_false]
        rw [this] at a; cases a
  · intro s _ h; simp only [init] at h; omega
  · intro b h; cases h
  · intro s h; cases h

/-- one operation -/
theorem runInv_step {H : List Op} {t : Tracker} {evs : List Event} (ri : RunInv H t evs)
    {op : Op} {t' : Tracker} {ev : Event} (h : step t op = .ok t' ev)
    (r' : Rel (H ++ [op]) t') (snd : EvSound (H ++ [op]) ev) : RunInv (H ++ [op]) t' (evs ++ [ev]) := by
  obtain ⟨m, me, hm⟩ := step_mid h
  have sp := me.spec
  have hs : Sub H (H ++ [op]) := sub_append_left H op
  -- `t'` relative to `m`
  have hA : t.first ≤ t'.first := by
    rcases hm with ⟨e, _⟩ | e
    · rw [e, me.first]; exact Nat.le_refl _
    · rw [e, ← me.first]; exact prune_first_ge m
  have hB : ∀ s, t'.first ≤ s → t'.status s = m.status s := by
    intro s a
    rcases hm with ⟨e, _⟩ | e
    · rw [e]
    · rw [e] at a ⊢; exact prune_status_ge a
  have hC : ∀ s, t.first < s → s ≤ t'.first → Dec (m.status s) := by
    intro s a b
    rcases hm with ⟨e, _⟩ | e
    · rw [e, me.first] at b; omega
    · rw [e] at b; rw [← me.first] at a
      exact prune_only_decided m s a b
  have hge : ∀ x, Dec (m.status x) → ¬ Dec (t.status x) → t.first ≤ x := by
    intro x d n
    by_cases hx : x < t.first
    · rw [me.low x hx] at d; exact absurd d n
    · omega
  have inv' := (step_spec ri.inv h).inv
  have hhi : t'.highest = 0 ∨ ∃ b, Final (H ++ [op]) b ∧ b.1 = t'.highest := by
    have e1 : t'.highest = m.highest := by
      rcases hm with ⟨e, _⟩ | e
      · rw [e]
      · rw [e]; rfl
    have old : t.highest = 0 ∨ ∃ b, Final (H ++ [op]) b ∧ b.1 = t.highest :=
      ri.hiAtt.elim Or.inl (fun ⟨b, hb, e⟩ => Or.inr ⟨b, hb.mono hs, e⟩)
    rcases me.hi with e2 | ⟨b, hb, e2⟩
    · rw [e1, e2]; exact old
    · by_cases c : b.1 ≤ t.highest
      · rw [e1, e2, Nat.max_eq_right c]; exact old
      · right
        exact ⟨b, snd.1 b hb, by rw [e1, e2]; omega⟩
  refine ⟨r', inv', hhi, ?_, ?_, ?_, ?_, ?_, ?_, ?_, ?_⟩
  rotate_right
  · rcases hm with ⟨e, e2⟩ | e
    · intro d
      rw [e, me.first] at d
      by_cases d0 : Dec (t.status (t.first + 1))
      · exact ri.next d0
      · rw [e2] at sp
        rcases sp.new _ d0 d with x | ⟨_, x⟩ <;> cases x
    · intro d
      have hd : Dec (m.status ((prune m).first + 1)) := by
        rw [e] at d
        rwa [prune_status_ge (Nat.le_succ _)] at d
      have hle := inv'.dec_le _ d
      rw [e] at hle
      have hle' : (prune m).first + 1 ≤ m.highest := hle
      have hge := advance_ge m.status (m.highest - m.first) m.first
      have : advance m.status (m.highest - m.first) m.first < m.first + (m.highest - m.first) := by
        have : (prune m).first = advance m.status (m.highest - m.first) m.first := rfl
        omega
      exact advance_stop m.status _ m.first this hd
  · intro s hh a
    have a0 : t.first ≤ s := by omega
    rw [repF_snoc, List.mem_append, hB s a]
    constructor
    · rintro (x | x)
      · have e := (ri.repFin s hh a0).mp x
        exact (sp.stable s (dec_of_finalHash e)).2.trans e
      · exact (sp.fin _ x).2
    · intro e
      by_cases d : Dec (t.status s)
      · left
        exact (ri.repFin s hh a0).mpr ((sp.stable s d).2.symm.trans e)
      · right
        rcases sp.new s d (dec_of_finalHash e) with x | ⟨h2, x⟩
        · rw [(sp.skip s x).2] at e; cases e
        · have := (sp.fin _ x).2
          have e2 : finalHash (m.status s) = some h2 := this
          rw [e] at e2
          cases e2; exact x
  · intro s a
    have a0 : t.first ≤ s := by omega
    rw [repS_snoc, List.mem_append, hB s a]
    constructor
    · rintro (x | x)
      · have e := (ri.repSkip s a0).mp x
        have ⟨d, fh⟩ := sp.stable s (e ▸ dec_skipped)
        rw [e] at fh
        exact skipped_of_dec d fh
      · exact (sp.skip s x).2
    · intro e
      by_cases d : Dec (t.status s)
      · left
        have fh := (sp.stable s d).2
        rw [e] at fh
        exact (ri.repSkip s a0).mpr (skipped_of_dec d fh.symm)
      · right
        rcases sp.new s d (e ▸ dec_skipped) with x | ⟨h2, x⟩
        · exact x
        · have := (sp.fin _ x).2
          have e2 : finalHash (m.status s) = some h2 := this
          rw [e] at e2; cases e2
  · intro s a b
    rw [repF_snoc, repS_snoc]
    have old : Dec (t.status s) → t.first ≤ s →
        (s ∈ repS evs ++ ev.implSkipped ∨ ∃ h, (s, h) ∈ repF evs ++ evF ev) := by
      intro d a0
      rcases dec_cases d with ⟨hh, e⟩ | e
      · exact Or.inr ⟨hh, List.mem_append_left _ ((ri.repFin s hh a0).mpr e)⟩
      · exact Or.inl (List.mem_append_left _ ((ri.repSkip s a0).mpr e))
    by_cases c1 : s < t.first
    · rcases ri.below s a c1 with x | ⟨hh, x⟩
      · exact Or.inl (List.mem_append_left _ x)
      · exact Or.inr ⟨hh, List.mem_append_left _ x⟩
    · by_cases d : Dec (t.status s)
      · exact old d (by omega)
      · have c2 : t.first < s := by
          rcases Nat.lt_or_ge t.first s with x | x
          · exact x
          · exfalso
            have : s = t.first := by omega
            subst this
            exact d (ri.rel.wdec a)
        have dm := hC s c2 (by omega)
        rcases sp.new s d dm with x | ⟨h2, x⟩
        · exact Or.inl (List.mem_append_right _ x)
        · exact Or.inr ⟨h2, List.mem_append_right _ x⟩
  · intro b hb
    rw [repF_snoc] at hb
    rcases List.mem_append.mp hb with x | x
    · exact (ri.soundF b x).mono hs
    · exact snd.1 b x
  · intro s hb
    rw [repS_snoc] at hb
    rcases List.mem_append.mp hb with x | x
    · exact (ri.soundS s x).mono hs
    · exact snd.2 s x
  · rw [repF_snoc, List.map_append, List.nodup_append]
    refine ⟨ri.nodupF, sp.nodupF, ?_⟩
    intro x hx y hy e
    obtain ⟨bx, hbx, rfl⟩ := List.mem_map.mp hx
    obtain ⟨by', hby, rfl⟩ := List.mem_map.mp hy
    have ⟨n, fy⟩ := sp.fin by' hby
    have a0 := hge _ (dec_of_finalHash fy) n
    rw [← e] at a0 n
    exact n (dec_of_finalHash ((ri.repFin bx.1 bx.2 a0).mp hbx))
  · rw [repS_snoc, List.nodup_append]
    refine ⟨ri.nodupS, sp.nodupS, ?_⟩
    intro x hx y hy e
    subst e
    have ⟨n, fy⟩ := sp.skip x hy
    have a0 := hge _ (fy ▸ dec_skipped) n
    exact n ((ri.repSkip x a0).mp hx ▸ dec_skipped)


/-- Whole runs: under the safety premise a run never panics and keeps `RunInv`. -/
theorem run_runInv {G : List Op} (sf : Safe G) : ∀ (ops H : List Op) (t : Tracker) (evs0 : List Event),
    RunInv H t evs0 → Sub (H ++ ops) G →
    ∃ t' evs, run t ops = some (t', evs) ∧ RunInv (H ++ ops) t' (evs0 ++ evs) := by
  intro ops
  induction ops with
  | nil =>
    intro H t evs0 ri _
    exact ⟨t, [], rfl, by simpa using ri⟩
  | cons op rest ih =>
    intro H t evs0 ri hsub
    have hsub1 : Sub (H ++ [op]) G := by
      intro o ho
      apply hsub
      rcases List.mem_append.mp ho with a | a
      · exact List.mem_append_left _ a
      · exact List.mem_append_right _ (by
          have : o = op := by simpa using a
          rw [this]; exact List.mem_cons_self)
    obtain ⟨t1, ev, h1, rel1, snd⟩ := step_rel sf hsub1 ri.rel
    have ri1 := runInv_step ri h1 rel1 snd
    have hsub2 : Sub ((H ++ [op]) ++ rest) G := by simpa using hsub
    obtain ⟨t2, evs, h2, ri2⟩ := ih (H ++ [op]) t1 (evs0 ++ [ev]) ri1 hsub2
    refine ⟨t2, ev :: evs, ?_, ?_⟩
    · simp only [run, h1, h2]
    · simpa using ri2

/-- the safety premise is inherited by every sub-history -/
theorem Safe.sub {G H : List Op} (sf : Safe G) (hs : Sub H G) : Safe H where
  link_lt c p h := sf.link_lt c p (h.mono hs)
  link_fun c p p' h h' := sf.link_fun c p p' (h.mono hs) (h'.mono hs)
  final_fun b b' h h' := sf.final_fun b b' (h.mono hs) (h'.mono hs)
  no_final_between c p q h l h' := sf.no_final_between c p q (h.mono hs) (l.mono hs) (h'.mono hs)
  notar_fun b b' h h' := sf.notar_fun b b' (h.mono hs) (h'.mono hs)
  notar_direct b b' h h' := sf.notar_direct b b' (h.mono hs) (h'.mono hs)
  fin_not_skip s h h' := sf.fin_not_skip s (h.mono hs) (h'.mono hs)

theorem run_snoc {t : Tracker} {ops : List Op} {t1 : Tracker} {evs : List Event} {op : Op}
    {t2 : Tracker} {ev : Event} (h1 : run t ops = some (t1, evs)) (h2 : step t1 op = .ok t2 ev) :
    run t (ops ++ [op]) = some (t2, evs ++ [ev]) := by
  induction ops generalizing t evs with
  | nil =>
    simp only [run] at h1
    cases h1
    simp only [List.nil_append, run, h2]
  | cons o rest ih =>
    simp only [run] at h1
    split at h1
    · cases h1
    · rename_i ta eva hs
      split at h1
      · rename_i tb evsb hr
        cases h1
        have := ih hr
        simp only [List.cons_append, run, hs, this]
      · cases h1

/-- `RunInv` of a run from the initial tracker (the run is given) -/
theorem runInv_of_run {ops : List Op} (sf : Safe ops) {t : Tracker} {evs : List Event}
    (h : run init ops = some (t, evs)) : RunInv ops t evs := by
  obtain ⟨t', evs', h', ri⟩ := run_runInv sf ops [] init [] runInv_init (by simpa using Sub.refl ops)
  rw [h] at h'
  cases h'
  simpa using ri

/-! ### consequences of `RunInv` under the safety premise -/

section
variable {H : List Op} (sf : Safe H) {t : Tracker} {evs : List Event} (ri : RunInv H t evs)
include sf ri

theorem RunInv.final_iff (b : Nat × Nat) (hb : 1 ≤ b.1 ∨ t.first = 0) : b ∈ repF evs ↔ Final H b := by
  constructor
  · exact ri.soundF b
  · intro hf
    by_cases hw : t.first ≤ b.1
    · exact (ri.repFin b.1 b.2 hw).mpr (ri.rel.final_complete sf (Sub.refl H) hf hw)
    · have h1 : 1 ≤ b.1 := by omega
      rcases ri.below b.1 h1 (by omega) with x | ⟨h, x⟩
      · exact absurd (ri.soundS _ x) (sf.final_not_skip hf)
      · have := sf.final_fun (b.1, h) b (ri.soundF _ x) hf rfl
        rw [← this]; exact x

theorem RunInv.skip_iff (s : Nat) : s ∈ repS evs ↔ Skip H s := by
  constructor
  · exact ri.soundS s
  · intro hk
    by_cases hw : t.first ≤ s
    · exact (ri.repSkip s hw).mpr (ri.rel.skip_complete sf (Sub.refl H) hk hw)
    · have h1 : 1 ≤ s := by
        obtain ⟨c, p, _, _, a, _⟩ := hk
        omega
      rcases ri.below s h1 (by omega) with x | ⟨h, x⟩
      · exact x
      · exact absurd hk (sf.final_not_skip (b := (s, h)) (ri.soundF _ x))

theorem RunInv.once : ((repF evs).map (·.1) ++ repS evs).Nodup := by
  rw [List.nodup_append]
  refine ⟨ri.nodupF, ri.nodupS, ?_⟩
  intro x hx y hy e
  subst e
  obtain ⟨b, hb, rfl⟩ := List.mem_map.mp hx
  exact sf.final_not_skip (ri.soundF b hb) (ri.soundS _ hy)

/-- a slot is decided according to the history -/
theorem RunInv.dec_iff (s : Nat) (hw : t.first ≤ s) :
    Dec (t.status s) ↔ (Skip H s ∨ ∃ h, Final H (s, h)) := by
  constructor
  · intro d
    rcases dec_cases d with ⟨h, e⟩ | e
    · exact Or.inr ⟨h, slotOK_final (ri.rel.slot s hw) e⟩
    · exact Or.inl (slotOK_skip (ri.rel.slot s hw) e)
  · rintro (hk | ⟨h, hf⟩)
    · rw [ri.rel.skip_complete sf (Sub.refl H) hk hw]; exact dec_skipped
    · exact dec_of_finalHash (ri.rel.final_complete sf (Sub.refl H) hf hw)

/-- the watermark is exactly the end of the decided prefix of the history -/
theorem RunInv.watermark :
    (∀ s, 1 ≤ s → s ≤ t.first → (Skip H s ∨ ∃ h, Final H (s, h))) ∧
    ¬ (Skip H (t.first + 1) ∨ ∃ h, Final H (t.first + 1, h)) := by
  constructor
  · intro s a b
    by_cases c : s < t.first
    · rcases ri.below s a c with x | ⟨h, x⟩
      · exact Or.inl (ri.soundS _ x)
      · exact Or.inr ⟨h, ri.soundF _ x⟩
    · have : s = t.first := by omega
      rw [this] at a ⊢
      exact (ri.dec_iff sf _ (Nat.le_refl _)).mp (ri.rel.wdec a)
  · intro h
    exact ri.next ((ri.dec_iff sf _ (Nat.le_succ _)).mpr h)

end


/-! ### the retained answers are a function of the delivered set -/

/-- the answer of a slot, forgetting whether a block was finalized directly or through a descendant -/
def view : Option Status → Option Status
  | some (.implFinalized h) => some (.finalized h)
  | o => o

theorem view_of_finalHash {o : Option Status} {h : Nat} (e : finalHash o = some h) :
    view o = some (.finalized h) := by
  cases o with
  | none => cases e
  | some x =>
    cases x with
    | notarized _ => cases e
    | finalPending => cases e
    | finalized _ => cases e; rfl
    | implFinalized _ => cases e; rfl
    | implSkipped => cases e

theorem undec_cases {o : Option Status} (n : ¬ Dec o) :
    o = none ∨ (∃ h, o = some (.notarized h)) ∨ o = some .finalPending := by
  cases o with
  | none => exact Or.inl rfl
  | some x =>
    cases x with
    | notarized h => exact Or.inr (Or.inl ⟨h, rfl⟩)
    | finalPending => exact Or.inr (Or.inr rfl)
    | finalized _ => exact absurd (dec_some.mpr rfl) n
    | implFinalized _ => exact absurd (dec_some.mpr rfl) n
    | implSkipped => exact absurd (dec_some.mpr rfl) n

theorem slotOK_congr {H H' : List Op} (hs : Sub H H') (hs' : Sub H' H) {s : Nat} {o : Option Status}
    (ok : SlotOK H' s o) : SlotOK H s o := by
  cases o with
  | none => exact ⟨fun a => ok.1 (a.mono hs), fun h a => ok.2.1 h (a.mono hs), fun h a => ok.2.2 h (a.mono hs)⟩
  | some x =>
    cases x with
    | notarized h => exact ⟨ok.1.mono hs', fun a => ok.2.1 (a.mono hs), fun h a => ok.2.2 h (a.mono hs)⟩
    | finalPending => exact ⟨ok.1.mono hs', fun h a => ok.2.1 h (a.mono hs), fun h a => ok.2.2 h (a.mono hs)⟩
    | finalized h => exact Direct.mono hs' ok
    | implFinalized h => exact Final.mono hs' ok
    | implSkipped => exact Skip.mono hs' ok

theorem view_eq {H H' : List Op} (sf : Safe H) (hs : Sub H H') (hs' : Sub H' H) {t1 t2 : Tracker}
    (r1 : Rel H t1) (r2 : Rel H' t2) (s : Nat) (h1 : t1.first ≤ s) (h2 : t2.first ≤ s) :
    view (t1.status s) = view (t2.status s) := by
  have ok1 := r1.slot s h1
  have ok2 : SlotOK H s (t2.status s) := slotOK_congr hs hs' (r2.slot s h2)
  have cF1 : ∀ h, Final H (s, h) → finalHash (t1.status s) = some h :=
    fun h a => r1.final_complete sf (Sub.refl H) a h1
  have cF2 : ∀ h, Final H (s, h) → finalHash (t2.status s) = some h :=
    fun h a => r2.final_complete sf hs' (a.mono hs) h2
  have cS1 : Skip H s → t1.status s = some .implSkipped := fun a => r1.skip_complete sf (Sub.refl H) a h1
  have cS2 : Skip H s → t2.status s = some .implSkipped := fun a => r2.skip_complete sf hs' (a.mono hs) h2
  by_cases d1 : Dec (t1.status s)
  · rcases dec_cases d1 with ⟨h, e⟩ | e
    · rw [view_of_finalHash e, view_of_finalHash (cF2 h (slotOK_final ok1 e))]
    · rw [e, cS2 (slotOK_skip ok1 e)]
  by_cases d2 : Dec (t2.status s)
  · rcases dec_cases d2 with ⟨h, e⟩ | e
    · rw [view_of_finalHash e, view_of_finalHash (cF1 h (slotOK_final ok2 e))]
    · rw [e, cS1 (slotOK_skip ok2 e)]
  rcases undec_cases d1 with e1 | ⟨x1, e1⟩ | e1 <;> rcases undec_cases d2 with e2 | ⟨x2, e2⟩ | e2 <;>
    rw [e1] at ok1 <;> rw [e2] at ok2 <;> rw [e1, e2]
  · exact absurd ok2.1 (ok1.2.1 x2)
  · exact absurd ok2.1 ok1.1
  · exact absurd ok1.1 (ok2.2.1 x1)
  · have := sf.notar_fun (s, x1) (s, x2) ok1.1 ok2.1 rfl
    cases this; rfl
  · exact absurd ok1.1 (ok2.2.1 x1)
  · exact absurd ok1.1 ok2.1
  · exact absurd ok2.1 (ok1.2.1 x2)

/-- two runs over the same delivered set end with the same watermark -/
theorem first_eq {H H' : List Op} (sf : Safe H) (hs : Sub H H') (hs' : Sub H' H) {t1 t2 : Tracker}
    {evs1 evs2 : List Event} (r1 : RunInv H t1 evs1) (r2 : RunInv H' t2 evs2) : t1.first = t2.first := by
  have sf' : Safe H' := sf.sub hs'
  have w1 := r1.watermark sf
  have w2 := r2.watermark sf'
  have tr : ∀ s, (Skip H s ∨ ∃ h, Final H (s, h)) ↔ (Skip H' s ∨ ∃ h, Final H' (s, h)) := by
    intro s
    constructor
    · rintro (a | ⟨h, a⟩)
      · exact Or.inl (a.mono hs)
      · exact Or.inr ⟨h, a.mono hs⟩
    · rintro (a | ⟨h, a⟩)
      · exact Or.inl (a.mono hs')
      · exact Or.inr ⟨h, a.mono hs'⟩
  rcases Nat.lt_trichotomy t1.first t2.first with h | h | h
  · exact absurd ((tr _).mpr (w2.1 (t1.first + 1) (by omega) (by omega))) w1.2
  · exact h
  · exact absurd ((tr _).mp (w1.1 (t2.first + 1) (by omega) (by omega))) w2.2

end AgModel.Finality
