import AgModel.Proofs.ClusterStake
import AgModel.Proofs.PoolReady
import AgModel.Proofs.SpecLog
/-!
# C01 cluster refinement: the `ParentReady` events of a valid run are justified (weak form)

`tpOf c s` instantiates the abstract predicates of `Proofs/PoolReady.lean` on the history derived from the cluster state
`s`: a block is *in the log* when it is an ancestor of a block finalized on the history, a slot is a *gap* when it lies
strictly between a block of the log and its parent; a parent is acceptable (`CP`) when it is certified **or in the log**,
a slot may be skipped over (`SP`) when it is skip-certified **or a gap**. `RInv`: in every state of a valid run every pool's
trackers satisfy the tracker invariants for these predicates and every queued `ParentReady` event is justified in this weak
form. (The strong form of `Spec.Rules` R5 — certified, skip-certified — follows in `Props/C01Cluster.lean` by induction on
the run, using the safety hypotheses for the prefix: `Proofs/SpecLog.lean`.)
-/
namespace AgModel.Cluster
open AgModel AgModel.Node AgModel.NodePanic AgModel.Pool AgModel.Spec

/-- the block with a raw id -/
def idBlk (x : ℕ × ℕ) : Blk := Blk.mk' x.1 x.2

theorem idBlk_slot (x : ℕ × ℕ) : (idBlk x).slot = x.1 := Blk.mk'_slot _ _

theorem parent_idBlk (c : Cfg) (x p : ℕ × ℕ) (hp : c.parentOf x = p) (hlt : p.1 < x.1) :
    (chainOf c).parent (idBlk x) = idBlk p := by
  have h0 : x.1 ≠ 0 := by omega
  show parentBlk c (idBlk x) = idBlk p
  unfold parentBlk
  rw [idBlk_slot, if_neg h0]
  have hh : (idBlk x).hash = x.2 := Blk.mk'_hash _ _ h0
  rw [hh, show (x.1, x.2) = x from rfl, hp, if_pos hlt]
  rfl

theorem idBlk_ne_genesis (c : Cfg) (x : ℕ × ℕ) (h0 : x.1 ≠ 0) : idBlk x ≠ (chainOf c).genesis := by
  intro e
  have := congrArg Blk.slot e
  rw [idBlk_slot] at this
  exact h0 this

/-- the abstract predicates on the history derived from state `s` -/
def tpOf (c : Cfg) (s : State) : TP where
  F := {
    par := c.parentOf
    L := fun b => InLog (stakeFn c) (chainOf c) (histOf c s) (idBlk b)
    G := fun u => Gap (stakeFn c) (chainOf c) (histOf c s) u
    N := fun b => NotarCert (stakeFn c) (histOf c s) (idBlk b)
    Fc := fun t => FinalCert (stakeFn c) (histOf c s) t
    direct := by
      intro b hn hf
      refine ⟨idBlk b, Or.inr ⟨?_, hn⟩, Anc.refl⟩
      show FinalCert (stakeFn c) (histOf c s) (idBlk b).slot
      rw [idBlk_slot]; exact hf
    down := by
      intro x p hl hp hlt
      have h0 : x.1 ≠ 0 := by omega
      have hg := idBlk_ne_genesis c x h0
      have hpar := parent_idBlk c x p hp hlt
      refine ⟨?_, ?_⟩
      · have := inLog_parent (idBlk x) hl hg
        rw [hpar] at this; exact this
      · intro u h1 h2
        refine ⟨idBlk x, hl, hg, ?_, ?_⟩
        · rw [hpar]; show (idBlk p).slot < u; rw [idBlk_slot]; exact h1
        · show u < (idBlk x).slot; rw [idBlk_slot]; exact h2 }
  CP := fun b => Certified (stakeFn c) (chainOf c) (histOf c s) (idBlk b) ∨ InLog (stakeFn c) (chainOf c) (histOf c s) (idBlk b)
  SP := fun u => SkipCert (stakeFn c) (histOf c s) u ∨ Gap (stakeFn c) (chainOf c) (histOf c s) u
  cpL := fun _ h => Or.inr h
  spG := fun _ h => Or.inr h

/-! ### monotonicity along the run -/

theorem histOf_le (c : Cfg) (s s' : State)
    (h : ∀ j o, Votor.Item.out o ∈ (s j).votor.log → Votor.Item.out o ∈ (s' j).votor.log) : HLe (histOf c s) (histOf c s') := by
  constructor
  · intro v b hx hc
    rcases hx hc with a | ⟨ps, ph, a⟩
    · exact Or.inl a
    · exact Or.inr ⟨ps, ph, h _ _ a⟩
  · intro v b hx hc; exact h _ _ (hx hc)
  · intro v t hx hc; exact h _ _ (hx hc)
  · intro v t hx hc; exact h _ _ (hx hc)
  · intro v t hx hc; exact h _ _ (hx hc)

theorem histOf_le_step (c : Cfg) (s : State) (ev : Ev) : HLe (histOf c s) (histOf c (step s ev)) :=
  histOf_le c s _ (fun j o h => step_out_mono s ev j o h)

theorem histOf_le_run (c : Cfg) (s : State) (evs : List Ev) : HLe (histOf c s) (histOf c (run s evs)) :=
  histOf_le c s _ (fun j o h => run_out_mono s evs j o h)

theorem tpOf_le (c : Cfg) (s s' : State) (hl : HLe (histOf c s) (histOf c s')) : (tpOf c s).le (tpOf c s') where
  par := rfl
  L := fun _ h => InLog.mono hl h
  N := fun _ h => NotarCert.mono hl h
  Fc := fun _ h => FinalCert.mono hl h
  CP := fun _ h => h.elim (fun a => Or.inl (Certified.mono hl a)) (fun a => Or.inr (InLog.mono hl a))
  SP := fun _ h => h.elim (fun a => Or.inl (SkipCert.mono hl a)) (fun a => Or.inr (Gap.mono hl a))

/-! ### backed certificates satisfy the predicate of their type -/

theorem certT_of_backed (c : Cfg) (s : State) (i : ℕ) (x : Cert) (hb : CertBacked (sigOf c s) (c.epoch i) x) :
    CertT (tpOf c s) x := by
  have hon := certOn_of_backed c s i x hb
  unfold CertOn at hon
  unfold CertT
  cases hk : x.kind <;> simp only [hk] at hon ⊢
  · exact ⟨hon, Or.inl (Or.inr (nfCert_of_notarCert _ _ _ hon))⟩
  · exact Or.inl (Or.inr hon)
  · exact Or.inl hon
  · exact ⟨idBlk (x.slot, x.hash), Or.inl hon, Anc.refl⟩
  · exact hon

/-! ### the invariant -/

/-- every pool's trackers satisfy the tracker invariants, every queued `ParentReady` event is justified (weak form) -/
def RInv (c : Cfg) (s : State) : Prop :=
  ∀ i, TI (tpOf c s) (s i).pool ∧ ∀ ev ∈ (s i).queue, ReadyEv (tpOf c s) ev

theorem RInv.init (c : Cfg) : RInv c (init c) := by
  intro i
  refine ⟨TI.init _ _ ?_ ?_, fun ev h => by cases h⟩
  · show NotarCert (stakeFn c) (histOf c (Cluster.init c)) (idBlk (0, 0))
    exact notarCert_genesis c _
  · exact Or.inl (Or.inl rfl)

theorem enqueue_rinv (T : TP) (n : Node) (evs : List Pool.Event) (hq : ∀ ev ∈ n.queue, ReadyEv T ev)
    (hg : ∀ ev ∈ evs, ReadyEv T ev) : ∀ ev ∈ (enqueue n evs).queue, ReadyEv T ev := by
  unfold enqueue
  split
  · exact hq
  · intro ev hev
    rcases List.mem_append.mp hev with h | h
    · exact hq ev h
    · exact hg ev (List.mem_filter.mp h).1

theorem enqueue_pool (n : Node) (evs : List Pool.Event) : (enqueue n evs).pool = n.pool := by
  unfold enqueue; split <;> rfl

/-- a pool operation of a node -/
theorem poolOp_rinv (c : Cfg) (s : State) (i : ℕ) (hpos : 0 < c.stakes.sum) (n : Node) (op : PoolOp)
    (hs : SgInv (sigOf c s) (c.epoch i) c.parentOf n.pool) (hop : OpOk (sigOf c s) (c.epoch i) c.parentOf op)
    (h : TI (tpOf c s) n.pool ∧ ∀ ev ∈ n.queue, ReadyEv (tpOf c s) ev) :
    TI (tpOf c s) (enqueue { n with pool := (poolStep n.pool op).1 } (poolStep n.pool op).2).pool ∧
    ∀ ev ∈ (enqueue { n with pool := (poolStep n.pool op).1 } (poolStep n.pool op).2).queue, ReadyEv (tpOf c s) ev := by
  have hcerts := poolStep_certs (e := c.epoch i) hpos n.pool op hs.slots hop
  have := poolStep_ti (tpOf c s) n.pool op h.1 (fun x hx => certT_of_backed c s i x (hcerts x hx)) (by
    intro b p he
    rw [he] at hop
    exact hop)
  rw [enqueue_pool]
  exact ⟨this.1, enqueue_rinv _ _ _ h.2 this.2⟩

theorem votorStep_pool (n : Node) (ve : Votor.Event) : (votorStep n ve).1.pool = n.pool ∧ (votorStep n ve).1.queue = n.queue := by
  unfold votorStep; split <;> exact ⟨rfl, rfl⟩

/-- one step of a node, for fixed predicates -/
theorem nodeStep_rinv (c : Cfg) (s : State) (i : ℕ) (hpos : 0 < c.stakes.sum) (n : Node) (op : NodeOp)
    (hs : SgInv (sigOf c s) (c.epoch i) c.parentOf n.pool) (hok : NodeOk (sigOf c s) (c.epoch i) c.parentOf op)
    (h : TI (tpOf c s) n.pool ∧ ∀ ev ∈ n.queue, ReadyEv (tpOf c s) ev) :
    TI (tpOf c s) (nodeStep n op).pool ∧ ∀ ev ∈ (nodeStep n op).queue, ReadyEv (tpOf c s) ev := by
  cases op with
  | recvVote v =>
    simp only [nodeStep, recvVote]
    split
    · exact h
    · exact poolOp_rinv c s i hpos n (.vote v) hs hok h
  | recvCert x =>
    simp only [nodeStep, recvCert]
    split
    · exact h
    · exact poolOp_rinv c s i hpos n (.cert x) hs hok h
  | poolBlock b p =>
    simp only [nodeStep, poolBlock]
    split
    · exact h
    · exact poolOp_rinv c s i hpos n (.block b p) hs hok h
  | pump =>
    simp only [nodeStep, pump]
    split
    · exact h
    · rename_i qe rest hq
      have hrest : ∀ ev ∈ rest, ReadyEv (tpOf c s) ev := fun ev hev => h.2 ev (by rw [hq]; exact List.mem_cons_of_mem _ hev)
      split
      · rename_i ve hve
        obtain ⟨a, b⟩ := votorStep_pool { n with queue := rest } ve
        rw [a, b]; exact ⟨h.1, hrest⟩
      · exact ⟨h.1, hrest⟩
  | votorBlock sl b => obtain ⟨a, b'⟩ := votorStep_pool n (.block sl b); simp only [nodeStep]; rw [a, b']; exact h
  | firstShred sl => obtain ⟨a, b'⟩ := votorStep_pool n (.firstShred sl); simp only [nodeStep]; rw [a, b']; exact h
  | invalidBlock sl => obtain ⟨a, b'⟩ := votorStep_pool n (.invalidBlock sl); simp only [nodeStep]; rw [a, b']; exact h
  | timeout sl => obtain ⟨a, b'⟩ := votorStep_pool n (.timeout sl); simp only [nodeStep]; rw [a, b']; exact h
  | timeoutCrashed sl => obtain ⟨a, b'⟩ := votorStep_pool n (.timeoutCrashed sl); simp only [nodeStep]; rw [a, b']; exact h

theorem RInv.step {c : Cfg} {s : State} (hpos : 0 < c.stakes.sum) (hci : CInv c s) (h : RInv c s) (ev : Ev) (hok : EvOk c s ev) :
    RInv c (Cluster.step s ev) := by
  have hl := tpOf_le c s (Cluster.step s ev) (histOf_le_step c s ev)
  intro j
  obtain ⟨i, op⟩ := ev
  by_cases hj : j = i
  · subst hj
    rw [step_self]
    obtain ⟨a, b⟩ := nodeStep_rinv c s j hpos (s j) op (hci j).pool hok (h j)
    exact ⟨a.mono hl, fun x hx => (b x hx).mono hl⟩
  · rw [step_other _ _ _ _ hj]
    exact ⟨(h j).1.mono hl, fun x hx => ((h j).2 x hx).mono hl⟩

theorem RInv.run {c : Cfg} (hpos : 0 < c.stakes.sum) (evs : List Ev) {s : State} (hci : CInv c s) (h : RInv c s)
    (hv : Valid c s evs) : RInv c (Cluster.run s evs) := by
  induction evs generalizing s with
  | nil => exact h
  | cons ev evs ih => exact ih (hci.step hpos ev hv.1) (h.step hpos hci ev hv.1) hv.2

/-! ### where a `ParentReady` event in a Votor log comes from -/

theorem votorStep_ev (n : Node) (ve x : Votor.Event) (hx : Votor.Item.ev x ∈ (votorStep n ve).1.votor.log) :
    x = ve ∨ Votor.Item.ev x ∈ n.votor.log := by
  unfold votorStep at hx
  split at hx
  · exact Or.inr hx
  · rcases Votor.step_log n.votor ve with hs | ⟨xs, hl, hxs⟩
    · have hx' : Votor.Item.ev x ∈ (Votor.step n.votor ve).log := hx
      rw [hs] at hx'; exact Or.inr hx'
    · have hx' : Votor.Item.ev x ∈ (Votor.step n.votor ve).log := hx
      rw [hl] at hx'
      rcases List.mem_append.mp hx' with h | h
      · obtain ⟨o, ho⟩ := hxs _ h; cases ho
      · rcases List.mem_cons.mp h with h | h
        · left; cases h; rfl
        · exact Or.inr h

theorem nodeStep_parentReady (n : Node) (op : NodeOp) (w a b : ℕ)
    (hx : Votor.Item.ev (.parentReady w a b) ∈ (nodeStep n op).votor.log) :
    Votor.Item.ev (.parentReady w a b) ∈ n.votor.log ∨ Pool.Event.parentReady w a b ∈ n.queue := by
  cases op with
  | recvVote v =>
    simp only [nodeStep, recvVote] at hx
    split at hx
    · exact Or.inl hx
    · rw [enqueue_votor] at hx; exact Or.inl hx
  | recvCert x =>
    simp only [nodeStep, recvCert] at hx
    split at hx
    · exact Or.inl hx
    · rw [enqueue_votor] at hx; exact Or.inl hx
  | poolBlock b' p =>
    simp only [nodeStep, poolBlock] at hx
    split at hx
    · exact Or.inl hx
    · rw [enqueue_votor] at hx; exact Or.inl hx
  | pump =>
    simp only [nodeStep, pump] at hx
    split at hx
    · exact Or.inl hx
    · rename_i qe rest hq
      split at hx
      · rename_i ve hve
        rcases votorStep_ev _ ve _ hx with h | h
        · right
          rw [hq]
          cases qe with
          | parentReady s' a' b' =>
            simp only [toVotor, Option.some.injEq] at hve
            rw [← hve] at h
            cases h
            simp
          | cert x => simp only [toVotor, Option.some.injEq] at hve; rw [← hve] at h; cases h
          | s2n s' h' => simp only [toVotor, Option.some.injEq] at hve; rw [← hve] at h; cases h
          | s2s s' => simp only [toVotor, Option.some.injEq] at hve; rw [← hve] at h; cases h
          | standstill s' cs vs => simp only [toVotor, Option.some.injEq] at hve; rw [← hve] at h; cases h
          | repair a' b' => simp [toVotor] at hve
          | panic => simp [toVotor] at hve
        · exact Or.inl h
      · exact Or.inl hx
  | votorBlock sl b' => exact (votorStep_ev n _ _ hx).elim (fun h => by cases h) Or.inl
  | firstShred sl => exact (votorStep_ev n _ _ hx).elim (fun h => by cases h) Or.inl
  | invalidBlock sl => exact (votorStep_ev n _ _ hx).elim (fun h => by cases h) Or.inl
  | timeout sl => exact (votorStep_ev n _ _ hx).elim (fun h => by cases h) Or.inl
  | timeoutCrashed sl => exact (votorStep_ev n _ _ hx).elim (fun h => by cases h) Or.inl

end AgModel.Cluster
