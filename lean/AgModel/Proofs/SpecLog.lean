import AgModel.Props.C01
/-!
# Protocol-level lemmas about the finalized log (for the C01 cluster refinement)

The implementation announces `ParentReady(w, p)` not only for parents `p` with a notarization / notar-fallback certificate and
skip-certified slots in between (the protocol's rule, R5), but also for parents that are *implicitly finalized* (ancestors
of a finalized block) and across slots that are *implicitly skipped* (between a block of the finalized log and its parent).
Under the hypotheses of the safety theorems (`Setting`) and with the Byzantine validators counted as having signed every
notarization vote (`ByzAll`: they can), these are no new cases:

* `certified_of_inLog`: every block of the finalized log is certified (genesis, or a notar-fallback certificate exists);
* `skip_of_gap`: every slot strictly between a block of the log and its parent has a skip certificate.

Also: monotonicity of all certificate predicates in the history (`HLe`).
-/
namespace AgModel.Spec

open Classical

variable {V Block : Type} [Fintype V] {stake : V → ℕ} {C : Chain Block} {H : History V Block} {byz : V → Prop}

/-- Byzantine validators are taken to have signed every notarization vote -/
def ByzAll (H : History V Block) (byz : V → Prop) : Prop := ∀ v, byz v → ∀ b, H.notar v b

/-- in the log, a certified block's parent is certified -/
theorem certified_parent_of_nfcert (S : Setting stake C H byz) (hb : ByzAll H byz) (x : Block) (hx : x ≠ C.genesis)
    (hc : NFCert stake H x) : Certified stake C H (C.parent x) := by
  by_cases hnf : ∃ v, ¬ byz v ∧ H.nf v x
  · obtain ⟨v, hv, hn⟩ := hnf
    exact ((S.rules v hv).nf_rule x hn).2.1
  · by_cases hw : windowStart (C.slot x)
    · -- some correct validator notarized `x`
      have : ∃ v, ¬ byz v ∧ H.notar v x := by
        by_contra hno
        exact nfcert_needs_correct S x (fun v hv hn => hno ⟨v, hv, hn⟩) hc
      obtain ⟨v, hv, hn⟩ := this
      exact (((S.rules v hv).notar_rule x hn hx).1 hw).1
    · right
      apply nfCert_of_notar
      unfold NFCert at hc
      unfold NotarCert notarW
      rw [Q_iff] at hc ⊢
      have : w stake (fun v => H.notar v x ∨ H.nf v x) ≤ w stake (fun v => H.notar v (C.parent x)) := by
        apply w_mono
        intro v hv
        by_cases hbv : byz v
        · exact hb v hbv _
        · rcases hv with h | h
          · exact (((S.rules v hbv).notar_rule x h hx).2 hw).1
          · exact absurd ⟨v, hbv, h⟩ hnf
      omega
where
  nfCert_of_notar {p : Block} (h : NotarCert stake H p) : NFCert stake H p := by
    unfold NotarCert notarW at h
    unfold NFCert
    rw [Q_iff] at h ⊢
    have := w_mono stake (p := fun v => H.notar v p) (q := fun v => H.notar v p ∨ H.nf v p) (fun v hv => Or.inl hv)
    omega

/-- **every block of the finalized log is certified** -/
theorem certified_of_inLog (S : Setting stake C H byz) (hb : ByzAll H byz) (a : Block) (h : InLog stake C H a) :
    Certified stake C H a := by
  obtain ⟨f, hf, hanc⟩ := h
  have key : ∀ x, Anc C a x → Certified stake C H x → Certified stake C H a := by
    intro x hax
    induction hax with
    | refl => exact fun h => h
    | step x hxg _ ih =>
      intro hcx
      rcases hcx with hg | hn
      · exact absurd hg hxg
      · exact ih (certified_parent_of_nfcert S hb x hxg hn)
  exact key f hanc (Or.inr (finalized_nf f hf))

theorem inLog_parent (a : Block) (h : InLog stake C H a) (hg : a ≠ C.genesis) : InLog stake C H (C.parent a) := by
  obtain ⟨f, hf, hanc⟩ := h
  exact ⟨f, hf, anc_trans (C.parent a) a f (Anc.step a hg Anc.refl) hanc⟩

/-- the slot `u` lies strictly between a block of the finalized log and its parent -/
def Gap (stake : V → ℕ) (C : Chain Block) (H : History V Block) (u : ℕ) : Prop :=
  ∃ a, InLog stake C H a ∧ a ≠ C.genesis ∧ C.slot (C.parent a) < u ∧ u < C.slot a

/-- **every slot strictly between a block of the finalized log and its parent is skip-certified** -/
theorem skip_of_gap (S : Setting stake C H byz) (hb : ByzAll H byz) (u : ℕ) (h : Gap stake C H u) : SkipCert stake H u := by
  obtain ⟨a, ha, hg, h1, h2⟩ := h
  rcases certified_of_inLog S hb a ha with hgen | hn
  · exact absurd hgen hg
  · have : ∃ v, ¬ byz v ∧ H.notar v a := by
      by_contra hno
      exact nfcert_needs_correct S a (fun v hv hn' => hno ⟨v, hv, hn'⟩) hn
    obtain ⟨v, hv, hnv⟩ := this
    obtain ⟨r1, r2⟩ := (S.rules v hv).notar_rule a hnv hg
    by_cases hw : windowStart (C.slot a)
    · exact (r1 hw).2 u h1 h2
    · have := (r2 hw).2; omega

/-! ### monotonicity in the history -/

/-- `H'` contains every vote of `H` -/
structure HLe (H H' : History V Block) : Prop where
  notar : ∀ v b, H.notar v b → H'.notar v b
  nf : ∀ v b, H.nf v b → H'.nf v b
  skip : ∀ v s, H.skip v s → H'.skip v s
  sf : ∀ v s, H.sf v s → H'.sf v s
  fin : ∀ v s, H.fin v s → H'.fin v s

variable {H' : History V Block}

theorem Q_mono {x y T : ℕ} (h : Q x T) (hle : x ≤ y) : Q y T := by
  unfold Q at *; exact Nat.le_trans h (Nat.mul_le_mul_right _ hle)

theorem Strong_mono {x y T : ℕ} (h : Strong x T) (hle : x ≤ y) : Strong y T := by
  unfold Strong at *; exact Nat.le_trans h (Nat.mul_le_mul_right _ hle)

theorem NotarCert.mono (hl : HLe H H') {b : Block} (h : NotarCert stake H b) : NotarCert stake H' b :=
  Q_mono h (w_mono stake (fun v hv => hl.notar v b hv))

theorem FastFinalCert.mono (hl : HLe H H') {b : Block} (h : FastFinalCert stake H b) : FastFinalCert stake H' b :=
  Strong_mono h (w_mono stake (fun v hv => hl.notar v b hv))

theorem NFCert.mono (hl : HLe H H') {b : Block} (h : NFCert stake H b) : NFCert stake H' b :=
  Q_mono h (w_mono stake (fun v hv => hv.elim (fun a => Or.inl (hl.notar v b a)) (fun a => Or.inr (hl.nf v b a))))

theorem SkipCert.mono (hl : HLe H H') {s : ℕ} (h : SkipCert stake H s) : SkipCert stake H' s :=
  Q_mono h (w_mono stake (fun v hv => hv.elim (fun a => Or.inl (hl.skip v s a)) (fun a => Or.inr (hl.sf v s a))))

theorem FinalCert.mono (hl : HLe H H') {s : ℕ} (h : FinalCert stake H s) : FinalCert stake H' s :=
  Q_mono h (w_mono stake (fun v hv => hl.fin v s hv))

theorem Certified.mono (hl : HLe H H') {b : Block} (h : Certified stake C H b) : Certified stake C H' b :=
  h.elim Or.inl (fun a => Or.inr (a.mono hl))

theorem FinalizedAt.mono (hl : HLe H H') {b : Block} (h : FinalizedAt stake C H b) : FinalizedAt stake C H' b :=
  h.elim (fun a => Or.inl (a.mono hl)) (fun a => Or.inr ⟨a.1.mono hl, a.2.mono hl⟩)

theorem InLog.mono (hl : HLe H H') {b : Block} (h : InLog stake C H b) : InLog stake C H' b := by
  obtain ⟨f, hf, ha⟩ := h; exact ⟨f, hf.mono hl, ha⟩

theorem Gap.mono (hl : HLe H H') {u : ℕ} (h : Gap stake C H u) : Gap stake C H' u := by
  obtain ⟨a, ha, b, c, d⟩ := h; exact ⟨a, ha.mono hl, b, c, d⟩

end AgModel.Spec
