import AgModel.Proofs.ProgressNode
import AgModel.Proofs.ClusterPanic
/-!
# C02 progress, cluster part: the timely schedule on the cluster of composed nodes

Every correct node receives the same operations (`allNodes`), so the state of node `i` after a phase is `nodeRun` of its state
before over the phase's operation list (`run_allNodes`); validity of a phase follows from validity of its events in the state
at the start of the phase, because what has been signed only grows (`valid_of_start`).
-/
namespace AgModel.Cluster
open AgModel AgModel.Node AgModel.NodePanic AgModel.Pool

/-! ### `correctIds` -/

theorem correctIds_nodup (c : Cfg) : (correctIds c).Nodup := List.Nodup.filter _ List.nodup_range

theorem mem_correctIds {c : Cfg} {i : Nat} : i ∈ correctIds c ↔ i < c.n ∧ c.correct i = true := by
  simp [correctIds]

theorem correctStake_eq (c : Cfg) (i : Nat) : stakeOf (c.epoch i) (correctIds c) = correctStake c := rfl

/-! ### projections -/

theorem proj_at_self (i : Nat) (ops : List NodeOp) : proj i (at_ i ops) = ops := by
  induction ops with
  | nil => rfl
  | cons op t ih => simp only [at_, List.map_cons, proj, if_true]; exact congrArg _ ih

theorem proj_at_other (i k : Nat) (ops : List NodeOp) (h : k ≠ i) : proj i (at_ k ops) = [] := by
  induction ops with
  | nil => rfl
  | cons op t ih => simp only [at_, List.map_cons, proj, h, if_false]; exact ih

theorem proj_flatMap (i : Nat) (ops : Nat → List NodeOp) : ∀ (L : List Nat), L.Nodup →
    proj i (L.flatMap (fun k => at_ k (ops k))) = if i ∈ L then ops i else [] := by
  intro L
  induction L with
  | nil => intro _; rfl
  | cons k L ih =>
    intro hnd
    rw [List.flatMap_cons, proj_append, ih (List.nodup_cons.mp hnd).2]
    by_cases hk : k = i
    · subst hk
      rw [proj_at_self, if_neg (List.nodup_cons.mp hnd).1]
      simp
    · rw [proj_at_other _ _ _ hk]
      have : (i ∈ k :: L) ↔ i ∈ L := by simp [Ne.symm hk]
      simp only [List.nil_append]
      by_cases hi : i ∈ L <;> simp [hi, this]

theorem proj_allNodes (c : Cfg) (ops : Nat → List NodeOp) (i : Nat) :
    proj i (allNodes c ops) = if i ∈ correctIds c then ops i else [] :=
  proj_flatMap i ops _ (correctIds_nodup c)

/-- after a phase in which every correct node receives `ops i`: node `i` ran `ops i`, the others did nothing -/
theorem run_allNodes (c : Cfg) (ops : Nat → List NodeOp) (st : State) (i : Nat) :
    run st (allNodes c ops) i = if i ∈ correctIds c then nodeRun (st i) (ops i) else st i := by
  rw [run_proj, proj_allNodes]
  split <;> rfl

/-! ### validity -/

theorem evOk_mono (c : Cfg) {s s' : State} (hl : (sigOf c s).le (sigOf c s')) {ev : Ev} (h : EvOk c s ev) : EvOk c s' ev := by
  obtain ⟨i, op⟩ := ev
  unfold EvOk at h ⊢
  cases op with
  | recvVote v =>
    show (sigOf c s').holds v
    have h' : (sigOf c s).holds v := h
    unfold SigLog.holds at h' ⊢
    cases hk : v.kind <;> simp only [hk] at h' ⊢
    · exact hl.notar _ _ _ h'
    · exact hl.nf _ _ _ h'
    · exact hl.skip _ _ h'
    · exact hl.sf _ _ h'
    · exact hl.fin _ _ h'
  | recvCert x => exact CertBacked.mono h hl
  | poolBlock b p => exact h
  | votorBlock sl b => exact h
  | pump => trivial
  | firstShred sl => trivial
  | invalidBlock sl => trivial
  | timeout sl => trivial
  | timeoutCrashed sl => trivial

/-- a phase all of whose events are admissible in the state at its start is valid -/
theorem valid_of_start (c : Cfg) : ∀ (evs : List Ev) (s0 s : State), (sigOf c s0).le (sigOf c s) →
    (∀ ev ∈ evs, EvOk c s0 ev) → Valid c s evs := by
  intro evs
  induction evs with
  | nil => intro _ _ _ _; trivial
  | cons ev evs ih =>
    intro s0 s hl h
    refine ⟨evOk_mono c hl (h ev List.mem_cons_self), ?_⟩
    exact ih s0 (step s ev) (hl.trans (sigOf_le_step c s ev)) (fun x hx => h x (List.mem_cons_of_mem _ hx))

theorem mem_allNodes {c : Cfg} {ops : Nat → List NodeOp} {ev : Ev} (h : ev ∈ allNodes c ops) :
    ev.1 ∈ correctIds c ∧ ev.2 ∈ ops ev.1 := by
  unfold allNodes at h
  obtain ⟨k, hk, hm⟩ := List.mem_flatMap.mp h
  unfold at_ at hm
  obtain ⟨op, hop, rfl⟩ := List.mem_map.mp hm
  exact ⟨hk, hop⟩

/-! ### the cluster predicates -/

/-- every correct node is ready for slot `s` with parent `p` -/
def CReady (c : Cfg) (hi s : Nat) (p : Nat × Nat) (st : State) : Prop :=
  ∀ i ∈ correctIds c, NReady (c.epoch i) hi s p (st i)

def CMid (c : Cfg) (hi s h : Nat) (p : Nat × Nat) (X F : List Nat) (fv nr hf : Bool) (q : List Votor.Event) (st : State) : Prop :=
  ∀ i ∈ correctIds c, NMid (c.epoch i) hi s h p X F fv nr hf q (st i)

theorem holds_of_votesOf (c : Cfg) (st : State) (lo j : Nat) (v : Pool.Vote) (hv : v ∈ votesOf lo j (st j).votor.log) :
    (sigOf c st).holds v := by
  unfold votesOf at hv
  obtain ⟨hv1, _⟩ := List.mem_filter.mp hv
  obtain ⟨o, ho, hov⟩ := List.mem_filterMap.mp hv1
  have hlog : Votor.Item.out o ∈ (st j).votor.log := mem_outsOf.mp ho
  unfold SigLog.holds
  cases o with
  | notar a b d f => simp only [voteOfOut, Option.some.injEq] at hov; subst hov; intro _; exact ⟨_, _, hlog⟩
  | skip a => simp only [voteOfOut, Option.some.injEq] at hov; subst hov; intro _; exact hlog
  | final a => simp only [voteOfOut, Option.some.injEq] at hov; subst hov; intro _; exact hlog
  | notarFallback a b => simp only [voteOfOut, Option.some.injEq] at hov; subst hov; intro _; exact hlog
  | skipFallback a => simp only [voteOfOut, Option.some.injEq] at hov; subst hov; intro _; exact hlog
  | cert k a b => simp [voteOfOut] at hov
  | relay a => simp [voteOfOut] at hov
  | timer a => simp [voteOfOut] at hov

/-- **deliverBlock**: every correct node registers and notarizes the block -/
theorem phase_block (c : Cfg) (hpos : 0 < c.stakes.sum) {hi s h : Nat} {p : Nat × Nat} {st : State} (r : CReady c hi s p st)
    (hp : c.parentOf (s, h) = p) :
    Valid c st (deliverBlock c (s, h)) ∧ CMid c hi s h p [] [] false false false [] (run st (deliverBlock c (s, h))) ∧
    ∀ i, i ∉ correctIds c → run st (deliverBlock c (s, h)) i = st i := by
  refine ⟨?_, ?_, ?_⟩
  · apply valid_of_start c _ st st (SigLog.le.refl _)
    intro ev hev
    obtain ⟨_, hop⟩ := mem_allNodes hev
    obtain ⟨i, op⟩ := ev
    simp only [blockOps, List.mem_cons, List.mem_singleton, List.not_mem_nil, or_false] at hop
    rcases hop with rfl | rfl
    · show c.parentOf (s, h) = c.parentOf (s, h); rfl
    · show c.parentOf (s, h) = ((c.parentOf (s, h)).1, (c.parentOf (s, h)).2); rfl
  · intro i hi'
    unfold deliverBlock
    rw [run_allNodes, if_pos hi']
    have : blockOps c (s, h) = [.poolBlock (s, h) p, .votorBlock s ⟨h, p.1, p.2⟩] := by
      unfold blockOps; rw [hp]
    rw [this]
    exact node_block (by exact hpos) (r i hi')
  · intro i hi'
    unfold deliverBlock
    rw [run_allNodes, if_neg hi']

/-- **pumpAll**: every correct Votor drains its queue -/
theorem phase_pump (c : Cfg) {hi s h : Nat} {p : Nat × Nat} {X F : List Nat} {fv nr hf fv' nr' hf' : Bool}
    {q : List Votor.Event} {st : State} (m : CMid c hi s h p X F fv nr hf q st)
    (hv : ∀ i ∈ correctIds c, VAt s h fv' nr' hf' (Votor.run (st i).votor q)) :
    Valid c st (pumpAll c st) ∧ CMid c hi s h p X F fv' nr' hf' [] (run st (pumpAll c st)) ∧
    (∀ i ∈ correctIds c, (run st (pumpAll c st) i).queue = []) ∧
    ∀ i, i ∉ correctIds c → run st (pumpAll c st) i = st i := by
  refine ⟨?_, ?_, ?_, ?_⟩
  · apply valid_of_start c _ st st (SigLog.le.refl _)
    intro ev hev
    obtain ⟨_, hop⟩ := mem_allNodes hev
    obtain ⟨i, op⟩ := ev
    have := List.eq_of_mem_replicate hop
    simp only at this
    subst this
    trivial
  · intro i hi'
    unfold pumpAll
    rw [run_allNodes, if_pos hi']
    exact node_pumps (m i hi') (hv i hi')
  · intro i hi'
    unfold pumpAll
    rw [run_allNodes, if_pos hi']
    rw [nodeRun_pumps (st i).queue (st i) rfl (by rw [(m i hi').alive, (m i hi').votor.alive])]
  · intro i hi'
    unfold pumpAll
    rw [run_allNodes, if_neg hi']

theorem flatMap_congr' {α β : Type} (L : List α) (f g : α → List β) (h : ∀ x ∈ L, f x = g x) : L.flatMap f = L.flatMap g := by
  induction L with
  | nil => rfl
  | cons a t ih =>
    rw [List.flatMap_cons, List.flatMap_cons, h a List.mem_cons_self, ih (fun x hx => h x (List.mem_cons_of_mem _ hx))]

theorem valid_exchange (c : Cfg) (lo : Nat) (st : State) : Valid c st (exchange c lo st) := by
  apply valid_of_start c _ st st (SigLog.le.refl _)
  intro ev hev
  obtain ⟨_, hop⟩ := mem_allNodes hev
  obtain ⟨i, op⟩ := ev
  unfold inbox at hop
  obtain ⟨j, _, hm⟩ := List.mem_flatMap.mp hop
  obtain ⟨v, hv, rfl⟩ := List.mem_map.mp hm
  exact holds_of_votesOf c st lo j v hv

theorem exchange_other (c : Cfg) (lo : Nat) (st : State) (i : Nat) (hi : i ∉ correctIds c) : run st (exchange c lo st) i = st i := by
  unfold exchange
  rw [run_allNodes, if_neg hi]

/-- **exchange, round 1**: the notarization votes of all correct validators reach every correct pool -/
theorem phase_exchange1 (c : Cfg) (hpos : 0 < c.stakes.sum) {hi s h : Nat} {p : Nat × Nat} {nr hf : Bool} {st : State}
    (hs : s ≤ hi) (m : CMid c hi s h p [] [] false nr hf [] st) :
    CMid c hi s h p (correctIds c) [] false nr hf (queue1 (c.epoch 0) s h (correctIds c)) (run st (exchange c s st)) := by
  have hin : inbox c s st = (correctIds c).map (fun j => NodeOp.recvVote ⟨.notar, s, h, j⟩) := by
    unfold inbox
    rw [flatMap_congr' _ _ (fun j => [NodeOp.recvVote ⟨.notar, s, h, j⟩])]
    · induction correctIds c with
      | nil => rfl
      | cons a t ih => rw [List.flatMap_cons, List.map_cons, ih]; rfl
    · intro j hj
      rw [(m j hj).votor.votes j]
      rfl
  intro i hi'
  unfold exchange
  rw [run_allNodes, if_pos hi', hin]
  have m0 : NMid (c.epoch i) hi s h p [] [] false nr hf (queue1 (c.epoch i) s h []) (st i) := by
    rw [queue1_nil _ (by exact hpos)]; exact m i hi'
  have := node_notar_votes (e := c.epoch i) (by exact hpos) hs (correctIds c) [] (st i) m0 (by simpa using correctIds_nodup c)
    (fun j hj => (mem_correctIds.mp hj).1)
  have e : queue1 (c.epoch i) s h (correctIds c) = queue1 (c.epoch 0) s h (correctIds c) := rfl
  rw [← e]
  simpa using this

/-- **exchange, round 2**: the finalization votes (and, again, the notarization votes) reach every correct pool -/
theorem phase_exchange2 (c : Cfg) (hpos : 0 < c.stakes.sum) {hi s h : Nat} {p : Nat × Nat} {nr hf : Bool} {st : State}
    (hs : s ≤ hi) (hq : (c.epoch 0).isQuorum (correctStake c) = true)
    (m : CMid c hi s h p (correctIds c) [] true nr hf [] st) :
    CMid c hi s h p (correctIds c) (correctIds c) true nr hf (queue2 (c.epoch 0) s (correctIds c)) (run st (exchange c s st)) := by
  have hin : inbox c s st = (correctIds c).flatMap (fun j => [NodeOp.recvVote ⟨.notar, s, h, j⟩, NodeOp.recvVote ⟨.final, s, 0, j⟩]) := by
    unfold inbox
    apply flatMap_congr'
    intro j hj
    rw [(m j hj).votor.votes j]
    rfl
  intro i hi'
  unfold exchange
  rw [run_allNodes, if_pos hi', hin]
  have m0 : NMid (c.epoch i) hi s h p (correctIds c) [] true nr hf (queue2 (c.epoch i) s []) (st i) := by
    rw [queue2_nil _ (by exact hpos)]; exact m i hi'
  have := node_round2 (e := c.epoch i) hs (by exact hq) (correctIds c) [] (st i) m0 (by simpa using correctIds_nodup c)
    (fun j hj => ⟨hj, (mem_correctIds.mp hj).1⟩)
  have e : queue2 (c.epoch i) s (correctIds c) = queue2 (c.epoch 0) s (correctIds c) := rfl
  rw [← e]
  simpa using this

/-! ### one slot -/

/-- the thresholds as the pools evaluate them on the stake of the correct validators -/
def cQuorum (c : Cfg) : Bool := (c.epoch 0).isQuorum (correctStake c)
def cStrong (c : Cfg) : Bool := (c.epoch 0).isStrong (correctStake c)

theorem cQuorum_iff (c : Cfg) : cQuorum c = true ↔ 3 * c.stakes.sum ≤ 5 * correctStake c := by
  show decide (correctStake c * 5 ≥ c.stakes.sum * 3) = true ↔ _
  constructor
  · intro h; have := of_decide_eq_true h; omega
  · intro h; exact decide_eq_true (by omega)

theorem cStrong_iff (c : Cfg) : cStrong c = true ↔ 4 * c.stakes.sum ≤ 5 * correctStake c := by
  show decide (correctStake c * 5 ≥ c.stakes.sum * 4) = true ↔ _
  constructor
  · intro h; have := of_decide_eq_true h; omega
  · intro h; exact decide_eq_true (by omega)

/-- `deliverBlock; pumpAll; exchange; pumpAll` from a ready cluster -/
theorem fast_master (c : Cfg) (hpos : 0 < c.stakes.sum) {hi s h : Nat} {p : Nat × Nat} {st : State} (hs : s ≤ hi)
    (r : CReady c hi s p st) (hp : c.parentOf (s, h) = p) :
    Valid c st (fastSched c (s, h) st) ∧
    CMid c hi s h p (correctIds c) [] (cQuorum c) (cQuorum c && ParentReady.isWindowStart (s + 1)) (cStrong c) []
      (run st (fastSched c (s, h) st)) ∧
    (∀ i ∈ correctIds c, (run st (fastSched c (s, h) st) i).queue = []) ∧
    ∀ i, i ∉ correctIds c → run st (fastSched c (s, h) st) i = st i := by
  obtain ⟨v1, m1, o1⟩ := phase_block c hpos r hp
  obtain ⟨v2, m2, _, o2⟩ := phase_pump c m1 (fv' := false) (nr' := false) (hf' := false) (fun i hi' => by
    simpa [Votor.run] using (m1 i hi').votor)
  have m3 := phase_exchange1 c hpos hs m2
  have v3 := valid_exchange c s (run (run st (deliverBlock c (s, h))) (pumpAll c (run st (deliverBlock c (s, h)))))
  obtain ⟨v4, m4, q4, o4⟩ := phase_pump c m3 (fv' := cQuorum c) (nr' := cQuorum c && ParentReady.isWindowStart (s + 1))
    (hf' := cStrong c) (fun i hi' => votor_round1 (m3 i hi').votor (correctIds c))
  have hrun : run st (fastSched c (s, h) st) =
      run (run (run (run st (deliverBlock c (s, h))) (pumpAll c (run st (deliverBlock c (s, h)))))
        (exchange c s (run (run st (deliverBlock c (s, h))) (pumpAll c (run st (deliverBlock c (s, h)))))))
        (pumpAll c (run (run (run st (deliverBlock c (s, h))) (pumpAll c (run st (deliverBlock c (s, h)))))
          (exchange c s (run (run st (deliverBlock c (s, h))) (pumpAll c (run st (deliverBlock c (s, h)))))))) := by
    simp only [fastSched, round, run_append]
  refine ⟨?_, by rw [hrun]; exact m4, by rw [hrun]; exact q4, ?_⟩
  · simp only [fastSched, round, valid_append, run_append]
    exact ⟨⟨v1, v2⟩, v3, v4⟩
  · intro i hi'
    rw [hrun, o4 i hi', exchange_other c _ _ i hi', o2 i hi', o1 i hi']

/-- … and the second voting round: every correct node is ready for the next slot -/
theorem slot_master (c : Cfg) (hpos : 0 < c.stakes.sum) {hi s h : Nat} {p : Nat × Nat} {st : State} (hs : s ≤ hi)
    (r : CReady c hi s p st) (hp : c.parentOf (s, h) = p) (hq : cQuorum c = true) :
    Valid c st (slotSched c (s, h) st) ∧
    CMid c hi s h p (correctIds c) (correctIds c) true (ParentReady.isWindowStart (s + 1)) true []
      (run st (slotSched c (s, h) st)) ∧
    CReady c hi (s + 1) (s, h) (run st (slotSched c (s, h) st)) ∧
    ∀ i, i ∉ correctIds c → run st (slotSched c (s, h) st) i = st i := by
  obtain ⟨v1, m1, q1, o1⟩ := fast_master c hpos hs r hp
  rw [hq] at m1
  simp only [Bool.true_and] at m1
  have m2 := phase_exchange2 c hpos hs hq m1
  have v2 := valid_exchange c s (run st (fastSched c (s, h) st))
  obtain ⟨v3, m3, q3, o3⟩ := phase_pump c m2 (fv' := true) (nr' := ParentReady.isWindowStart (s + 1)) (hf' := true)
    (fun i hi' => by
      have := votor_round2 (e := c.epoch 0) (m2 i hi').votor (correctIds c)
      have hqq : (c.epoch 0).isQuorum (stakeOf (c.epoch 0) (correctIds c)) = true := hq
      rw [hqq, Bool.or_true] at this
      exact this)
  have hrun : run st (slotSched c (s, h) st) =
      run (run (run st (fastSched c (s, h) st)) (exchange c s (run st (fastSched c (s, h) st))))
        (pumpAll c (run (run st (fastSched c (s, h) st)) (exchange c s (run st (fastSched c (s, h) st))))) := by
    simp only [slotSched, round, run_append]
  refine ⟨?_, by rw [hrun]; exact m3, ?_, ?_⟩
  · simp only [slotSched, round, valid_append, run_append]
    exact ⟨v1, v2, v3⟩
  · intro i hi'
    rw [hrun]
    exact node_done (m3 i hi') (Or.inr ⟨hq, hq⟩) (fun hw => hw) (q3 i hi')
  · intro i hi'
    rw [hrun, o3 i hi', exchange_other c _ _ i hi', o1 i hi']

end AgModel.Cluster
