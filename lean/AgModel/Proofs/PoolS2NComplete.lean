import AgModel.Proofs.PoolS2N
import AgModel.Props.C04
/-! Completeness of safe-to-notar / safe-to-skip: whenever the condition holds in a reachable slot state, the
signal has been raised (invariant `CInv`), and every hash in `sent` was announced by an event (`Traced`). -/
namespace AgModel.Pool

/-- the node has not cast its initial vote in this slot -/
def ownNone (e : Epoch) (st : SlotState) : Bool := !st.vSkip.contains e.own && (st.vNotar.lookup e.own).isNone

/-- block `h` is *settled*: already signalled, or its condition is false and it is queued in `pending` whenever a
    later skip vote / own vote alone could make the condition true -/
def HInv (e : Epoch) (st : SlotState) (h : Nat) : Prop :=
  h ∈ st.sent ∨
  (¬ S2NCond e st h ∧
   (e.isWeakest (lookupD st.sNotar h) = true → stakeClause e st h = false → h ∈ st.pending) ∧
   (stakeClause e st h = true → st.parents.lookup h = some true → ownNone e st = true → h ∈ st.pending))

def CInv (e : Epoch) (st : SlotState) : Prop := ∀ h, HInv e st h

theorem HInv.of_same {e : Epoch} {a b : SlotState} {h : Nat} (s : SameCond a b)
    (hs : ∀ x ∈ a.sent, x ∈ b.sent) (hp : h ∈ a.pending → h ∈ b.pending ∨ h ∈ b.sent) (i : HInv e a h) : HInv e b h := by
  rcases i with i | ⟨n, c1, c2⟩
  · exact Or.inl (hs h i)
  · by_cases hb : h ∈ b.sent
    · exact Or.inl hb
    · right
      refine ⟨fun c => n (c.of_same s.symm), ?_, ?_⟩
      · intro w cl
        unfold stakeClause at cl c1
        rw [← s.sNotar] at w
        rw [← s.sNotar, ← s.sSkip] at cl
        rcases hp (c1 w cl) with x | x
        · exact x
        · exact absurd x hb
      · intro cl pc on
        unfold stakeClause ownNone at *
        rw [← s.sNotar, ← s.sSkip] at cl
        rw [← s.parents] at pc
        rw [← s.vSkip, ← s.vNotar] at on
        rcases hp (c2 cl pc on) with x | x
        · exact x
        · exact absurd x hb

/-- how one evaluation moves `pending` / `sent` -/
theorem checkS2N_sets (e : Epoch) (st : SlotState) (h : Nat) :
    (∀ x ∈ st.sent, x ∈ (st.checkS2N e h).1.sent) ∧
    (∀ x, x ≠ h → x ∈ st.pending → x ∈ (st.checkS2N e h).1.pending) ∧
    (h ∈ st.pending → h ∈ (st.checkS2N e h).1.pending ∨ h ∈ (st.checkS2N e h).1.sent) := by
  unfold SlotState.checkS2N
  dsimp only
  repeat' split
  all_goals
    refine ⟨?_, ?_, ?_⟩
    all_goals first
      | (intro x hx; first | exact hx | (rw [mem_insertSet]; exact Or.inl hx))
      | (intro x hne hx; first | exact hx | (rw [mem_insertSet]; exact Or.inl hx) | exact (List.mem_erase_of_ne hne).mpr hx)
      | (intro hx; first | exact Or.inl hx | (left; rw [mem_insertSet]; exact Or.inl hx) | (right; rw [mem_insertSet]; exact Or.inr rfl))

/-- after evaluating `h`, `h` is settled — whatever the state was -/
theorem checkS2N_settles (e : Epoch) (st : SlotState) (h : Nat) : HInv e (st.checkS2N e h).1 h := by
  have hsame := checkS2N_same e st h
  obtain ⟨hiff, hsafe, hnot⟩ := checkS2N_safe_iff e st h
  by_cases hr : (st.checkS2N e h).2 = .safe
  · left; rw [hsafe hr, mem_insertSet]; exact Or.inr rfl
  · right
    have hn : ¬ S2NCond e st h := fun c => hr (hiff.mpr c)
    refine ⟨fun c => hn (c.of_same hsame.symm), ?_, ?_⟩
    · intro w cl
      unfold stakeClause at cl
      rw [← hsame.sNotar] at w
      rw [← hsame.sNotar, ← hsame.sSkip] at cl
      rw [w, Bool.true_and] at cl
      unfold SlotState.checkS2N
      simp only [w, Bool.not_true, Bool.false_eq_true, if_false]
      have h2' : (!e.isWeak (lookupD st.sNotar h) && !e.isQuorum (lookupD st.sNotar h + st.sSkip)) = true := by
        cases ha : e.isWeak (lookupD st.sNotar h) <;> cases hb : e.isQuorum (lookupD st.sNotar h + st.sSkip) <;> simp_all
      simp only [h2', if_true, mem_insertSet]
      exact Or.inr trivial
    · intro cl pc on
      unfold stakeClause ownNone at *
      rw [← hsame.sNotar, ← hsame.sSkip] at cl
      rw [← hsame.parents] at pc
      rw [← hsame.vSkip, ← hsame.vNotar] at on
      simp only [Bool.and_eq_true, Bool.not_eq_true', Option.isNone_iff_eq_none] at on cl
      have h2' : (!e.isWeak (lookupD st.sNotar h) && !e.isQuorum (lookupD st.sNotar h + st.sSkip)) = false := by
        cases ha : e.isWeak (lookupD st.sNotar h) <;> cases hb : e.isQuorum (lookupD st.sNotar h + st.sSkip) <;> simp_all
      unfold SlotState.checkS2N
      simp only [cl.1, Bool.not_true, Bool.false_eq_true, if_false, h2', pc, on.1, on.2, mem_insertSet]
      exact Or.inr trivial

/-- evaluating `h` keeps every other settled block settled -/
theorem checkS2N_frame (e : Epoch) (st : SlotState) (h x : Nat) (hx : x ≠ h) (i : HInv e st x) :
    HInv e (st.checkS2N e h).1 x := by
  obtain ⟨a, b, _⟩ := checkS2N_sets e st h
  exact i.of_same (checkS2N_same e st h) a (fun hp => Or.inl (b x hx hp))

theorem checkS2N_cinv (e : Epoch) (st : SlotState) (h : Nat) (i : CInv e st) : CInv e (st.checkS2N e h).1 := by
  intro x
  by_cases hx : x = h
  · subst hx; exact checkS2N_settles e st x
  · exact checkS2N_frame e st h x hx (i x)

/-- the re-evaluation loop settles everything that was settled or is in the list it walks -/
theorem recheckPending_settles (e : Epoch) (hs : List Nat) (st : SlotState) (acc : List Event)
    (i : ∀ x, HInv e st x ∨ x ∈ hs) : CInv e (SlotState.recheckPending e st hs acc).1 := by
  induction hs generalizing st acc with
  | nil =>
    intro x
    rcases i x with h | h
    · simpa [SlotState.recheckPending] using h
    · cases h
  | cons h hs ih =>
    unfold SlotState.recheckPending
    split
    · rename_i hg
      have hg' : h ∈ st.sent := by simpa [List.contains_eq_mem] using hg
      apply ih
      intro x
      rcases i x with hx | hx
      · exact Or.inl hx
      · rcases List.mem_cons.mp hx with hx | hx
        · subst hx; exact Or.inl (Or.inl hg')
        · exact Or.inr hx
    · apply ih
      intro x
      by_cases hxh : x = h
      · subst hxh; exact Or.inl (checkS2N_settles e st x)
      · rcases i x with hx | hx
        · exact Or.inl (checkS2N_frame e st h x hxh hx)
        · rcases List.mem_cons.mp hx with hx | hx
          · exact absurd hx hxh
          · exact Or.inr hx

theorem recheckPending_cinv (e : Epoch) (hs : List Nat) (st : SlotState) (acc : List Event) (i : CInv e st) :
    CInv e (SlotState.recheckPending e st hs acc).1 :=
  recheckPending_settles e hs st acc (fun x => Or.inl (i x))

/-! ### frames -/

/-- everything `HInv e · x` reads, except `pending` / `sent` -/
structure SameAt (e : Epoch) (a b : SlotState) (x : Nat) : Prop where
  notar : lookupD a.sNotar x = lookupD b.sNotar x
  skip : a.sSkip = b.sSkip
  par : a.parents.lookup x = b.parents.lookup x
  ownSkip : a.vSkip.contains e.own = b.vSkip.contains e.own
  ownNotar : a.vNotar.lookup e.own = b.vNotar.lookup e.own

theorem HInv.of_sameAt {e : Epoch} {a b : SlotState} {x : Nat} (s : SameAt e a b x)
    (hs : ∀ y ∈ a.sent, y ∈ b.sent) (hp : x ∈ a.pending → x ∈ b.pending ∨ x ∈ b.sent) (i : HInv e a x) : HInv e b x := by
  rcases i with i | ⟨n, c1, c2⟩
  · exact Or.inl (hs x i)
  · by_cases hb : x ∈ b.sent
    · exact Or.inl hb
    · right
      unfold S2NCond stakeClause ownVotedNot ownNone at *
      rw [← s.notar, ← s.skip, ← s.par, ← s.ownSkip, ← s.ownNotar]
      refine ⟨n, ?_, ?_⟩
      · intro w cl
        rcases hp (c1 w cl) with y | y
        · exact y
        · exact absurd y hb
      · intro cl pc on
        rcases hp (c2 cl pc on) with y | y
        · exact y
        · exact absurd y hb

theorem CInv.of_eq {e : Epoch} {a b : SlotState} (s : SameCond a b) (hp : b.pending = a.pending) (hs : b.sent = a.sent)
    (i : CInv e a) : CInv e b := by
  intro x
  exact (i x).of_same s (fun y hy => by rw [hs]; exact hy) (fun h => Or.inl (by rw [hp]; exact h))

theorem s2sCheck_cinv (e : Epoch) (st : SlotState) (i : CInv e st) : CInv e (st.s2sCheck e).1 := by
  unfold SlotState.s2sCheck
  split
  · exact i.of_eq ⟨rfl, rfl, rfl, rfl, rfl, rfl, rfl, rfl⟩ rfl rfl
  · exact i

theorem s2sCheck_point (e : Epoch) (st : SlotState) (x : Nat) :
    (HInv e st x → HInv e (st.s2sCheck e).1 x) ∧ (x ∈ st.pending → x ∈ (st.s2sCheck e).1.pending) := by
  unfold SlotState.s2sCheck
  split
  · exact ⟨fun i => i.of_same ⟨rfl, rfl, rfl, rfl, rfl, rfl, rfl, rfl⟩ (fun y hy => hy) (fun h => Or.inl h), fun h => h⟩
  · exact ⟨fun i => i, fun h => h⟩

/-- the tail of `count_notar_stake`: `h` gets settled, everything else keeps its status -/
theorem notarTail_point (e : Epoch) (B : SlotState) (h x : Nat) :
    (x = h → HInv e (notarTail e B h).1 x) ∧
    (x ≠ h → HInv e B x → HInv e (notarTail e B h).1 x) ∧
    (x ≠ h → x ∈ B.pending → x ∈ (notarTail e B h).1.pending) := by
  unfold notarTail
  split
  · refine ⟨?_, ?_, ?_⟩
    · intro hx; subst hx
      exact (s2sCheck_point e _ x).1 (checkS2N_settles e B x)
    · intro hx i
      exact (s2sCheck_point e _ x).1 (checkS2N_frame e B h x hx i)
    · intro hx hp
      exact (s2sCheck_point e _ x).2 ((checkS2N_sets e B h).2.1 x hx hp)
  · rename_i hg
    have hg' : h ∈ B.sent := by simpa [List.contains_eq_mem] using hg
    refine ⟨?_, ?_, ?_⟩
    · intro hx; subst hx
      exact (s2sCheck_point e _ x).1 (Or.inl hg')
    · intro _ i; exact (s2sCheck_point e _ x).1 i
    · intro _ hp; exact (s2sCheck_point e _ x).2 hp

theorem skipTail_cinv (e : Epoch) (B : SlotState) (i : ∀ x, HInv e B x ∨ x ∈ B.pending) : CInv e (skipTail e B).1 := by
  unfold skipTail
  exact s2sCheck_cinv e _ (recheckPending_settles e B.pending B [] i)

/-! ### the vote cases -/

theorem isMet_mono {num den a b total : Nat} (hab : a ≤ b) (h : isMet num den a total = true) : isMet num den b total = true := by
  unfold isMet at *
  simp only [decide_eq_true_eq] at *
  exact Nat.le_trans h (Nat.mul_le_mul_right den hab)

/-- state after a notarization vote was stored and counted, before the checks -/
def notarB (e : Epoch) (st : SlotState) (v : Vote) : SlotState :=
  { st with vNotar := st.vNotar ++ [(v.signer, v.hash)], sNotar := addTo st.sNotar v.hash (e.stake v.signer),
            sNotarOrSkip := st.sNotarOrSkip + e.stake v.signer,
            sTopNotar := max (lookupD (addTo st.sNotar v.hash (e.stake v.signer)) v.hash) st.sTopNotar }

theorem notarB_notar (e : Epoch) (st : SlotState) (v : Vote) (x : Nat) (hx : x ≠ v.hash) :
    lookupD (notarB e st v).sNotar x = lookupD st.sNotar x := by
  unfold notarB
  dsimp only
  rw [lookupD_addTo]
  simp [hx]

theorem notarB_other (e : Epoch) (st : SlotState) (v : Vote) (hn : st.vNotar.lookup v.signer = none)
    (ho : v.signer ≠ e.own) (x : Nat) (hx : x ≠ v.hash) : SameAt e st (notarB e st v) x := by
  refine ⟨(notarB_notar e st v x hx).symm, rfl, rfl, rfl, ?_⟩
  unfold notarB
  dsimp only
  rw [lookup_after_store _ _ _ _ hn]
  have : ¬ e.own = v.signer := fun h => ho h.symm
  simp only [this, if_false]

theorem notarB_own (e : Epoch) (st : SlotState) (v : Vote) (hn : st.vNotar.lookup v.signer = none)
    (hsk : st.vSkip.contains v.signer = false) (ho : v.signer = e.own) (x : Nat) (hx : x ≠ v.hash) (i : HInv e st x) :
    HInv e (notarB e st v) x ∨ x ∈ (notarB e st v).pending := by
  have hN := notarB_notar e st v x hx
  have hcl : stakeClause e (notarB e st v) x = stakeClause e st x := by
    unfold stakeClause; rw [hN]; rfl
  rcases i with i | ⟨n, c1, c2⟩
  · exact Or.inl (Or.inl i)
  · by_cases cl : stakeClause e st x = true
    · by_cases pc : st.parents.lookup x = some true
      · right
        apply c2 cl pc
        unfold ownNone
        rw [← ho, hsk, hn]; rfl
      · left; right
        refine ⟨fun c => pc c.2.1, ?_, ?_⟩
        · intro _ clB; rw [hcl, cl] at clB; cases clB
        · intro _ pcB; exact absurd pcB pc
    · have cl' : stakeClause e st x = false := by simpa using cl
      by_cases w : e.isWeakest (lookupD st.sNotar x) = true
      · right; exact c1 w cl'
      · left; right
        refine ⟨fun c => (by rw [← hcl] at cl; exact cl c.1), ?_, ?_⟩
        · intro wB; rw [hN] at wB; exact absurd wB w
        · intro clB; rw [hcl] at clB; exact absurd clB cl

/-- state after a skip vote was stored and counted, before the checks -/
def skipB (e : Epoch) (st : SlotState) (v : Vote) : SlotState :=
  { st with vSkip := st.vSkip ++ [v.signer], sNotarOrSkip := st.sNotarOrSkip + e.stake v.signer,
            sSkip := st.sSkip + e.stake v.signer }

theorem stakeClause_skipB (e : Epoch) (st : SlotState) (v : Vote) (x : Nat) (h : stakeClause e st x = true) :
    stakeClause e (skipB e st v) x = true := by
  unfold stakeClause skipB at *
  dsimp only
  simp only [Bool.and_eq_true, Bool.or_eq_true] at *
  refine ⟨h.1, ?_⟩
  rcases h.2 with h2 | h2
  · exact Or.inl h2
  · right
    unfold Epoch.isQuorum at *
    exact isMet_mono (by omega) h2

theorem skipB_pre (e : Epoch) (st : SlotState) (v : Vote) (hown : v.signer = e.own → st.vNotar.lookup e.own = none)
    (i : CInv e st) (x : Nat) : HInv e (skipB e st v) x ∨ x ∈ (skipB e st v).pending := by
  rcases i x with i | ⟨n, c1, c2⟩
  · exact Or.inl (Or.inl i)
  · by_cases w : e.isWeakest (lookupD st.sNotar x) = true
    · by_cases cl : stakeClause e st x = true
      · have clB := stakeClause_skipB e st v x cl
        by_cases pc : st.parents.lookup x = some true
        · by_cases on : ownNone e st = true
          · right; exact c2 cl pc on
          · -- the node already voted, and not in a way that makes `x` safe: it notarized `x`; the signer is someone else
            left; right
            have hov : ownVotedNot e st x = false := by
              cases hh : ownVotedNot e st x
              · rfl
              · exact absurd ⟨cl, pc, hh⟩ n
            unfold ownVotedNot at hov
            simp only [Bool.or_eq_false_iff] at hov
            obtain ⟨hs1, hs2⟩ := hov
            have hl : ∃ y, st.vNotar.lookup e.own = some y := by
              cases hh : st.vNotar.lookup e.own with
              | some y => exact ⟨y, rfl⟩
              | none =>
                exfalso; apply on
                unfold ownNone; rw [hs1, hh]; rfl
            obtain ⟨y, hy⟩ := hl
            have hso : v.signer ≠ e.own := by
              intro hh; rw [hown hh] at hy; cases hy
            have hsB : (skipB e st v).vSkip.contains e.own = false := by
              unfold skipB; dsimp only
              rw [contains_append_single, hs1]
              have : ¬ e.own = v.signer := fun h => hso h.symm
              simp [this]
            refine ⟨?_, ?_, ?_⟩
            · intro c
              have := c.2.2
              unfold ownVotedNot at this
              rw [hsB] at this
              have hv : (skipB e st v).vNotar = st.vNotar := rfl
              rw [hv] at this
              rw [Bool.false_or] at this
              rw [this] at hs2; cases hs2
            · intro _ clB'; rw [clB] at clB'; cases clB'
            · intro _ _ onB
              unfold ownNone at onB
              have hv : (skipB e st v).vNotar = st.vNotar := rfl
              rw [hv, hy] at onB
              simp at onB
        · left; right
          refine ⟨fun c => pc c.2.1, ?_, ?_⟩
          · intro _ clB'; rw [clB] at clB'; cases clB'
          · intro _ pcB; exact absurd pcB pc
      · right; exact c1 w (by simpa using cl)
    · left; right
      have hclB : stakeClause e (skipB e st v) x = false := by
        unfold stakeClause skipB; dsimp only
        have : e.isWeakest (lookupD st.sNotar x) = false := by simpa using w
        rw [this]; rfl
      refine ⟨fun c => (by have := c.1; rw [hclB] at this; cases this), ?_, ?_⟩
      · intro wB; exact absurd wB w
      · intro clB; rw [hclB] at clB; cases clB

theorem ownWrap_cinv (e : Epoch) (v : Vote) (r : SlotState × List Cert × List Event)
    (i : ∀ x, HInv e r.1 x ∨ (v.signer = e.own ∧ x ∈ r.1.pending)) : CInv e (ownWrap e v r).1 := by
  unfold ownWrap
  split
  · apply recheckPending_settles
    intro x
    rcases i x with h | ⟨_, h⟩
    · exact Or.inl h
    · exact Or.inr h
  · rename_i hne
    intro x
    rcases i x with h | ⟨h, _⟩
    · exact h
    · exact absurd h hne

/-- **completeness, one admitted vote**: the invariant "every block whose condition holds has been signalled, and
    every block that a skip vote or the own vote alone could complete is queued" survives `add_vote` -/
theorem addVote_cinv (e : Epoch) (st : SlotState) (v : Vote) (ha : Adm st v) (i : CInv e st) : CInv e (st.addVote e v).1 := by
  rw [addVote_eq]
  apply ownWrap_cinv
  intro x
  cases hk : v.kind with
  | notar =>
    obtain ⟨a1, a2, _⟩ := adm_notar_facts st v hk ha
    have a1' : st.vSkip.contains v.signer = false := by simpa [List.contains_eq_mem] using a1
    have t := countNotar_tail e { st with vNotar := st.vNotar ++ [(v.signer, v.hash)] } v.hash (e.stake v.signer)
    have t1 : (countOf e st v).1 = (notarTail e (notarB e st v) v.hash).1 := by
      unfold countOf; simp only [hk]; exact congrArg Prod.fst t
    rw [t1]
    obtain ⟨p1, p2, p3⟩ := notarTail_point e (notarB e st v) v.hash x
    by_cases hx : x = v.hash
    · exact Or.inl (p1 hx)
    · by_cases ho : v.signer = e.own
      · rcases notarB_own e st v a2 a1' ho x hx (i x) with h | h
        · exact Or.inl (p2 hx h)
        · exact Or.inr ⟨ho, p3 hx h⟩
      · left
        apply p2 hx
        exact (i x).of_sameAt (notarB_other e st v a2 ho x hx) (fun y hy => hy) (fun h => Or.inl h)
  | skip =>
    obtain ⟨_, a2, _, _⟩ := adm_skip_facts st v hk ha
    have t := countSkip_tail e { st with vSkip := st.vSkip ++ [v.signer], sNotarOrSkip := st.sNotarOrSkip + e.stake v.signer } (e.stake v.signer) false
    have t1 : (countOf e st v).1 = (skipTail e (skipB e st v)).1 := by
      unfold countOf; simp only [hk]; exact congrArg Prod.fst t
    rw [t1]
    left
    exact skipTail_cinv e _ (skipB_pre e st v (fun h => by rw [← h]; exact a2) i) x
  | sf =>
    have t := countSkip_tail e { st with vSf := st.vSf ++ [v.signer] } (e.stake v.signer) true
    have t1 : (countOf e st v).1 = (skipTail e { st with vSf := st.vSf ++ [v.signer], sSf := st.sSf + e.stake v.signer }).1 := by
      unfold countOf; simp only [hk]; exact congrArg Prod.fst t
    rw [t1]
    left
    apply skipTail_cinv
    intro y
    left
    exact (i y).of_same ⟨rfl, rfl, rfl, rfl, rfl, rfl, rfl, rfl⟩ (fun z hz => hz) (fun h => Or.inl h)
  | nf =>
    left
    have t1 : (countOf e st v).1 = { st with vNf := st.vNf ++ [(v.signer, v.hash)], sNf := addTo st.sNf v.hash (e.stake v.signer) } := by
      unfold countOf; simp only [hk]; rfl
    rw [t1]
    exact (i x).of_same ⟨rfl, rfl, rfl, rfl, rfl, rfl, rfl, rfl⟩ (fun z hz => hz) (fun h => Or.inl h)
  | final =>
    left
    have t1 : (countOf e st v).1 = { st with vFin := st.vFin ++ [v.signer], sFin := st.sFin + e.stake v.signer } := by
      unfold countOf; simp only [hk]; rfl
    rw [t1]
    exact (i x).of_same ⟨rfl, rfl, rfl, rfl, rfl, rfl, rfl, rfl⟩ (fun z hz => hz) (fun h => Or.inl h)

theorem addCert_ps (a : SlotState) (c : Cert) : (a.addCert c).pending = a.pending := by
  unfold SlotState.addCert
  cases c.kind <;> dsimp only
  · split <;> rfl

theorem addCerts_ps (cs : List Cert) (a : SlotState) : (cs.foldl SlotState.addCert a).pending = a.pending := by
  induction cs generalizing a with
  | nil => rfl
  | cons c cs ih => exact (ih _).trans (addCert_ps a c)

theorem lookup_map_certified (l : List (Nat × Bool)) (h x : Nat) :
    (l.map (fun p => if p.1 == h then (p.1, true) else p)).lookup x =
      if x = h then (l.lookup x).map (fun _ => true) else l.lookup x := by
  induction l with
  | nil => simp
  | cons p ps ih =>
    obtain ⟨a, b⟩ := p
    simp only [List.map_cons]
    by_cases hax : x = a
    · subst hax
      by_cases hxh : x = h
      · subst hxh; simp [List.lookup]
      · have : (x == h) = false := by simpa using hxh
        simp [List.lookup, this, hxh]
    · have h1 : (x == a) = false := by simpa using hax
      by_cases hah : a = h
      · subst hah
        simp only [BEq.rfl, if_true, List.lookup, h1]; exact ih
      · have : (a == h) = false := by simpa using hah
        simp only [this, Bool.false_eq_true, if_false, List.lookup, h1]; exact ih

theorem lookup_append_known (l : List (Nat × Bool)) (h x : Nat) (hn : l.lookup h = none) :
    (l ++ [(h, false)]).lookup x = if x = h then some false else l.lookup x := by
  induction l with
  | nil =>
    by_cases hx : x = h
    · simp [List.lookup, hx]
    · have : (x == h) = false := by simpa using hx
      simp [List.lookup, hx, this]
  | cons p ps ih =>
    obtain ⟨a, b⟩ := p
    by_cases hah : h = a
    · subst hah; simp [List.lookup] at hn
    · have h1 : (h == a) = false := by simpa using hah
      simp only [List.lookup, h1] at hn
      by_cases hxa : x = a
      · subst hxa
        have : ¬ x = h := fun hh => hah hh.symm
        simp [List.lookup, this]
      · have h2 : (x == a) = false := by simpa using hxa
        simp only [List.cons_append, List.lookup, h2]; exact ih hn

/-- **completeness, every slot operation** -/
theorem slotStep_cinv (e : Epoch) (st : SlotState) (op : SlotOp) (i : CInv e st) : CInv e (slotStep e st op).1 := by
  cases op with
  | vote v =>
    simp only [slotStep]
    split
    · exact i
    · rename_i hadm
      have ha : Adm st v := by
        simp only [Bool.or_eq_true, not_or, Bool.not_eq_true, Option.isSome_eq_false_iff, Option.isNone_iff_eq_none] at hadm
        exact ⟨hadm.1, hadm.2⟩
      obtain ⟨g1, g2, _⟩ := addCerts_same (st.addVote e v).2.1 (st.addVote e v).1
      exact (addVote_cinv e st v ha i).of_eq g1 (addCerts_ps _ _) g2
  | cert c =>
    simp only [slotStep]
    split
    · exact i
    · obtain ⟨g1, g2, _⟩ := addCert_same st c
      exact i.of_eq g1 (addCert_ps st c) g2
  | parentKnown h =>
    simp only [slotStep, SlotState.notifyParentKnown]
    split
    · exact i
    · rename_i hn
      have hn' : st.parents.lookup h = none := by
        cases hh : st.parents.lookup h with
        | none => rfl
        | some b => rw [hh] at hn; simp at hn
      intro x
      by_cases hx : x = h
      · subst hx
        rcases i x with ii | ⟨n, c1, c2⟩
        · exact Or.inl ii
        · right
          refine ⟨fun c => ?_, c1, fun _ pc => ?_⟩
          · have := c.2.1
            dsimp only at this
            rw [lookup_append_known _ _ _ hn'] at this
            simp at this
          · dsimp only at pc
            rw [lookup_append_known _ _ _ hn'] at pc
            simp at pc
      · have sa : SameAt e st { st with parents := st.parents ++ [(h, false)] } x := by
          refine ⟨rfl, rfl, ?_, rfl, rfl⟩
          dsimp only
          rw [lookup_append_known _ _ _ hn']
          simp [hx]
        exact (i x).of_sameAt sa (fun y hy => hy) (fun hp => Or.inl hp)
  | parentCertified h =>
    simp only [slotStep]
    split
    · exact i
    · rename_i s evs hn
      unfold SlotState.notifyParentCertified at hn
      split at hn
      · cases hn
      · dsimp only at hn
        have frame : ∀ x, x ≠ h → HInv e { st with parents := st.parents.map (fun p => if p.1 == h then (p.1, true) else p) } x := by
          intro x hx
          have sa : SameAt e st { st with parents := st.parents.map (fun p => if p.1 == h then (p.1, true) else p) } x := by
            refine ⟨rfl, rfl, ?_, rfl, rfl⟩
            dsimp only
            rw [lookup_map_certified]
            simp [hx]
          exact (i x).of_sameAt sa (fun y hy => hy) (fun hp => Or.inl hp)
        split at hn
        · rename_i hg
          cases hn
          have hg' : h ∈ st.sent := by simpa [List.contains_eq_mem] using hg
          intro x
          by_cases hx : x = h
          · subst hx; exact Or.inl hg'
          · exact frame x hx
        · cases hn
          intro x
          by_cases hx : x = h
          · subst hx; exact checkS2N_settles e _ x
          · exact checkS2N_frame e _ h x hx (frame x hx)

theorem CInv.init (e : Epoch) (hpos : 0 < e.total) (slot : Nat) : CInv e { slot := slot } := by
  intro x
  right
  have hq : ∀ num den, 0 < num → isMet num den 0 e.total = false := by
    intro num den hn; unfold isMet; simp; exact Nat.ne_of_gt (Nat.mul_pos hpos hn)
  have hw : e.isWeakest (lookupD ({ slot := slot } : SlotState).sNotar x) = false := by
    unfold Epoch.isWeakest lookupD; exact hq _ _ (by decide)
  refine ⟨fun c => ?_, fun w => ?_, fun _ pc => ?_⟩
  · have := c.2.1; simp at this
  · rw [hw] at w; cases w
  · simp at pc

theorem slotRun_cinv (e : Epoch) (ops : List SlotOp) (st : SlotState) (i : CInv e st) : CInv e (slotRun e st ops).1 := by
  induction ops generalizing st with
  | nil => exact i
  | cons op ops ih => simp only [slotRun]; exact ih _ (slotStep_cinv e st op i)

/-! ### safe-to-skip -/

/-- whenever the safe-to-skip condition holds, the signal has been raised -/
def SInv (e : Epoch) (st : SlotState) : Prop := S2SCond e st → st.sentS2S = true

theorem SInv.frame {e : Epoch} {a b : SlotState} (h1 : a.sNotarOrSkip = b.sNotarOrSkip) (h2 : a.sTopNotar = b.sTopNotar)
    (h3 : a.vNotar = b.vNotar) (h4 : a.sentS2S = true → b.sentS2S = true) (i : SInv e a) : SInv e b := by
  intro c
  apply h4
  apply i
  unfold S2SCond at *
  rw [h1, h2, h3]; exact c

theorem SInv.of_same {e : Epoch} {a b : SlotState} (s : SameCond a b) (h4 : a.sentS2S = true → b.sentS2S = true)
    (i : SInv e a) : SInv e b := i.frame s.nos s.top s.vNotar h4

theorem s2sCheck_sinv (e : Epoch) (st : SlotState) : SInv e (st.s2sCheck e).1 := by
  unfold SlotState.s2sCheck
  split
  · intro _; rfl
  · rename_i hc
    intro c
    unfold S2SCond at c
    cases hs : st.sentS2S
    · exfalso; apply hc; simp [hs, c.1, c.2]
    · rfl

theorem recheckPending_sinv (e : Epoch) (st : SlotState) (hs : List Nat) (i : SInv e st) :
    SInv e (SlotState.recheckPending e st hs []).1 := by
  obtain ⟨c, _, m⟩ := recheckPending_emit e st hs
  exact i.of_same c m.s2sMono

theorem countOf_sinv (e : Epoch) (st : SlotState) (v : Vote) (i : SInv e st) : SInv e (countOf e st v).1 := by
  cases hk : v.kind with
  | notar =>
    have t := countNotar_tail e { st with vNotar := st.vNotar ++ [(v.signer, v.hash)] } v.hash (e.stake v.signer)
    have t1 : (countOf e st v).1 = (notarTail e (notarB e st v) v.hash).1 := by
      unfold countOf; simp only [hk]; exact congrArg Prod.fst t
    rw [t1]; unfold notarTail; split <;> exact s2sCheck_sinv e _
  | skip =>
    have t := countSkip_tail e { st with vSkip := st.vSkip ++ [v.signer], sNotarOrSkip := st.sNotarOrSkip + e.stake v.signer } (e.stake v.signer) false
    have t1 : (countOf e st v).1 = (skipTail e (skipB e st v)).1 := by
      unfold countOf; simp only [hk]; exact congrArg Prod.fst t
    rw [t1]; unfold skipTail; exact s2sCheck_sinv e _
  | sf =>
    have t := countSkip_tail e { st with vSf := st.vSf ++ [v.signer] } (e.stake v.signer) true
    have t1 : (countOf e st v).1 = (skipTail e { st with vSf := st.vSf ++ [v.signer], sSf := st.sSf + e.stake v.signer }).1 := by
      unfold countOf; simp only [hk]; exact congrArg Prod.fst t
    rw [t1]; unfold skipTail; exact s2sCheck_sinv e _
  | nf =>
    have t1 : (countOf e st v).1 = { st with vNf := st.vNf ++ [(v.signer, v.hash)], sNf := addTo st.sNf v.hash (e.stake v.signer) } := by
      unfold countOf; simp only [hk]; rfl
    rw [t1]; exact i.frame rfl rfl rfl (fun h => h)
  | final =>
    have t1 : (countOf e st v).1 = { st with vFin := st.vFin ++ [v.signer], sFin := st.sFin + e.stake v.signer } := by
      unfold countOf; simp only [hk]; rfl
    rw [t1]; exact i.frame rfl rfl rfl (fun h => h)

theorem addVote_sinv (e : Epoch) (st : SlotState) (v : Vote) (i : SInv e st) : SInv e (st.addVote e v).1 := by
  rw [addVote_eq]
  unfold ownWrap
  split
  · exact recheckPending_sinv e _ _ (countOf_sinv e st v i)
  · exact countOf_sinv e st v i

theorem slotStep_sinv (e : Epoch) (st : SlotState) (op : SlotOp) (i : SInv e st) : SInv e (slotStep e st op).1 := by
  cases op with
  | vote v =>
    simp only [slotStep]
    split
    · exact i
    · obtain ⟨g1, _, g3⟩ := addCerts_same (st.addVote e v).2.1 (st.addVote e v).1
      exact (addVote_sinv e st v i).of_same g1 (fun h => by rw [g3]; exact h)
  | cert c =>
    simp only [slotStep]
    split
    · exact i
    · obtain ⟨g1, _, g3⟩ := addCert_same st c
      exact i.of_same g1 (fun h => by rw [g3]; exact h)
  | parentKnown h =>
    simp only [slotStep, SlotState.notifyParentKnown]
    split
    · exact i
    · exact i.frame rfl rfl rfl (fun h => h)
  | parentCertified h =>
    simp only [slotStep]
    split
    · exact i
    · rename_i s evs hn
      unfold SlotState.notifyParentCertified at hn
      split at hn
      · cases hn
      · dsimp only at hn
        split at hn
        · cases hn; exact i.frame rfl rfl rfl (fun h => h)
        · cases hn
          have c := checkS2N_same e { st with parents := st.parents.map (fun p => if p.1 == h then (p.1, true) else p) } h
          have f := checkS2N_sentS2S e { st with parents := st.parents.map (fun p => if p.1 == h then (p.1, true) else p) } h
          exact i.frame c.nos c.top c.vNotar (fun hh => by rw [f]; exact hh)

theorem slotRun_sinv (e : Epoch) (ops : List SlotOp) (st : SlotState) (i : SInv e st) : SInv e (slotRun e st ops).1 := by
  induction ops generalizing st with
  | nil => exact i
  | cons op ops ih => simp only [slotRun]; exact ih _ (slotStep_sinv e st op i)

theorem SInv.init (e : Epoch) (slot : Nat) : SInv e { slot := slot } := by
  intro c; have := c.2; simp at this

/-! ### every recorded signal was emitted as an event -/

/-- between `a` and `b` with events `evs`: whatever is new in `sent` / `sentS2S` was announced by an event of `evs` -/
structure Traced (a b : SlotState) (evs : List Event) : Prop where
  s2n : ∀ h ∈ b.sent, h ∈ a.sent ∨ h ∈ evs.filterMap s2nHash
  s2s : b.sentS2S = true → a.sentS2S = true ∨ evs.filter isS2S ≠ []

theorem Traced.of_eq {a b : SlotState} (h1 : b.sent = a.sent) (h2 : b.sentS2S = a.sentS2S) : Traced a b [] :=
  ⟨fun h hh => Or.inl (by rw [← h1]; exact hh), fun hh => Or.inl (by rw [← h2]; exact hh)⟩

theorem Traced.trans {a b c : SlotState} {e1 e2 : List Event} (t1 : Traced a b e1) (t2 : Traced b c e2) : Traced a c (e1 ++ e2) := by
  constructor
  · intro h hh
    rw [List.filterMap_append, List.mem_append]
    rcases t2.s2n h hh with x | x
    · rcases t1.s2n h x with y | y
      · exact Or.inl y
      · exact Or.inr (Or.inl y)
    · exact Or.inr (Or.inr x)
  · intro hh
    rw [List.filter_append]
    rcases t2.s2s hh with x | x
    · rcases t1.s2s x with y | y
      · exact Or.inl y
      · right; intro hc; exact y (List.append_eq_nil_iff.mp hc).1
    · right; intro hc; exact x (List.append_eq_nil_iff.mp hc).2

theorem Traced.of_left {a a' b : SlotState} {evs : List Event} (h1 : a'.sent = a.sent) (h2 : a'.sentS2S = a.sentS2S)
    (t : Traced a b evs) : Traced a' b evs :=
  ⟨fun h hh => by rw [h1]; exact t.s2n h hh, fun hh => by rw [h2]; exact t.s2s hh⟩

theorem Traced.of_right {a b b' : SlotState} {evs : List Event} (h1 : b'.sent = b.sent) (h2 : b'.sentS2S = b.sentS2S)
    (t : Traced a b evs) : Traced a b' evs :=
  ⟨fun h hh => t.s2n h (by rw [← h1]; exact hh), fun hh => t.s2s (by rw [← h2]; exact hh)⟩

theorem checkS2N_traced (e : Epoch) (st : SlotState) (h : Nat) :
    Traced st (st.checkS2N e h).1 (s2nOut (st.checkS2N e h).1.slot h (st.checkS2N e h).2) := by
  obtain ⟨_, hsafe, hnot⟩ := checkS2N_safe_iff e st h
  have hflag := checkS2N_sentS2S e st h
  constructor
  · intro x hx
    by_cases hr : (st.checkS2N e h).2 = .safe
    · rw [hsafe hr, mem_insertSet] at hx
      rcases hx with hx | hx
      · exact Or.inl hx
      · right; rw [hr]; simp [s2nOut, s2nHash, hx]
    · rw [hnot hr] at hx; exact Or.inl hx
  · intro hh; rw [hflag] at hh; exact Or.inl hh

theorem recheckPending_traced (e : Epoch) (st : SlotState) (hs : List Nat) :
    Traced st (SlotState.recheckPending e st hs []).1 (SlotState.recheckPending e st hs []).2 := by
  have gen : ∀ (hs : List Nat) (st : SlotState) (acc : List Event),
      ∃ new, (SlotState.recheckPending e st hs acc).2 = acc ++ new ∧ Traced st (SlotState.recheckPending e st hs acc).1 new := by
    intro hs
    induction hs with
    | nil => intro st acc; exact ⟨[], by simp [SlotState.recheckPending], Traced.of_eq rfl rfl⟩
    | cons h hs ih =>
      intro st acc
      unfold SlotState.recheckPending
      split
      · exact ih st acc
      · obtain ⟨new, hev, t⟩ := ih (st.checkS2N e h).1 (acc ++ s2nOut (st.checkS2N e h).1.slot h (st.checkS2N e h).2)
        exact ⟨s2nOut (st.checkS2N e h).1.slot h (st.checkS2N e h).2 ++ new, by rw [hev, List.append_assoc],
          (checkS2N_traced e st h).trans t⟩
  obtain ⟨new, hev, t⟩ := gen hs st []
  simp only [List.nil_append] at hev
  rw [hev]; exact t

theorem s2sCheck_traced (e : Epoch) (st : SlotState) : Traced st (st.s2sCheck e).1 (st.s2sCheck e).2 := by
  unfold SlotState.s2sCheck
  split
  · exact ⟨fun h hh => Or.inl hh, fun _ => Or.inr (by simp [isS2S])⟩
  · exact Traced.of_eq rfl rfl

theorem notarTail_traced (e : Epoch) (A : SlotState) (h : Nat) : Traced A (notarTail e A h).1 (notarTail e A h).2 := by
  unfold notarTail
  split
  · exact (checkS2N_traced e A h).trans (s2sCheck_traced e _)
  · simp only [List.nil_append]; exact s2sCheck_traced e A

theorem skipTail_traced (e : Epoch) (A : SlotState) : Traced A (skipTail e A).1 (skipTail e A).2 := by
  unfold skipTail
  exact (recheckPending_traced e A A.pending).trans (s2sCheck_traced e _)

theorem countOf_traced (e : Epoch) (st : SlotState) (v : Vote) : Traced st (countOf e st v).1 (countOf e st v).2.2 := by
  cases hk : v.kind with
  | notar =>
    have t := countNotar_tail e { st with vNotar := st.vNotar ++ [(v.signer, v.hash)] } v.hash (e.stake v.signer)
    have t1 : ((countOf e st v).1, (countOf e st v).2.2) = notarTail e (notarB e st v) v.hash := by
      unfold countOf; simp only [hk]; exact t
    rw [congrArg Prod.fst t1, congrArg Prod.snd t1]
    exact (notarTail_traced e _ _).of_left (a := notarB e st v) rfl rfl
  | skip =>
    have t := countSkip_tail e { st with vSkip := st.vSkip ++ [v.signer], sNotarOrSkip := st.sNotarOrSkip + e.stake v.signer } (e.stake v.signer) false
    have t1 : ((countOf e st v).1, (countOf e st v).2.2) = skipTail e (skipB e st v) := by
      unfold countOf; simp only [hk]; exact t
    rw [congrArg Prod.fst t1, congrArg Prod.snd t1]
    exact (skipTail_traced e _).of_left (a := skipB e st v) rfl rfl
  | sf =>
    have t := countSkip_tail e { st with vSf := st.vSf ++ [v.signer] } (e.stake v.signer) true
    have t1 : ((countOf e st v).1, (countOf e st v).2.2) = skipTail e { st with vSf := st.vSf ++ [v.signer], sSf := st.sSf + e.stake v.signer } := by
      unfold countOf; simp only [hk]; exact t
    rw [congrArg Prod.fst t1, congrArg Prod.snd t1]
    exact (skipTail_traced e _).of_left (a := { st with vSf := st.vSf ++ [v.signer], sSf := st.sSf + e.stake v.signer }) rfl rfl
  | nf =>
    have t1 : (countOf e st v).1 = { st with vNf := st.vNf ++ [(v.signer, v.hash)], sNf := addTo st.sNf v.hash (e.stake v.signer) } := by
      unfold countOf; simp only [hk]; rfl
    have t2 : (countOf e st v).2.2 = [] := by
      unfold countOf; simp only [hk]; rfl
    rw [t1, t2]; exact Traced.of_eq rfl rfl
  | final =>
    have t1 : (countOf e st v).1 = { st with vFin := st.vFin ++ [v.signer], sFin := st.sFin + e.stake v.signer } := by
      unfold countOf; simp only [hk]; rfl
    have t2 : (countOf e st v).2.2 = [] := by
      unfold countOf; simp only [hk]; rfl
    rw [t1, t2]; exact Traced.of_eq rfl rfl

theorem addVote_traced (e : Epoch) (st : SlotState) (v : Vote) : Traced st (st.addVote e v).1 (st.addVote e v).2.2 := by
  rw [addVote_eq]
  unfold ownWrap
  split
  · exact (countOf_traced e st v).trans (recheckPending_traced e _ _)
  · exact countOf_traced e st v

theorem slotStep_traced (e : Epoch) (st : SlotState) (op : SlotOp) : Traced st (slotStep e st op).1 (slotStep e st op).2.2 := by
  cases op with
  | vote v =>
    simp only [slotStep]
    split
    · exact Traced.of_eq rfl rfl
    · obtain ⟨_, g2, g3⟩ := addCerts_same (st.addVote e v).2.1 (st.addVote e v).1
      exact (addVote_traced e st v).of_right g2 g3
  | cert c =>
    simp only [slotStep]
    split
    · exact Traced.of_eq rfl rfl
    · obtain ⟨_, g2, g3⟩ := addCert_same st c
      exact Traced.of_eq g2 g3
  | parentKnown h =>
    simp only [slotStep, SlotState.notifyParentKnown]
    split <;> exact Traced.of_eq rfl rfl
  | parentCertified h =>
    simp only [slotStep]
    split
    · exact ⟨fun h hh => Or.inl hh, fun hh => Or.inl hh⟩
    · rename_i s evs hn
      unfold SlotState.notifyParentCertified at hn
      split at hn
      · cases hn
      · dsimp only at hn
        split at hn
        · cases hn; exact Traced.of_eq rfl rfl
        · cases hn
          exact (checkS2N_traced e { st with parents := st.parents.map (fun p => if p.1 == h then (p.1, true) else p) } h).of_left
            (a := { st with parents := st.parents.map (fun p => if p.1 == h then (p.1, true) else p) }) rfl rfl

theorem slotRun_traced (e : Epoch) (ops : List SlotOp) (st : SlotState) : Traced st (slotRun e st ops).1 (slotRun e st ops).2.2 := by
  induction ops generalizing st with
  | nil => exact Traced.of_eq rfl rfl
  | cons op ops ih => simp only [slotRun]; exact (slotStep_traced e st op).trans (ih _)

/-! ### the conditions are monotone along a history -/

theorem addVote_same (e : Epoch) (st : SlotState) (v : Vote) : SameCond (st.stored e v) (st.addVote e v).1 := by
  rw [addVote_eq]
  have hw : SameCond (countOf e st v).1 (ownWrap e v (countOf e st v)).1 := by
    unfold ownWrap
    split
    · exact (recheckPending_emit e _ _).1
    · exact SameCond.refl _
  refine SameCond.trans ?_ hw
  cases hk : v.kind with
  | notar =>
    have t := countNotar_tail e { st with vNotar := st.vNotar ++ [(v.signer, v.hash)] } v.hash (e.stake v.signer)
    have t1 : (countOf e st v).1 = (notarTail e (notarB e st v) v.hash).1 := by
      unfold countOf; simp only [hk]; exact congrArg Prod.fst t
    have t2 : st.stored e v = notarB e st v := by unfold SlotState.stored notarB; simp only [hk]
    rw [t1, t2]; exact (notarTail_emit e _ _).1
  | skip =>
    have t := countSkip_tail e { st with vSkip := st.vSkip ++ [v.signer], sNotarOrSkip := st.sNotarOrSkip + e.stake v.signer } (e.stake v.signer) false
    have t1 : (countOf e st v).1 = (skipTail e (skipB e st v)).1 := by
      unfold countOf; simp only [hk]; exact congrArg Prod.fst t
    have t2 : st.stored e v = skipB e st v := by unfold SlotState.stored skipB; simp only [hk]
    rw [t1, t2]; exact (skipTail_emit e _).1
  | sf =>
    have t := countSkip_tail e { st with vSf := st.vSf ++ [v.signer] } (e.stake v.signer) true
    have t1 : (countOf e st v).1 = (skipTail e { st with vSf := st.vSf ++ [v.signer], sSf := st.sSf + e.stake v.signer }).1 := by
      unfold countOf; simp only [hk]; exact congrArg Prod.fst t
    have t2 : st.stored e v = { st with vSf := st.vSf ++ [v.signer], sSf := st.sSf + e.stake v.signer } := by
      unfold SlotState.stored; simp only [hk]
    rw [t1, t2]; exact (skipTail_emit e _).1
  | nf =>
    have t1 : (countOf e st v).1 = { st with vNf := st.vNf ++ [(v.signer, v.hash)], sNf := addTo st.sNf v.hash (e.stake v.signer) } := by
      unfold countOf; simp only [hk]; rfl
    have t2 : st.stored e v = { st with vNf := st.vNf ++ [(v.signer, v.hash)], sNf := addTo st.sNf v.hash (e.stake v.signer) } := by
      unfold SlotState.stored; simp only [hk]
    rw [t1, t2]; exact SameCond.refl _
  | final =>
    have t1 : (countOf e st v).1 = { st with vFin := st.vFin ++ [v.signer], sFin := st.sFin + e.stake v.signer } := by
      unfold countOf; simp only [hk]; rfl
    have t2 : st.stored e v = { st with vFin := st.vFin ++ [v.signer], sFin := st.sFin + e.stake v.signer } := by
      unfold SlotState.stored; simp only [hk]
    rw [t1, t2]; exact SameCond.refl _

theorem stakeClause_mono {e : Epoch} {a b : SlotState} {h : Nat} (h1 : lookupD a.sNotar h ≤ lookupD b.sNotar h)
    (h2 : a.sSkip ≤ b.sSkip) (c : stakeClause e a h = true) : stakeClause e b h = true := by
  unfold stakeClause Epoch.isWeakest Epoch.isWeak Epoch.isQuorum at *
  simp only [Bool.and_eq_true, Bool.or_eq_true] at *
  refine ⟨isMet_mono h1 c.1, ?_⟩
  rcases c.2 with c2 | c2
  · exact Or.inl (isMet_mono h1 c2)
  · exact Or.inr (isMet_mono (by omega) c2)

theorem stored_mono (e : Epoch) (st : SlotState) (v : Vote) (ha : Adm st v) (h : Nat) (c : S2NCond e st h) :
    S2NCond e (st.stored e v) h := by
  obtain ⟨c1, c2, c3⟩ := c
  cases hk : v.kind with
  | notar =>
    obtain ⟨_, a2, _⟩ := adm_notar_facts st v hk ha
    have t2 : st.stored e v = notarB e st v := by unfold SlotState.stored notarB; simp only [hk]
    rw [t2]
    refine ⟨stakeClause_mono (a := st) ?_ (Nat.le_refl _) c1, c2, ?_⟩
    · unfold notarB; dsimp only; rw [lookupD_addTo]; omega
    · unfold ownVotedNot notarB at *
      dsimp only
      rw [lookup_after_store _ _ _ _ a2]
      by_cases ho : e.own = v.signer
      · rw [ho, a2] at c3
        simp only [Bool.or_false] at c3
        rw [← ho] at c3
        rw [c3]; rfl
      · simp only [ho, if_false]; exact c3
  | skip =>
    have t2 : st.stored e v = skipB e st v := by unfold SlotState.stored skipB; simp only [hk]
    rw [t2]
    refine ⟨stakeClause_skipB e st v h c1, c2, ?_⟩
    unfold ownVotedNot skipB at *
    dsimp only
    rw [contains_append_single]
    simp only [Bool.or_eq_true] at *
    rcases c3 with c3 | c3
    · exact Or.inl (Or.inl c3)
    · exact Or.inr c3
  | sf =>
    have t2 : st.stored e v = { st with vSf := st.vSf ++ [v.signer], sSf := st.sSf + e.stake v.signer } := by
      unfold SlotState.stored; simp only [hk]
    rw [t2]; exact ⟨c1, c2, c3⟩
  | nf =>
    have t2 : st.stored e v = { st with vNf := st.vNf ++ [(v.signer, v.hash)], sNf := addTo st.sNf v.hash (e.stake v.signer) } := by
      unfold SlotState.stored; simp only [hk]
    rw [t2]; exact ⟨c1, c2, c3⟩
  | final =>
    have t2 : st.stored e v = { st with vFin := st.vFin ++ [v.signer], sFin := st.sFin + e.stake v.signer } := by
      unfold SlotState.stored; simp only [hk]
    rw [t2]; exact ⟨c1, c2, c3⟩

/-- the safe-to-notar condition, once true, stays true -/
theorem slotStep_mono (e : Epoch) (st : SlotState) (op : SlotOp) (h : Nat) (c : S2NCond e st h) :
    S2NCond e (slotStep e st op).1 h := by
  cases op with
  | vote v =>
    simp only [slotStep]
    split
    · exact c
    · rename_i hadm
      have ha : Adm st v := by
        simp only [Bool.or_eq_true, not_or, Bool.not_eq_true, Option.isSome_eq_false_iff, Option.isNone_iff_eq_none] at hadm
        exact ⟨hadm.1, hadm.2⟩
      obtain ⟨g1, _, _⟩ := addCerts_same (st.addVote e v).2.1 (st.addVote e v).1
      exact ((stored_mono e st v ha h c).of_same (addVote_same e st v)).of_same g1
  | cert c' =>
    simp only [slotStep]
    split
    · exact c
    · exact c.of_same (addCert_same st c').1
  | parentKnown x =>
    simp only [slotStep, SlotState.notifyParentKnown]
    split
    · exact c
    · rename_i hn
      have hn' : st.parents.lookup x = none := by
        cases hh : st.parents.lookup x with
        | none => rfl
        | some b => rw [hh] at hn; simp at hn
      refine ⟨c.1, ?_, c.2.2⟩
      dsimp only
      rw [lookup_append_known _ _ _ hn']
      by_cases hx : h = x
      · subst hx; have := c.2.1; rw [hn'] at this; cases this
      · simp only [hx, if_false]; exact c.2.1
  | parentCertified x =>
    simp only [slotStep]
    split
    · exact c
    · rename_i s evs hn
      unfold SlotState.notifyParentCertified at hn
      split at hn
      · cases hn
      · dsimp only at hn
        have cB : S2NCond e { st with parents := st.parents.map (fun p => if p.1 == x then (p.1, true) else p) } h := by
          refine ⟨c.1, ?_, c.2.2⟩
          dsimp only
          rw [lookup_map_certified, c.2.1]
          split <;> rfl
        split at hn
        · cases hn; exact cB
        · cases hn; exact cB.of_same (checkS2N_same e _ x)

theorem slotRun_append (e : Epoch) (st : SlotState) (a b : List SlotOp) :
    slotRun e st (a ++ b) = ((slotRun e (slotRun e st a).1 b).1, (slotRun e st a).2.1 ++ (slotRun e (slotRun e st a).1 b).2.1,
      (slotRun e st a).2.2 ++ (slotRun e (slotRun e st a).1 b).2.2) := by
  induction a generalizing st with
  | nil => simp [slotRun]
  | cons op a ih => simp only [List.cons_append, slotRun, ih, List.append_assoc]

end AgModel.Pool
