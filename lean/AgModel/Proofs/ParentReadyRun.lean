import AgModel.Proofs.ParentReadyExact
/-!
Whole runs of the parent-ready tracker: operations, `run`, the ghost history `hist` of a run, the premise `SafeRun`,
and the run invariant (`reach_inv`).  (Definitions and helper lemmas for `Props/C07.lean`; also used by the pool-level
wiring in `Proofs/PoolWiring.lean`.)
-/
namespace AgModel.ParentReady

/-- the operations of `ParentReadyTracker` -/
inductive Op where
  | nf (b : Nat × Nat)           -- `mark_notar_fallback`
  | skip (s : Nat)               -- `mark_skipped`
  | fin (ev : Finality.Event)    -- `handle_finalization`
  | prune (r : Nat)              -- `prune`
  | wait (s : Nat)               -- `wait_for_parent_ready`
deriving DecidableEq, Repr

/-- the two `assert!`s of `parent_ready_state.rs` -/
inductive Panic where
  | readyAssert    -- `add_to_ready`: `assert!(!ready_ids.contains(&id))`
  | waiterAssert   -- `wait_for_parent_ready`: `assert!(maybe_waiter.is_none())`
deriving DecidableEq, Repr

/-- one operation: new tracker, announced `(slot, parent)` pairs, wake-ups -/
def applyOp (t : Tracker) : Op → Except Panic (Tracker × List (Nat × (Nat × Nat)) × List Wake)
  | .nf b => match markNotarFallback t b with | some r => .ok r | none => .error .readyAssert
  | .skip s => match markSkipped t s with | some r => .ok r | none => .error .readyAssert
  | .fin ev => match handleFinalization t ev with | some r => .ok r | none => .error .readyAssert
  | .prune r => .ok (prune t r, [], [])
  | .wait s =>
    match waitForParentReady t s with
    | .ready t' _ => .ok (t', [], [])
    | .waiting t' => .ok (t', [], [])
    | .panic => .error .waiterAssert

/-- tracker, all announcements so far (concatenated, in order), all wake-ups so far -/
structure RunState where
  t : Tracker
  ann : List (Nat × (Nat × Nat))
  wakes : List Wake

def RunState.step (st : RunState) (op : Op) : Except Panic RunState :=
  match applyOp st.t op with
  | .ok (t', a, w) => .ok ⟨t', st.ann ++ a, st.wakes ++ w⟩
  | .error e => .error e

def runStep (acc : Except Panic RunState) (op : Op) : Except Panic RunState :=
  match acc with
  | .ok st => st.step op
  | .error e => .error e

/-- a run from `ParentReadyTracker::default()` -/
def run (ops : List Op) : Except Panic RunState := ops.foldl runStep (.ok ⟨init, [], []⟩)

/-- the ghost history, one operation -/
def Hist.step (h : Hist) : Op → Hist
  | .nf b => h.nfMark b
  | .skip s => h.skMark s
  | .fin ev => h.finMark ev
  | .prune r => h.pruneTo r
  | .wait _ => h

/-- the ghost history of a run (a function of the operations alone): accepted marks, root, prune roots -/
def hist (ops : List Op) : Hist := ops.foldl Hist.step {}

/-- **The premise on pruning** (decidable, on the operation list): prune roots are monotone, and no slot used as a
    prune root is ever (before or after) *accepted* as a skip mark — unless it is the first slot of a window
    (then its ready list is retained and the backward walk of `mark_skipped` ends there anyway).
    The pool only prunes to a finalized slot, and a finalized slot is never skip-certified. -/
def SafeRun (ops : List Op) : Prop :=
  (hist ops).mono = true ∧ ∀ r ∈ (hist ops).roots, isWindowStart r = true ∨ r ∉ (hist ops).sk

instance (ops : List Op) : Decidable (SafeRun ops) := by unfold SafeRun; infer_instance

instance (h : Hist) (s : Nat) (b : Nat × Nat) : Decidable (Connected h s b) :=
  decidable_of_iff (b.1 < s ∧ b ∈ h.nf ∧ ∀ u, u < s → b.1 < u → u ∈ h.sk)
    ⟨fun ⟨a, c, d⟩ => ⟨a, c, fun u x y => d u y x⟩, fun ⟨a, c, d⟩ => ⟨a, c, fun u x y => d u y x⟩⟩

/-- the slots `wait_for_parent_ready` was called for -/
def waitSlots (ops : List Op) : List Nat := ops.filterMap (fun | .wait s => some s | _ => none)

/-! ### helper lemmas about runs -/

theorem snoc_induction {α : Type} {P : List α → Prop} (nil : P []) (snoc : ∀ l a, P l → P (l ++ [a])) :
    ∀ l, P l := by
  intro l
  have : ∀ r : List α, P r.reverse := by
    intro r
    induction r with
    | nil => exact nil
    | cons a r ih => rw [List.reverse_cons]; exact snoc _ _ ih
  simpa using this l.reverse

theorem hist_snoc (ops : List Op) (op : Op) : hist (ops ++ [op]) = (hist ops).step op := by
  unfold hist; rw [List.foldl_append]; rfl

theorem run_snoc (ops : List Op) (op : Op) : run (ops ++ [op]) = runStep (run ops) op := by
  unfold run; rw [List.foldl_append]; rfl

theorem nfMark_same (h : Hist) (b : Nat × Nat) :
    (h.nfMark b).root = h.root ∧ (h.nfMark b).sk = h.sk ∧ (h.nfMark b).roots = h.roots ∧ (h.nfMark b).mono = h.mono := by
  unfold Hist.nfMark; split <;> exact ⟨rfl, rfl, rfl, rfl⟩

theorem skMark_same (h : Hist) (s : Nat) :
    (h.skMark s).root = h.root ∧ (h.skMark s).roots = h.roots ∧ (h.skMark s).mono = h.mono := by
  unfold Hist.skMark; split <;> exact ⟨rfl, rfl, rfl⟩

theorem foldl_nfMark_same (bs : List (Nat × Nat)) (h : Hist) :
    (bs.foldl Hist.nfMark h).root = h.root ∧ (bs.foldl Hist.nfMark h).sk = h.sk ∧
    (bs.foldl Hist.nfMark h).roots = h.roots ∧ (bs.foldl Hist.nfMark h).mono = h.mono := by
  induction bs generalizing h with
  | nil => exact ⟨rfl, rfl, rfl, rfl⟩
  | cons b bs ih =>
    rw [List.foldl_cons]
    obtain ⟨a1, a2, a3, a4⟩ := ih (h.nfMark b)
    obtain ⟨b1, b2, b3, b4⟩ := nfMark_same h b
    exact ⟨a1.trans b1, a2.trans b2, a3.trans b3, a4.trans b4⟩

theorem foldl_skMark_same (ss : List Nat) (h : Hist) :
    (ss.foldl Hist.skMark h).root = h.root ∧ (ss.foldl Hist.skMark h).roots = h.roots ∧
    (ss.foldl Hist.skMark h).mono = h.mono := by
  induction ss generalizing h with
  | nil => exact ⟨rfl, rfl, rfl⟩
  | cons b bs ih =>
    rw [List.foldl_cons]
    obtain ⟨a1, a3, a4⟩ := ih (h.skMark b)
    obtain ⟨b1, b3, b4⟩ := skMark_same h b
    exact ⟨a1.trans b1, a3.trans b3, a4.trans b4⟩

theorem finMark_same (h : Hist) (ev : Finality.Event) :
    (h.finMark ev).root = h.root ∧ (h.finMark ev).roots = h.roots ∧ (h.finMark ev).mono = h.mono := by
  unfold Hist.finMark
  obtain ⟨a1, a3, a4⟩ := foldl_skMark_same ev.implSkipped ((ev.finalized.toList ++ ev.implFinalized).foldl Hist.nfMark h)
  obtain ⟨b1, _, b3, b4⟩ := foldl_nfMark_same (ev.finalized.toList ++ ev.implFinalized) h
  exact ⟨a1.trans b1, a3.trans b3, a4.trans b4⟩

/-- the history only grows -/
theorem step_mono (h : Hist) (op : Op) :
    (∀ x, x ∈ h.sk → x ∈ (h.step op).sk) ∧ (∀ r, r ∈ h.roots → r ∈ (h.step op).roots) ∧
    ((h.step op).mono = true → h.mono = true) := by
  cases op with
  | nf b => obtain ⟨_, a2, a3, a4⟩ := nfMark_same h b; exact ⟨fun x hx => by rw [Hist.step, a2]; exact hx,
      fun r hr => by rw [Hist.step, a3]; exact hr, fun hm => by rw [Hist.step, a4] at hm; exact hm⟩
  | skip s => obtain ⟨_, a3, a4⟩ := skMark_same h s; exact ⟨fun x hx => skMark_sk_mono h s hx,
      fun r hr => by rw [Hist.step, a3]; exact hr, fun hm => by rw [Hist.step, a4] at hm; exact hm⟩
  | fin ev =>
    obtain ⟨_, a3, a4⟩ := finMark_same h ev
    refine ⟨fun x hx => ?_, fun r hr => by rw [Hist.step, a3]; exact hr, fun hm => by rw [Hist.step, a4] at hm; exact hm⟩
    exact foldl_skMark_sk_mono _ _ (by rw [foldl_nfMark_sk]; exact hx)
  | prune r =>
    refine ⟨fun x hx => hx, fun r hr => List.mem_cons_of_mem _ hr, fun hm => ?_⟩
    simp only [Hist.step, Hist.pruneTo, Bool.and_eq_true] at hm
    exact hm.1
  | wait s => exact ⟨fun x hx => hx, fun r hr => hr, fun hm => hm⟩

/-- the premise is prefix-closed -/
theorem SafeRun.prefix {ops : List Op} {op : Op} (h : SafeRun (ops ++ [op])) : SafeRun ops := by
  unfold SafeRun at *
  rw [hist_snoc] at h
  obtain ⟨m1, m2, m3⟩ := step_mono (hist ops) op
  refine ⟨m3 h.1, fun r hr => ?_⟩
  rcases h.2 r (m2 r hr) with a | a
  · exact Or.inl a
  · exact Or.inr (fun hm => a (m1 r hm))

theorem root_mem (ops : List Op) : (hist ops).root = 0 ∨ (hist ops).root ∈ (hist ops).roots := by
  induction ops using snoc_induction with
  | nil => exact Or.inl rfl
  | snoc ops op ih =>
    rw [hist_snoc]
    cases op with
    | nf b => obtain ⟨a1, _, a3, _⟩ := nfMark_same (hist ops) b; rw [Hist.step, a1, a3]; exact ih
    | skip s => obtain ⟨a1, a3, _⟩ := skMark_same (hist ops) s; rw [Hist.step, a1, a3]; exact ih
    | fin ev => obtain ⟨a1, a3, _⟩ := finMark_same (hist ops) ev; rw [Hist.step, a1, a3]; exact ih
    | prune r => exact Or.inr List.mem_cons_self
    | wait s => exact ih

theorem SafeRun.rootOK {ops : List Op} (h : SafeRun ops) : RootOK (hist ops) := by
  rcases root_mem ops with e | hm
  · left; rw [e]; decide
  · exact h.2 _ hm

/-- what the induction over a run carries -/
structure RInv (ops : List Op) (st : RunState) : Prop where
  inv : Inv (hist ops) st.t
  annNodup : st.ann.Nodup
  annReady : ∀ s b, (s, b) ∈ st.ann → (hist ops).root ≤ s → b ∈ (get st.t s).ready
  waited : ∀ s, (get st.t s).waiter = true → s ∈ waitSlots ops

theorem waitSlots_snoc (ops : List Op) (op : Op) :
    waitSlots (ops ++ [op]) = waitSlots ops ++ (match op with | .wait s => [s] | _ => []) := by
  unfold waitSlots
  rw [List.filterMap_append]
  cases op <;> rfl

/-- a (composite) mark keeps the run invariant -/
theorem rinv_mark {ops : List Op} {op : Op} {st : RunState} (ri : RInv ops st) {t' : Tracker}
    {a : List (Nat × (Nat × Nat))} {w : List Wake}
    (hinv : Inv (hist (ops ++ [op])) t') (hstep : Step st.t t' a w) (hroot : (hist (ops ++ [op])).root = (hist ops).root) :
    RInv (ops ++ [op]) ⟨t', st.ann ++ a, st.wakes ++ w⟩ := by
  refine ⟨hinv, ?_, ?_, ?_⟩
  · show (st.ann ++ a).Nodup
    rw [List.nodup_append]
    refine ⟨ri.annNodup, hstep.annNodup, ?_⟩
    intro x hx y hy e
    subst e
    obtain ⟨r, _, m⟩ := hstep.annNew x.1 x.2 hy
    rw [ri.inv.root] at r
    exact m (ri.annReady x.1 x.2 hx r)
  · intro s b hm hs
    rw [hroot] at hs
    obtain ⟨l, hl⟩ := hstep.ext s
    rcases List.mem_append.mp hm with hm | hm
    · show b ∈ (get t' s).ready
      rw [hl]; exact List.mem_append_left _ (ri.annReady s b hm hs)
    · exact (hstep.annNew s b hm).2.1
  · intro s hs
    rw [waitSlots_snoc]
    exact List.mem_append_left _ (ri.waited s ((hstep.waiter s).mp hs).1)

/-- **Every run that respects the premise keeps the invariant** (in particular never hits the `assert!` of
    `add_to_ready`); the only possible panic is a second waiter for a slot. -/
theorem reach_inv (ops : List Op) (hs : SafeRun ops) :
    (∃ st, run ops = .ok st ∧ RInv ops st) ∨ (run ops = .error .waiterAssert ∧ ¬ (waitSlots ops).Nodup) := by
  induction ops using snoc_induction with
  | nil =>
    left
    refine ⟨⟨init, [], []⟩, rfl, inv_init, List.nodup_nil, fun _ _ h => (by cases h), ?_⟩
    intro s hw
    have := inv_init.waiter s
    simp only [get, init] at hw
    split at hw <;> cases hw
  | snoc ops op ih =>
    rcases ih hs.prefix with ⟨st, hrun, ri⟩ | ⟨herr, hnd⟩
    · rw [run_snoc, hrun]
      have hok := hs.rootOK
      rw [hist_snoc] at hok
      cases op with
      | nf b =>
        obtain ⟨t', a, w, e, inv', stp, _⟩ := nf_step ri.inv b
        left
        refine ⟨⟨t', st.ann ++ a, st.wakes ++ w⟩, by simp only [runStep, RunState.step, applyOp, e], ?_⟩
        exact rinv_mark ri (by rw [hist_snoc]; exact inv') stp (by rw [hist_snoc]; exact (nfMark_same _ b).1)
      | skip s =>
        obtain ⟨t', a, w, e, inv', stp, _⟩ := skip_step ri.inv s hok
        left
        refine ⟨⟨t', st.ann ++ a, st.wakes ++ w⟩, by simp only [runStep, RunState.step, applyOp, e], ?_⟩
        exact rinv_mark ri (by rw [hist_snoc]; exact inv') stp (by rw [hist_snoc]; exact (skMark_same _ s).1)
      | fin ev =>
        obtain ⟨t', a, w, e, inv', stp⟩ := fin_step ri.inv ev hok
        left
        refine ⟨⟨t', st.ann ++ a, st.wakes ++ w⟩, by simp only [runStep, RunState.step, applyOp, e], ?_⟩
        exact rinv_mark ri (by rw [hist_snoc]; exact inv') stp (by rw [hist_snoc]; exact (finMark_same _ ev).1)
      | prune r =>
        left
        have hmono : (hist ops).root ≤ r := by
          have := hs.1
          rw [hist_snoc] at this
          simp only [Hist.step, Hist.pruneTo, Bool.and_eq_true, decide_eq_true_eq] at this
          exact this.2
        refine ⟨⟨prune st.t r, st.ann ++ [], st.wakes ++ []⟩, rfl, ?_, ?_, ?_, ?_⟩
        · rw [hist_snoc]; exact prune_step ri.inv hmono
        · show (st.ann ++ []).Nodup
          rw [List.append_nil]; exact ri.annNodup
        · intro s b hm hr
          rw [hist_snoc] at hr
          have hr' : r ≤ s := hr
          show b ∈ (get (prune st.t r) s).ready
          rw [get_prune, if_neg (by omega)]
          exact ri.annReady s b (by simpa using hm) (by omega)
        · intro s hw
          rw [waitSlots_snoc]
          apply List.mem_append_left
          change (get (prune st.t r) s).waiter = true at hw
          rw [get_prune] at hw
          split at hw
          · cases hw
          · exact ri.waited s hw
      | wait s =>
        have hw := wait_step ri.inv s
        simp only [runStep, RunState.step, applyOp]
        cases hres : waitForParentReady st.t s with
        | ready t' b =>
          rw [hres] at hw
          obtain ⟨inv', _, hrd, hwt, _⟩ := hw
          left
          refine ⟨⟨t', st.ann ++ [], st.wakes ++ []⟩, rfl, by rw [hist_snoc]; exact inv', ?_, ?_, ?_⟩
          · show (st.ann ++ []).Nodup
            rw [List.append_nil]; exact ri.annNodup
          · intro x p hm hr
            rw [hist_snoc] at hr
            show p ∈ (get t' x).ready
            rw [hrd]; exact ri.annReady x p (by simpa using hm) hr
          · intro x hx
            change (get t' x).waiter = true at hx
            rw [hwt] at hx
            rw [waitSlots_snoc]; exact List.mem_append_left _ (ri.waited x hx)
        | waiting t' =>
          rw [hres] at hw
          obtain ⟨inv', _, hrd, hwt, _⟩ := hw
          left
          refine ⟨⟨t', st.ann ++ [], st.wakes ++ []⟩, rfl, by rw [hist_snoc]; exact inv', ?_, ?_, ?_⟩
          · show (st.ann ++ []).Nodup
            rw [List.append_nil]; exact ri.annNodup
          · intro x p hm hr
            rw [hist_snoc] at hr
            show p ∈ (get t' x).ready
            rw [hrd]; exact ri.annReady x p (by simpa using hm) hr
          · intro x hx
            change (get t' x).waiter = true at hx
            rw [waitSlots_snoc]
            rcases (hwt x).mp hx with e | hx
            · subst e; exact List.mem_append_right _ (List.mem_singleton.mpr rfl)
            · exact List.mem_append_left _ (ri.waited x hx)
        | panic =>
          rw [hres] at hw
          right
          refine ⟨rfl, ?_⟩
          rw [waitSlots_snoc]
          intro hnd
          have := (List.nodup_append.mp hnd).2.2 s (ri.waited s hw.1) s (List.mem_singleton.mpr rfl)
          exact this rfl
    · right
      rw [run_snoc, herr]
      refine ⟨rfl, ?_⟩
      rw [waitSlots_snoc]
      intro h
      exact hnd (List.nodup_append.mp h).1


/-! ### the premise: syntactic ingredients -/

/-- the arguments of the `prune` calls, in order -/
def pruneArgs (ops : List Op) : List Nat := ops.flatMap (fun | .prune r => [r] | _ => [])
/-- all slots ever submitted as skip marks (directly or as implicit skips of a finalization event) -/
def skipArgs (ops : List Op) : List Nat := ops.flatMap (fun | .skip s => [s] | .fin ev => ev.implSkipped | _ => [])

theorem mem_foldl_skMark {ss : List Nat} {h : Hist} {x : Nat} (hx : x ∈ (ss.foldl Hist.skMark h).sk) :
    x ∈ h.sk ∨ x ∈ ss := by
  induction ss generalizing h with
  | nil => exact Or.inl hx
  | cons s ss ih =>
    rcases ih hx with h1 | h1
    · unfold Hist.skMark at h1
      split at h1
      · exact Or.inl h1
      · rcases List.mem_cons.mp h1 with e | h2
        · exact Or.inr (e ▸ List.mem_cons_self)
        · exact Or.inl h2
    · exact Or.inr (List.mem_cons_of_mem _ h1)

theorem hist_sk_sub (ops : List Op) : ∀ x, x ∈ (hist ops).sk → x ∈ skipArgs ops := by
  induction ops using snoc_induction with
  | nil => intro x hx; cases hx
  | snoc ops op ih =>
    intro x hx
    rw [hist_snoc] at hx
    unfold skipArgs
    rw [List.flatMap_append, List.mem_append]
    cases op with
    | nf b => rw [Hist.step, (nfMark_same _ b).2.1] at hx; exact Or.inl (ih x hx)
    | skip s =>
      rcases @mem_foldl_skMark [s] _ _ hx with h1 | h1
      · exact Or.inl (ih x h1)
      · right; simpa using h1
    | fin ev =>
      rcases mem_foldl_skMark hx with h1 | h1
      · rw [foldl_nfMark_sk] at h1; exact Or.inl (ih x h1)
      · right; simpa using h1
    | prune r => exact Or.inl (ih x hx)
    | wait s => exact Or.inl (ih x hx)

theorem hist_roots (ops : List Op) :
    (∀ r, r ∈ (hist ops).roots → r ∈ pruneArgs ops) ∧ ((hist ops).root = 0 ∨ (hist ops).root ∈ pruneArgs ops) := by
  induction ops using snoc_induction with
  | nil => exact ⟨fun r hr => (by cases hr), Or.inl rfl⟩
  | snoc ops op ih =>
    rw [hist_snoc]
    unfold pruneArgs at *
    simp only [List.flatMap_append, List.mem_append]
    cases op with
    | nf b => obtain ⟨a1, _, a3, _⟩ := nfMark_same (hist ops) b; rw [Hist.step, a1, a3]
              exact ⟨fun r hr => Or.inl (ih.1 r hr), ih.2.imp id Or.inl⟩
    | skip s => obtain ⟨a1, a3, _⟩ := skMark_same (hist ops) s; rw [Hist.step, a1, a3]
                exact ⟨fun r hr => Or.inl (ih.1 r hr), ih.2.imp id Or.inl⟩
    | fin ev => obtain ⟨a1, a3, _⟩ := finMark_same (hist ops) ev; rw [Hist.step, a1, a3]
                exact ⟨fun r hr => Or.inl (ih.1 r hr), ih.2.imp id Or.inl⟩
    | prune r =>
      refine ⟨fun r' hr => ?_, Or.inr (Or.inr (by simp [Hist.step, Hist.pruneTo]))⟩
      rcases List.mem_cons.mp hr with e | h1
      · right; simp [e]
      · exact Or.inl (ih.1 r' h1)
    | wait s => exact ⟨fun r hr => Or.inl (ih.1 r hr), ih.2.imp id Or.inl⟩

theorem hist_mono_of_sorted (ops : List Op) (h : (pruneArgs ops).Pairwise (· ≤ ·)) : (hist ops).mono = true := by
  induction ops using snoc_induction with
  | nil => rfl
  | snoc ops op ih =>
    have hp : pruneArgs (ops ++ [op]) = pruneArgs ops ++ pruneArgs [op] := by
      unfold pruneArgs; rw [List.flatMap_append]
    rw [hp, List.pairwise_append] at h
    have ih' := ih h.1
    rw [hist_snoc]
    cases op with
    | nf b => rw [Hist.step, (nfMark_same _ b).2.2.2]; exact ih'
    | skip s => rw [Hist.step, (skMark_same _ s).2.2]; exact ih'
    | fin ev => rw [Hist.step, (finMark_same _ ev).2.2]; exact ih'
    | prune r =>
      simp only [Hist.step, Hist.pruneTo, Bool.and_eq_true, decide_eq_true_eq]
      refine ⟨ih', ?_⟩
      rcases (hist_roots ops).2 with e | hm
      · omega
      · exact h.2.2 _ hm r (by simp [pruneArgs])
    | wait s => exact ih'

end AgModel.ParentReady
