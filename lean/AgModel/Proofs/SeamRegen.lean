import AgModel.Props.C12Seam
/-! The link between the coarse decoding environment (`Blockstore.Content`, an environment lookup by interned slice
    root) and the fine reconstruction (`Shred.deshred`: Reed-Solomon, Merkle tree rebuild, `fill_missing_shreds`
    re-signing by reuse of the verified leader signature): `Codeword`, `Faithful`, and `RegenBacked` as a theorem. -/
set_option linter.unusedSimpArgs false
namespace AgModel.Seam
open AgModel.Shred (Env VShred Cached Sig Bytes validate VErr CacheSound)
open AgModel.Blockstore (SlotData Event Content AddRes)
open AgModel.Merkle AgModel.Pad

/-- `R` is the slice root of a code word: the root of the Merkle tree `build_merkle_tree` makes over 64 shards of one
    length (what `RawShreds` of `ReedSolomonCoder::{shred, deshred}` are) -/
def Codeword (env : Env) (R : H) : Prop :=
  ∃ shards : List Bytes, shards.length = 64 ∧ (Tree.new (shards.map env.leafId)).root = R ∧
    ∃ n, ∀ d ∈ shards, d.length = n

/-- **the abstraction relation between the coarse decoding environment and the fine reconstruction**: the coarse
    `deshred` (lookup `cenv (rid R)`) answers "decodes" only for roots the fine `Shredder::deshred` can accept at all -
    its final `check_merkle_tree` compares the tree rebuilt over the 64 re-encoded shards with the root the stored
    shreds were validated against. Holds for the environments the harness supplies (what a leader encoded:
    `faithful_of_leader`) and for every environment that re-checks its answer (`checkedCenv_faithful`). -/
def Faithful (env : Env) (rid : RootId) (cenv : Nat → Content) : Prop :=
  ∀ R p t, cenv (rid R) = .ok p t → Codeword env R

/-- the shred `fill_missing_shreds` creates at index `j` from the code word `shards` and a stored shred `x` (its
    header and its verified signature are reused; the Merkle path comes from the rebuilt tree) -/
def regenShred (env : Env) (shards : List Bytes) (x : VShred) (j : Nat) : VShred :=
  Shred.mkShred x.shred.header DATA (Tree.new (shards.map env.leafId)) x.shred.sig j (shards.getD j [])

/-- **`RegenBacked` is a theorem for faithful environments.** If the coarse environment says the root of a backed
    shred `f` decodes, the shred the coarse `refill` puts at index `j` is the abstraction of the fine shred
    `fill_missing_shreds` builds there - header and signature of the stored shred, payload = shard `j` of the code
    word, Merkle path from the rebuilt tree - and that fine shred passes `try_new(_, None, leader)`: the signature is
    over (slot, slice, last flag, root) and the rebuilt tree has that root; the size class agrees because the stored
    shred's payload *is* a shard of the code word (Merkle binding, C15 / C12 `root_binds_position`). -/
theorem regenBacked_of_faithful (env : Env) (L : env.Laws) (cenv : Nat → Content) (rid : RootId) (pk slot : Nat)
    (hF : Faithful env rid cenv) : RegenBacked env cenv rid pk slot := by
  intro f j p t hj he hb
  obtain ⟨x, ⟨hx, hfx⟩, hs⟩ := hb
  have he' : cenv (rid x.root) = .ok p t := by rw [hfx] at he; exact he
  obtain ⟨shards, hlen, hroot, n, hn⟩ := hF _ _ _ he'
  obtain ⟨hcons, hsig, _, hxeq⟩ := (Shred.accept_iff_signed env x.shred pk none trivial x).mp hx
  have hxr : x.root = x.shred.sliceRoot env := by
    have := congrArg VShred.root hxeq; simpa using this
  have hne : shards ≠ [] := by intro h; rw [h] at hlen; cases hlen
  obtain ⟨_, h2, _, h4⟩ := Shred.root_binds_position env L shards hne (by rw [hlen]; decide) x.shred hcons
    (by rw [← hxr, hroot])
  have hh : (Tree.new (shards.map env.leafId)).height ≤ 6 := by
    rw [new_def]; exact WF.height_le _ 6 (by rw [List.length_map, hlen]; decide)
  have hidx : x.shred.index < 64 := by
    have : 2 ^ (Tree.new (shards.map env.leafId)).height ≤ 2 ^ 6 := Nat.pow_le_pow_right (by decide) hh
    omega
  obtain ⟨hdata, _⟩ := h4 (by omega)
  have hj64 : j < 64 := hj
  have hjl : j < shards.length := by omega
  have hgetD : shards.getD j [] = shards[j] := by
    rw [List.getD_eq_getElem?_getD, List.getElem?_eq_getElem hjl]; rfl
  -- the Merkle proof the rebuilt tree creates for position j verifies against its root
  have hl : (shards.map env.leafId).length = 64 := by simp [hlen]
  have hc := complete (shards.map env.leafId) j (by rw [hl]; exact hj64) (by rw [hl]; decide)
  have hleaf : (shards.map env.leafId).getD j 0 = env.leafId shards[j] := by
    rw [List.getD_eq_getElem?_getD, List.getElem?_map, List.getElem?_eq_getElem hjl]; rfl
  rw [hleaf] at hc
  unfold checkProof checkHashProof at hc
  simp only [Bool.and_eq_true, decide_eq_true_eq] at hc
  obtain ⟨⟨_, hz⟩, hr⟩ := hc
  rw [deriveRootIdx_snd] at hz
  refine ⟨regenShred env shards x j, ⟨?_, ?_⟩, hs⟩
  · refine (Shred.accept_iff_signed env _ pk none trivial _).mpr ⟨?_, ?_, (by intro e he; cases he), ?_⟩
    · simp only [regenShred, Shred.mkShred, Shred.Shred.indexConsumed, decide_eq_true_eq]; exact decide_eq_true hz
    · simp only [regenShred, Shred.mkShred, Shred.Shred.claimed, Shred.Shred.sliceRoot, hgetD]
      rw [hr, hsig]
      simp only [Shred.Shred.claimed, ← hxr, ← hroot]
    · simp only [regenShred, Shred.mkShred, Shred.Shred.sliceRoot, hgetD]
      rw [hr]
  · rw [hfx]
    have hsz : szClass shards[j] = szClass x.shred.data := by
      unfold szClass
      rw [hdata, hn _ (List.getElem_mem hjl), hn _ (List.getElem_mem _)]
    have hD : DATA = 32 := DATA_eq
    simp only [absShred, regenShred, Shred.mkShred, hgetD, hsz, hroot, Shred.Shred.typeOk, Blockstore.Shred.mk.injEq,
      true_and]
    simp

/-- the root of the tree a (model) leader builds over its 64 raw shreds is a code word root -/
theorem leader_root_codeword (env : Env) (L : env.Laws) (v : Shred.Variant) (sl : Shred.Slice) (key : Bytes) :
    Codeword env (Shred.leaderTree env v sl key).root :=
  ⟨_, Shred.rawsOf_length env _ v.nData L (Shred.nData_le v), rfl, _,
    fun d hd => Shred.rawsOf_size env _ v.nData L (Shred.nData_le v) d hd⟩

/-- **the harness's kind of environment is faithful**: an environment that says "decodes" only for (interned) roots
    of slices some leader shredded with one of the four shredders -/
theorem faithful_of_leader (env : Env) (L : env.Laws) (rid : RootId) (hinj : ∀ a b, rid a = rid b → a = b)
    (cenv : Nat → Content)
    (h : ∀ r p t, cenv r = .ok p t → ∃ v sl key, r = rid (Shred.leaderTree env v sl key).root) :
    Faithful env rid cenv := by
  intro R p t he
  obtain ⟨v, sl, key, hr⟩ := h _ p t he
  rw [hinj _ _ hr]
  exact leader_root_codeword env L v sl key

/-- an environment that re-checks what an arbitrary decoding oracle `dec` claims: it answers `ok` for `r` only if the
    oracle exhibits 64 shards of one length whose Merkle tree has a root interned as `r` (computable) -/
def checkedCenv (env : Env) (rid : RootId) (dec : Nat → Option (List Bytes × Content)) : Nat → Content := fun r =>
  match dec r with
  | none => .bad
  | some (shards, c) =>
    if shards.length = 64 ∧ rid (Tree.new (shards.map env.leafId)).root = r ∧
        shards.all (fun d => decide (d.length = (shards.headD []).length)) then c else .bad

theorem checkedCenv_faithful (env : Env) (rid : RootId) (hinj : ∀ a b, rid a = rid b → a = b)
    (dec : Nat → Option (List Bytes × Content)) : Faithful env rid (checkedCenv env rid dec) := by
  intro R p t he
  unfold checkedCenv at he
  split at he
  · cases he
  · rename_i shards c _
    split at he
    · rename_i hc
      obtain ⟨h1, h2, h3⟩ := hc
      refine ⟨shards, h1, hinj _ _ h2, (shards.headD []).length, ?_⟩
      intro d hd
      simpa using (List.all_eq_true.mp h3) d hd
    · cases he

end AgModel.Seam
