import AgModel.Model.ShredAbs
import AgModel.Proofs.SeamCache
import AgModel.Props.C12
/-! Refinement between the fine node (`Seam.FNode.handle`: raw shred → `try_new` with the commitment cache → blockstore)
    and the coarse blockstore model: characterisation of `validate`, the simulation invariant, the step lemma. -/
set_option linter.unusedSimpArgs false
namespace AgModel.Seam
open AgModel.Shred (Env VShred Cached Sig Bytes validate VErr CacheSound)
open AgModel.Blockstore (SlotData Event Content AddRes)

/-- what `try_new` answers for a shred that carries the leader's signature over its claimed commitment -/
def cacheVerdict (env : Env) (s : Shred.Shred) : Option Cached → Except VErr VShred
  | some e => if e.commitment ≠ s.claimed env then .error .equivocation else .ok ⟨s, s.sliceRoot env⟩
  | none => .ok ⟨s, s.sliceRoot env⟩

/-- `try_new` under a sound cache, in closed form -/
theorem validate_char (env : Env) (s : Shred.Shred) (cached : Option Cached) (pk : Nat) (hs : CacheSound pk cached) :
    validate env s cached pk =
      if s.indexConsumed = true ∧ s.sig = .signed pk (s.claimed env) then cacheVerdict env s cached
      else .error .invalidSignature := by
  unfold cacheVerdict validate Shred.Shred.claimed Sig.verify Cached.shortcuts
  cases hc : s.indexConsumed with
  | false => simp
  | true =>
    cases cached with
    | none =>
      by_cases hsig : s.sig = .signed pk (Shred.commit s.header (s.sliceRoot env)) <;> simp [hsig]
    | some e =>
      have hsnd : ∀ σ, e.sig = some σ → σ = .signed pk e.commitment := hs
      by_cases hsig : s.sig = .signed pk (Shred.commit s.header (s.sliceRoot env))
      · by_cases hcm : e.commitment = Shred.commit s.header (s.sliceRoot env) <;> simp [hsig, hcm]
      · have : ¬ (e.commitment = Shred.commit s.header (s.sliceRoot env) ∧ e.sig = some s.sig) := by
          rintro ⟨h1, h2⟩
          exact hsig (by rw [hsnd _ h2, h1])
        simp [hsig, this]

end AgModel.Seam

namespace AgModel.Seam
open AgModel.Shred (Env VShred Cached Sig Bytes validate VErr CacheSound)
open AgModel.Blockstore (SlotData Event Content AddRes)

/-- the simulation invariant between the fine commitment cache and the coarse one -/
structure Inv (rid : RootId) (pk : Nat) (n : FNode) : Prop where
  /-- every entry remembers only the leader's signature over its commitment (D34 `fix:`) -/
  sound : ∀ idx e, n.cachedEntry idx = some e → Cached.Sound pk e
  /-- the coarse cache is the abstraction of the fine one -/
  agree : ∀ idx, n.sd.dis.cache idx = (n.cachedEntry idx).map (fun e => absCommit rid e.commitment)
  /-- entries are filed under their own slot and slice index -/
  keyed : ∀ idx e, n.cachedEntry idx = some e → e.commitment.slot = n.slot ∧ e.commitment.sliceIdx = idx

theorem inv_new (rid : RootId) (pk cap slot : Nat) : Inv rid pk (FNode.new cap slot) := by
  constructor <;> simp [FNode.new, FNode.cachedEntry, SlotData.new, Blockstore.BlockData.new]

theorem cachedEntry_cons (n : FNode) (k : Nat) (e : Cached) (sd : SlotData) (idx : Nat) :
    ({ n with sd := sd, fc := (k, e) :: n.fc } : FNode).cachedEntry idx =
      if k = idx then some e else n.cachedEntry idx := by
  unfold FNode.cachedEntry
  by_cases h : k = idx <;> simp [List.find?_cons, h]

theorem absCommit_inj (rid : RootId) (hinj : ∀ a b, rid a = rid b → a = b) (c d : Shred.Commitment)
    (hslot : c.slot = d.slot) (h : absCommit rid c = absCommit rid d) : c = d := by
  cases c; cases d
  simp only [absCommit, Blockstore.Commitment.mk.injEq] at h
  simp only at hslot
  obtain ⟨h1, h2, h3⟩ := h
  simp [hslot, h1, h2, hinj _ _ h3]

theorem absShred_commitment (rid : RootId) (v : VShred) :
    (absShred rid v).commitment = absCommit rid v.commitment := rfl

/-- a delivery into a flagged slot does nothing -/
theorem addDissem_flagged (cenv : Nat → Content) (sd : SlotData) (cs : Blockstore.Shred) (h : sd.misbehaved = true) :
    (Blockstore.addDissem cenv sd cs).1 = sd ∧ (Blockstore.addDissem cenv sd cs).2.2 = [] := by
  unfold Blockstore.addDissem; simp [h]

theorem flag_flagged (sd : SlotData) (h : sd.misbehaved = true) : Blockstore.flag sd = (sd, []) := by
  unfold Blockstore.flag; simp [h]

/-- a conflicting commitment of fitting type: `add_shred` answers `Equivocation`, which flags -/
theorem addDissem_conflict (cenv : Nat → Content) (sd : SlotData) (cs : Blockstore.Shred) (c : Blockstore.Commitment)
    (hm : sd.misbehaved = false) (hty : cs.ty = true) (hc : sd.dis.cache cs.slice = some c) (hne : c ≠ cs.commitment) :
    (Blockstore.addDissem cenv sd cs).1 = (Blockstore.flag sd).1 ∧
      (Blockstore.addDissem cenv sd cs).2.2 = (Blockstore.flag sd).2 := by
  unfold Blockstore.addDissem Blockstore.addShred Blockstore.addShredCore Blockstore.cacheStep Blockstore.flag
  simp [hm, hty, hc, hne, Blockstore.isBadErr]

/-- a delivery of the wrong type into an unflagged slot changes nothing -/
theorem addDissem_wrongType (cenv : Nat → Content) (sd : SlotData) (cs : Blockstore.Shred)
    (hm : sd.misbehaved = false) (hty : cs.ty = false) :
    (Blockstore.addDissem cenv sd cs).1 = sd ∧ (Blockstore.addDissem cenv sd cs).2.2 = [] := by
  unfold Blockstore.addDissem Blockstore.addShred
  cases sd
  simp_all [Blockstore.isBadErr, Blockstore.evOf]

/-- the coarse cache after a delivery of fitting type into an unflagged slot -/
theorem addDissem_cache (cenv : Nat → Content) (sd : SlotData) (cs : Blockstore.Shred)
    (hm : sd.misbehaved = false) (hty : cs.ty = true) :
    (Blockstore.addDissem cenv sd cs).1.dis.cache =
      (match sd.dis.cache cs.slice with
        | some _ => sd.dis.cache
        | none => Blockstore.upd sd.dis.cache cs.slice (some cs.commitment)) := by
  have h := Blockstore.addShredCore_cache cenv sd.dis cs
  unfold Blockstore.addDissem Blockstore.addShred
  simp only [hm, hty, Bool.false_eq_true, if_false, Bool.not_true]
  cases hr : Blockstore.addShredCore cenv sd.dis cs with
  | mk b r =>
    rw [hr] at h
    simp only at h ⊢
    split
    · unfold Blockstore.flag; simp only [Bool.false_eq_true, if_false]; exact h
    · exact h

end AgModel.Seam

namespace AgModel.Seam
open AgModel.Shred (Env VShred Cached Sig Bytes validate VErr CacheSound)
open AgModel.Blockstore (SlotData Event Content AddRes)

theorem flag_dis (sd : SlotData) : (Blockstore.flag sd).1.dis = sd.dis := by
  unfold Blockstore.flag; split <;> rfl

theorem inv_of_same_cache (rid : RootId) (pk : Nat) (n n' : FNode) (hI : Inv rid pk n) (h1 : n'.slot = n.slot)
    (h2 : n'.fc = n.fc) (h3 : n'.sd.dis.cache = n.sd.dis.cache) : Inv rid pk n' := by
  have hce : ∀ idx, n'.cachedEntry idx = n.cachedEntry idx := by intro idx; unfold FNode.cachedEntry; rw [h2]
  constructor
  · intro idx e he; rw [hce] at he; exact hI.sound idx e he
  · intro idx; rw [hce, h3]; exact hI.agree idx
  · intro idx e he; rw [hce] at he; rw [h1]; exact hI.keyed idx e he

/-- the invariant after a vacant cache entry was filled on both sides -/
theorem inv_insert (rid : RootId) (pk : Nat) (n : FNode) (hI : Inv rid pk n) (sd : SlotData) (k : Nat) (e : Cached)
    (hs : Cached.Sound pk e) (hk : e.commitment.slot = n.slot ∧ e.commitment.sliceIdx = k)
    (hc : sd.dis.cache = Blockstore.upd n.sd.dis.cache k (some (absCommit rid e.commitment))) :
    Inv rid pk { n with sd := sd, fc := (k, e) :: n.fc } := by
  constructor
  · intro idx x hx
    rw [cachedEntry_cons] at hx
    split at hx
    · injection hx with hx; subst hx; exact hs
    · exact hI.sound idx x hx
  · intro idx
    rw [cachedEntry_cons]
    simp only [hc, Blockstore.upd]
    by_cases h : k = idx
    · simp [h]
    · have h' : ¬ idx = k := fun x => h x.symm
      simp only [h, h', if_false]; exact hI.agree idx
  · intro idx x hx
    rw [cachedEntry_cons] at hx
    split at hx
    · rename_i h; injection hx with hx; subst hx; subst h; exact hk
    · exact hI.keyed idx x hx

end AgModel.Seam

namespace AgModel.Seam
open AgModel.Shred (Env VShred Cached Sig Bytes validate VErr CacheSound)
open AgModel.Blockstore (SlotData Event Content AddRes)

/-- the step lemma of the simulation -/
theorem handle_refines (env : Env) (cenv : Nat → Content) (rid : RootId) (hinj : ∀ a b, rid a = rid b → a = b)
    (pk : Nat) (n : FNode) (hI : Inv rid pk n) (s : Shred.Shred) :
    Inv rid pk (n.handle env cenv rid pk s).1 ∧ (n.handle env cenv rid pk s).1.slot = n.slot ∧
    ((n.handle env cenv rid pk s).1.abs, (n.handle env cenv rid pk s).2) =
      (match absIn env rid pk n.slot s with
        | none => (n.abs, [])
        | some cs => addNode cenv n.abs cs) := by
  by_cases hslot : s.header.slot ≠ n.slot
  · unfold FNode.handle absIn
    rw [if_pos hslot, if_pos hslot]
    exact ⟨hI, rfl, rfl⟩
  · have hslot' : s.header.slot = n.slot := Decidable.not_not.mp hslot
    have hcs : CacheSound pk (n.cachedEntry s.header.sliceIdx) := by
      cases h : n.cachedEntry s.header.sliceIdx with
      | none => trivial
      | some e => exact hI.sound _ _ h
    have hv := validate_char env s (n.cachedEntry s.header.sliceIdx) pk hcs
    have hv0 := validate_char env s none pk trivial
    unfold FNode.handle absIn
    rw [if_neg hslot, if_neg hslot, hv, hv0]
    by_cases hok : s.indexConsumed = true ∧ s.sig = .signed pk (s.claimed env)
    · rw [if_pos hok, if_pos hok]
      simp only [FNode.abs, cacheVerdict]
      -- the stateless abstraction of the raw shred
      obtain ⟨cs, hcsd⟩ : ∃ cs, absShred rid ⟨s, s.sliceRoot env⟩ = cs := ⟨_, rfl⟩
      have hcty : cs.ty = s.typeOk := by rw [← hcsd]; rfl
      have hcsl : cs.slice = s.header.sliceIdx := by rw [← hcsd]; rfl
      have hccm : cs.commitment = absCommit rid (s.claimed env) := by rw [← hcsd]; rfl
      have hagree := hI.agree s.header.sliceIdx
      cases he : n.cachedEntry s.header.sliceIdx with
      | none =>
        rw [he] at hagree
        simp only [Option.map_none] at hagree
        have hnc : typedConflict n.sd cs = false := by
          unfold typedConflict; rw [hcsl, hagree]; simp
        simp only [cacheVerdict, hcsd, addNode, hnc, Bool.false_eq_true, if_false]
        cases hty : s.typeOk with
        | false =>
          simp only [Bool.not_false, if_true]
          refine ⟨hI, (by first | trivial | rfl), ?_⟩
          cases hm : n.sd.misbehaved with
          | true => obtain ⟨h1, h2⟩ := addDissem_flagged cenv n.sd cs hm; rw [h1, h2]
          | false => obtain ⟨h1, h2⟩ := addDissem_wrongType cenv n.sd cs hm (by rw [hcty, hty]); rw [h1, h2]
        | true =>
          simp only [Bool.not_true, Bool.false_eq_true, if_false]
          refine ⟨?_, (by first | trivial | rfl), (by first | trivial | rfl)⟩
          cases hm : n.sd.misbehaved with
          | true =>
            simp only [if_true]
            obtain ⟨h1, _⟩ := addDissem_flagged cenv n.sd cs hm
            exact inv_of_same_cache rid pk n _ hI rfl rfl (by simp only [h1])
          | false =>
            simp only [Bool.false_eq_true, if_false]
            have hc := addDissem_cache cenv n.sd cs hm (by rw [hcty, hty])
            rw [hcsl, hagree] at hc
            simp only at hc
            apply inv_insert rid pk n hI
            · intro σ hσ
              simp only [VShred.cacheEntry, Option.some.injEq] at hσ
              rw [← hσ]; exact hok.2
            · exact ⟨hslot', rfl⟩
            · rw [hc, hccm]; rfl
      | some e =>
        rw [he] at hagree
        simp only [Option.map_some] at hagree
        obtain ⟨hks, _⟩ := hI.keyed _ _ he
        by_cases hcm : e.commitment ≠ s.claimed env
        · -- a second validly signed commitment: the node flags; so does the coarse side
          simp only [cacheVerdict, if_pos hcm, hcsd]
          have hne : absCommit rid e.commitment ≠ cs.commitment := by
            rw [hccm]
            intro h
            exact hcm (absCommit_inj rid hinj _ _ (by rw [hks]; exact hslot'.symm) h)
          refine ⟨inv_of_same_cache rid pk n _ hI rfl rfl (by simp only [flag_dis]), (by first | trivial | rfl), ?_⟩
          cases hty : s.typeOk with
          | false =>
            have hnc : typedConflict n.sd cs = true := by
              unfold typedConflict; rw [hcsl, hagree, hcty, hty]; simp [hne]
            simp only [cacheVerdict, hcsd, addNode, hnc, if_true]
          | true =>
            have hnc : typedConflict n.sd cs = false := by
              unfold typedConflict; rw [hcty, hty]; simp
            simp only [cacheVerdict, hcsd, addNode, hnc, Bool.false_eq_true, if_false]
            cases hm : n.sd.misbehaved with
            | true =>
              obtain ⟨h1, h2⟩ := addDissem_flagged cenv n.sd cs hm
              rw [h1, h2, flag_flagged n.sd hm]
            | false =>
              obtain ⟨h1, h2⟩ := addDissem_conflict cenv n.sd cs _ hm (by rw [hcty, hty]) (by rw [hcsl]; exact hagree) hne
              rw [h1, h2]
        · have hcm' : e.commitment = s.claimed env := Decidable.not_not.mp hcm
          simp only [cacheVerdict, if_neg hcm, hcsd]
          have hnc : typedConflict n.sd cs = false := by
            unfold typedConflict; rw [hcsl, hagree, hccm, hcm']; simp
          simp only [cacheVerdict, hcsd, addNode, hnc, Bool.false_eq_true, if_false]
          cases hty : s.typeOk with
          | false =>
            simp only [Bool.not_false, if_true]
            refine ⟨hI, (by first | trivial | rfl), ?_⟩
            cases hm : n.sd.misbehaved with
            | true => obtain ⟨h1, h2⟩ := addDissem_flagged cenv n.sd cs hm; rw [h1, h2]
            | false => obtain ⟨h1, h2⟩ := addDissem_wrongType cenv n.sd cs hm (by rw [hcty, hty]); rw [h1, h2]
          | true =>
            simp only [Bool.not_true, Bool.false_eq_true, if_false]
            refine ⟨?_, (by first | trivial | rfl), (by first | trivial | rfl)⟩
            have hfc : (if n.sd.misbehaved = true then n.fc else n.fc) = n.fc := by split <;> rfl
            refine inv_of_same_cache rid pk n _ hI rfl ?_ ?_
            · exact hfc
            · cases hm : n.sd.misbehaved with
              | true => obtain ⟨h1, _⟩ := addDissem_flagged cenv n.sd cs hm; simp only [h1]
              | false =>
                have hc := addDissem_cache cenv n.sd cs hm (by rw [hcty, hty])
                rw [hcsl, hagree] at hc
                exact hc
    · rw [if_neg hok, if_neg hok]
      exact ⟨hI, rfl, rfl⟩

end AgModel.Seam
