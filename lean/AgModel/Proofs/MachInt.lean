import AgModel.Model.MachInt
/-!
Lemmas of the machine-integer layer: the checked primitives, then every function of `Model/MachInt.lean`:
when it panics and that it refines the Nat-level function of the existing models.
Only four facts about the constants are used (all `decide`d from `AgModel.Gen.Consts`):
`0 < W`, `W64.toNat = W` (W fits u64), `W ∣ 2^64` (`last_slot_in_window` relies on it!), `E64.toNat = E`.
-/
namespace AgModel.MachInt
open AgModel

/-! ### constants -/
theorem W_pos : 0 < W := by decide
theorem W64_toNat : W64.toNat = W := by decide
theorem E64_toNat : E64.toNat = E := by decide
theorem W64_ne : W64 ≠ 0 := by decide
/-- `SLOTS_PER_WINDOW` divides 2^64: the last window ends exactly at `u64::MAX`. -/
theorem W_dvd : 2 ^ 64 = W * (2 ^ 64 / W) := by decide
theorem MAX_toNat : MAX.toNat = 2 ^ 64 - 1 := by decide
theorem one_toNat : (1 : UInt64).toNat = 1 := by decide
theorem two_toNat : (2 : UInt64).toNat = 2 := by decide
theorem zero_toNat : (0 : UInt64).toNat = 0 := by decide

/-! ### checked primitives -/

theorem cadd_none {a b : UInt64} : cadd a b = none ↔ 2 ^ 64 ≤ a.toNat + b.toNat := by
  unfold cadd; split <;> simp <;> omega

theorem cadd_some {a b c : UInt64} (h : cadd a b = some c) :
    c.toNat = a.toNat + b.toNat ∧ a.toNat + b.toNat < 2 ^ 64 := by
  unfold cadd at h
  split at h
  · next hlt =>
    cases h
    rw [UInt64.toNat_add, Nat.mod_eq_of_lt hlt]; exact ⟨rfl, hlt⟩
  · cases h

theorem cadd_of_lt {a b : UInt64} (h : a.toNat + b.toNat < 2 ^ 64) :
    ∃ c, cadd a b = some c ∧ c.toNat = a.toNat + b.toNat := by
  refine ⟨a + b, ?_, ?_⟩
  · unfold cadd; rw [if_pos h]
  · rw [UInt64.toNat_add, Nat.mod_eq_of_lt h]

theorem csub_none {a b : UInt64} : csub a b = none ↔ a.toNat < b.toNat := by
  unfold csub; split <;> simp <;> omega

theorem csub_some {a b c : UInt64} (h : csub a b = some c) :
    c.toNat = a.toNat - b.toNat ∧ b.toNat ≤ a.toNat := by
  unfold csub at h
  split at h
  · next hle =>
    cases h
    exact ⟨UInt64.toNat_sub_of_le a b (UInt64.le_iff_toNat_le.mpr hle), hle⟩
  · cases h

theorem csub_of_le {a b : UInt64} (h : b.toNat ≤ a.toNat) :
    ∃ c, csub a b = some c ∧ c.toNat = a.toNat - b.toNat := by
  refine ⟨a - b, ?_, UInt64.toNat_sub_of_le a b (UInt64.le_iff_toNat_le.mpr h)⟩
  unfold csub; rw [if_pos h]

theorem cmul_none {a b : UInt64} : cmul a b = none ↔ 2 ^ 64 ≤ a.toNat * b.toNat := by
  unfold cmul; split <;> simp <;> omega

theorem cmul_some {a b c : UInt64} (h : cmul a b = some c) :
    c.toNat = a.toNat * b.toNat ∧ a.toNat * b.toNat < 2 ^ 64 := by
  unfold cmul at h
  split at h
  · next hlt =>
    cases h
    rw [UInt64.toNat_mul, Nat.mod_eq_of_lt hlt]; exact ⟨rfl, hlt⟩
  · cases h

theorem cmul_of_lt {a b : UInt64} (h : a.toNat * b.toNat < 2 ^ 64) :
    ∃ c, cmul a b = some c ∧ c.toNat = a.toNat * b.toNat := by
  refine ⟨a * b, ?_, ?_⟩
  · unfold cmul; rw [if_pos h]
  · rw [UInt64.toNat_mul, Nat.mod_eq_of_lt h]

theorem cdiv_W (s : UInt64) : cdiv s W64 = some (s / W64) := by
  unfold cdiv; rw [if_neg W64_ne]

theorem div_W_toNat (s : UInt64) : (s / W64).toNat = s.toNat / W := by
  rw [UInt64.toNat_div, W64_toNat]

/-- the u128 products of `is_met` / `Fraction::cmp` cannot overflow: `(2^64-1)^2 < 2^128` -/
theorem u64_mul_lt_u128 (a b : UInt64) : a.toNat * b.toNat < 2 ^ 128 := by
  have h : (2 ^ 64 * 2 ^ 64 : Nat) = 2 ^ 128 := by decide
  rw [← h]
  exact Nat.mul_lt_mul'' (UInt64.toNat_lt a) (UInt64.toNat_lt b)

theorem u64_max_sq_lt_u128 : (2 ^ 64 - 1) * (2 ^ 64 - 1) < 2 ^ 128 := by decide

theorem mul128_eq (a b : UInt64) : mul128 a b = some (a.toNat * b.toNat) := by
  unfold mul128; rw [if_pos (u64_mul_lt_u128 a b)]

/-! ### window arithmetic on `Nat` -/

theorem nat_first_le (s : Nat) : s / W * W ≤ s := Nat.div_mul_le_self s W

/-- the window of a u64 slot ends below 2^64 (needs `W ∣ 2^64`) -/
theorem nat_window_end {s : Nat} (h : s < 2 ^ 64) : s / W * W + W ≤ 2 ^ 64 := by
  have hq : s / W < 2 ^ 64 / W := by
    apply Nat.div_lt_of_lt_mul
    rw [← W_dvd]; exact h
  have h1 : (s / W + 1) * W ≤ (2 ^ 64 / W) * W := Nat.mul_le_mul_right W hq
  rw [Nat.add_mul, Nat.one_mul, Nat.mul_comm (2 ^ 64 / W) W, ← W_dvd] at h1
  exact h1

theorem nat_lt_window_end (s : Nat) : s < s / W * W + W := by
  have := Nat.lt_div_mul_add (a := s) W_pos
  omega

/-! ### slot.rs -/

theorem first_eq (s : UInt64) : first s = some (s / W64 * W64) ∧ (s / W64 * W64).toNat = s.toNat / W * W := by
  have hlt : (s / W64).toNat * W64.toNat < 2 ^ 64 := by
    rw [div_W_toNat, W64_toNat]
    exact Nat.lt_of_le_of_lt (nat_first_le _) (UInt64.toNat_lt s)
  constructor
  · simp only [first, cdiv_W, Option.bind_eq_bind, Option.bind_some]
    unfold cmul; rw [if_pos hlt]
  · rw [UInt64.toNat_mul, Nat.mod_eq_of_lt hlt, div_W_toNat, W64_toNat]

theorem Wm1 : ∃ k, csub W64 1 = some k ∧ k.toNat = W - 1 := by
  have h : (1 : UInt64).toNat ≤ W64.toNat := by rw [W64_toNat, one_toNat]; exact W_pos
  obtain ⟨k, hk, hk'⟩ := csub_of_le h
  exact ⟨k, hk, by rw [hk', W64_toNat, one_toNat]⟩

theorem last_eq (s : UInt64) : ∃ l, last s = some l ∧ l.toNat = s.toNat / W * W + (W - 1) := by
  obtain ⟨hf, hfn⟩ := first_eq s
  obtain ⟨k, hk, hkn⟩ := Wm1
  have hend := nat_window_end (UInt64.toNat_lt s)
  have hW := W_pos
  have hlt : (s / W64 * W64).toNat + k.toNat < 2 ^ 64 := by rw [hfn, hkn]; omega
  obtain ⟨c, hc, hcn⟩ := cadd_of_lt hlt
  refine ⟨c, ?_, by rw [hcn, hfn, hkn]⟩
  simp only [last, hf, hk, Option.bind_eq_bind, Option.bind_some, hc]

theorem lastOld_none (s : UInt64) : lastOld s = none ↔ 2 ^ 64 ≤ s.toNat + W := by
  obtain ⟨hf, hfn⟩ := first_eq s
  have hend := nat_window_end (UInt64.toNat_lt s)
  have hle := nat_first_le s.toNat
  have hlt := nat_lt_window_end s.toNat
  have hW := W_pos
  simp only [lastOld, hf, Option.bind_eq_bind, Option.bind_some]
  cases hc : cadd (s / W64 * W64) W64 with
  | none =>
    have := cadd_none.mp hc
    rw [hfn, W64_toNat] at this
    simp only [Option.bind_none, true_iff]
    -- first + W = 2^64: s is in the last window
    omega
  | some n =>
    obtain ⟨hn, hn'⟩ := cadd_some hc
    rw [hfn, W64_toNat] at hn hn'
    simp only [Option.bind_some]
    constructor
    · intro h
      have := csub_none.mp h
      rw [one_toNat] at this
      omega
    · intro h
      -- s + W >= 2^64 and first + W < 2^64 contradict W | 2^64: first + W is a multiple of W above s
      exfalso
      have e1 : W * (s.toNat / W + 1) = s.toNat / W * W + W := by
        rw [Nat.mul_add, Nat.mul_one, Nat.mul_comm]
      have hq : s.toNat / W + 1 < 2 ^ 64 / W := by
        apply Nat.lt_of_mul_lt_mul_left (a := W)
        rw [← W_dvd, e1]; omega
      have h1 : (s.toNat / W + 1 + 1) * W ≤ (2 ^ 64 / W) * W := Nat.mul_le_mul_right W hq
      rw [Nat.add_mul, Nat.add_mul, Nat.one_mul, Nat.mul_comm (2 ^ 64 / W) W, ← W_dvd] at h1
      omega

theorem beq_zero_toNat (r : UInt64) : (r == 0) = (r.toNat == 0) := by
  cases hb : (r == 0)
  · have h0 : r ≠ 0 := by simpa using hb
    have : r.toNat ≠ 0 := fun h => h0 (UInt64.toNat_inj.mp (by rw [h, zero_toNat]))
    simp [this]
  · have h0 : r = 0 := by simpa using hb
    subst h0; rfl

theorem isStart_eq (s : UInt64) : isStart s = ParentReady.isWindowStart s.toNat := by
  unfold isStart ParentReady.isWindowStart
  rw [if_neg W64_ne, beq_zero_toNat, UInt64.toNat_mod, W64_toNat]
  rfl

theorem next_none (s : UInt64) : next s = none ↔ s.toNat = 2 ^ 64 - 1 := by
  unfold next; rw [cadd_none, one_toNat]; have := UInt64.toNat_lt s; omega

theorem next_some {s n : UInt64} (h : next s = some n) : n.toNat = s.toNat + 1 := by
  have := (cadd_some h).1; rwa [one_toNat] at this

theorem prev_none (s : UInt64) : prev s = none ↔ s.toNat = 0 := by
  unfold prev; rw [csub_none, one_toNat]; omega

theorem prev_some {s p : UInt64} (h : prev s = some p) : p.toNat + 1 = s.toNat := by
  have := csub_some h; rw [one_toNat] at this; omega

theorem isGenesisWindow_eq (s : UInt64) : isGenesisWindow s = some (decide (s.toNat < W)) := by
  unfold isGenesisWindow
  rw [cdiv_W]
  simp only [Option.map_some, Option.some.injEq]
  have hW := W_pos
  have hd := div_W_toNat s
  cases hb : (s / W64 == 0)
  · have h0 : s / W64 ≠ 0 := by simpa using hb
    have h1 : (s / W64).toNat ≠ 0 := fun h => h0 (UInt64.toNat_inj.mp (by rw [h, zero_toNat]))
    rw [hd] at h1
    have : ¬ s.toNat < W := fun hlt => h1 (Nat.div_eq_of_lt hlt)
    simp [this]
  · have h0 : s / W64 = 0 := by simpa using hb
    rw [h0, zero_toNat] at hd
    have : s.toNat < W := by
      have := nat_lt_window_end s.toNat
      rw [← hd] at this; omega
    simp [this]

/-! ### ranges -/

theorem rangeIncl_toNat (lo hi : UInt64) (h : lo.toNat ≤ hi.toNat) :
    (rangeIncl lo hi).map UInt64.toNat = List.range' lo.toNat (hi.toNat + 1 - lo.toNat) := by
  unfold rangeIncl
  rw [List.range'_eq_map_range, List.map_map]
  apply List.map_congr_left
  intro i hi'
  have hi2 : i < hi.toNat + 1 - lo.toNat := List.mem_range.mp hi'
  have hh := UInt64.toNat_lt hi
  have hlt : i < 2 ^ 64 := by omega
  simp only [Function.comp]
  rw [UInt64.toNat_add, UInt64.toNat_ofNat', Nat.mod_eq_of_lt hlt, Nat.mod_eq_of_lt (by omega)]

theorem slotsInWindow_eq (s : UInt64) :
    ∃ l, slotsInWindow s = some l ∧ l.map UInt64.toNat = Votor.windowSlots s.toNat := by
  obtain ⟨hf, hfn⟩ := first_eq s
  obtain ⟨k, hk, hkn⟩ := Wm1
  have hend := nat_window_end (UInt64.toNat_lt s)
  have hW := W_pos
  have hlt : (s / W64 * W64).toNat + k.toNat < 2 ^ 64 := by rw [hfn, hkn]; omega
  obtain ⟨c, hc, hcn⟩ := cadd_of_lt hlt
  refine ⟨rangeIncl (s / W64 * W64) c, ?_, ?_⟩
  · simp only [slotsInWindow, hf, hk, Option.bind_eq_bind, Option.bind_some, hc]
  · rw [rangeIncl_toNat _ _ (by omega), hcn, hfn, hkn]
    unfold Votor.windowSlots Votor.firstInWindow
    have : s.toNat / W * W + (W - 1) + 1 - s.toNat / W * W = W := by omega
    rw [this]; rfl

theorem rangeFromTake_none (st : UInt64) (k : Nat) :
    rangeFromTake st k = none ↔ 1 ≤ k ∧ 2 ^ 64 ≤ st.toNat + k := by
  induction k generalizing st with
  | zero => simp [rangeFromTake]
  | succ k ih =>
    simp only [rangeFromTake, Option.bind_eq_bind]
    cases hc : cadd st 1 with
    | none =>
      have := cadd_none.mp hc; rw [one_toNat] at this
      simp only [Option.bind_none, true_iff]; omega
    | some n =>
      have hn := (cadd_some hc).1; rw [one_toNat] at hn
      simp only [Option.bind_some]
      cases hr : rangeFromTake n k with
      | none =>
        have := (ih n).mp hr
        simp only [Option.bind_none, true_iff]; omega
      | some l =>
        simp only [Option.bind_some]
        constructor
        · intro h; cases h
        · intro h
          have : rangeFromTake n k = none := (ih n).mpr (by
            have := (cadd_some hc).2; rw [one_toNat] at this
            omega)
          rw [hr] at this; cases this

theorem rangeFromTake_some (st : UInt64) (k : Nat) (l : List UInt64) (h : rangeFromTake st k = some l) :
    l.map UInt64.toNat = List.range' st.toNat k := by
  induction k generalizing st l with
  | zero => simp only [rangeFromTake, Option.some.injEq] at h; subst h; rfl
  | succ k ih =>
    simp only [rangeFromTake, Option.bind_eq_bind] at h
    cases hc : cadd st 1 with
    | none => rw [hc] at h; cases h
    | some n =>
      rw [hc] at h
      simp only [Option.bind_some] at h
      cases hr : rangeFromTake n k with
      | none => rw [hr] at h; cases h
      | some r =>
        rw [hr] at h
        simp only [Option.bind_some, Option.some.injEq] at h
        subst h
        have hn := (cadd_some hc).1; rw [one_toNat] at hn
        rw [List.map_cons, ih n r hr, hn, List.range'_succ]

theorem futureSlots_none (s : UInt64) (k : Nat) : futureSlots s k = none ↔ 2 ^ 64 ≤ s.toNat + k + 1 := by
  simp only [futureSlots, Option.bind_eq_bind]
  cases hc : cadd s 1 with
  | none =>
    have := cadd_none.mp hc; rw [one_toNat] at this
    simp only [Option.bind_none, true_iff]; omega
  | some n =>
    have hn := cadd_some hc; rw [one_toNat] at hn
    simp only [Option.bind_some]
    rw [rangeFromTake_none]
    omega

theorem futureSlots_some (s : UInt64) (k : Nat) (l : List UInt64) (h : futureSlots s k = some l) :
    l.map UInt64.toNat = List.range' (s.toNat + 1) k := by
  simp only [futureSlots, Option.bind_eq_bind] at h
  cases hc : cadd s 1 with
  | none => rw [hc] at h; cases h
  | some n =>
    rw [hc] at h
    simp only [Option.bind_some] at h
    have hn := (cadd_some hc).1; rw [one_toNat] at hn
    rw [rangeFromTake_some n k l h, hn]

/-! ### fraction.rs / epoch_info.rs -/

theorem isMet_eq (num den value total : UInt64) :
    isMet num den value total = some (Pool.isMet num.toNat den.toNat value.toNat total.toNat) := by
  simp only [isMet, mul128_eq, Option.bind_eq_bind, Option.bind_some, Pool.isMet]

theorem sumFrom_none (acc : UInt64) (l : List UInt64) :
    sumFrom acc l = none ↔ 2 ^ 64 ≤ acc.toNat + (l.map UInt64.toNat).sum := by
  induction l generalizing acc with
  | nil =>
    have := UInt64.toNat_lt acc
    simp only [sumFrom, List.map_nil, List.sum_nil, Nat.add_zero]
    constructor
    · intro h; cases h
    · intro h; omega
  | cons x xs ih =>
    simp only [sumFrom, Option.bind_eq_bind, List.map_cons, List.sum_cons]
    cases hc : cadd acc x with
    | none =>
      have := cadd_none.mp hc
      simp only [Option.bind_none, true_iff]; omega
    | some a =>
      have ha := (cadd_some hc).1
      simp only [Option.bind_some]
      rw [ih a, ha]; omega

theorem sumFrom_some (acc t : UInt64) (l : List UInt64) (h : sumFrom acc l = some t) :
    t.toNat = acc.toNat + (l.map UInt64.toNat).sum := by
  induction l generalizing acc with
  | nil => simp only [sumFrom, Option.some.injEq] at h; subst h; simp
  | cons x xs ih =>
    simp only [sumFrom, Option.bind_eq_bind] at h
    cases hc : cadd acc x with
    | none => rw [hc] at h; cases h
    | some a =>
      rw [hc] at h
      simp only [Option.bind_some] at h
      have ha := (cadd_some hc).1
      rw [ih a h, ha, List.map_cons, List.sum_cons]; omega

theorem leader_none (n s : UInt64) : leader n s = none ↔ n = 0 := by
  simp only [leader, cdiv_W, Option.bind_eq_bind, Option.bind_some]
  unfold cmod; split <;> simp_all

theorem leader_some {n s i : UInt64} (h : leader n s = some i) :
    i.toNat = Route.leader n.toNat s.toNat ∧ i.toNat < n.toNat := by
  simp only [leader, cdiv_W, Option.bind_eq_bind, Option.bind_some] at h
  unfold cmod at h
  split at h
  · cases h
  · next hn =>
    cases h
    have hn0 : n.toNat ≠ 0 := fun h0 => hn (UInt64.toNat_inj.mp (by rw [h0, zero_toNat]))
    rw [UInt64.toNat_mod, div_W_toNat]
    exact ⟨rfl, Nat.mod_lt _ (Nat.pos_of_ne_zero hn0)⟩

/-! ### admission window and the other raw slot expressions -/

theorem twoE : ∃ t, cmul 2 E64 = some t ∧ t.toNat = 2 * E := by
  have h : (2 : UInt64).toNat * E64.toNat < 2 ^ 64 := by decide
  obtain ⟨t, ht, htn⟩ := cmul_of_lt h
  exact ⟨t, ht, by rw [htn, two_toNat, E64_toNat]⟩

theorem farFuture_none (fin : UInt64) : farFuture fin = none ↔ 2 ^ 64 ≤ fin.toNat + 2 * E := by
  obtain ⟨t, ht, htn⟩ := twoE
  simp only [farFuture, ht, Option.bind_eq_bind, Option.bind_some]
  rw [cadd_none, htn]

theorem farFuture_some {fin ff : UInt64} (h : farFuture fin = some ff) : ff.toNat = fin.toNat + 2 * E := by
  obtain ⟨t, ht, htn⟩ := twoE
  simp only [farFuture, ht, Option.bind_eq_bind, Option.bind_some] at h
  rw [(cadd_some h).1, htn]

theorem pruneCursor_none (f : UInt64) (k : Nat) : pruneCursor f k = none ↔ 2 ^ 64 ≤ f.toNat + k + 1 := by
  induction k with
  | zero => rw [pruneCursor, next_none]; have := UInt64.toNat_lt f; omega
  | succ k ih =>
    simp only [pruneCursor, Option.bind_eq_bind]
    cases hc : pruneCursor f k with
    | none =>
      have := ih.mp hc
      simp only [Option.bind_none, true_iff]; omega
    | some c =>
      simp only [Option.bind_some]
      rw [next_none]
      have hnot : ¬ 2 ^ 64 ≤ f.toNat + k + 1 := fun h => by rw [ih.mpr h] at hc; cases hc
      -- value of the cursor
      have hval : c.toNat = f.toNat + k + 1 := by
        clear ih hnot
        induction k generalizing c with
        | zero => exact next_some hc
        | succ j ihj =>
          simp only [pruneCursor, Option.bind_eq_bind] at hc
          cases hj : pruneCursor f j with
          | none => rw [hj] at hc; cases hc
          | some d =>
            rw [hj] at hc
            simp only [Option.bind_some] at hc
            have h1 := next_some hc
            have h2 := ihj d hj
            omega
      omega

end AgModel.MachInt
