import AgModel.Model.Route
/-! Helper lemmas for `Props/C16.lean` (core Lean only). -/
namespace AgModel.Route

theorem mem_childPos (n f p q : Nat) :
    q ∈ childPos n f p ↔ (p * f + 1 ≤ q ∧ q < p * f + 1 + f ∧ q < n) := by
  unfold childPos
  simp only [List.mem_filter, List.mem_range'_1, decide_eq_true_eq]
  omega

end AgModel.Route
