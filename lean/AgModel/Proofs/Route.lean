import AgModel.Model.Route
/-! Helper lemmas for `Props/C16.lean` (core Lean only). -/
namespace AgModel.Route

theorem mem_childPos (n f p q : Nat) :
    q ∈ childPos n f p ↔ (p * f + 1 ≤ q ∧ q < p * f + 1 + f ∧ q < n) := by
  unfold childPos
  simp only [List.mem_filter, List.mem_range'_1, decide_eq_true_eq]
  omega

theorem parent_unique' (n f p q : Nat) (hq : 1 ≤ q) (hqn : q < n) (hf : 1 ≤ f) :
    q ∈ childPos n f p ↔ p = parentPos f q := by
  rw [mem_childPos]; unfold parentPos
  constructor
  · intro ⟨h1, h2, _⟩
    have : (q - 1) / f = p := by
      apply Nat.div_eq_of_lt_le
      · omega
      · rw [Nat.succ_mul]; omega
    omega
  · intro h
    subst h
    have h1 := Nat.div_mul_le_self (q - 1) f
    have h2 := Nat.lt_div_mul_add (a := q - 1) (b := f) (by omega)
    omega

/-! ### runs, Rotor -/

theorem run_leaves (fwd : Nat → Out) (fuel : Nat) (q : List Nat)
    (h : ∀ v ∈ q, fwd v = .to []) (hf : q.length ≤ fuel) : run fwd fuel q = q ∧ runOk fwd fuel q = true := by
  induction q generalizing fuel with
  | nil => cases fuel <;> simp [run, runOk]
  | cons v q ih =>
    cases fuel with
    | zero => simp at hf
    | succ fuel =>
      have hv := h v (by simp)
      simp only [run, runOk, hv, List.append_nil]
      have := ih fuel (fun w hw => h w (by simp [hw])) (by simpa using hf)
      simp [this]

theorem broadcastDests_length_le (n r l : Nat) : (broadcastDests n r l).length ≤ n := by
  unfold broadcastDests
  exact Nat.le_trans (List.length_filter_le _ _) (by simp)

theorem mem_broadcastDests (n r l v : Nat) : v ∈ broadcastDests n r l ↔ v < n ∧ v ≠ r ∧ v ≠ l := by
  unfold broadcastDests
  simp [List.mem_filter, List.mem_range]

theorem rotor_run_eq (n ldr : Nat) (committee : List Nat) (s r : Nat)
    (hc : committee[s]? = some r) (hr : r < n) :
    rotorRun n ldr committee s = r :: broadcastDests n r ldr ∧ rotorRunOk n ldr committee s = true := by
  have hrel : rotorRelay n committee s = some r := by simp [rotorRelay, hc, hr]
  have hsend : rotorSend n committee s = .to [r] := by simp [rotorSend, hrel]
  have hfr : rotorForward n ldr r committee s = .to (broadcastDests n r ldr) := by simp [rotorForward, hrel]
  have hleaf : ∀ v ∈ broadcastDests n r ldr, rotorForward n ldr v committee s = .to [] := by
    intro v hv
    have := (mem_broadcastDests n r ldr v).mp hv
    simp [rotorForward, hrel, this.2.1]
  have := run_leaves (fun v => rotorForward n ldr v committee s) n (broadcastDests n r ldr) hleaf
    (broadcastDests_length_le n r ldr)
  unfold rotorRun rotorRunOk
  simp only [hsend, outDests, run, runOk, hfr, List.nil_append, this]
  simp


theorem broadcastDests_nodup (n r l : Nat) : (broadcastDests n r l).Nodup :=
  List.Sublist.nodup List.filter_sublist List.nodup_range

theorem count_of_nodup {l : List Nat} (h : l.Nodup) (v : Nat) : l.count v = if v ∈ l then 1 else 0 := by
  by_cases hv : v ∈ l
  · have h1 := List.nodup_iff_count.mp h v
    have h2 := List.count_pos_iff.mpr hv
    simp [hv]; omega
  · simp [hv, List.count_eq_zero_of_not_mem hv]

theorem count_rotor (n ldr r v : Nat) (hr : r < n) (hv : v < n) :
    (r :: broadcastDests n r ldr).count v = if v = ldr then (if r = ldr then 1 else 0) else 1 := by
  rw [List.count_cons, count_of_nodup (broadcastDests_nodup n r ldr)]
  simp only [mem_broadcastDests, beq_iff_eq]
  by_cases h1 : v = ldr <;> by_cases h2 : r = v <;> simp_all <;> omega

/-! ### Turbine: positions, the FIFO run -/

theorem posOf_getElem (perm : List Nat) (hnd : perm.Nodup) (i : Nat) (h : i < perm.length) :
    posOf perm perm[i] = some i := by
  induction perm generalizing i with
  | nil => simp at h
  | cons x xs ih =>
    have ⟨hx, hxs⟩ := List.nodup_cons.mp hnd
    cases i with
    | zero => simp [posOf]
    | succ j =>
      have hj : j < xs.length := by simpa using h
      have hne : x ≠ xs[j] := fun e => hx (e ▸ List.getElem_mem hj)
      simp [posOf, hne, ih hxs j hj]

theorem turbineTree_getElem (perm : List Nat) (f : Nat) (hnd : perm.Nodup) (hf : 1 ≤ f)
    (hb : perm.length * f + 1 < 2 ^ 64) (i : Nat) (h : i < perm.length) :
    turbineTree perm f perm[i] = some (perm[0]'(by omega), (perm.drop (i * f + 1)).take f) := by
  have hle : i * f ≤ perm.length * f := Nat.mul_le_mul_right f (by omega)
  cases perm with
  | nil => simp at h
  | cons r rest =>
    unfold turbineTree
    simp only [posOf_getElem (r :: rest) hnd i h]
    have h1 : ¬ (i ≠ 0 ∧ f = 0) := by omega
    have h2 : ¬ (i * f + 1 ≥ 2 ^ 64) := by omega
    simp [h1, h2]

/-- queue algebra: remaining frontier ++ children of position i = next frontier -/
theorem frontier_step (perm : List Nat) (f i : Nat) (hf : 1 ≤ f) (hi : i < perm.length) :
    ((perm.drop (i + 1)).take (min perm.length (i * f + 1) - i - 1)) ++ (perm.drop (i * f + 1)).take f
      = (perm.drop (i + 1)).take (min perm.length (i * f + f + 1) - (i + 1)) := by
  have hif : i ≤ i * f := Nat.le_mul_of_pos_right i hf
  have hdrop : perm.drop (i * f + 1) = (perm.drop (i + 1)).drop (i * f - i) := by
    rw [List.drop_drop]; congr 1; omega
  rw [hdrop]
  generalize hL : perm.drop (i + 1) = L
  have hlen : L.length = perm.length - (i + 1) := by rw [← hL, List.length_drop]
  by_cases hc : i * f + 1 ≤ perm.length
  · have ha : min perm.length (i * f + 1) - i - 1 = i * f - i := by omega
    rw [ha, ← List.take_add, List.take_eq_take_iff]
    omega
  · have ha : L.length ≤ min perm.length (i * f + 1) - i - 1 := by omega
    rw [List.take_of_length_le ha, List.drop_of_length_le (by omega)]
    simp only [List.take_nil, List.append_nil]
    rw [List.take_of_length_le (by omega)]

theorem bfs (perm : List Nat) (f : Nat) (fwd : Nat → Out) (hf : 1 ≤ f)
    (hfwd : ∀ i (h : i < perm.length), fwd perm[i] = .to ((perm.drop (i * f + 1)).take f)) :
    ∀ fuel i, i ≤ perm.length → perm.length - i ≤ fuel →
      run fwd fuel ((perm.drop i).take (min perm.length (i * f + 1) - i)) = perm.drop i ∧
      runOk fwd fuel ((perm.drop i).take (min perm.length (i * f + 1) - i)) = true := by
  intro fuel
  induction fuel with
  | zero =>
    intro i hi hfu
    have : i = perm.length := by omega
    subst this
    simp [run, runOk]
  | succ fuel ih =>
    intro i hi hfu
    by_cases hlt : i < perm.length
    · have hif : i ≤ i * f := Nat.le_mul_of_pos_right i hf
      have hq : (perm.drop i).take (min perm.length (i * f + 1) - i)
          = perm[i] :: (perm.drop (i + 1)).take (min perm.length (i * f + 1) - i - 1) := by
        rw [List.drop_eq_getElem_cons hlt]
        obtain ⟨k, hk⟩ : ∃ k, min perm.length (i * f + 1) - i = k + 1 := ⟨min perm.length (i * f + 1) - i - 1, by omega⟩
        rw [hk, List.take_succ_cons]
        simp
      rw [hq]
      simp only [run, runOk, hfwd i hlt]
      rw [frontier_step perm f i hf hlt]
      have hmul : (i + 1) * f + 1 = i * f + f + 1 := by rw [Nat.succ_mul]
      have := ih (i + 1) (by omega) (by omega)
      rw [hmul] at this
      rw [this.1, this.2, List.drop_eq_getElem_cons hlt]
      simp
    · have : i = perm.length := by omega
      subst this
      simp [run, runOk]

/-! ### cache -/

/-! cache transparency -/
def Cache.Sound (sampler : Key → List Nat) (c : Cache) : Prop := ∀ e ∈ c.entries, e.2 = sampler e.1

theorem get_sound (sampler : Key → List Nat) (c : Cache) (inv : c.Sound sampler) (k : Key) (v : List Nat)
    (h : c.get k = some v) : v = sampler k := by
  unfold Cache.get at h
  cases hf : c.entries.find? (fun e => e.1 == k) with
  | none => simp [hf] at h
  | some e =>
    simp [hf] at h
    have hm := List.mem_of_find?_eq_some hf
    have hk := List.find?_some hf
    simp at hk
    rw [← h, inv e hm, hk]

theorem sampleRelays_sound (sampler : Key → List Nat) (c : Cache) (inv : c.Sound sampler) (k : Key) :
    (sampleRelays sampler c k).1 = sampler k ∧ (sampleRelays sampler c k).2.Sound sampler := by
  unfold sampleRelays
  cases hg : c.get k with
  | some v => exact ⟨(get_sound sampler c inv k v hg), inv⟩
  | none =>
    refine ⟨rfl, ?_⟩
    intro e he
    simp [Cache.insert] at he
    rcases he with rfl | he
    · rfl
    · exact inv e he

theorem evict_sound (sampler : Key → List Nat) (c : Cache) (inv : c.Sound sampler) (k : Key) :
    (c.evict k).Sound sampler := by
  intro e he
  simp [Cache.evict] at he
  exact inv e he.1

theorem runCache_sound (sampler : Key → List Nat) (ops : List CacheOp) (c : Cache) (inv : c.Sound sampler) :
    ∀ a ∈ runCache sampler c ops, a.2 = sampler a.1 := by
  induction ops generalizing c with
  | nil => simp [runCache]
  | cons op ops ih =>
    cases op with
    | query k =>
      have hs := sampleRelays_sound sampler c inv k
      intro a ha
      simp only [runCache, List.mem_cons] at ha
      rcases ha with rfl | ha
      · exact hs.1
      · exact ih _ hs.2 a ha
    | evict k =>
      intro a ha
      simp only [runCache] at ha
      exact ih _ (evict_sound sampler c inv k) a ha

/-! ### flow equations -/

theorem sum_single (n a : Nat) (g : Nat → Nat) :
    ((List.range n).map (fun p => if p = a then g p else 0)).sum = if a < n then g a else 0 := by
  induction n with
  | zero => simp
  | succ n ih =>
    rw [List.range_succ, List.map_append, List.sum_append, ih]
    by_cases h1 : a < n
    · have : n ≠ a := by omega
      simp [h1, this]; omega
    · by_cases h2 : n = a
      · subst h2; simp
      · have : ¬ a < n + 1 := by omega
        simp [h1, h2, this]

/-- receipts flowing into position `q` when position `p` has received `r p` copies -/
def inflow (n f : Nat) (r : Nat → Nat) (q : Nat) : Nat :=
  ((List.range n).map (fun p => if q ∈ childPos n f p then r p else 0)).sum

theorem inflow_zero (n f : Nat) (r : Nat → Nat) : inflow n f r 0 = 0 := by
  unfold inflow
  have : (fun p => if 0 ∈ childPos n f p then r p else 0) = fun _ => 0 := by
    funext p
    have : ¬ 0 ∈ childPos n f p := by rw [mem_childPos]; omega
    simp [this]
  rw [this]
  clear this
  generalize List.range n = l
  induction l with
  | nil => simp
  | cons x l ih => simp [ih]

theorem inflow_pos (n f : Nat) (r : Nat → Nat) (q : Nat) (hq : 1 ≤ q) (hqn : q < n) (hf : 1 ≤ f) :
    inflow n f r q = r (parentPos f q) := by
  unfold inflow
  have : (fun p => if q ∈ childPos n f p then r p else 0) = fun p => if p = parentPos f q then r p else 0 := by
    funext p
    simp only [parent_unique' n f p q hq hqn hf]
  rw [this, sum_single]
  have : parentPos f q < n := by
    unfold parentPos
    have := Nat.div_le_self (q - 1) f
    omega
  simp [this]



end AgModel.Route
