import AgModel.Proofs.BlockstoreExactRun
/-! The leader's fast path `add_own_slice` on the exact invariant (core Lean only). -/
namespace AgModel.Blockstore
open AgModel.Merkle HBlock

/-- all shreds of the slices `0..k-1` -/
def dupTo (k : Nat) : DSet := fun i j => decide (i < k) && decide (j < TOTAL_SHREDS)

theorem cnt_dupTo (k i : Nat) : cnt (dupTo k) i = if i < k then TOTAL_SHREDS else 0 := by
  unfold cnt dupTo
  split
  · rename_i h
    have : (List.range TOTAL_SHREDS).countP (fun j => decide (i < k) && decide (j < TOTAL_SHREDS)) =
        (List.range TOTAL_SHREDS).length := by
      rw [List.countP_eq_length]
      intro j hj
      simp [h, List.mem_range.mp hj]
    rw [this, List.length_range]
  · rename_i h
    rw [List.countP_eq_zero]
    intro j _
    simp [h]

theorem total_ge_data : DATA_SHREDS ≤ TOTAL_SHREDS := by decide
theorem total_pos : 0 < TOTAL_SHREDS := by decide

theorem dupTo_pos (k i : Nat) : 0 < cnt (dupTo k) i ↔ i < k := by
  rw [cnt_dupTo]
  have := total_pos
  split <;> omega

theorem dupTo_ge (k i : Nat) : DATA_SHREDS ≤ cnt (dupTo k) i ↔ i < k := by
  rw [cnt_dupTo]
  have := total_ge_data
  have := data_shreds_pos
  split <;> omega

theorem full_dupTo (B : HBlock) (m : Nat) : Full B (dupTo m) ↔ B.n ≤ m := by
  unfold Full
  constructor
  · intro h
    by_cases hn : B.n ≤ m
    · exact hn
    · have := (dupTo_ge m m).mp (h m (by omega)); omega
  · intro h k hk
    exact (dupTo_ge m k).mpr (by omega)

theorem empty_dupTo (B : HBlock) (hn : 0 < B.n) (k : Nat) : Empty B (dupTo k) ↔ k = 0 := by
  unfold Empty
  constructor
  · intro h
    have h0 := h 0 hn
    by_cases hk : k = 0
    · exact hk
    · have := (dupTo_pos k 0).mpr (by omega); omega
  · intro h i _
    subst h
    rw [cnt_dupTo]; simp

theorem arrOf_dupTo (B : HBlock) (k i : Nat) (hi : i < k) :
    arrOf B (dupTo k) i = fun j => if j < TOTAL_SHREDS then some (B.shred i j) else none :=
  arrOf_of_ge B _ _ ((dupTo_ge k i).mpr hi)

/-- the state `add_own_slice` hands to `try_reconstruct_block` -/
def ownPrep (b : BlockData) (c : Commitment) (sz : Nat) (parent : Option (Nat × Nat)) (txs : Option (List Nat)) : BlockData :=
  let b := { b with cache := upd b.cache c.slice (some c) }
  let b := if c.isLast then markLastSlice b c.slice else b
  let arr : ShredArr := fun j => if j < TOTAL_SHREDS then some ⟨c.slice, c.isLast, c.root, j, sz, true⟩ else none
  { b with shreds := upd b.shreds c.slice (some arr),
           slices := upd b.slices c.slice (some ⟨c.slice, c.isLast, c.root, parent, txs⟩) }

theorem addOwnSlice_eq (b : BlockData) (c : Commitment) (sz : Nat) (parent : Option (Nat × Nat)) (txs : Option (List Nat)) :
    addOwnSlice b c sz parent txs =
      if b.lastSlice.isSome then ({ b with cache := upd b.cache c.slice (some c) }, none)
      else match tryReconstructBlock (ownPrep b c sz parent txs) with
        | (b', .noAction) => (b', some (mapEmpty b.cap b.shreds, none))
        | (b', .complete info) => (b', some (mapEmpty b.cap b.shreds, some info))
        | (b', _) => (b', none) := rfl

theorem ownPrep_last (b : BlockData) (c : Commitment) (sz : Nat) (parent : Option (Nat × Nat)) (txs : Option (List Nat))
    (h : c.isLast = true) :
    ownPrep b c sz parent txs =
      { cap := b.cap, slot := b.slot, completed := b.completed,
        shreds := upd (retainLe b.shreds c.slice) c.slice
          (some (fun j => if j < TOTAL_SHREDS then some ⟨c.slice, c.isLast, c.root, j, sz, true⟩ else none)),
        slices := upd (retainLe b.slices c.slice) c.slice (some ⟨c.slice, c.isLast, c.root, parent, txs⟩),
        lastSlice := some c.slice, tree := b.tree, cache := upd b.cache c.slice (some c) } := by
  unfold ownPrep markLastSlice
  simp only [if_pos h]

theorem ownPrep_notlast (b : BlockData) (c : Commitment) (sz : Nat) (parent : Option (Nat × Nat)) (txs : Option (List Nat))
    (h : c.isLast = false) :
    ownPrep b c sz parent txs =
      { cap := b.cap, slot := b.slot, completed := b.completed,
        shreds := upd b.shreds c.slice
          (some (fun j => if j < TOTAL_SHREDS then some ⟨c.slice, c.isLast, c.root, j, sz, true⟩ else none)),
        slices := upd b.slices c.slice (some ⟨c.slice, c.isLast, c.root, parent, txs⟩),
        lastSlice := b.lastSlice, tree := b.tree, cache := upd b.cache c.slice (some c) } := by
  unfold ownPrep
  simp only [h, Bool.false_eq_true, if_false]

theorem ownPrep_pre (B : HBlock) (cap : Nat) (k : Nat) (hk : k < B.n) (b : BlockData)
    (hg : Exact B cap (dupTo k) (dupTo k) (dupTo k) b) :
    Pre B cap (dupTo (k + 1)) (ownPrep b (B.commit k) (B.sz k) (B.parent k) (some (B.txs k))) := by
  have hnf : ¬ Full B (dupTo k) := fun h => by have := (full_dupTo B k).mp h; omega
  have hlast : b.lastSlice = none := by
    rw [hg.last, if_neg]
    rw [dupTo_pos]; omega
  have hshreds : ∀ i, i ≠ k → b.shreds i = if i < B.n ∧ 0 < cnt (dupTo (k + 1)) i then some (arrOf B (dupTo (k + 1)) i) else none := by
    intro i hi
    rw [hg.shreds i]
    by_cases hik : i < k
    · rw [arrOf_dupTo B k i hik, arrOf_dupTo B (k + 1) i (by omega)]
      apply ite_iff
      rw [dupTo_pos, dupTo_pos]
      constructor <;> intro h <;> exact ⟨h.1, by omega⟩
    · rw [if_neg (by rw [dupTo_pos]; intro h; exact hik h.2), if_neg (by rw [dupTo_pos]; intro h; omega)]
  have hslices : ∀ i, i ≠ k → b.slices i = if i < B.n ∧ DATA_SHREDS ≤ cnt (dupTo (k + 1)) i then some (B.rslice i) else none := by
    intro i hi
    rw [hg.slices i]
    apply ite_iff
    rw [dupTo_ge, dupTo_ge]
    constructor
    · intro h; exact ⟨h.2.1, by omega⟩
    · intro h; exact ⟨hnf, h.1, by omega⟩
  have harrk : (fun j => if j < TOTAL_SHREDS then some (⟨k, B.isLast k, B.root k, j, B.sz k, true⟩ : Shred) else none)
      = arrOf B (dupTo (k + 1)) k := by
    rw [arrOf_dupTo B (k + 1) k (by omega)]; rfl
  have hcache : ∀ i, upd b.cache k (some (B.commit k)) i = if i < B.n ∧ 0 < cnt (dupTo (k + 1)) i then some (B.commit i) else none := by
    intro i
    by_cases hi : i = k
    · subst hi; rw [upd_same, if_pos ⟨hk, (dupTo_pos _ _).mpr (by omega)⟩]
    · rw [upd_other _ _ _ _ hi, hg.cache i]
      apply ite_iff
      rw [dupTo_pos, dupTo_pos]
      constructor <;> intro h <;> exact ⟨h.1, by omega⟩
  by_cases hl : (B.commit k).isLast = true
  · have hkn : k + 1 = B.n := by simpa [HBlock.isLast, HBlock.commit] using hl
    rw [ownPrep_last _ _ _ _ _ hl]
    refine ⟨hg.hcap, hg.hslot, hcache, ?_, ?_, ?_, ?_, ?_⟩
    · change some k = _
      rw [if_pos ((dupTo_pos _ _).mpr (by omega))]
      congr 1; omega
    · intro i
      change upd (retainLe b.shreds k) k (some _) i = _
      by_cases hi : i = k
      · subst hi; rw [upd_same, if_pos ⟨hk, (dupTo_pos _ _).mpr (by omega)⟩]; exact congrArg some harrk
      · rw [upd_other _ _ _ _ hi]
        simp only [retainLe]
        split
        · exact hshreds i hi
        · rw [if_neg (by omega)]
    · intro i
      change upd (retainLe b.slices k) k (some (B.rslice k)) i = _
      by_cases hi : i = k
      · subst hi; rw [upd_same, if_pos ⟨hk, (dupTo_ge _ _).mpr (by omega)⟩]
      · rw [upd_other _ _ _ _ hi]
        simp only [retainLe]
        split
        · exact hslices i hi
        · rw [if_neg (by omega)]
    · change b.completed = none; rw [hg.completed, if_neg hnf]
    · change b.tree = none; rw [hg.tree, if_neg hnf]
  · have hkn : k + 1 ≠ B.n := by simpa [HBlock.isLast, HBlock.commit] using hl
    rw [ownPrep_notlast _ _ _ _ _ (by simpa using hl)]
    refine ⟨hg.hcap, hg.hslot, hcache, ?_, ?_, ?_, ?_, ?_⟩
    · change b.lastSlice = _
      rw [hlast, if_neg (by rw [dupTo_pos]; omega)]
    · intro i
      change upd b.shreds k (some _) i = _
      by_cases hi : i = k
      · subst hi; rw [upd_same, if_pos ⟨hk, (dupTo_pos _ _).mpr (by omega)⟩]; exact congrArg some harrk
      · rw [upd_other _ _ _ _ hi]; exact hshreds i hi
    · intro i
      change upd b.slices k (some (B.rslice k)) i = _
      by_cases hi : i = k
      · subst hi; rw [upd_same, if_pos ⟨hk, (dupTo_ge _ _).mpr (by omega)⟩]
      · rw [upd_other _ _ _ _ hi]; exact hslices i hi
    · change b.completed = none; rw [hg.completed, if_neg hnf]
    · change b.tree = none; rw [hg.tree, if_neg hnf]

/-- one `add_own_slice` of the leader's slice `k` (after slices `0..k-1`) -/
theorem addOwnSlice_exact (B : HBlock) (env : Nat → Content) (cap : Nat) (hwf : B.WF env cap)
    (k : Nat) (hk : k < B.n) (b : BlockData) (hg : Exact B cap (dupTo k) (dupTo k) (dupTo k) b) :
    Exact B cap (dupTo (k + 1)) (dupTo (k + 1)) (dupTo (k + 1))
        (addOwnSlice b (B.commit k) (B.sz k) (B.parent k) (some (B.txs k))).1 ∧
      (addOwnSlice b (B.commit k) (B.sz k) (B.parent k) (some (B.txs k))).2 =
        some (decide (k = 0), if k + 1 = B.n then some B.block.info else none) := by
  have hlast : b.lastSlice = none := by
    rw [hg.last, if_neg]
    rw [dupTo_pos]; omega
  have hfirst : mapEmpty b.cap b.shreds = decide (k = 0) := by
    rw [Bool.eq_iff_iff, mapEmpty_exact B env cap hwf _ _ _ b hg, empty_dupTo B hwf.npos]
    simp
  rw [addOwnSlice_eq, hlast]
  simp only [Option.isSome_none, Bool.false_eq_true, if_false, hfirst]
  have h2 := tryReconstructBlock_exact B env cap hwf (dupTo (k + 1)) _ (ownPrep_pre B cap k hk b hg)
  cases hrb : tryReconstructBlock (ownPrep b (B.commit k) (B.sz k) (B.parent k) (some (B.txs k))) with
  | mk b4 r4 =>
    rw [hrb] at h2
    simp only at h2 ⊢
    obtain ⟨hx, hr⟩ := h2
    by_cases hkn : k + 1 = B.n
    · rw [if_pos ((full_dupTo B (k + 1)).mpr (by omega))] at hr
      subst hr
      simp only
      exact ⟨hx, by rw [if_pos hkn]⟩
    · rw [if_neg (fun h => by have := (full_dupTo B (k + 1)).mp h; omega)] at hr
      subst hr
      simp only
      exact ⟨hx, by rw [if_neg hkn]⟩

/-- the leader hands its own slice `i` to its blockstore -/
def ownStep (B : HBlock) (sd : SlotData) (i : Nat) : SlotData × Option (Option BlockInfo) × List Event :=
  addOwn sd (B.commit i) (B.sz i) (B.parent i) (some (B.txs i))

/-- the leader's fast path over a list of slice indices: final state, "no panic", events in order -/
def ownRun (B : HBlock) : SlotData → List Nat → SlotData × Bool × List Event
  | sd, [] => (sd, true, [])
  | sd, i :: rest =>
    let r := ownStep B sd i
    let r' := ownRun B r.1 rest
    (r'.1, r.2.1.isSome && r'.2.1, r.2.2 ++ r'.2.2)

theorem ownStep_exact (B : HBlock) (env : Nat → Content) (cap : Nat) (hwf : B.WF env cap)
    (k : Nat) (hk : k < B.n) (sd : SlotData) (hg : Exact B cap (dupTo k) (dupTo k) (dupTo k) sd.dis) :
    Exact B cap (dupTo (k + 1)) (dupTo (k + 1)) (dupTo (k + 1)) (ownStep B sd k).1.dis ∧
      (ownStep B sd k).1.rep = sd.rep ∧ (ownStep B sd k).1.misbehaved = sd.misbehaved ∧
      (ownStep B sd k).2.1 = some (if k + 1 = B.n then some B.block.info else none) ∧
      (ownStep B sd k).2.2 = (if k = 0 then [Event.firstShred] else []) ++
        (if k + 1 = B.n then [Event.block B.block.info] else []) := by
  have h := addOwnSlice_exact B env cap hwf k hk sd.dis hg
  unfold ownStep addOwn
  cases hr : addOwnSlice sd.dis (B.commit k) (B.sz k) (B.parent k) (some (B.txs k)) with
  | mk b r =>
    rw [hr] at h
    simp only at h ⊢
    obtain ⟨hx, rfl⟩ := h
    simp only
    refine ⟨hx, trivial, trivial, trivial, ?_⟩
    by_cases hkn : k + 1 = B.n
    · simp only [if_pos hkn]; by_cases hk0 : k = 0 <;> simp [hk0]
    · simp only [if_neg hkn]; by_cases hk0 : k = 0 <;> simp [hk0]

theorem ownRun_exact (B : HBlock) (env : Nat → Content) (cap : Nat) (hwf : B.WF env cap)
    (m k : Nat) (hkm : k + m ≤ B.n) (sd : SlotData) (hg : Exact B cap (dupTo k) (dupTo k) (dupTo k) sd.dis) :
    Exact B cap (dupTo (k + m)) (dupTo (k + m)) (dupTo (k + m)) (ownRun B sd (List.range' k m)).1.dis ∧
      (ownRun B sd (List.range' k m)).1.rep = sd.rep ∧
      (ownRun B sd (List.range' k m)).1.misbehaved = sd.misbehaved ∧
      (ownRun B sd (List.range' k m)).2.1 = true ∧
      (ownRun B sd (List.range' k m)).2.2 = (if k = 0 ∧ 0 < m then [Event.firstShred] else []) ++
        (if 0 < m ∧ k + m = B.n then [Event.block B.block.info] else []) := by
  induction m generalizing k sd with
  | zero => exact ⟨hg, rfl, rfl, rfl, by simp [ownRun]⟩
  | succ m ih =>
    have hk : k < B.n := by omega
    obtain ⟨s1, s2, s3, s4, s5⟩ := ownStep_exact B env cap hwf k hk sd hg
    obtain ⟨i1, i2, i3, i4, i5⟩ := ih (k + 1) (by omega) (ownStep B sd k).1 s1
    have hr : List.range' k (m + 1) = k :: List.range' (k + 1) m := by simp [List.range']
    rw [hr]
    simp only [ownRun]
    have e : k + 1 + m = k + (m + 1) := by omega
    rw [e] at i1 i5
    refine ⟨i1, by rw [i2, s2], by rw [i3, s3], by rw [i4, s4]; rfl, ?_⟩
    rw [i5, s5]
    have a1 : ¬ (k + 1 = 0 ∧ 0 < m) := by omega
    have a2 : (k = 0 ∧ 0 < m + 1) ↔ k = 0 := by omega
    have a3 : (0 < m + 1 ∧ k + (m + 1) = B.n) ↔ k + (m + 1) = B.n := by omega
    rw [if_neg a1, ite_iff a2, ite_iff a3]
    by_cases hm : m = 0
    · subst hm
      have a4 : ¬ (0 < 0 ∧ k + (0 + 1) = B.n) := by omega
      rw [if_neg a4]; simp
    · have a5 : ¬ (k + 1 = B.n) := by omega
      have a6 : (0 < m ∧ k + (m + 1) = B.n) ↔ k + (m + 1) = B.n := by omega
      rw [if_neg a5, ite_iff a6]; simp

/-- **The leader's fast path** (all `n` slices through `add_own_slice`, in order, into a fresh slot):
    never panics, announces `[FirstShred, Block]`, and ends in the canonical completed state. -/
theorem ownRun_fresh (B : HBlock) (env : Nat → Content) (cap : Nat) (hwf : B.WF env cap) :
    ownRun B (SlotData.new cap B.slot) (List.range B.n) =
      (⟨canonFull B cap, [], false⟩, true, [.firstShred, .block B.block.info]) := by
  have hg0 : Exact B cap (dupTo 0) (dupTo 0) (dupTo 0) (SlotData.new cap B.slot).dis :=
    exact_new B cap (dupTo 0) (fun i => by rw [cnt_dupTo]; simp) hwf.npos
  obtain ⟨h1, h2, h3, h4, h5⟩ := ownRun_exact B env cap hwf B.n 0 (by omega) (SlotData.new cap B.slot) hg0
  rw [← List.range_eq_range'] at h1 h2 h3 h4 h5
  have hn := hwf.npos
  simp only [Nat.zero_add] at h1 h5
  have hc := exact_canon B cap _ _ h1
  rw [canon_full B cap _ hn ((full_dupTo B B.n).mpr (Nat.le_refl _))] at hc
  cases hrun : ownRun B (SlotData.new cap B.slot) (List.range B.n) with
  | mk sd r =>
    cases r with
    | mk ok evs =>
      rw [hrun] at h2 h3 h4 h5 hc
      simp only at h2 h3 h4 h5 hc
      cases sd with
      | mk dis rep mis =>
        simp only at h2 h3 h4 h5 hc
        subst hc h4
        rw [h2, h3, h5]
        simp [SlotData.new, hn]

end AgModel.Blockstore
