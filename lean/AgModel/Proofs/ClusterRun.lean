import AgModel.Spec.Cluster
/-!
# C01 cluster refinement: the run-level invariants

* logs only grow, so `sigOf` only grows along a run (`sigOf_le_run`);
* `CInv`: every node satisfies the node invariant `NInv` relative to the *current* `sigOf` — kept by every valid event;
* node `i`'s state after a cluster run is `nodeRun` of the projection of the run to `i` (`run_proj`), and in a valid run
  that projection satisfies the single-node unforgeability premise `OwnVotesFromVotor` of C05 for every correct `i`
  (`own_of_valid`), so that all composed-node theorems of C05 apply to every correct node of the cluster.
-/
namespace AgModel.Cluster
open AgModel AgModel.Node AgModel.NodePanic AgModel.Pool

theorem step_self (s : State) (i : Nat) (op : NodeOp) : step s (i, op) i = nodeStep (s i) op := by
  simp [step]

theorem step_other (s : State) (i j : Nat) (op : NodeOp) (h : j ≠ i) : step s (i, op) j = s j := by
  simp [step, h]

theorem run_append (s : State) (a b : List Ev) : run s (a ++ b) = run (run s a) b := by
  induction a generalizing s with
  | nil => rfl
  | cons ev a ih => exact ih _

theorem valid_append (c : Cfg) (s : State) (a b : List Ev) : Valid c s (a ++ b) ↔ Valid c s a ∧ Valid c (run s a) b := by
  induction a generalizing s with
  | nil => simp [Valid, run]
  | cons ev a ih => simp only [List.cons_append, Valid, run, ih, and_assoc]

/-! ### logs grow -/

theorem nodeStep_out_mono (n : Node) (op : NodeOp) (o : Votor.Out) (h : Votor.Item.out o ∈ n.votor.log) :
    Votor.Item.out o ∈ (nodeStep n op).votor.log := by
  rw [← mem_outsOf, nodeStep_outs]
  exact List.mem_append_left _ (mem_outsOf.mpr h)

theorem step_out_mono (s : State) (ev : Ev) (j : Nat) (o : Votor.Out) (h : Votor.Item.out o ∈ (s j).votor.log) :
    Votor.Item.out o ∈ (step s ev j).votor.log := by
  obtain ⟨i, op⟩ := ev
  by_cases hj : j = i
  · subst hj; rw [step_self]; exact nodeStep_out_mono _ _ _ h
  · rw [step_other _ _ _ _ hj]; exact h

theorem run_out_mono (s : State) (evs : List Ev) (j : Nat) (o : Votor.Out) (h : Votor.Item.out o ∈ (s j).votor.log) :
    Votor.Item.out o ∈ (run s evs j).votor.log := by
  induction evs generalizing s with
  | nil => exact h
  | cons ev evs ih => exact ih _ (step_out_mono s ev j o h)

theorem sigOf_le_of_mono (c : Cfg) (s s' : State)
    (h : ∀ j o, Votor.Item.out o ∈ (s j).votor.log → Votor.Item.out o ∈ (s' j).votor.log) : (sigOf c s).le (sigOf c s') := by
  constructor
  · intro j sl hh hx hc
    obtain ⟨ps, ph, hm⟩ := hx hc
    exact ⟨ps, ph, h _ _ hm⟩
  · intro j sl hh hx hc; exact h _ _ (hx hc)
  · intro j sl hx hc; exact h _ _ (hx hc)
  · intro j sl hx hc; exact h _ _ (hx hc)
  · intro j sl hx hc; exact h _ _ (hx hc)

theorem sigOf_le_step (c : Cfg) (s : State) (ev : Ev) : (sigOf c s).le (sigOf c (step s ev)) :=
  sigOf_le_of_mono c s _ (fun j o h => step_out_mono s ev j o h)

theorem sigOf_le_run (c : Cfg) (s : State) (evs : List Ev) : (sigOf c s).le (sigOf c (run s evs)) :=
  sigOf_le_of_mono c s _ (fun j o h => run_out_mono s evs j o h)

/-! ### the cluster invariant -/

/-- every node satisfies the node invariant relative to what has been signed so far -/
def CInv (c : Cfg) (s : State) : Prop := ∀ i, NInv (sigOf c s) (c.epoch i) c.parentOf (s i)

theorem CInv.init (c : Cfg) : CInv c (init c) := fun i => NInv.init _ _ _

theorem CInv.step {c : Cfg} {s : State} (hpos : 0 < c.stakes.sum) (h : CInv c s) (ev : Ev) (hok : EvOk c s ev) :
    CInv c (step s ev) := by
  intro j
  obtain ⟨i, op⟩ := ev
  have hl := sigOf_le_step c s (i, op)
  by_cases hj : j = i
  · subst hj
    rw [step_self]
    exact (nodeStep_ninv (e := c.epoch j) hpos (s j) op (h j) hok).mono hl
  · rw [step_other _ _ _ _ hj]
    exact (h j).mono hl

theorem CInv.run {c : Cfg} (hpos : 0 < c.stakes.sum) (evs : List Ev) {s : State} (h : CInv c s) (hv : Valid c s evs) :
    CInv c (run s evs) := by
  induction evs generalizing s with
  | nil => exact h
  | cons ev evs ih => exact ih (h.step hpos ev hv.1) hv.2

/-! ### projection to one node -/

/-- the operations of a run that happen at node `i` -/
def proj (i : Nat) : List Ev → List NodeOp
  | [] => []
  | ev :: evs => if ev.1 = i then ev.2 :: proj i evs else proj i evs

theorem run_proj (i : Nat) (evs : List Ev) (s : State) : run s evs i = nodeRun (s i) (proj i evs) := by
  induction evs generalizing s with
  | nil => rfl
  | cons ev evs ih =>
    obtain ⟨k, op⟩ := ev
    simp only [run, proj]
    rw [ih]
    by_cases hk : k = i
    · subst hk; rw [step_self, if_pos rfl]; rfl
    · rw [step_other _ _ _ _ (Ne.symm hk), if_neg hk]

theorem outMatches_holds {c : Cfg} {s : State} {i : Nat} (hc : c.correct i = true) {v : Vote} (hs : v.signer = i)
    (hv : (sigOf c s).holds v) : ∃ o, Votor.Item.out o ∈ (s i).votor.log ∧ outMatches o v = true := by
  unfold SigLog.holds at hv
  cases hk : v.kind <;> simp only [hk, sigOf, hs] at hv
  · obtain ⟨ps, ph, hm⟩ := hv hc
    exact ⟨_, hm, by simp [outMatches, hk]⟩
  · exact ⟨_, hv hc, by simp [outMatches, hk]⟩
  · exact ⟨_, hv hc, by simp [outMatches, hk]⟩
  · exact ⟨_, hv hc, by simp [outMatches, hk]⟩
  · exact ⟨_, hv hc, by simp [outMatches, hk]⟩

/-- in a valid run, every correct node's own votes only come from its own Votor (the premise of the C05 composed-node
    theorems) -/
theorem own_of_valid (c : Cfg) (i : Nat) (hc : c.correct i = true) (evs : List Ev) (s : State) (sent : List Votor.Out)
    (hv : Valid c s evs) (hs : outsOf (s i).votor.log = .timer 0 :: sent) :
    OwnVotesFromVotor i (s i) sent (proj i evs) = true := by
  induction evs generalizing s sent with
  | nil => rfl
  | cons ev evs ih =>
    obtain ⟨k, op⟩ := ev
    simp only [proj]
    by_cases hk : k = i
    · subst hk
      rw [if_pos rfl]
      simp only [OwnVotesFromVotor, Bool.and_eq_true]
      constructor
      · cases op with
        | recvVote v =>
          simp only [ownOk, Bool.or_eq_true, bne_iff_ne, ne_eq, List.any_eq_true]
          by_cases hsig : v.signer = k
          · right
            obtain ⟨o, ho, hm⟩ := outMatches_holds hc hsig hv.1
            have : o ∈ outsOf (s k).votor.log := mem_outsOf.mpr ho
            rw [hs] at this
            rcases List.mem_cons.mp this with h0 | h0
            · subst h0; simp [outMatches] at hm
            · exact ⟨o, h0, hm⟩
          · left; exact hsig
        | _ => rfl
      · have := ih (step s (k, op)) (sent ++ nodeOuts (s k) op) hv.2 (by rw [step_self, nodeStep_outs, hs]; rfl)
        rw [step_self] at this; exact this
    · rw [if_neg hk]
      have := ih (step s (k, op)) sent hv.2 (by rw [step_other _ _ _ _ (Ne.symm hk)]; exact hs)
      rw [step_other _ _ _ _ (Ne.symm hk)] at this; exact this

theorem init_outs (c : Cfg) (i : Nat) : outsOf (init c i).votor.log = [.timer 0] := rfl

/-- for a correct node of a valid run from the initial cluster: its state is the single-node run of its projection, which
    satisfies the unforgeability premise of C05 -/
theorem node_of_valid (c : Cfg) (i : Nat) (hc : c.correct i = true) (evs : List Ev) (hv : Valid c (init c) evs) :
    run (init c) evs i = nodeRun { pool := { epoch := c.epoch i } } (proj i evs) ∧
    OwnVotesFromVotor (c.epoch i).own { pool := { epoch := c.epoch i } } [] (proj i evs) = true :=
  ⟨run_proj i evs _, own_of_valid c i hc evs _ [] hv (init_outs c i)⟩

end AgModel.Cluster
