import AgModel.Model.Blockstore
/-! Helper lemmas about `AgModel.Blockstore` (core Lean only). -/
namespace AgModel.Blockstore

/-- feeding a list of dissemination shreds; returns the final state and all events in order -/
def runDissem (env : Nat → Content) : SlotData → List Shred → SlotData × List Event
  | sd, [] => (sd, [])
  | sd, s :: rest =>
    let (sd', _, evs) := addDissem env sd s
    let (sd'', evs') := runDissem env sd' rest
    (sd'', evs ++ evs')

theorem reconstruct_ev (env : Nat → Content) (b : BlockData) (k : Nat) (e : Event)
    (h : (reconstruct env b k).2 = .ev e) : ∃ i, e = .block i := by
  unfold reconstruct at h
  split at h <;> try (simp at h)
  split at h <;> try (simp at h)
  exact ⟨_, h.symm⟩

theorem storeStep_ev (env : Nat → Content) (b : BlockData) (s : Shred) (e : Event)
    (h : (storeStep env b s).2 = .ev e) : e = .firstShred ∨ ∃ i, e = .block i := by
  unfold storeStep at h
  simp only at h
  split at h
  · simp at h
  · split at h
    · simp at h; exact Or.inl h.symm
    · exact Or.inr (reconstruct_ev _ _ _ _ h)

theorem addShred_ev (env : Nat → Content) (b : BlockData) (s : Shred) (e : Event)
    (h : (addShredCore env b s).2 = .ev e) : e = .firstShred ∨ ∃ i, e = .block i := by
  unfold addShredCore at h
  split at h
  · simp at h
  · split at h
    · simp at h
    · exact storeStep_ev _ _ _ _ h

/-! the D15 `fix:`: `addShred` is `addShredCore` behind the type check -/

theorem addShred_of_ty (env : Nat → Content) (b : BlockData) (s : Shred) (h : s.ty = true) :
    addShred env b s = addShredCore env b s := by
  unfold addShred; simp [h]

theorem addShred_wrongType (env : Nat → Content) (b : BlockData) (s : Shred) (h : s.ty = false) :
    addShred env b s = (b, .err .wrongType) := by
  unfold addShred; simp [h]

/-- a shred of the wrong type leaves the slot data alone, sends nothing, flags nobody -/
theorem addDissem_wrongType (env : Nat → Content) (sd : SlotData) (s : Shred) (hm : sd.misbehaved = false)
    (h : s.ty = false) : addDissem env sd s = (sd, .err .wrongType, []) := by
  unfold addDissem
  cases sd with
  | mk d r m =>
    simp only at hm
    subst hm
    simp [addShred_wrongType env d s h, isBadErr, evOf]

theorem addDissem_flagged (env : Nat → Content) (sd : SlotData) (s : Shred) (h : sd.misbehaved = true) :
    addDissem env sd s = (sd, .err .invalidShred, []) := by
  unfold addDissem; simp [h]

theorem addDissem_cases (env : Nat → Content) (sd : SlotData) (s : Shred) (h : sd.misbehaved = false) :
    ((addDissem env sd s).1.misbehaved = false ∧ (∀ e ∈ (addDissem env sd s).2.2, e ≠ .invalidBlock)) ∨
    ((addDissem env sd s).1.misbehaved = true ∧ (addDissem env sd s).2.2 = [.invalidBlock]) := by
  by_cases hty : s.ty = true
  case neg =>
    left
    rw [addDissem_wrongType env sd s h (by simpa using hty)]
    exact ⟨h, by simp⟩
  unfold addDissem
  simp only [h, Bool.false_eq_true, if_false, addShred_of_ty env sd.dis s hty]
  cases hr : addShredCore env sd.dis s with
  | mk b r =>
    simp only
    by_cases hb : isBadErr r = true
    · right
      simp [hb, flag]
    · left
      simp only [hb, Bool.false_eq_true, if_false]
      refine ⟨by simpa using h, ?_⟩
      intro e he
      cases r with
      | ev e' =>
        simp [evOf] at he; subst he
        have := addShred_ev env sd.dis s e (by rw [hr])
        rcases this with rfl | ⟨i, rfl⟩ <;> simp
      | none => simp [evOf] at he
      | err _ => simp [evOf] at he
      | panic => simp [evOf] at he

theorem runDissem_flagged (env : Nat → Content) (sd : SlotData) (ss : List Shred) (h : sd.misbehaved = true) :
    runDissem env sd ss = (sd, []) := by
  induction ss with
  | nil => rfl
  | cons s rest ih => simp [runDissem, addDissem_flagged env sd s h, ih]

/-- the slices that switch the parent (optimistic handover) -/
def switches (vals : List RSlice) : List RSlice :=
  vals.filter (fun s => decide (s.slice ≠ 0) && s.parent.isSome)

theorem foldSlices_txs (vals : List RSlice) (p : Nat × Nat) (sw : Bool) (acc : List Nat) (p' : Nat × Nat) (txs' : List Nat)
    (h : foldSlices vals p sw acc = some (p', txs')) :
    (∀ s ∈ vals, ∃ t, s.txs = some t) ∧ txs' = acc ++ vals.flatMap (fun s => s.txs.getD []) := by
  induction vals generalizing p sw acc with
  | nil => simp [foldSlices] at h; simp [h.2]
  | cons s rest ih =>
    unfold foldSlices at h
    simp only at h
    split at h
    · simp at h
    · rename_i parent' switched' _
      split at h
      · simp at h
      · rename_i t ht
        obtain ⟨h1, h2⟩ := ih _ _ _ h
        refine ⟨?_, ?_⟩
        · intro x hx
          rcases List.mem_cons.mp hx with rfl | hx
          · exact ⟨t, ht⟩
          · exact h1 x hx
        · simp [h2, ht, List.append_assoc]

theorem foldSlices_parent (vals : List RSlice) (p : Nat × Nat) (sw : Bool) (acc : List Nat) (p' : Nat × Nat) (txs' : List Nat)
    (h : foldSlices vals p sw acc = some (p', txs')) :
    (switches vals = [] ∧ p' = p) ∨ (sw = false ∧ ∃ s, switches vals = [s] ∧ s.parent = some p' ∧ p' ≠ p) := by
  induction vals generalizing p sw acc with
  | nil => simp [foldSlices] at h; left; simp [switches, h.1]
  | cons s rest ih =>
    unfold foldSlices at h
    simp only at h
    split at h
    · simp at h
    · rename_i parent' switched' hho
      split at h
      · simp at h
      · rename_i t ht
        have hrec := ih _ _ _ h
        by_cases hs0 : s.slice = 0
        · -- first slice: no handover
          simp [hs0] at hho
          obtain ⟨rfl, rfl⟩ := hho
          have : switches (s :: rest) = switches rest := by simp [switches, List.filter_cons, hs0]
          rw [this]; exact hrec
        · cases hp : s.parent with
          | none =>
            simp [hs0, hp] at hho
            obtain ⟨rfl, rfl⟩ := hho
            have : switches (s :: rest) = switches rest := by simp [switches, List.filter_cons, hp]
            rw [this]; exact hrec
          | some np =>
            simp only [hs0, hp, ne_eq, not_false_eq_true, if_true] at hho
            split at hho
            · simp at hho
            · rename_i hnp
              split at hho
              · simp at hho
              · rename_i hsw
                simp at hho
                obtain ⟨rfl, rfl⟩ := hho
                have hcons : switches (s :: rest) = s :: switches rest := by
                  simp [switches, List.filter_cons, hs0, hp]
                rcases hrec with ⟨hnil, rfl⟩ | ⟨hf, _⟩
                · right
                  refine ⟨by simpa using hsw, s, by rw [hcons, hnil], hp, hnp⟩
                · simp at hf

theorem tryReconstructBlock_complete (b b' : BlockData) (info : BlockInfo)
    (h : tryReconstructBlock b = (b', .complete info)) :
    ∃ last first p0 txs, b.completed = none ∧ b.lastSlice = some last ∧ mapLen b.cap b.slices = last + 1 ∧
      b.slices 0 = some first ∧ first.parent = some p0 ∧
      foldSlices (mapVals b.cap b.slices) p0 false [] = some (info.parent, txs) ∧ info.parent.1 < b.slot ∧
      info.hash = (Merkle.Tree.new ((mapVals b.cap b.slices).map (·.root))).root ∧
      b'.completed = some ⟨info.hash, info.parent, txs⟩ ∧
      b'.tree = some ((mapVals b.cap b.slices).map (·.root)) := by
  unfold tryReconstructBlock at h
  split at h
  · simp at h
  · rename_i hc
    split at h
    · simp at h
    · rename_i last hl
      split at h
      · simp at h
      · rename_i hlen
        simp only at h
        split at h
        · simp at h
        · rename_i first hf
          split at h
          · simp at h
          · rename_i p0 hp0
            split at h
            · simp at h
            · rename_i parent txs hfold
              split at h
              · simp at h
              · rename_i hslot
                simp only [Prod.mk.injEq, RecBlock.complete.injEq] at h
                obtain ⟨rfl, rfl⟩ := h
                refine ⟨last, first, p0, txs, by simpa using hc, hl, by simpa using hlen, hf, hp0, ?_, ?_, ?_, ?_, ?_⟩
                · simpa [Block.info] using hfold
                · simp [Block.info]; omega
                · simp [Block.info]
                · simp [Block.info]
                · simp

/-- a `Block` result of `add_shred` always comes out of `try_reconstruct_block` -/
theorem addShred_block_origin (env : Nat → Content) (b b' : BlockData) (s : Shred) (info : BlockInfo)
    (h : addShredCore env b s = (b', .ev (.block info))) :
    ∃ b1, tryReconstructBlock b1 = (b', .complete info) := by
  unfold addShredCore at h
  split at h
  · simp at h
  · split at h
    · simp at h
    · unfold storeStep at h
      simp only at h
      split at h
      · simp at h
      · split at h
        · simp at h
        · unfold reconstruct at h
          split at h <;> try (simp at h)
          rename_i b1 _
          split at h <;> try (simp at h)
          rename_i b2 info' hrb
          obtain ⟨rfl, rfl⟩ := h
          exact ⟨b1, hrb⟩

end AgModel.Blockstore
