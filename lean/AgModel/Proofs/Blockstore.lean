import AgModel.Model.Blockstore
/-! Helper lemmas about `AgModel.Blockstore` (core Lean only). -/
namespace AgModel.Blockstore

end AgModel.Blockstore
