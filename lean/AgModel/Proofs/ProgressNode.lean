import AgModel.Proofs.ProgressRound
import AgModel.Proofs.ProgressVotor
/-!
# C02 progress, node part: the operations of the timely schedule at one composed node (pool ∘ queue ∘ Votor)
-/
namespace AgModel.Cluster
open AgModel AgModel.Node AgModel.NodePanic AgModel.Pool

/-! ### single operations -/

theorem vEvs_filter (evs : List Pool.Event) : vEvs (evs.filter (fun e => (toVotor e).isSome)) = vEvs evs := by
  unfold vEvs
  induction evs with
  | nil => rfl
  | cons a t ih =>
    simp only [List.filter_cons]
    cases h : toVotor a with
    | none => simp [h, ih]
    | some v => simp [h, ih]

theorem enqueue_eq (n : Node) (evs : List Pool.Event) (hp : Pool.Event.panic ∉ evs) :
    enqueue n evs = { n with queue := n.queue ++ evs.filter (fun e => (toVotor e).isSome) } := by
  unfold enqueue
  have : evs.contains Pool.Event.panic = false := by
    cases hc : evs.contains Pool.Event.panic
    · rfl
    · exact absurd (List.contains_iff_mem.mp hc) hp
  rw [this]; rfl

/-- a vote is delivered to a live node whose pool does not panic on it -/
theorem nodeStep_recvVote (n : Node) (v : Pool.Vote) (hd : n.dead = false) (hp : Pool.Event.panic ∉ (n.pool.addVote v).2.2) :
    (nodeStep n (.recvVote v)).dead = false ∧ (nodeStep n (.recvVote v)).votor = n.votor ∧
    (nodeStep n (.recvVote v)).pool = (n.pool.addVote v).1 ∧
    vEvs (nodeStep n (.recvVote v)).queue = vEvs n.queue ++ vEvs (n.pool.addVote v).2.2 := by
  simp only [nodeStep, recvVote, hd, Bool.false_eq_true, if_false]
  rw [enqueue_eq _ _ hp]
  refine ⟨by first | rfl | exact hd, rfl, rfl, ?_⟩
  show vEvs (n.queue ++ _) = _
  rw [vEvs_append, vEvs_filter]

theorem nodeStep_poolBlock (n : Node) (b p : Nat × Nat) (hd : n.dead = false) (hp : (n.pool.addBlock b p).2 = []) :
    nodeStep n (.poolBlock b p) = { n with pool := (n.pool.addBlock b p).1 } := by
  simp only [nodeStep, poolBlock, hd, Bool.false_eq_true, if_false]
  rw [enqueue_eq _ _ (by rw [hp]; simp), hp]
  simp

theorem nodeStep_votor_ev (n : Node) (hd : n.dead = false) (ve : Votor.Event) :
    (votorStep n ve).1 = { n with votor := Votor.step n.votor ve, dead := (Votor.step n.votor ve).panicked } := by
  unfold votorStep
  rw [hd]; rfl

/-- pumping the whole queue: Votor handles, in order, what it can see of the queued pool events -/
theorem nodeRun_pumps : ∀ (q : List Pool.Event) (n : Node), n.queue = q → n.dead = n.votor.panicked →
    nodeRun n (List.replicate q.length .pump) =
      { pool := n.pool, votor := Votor.run n.votor (vEvs q), queue := [], dead := (Votor.run n.votor (vEvs q)).panicked } := by
  intro q
  induction q with
  | nil =>
    intro n hq hd
    cases n
    simp only at hq hd
    subst hq
    simp [nodeRun, vEvs, Votor.run, hd]
  | cons ev rest ih =>
    intro n hq hd
    simp only [List.length_cons, List.replicate_succ, nodeRun]
    have hstep : nodeStep n .pump = (pump n).1 := rfl
    rw [hstep]
    unfold pump
    rw [hq]
    dsimp only
    cases hv : toVotor ev with
    | none =>
      dsimp only
      rw [ih { n with queue := rest } rfl hd]
      have : vEvs (ev :: rest) = vEvs rest := by simp [vEvs, hv]
      rw [this]
    | some ve =>
      dsimp only
      have hvv : vEvs (ev :: rest) = ve :: vEvs rest := by simp [vEvs, hv]
      rw [hvv]
      by_cases hdd : n.dead = true
      · have hpan : n.votor.panicked = true := by rw [← hd]; exact hdd
        have hs : Votor.step n.votor ve = n.votor := by unfold Votor.step; rw [if_pos hpan]
        have : (votorStep { n with queue := rest } ve).1 = { n with queue := rest } := by
          unfold votorStep; simp [hdd]
        rw [this, ih { n with queue := rest } rfl hd]
        simp only [Votor.run, hs]
      · have hdf : n.dead = false := by simpa using hdd
        rw [nodeStep_votor_ev _ (by exact hdf)]
        rw [ih _ rfl rfl]
        simp only [Votor.run]

/-! ### the predicates -/

/-- the composed node is ready for slot `s` with parent `p` -/
structure NReady (e : Epoch) (hi s : Nat) (p : Nat × Nat) (N : Node) : Prop where
  alive : N.dead = false
  queue : N.queue = []
  epoch : N.pool.epoch = e
  trk : TReady hi s p N.pool
  noSlots : ∀ t, s ≤ t → N.pool.getSlot t = none
  waiting : WaitBelow N.pool s
  votor : VReady s p N.votor

/-- the node has registered and notarized `(s, h)`; its pool holds the notar votes of `X` and the final votes of `F`; its Votor
    has the flags `fv nr hf` (see `VAt`); Votor will see `q` when it drains the queue -/
structure NMid (e : Epoch) (hi s h : Nat) (p : Nat × Nat) (X F : List Nat) (fv nr hf : Bool) (q : List Votor.Event)
    (N : Node) : Prop where
  alive : N.dead = false
  queue : vEvs N.queue = q
  slot : ∃ a, PSlot e s a N.pool ∧ NotarSt e s h X F a
  phase : PhaseN e hi s h p X F N.pool
  votor : VAt s h fv nr hf N.votor

/-! ### the block arrives -/

theorem phaseN_start {e : Epoch} (hpos : 0 < e.total) {hi s h : Nat} {p : Nat × Nat} {Q : Pool}
    (t : TMid hi s h p false false Q) : PhaseN e hi s h p [] [] Q := by
  unfold PhaseN
  have hq := quorum_nil e hpos
  have hf : e.isStrong (stakeOf e []) = false := isMet_zero _ _ _ (by decide) hpos
  simp only [hq, hf, Bool.false_eq_true, false_and, or_self, if_false]
  exact t

theorem node_block {e : Epoch} (hpos : 0 < e.total) {hi s h : Nat} {p : Nat × Nat} {N : Node} (r : NReady e hi s p N) :
    NMid e hi s h p [] [] false false false []
      (nodeRun N [.poolBlock (s, h) p, .votorBlock s ⟨h, p.1, p.2⟩]) := by
  obtain ⟨st, h1, h2, h3, h4⟩ := addBlock_ready (h := h) hpos r.epoch r.trk r.noSlots r.waiting
  simp only [nodeRun]
  rw [nodeStep_poolBlock N _ _ r.alive h1]
  have hv : nodeStep { N with pool := (N.pool.addBlock (s, h) p).1 } (.votorBlock s ⟨h, p.1, p.2⟩) =
      (votorStep { N with pool := (N.pool.addBlock (s, h) p).1 } (.block s ⟨h, p.1, p.2⟩)).1 := rfl
  rw [hv, nodeStep_votor_ev { N with pool := (N.pool.addBlock (s, h) p).1 } r.alive]
  have hva := step_block (h := h) r.votor
  refine ⟨hva.alive, ?_, ⟨st, h2, h3⟩, phaseN_start hpos h4, hva⟩
  show vEvs N.queue = []
  rw [r.queue]; rfl

/-! ### round 1: notarization votes -/

/-- what Votor will see after the notarization votes of `X` entered the pool -/
def queue1 (e : Epoch) (s h : Nat) (X : List Nat) : List Votor.Event :=
  (if e.isQuorum (stakeOf e X) = true then
    (if ParentReady.isWindowStart (s + 1) = true then [Votor.Event.parentReady (s + 1) s h] else []) ++
      [.cert .notarFallback s h, .cert .notar s h] else []) ++
  (if e.isStrong (stakeOf e X) = true then [.cert .fastFinal s h] else [])

theorem queue1_nil (e : Epoch) (hpos : 0 < e.total) (s h : Nat) : queue1 e s h [] = [] := by
  have hq := quorum_nil e hpos
  have hf : e.isStrong (stakeOf e []) = false := isMet_zero _ _ _ (by decide) hpos
  simp [queue1, hq, hf]

theorem queue1_snoc (e : Epoch) (s h : Nat) (X : List Nat) (j : Nat) :
    queue1 e s h (X ++ [j]) = queue1 e s h X ++ notarVEvs e s h X j := by
  have hN : stakeOf e (X ++ [j]) = stakeOf e X + e.stake j := by rw [stakeOf_append, stakeOf_single]
  have hq : e.isQuorum (stakeOf e X) = true → e.isQuorum (stakeOf e (X ++ [j])) = true :=
    fun hh => isMet_mono_le _ _ _ _ _ (by omega) hh
  have hf : e.isStrong (stakeOf e X) = true → e.isStrong (stakeOf e (X ++ [j])) = true :=
    fun hh => isMet_mono_le _ _ _ _ _ (by omega) hh
  have hfq0 := isStrong_isQuorum e (stakeOf e X)
  have hfq1 := isStrong_isQuorum e (stakeOf e (X ++ [j]))
  unfold queue1 notarVEvs
  cases hq0 : e.isQuorum (stakeOf e X) <;> cases hq1 : e.isQuorum (stakeOf e (X ++ [j])) <;>
    cases hf0 : e.isStrong (stakeOf e X) <;> cases hf1 : e.isStrong (stakeOf e (X ++ [j])) <;>
    (try (have := hq hq0; rw [hq1] at this; cases this)) <;>
    (try (have := hf hf0; rw [hf1] at this; cases this)) <;>
    (try (have := hfq0 hf0; rw [hq0] at this; cases this)) <;>
    (try (have := hfq1 hf1; rw [hq1] at this; cases this)) <;>
    simp

theorem node_notar_vote {e : Epoch} (hpos : 0 < e.total) {hi s h : Nat} {p : Nat × Nat} {X : List Nat} {fv nr hf : Bool}
    {N : Node} (hs : s ≤ hi) (m : NMid e hi s h p X [] fv nr hf (queue1 e s h X) N) (j : Nat) (hj : j ∉ X) (hjn : j < e.n) :
    NMid e hi s h p (X ++ [j]) [] fv nr hf (queue1 e s h (X ++ [j])) (nodeStep N (.recvVote ⟨.notar, s, h, j⟩)) := by
  obtain ⟨a, ps, hst⟩ := m.slot
  obtain ⟨a', _, ps', hst', ph', hnp, hev⟩ := addVote_notar_step hpos hs ps hst m.phase j hj hjn
  obtain ⟨d1, d2, d3, d4⟩ := nodeStep_recvVote N ⟨.notar, s, h, j⟩ m.alive hnp
  refine ⟨d1, ?_, ⟨a', by rw [d3]; exact ps', hst'⟩, by rw [d3]; exact ph', by rw [d2]; exact m.votor⟩
  rw [d4, m.queue, hev, queue1_snoc]

theorem node_notar_votes {e : Epoch} (hpos : 0 < e.total) {hi s h : Nat} {p : Nat × Nat} {fv nr hf : Bool} (hs : s ≤ hi) :
    ∀ (L X : List Nat) (N : Node), NMid e hi s h p X [] fv nr hf (queue1 e s h X) N → (X ++ L).Nodup → (∀ j ∈ L, j < e.n) →
    NMid e hi s h p (X ++ L) [] fv nr hf (queue1 e s h (X ++ L))
      (nodeRun N (L.map (fun j => NodeOp.recvVote ⟨.notar, s, h, j⟩))) := by
  intro L
  induction L with
  | nil => intro X N m _ _; simpa [nodeRun] using m
  | cons j L ih =>
    intro X N m hnd hn
    have hj : j ∉ X := by
      intro hx
      have := List.nodup_append.mp hnd
      exact this.2.2 j hx j List.mem_cons_self rfl
    have m' := node_notar_vote hpos hs m j hj (hn j List.mem_cons_self)
    have := ih (X ++ [j]) _ m' (by simpa using hnd) (fun x hx => hn x (List.mem_cons_of_mem _ hx))
    simpa [nodeRun] using this

/-! ### Votor drains the queue -/

theorem isWindowStart_iff (t : Nat) : ParentReady.isWindowStart t = true ↔ t % Votor.W = 0 := by
  unfold ParentReady.isWindowStart
  show (t % Votor.W == 0) = true ↔ _
  simp

theorem votor_round1 {e : Epoch} {s h : Nat} {v : Votor.V} (a : VAt s h false false false v) (X : List Nat) :
    VAt s h (e.isQuorum (stakeOf e X)) (e.isQuorum (stakeOf e X) && ParentReady.isWindowStart (s + 1))
      (e.isStrong (stakeOf e X)) (Votor.run v (queue1 e s h X)) := by
  have hfq := isStrong_isQuorum e (stakeOf e X)
  unfold queue1
  cases hq : e.isQuorum (stakeOf e X) <;> cases hf : e.isStrong (stakeOf e X) <;>
    (try (have := hfq hf; rw [hq] at this; cases this)) <;>
    cases hw : ParentReady.isWindowStart (s + 1) <;>
    simp only [Bool.false_eq_true, if_false, if_true, List.nil_append, List.append_nil, List.cons_append, Votor.run,
      Bool.and_true, Bool.and_false, Bool.false_and]
  · exact a
  · exact a
  · exact step_cert_notar (step_cert_nf a)
  · exact step_cert_notar (step_cert_nf (step_parentReady a ((isWindowStart_iff _).mp hw)))
  · exact step_cert_raise (step_cert_notar (step_cert_nf a)) .fastFinal (Or.inr rfl)
  · exact step_cert_raise (step_cert_notar (step_cert_nf (step_parentReady a ((isWindowStart_iff _).mp hw)))) .fastFinal
      (Or.inr rfl)

/-- what Votor will see after the finalization votes of `F` entered the pool -/
def queue2 (e : Epoch) (s : Nat) (F : List Nat) : List Votor.Event :=
  if e.isQuorum (stakeOf e F) = true then [.cert .final s 0] else []

theorem queue2_nil (e : Epoch) (hpos : 0 < e.total) (s : Nat) : queue2 e s [] = [] := by
  simp [queue2, quorum_nil e hpos]

theorem queue2_snoc (e : Epoch) (s : Nat) (F : List Nat) (j : Nat) :
    queue2 e s (F ++ [j]) = queue2 e s F ++ finalVEvs e s F j := by
  have hN : stakeOf e (F ++ [j]) = stakeOf e F + e.stake j := by rw [stakeOf_append, stakeOf_single]
  have hq : e.isQuorum (stakeOf e F) = true → e.isQuorum (stakeOf e (F ++ [j])) = true :=
    fun hh => isMet_mono_le _ _ _ _ _ (by omega) hh
  unfold queue2 finalVEvs
  cases hq0 : e.isQuorum (stakeOf e F) <;> cases hq1 : e.isQuorum (stakeOf e (F ++ [j])) <;>
    (try (have := hq hq0; rw [hq1] at this; cases this)) <;> simp

theorem votor_round2 {e : Epoch} {s h : Nat} {fv nr hf : Bool} {v : Votor.V} (a : VAt s h fv nr hf v) (F : List Nat) :
    VAt s h fv nr (hf || e.isQuorum (stakeOf e F)) (Votor.run v (queue2 e s F)) := by
  unfold queue2
  cases hq : e.isQuorum (stakeOf e F)
  · simpa [Votor.run] using a
  · simp only [if_true, Votor.run, Bool.or_true]
    exact step_cert_raise a .final (Or.inl rfl)

/-- the node's Votor drains the queue -/
theorem node_pumps {e : Epoch} {hi s h : Nat} {p : Nat × Nat} {X F : List Nat} {fv nr hf fv' nr' hf' : Bool}
    {q : List Votor.Event} {N : Node} (m : NMid e hi s h p X F fv nr hf q N)
    (hv : VAt s h fv' nr' hf' (Votor.run N.votor q)) :
    NMid e hi s h p X F fv' nr' hf' [] (nodeRun N (List.replicate N.queue.length .pump)) := by
  rw [nodeRun_pumps N.queue N rfl (by rw [m.alive, m.votor.alive]), m.queue]
  exact ⟨hv.alive, rfl, m.slot, m.phase, hv⟩

/-! ### round 2: finalization votes (and the notarization votes again) -/

theorem node_round2_vote {e : Epoch} {hi s h : Nat} {p : Nat × Nat} {X F : List Nat} {fv nr hf : Bool}
    {N : Node} (hs : s ≤ hi) (hq : e.isQuorum (stakeOf e X) = true)
    (m : NMid e hi s h p X F fv nr hf (queue2 e s F) N) (j : Nat) (hjX : j ∈ X) (hj : j ∉ F) (hjn : j < e.n) :
    NMid e hi s h p X (F ++ [j]) fv nr hf (queue2 e s (F ++ [j]))
      (nodeRun N [.recvVote ⟨.notar, s, h, j⟩, .recvVote ⟨.final, s, 0, j⟩]) := by
  obtain ⟨a, ps, hst⟩ := m.slot
  -- the notarization vote is a duplicate
  have hdup := addVote_notar_dup hs ps hst m.phase j hjX hjn
  obtain ⟨d1, d2, d3, d4⟩ := nodeStep_recvVote N ⟨.notar, s, h, j⟩ m.alive (by rw [hdup]; simp)
  rw [hdup] at d3 d4
  have m1 : NMid e hi s h p X F fv nr hf (queue2 e s F) (nodeStep N (.recvVote ⟨.notar, s, h, j⟩)) :=
    ⟨d1, by rw [d4, m.queue]; simp [vEvs], ⟨a, by rw [d3]; exact ps, hst⟩, by rw [d3]; exact m.phase, by rw [d2]; exact m.votor⟩
  -- the finalization vote
  obtain ⟨a1, ps1, hst1⟩ := m1.slot
  obtain ⟨a', _, ps', hst', ph', hnp, hev⟩ := addVote_final_step hs ps1 hst1 hq m1.phase j hj hjn
  obtain ⟨g1, g2, g3, g4⟩ := nodeStep_recvVote _ ⟨.final, s, 0, j⟩ m1.alive hnp
  simp only [nodeRun]
  refine ⟨g1, ?_, ⟨a', by rw [g3]; exact ps', hst'⟩, by rw [g3]; exact ph', by rw [g2]; exact m1.votor⟩
  rw [g4, m1.queue, hev, queue2_snoc]

theorem node_round2 {e : Epoch} {hi s h : Nat} {p : Nat × Nat} {X : List Nat} {fv nr hf : Bool} (hs : s ≤ hi)
    (hq : e.isQuorum (stakeOf e X) = true) :
    ∀ (L F : List Nat) (N : Node), NMid e hi s h p X F fv nr hf (queue2 e s F) N → (F ++ L).Nodup → (∀ j ∈ L, j ∈ X ∧ j < e.n) →
    NMid e hi s h p X (F ++ L) fv nr hf (queue2 e s (F ++ L))
      (nodeRun N (L.flatMap (fun j => [NodeOp.recvVote ⟨.notar, s, h, j⟩, NodeOp.recvVote ⟨.final, s, 0, j⟩]))) := by
  intro L
  induction L with
  | nil => intro F N m _ _; simpa [nodeRun] using m
  | cons j L ih =>
    intro F N m hnd hn
    have hj : j ∉ F := by
      intro hx
      have := List.nodup_append.mp hnd
      exact this.2.2 j hx j List.mem_cons_self rfl
    obtain ⟨hjX, hjn⟩ := hn j List.mem_cons_self
    have m' := node_round2_vote hs hq m j hjX hj hjn
    have := ih (F ++ [j]) _ m' (by simpa using hnd) (fun x hx => hn x (List.mem_cons_of_mem _ hx))
    simpa [nodeRun] using this

/-! ### the slot is done -/

theorem node_done {e : Epoch} {hi s h : Nat} {p : Nat × Nat} {X F : List Nat} {fv nr : Bool} {N : Node}
    (m : NMid e hi s h p X F fv nr true [] N)
    (hdone : e.isStrong (stakeOf e X) = true ∨ (e.isQuorum (stakeOf e X) = true ∧ e.isQuorum (stakeOf e F) = true))
    (hnr : ParentReady.isWindowStart (s + 1) = true → nr = true) (hq : N.queue = []) :
    NReady e hi (s + 1) (s, h) N := by
  obtain ⟨a, ps, _⟩ := m.slot
  have ph := m.phase
  unfold PhaseN at ph
  rw [if_pos hdone] at ph
  refine ⟨m.alive, hq, ps.epoch, ph.1, fun t ht => ps.noAbove t (by omega), fun k hk => by have := ps.waiting k hk; omega,
    m.votor.ready_next (fun hw => hnr ((isWindowStart_iff _).mpr hw))⟩

end AgModel.Cluster
