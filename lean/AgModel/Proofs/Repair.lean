import AgModel.Model.Repair
import AgModel.Proofs.Blockstore
/-! Helper lemmas about `AgModel.Repair` and the repair path of `AgModel.Blockstore`. -/
namespace AgModel.Blockstore

theorem tryReconstructSlice_completed (env : Nat → Content) (b : BlockData) (k : Nat) :
    (tryReconstructSlice env b k).1.completed = b.completed := by
  unfold tryReconstructSlice
  repeat' split
  all_goals simp

theorem tryReconstructBlock_completed (b : BlockData) :
    (tryReconstructBlock b).1.completed = b.completed ∨
    ∃ info txs, (tryReconstructBlock b).2 = .complete info ∧
      (tryReconstructBlock b).1.completed = some ⟨info.hash, info.parent, txs⟩ := by
  unfold tryReconstructBlock
  split
  · left; rfl
  split
  · left; rfl
  split
  · left; rfl
  simp only
  split
  · left; rfl
  split
  · left; rfl
  split
  · left; rfl
  split
  · left; rfl
  right; exact ⟨_, _, rfl, rfl⟩

theorem reconstruct_completed (env : Nat → Content) (b : BlockData) (k : Nat) :
    (reconstruct env b k).1.completed = b.completed ∨
    ∃ info txs, (reconstruct env b k).2 = .ev (.block info) ∧
      (reconstruct env b k).1.completed = some ⟨info.hash, info.parent, txs⟩ := by
  unfold reconstruct
  have h1 := tryReconstructSlice_completed env b k
  split
  · left; rename_i b1 heq; rw [heq] at h1; exact h1
  · left; rename_i b1 heq; rw [heq] at h1; exact h1
  · left; rename_i b1 heq; rw [heq] at h1; exact h1
  · rename_i b1 heq; rw [heq] at h1; simp only at h1
    have h2 := tryReconstructBlock_completed b1
    split
    · left; rename_i b2 heq2; rw [heq2] at h2; simp at h2; rw [← h1]; exact h2
    · left; rename_i b2 heq2; rw [heq2] at h2; simp at h2; rw [← h1]; exact h2
    · left; rename_i b2 heq2; rw [heq2] at h2; simp at h2; rw [← h1]; exact h2
    · rename_i b2 info heq2; rw [heq2] at h2; simp at h2
      rcases h2 with h2 | ⟨txs, h2⟩
      · left; rw [← h1]; exact h2
      · right; exact ⟨info, txs, rfl, h2⟩

theorem cacheStep_completed (b b1 : BlockData) (s : Shred) (h : cacheStep b s = some b1) : b1.completed = b.completed := by
  unfold cacheStep at h
  repeat' split at h
  all_goals simp at h
  all_goals (subst h; rfl)

theorem lastStep_completed (b b1 : BlockData) (s : Shred) (h : lastStep b s = some b1) : b1.completed = b.completed := by
  unfold lastStep at h
  repeat' split at h
  all_goals simp at h
  all_goals (subst h; rfl)

theorem storeStep_completed (env : Nat → Content) (b : BlockData) (s : Shred) :
    (storeStep env b s).1.completed = b.completed ∨
    ∃ info txs, (storeStep env b s).2 = .ev (.block info) ∧
      (storeStep env b s).1.completed = some ⟨info.hash, info.parent, txs⟩ := by
  unfold storeStep
  simp only
  split
  · left; rfl
  · split
    · left; rfl
    · exact reconstruct_completed env
        { b with shreds := upd b.shreds s.slice (some (upd ((b.shreds s.slice).getD arrEmpty) s.idx (some s))) } s.slice

/-- `add_shred` either leaves `completed` alone or announces exactly the block it stores -/
theorem addShred_completed (env : Nat → Content) (b : BlockData) (s : Shred) :
    (addShredCore env b s).1.completed = b.completed ∨
    ∃ info txs, (addShredCore env b s).2 = .ev (.block info) ∧
      (addShredCore env b s).1.completed = some ⟨info.hash, info.parent, txs⟩ := by
  unfold addShredCore
  cases hc : cacheStep b s with
  | none => left; rfl
  | some b1 =>
    have e1 := cacheStep_completed b b1 s hc
    simp only
    cases hl : lastStep b1 s with
    | none => left; exact e1
    | some b2 =>
      have e2 := lastStep_completed b1 b2 s hl
      simp only
      rcases storeStep_completed env b2 s with h | h
      · left; rw [h, e2, e1]
      · right; exact h

theorem repGet_repSet (rep : List (Merkle.H × BlockData)) (h h' : Merkle.H) (v : BlockData) :
    repGet (repSet rep h v) h' = if h' = h then some v else repGet rep h' := by
  induction rep with
  | nil => simp only [repSet, repGet]; split <;> simp_all [eq_comm]
  | cons kv rest ih =>
    obtain ⟨k, w⟩ := kv
    simp only [repSet]
    split
    · rename_i hk; subst hk
      simp only [repGet]
      by_cases hh : k = h' <;> simp [hh, eq_comm]
      intro h2; exact absurd h2.symm hh
    · rename_i hk
      simp only [repGet, ih]
      by_cases hh : k = h'
      · subst hh; simp [hk]
      · simp [hh]

theorem repGet_repDel (rep : List (Merkle.H × BlockData)) (h h' : Merkle.H) :
    repGet (repDel rep h) h' = if h' = h then none else repGet rep h' := by
  induction rep with
  | nil => simp [repDel, repGet]
  | cons kv rest ih =>
    obtain ⟨k, w⟩ := kv
    unfold repDel at ih ⊢
    simp only [List.filter_cons]
    by_cases hk : k = h
    · subst hk
      simp only [ne_eq, not_true_eq_false, decide_false, Bool.false_eq_true, if_false, ih, repGet]
      by_cases hh : h' = k
      · subst hh; simp
      · simp [hh]; intro h2; exact absurd h2.symm hh
    · simp only [ne_eq, hk, not_false_eq_true, decide_true, if_true, repGet, ih]
      by_cases hh : k = h'
      · subst hh; simp [hk]
      · simp [hh]

end AgModel.Blockstore
