import AgModel.Proofs.FinalityExact
/-!
# `handle_implicitly_finalized` under the safety premise

`WalkHyp` is what holds each time the walk is entered for the link `(src, hc) → blk`: the state is justified
by the new history `H'`, closed except for that link, and *below `src`* still exactly as the old history `H`
demands — where the link was not active.  Under the safety premise the walk then neither panics nor takes
its early exits wrongly, and ends in a state related to `H'`.
-/
set_option linter.unusedSectionVars false
namespace AgModel.Finality

structure WalkHyp (H H' : List Op) (t : Tracker) (src hc : Nat) (blk : Nat × Nat) : Prop where
  slot : ∀ s, t.first ≤ s → SlotOK H' s (t.status s)
  par : ∀ c p, t.first ≤ c.1 → (t.parents c = some p ↔ LinkH H' c p)
  closed : Closed t (fun x => x = (src, hc))
  wdec : 1 ≤ t.first → Dec (t.status t.first)
  src_ge : t.first ≤ src
  src_fin : finalHash (t.status src) = some hc
  link : t.parents (src, hc) = some blk
  old_slot : ∀ s, t.first ≤ s → s < src → SlotOK H s (t.status s)
  old_final : ∀ b, Final H b → t.first ≤ b.1 → b.1 < src → finalHash (t.status b.1) = some b.2
  inactive : ¬ (Final H (src, hc) ∧ LinkH H (src, hc) blk)

section
variable {G H H' : List Op} (sf : Safe G) (hs' : Sub H' G) (hs : Sub H H')
include sf hs' hs

theorem WalkHyp.linkH {t : Tracker} {src hc : Nat} {blk : Nat × Nat} (w : WalkHyp H H' t src hc blk) :
    LinkH H' (src, hc) blk := (w.par _ _ w.src_ge).mp w.link

theorem WalkHyp.srcFinal {t : Tracker} {src hc : Nat} {blk : Nat × Nat} (w : WalkHyp H H' t src hc blk) :
    Final H' (src, hc) := slotOK_final (w.slot src w.src_ge) w.src_fin

theorem WalkHyp.lt {t : Tracker} {src hc : Nat} {blk : Nat × Nat} (w : WalkHyp H H' t src hc blk) :
    blk.1 < src := sf.link_lt _ _ ((w.linkH sf hs' hs).mono hs')

/-- the slots strictly between `blk` and `src` are undecided: had one been decided, the link would have been
    active before -/
theorem WalkHyp.between_undecided {t : Tracker} {src hc : Nat} {blk : Nat × Nat}
    (w : WalkHyp H H' t src hc blk) (s : Nat) (h1 : blk.1 < s) (h2 : s < src) (h3 : t.first ≤ s) :
    ¬ Dec (t.status s) := by
  intro d
  have hl := w.linkH sf hs' hs
  have hcF := w.srcFinal sf hs' hs
  have old := w.old_slot s h3 h2
  rcases dec_cases d with ⟨h, e⟩ | e
  · have := slotOK_final old e
    exact sf.no_final_between (src, hc) blk (s, h) (hcF.mono hs') (hl.mono hs')
      (this.mono (hs.trans hs')) ⟨h1, h2⟩
  · obtain ⟨c', p', hc', hl', a, b⟩ := slotOK_skip old e
    have := sf.span_unique (hcF.mono hs') (hl.mono hs') (hc'.mono (hs.trans hs')) (hl'.mono (hs.trans hs'))
      h1 h2 a b
    obtain ⟨e1, e2⟩ := this
    subst e1; subst e2
    exact w.inactive ⟨hc', hl'⟩

theorem WalkHyp.between_open {t : Tracker} {src hc : Nat} {blk : Nat × Nat}
    (w : WalkHyp H H' t src hc blk) (s : Nat) (h1 : blk.1 < s) (h2 : s < src) (h3 : t.first ≤ s) :
    t.status s = none ∨ ∃ h, t.status s = some (.notarized h) := by
  have nd := w.between_undecided sf hs' hs s h1 h2 h3
  have ok := w.slot s h3
  cases hst : t.status s with
  | none => exact Or.inl rfl
  | some x =>
    rw [hst] at ok nd
    cases x with
    | notarized h => exact Or.inr ⟨h, rfl⟩
    | finalPending =>
      exfalso
      have hl := w.linkH sf hs' hs
      have hcF := w.srcFinal sf hs' hs
      exact sf.fin_not_skip s (ok.1.mono hs') ⟨(src, hc), blk, hcF.mono hs', hl.mono hs', h1, h2⟩
    | finalized h => exact absurd (dec_some.mpr rfl) nd
    | implFinalized h => exact absurd (dec_some.mpr rfl) nd
    | implSkipped => exact absurd (dec_some.mpr rfl) nd

/-- when the walk reaches a block below the watermark, its child sits exactly on the watermark -/
theorem WalkHyp.early {t : Tracker} {src hc : Nat} {blk : Nat × Nat}
    (w : WalkHyp H H' t src hc blk) (hlow : blk.1 < t.first) : src = t.first := by
  have := w.src_ge
  by_cases h : t.first < src
  · exact absurd (w.wdec (by omega)) (w.between_undecided sf hs' hs t.first hlow h (Nat.le_refl _))
  · omega

end

/-! ### re-establishing closedness -/

theorem closed_step {t t' : Tracker} {pend pend' : Nat × Nat → Prop} (hf : t'.first = t.first)
    (hp : t'.parents = t.parents) (hsame : ∀ x, Dec (t.status x) → t'.status x = t.status x)
    (cl : Closed t pend)
    (hnew : ∀ c p, t'.parents c = some p → t'.first ≤ c.1 → finalHash (t'.status c.1) = some c.2 → ¬ pend' c →
      (pend c ∨ ¬ Dec (t.status c.1)) → Oblig t' c p) : Closed t' pend' := by
  intro c p h1 h2 h3 h4
  by_cases hd : Dec (t.status c.1)
  · by_cases hpc : pend c
    · exact hnew c p h1 h2 h3 h4 (Or.inl hpc)
    · rw [hsame _ hd] at h3
      rw [hp] at h1
      rw [hf] at h2
      exact oblig_transfer hf hsame (cl c p h1 h2 h3 hpc)
  · exact hnew c p h1 h2 h3 h4 (Or.inr hd)

/-- `Rel` for a state that differs from a justified one only at slots that went from undecided to decided -/
theorem rel_of_changes {H' : List Op} {t t' : Tracker} (hf : t'.first = t.first) (hp : t'.parents = t.parents)
    (slot : ∀ s, t.first ≤ s → t'.status s = t.status s → SlotOK H' s (t.status s))
    (par : ∀ c p, t.first ≤ c.1 → (t.parents c = some p ↔ LinkH H' c p))
    (wdec : 1 ≤ t.first → Dec (t.status t.first))
    (hch : ∀ x, t'.status x = t.status x ∨ (Dec (t'.status x) ∧ (t.first ≤ x → SlotOK H' x (t'.status x))))
    (cl : Closed t' (fun _ => False)) : Rel H' t' := by
  refine ⟨?_, ?_, cl, ?_⟩
  · intro s hsw
    rw [hf] at hsw
    rcases hch s with e | ⟨_, ok⟩
    · rw [e]; exact slot s hsw e
    · exact ok hsw
  · intro c p hcw
    rw [hf] at hcw
    rw [hp]; exact par c p hcw
  · intro h1
    rw [hf] at h1 ⊢
    rcases hch t.first with e | ⟨d, _⟩
    · rw [e]; exact wdec h1
    · exact d


/-! ### the walk itself -/

section
variable {G H H' : List Op} (sf : Safe G) (hs' : Sub H' G) (hs : Sub H H')
include sf hs' hs

/-- pointwise description of the status map after the skip loop and the `ImplicitlyFinalized` insert -/
theorem walk_rel : ∀ (f : Nat) (t : Tracker) (src hc : Nat) (blk : Nat × Nat) (ev : Event),
    WalkHyp H H' t src hc blk → src ≤ f →
    ∃ t' ev', walk f t src blk ev = some (t', ev') ∧ Rel H' t' := by
  intro f
  induction f with
  | zero =>
    intro t src hc blk ev w hf
    have := w.lt sf hs' hs
    omega
  | succ f ih =>
    intro t src hc blk ev w hf
    have hlt := w.lt sf hs' hs
    have hl := w.linkH sf hs' hs
    have hcF := w.srcFinal sf hs' hs
    have hblkF : Final H' blk := .step hcF hl
    generalize hr : walk (f + 1) t src blk ev = r
    simp only [walk] at hr
    split at hr
    · omega
    split at hr
    · -- the block is below the watermark: nothing to do
      rename_i hlow
      refine ⟨t, ev, hr.symm, ?_⟩
      have hsrc := w.early sf hs' hs hlow
      refine rel_of_changes rfl rfl (fun s h _ => w.slot s h) w.par w.wdec (fun _ => Or.inl rfl) ?_
      refine closed_step rfl rfl (fun _ _ => rfl) w.closed ?_
      intro c p h1 h2 h3 _ h5
      rcases h5 with h5 | h5
      · subst h5
        rw [w.link] at h1
        cases h1
        constructor
        · intro s a b c'; simp only at b; omega
        · intro a; omega
      · exact absurd (dec_of_finalHash h3) h5
    rename_i hnlow
    have hge : t.first ≤ blk.1 := by omega
    obtain ⟨st, hloop, hst⟩ := skipLoop_all (st := t.status) (acc := ev.implSkipped)
      (n := src - blk.1 - 1) (lo := blk.1 + 1)
      (fun s a b => w.between_open sf hs' hs s (by omega) (by omega) (by omega))
    rw [hloop] at hr
    simp only at hr
    -- facts about `st`
    have hbetween : ∀ x, blk.1 < x → x < src → st x = some .implSkipped := by
      intro x a b
      have : blk.1 + 1 ≤ x ∧ x < blk.1 + 1 + (src - blk.1 - 1) := by omega
      rw [hst x]; simp only [this, and_self, if_true]
    have hother : ∀ x, ¬ (blk.1 < x ∧ x < src) → st x = t.status x := by
      intro x a
      have : ¬ (blk.1 + 1 ≤ x ∧ x < blk.1 + 1 + (src - blk.1 - 1)) := by omega
      rw [hst x]; simp only [this, if_false]
    have hsame : ∀ x, Dec (t.status x) → st x = t.status x := by
      intro x d
      apply hother
      intro ⟨a, b⟩
      exact w.between_undecided sf hs' hs x a b (by omega) d
    have hskipOK : ∀ x, blk.1 < x → x < src → Skip H' x :=
      fun x a b => ⟨(src, hc), blk, hcF, hl, a, b⟩
    have hstb : st blk.1 = t.status blk.1 := hother _ (by omega)
    -- the three ways the walk goes on after the loop
    have hstop : ∀ hh, finalHash (t.status blk.1) = some hh → hh = blk.2 ∧
        Rel H' { t with status := st } := by
      intro hh e
      have hold := slotOK_final (w.old_slot blk.1 hge hlt) e
      have heq := sf.final_fun (blk.1, hh) blk (hold.mono (hs.trans hs')) (hblkF.mono hs') rfl
      have hh2 : hh = blk.2 := by rw [← heq]
      refine ⟨hh2, ?_⟩
      refine rel_of_changes (t := t) rfl rfl (fun s h _ => w.slot s h) w.par w.wdec ?_ ?_
      · intro x
        by_cases hx : blk.1 < x ∧ x < src
        · right
          show Dec (st x) ∧ (t.first ≤ x → SlotOK H' x (st x))
          rw [hbetween x hx.1 hx.2]
          exact ⟨dec_skipped, fun _ => hskipOK x hx.1 hx.2⟩
        · left; exact hother x hx
      · refine closed_step (t := t) rfl rfl hsame w.closed ?_
        intro c p h1 h2 h3 _ h5
        rcases h5 with h5 | h5
        · subst h5
          have h1' : t.parents (src, hc) = some p := h1
          rw [w.link] at h1'
          cases h1'
          constructor
          · intro s a b _; exact hbetween s a b
          · intro _
            show finalHash (st blk.1) = some blk.2
            rw [hstb, e, hh2]
        · exfalso
          have h3' : finalHash (st c.1) = some c.2 := h3
          by_cases hx : blk.1 < c.1 ∧ c.1 < src
          · rw [hbetween _ hx.1 hx.2] at h3'; cases h3'
          · rw [hother _ hx] at h3'; exact h5 (dec_of_finalHash h3')
    have hgo : ¬ Dec (t.status blk.1) →
        (match t.parents blk with
          | some p => walk f { t with status := setSt st blk.1 (.implFinalized blk.2) } blk.1 p
              { finalized := ev.finalized, implFinalized := ev.implFinalized ++ [blk],
                implSkipped := ev.implSkipped ++ List.range' (blk.1 + 1) (src - blk.1 - 1) }
          | none => some ({ t with status := setSt st blk.1 (.implFinalized blk.2) },
              { finalized := ev.finalized, implFinalized := ev.implFinalized ++ [blk],
                implSkipped := ev.implSkipped ++ List.range' (blk.1 + 1) (src - blk.1 - 1) })) = r →
        ∃ t' ev', r = some (t', ev') ∧ Rel H' t' := by
      intro hnd hr
      have hs2 : ∀ x, setSt st blk.1 (.implFinalized blk.2) x =
          if x = blk.1 then some (.implFinalized blk.2) else st x := fun x => rfl
      have hs2b : setSt st blk.1 (.implFinalized blk.2) blk.1 = some (.implFinalized blk.2) := by
        rw [hs2]; simp only [if_true]
      have hs2o : ∀ x, x ≠ blk.1 → setSt st blk.1 (.implFinalized blk.2) x = st x := by
        intro x hx; rw [hs2]; simp only [hx, if_false]
      have hsame2 : ∀ x, Dec (t.status x) → setSt st blk.1 (.implFinalized blk.2) x = t.status x := by
        intro x d
        have : x ≠ blk.1 := by intro e; subst e; exact hnd d
        rw [hs2o x this]; exact hsame x d
      have hch : ∀ x, setSt st blk.1 (.implFinalized blk.2) x = t.status x ∨
          (Dec (setSt st blk.1 (.implFinalized blk.2) x) ∧
            (t.first ≤ x → SlotOK H' x (setSt st blk.1 (.implFinalized blk.2) x))) := by
        intro x
        by_cases hxb : x = blk.1
        · right; subst hxb; rw [hs2b]
          exact ⟨dec_some.mpr rfl, fun _ => hblkF⟩
        · rw [hs2o x hxb]
          by_cases hx : blk.1 < x ∧ x < src
          · right
            rw [hbetween x hx.1 hx.2]
            exact ⟨dec_skipped, fun _ => hskipOK x hx.1 hx.2⟩
          · left; exact hother x hx
      -- obligations of the link just followed
      have hobl : Oblig { t with status := setSt st blk.1 (.implFinalized blk.2) } (src, hc) blk := by
        constructor
        · intro s a b _
          show setSt st blk.1 (.implFinalized blk.2) s = _
          rw [hs2o s (by omega)]; exact hbetween s a b
        · intro _
          show finalHash (setSt st blk.1 (.implFinalized blk.2) blk.1) = _
          rw [hs2b]; rfl
      -- a newly finalized child can only be `blk`
      have hnewfin : ∀ c : Nat × Nat, ¬ Dec (t.status c.1) →
          finalHash (setSt st blk.1 (.implFinalized blk.2) c.1) = some c.2 → c = blk := by
        intro c nd e
        by_cases hcb : c.1 = blk.1
        · rw [hcb, hs2b] at e
          have : blk.2 = c.2 := Option.some.inj e
          exact Prod.ext hcb this.symm
        · exfalso
          rw [hs2o _ hcb] at e
          by_cases hx : blk.1 < c.1 ∧ c.1 < src
          · rw [hbetween _ hx.1 hx.2] at e; cases e
          · rw [hother _ hx] at e; exact nd (dec_of_finalHash e)
      split at hr
      · -- the parent of `blk` is known: recurse
        rename_i p hp
        rw [← hr]
        apply ih
        · refine ⟨?_, ?_, ?_, ?_, hge, ?_, hp, ?_, ?_, ?_⟩
          · intro s hsw
            rcases hch s with e | ⟨_, ok⟩
            · show SlotOK H' s (setSt st blk.1 (.implFinalized blk.2) s)
              rw [e]; exact w.slot s hsw
            · exact ok hsw
          · exact w.par
          · refine closed_step (t := t) rfl rfl hsame2 w.closed ?_
            intro c q h1 h2 h3 h4 h5
            rcases h5 with h5 | h5
            · subst h5
              have h1' : t.parents (src, hc) = some q := h1
              rw [w.link] at h1'
              cases h1'
              exact hobl
            · exact absurd (hnewfin c h5 h3) h4
          · intro h1
            rcases hch t.first with e | ⟨d, _⟩
            · show Dec (setSt st blk.1 (.implFinalized blk.2) t.first)
              rw [e]; exact w.wdec h1
            · exact d
          · show finalHash (setSt st blk.1 (.implFinalized blk.2) blk.1) = _
            rw [hs2b]; rfl
          · intro s a b
            show SlotOK H s (setSt st blk.1 (.implFinalized blk.2) s)
            rw [hs2o s (by omega), hother s (by omega)]
            exact w.old_slot s a (by omega)
          · intro b hb a c'
            show finalHash (setSt st blk.1 (.implFinalized blk.2) b.1) = _
            rw [hs2o _ (by omega), hother _ (by omega)]
            exact w.old_final b hb a (by omega)
          · intro ⟨hfin, _⟩
            exact hnd (dec_of_finalHash (w.old_final blk hfin hge hlt))
        · omega
      · -- no parent known: done
        rename_i hp
        refine ⟨_, _, hr.symm, ?_⟩
        refine rel_of_changes (t := t) rfl rfl (fun s h _ => w.slot s h) w.par w.wdec hch ?_
        refine closed_step (t := t) rfl rfl hsame2 w.closed ?_
        intro c q h1 h2 h3 _ h5
        rcases h5 with h5 | h5
        · subst h5
          have h1' : t.parents (src, hc) = some q := h1
          rw [w.link] at h1'
          cases h1'
          exact hobl
        · exfalso
          have := hnewfin c h5 h3
          subst this
          have h1' : t.parents c = some q := h1
          rw [hp] at h1'; cases h1'
    -- case analysis on the status of the block's slot
    rw [hstb] at hr
    cases hsb : t.status blk.1 with
    | none =>
      rw [hsb] at hr
      exact hgo (by rw [hsb]; exact not_dec_none) hr
    | some x =>
      rw [hsb] at hr
      cases x with
      | notarized h =>
        -- D27: `h` may differ from `blk.2` (a notarized sibling); the slot becomes `ImplicitlyFinalized(blk.2)`
        exact hgo (by rw [hsb]; simp [dec_some, Status.decided]) hr
      | finalPending =>
        exact hgo (by rw [hsb]; simp [dec_some, Status.decided]) hr
      | finalized h =>
        simp only at hr
        have ⟨hh, rel⟩ := hstop h (by rw [hsb]; rfl)
        rw [if_pos hh] at hr
        exact ⟨_, _, hr.symm, rel⟩
      | implFinalized h =>
        simp only at hr
        have ⟨hh, rel⟩ := hstop h (by rw [hsb]; rfl)
        rw [if_pos hh] at hr
        exact ⟨_, _, hr.symm, rel⟩
      | implSkipped =>
        exfalso
        have old := w.old_slot blk.1 hge hlt
        rw [hsb] at old
        exact sf.final_not_skip (hblkF.mono hs') (Skip.mono (hs.trans hs') old)

end

end AgModel.Finality
