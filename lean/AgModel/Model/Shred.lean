import AgModel.Gen.Consts
import AgModel.Model.Merkle
import AgModel.Model.Pad
/-
Model of `src/shredder.rs` (the four shredders, `Shredder::deshred`, `fill_missing_shreds`,
`check_merkle_tree`, `decrypt_payload`, `SliceCommitment`), `src/shredder/reed_solomon.rs`
(`ReedSolomonCoder::{shred, deshred}`), `src/shredder/validated_shreds.rs` (`ValidatedShreds::try_new`),
`src/shredder/validated_shred.rs` (`ValidatedShred::try_new`) and the payload (de)serialisation of
`src/types/slice.rs`.

External crates are *parameters* (`Env`), their contracts are hypotheses of the theorems (`Env.Laws`):
`reed-solomon-simd` (encode / restored originals), AES-128-CTR (`apply_keystream`), the SHA-256 mask of
the RAONT key, and the interning of shard bytes as Merkle leaf ids (`Model/Merkle.lean` has leaves `Nat`).
Ed25519 is symbolic: a signature *is* (key, commitment), or junk.
-/
namespace AgModel.Shred
open AgModel.Merkle AgModel.Pad

abbrev Bytes := List Nat

/-- `cipher::KEY_BYTES` -/
def KEY_BYTES : Nat := AgModel.Gen.KEY_BYTES

structure Env where
  /-- `ReedSolomonEncoder`: the `nc` recovery shards of 32 original shards -/
  encode : Nat → List Bytes → List Bytes
  /-- `ReedSolomonDecoder`: `restore nc shardBytes originals recoveries i` = `restored_original(i)` -/
  restore : Nat → Nat → List (Nat × Bytes) → List (Nat × Bytes) → Nat → Bytes
  /-- `cipher::apply_keystream key buffer` -/
  keystream : Bytes → Bytes → Bytes
  /-- `key ^ sha256(ciphertext)[..KEY_BYTES]` (first argument: the ciphertext) -/
  mask : Bytes → Bytes → Bytes
  /-- Merkle leaf data id of a shard (`0` is the empty byte string) -/
  leafId : Bytes → Nat

/-! ### headers, commitments, signatures, shreds -/

structure Header where
  slot : Nat
  sliceIdx : Nat
  isLast : Bool
deriving DecidableEq, Repr, Inhabited

/-- `SliceCommitment`: `slot (u64 LE) || slice_index (u64 LE) || is_last (u8) || slice_root (32 B)`;
    the byte layout is injective for `slot, slice_index < 2^64`, which the types guarantee. -/
structure Commitment where
  slot : Nat
  sliceIdx : Nat
  isLast : Bool
  root : H
deriving DecidableEq, Repr, Inhabited

def commit (h : Header) (root : H) : Commitment := ⟨h.slot, h.sliceIdx, h.isLast, root⟩

inductive Sig where
  | signed (key : Nat) (c : Commitment)
  | junk (n : Nat)
deriving DecidableEq, Repr, Inhabited

/-- `Signature::verify_bytes(msg, pk)` -/
def Sig.verify (s : Sig) (c : Commitment) (pk : Nat) : Bool := decide (s = .signed pk c)

/-- `Shred` (`isData` is the `ShredPayloadType` tag). -/
structure Shred where
  isData : Bool
  header : Header
  index : Nat
  data : Bytes
  sig : Sig
  path : List H
deriving DecidableEq, Repr, Inhabited

/-- `Shred::slice_root` = `SliceMerkleTree::derive_root(data, shred_index, merkle_path)` -/
def Shred.sliceRoot (env : Env) (s : Shred) : H := deriveRoot (.leaf (env.leafId s.data)) s.index s.path

/-- `ValidatedShred` (shred + cached root) -/
structure VShred where
  shred : Shred
  root : H
deriving DecidableEq, Repr, Inhabited

def VShred.commitment (v : VShred) : Commitment := commit v.shred.header v.root

inductive VErr where
  | invalidSignature
  | equivocation
deriving DecidableEq, Repr

/-- `ValidatedShred::try_new(shred, cached_commitment, pk)` of the pinned snapshot: the root is derived with
    `derive_root`, which ignores the index bits above the path length (defect D32: under a signed tree of height
    `h < 6` the shred at `j` is also accepted as `j + k * 2^h`). Kept for the witness theorem. -/
def validateOld (env : Env) (s : Shred) (cached : Option Commitment) (pk : Nat) : Except VErr VShred :=
  let root := s.sliceRoot env
  let msg := commit s.header root
  match cached with
  | some c =>
    if c = msg then .ok ⟨s, root⟩
    else if s.sig.verify msg pk then .error .equivocation
    else .error .invalidSignature
  | none =>
    if s.sig.verify msg pk then .ok ⟨s, root⟩ else .error .invalidSignature

/-- the Merkle path consumes the whole index: `index >> path.len() == 0` -/
def Shred.indexConsumed (s : Shred) : Bool := decide (s.index / 2 ^ s.path.length = 0)

/-- `ValidatedShred::try_new` after the D32 `fix:` and before the D34 `fix:`: on a cache hit (`cached == msg`) the
    signature of the shred is never looked at (defect D34: a relay replaces the signature of a genuine shred by
    garbage; once another shred has seeded the cache it is accepted, stored, forwarded, and `deshred` may copy the
    garbage into every regenerated shred). Kept for the witness theorem. -/
def validateCacheOld (env : Env) (s : Shred) (cached : Option Commitment) (pk : Nat) : Except VErr VShred :=
  if !s.indexConsumed then .error .invalidSignature else validateOld env s cached pk

/-- `SliceCommitment` as a cache entry (since the D34 `fix:`): the bytes the leader signs and, when the entry was
    obtained from a validated shred, the signature that was verified for them (`verified_sig`). Rust's `==` on
    `SliceCommitment` compares `commitment` only. -/
structure Cached where
  commitment : Commitment
  sig : Option Sig
deriving DecidableEq, Repr, Inhabited

/-- `ValidatedShred::commitment()`: remembers the shred's own signature as verified -/
def VShred.cacheEntry (v : VShred) : Cached := ⟨v.commitment, some v.shred.sig⟩

/-- the shortcut condition: same commitment and the very signature verified for the cached one -/
def Cached.shortcuts (e : Cached) (msg : Commitment) (sig : Sig) : Bool :=
  decide (e.commitment = msg) && decide (e.sig = some sig)

/-- `ValidatedShred::try_new(shred, cached_commitment, pk)` (after the D32 and D34 `fix:`es): index guard; then the
    shortcut (cached commitment identical *and* the shred carries the signature verified for it); otherwise the
    signature is verified in full, and a valid signature over another commitment than the cached one is
    `Equivocation`. -/
def validate (env : Env) (s : Shred) (cached : Option Cached) (pk : Nat) : Except VErr VShred :=
  if !s.indexConsumed then .error .invalidSignature
  else
    let root := s.sliceRoot env
    let msg := commit s.header root
    if (match cached with | some e => e.shortcuts msg s.sig | none => false) then .ok ⟨s, root⟩
    else if !s.sig.verify msg pk then .error .invalidSignature
    else match cached with
      | some e => if e.commitment ≠ msg then .error .equivocation else .ok ⟨s, root⟩
      | none => .ok ⟨s, root⟩

/-! ### slices and their payload bytes (wincode, fixed-width little endian integers) -/

structure Slice where
  header : Header
  /-- parent block id: slot and the 32 hash bytes -/
  parent : Option (Nat × Bytes)
  data : Bytes
deriving DecidableEq, Repr

def leBytes : Nat → Nat → Bytes
  | 0, _ => []
  | w + 1, n => n % 256 :: leBytes w (n / 256)

def ofLe : Bytes → Nat
  | [] => 0
  | b :: bs => b + 256 * ofLe bs

/-- `Slice::payload_bytes` = `SlicePayload::to_bytes` -/
def payloadBytes (parent : Option (Nat × Bytes)) (data : Bytes) : Bytes :=
  (match parent with
    | none => [0]
    | some (slot, hash) => 1 :: (leBytes 8 slot ++ hash)) ++ (leBytes 8 data.length ++ data)

inductive DErr where
  | invalidLayout
  | notEnoughShreds
  | tooMuchData
  | badEncoding
  | invalidMerkleTree
deriving DecidableEq, Repr

def parseData (parent : Option (Nat × Bytes)) (rest : Bytes) : Except DErr (Option (Nat × Bytes) × Bytes) :=
  if rest.length < 8 then .error .badEncoding
  else if (rest.drop 8).length ≠ ofLe (rest.take 8) then .error .badEncoding
  else .ok (parent, rest.drop 8)

/-- `SlicePayload::try_from(&[u8])` (size cap, then `deserialize_exact`: no trailing bytes) -/
def parsePayload (b : Bytes) : Except DErr (Option (Nat × Bytes) × Bytes) :=
  if b.length > MAX_PER_SLICE then .error .tooMuchData
  else match b with
    | [] => .error .badEncoding
    | 0 :: rest => parseData none rest
    | 1 :: rest =>
      if rest.length < 40 then .error .badEncoding
      else parseData (some (ofLe (rest.take 8), (rest.drop 8).take 32)) (rest.drop 40)
    | _ :: _ => .error .badEncoding

/-! ### the Reed–Solomon coder wrapper -/

/-- `RawShreds` -/
structure Raw where
  data : List Bytes
  coding : List Bytes
deriving DecidableEq, Repr

/-- `ReedSolomonCoder::shred`; `none` = `TooMuchData` -/
def coderShred (env : Env) (nc : Nat) (payload : Bytes) : Option Raw :=
  if payload.length > MAX_PER_SLICE then none
  else some ⟨rsSplit payload, env.encode nc (rsSplit payload)⟩

inductive Variant where
  | regular
  | codingOnly
  | pets
  | aont
deriving DecidableEq, Repr

/-- `DATA_OUTPUT_SHREDS` -/
def Variant.nData : Variant → Nat
  | .regular => DATA
  | .codingOnly => 0
  | .pets => DATA - 1
  | .aont => DATA

/-- `CODING_OUTPUT_SHREDS` (also the `num_coding` the coder is built with) -/
def Variant.nCoding : Variant → Nat
  | .regular => TOTAL - DATA
  | .codingOnly => TOTAL
  | .pets => TOTAL - DATA + 1
  | .aont => TOTAL - DATA

/-- `MAX_DATA_SIZE` -/
def Variant.maxData : Variant → Nat
  | .regular => MAX_PER_SLICE
  | .codingOnly => MAX_PER_SLICE
  | .pets => MAX_PER_SLICE - KEY_BYTES
  | .aont => MAX_PER_SLICE - KEY_BYTES

/-- the shredder-specific part of `shred`: payload bytes ↦ raw output shreds (`key`: the random key) -/
def shredRaw (env : Env) (v : Variant) (key : Bytes) (pb : Bytes) : Option Raw :=
  match v with
  | .regular => coderShred env v.nCoding pb
  | .codingOnly => (coderShred env v.nCoding pb).map fun r => { r with data := [] }
  | .pets =>
    (coderShred env v.nCoding (env.keystream key pb ++ key)).map fun r => { r with data := r.data.dropLast }
  | .aont =>
    coderShred env v.nCoding (env.keystream key pb ++ env.mask (env.keystream key pb) key)

/-- `build_merkle_tree` -/
def buildTree (env : Env) (raw : Raw) : Tree := Tree.new ((raw.data ++ raw.coding).map env.leafId)

/-- the shred `fill_missing_shreds` creates for position `i` with bytes `d` -/
def mkShred (h : Header) (numData : Nat) (tree : Tree) (sig : Sig) (i : Nat) (d : Bytes) : VShred :=
  ⟨⟨decide (i < numData), h, i, d, sig, tree.createProof i⟩, tree.root⟩

/-- the `for ((index, data), shred) in raw.enumerate().zip(shreds.iter_mut())` loop -/
def fillAux (mk : Nat → Bytes → VShred) : Nat → List Bytes → List (Option VShred) → List (Option VShred)
  | _, [], rest => rest
  | _, _ :: _, [] => []
  | i, d :: ds, s :: ss =>
    (match s with
      | some x => some x
      | none => some (mk i d)) :: fillAux mk (i + 1) ds ss

/-- `fill_missing_shreds`; `none` = the `assert_eq!(num_data + coding.len(), TOTAL_SHREDS)` panic -/
def fillMissing (shreds : List (Option VShred)) (h : Header) (raw : Raw) (tree : Tree) (sig : Sig) :
    Option (List (Option VShred)) :=
  if raw.data.length + raw.coding.length ≠ TOTAL then none
  else some (fillAux (mkShred h raw.data.length tree sig) 0 (raw.data ++ raw.coding) shreds)

inductive Res (α : Type) where
  | ok (a : α)
  | err (e : DErr)
  | panic
deriving Repr, DecidableEq

/-- `Shredder::shred` for the four shredders (`sk`: the leader's key, `key`: the fresh cipher key):
    `data_and_coding_to_output_shreds` after the shredder-specific part. `panic`: the `assert_eq!` of
    `fill_missing_shreds` or the `expect` of `assemble_output_shreds`. -/
def shred (env : Env) (v : Variant) (sl : Slice) (sk : Nat) (key : Bytes) : Res (List VShred) :=
  match shredRaw env v key (payloadBytes sl.parent sl.data) with
  | none => .err .tooMuchData
  | some raw =>
    let tree := buildTree env raw
    let sig := Sig.signed sk (commit sl.header tree.root)
    match fillMissing (List.replicate TOTAL none) sl.header raw tree sig with
    | none => .panic
    | some out => if out.all Option.isSome then .ok (out.filterMap id) else .panic

/-! ### deshredding -/

/-- first present shred: `shreds.iter().flatten().next()` -/
def anyShred : List (Option VShred) → Option VShred
  | [] => none
  | some s :: _ => some s
  | none :: rest => anyShred rest

def count (shreds : List (Option VShred)) : Nat := (shreds.filter Option.isSome).length

inductive Layout where
  | ok
  | invalid
  | panic
deriving DecidableEq, Repr

/-- the index / kind loop of `ValidatedShreds::try_new` -/
def layoutLoop (nd : Nat) : Nat → List (Option VShred) → Layout
  | _, [] => .ok
  | i, none :: rest => layoutLoop nd (i + 1) rest
  | i, some s :: rest =>
    if s.shred.index ≠ i then .panic
    else if (i < nd && !s.shred.isData) || (i ≥ nd && s.shred.isData) then .invalid
    else layoutLoop nd (i + 1) rest

/-- `ValidatedShreds::try_new(shreds, nd, TOTAL - nd)` -/
def tryNewLayout (shreds : List (Option VShred)) (nd : Nat) : Layout :=
  match anyShred shreds with
  | none => .invalid
  | some a =>
    let size := a.shred.data.length
    if size = 0 || size % 2 ≠ 0 then .invalid
    else if shreds.any (fun s => match s with | some x => x.shred.data.length ≠ size | none => false) then .invalid
    else layoutLoop nd 0 shreds

/-- `data_shred_payloads`: `(shred_index, data)` of the present shreds among the first `nd` -/
def origOf (shreds : List (Option VShred)) (nd : Nat) : List (Nat × Bytes) :=
  (List.range nd).filterMap fun i =>
    match shreds[i]? with
    | some (some s) => some (s.shred.index, s.shred.data)
    | _ => none

/-- `coding_shred_payloads`: `(shred_index - nd, data)` of the present shreds after the first `nd` -/
def recOf (shreds : List (Option VShred)) (nd : Nat) : List (Nat × Bytes) :=
  (List.range (shreds.length - nd)).filterMap fun j =>
    match shreds[nd + j]? with
    | some (some s) => some (s.shred.index - nd, s.shred.data)
    | _ => none

def lookup (l : List (Nat × Bytes)) (i : Nat) : Option Bytes := (l.find? (·.1 == i)).map (·.2)

/-- `shreds.any_shred().payload().data.len()` -/
def anySize (shreds : List (Option VShred)) : Nat :=
  match anyShred shreds with
  | some a => a.shred.data.length
  | none => 0

/-- data shard `i`: the received one, else `restored.restored_original(i)` -/
def mergeShard (env : Env) (nc sb : Nat) (orig rcv : List (Nat × Bytes)) (i : Nat) : Bytes :=
  match lookup orig i with
  | some d => d
  | none => env.restore nc sb orig rcv i

/-- `ReedSolomonCoder::deshred` (coder built with `nc` recovery shards; `nd` of `ValidatedShreds`) -/
def coderDeshred (env : Env) (nc nd : Nat) (shreds : List (Option VShred)) : Except DErr (Bytes × Raw) :=
  if count shreds < DATA then .error .notEnoughShreds
  else
    let shards := (List.range DATA).map (mergeShard env nc (anySize shreds) (origOf shreds nd) (recOf shreds nd))
    -- `restored_payload.len() + shred_data.len() > MAX_DATA_PER_SLICE_AFTER_PADDING` inside the loop:
    -- the running length is monotone, so the loop fails iff the total exceeds the bound
    if shards.flatten.length > MAX_AFTER_PADDING then .error .tooMuchData
    else match unpad shards.flatten with
      | none => .error .badEncoding
      | some payload => .ok (payload, ⟨shards, env.encode nc shards⟩)

/-- `decrypt_payload(buffer, derive_key)` -/
def decryptPayload (env : Env) (buffer : Bytes) (derive : Bytes → Bytes → Bytes) : Except DErr Bytes :=
  if buffer.length < KEY_BYTES then .error .badEncoding
  else
    let ct := buffer.take (buffer.length - KEY_BYTES)
    let tail := buffer.drop (buffer.length - KEY_BYTES)
    .ok (env.keystream (derive tail ct) ct)

/-- `deshred_validated_shreds` of the four shredders -/
def deshredValidated (env : Env) (v : Variant) (shreds : List (Option VShred)) : Except DErr (Bytes × Raw) :=
  match coderDeshred env v.nCoding v.nData shreds with
  | .error e => .error e
  | .ok (buf, raw) =>
    match v with
    | .regular => .ok (buf, raw)
    | .codingOnly => .ok (buf, { raw with data := [] })
    | .pets =>
      match decryptPayload env buf (fun tail _ => tail) with
      | .error e => .error e
      | .ok p => .ok (p, { raw with data := raw.data.dropLast })
    | .aont =>
      match decryptPayload env buf (fun tail ct => env.mask ct tail) with
      | .error e => .error e
      | .ok p => .ok (p, raw)

/-- `ReconstructedSlice` -/
structure RSlice where
  slice : Slice
  root : H
deriving DecidableEq, Repr

/-- `Shredder::deshred` (default method of the trait); the second component of `ok` is the array after
    the call. On `err`/`panic` the code has not written to the array (it is only written by the final
    `fill_missing_shreds`). -/
def deshred (env : Env) (v : Variant) (shreds : List (Option VShred)) : Res (RSlice × List (Option VShred)) :=
  if shreds.all Option.isNone then .err .notEnoughShreds
  else match tryNewLayout shreds v.nData with
    | .invalid => .err .invalidLayout
    | .panic => .panic
    | .ok =>
      match deshredValidated env v shreds with
      | .error e => .err e
      | .ok (pb, raw) =>
        match anyShred shreds with
        | none => .panic
        | some a =>
          let tree := buildTree env raw
          if tree.root ≠ a.root then .err .invalidMerkleTree
          else match parsePayload pb with
            | .error e => .err e
            | .ok (parent, data) =>
              match fillMissing shreds a.shred.header raw tree a.shred.sig with
              | none => .panic
              | some out => .ok (⟨⟨a.shred.header, parent, data⟩, a.root⟩, out)

/-- the array the caller holds after `deshred` returned (`shreds` itself unless the call succeeded) -/
def arrayAfter (shreds : List (Option VShred)) : Res (RSlice × List (Option VShred)) → List (Option VShred)
  | .ok (_, out) => out
  | _ => shreds

end AgModel.Shred
