import AgModel.Gen.Consts
/-
Model of `src/crypto/merkle.rs` (import-free, executable).

SHA-256 with the three labels of merkle.rs is idealised as a free term algebra `H`:
`H.leaf d`   = hash_leaf(data with id d)      (id 0 is the empty byte string `&[]`)
`H.node l r` = hash_pair(l, r)
`H.junk n`   = some 32-byte string that is not the hash of anything (attacker-chosen bytes)
Injectivity of the constructors and their disjointness is exactly "no SHA-256 collision" plus the
LEAF/LEFT/RIGHT labels.
-/
namespace AgModel.Merkle

inductive H where
  | leaf (d : Nat)
  | node (l r : H)
  | junk (n : Nat)
deriving DecidableEq, Repr, Inhabited

/-- `EMPTY_ROOTS[h]`: root of a perfect tree of height `h` over empty leaves. -/
def emptyRoot : Nat → H
  | 0 => .leaf 0
  | h + 1 => .node (emptyRoot h) (emptyRoot h)

/-- `MAX_MERKLE_TREE_HEIGHT` / `EMPTY_ROOTS.len()`; tied to the source by `Gen.Consts`. -/
def maxHeight : Nat := AgModel.Gen.MAX_MERKLE_TREE_HEIGHT

/-- One pass of the `while len > 1` loop body of `MerkleTree::new` at height `h`. -/
def nextLevel (h : Nat) : List H → List H
  | [] => []
  | [a] => [.node a (emptyRoot h)]
  | a :: b :: rest => .node a b :: nextLevel h rest

theorem nextLevel_length (h : Nat) (l : List H) : (nextLevel h l).length = (l.length + 1) / 2 := by
  fun_induction nextLevel h l with
  | case1 => simp
  | case2 a => simp
  | case3 a b rest ih => simp only [List.length_cons, ih]; omega

/-- The `while len > 1` loop with explicit fuel (structural, so it evaluates in the kernel). -/
def buildLevelsF : Nat → Nat → List H → List (List H)
  | 0, _, cur => [cur]
  | f + 1, h, cur => if cur.length ≤ 1 then [cur] else cur :: buildLevelsF f (h + 1) (nextLevel h cur)

/-- All levels of the tree, bottom (leaf hashes) first; the `levels`/`nodes` arrays of the struct.
    `cur.length` iterations always suffice (`Proofs.Merkle.buildLevels_eq_wf`). -/
def buildLevels (h : Nat) (cur : List H) : List (List H) := buildLevelsF cur.length h cur

/-- The same loop by well-founded recursion on the level length (used by the proofs). -/
def buildLevelsWF (h : Nat) (cur : List H) : List (List H) :=
  if hlen : cur.length ≤ 1 then [cur]
  else cur :: buildLevelsWF (h + 1) (nextLevel h cur)
termination_by cur.length
decreasing_by rw [nextLevel_length]; omega

structure Tree where
  levels : List (List H)
deriving Repr

/-- `MerkleTree::new` over leaf data ids (`assert!(!nodes.is_empty())` is the caller's guard). -/
def Tree.new (leaves : List Nat) : Tree := ⟨buildLevels 0 (leaves.map H.leaf)⟩

def Tree.height (t : Tree) : Nat := t.levels.length - 1

def Tree.root (t : Tree) : H := (t.levels.getLast?.bind List.head?).getD (.junk 0)

/-- sibling index `i ^ 1`. -/
def sib (i : Nat) : Nat := if i % 2 = 0 then i + 1 else i - 1

def proofAux : Nat → Nat → List (List H) → List H
  | _, _, [] => []
  | h, i, lvl :: rest =>
    if rest.isEmpty then []
    else (if sib i ≥ lvl.length then emptyRoot h else lvl.getD (sib i) (.junk 0)) :: proofAux (h + 1) (i / 2) rest

/-- `create_proof` (both `assert!`s are the caller's guard: `index < leaves`). -/
def Tree.createProof (t : Tree) (index : Nat) : List H := proofAux 0 index t.levels

/-- `derive_hash_root`, returning also what is left of the index after the loop. -/
def deriveRootIdx : H → Nat → List H → H × Nat
  | node, i, [] => (node, i)
  | node, i, p :: ps => deriveRootIdx (if i % 2 = 0 then .node node p else .node p node) (i / 2) ps

def deriveRoot (x : H) (i : Nat) (π : List H) : H := (deriveRootIdx x i π).1

/-- `check_hash_proof` *as repaired* (fix D5): the index must be exhausted by the proof. -/
def checkHashProof (x : H) (i : Nat) (root : H) (π : List H) : Bool :=
  decide (π.length ≤ maxHeight) && decide ((deriveRootIdx x i π).2 = 0) && decide (deriveRoot x i π = root)

/-- `check_hash_proof` of the pinned snapshot (index bits above the proof length ignored). -/
def checkHashProofOld (x : H) (i : Nat) (root : H) (π : List H) : Bool :=
  decide (π.length ≤ maxHeight) && decide (deriveRoot x i π = root)

def checkProof (d : Nat) (i : Nat) (root : H) (π : List H) : Bool := checkHashProof (.leaf d) i root π

/-- loop of `derive_hash_root_last` from height `h`. -/
def deriveLastAux : Nat → H → Nat → List H → Option (H × Nat)
  | _, node, i, [] => some (node, i)
  | h, node, i, p :: ps =>
    if i % 2 = 0 then
      if p ≠ emptyRoot h then none else deriveLastAux (h + 1) (.node node (emptyRoot h)) (i / 2) ps
    else deriveLastAux (h + 1) (.node p node) (i / 2) ps

/-- `derive_hash_root_last` as repaired: `None` also when the index is not exhausted. -/
def deriveRootLast (x : H) (i : Nat) (π : List H) : Option H :=
  if π.length > maxHeight then none
  else match deriveLastAux 0 x i π with
    | some (r, 0) => some r
    | _ => none

def deriveRootLastOld (x : H) (i : Nat) (π : List H) : Option H :=
  if π.length > maxHeight then none
  else (deriveLastAux 0 x i π).map (·.1)

def checkHashProofLast (x : H) (i : Nat) (root : H) (π : List H) : Bool :=
  match deriveRootLast x i π with
  | some r => decide (r = root)
  | none => false

def checkProofLast (d : Nat) (i : Nat) (root : H) (π : List H) : Bool :=
  checkHashProofLast (.leaf d) i root π

end AgModel.Merkle
