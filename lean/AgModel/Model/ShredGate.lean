import AgModel.Model.Shred
/-
Model of the equivocation gate of `BlockData::add_shred` / `SlotBlockData::add_shred_from_dissemination`
(`src/consensus/blockstore/slot_block_data.rs` l.84-96, l.202-238) and of the glue of
`BlockstoreImpl::add_shred_from_dissemination` that flags the leader (`blockstore.rs` l.249-270):
the `leader_misbehaved` flag, the commitment cache per slice and the last-slice marker. What happens to a
shred that passes the gate (duplicate check, storage, reconstruction) belongs to C13 and is not modelled here.
-/
namespace AgModel.Shred

structure Gate where
  misbehaved : Bool := false
  /-- `commitment_cache`: slice index ↦ first commitment seen -/
  cache : List (Nat × Commitment) := []
  /-- the `verified_sig` component of the `commitment_cache` entries (since the D34 `fix:`): slice index ↦ signature
      of the shred that seeded the entry. Kept in a second association list that is extended exactly when `cache` is
      (same keys, same order), so that the gate lemmas about `cache` are untouched. -/
  sigs : List (Nat × Sig) := []
  lastSlice : Option Nat := none
deriving Repr, DecidableEq

inductive GateVerdict where
  /-- `Err(InvalidShred)`: leader already flagged, shred not added -/
  | invalidShred
  /-- `Err(Equivocation)` -/
  | equivocation
  /-- the shred goes on to the duplicate check / storage / reconstruction -/
  | pass
  /-- `Err(WrongType)` (D15 `fix:`): the data/coding type does not fit the index; the shred is dropped before
      anything is cached or stored, the leader is not blamed -/
  | wrongType
deriving Repr, DecidableEq

/-- `RegularShredder::has_expected_type`: a data shred iff the index is below `DATA_SHREDS` (the blockstore and
    the node are hard-wired to the regular shredder) -/
def Shred.typeOk (s : Shred) : Bool := s.isData == decide (s.index < AgModel.Pad.DATA)

def Gate.cached (g : Gate) (idx : Nat) : Option Commitment := (g.cache.find? (·.1 == idx)).map (·.2)

/-- `Blockstore::cached_commitment(slot, slice)`: the entry with the signature it remembers -/
def Gate.cachedEntry (g : Gate) (idx : Nat) : Option Cached :=
  (g.cached idx).map fun c => ⟨c, (g.sigs.find? (·.1 == idx)).map (·.2)⟩

/-- (the gate of the pinned snapshot, before the D15 `fix:`: no look at the data/coding type; kept as the core of
    `Gate.add` and for the witness theorems) `SlotBlockData::add_shred_from_dissemination` up to and including the last-slice check of
    `BlockData::add_shred`, followed by `flag_leader_misbehavior` on `Equivocation`. -/
def Gate.addOld (g : Gate) (v : VShred) : Gate × GateVerdict :=
  if g.misbehaved then (g, .invalidShred)
  else
    let idx := v.shred.header.sliceIdx
    let isLast := v.shred.header.isLast
    match g.cached idx with
    | some c =>
      if c ≠ v.commitment then ({ g with misbehaved := true }, .equivocation)
      else
        match g.lastSlice with
        | none =>
          if isLast then
            -- (after the D2 `fix:`) a slice already seen beyond the newly declared last slice contradicts the marker
            if g.cache.any (fun e => decide (e.1 > idx)) then ({ g with misbehaved := true }, .equivocation)
            else ({ g with lastSlice := some idx }, .pass)
          else (g, .pass)
        | some l =>
          if (idx < l && !isLast) || (idx == l && isLast) then (g, .pass)
          else ({ g with misbehaved := true }, .equivocation)
    | none =>
      -- the cache entry is inserted before the last-slice check (and stays when that check fails)
      let g' := { g with cache := (idx, v.commitment) :: g.cache, sigs := (idx, v.shred.sig) :: g.sigs }
      match g.lastSlice with
      | none =>
        if isLast then
          if g'.cache.any (fun e => decide (e.1 > idx)) then ({ g' with misbehaved := true }, .equivocation)
          else ({ g' with lastSlice := some idx }, .pass)
        else (g', .pass)
      | some l =>
        if (idx < l && !isLast) || (idx == l && isLast) then (g', .pass)
        else ({ g' with misbehaved := true }, .equivocation)

/-- `SlotBlockData::add_shred_from_dissemination` + `BlockData::add_shred` up to and including the last-slice check
    (after the D15 `fix:`): a flagged leader's shreds are refused; then a shred whose data/coding type does not fit
    its index is dropped (`WrongType`: nothing cached, nothing stored, nobody flagged); then the pinned gate. -/
def Gate.add (g : Gate) (v : VShred) : Gate × GateVerdict :=
  if g.misbehaved then (g, .invalidShred)
  else if !v.shred.typeOk then (g, .wrongType)
  else g.addOld v

/-- `Alpenglow::handle_disseminator_shred` of a node that is not the slot's leader, as far as the blockstore's
    gate is concerned (`consensus.rs` l.384-424): validate with the blockstore's cached commitment for the slice
    (which remembers the signature verified for it);
    an accepted shred whose data/coding type fits its index goes to `add_shred_from_dissemination` (one whose type
    does not is dropped: D15 `fix:`); (after the D16 `fix:`) a validly signed
    *conflicting* commitment flags the leader; a bad signature is dropped silently. -/
def Gate.nodeHandle (env : Env) (g : Gate) (s : Shred) (leaderPk : Nat) : Gate :=
  match validate env s (g.cachedEntry s.header.sliceIdx) leaderPk with
  | .ok v => if !v.shred.typeOk then g else (g.add v).1   -- neither forwarded nor stored (D15 `fix:`)
  | .error .equivocation => { g with misbehaved := true }
  | .error .invalidSignature => g

end AgModel.Shred
