import AgModel.Gen.Consts
/-
Model of `src/consensus/pool/finality_tracker.rs` (import-free, executable).

Slots and block hashes are `Nat` (hash 0 = `GENESIS_BLOCK_HASH`; the harness interns real hashes to
small ids).  A block id is `(slot, hash)`.  The two `BTreeMap`s are total functions into `Option`
(`none` = no entry); `split_off`/`retain` of `prune` are the pointwise restrictions.

Every `assert!`, `assert_eq!(.., "consensus safety violation")` and `panic!` is the outcome `Res.panic`.
The three `debug_assert!(slot >= first_unpruned_slot)` of the mutators are compiled out: the harness builds
the crate like its release profile (debug assertions off, overflow checks on), so the `if` that follows
each of them returns the default event for a slot below the watermark.

The recursion of `handle_implicitly_finalized` goes through strictly decreasing slots
(`assert!(source_slot > implicitly_finalized.0)`), so it is structural on a fuel that starts at the
source slot; fuel 0 coincides with that assertion failing (`Proofs.Finality.walk_fuel_mono`: more fuel never
changes the result).  The `while` loop of `prune` runs on fuel `highest - first`; `Proofs.Finality` shows that
under the tracker invariant it stops because the next slot is undecided, never because of the fuel.

The model follows the code *after* the `fix:` commits for D14 (a late notarization / finalization
certificate restores a `Finalized` / `ImplicitlyFinalized` / `ImplicitlySkipped` status instead of leaving
the weaker one in the map) and D27 (an *implicitly* finalized block may have a notarized sibling in its slot:
`handle_implicitly_finalized` no longer compares the hash of a previous `Notarized` status, `mark_notarized` no
longer compares the hash of a previous `ImplicitlyFinalized` status).  The `…Old` definitions at the end keep the
behaviour of the pinned snapshot (before both repairs) for the witness theorems.
-/
namespace AgModel.Finality

inductive Status where
  | notarized (h : Nat)
  | finalPending
  | finalized (h : Nat)
  | implFinalized (h : Nat)
  | implSkipped
deriving DecidableEq, Repr, Inhabited

/-- The `matches!` of `prune`: the slot is decided. -/
def Status.decided : Status → Bool
  | .finalized _ | .implFinalized _ | .implSkipped => true
  | _ => false

/-- `FinalizationEvent`. -/
structure Event where
  finalized : Option (Nat × Nat) := none
  implFinalized : List (Nat × Nat) := []
  implSkipped : List Nat := []
deriving DecidableEq, Repr, Inhabited

structure Tracker where
  status : Nat → Option Status
  parents : Nat × Nat → Option (Nat × Nat)
  highest : Nat
  first : Nat

/-- `BTreeMap::insert`. -/
def setSt (st : Nat → Option Status) (s : Nat) (v : Status) : Nat → Option Status :=
  fun x => if x = s then some v else st x

def setPar (p : Nat × Nat → Option (Nat × Nat)) (b par : Nat × Nat) : Nat × Nat → Option (Nat × Nat) :=
  fun x => if x = b then some par else p x

/-- `FinalityTracker::default()`. -/
def init : Tracker where
  status := fun s => if s = 0 then some (.notarized 0) else none
  parents := fun _ => none
  highest := 0
  first := 0

inductive Res where
  | ok (t : Tracker) (ev : Event)
  | panic

/-- Result of the `for slot in implicitly_finalized.0.future_slots()` loop. -/
inductive LoopRes where
  | cont (st : Nat → Option Status) (skipped : List Nat)   -- ran to `source_slot`
  | ret (st : Nat → Option Status) (skipped : List Nat)    -- hit `ImplicitlySkipped`: `return`
  | panic

/-- The implicit-skip loop over `n` slots starting at `slot`; `acc` = `event.implicitly_skipped`. -/
def skipLoop (st : Nat → Option Status) (acc : List Nat) : Nat → Nat → LoopRes
  | 0, _ => .cont st acc
  | n + 1, slot =>
    match st slot with
    | some .implSkipped => .ret st acc
    | some (.notarized _) => skipLoop (setSt st slot .implSkipped) (acc ++ [slot]) n (slot + 1)
    | none => skipLoop (setSt st slot .implSkipped) (acc ++ [slot]) n (slot + 1)
    | some _ => .panic

/-- `handle_implicitly_finalized(source_slot = src, implicitly_finalized = blk, event = ev)`;
    `none` = panic.  Invariant of all call sites: `src ≤ fuel`. -/
def walk : Nat → Tracker → Nat → Nat × Nat → Event → Option (Tracker × Event)
  | 0, _, _, _, _ => none
  | f + 1, t, src, blk, ev =>
    if ¬ blk.1 < src then none
    else if blk.1 < t.first then some (t, ev)
    else
      match skipLoop t.status ev.implSkipped (src - blk.1 - 1) (blk.1 + 1) with
      | .panic => none
      | .ret st sk => some ({ t with status := st }, { ev with implSkipped := sk })
      | .cont st sk =>
        let ev1 : Event := { ev with implSkipped := sk }
        let go : Option (Tracker × Event) :=
          let t2 : Tracker := { t with status := setSt st blk.1 (.implFinalized blk.2) }
          let ev2 : Event := { ev1 with implFinalized := ev1.implFinalized ++ [blk] }
          match t.parents blk with
          | some p => walk f t2 blk.1 p ev2
          | none => some (t2, ev2)
        match st blk.1 with
        | some (.finalized h) => if h = blk.2 then some ({ t with status := st }, ev1) else none
        | some (.implFinalized h) => if h = blk.2 then some ({ t with status := st }, ev1) else none
        | some .implSkipped => none
        | some (.notarized _) => go   -- D27 repair: a notarized sibling is not a violation
        | some .finalPending => go
        | none => go

/-- The `while` loop of `prune`: new value of `first_unpruned_slot`. -/
def advance (st : Nat → Option Status) : Nat → Nat → Nat
  | 0, first => first
  | f + 1, first =>
    match st (first + 1) with
    | some s => if s.decided then advance st f (first + 1) else first
    | none => first

/-- `FinalityTracker::prune`. -/
def prune (t : Tracker) : Tracker :=
  let root := advance t.status (t.highest - t.first) t.first
  { t with
    first := root
    status := fun s => if s < root then none else t.status s
    parents := fun b => if b.1 < root then none else t.parents b }

/-- `handle_finalized_block`. -/
def handleFinalizedBlock (t : Tracker) (blk : Nat × Nat) (ev : Event) : Res :=
  let ev1 : Event := { ev with finalized := some blk }
  let t1 : Tracker := { t with highest := max blk.1 t.highest }
  match t1.parents blk with
  | some p =>
    match walk blk.1 t1 blk.1 p ev1 with
    | some (t2, ev2) => .ok (prune t2) ev2
    | none => .panic
  | none => .ok (prune t1) ev1

/-- `add_parent`. -/
def addParent (t : Tracker) (blk par : Nat × Nat) : Res :=
  if ¬ par.1 < blk.1 then .panic
  else if blk.1 < t.first then .ok t {}
  else
    match t.parents blk with
    | some p => if p = par then .ok t {} else .panic
    | none =>
      let t1 : Tracker := { t with parents := setPar t.parents blk par }
      let fin (h : Nat) : Res :=
        if blk.2 = h then
          match walk blk.1 t1 blk.1 par {} with
          | some (t2, ev) => .ok (prune t2) ev
          | none => .panic
        else .ok t1 {}
      match t1.status blk.1 with
      | some (.finalized h) => fin h
      | some (.implFinalized h) => fin h
      | _ => .ok t1 {}

/-- `mark_fast_finalized`. -/
def markFastFinalized (t : Tracker) (blk : Nat × Nat) : Res :=
  if blk.1 < t.first then .ok t {}   -- debug_assert! is compiled out (release semantics); the `if` below it returns the default event
  else
    let t1 : Tracker := { t with status := setSt t.status blk.1 (.finalized blk.2) }
    match t.status blk.1 with
    | some (.finalized h) => if h = blk.2 then .ok t1 {} else .panic
    | some (.implFinalized h) => if h = blk.2 then .ok t1 {} else .panic
    | some (.notarized h) => if h = blk.2 then handleFinalizedBlock t1 blk {} else .panic
    | some .finalPending => handleFinalizedBlock t1 blk {}
    | some .implSkipped => .panic
    | none => handleFinalizedBlock t1 blk {}

/-- `mark_notarized` (after the D14 repair: decided statuses are restored; after the D27 repair: a notarization
    certificate for a slot that is `ImplicitlyFinalized` is not compared with the finalized block). -/
def markNotarized (t : Tracker) (blk : Nat × Nat) : Res :=
  if blk.1 < t.first then .ok t {}   -- debug_assert! is compiled out (release semantics); the `if` below it returns the default event
  else
    let t1 : Tracker := { t with status := setSt t.status blk.1 (.notarized blk.2) }
    match t.status blk.1 with
    | none => .ok t1 {}
    | some (.notarized h) => if h = blk.2 then .ok t1 {} else .panic
    | some (.finalized h) => if h = blk.2 then .ok t {} else .panic
    | some (.implFinalized _) => .ok t {}   -- D27 repair: no assertion on the hash
    | some .implSkipped => .ok t {}
    | some .finalPending =>
      handleFinalizedBlock { t with status := setSt t.status blk.1 (.finalized blk.2) } blk {}

/-- `mark_finalized` (after the D14 repair). -/
def markFinalized (t : Tracker) (slot : Nat) : Res :=
  if slot < t.first then .ok t {}   -- debug_assert! is compiled out (release semantics)
  else
    let t1 : Tracker := { t with status := setSt t.status slot .finalPending }
    match t.status slot with
    | none => .ok t1 {}
    | some .finalPending => .ok t1 {}
    | some (.finalized _) => .ok t {}
    | some (.implFinalized _) => .ok t {}
    | some (.notarized h) =>
      handleFinalizedBlock { t with status := setSt t.status slot (.finalized h) } (slot, h) {}
    | some .implSkipped => .panic

/-! ### The pinned snapshot (before the D14 and D27 repairs), for the witness theorems -/

/-- `handle_implicitly_finalized` of the pinned snapshot: a previous `Notarized(hash)` status with a different hash
    is a "consensus safety violation" panic (D27). -/
def walkOld : Nat → Tracker → Nat → Nat × Nat → Event → Option (Tracker × Event)
  | 0, _, _, _, _ => none
  | f + 1, t, src, blk, ev =>
    if ¬ blk.1 < src then none
    else if blk.1 < t.first then some (t, ev)
    else
      match skipLoop t.status ev.implSkipped (src - blk.1 - 1) (blk.1 + 1) with
      | .panic => none
      | .ret st sk => some ({ t with status := st }, { ev with implSkipped := sk })
      | .cont st sk =>
        let ev1 : Event := { ev with implSkipped := sk }
        let go : Option (Tracker × Event) :=
          let t2 : Tracker := { t with status := setSt st blk.1 (.implFinalized blk.2) }
          let ev2 : Event := { ev1 with implFinalized := ev1.implFinalized ++ [blk] }
          match t.parents blk with
          | some p => walkOld f t2 blk.1 p ev2
          | none => some (t2, ev2)
        match st blk.1 with
        | some (.finalized h) => if h = blk.2 then some ({ t with status := st }, ev1) else none
        | some (.implFinalized h) => if h = blk.2 then some ({ t with status := st }, ev1) else none
        | some .implSkipped => none
        | some (.notarized h) => if h = blk.2 then go else none
        | some .finalPending => go
        | none => go

def handleFinalizedBlockOld (t : Tracker) (blk : Nat × Nat) (ev : Event) : Res :=
  let ev1 : Event := { ev with finalized := some blk }
  let t1 : Tracker := { t with highest := max blk.1 t.highest }
  match t1.parents blk with
  | some p =>
    match walkOld blk.1 t1 blk.1 p ev1 with
    | some (t2, ev2) => .ok (prune t2) ev2
    | none => .panic
  | none => .ok (prune t1) ev1

def addParentOld (t : Tracker) (blk par : Nat × Nat) : Res :=
  if ¬ par.1 < blk.1 then .panic
  else if blk.1 < t.first then .ok t {}
  else
    match t.parents blk with
    | some p => if p = par then .ok t {} else .panic
    | none =>
      let t1 : Tracker := { t with parents := setPar t.parents blk par }
      let fin (h : Nat) : Res :=
        if blk.2 = h then
          match walkOld blk.1 t1 blk.1 par {} with
          | some (t2, ev) => .ok (prune t2) ev
          | none => .panic
        else .ok t1 {}
      match t1.status blk.1 with
      | some (.finalized h) => fin h
      | some (.implFinalized h) => fin h
      | _ => .ok t1 {}

def markFastFinalizedOld (t : Tracker) (blk : Nat × Nat) : Res :=
  if blk.1 < t.first then .ok t {}
  else
    let t1 : Tracker := { t with status := setSt t.status blk.1 (.finalized blk.2) }
    match t.status blk.1 with
    | some (.finalized h) => if h = blk.2 then .ok t1 {} else .panic
    | some (.implFinalized h) => if h = blk.2 then .ok t1 {} else .panic
    | some (.notarized h) => if h = blk.2 then handleFinalizedBlockOld t1 blk {} else .panic
    | some .finalPending => handleFinalizedBlockOld t1 blk {}
    | some .implSkipped => .panic
    | none => handleFinalizedBlockOld t1 blk {}

/-- `mark_notarized` of the pinned snapshot: the `insert` of `Notarized` stays (D14), and a previous
    `ImplicitlyFinalized(hash)` status with a different hash is a panic (D27). -/
def markNotarizedOld (t : Tracker) (blk : Nat × Nat) : Res :=
  if blk.1 < t.first then .ok t {}
  else
    let t1 : Tracker := { t with status := setSt t.status blk.1 (.notarized blk.2) }
    match t.status blk.1 with
    | none => .ok t1 {}
    | some (.notarized h) => if h = blk.2 then .ok t1 {} else .panic
    | some (.finalized h) => if h = blk.2 then .ok t1 {} else .panic
    | some (.implFinalized h) => if h = blk.2 then .ok t1 {} else .panic
    | some .implSkipped => .ok t1 {}
    | some .finalPending =>
      handleFinalizedBlockOld { t with status := setSt t.status blk.1 (.finalized blk.2) } blk {}

/-- `mark_finalized` of the pinned snapshot (before the D14 repair). -/
def markFinalizedOld (t : Tracker) (slot : Nat) : Res :=
  if slot < t.first then .ok t {}
  else
    let t1 : Tracker := { t with status := setSt t.status slot .finalPending }
    match t.status slot with
    | none => .ok t1 {}
    | some .finalPending => .ok t1 {}
    | some (.finalized _) => .ok t1 {}
    | some (.implFinalized _) => .ok t1 {}
    | some (.notarized h) =>
      handleFinalizedBlockOld { t with status := setSt t.status slot (.finalized h) } (slot, h) {}
    | some .implSkipped => .panic

/-- The inputs of the tracker. -/
inductive Op where
  | parent (blk par : Nat × Nat)
  | fastFinal (blk : Nat × Nat)
  | notar (blk : Nat × Nat)
  | final (slot : Nat)
deriving DecidableEq, Repr

def step (t : Tracker) : Op → Res
  | .parent b p => addParent t b p
  | .fastFinal b => markFastFinalized t b
  | .notar b => markNotarized t b
  | .final s => markFinalized t s

/-- Runs a sequence of operations; `none` as soon as one panics.  Returns the events in order. -/
def run (t : Tracker) : List Op → Option (Tracker × List Event)
  | [] => some (t, [])
  | op :: rest =>
    match step t op with
    | .panic => none
    | .ok t1 ev =>
      match run t1 rest with
      | some (t2, evs) => some (t2, ev :: evs)
      | none => none

end AgModel.Finality
