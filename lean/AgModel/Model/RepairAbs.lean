import AgModel.Model.ShredAbs
/-
The repair half of the seam between the two shred models: **repair ingestion on RAW responses**
(`src/repair.rs` `Repair::handle_response` → `Blockstore::add_shred_from_repair`).

`FResp` is a repair response as it comes off the wire: slice roots are hashes (`Merkle.H`), a shred response carries a
raw `Shred.Shred` (slot, bytes, signature, Merkle path, data/coding tag, index) - nobody has told the requester whether
the signature is good. `FSys` is the requester: the coarse `RepairSt` / `Store` the repair model works on *plus* what
the abstraction forgets (`froots`: the proven slice roots as hashes; the coarse state holds their interned ids).
`fHandle` follows `handle_response` in code order on the raw data: outstanding? → variant / proof check → for a shred:
header slot / slice index / shred index against the request, `slice_roots` lookup (`unreachable!`), `shred.slice_root()`
(re-derived from payload, index and path) against the proven root, last-slice flag (fix D26), `has_expected_type`
(fix D15b), `ValidatedShred::try_new(shred, None, leader(slot))`, only then the request is done and
`add_shred_from_repair(hash, validated)` runs (the coarse `Blockstore.addRepair` on `absShred`).
`absResp` is the stateless abstraction of a raw response (the coarse `sigOk` := `try_new(_, None, leader)` accepts).
Import-free: the C14 driver executes it.
-/
namespace AgModel.Seam.Repair
open AgModel.Shred (Env VShred validate)
open AgModel.Blockstore (Content Event)
open AgModel.Repair (Bid Req Resp RepairSt Store Out)
open AgModel.Merkle (H)

/-- `RepairResponse` as received -/
inductive FResp where
  | nack (req : Req)
  | lastRoot (req : Req) (lastSlice : Nat) (root : H) (proof : List H)
  | sliceRoot (req : Req) (root : H) (proof : List H)
  | shred (req : Req) (s : Shred.Shred)
deriving DecidableEq, Repr

def FResp.req : FResp → Req
  | .nack r => r
  | .lastRoot r _ _ _ => r
  | .sliceRoot r _ _ => r
  | .shred r _ => r

/-- `slice_roots` with the real hashes -/
abbrev FRoots := List ((Bid × Nat) × H)

def frootGet (m : FRoots) (k : Bid × Nat) : Option H :=
  match m with
  | [] => none
  | (k', v) :: rest => if k' = k then some v else frootGet rest k

def frootSet (m : FRoots) (k : Bid × Nat) (v : H) : FRoots :=
  match m with
  | [] => [(k, v)]
  | (k', w) :: rest => if k' = k then (k', v) :: rest else (k', w) :: frootSet rest k v

/-- the fine requester: the coarse repair state and blockstore, plus the proven slice roots as hashes -/
structure FSys where
  st : RepairSt
  froots : FRoots := []
  store : Store

/-- **the abstraction function on requester states** -/
def FSys.abs (σ : FSys) : RepairSt × Store := (σ.st, σ.store)

/-- the coarse shred a raw shred stands for, whether or not it validates (root re-derived from payload, index, path) -/
def absRaw (env : Env) (rid : RootId) (s : Shred.Shred) : Blockstore.Shred :=
  ⟨s.header.sliceIdx, s.header.isLast, rid (s.sliceRoot env), s.index, szClass s.data, s.typeOk⟩

def sigOkOf (env : Env) (pk : Nat) (s : Shred.Shred) : Bool :=
  match validate env s none pk with
  | .ok _ => true
  | .error _ => false

/-- **the abstraction of a raw response**, stateless; `pk`: slot ↦ public key of the slot's leader -/
def absResp (env : Env) (rid : RootId) (pk : Nat → Nat) : FResp → Resp
  | .nack r => .nack r
  | .lastRoot r l root π => .lastRoot r l (rid root) π
  | .sliceRoot r root π => .sliceRoot r (rid root) π
  | .shred r s => .shred r s.header.slot (absRaw env rid s) (sigOkOf env (pk s.header.slot) s)

/-- what happens once a shred response passed every check: `add_shred_from_repair`, then the asserts / `add_block` -/
def ingest (cenv : Nat → Content) (cap : Nat) (st : RepairSt) (store : Store) (b : Bid) (cs : Blockstore.Shred) :
    RepairSt × Store × Out :=
  let (sd, res, evs) := Blockstore.addRepair cenv (AgModel.Repair.storeGet cap store b.slot) b.hash cs
  let store := AgModel.Repair.storeSet store b.slot sd
  match res with
  | .panic => (st, store, { events := evs, panic := true })
  | .ev (.block info) =>
    if info.hash ≠ b.hash then (st, store, { events := evs, panic := true })
    else if info.parent.1 ≥ b.slot then (st, store, { events := evs, panic := true })
    else (st, store, { events := evs, poolAdd := some (b, info.parent) })
  | _ => (st, store, { events := evs })

/-- `Repair::handle_response` on a raw response -/
def fHandle (env : Env) (cenv : Nat → Content) (rid : RootId) (pk : Nat → Nat) (cap : Nat) (σ : FSys) (resp : FResp) :
    FSys × Out :=
  if resp.req ∉ σ.st.outstanding then (σ, {})
  else match resp with
    | .nack r => ({ σ with st := AgModel.Repair.sendRequest σ.st r }, { sent := [r] })
    | .lastRoot r lastSlice root proof =>
      match r with
      | .last b =>
        if !AgModel.Merkle.checkProofLast (rid root) lastSlice b.hash proof then (σ, {})
        else
          let st := AgModel.Repair.done σ.st r
          let st := { st with sliceRoots := AgModel.Repair.rootSet st.sliceRoots (b, lastSlice) (rid root),
                              lastSlices := AgModel.Repair.lastSet st.lastSlices b lastSlice }
          let reqs := (List.range (lastSlice + 1)).map (fun i => Req.root b i)
          ({ σ with st := AgModel.Repair.sendAll st reqs, froots := frootSet σ.froots (b, lastSlice) root },
            { sent := reqs })
      | _ => (σ, {})
    | .sliceRoot r root proof =>
      match r with
      | .root b slice =>
        if !AgModel.Merkle.checkProof (rid root) slice b.hash proof then (σ, {})
        else
          let st := AgModel.Repair.done σ.st r
          let st := { st with sliceRoots := AgModel.Repair.rootSet st.sliceRoots (b, slice) (rid root) }
          let reqs := (List.range Blockstore.TOTAL_SHREDS).map (fun j => Req.shred b slice j)
          ({ σ with st := AgModel.Repair.sendAll st reqs, froots := frootSet σ.froots (b, slice) root },
            { sent := reqs })
      | _ => (σ, {})
    | .shred r raw =>
      match r with
      | .shred b slice idx =>
        if raw.header.slot ≠ b.slot ∨ raw.header.sliceIdx ≠ slice ∨ raw.index ≠ idx then (σ, {})
        else match frootGet σ.froots (b, slice) with
          | none => (σ, { panic := true })   -- `unreachable!`
          | some root =>
            -- `shred.slice_root() != root`: re-derived from the raw payload, index and path
            if raw.sliceRoot env ≠ root then (σ, {})
            else if raw.header.isLast ≠ decide (AgModel.Repair.lastGet σ.st.lastSlices b = some slice) then (σ, {})
            else if !raw.typeOk then (σ, {})
            else match validate env raw none (pk b.slot) with
              | .error _ => (σ, {})
              | .ok v =>
                let p := ingest cenv cap (AgModel.Repair.done σ.st r) σ.store b (absShred rid v)
                ({ σ with st := p.1, store := p.2.1 }, p.2.2)
      | _ => (σ, {})

/-- an event at the requester, raw -/
inductive FEv where
  | resp (r : FResp)
  | timeout
  | start (b : Bid)
deriving DecidableEq, Repr

def fStep (env : Env) (cenv : Nat → Content) (rid : RootId) (pk : Nat → Nat) (cap : Nat) (σ : FSys) : FEv → FSys × Out
  | .resp r => fHandle env cenv rid pk cap σ r
  | .timeout => ({ σ with st := (AgModel.Repair.fireTimeout σ.st).1 }, (AgModel.Repair.fireTimeout σ.st).2)
  | .start b => ({ σ with st := (AgModel.Repair.repairBlock cap σ.st σ.store b).1 },
      (AgModel.Repair.repairBlock cap σ.st σ.store b).2)

/-- the requester on a schedule of raw events: final state and the outputs of every step -/
def fRun (env : Env) (cenv : Nat → Content) (rid : RootId) (pk : Nat → Nat) (cap : Nat) : FSys → List FEv → FSys × List Out
  | σ, [] => (σ, [])
  | σ, e :: rest =>
    ((fRun env cenv rid pk cap (fStep env cenv rid pk cap σ e).1 rest).1,
      (fStep env cenv rid pk cap σ e).2 :: (fRun env cenv rid pk cap (fStep env cenv rid pk cap σ e).1 rest).2)

end AgModel.Seam.Repair
