import AgModel.Gen.Consts
import AgModel.Model.Cert
/-
Byte-level model of the wire format (import-free, executable):
  src/network.rs            `deserialize` = wincode `deserialize_exact`, preallocation limit MTU_BYTES
  src/consensus.rs          `ConsensusMessage`
  src/consensus/vote.rs     `Vote` (5 kinds), `VotePayload` (the signed bytes)
  src/consensus/cert.rs     `Cert` (5 types, optional halves)
  src/crypto/aggsig.rs      `IndividualSignature`, `AggregateSignature` (+ `read_bitvec` guards)
  src/shredder.rs           `Shred`, `ShredPayloadType`, `ShredPayload`;  src/types/slice.rs `SliceHeader`
  src/repair.rs             `RepairRequest`, `RepairRequestType`, `RepairResponse`
  src/lib.rs                `Transaction`
  src/types/slice_index.rs, src/shredder/shred_index.rs    bounded indices

wincode's format (as used by the crate: default config, fixed-width integers): integers
little-endian, `usize` as 8 bytes, enum discriminant `u32`, `Option` tag `u8` (0/1), `bool` one byte
(0/1), `Vec<T>` = `u64` length then the elements, with `len * size_of::<T>()` bounded by the
preallocation limit; arrays and PODs raw. Crypto blobs are opaque fixed-size byte strings with an
abstract validity predicate (`CryptoOk`): the point decoders of blst.

A byte string is a `List Nat`; decoders reduce every byte mod 256, encoders produce bytes < 256.
-/
namespace AgModel.Wire

abbrev Bytes := List Nat

/-- An encoder/decoder pair with the predicate of representable values. -/
structure Codec (α : Type) where
  enc : α → Bytes
  dec : Bytes → Option (α × Bytes)
  valid : α → Prop

/-! ### integers -/

/-- `k` little-endian bytes of `n` -/
def leBytes : Nat → Nat → Bytes
  | 0, _ => []
  | k + 1, n => (n % 256) :: leBytes k (n / 256)

/-- little-endian value of a byte string -/
def leVal : Bytes → Nat
  | [] => 0
  | b :: bs => b % 256 + 256 * leVal bs

/-- fixed-width little-endian unsigned integer of `k` bytes -/
def uint (k : Nat) : Codec Nat where
  enc n := leBytes k n
  dec bs := if bs.length < k then none else some (leVal (bs.take k), bs.drop k)
  valid n := n < 256 ^ k

/-- `bool`: one byte, 0 or 1 -/
def bool : Codec Bool where
  enc b := [if b then 1 else 0]
  dec
    | [] => none
    | t :: r => if t % 256 = 0 then some (false, r) else if t % 256 = 1 then some (true, r) else none
  valid _ := True

/-! ### combinators -/

/-- raw fixed-size byte array (`[u8; n]`, POD wrappers) -/
def blob (n : Nat) : Codec Bytes where
  enc b := b.map (· % 256)
  dec bs := if bs.length < n then none else some ((bs.take n).map (· % 256), bs.drop n)
  valid b := b.length = n ∧ ∀ x ∈ b, x < 256

def pair {α β : Type} (a : Codec α) (b : Codec β) : Codec (α × β) where
  enc p := a.enc p.1 ++ b.enc p.2
  dec bs :=
    match a.dec bs with
    | none => none
    | some (x, r) =>
      match b.dec r with
      | none => none
      | some (y, r') => some ((x, y), r')
  valid p := a.valid p.1 ∧ b.valid p.2

/-- transport along `to`/`from` (structures as nested pairs; enum variants as their field tuples) -/
def iso {α β : Type} (c : Codec α) (to : α → β) (frm : β → α) : Codec β where
  enc b := c.enc (frm b)
  dec bs :=
    match c.dec bs with
    | none => none
    | some (a, r) => some (to a, r)
  valid b := c.valid (frm b) ∧ to (frm b) = b

/-- decoder-side check (bounded indices, point validation) -/
def guard {α : Type} (c : Codec α) (p : α → Bool) : Codec α where
  enc := c.enc
  dec bs :=
    match c.dec bs with
    | none => none
    | some (a, r) => if p a then some (a, r) else none
  valid a := c.valid a ∧ p a = true

def decN {α : Type} (c : Codec α) : Nat → Bytes → Option (List α × Bytes)
  | 0, bs => some ([], bs)
  | n + 1, bs =>
    match c.dec bs with
    | none => none
    | some (x, r) =>
      match decN c n r with
      | none => none
      | some (xs, r') => some (x :: xs, r')

def encAll {α : Type} (c : Codec α) : List α → Bytes
  | [] => []
  | x :: xs => c.enc x ++ encAll c xs

/-- `Vec<T>`: `u64` length, preallocation check `len * size_of::<T>() ≤ limit`, then the elements -/
def vec {α : Type} (c : Codec α) (elemSize limit : Nat) : Codec (List α) where
  enc l := leBytes 8 l.length ++ encAll c l
  dec bs :=
    match (uint 8).dec bs with
    | none => none
    | some (n, r) => if n * elemSize > limit then none else decN c n r
  valid l := l.length * elemSize ≤ limit ∧ l.length < 256 ^ 8 ∧ ∀ x ∈ l, c.valid x

/-- `Option<T>`: tag byte 0 / 1 -/
def opt {α : Type} (c : Codec α) : Codec (Option α) where
  enc
    | none => [0]
    | some a => 1 :: c.enc a
  dec
    | [] => none
    | t :: r =>
      if t % 256 = 0 then some (none, r)
      else if t % 256 = 1 then
        match c.dec r with
        | none => none
        | some (a, r') => some (some a, r')
      else none
  valid
    | none => True
    | some a => c.valid a

/-- enum: `u32` discriminant, then the variant's fields -/
def tagged {α : Type} (tagOf : α → Nat) (variants : Nat → Option (Codec α)) : Codec α where
  enc a :=
    leBytes 4 (tagOf a) ++
      (match variants (tagOf a) with
       | some c => c.enc a
       | none => [])
  dec bs :=
    match (uint 4).dec bs with
    | none => none
    | some (t, r) =>
      match variants t with
      | none => none
      | some c => c.dec r
  valid a := ∃ c, variants (tagOf a) = some c ∧ c.valid a

/-- `deserialize_exact`: the whole input must be consumed -/
def decodeExact {α : Type} (c : Codec α) (bs : Bytes) : Option α :=
  match c.dec bs with
  | some (a, []) => some a
  | _ => none

/-! ### protocol constants -/

def MTU : Nat := AgModel.Gen.MTU_BYTES
def MAX_SIGNERS : Nat := AgModel.Gen.MAX_SIGNERS
def MAX_SLICES : Nat := AgModel.Gen.MAX_SLICES_PER_BLOCK
def TOTAL_SHREDS : Nat := AgModel.Gen.TOTAL_SHREDS

/-- abstract validity of the crypto point encodings -/
structure CryptoOk where
  /-- `BlstSignature::sig_validate(bytes, true)` (individual signature: on curve, in the subgroup, not the identity) -/
  ind : Bytes → Bool
  /-- `BlstSignature::from_bytes` (aggregate signature: a valid point encoding) -/
  agg : Bytes → Bool

def u64 : Codec Nat := uint 8
def u32 : Codec Nat := uint 4
def hash : Codec Bytes := blob 32
def slot : Codec Nat := u64
def sliceIndex : Codec Nat := guard u64 (fun i => decide (i < MAX_SLICES))
def shredIndex : Codec Nat := guard u64 (fun i => decide (i < TOTAL_SHREDS))
def indSig (k : CryptoOk) : Codec Bytes := guard (blob 96) k.ind
def ed25519Sig : Codec Bytes := blob 64
def hashVec : Codec (List Bytes) := vec hash 32 MTU
def byteVec : Codec (List Nat) := vec (uint 1) 1 MTU

/-! ### `VotePayload` (the signed bytes) -/

/-- `VotePayload` with 32-byte hashes -/
inductive PayloadW where
  | notar (slot : Nat) (hash : Bytes)
  | notarFallback (slot : Nat) (hash : Bytes)
  | skip (slot : Nat)
  | skipFallback (slot : Nat)
  | final (slot : Nat)
deriving DecidableEq, Repr

def PayloadW.tag : PayloadW → Nat
  | .notar .. => 0 | .notarFallback .. => 1 | .skip .. => 2 | .skipFallback .. => 3 | .final .. => 4

def payload : Codec PayloadW :=
  tagged PayloadW.tag fun
    | 0 => some (iso (pair slot hash) (fun p => .notar p.1 p.2) (fun | .notar s h => (s, h) | _ => (0, [])))
    | 1 => some (iso (pair slot hash) (fun p => .notarFallback p.1 p.2) (fun | .notarFallback s h => (s, h) | _ => (0, [])))
    | 2 => some (iso slot (fun s => .skip s) (fun | .skip s => s | _ => 0))
    | 3 => some (iso slot (fun s => .skipFallback s) (fun | .skipFallback s => s | _ => 0))
    | 4 => some (iso slot (fun s => .final s) (fun | .final s => s | _ => 0))
    | _ => none

/-- `Signable::bytes_to_sign` of a vote payload -/
def bytesToSign (p : PayloadW) : Bytes := payload.enc p

/-! ### votes -/

inductive VoteW where
  | notar (slot : Nat) (hash sig : Bytes) (signer : Nat)
  | notarFallback (slot : Nat) (hash sig : Bytes) (signer : Nat)
  | skip (slot : Nat) (sig : Bytes) (signer : Nat)
  | skipFallback (slot : Nat) (sig : Bytes) (signer : Nat)
  | final (slot : Nat) (sig : Bytes) (signer : Nat)
deriving DecidableEq, Repr

def VoteW.tag : VoteW → Nat
  | .notar .. => 0 | .notarFallback .. => 1 | .skip .. => 2 | .skipFallback .. => 3 | .final .. => 4

def hashedVote (k : CryptoOk) : Codec (Nat × Bytes × Bytes × Nat) := pair slot (pair hash (pair (indSig k) u64))
def plainVote (k : CryptoOk) : Codec (Nat × Bytes × Nat) := pair slot (pair (indSig k) u64)

def vote (k : CryptoOk) : Codec VoteW :=
  tagged VoteW.tag fun
    | 0 => some (iso (hashedVote k) (fun p => .notar p.1 p.2.1 p.2.2.1 p.2.2.2) (fun | .notar s h g i => (s, h, g, i) | _ => (0, [], [], 0)))
    | 1 => some (iso (hashedVote k) (fun p => .notarFallback p.1 p.2.1 p.2.2.1 p.2.2.2) (fun | .notarFallback s h g i => (s, h, g, i) | _ => (0, [], [], 0)))
    | 2 => some (iso (plainVote k) (fun p => .skip p.1 p.2.1 p.2.2) (fun | .skip s g i => (s, g, i) | _ => (0, [], 0)))
    | 3 => some (iso (plainVote k) (fun p => .skipFallback p.1 p.2.1 p.2.2) (fun | .skipFallback s g i => (s, g, i) | _ => (0, [], 0)))
    | 4 => some (iso (plainVote k) (fun p => .final p.1 p.2.1 p.2.2) (fun | .final s g i => (s, g, i) | _ => (0, [], 0)))
    | _ => none

/-! ### aggregate signatures -/

/-- `AggregateSignature` as it lives in memory after decoding: the signature bytes, the bit length
    and the `usize` words that hold live bits (`as_raw_slice`) -/
structure AggW where
  sig : Bytes
  numBits : Nat
  words : List Nat
deriving DecidableEq, Repr

/-- number of `usize` elements that hold `n` bits -/
def wordsFor (n : Nat) : Nat := (n + 63) / 64

def aggRaw (k : CryptoOk) : Codec (Bytes × Nat × List Nat) := pair (guard (blob 96) k.agg) (pair u64 (vec u64 8 MTU))

/-- `AggregateSignature`: signature, `num_bits`, `Vec<usize>`, the two guards of `read_bitvec`, and
    `truncate(num_bits)` -/
def agg (k : CryptoOk) : Codec AggW where
  enc a := (aggRaw k).enc (a.sig, a.numBits, a.words)
  dec bs :=
    match (aggRaw k).dec bs with
    | none => none
    | some ((sig, nb, ws), r) =>
      if ws.length > wordsFor MAX_SIGNERS then none           -- "bitmask too long"
      else if nb > 64 * ws.length then none                    -- "want to use too many bits"
      else some (⟨sig, nb, ws.take (wordsFor nb)⟩, r)
  valid a := (aggRaw k).valid (a.sig, a.numBits, a.words) ∧ a.words.length = wordsFor a.numBits ∧
    a.words.length ≤ wordsFor MAX_SIGNERS

/-- the signer bitmask of a decoded aggregate, as `AgModel.Cert` sees it -/
def AggW.bits (a : AggW) : List Bool := (AgModel.Cert.bitsOfWords a.words).take a.numBits

/-! ### certificates -/

inductive CertW where
  | notar (slot : Nat) (hash : Bytes) (agg : AggW) (stake : Nat)
  | notarFallback (slot : Nat) (hash : Bytes) (a1 a2 : Option AggW) (stake : Nat)
  | skip (slot : Nat) (a1 a2 : Option AggW) (stake : Nat)
  | fastFinal (slot : Nat) (hash : Bytes) (agg : AggW) (stake : Nat)
  | final (slot : Nat) (agg : AggW) (stake : Nat)
deriving DecidableEq, Repr

def CertW.tag : CertW → Nat
  | .notar .. => 0 | .notarFallback .. => 1 | .skip .. => 2 | .fastFinal .. => 3 | .final .. => 4

private def dAgg : AggW := ⟨[], 0, []⟩

def cert (k : CryptoOk) : Codec CertW :=
  tagged CertW.tag fun
    | 0 => some (iso (pair slot (pair hash (pair (agg k) u64))) (fun p => .notar p.1 p.2.1 p.2.2.1 p.2.2.2)
        (fun | .notar s h a st => (s, h, a, st) | _ => (0, [], dAgg, 0)))
    | 1 => some (iso (pair slot (pair hash (pair (opt (agg k)) (pair (opt (agg k)) u64))))
        (fun p => .notarFallback p.1 p.2.1 p.2.2.1 p.2.2.2.1 p.2.2.2.2)
        (fun | .notarFallback s h a1 a2 st => (s, h, a1, a2, st) | _ => (0, [], none, none, 0)))
    | 2 => some (iso (pair slot (pair (opt (agg k)) (pair (opt (agg k)) u64)))
        (fun p => .skip p.1 p.2.1 p.2.2.1 p.2.2.2)
        (fun | .skip s a1 a2 st => (s, a1, a2, st) | _ => (0, none, none, 0)))
    | 3 => some (iso (pair slot (pair hash (pair (agg k) u64))) (fun p => .fastFinal p.1 p.2.1 p.2.2.1 p.2.2.2)
        (fun | .fastFinal s h a st => (s, h, a, st) | _ => (0, [], dAgg, 0)))
    | 4 => some (iso (pair slot (pair (agg k) u64)) (fun p => .final p.1 p.2.1 p.2.2)
        (fun | .final s a st => (s, a, st) | _ => (0, dAgg, 0)))
    | _ => none

inductive ConsensusMsg where
  | vote (v : VoteW)
  | cert (c : CertW)
deriving DecidableEq, Repr

def ConsensusMsg.tag : ConsensusMsg → Nat
  | .vote _ => 0 | .cert _ => 1

def consensusMsg (k : CryptoOk) : Codec ConsensusMsg :=
  tagged ConsensusMsg.tag fun
    | 0 => some (iso (vote k) .vote (fun | .vote v => v | _ => .final 0 [] 0))
    | 1 => some (iso (cert k) .cert (fun | .cert c => c | _ => .final 0 dAgg 0))
    | _ => none

/-! ### transactions, shreds, repair -/

/-- `Transaction(Vec<u8>)` -/
def transaction : Codec (List Nat) := byteVec

structure ShredW where
  coding : Bool          -- `ShredPayloadType::{Data = 0, Coding = 1}`
  slot : Nat
  sliceIndex : Nat
  isLast : Bool
  shredIndex : Nat
  data : List Nat
  sliceSig : Bytes       -- ed25519, 64 bytes, POD
  path : List Bytes      -- `SliceProof(Vec<Hash>)`
deriving DecidableEq, Repr

def shredFields : Codec (Nat × Nat × Bool × Nat × List Nat) :=
  pair slot (pair sliceIndex (pair bool (pair shredIndex byteVec)))

/-- `ShredPayloadType::{Data, Coding}(ShredPayload)` -/
def shredPayloadType : Codec (Bool × (Nat × Nat × Bool × Nat × List Nat)) :=
  tagged (fun p => if p.1 then 1 else 0) fun
    | 0 => some (iso shredFields (fun f => (false, f)) (fun p => p.2))
    | 1 => some (iso shredFields (fun f => (true, f)) (fun p => p.2))
    | _ => none

def shred : Codec ShredW :=
  iso (pair shredPayloadType (pair ed25519Sig hashVec))
    (fun p => ⟨p.1.1, p.1.2.1, p.1.2.2.1, p.1.2.2.2.1, p.1.2.2.2.2.1, p.1.2.2.2.2.2, p.2.1, p.2.2⟩)
    (fun s => ((s.coding, s.slot, s.sliceIndex, s.isLast, s.shredIndex, s.data), s.sliceSig, s.path))

inductive ReqType where
  | lastSliceRoot (slot : Nat) (hash : Bytes)
  | sliceRoot (slot : Nat) (hash : Bytes) (slice : Nat)
  | shred (slot : Nat) (hash : Bytes) (slice shred : Nat)
deriving DecidableEq, Repr

def ReqType.tag : ReqType → Nat
  | .lastSliceRoot .. => 0 | .sliceRoot .. => 1 | .shred .. => 2

def reqType : Codec ReqType :=
  tagged ReqType.tag fun
    | 0 => some (iso (pair slot hash) (fun p => .lastSliceRoot p.1 p.2) (fun | .lastSliceRoot s h => (s, h) | _ => (0, [])))
    | 1 => some (iso (pair slot (pair hash sliceIndex)) (fun p => .sliceRoot p.1 p.2.1 p.2.2) (fun | .sliceRoot s h i => (s, h, i) | _ => (0, [], 0)))
    | 2 => some (iso (pair slot (pair hash (pair sliceIndex shredIndex))) (fun p => .shred p.1 p.2.1 p.2.2.1 p.2.2.2)
        (fun | .shred s h i j => (s, h, i, j) | _ => (0, [], 0, 0)))
    | _ => none

/-- `RepairRequest { sender, req_type }` -/
def repairRequest : Codec (Nat × ReqType) := pair u64 reqType

inductive RepairResponse where
  | lastSliceRoot (req : ReqType) (slice : Nat) (root : Bytes) (proof : List Bytes)
  | sliceRoot (req : ReqType) (root : Bytes) (proof : List Bytes)
  | shred (req : ReqType) (s : ShredW)
  | nack (req : ReqType)
deriving DecidableEq, Repr

def RepairResponse.tag : RepairResponse → Nat
  | .lastSliceRoot .. => 0 | .sliceRoot .. => 1 | .shred .. => 2 | .nack .. => 3

private def dReq : ReqType := .lastSliceRoot 0 []
private def dShred : ShredW := ⟨false, 0, 0, false, 0, [], [], []⟩

def repairResponse : Codec RepairResponse :=
  tagged RepairResponse.tag fun
    | 0 => some (iso (pair reqType (pair sliceIndex (pair hash hashVec))) (fun p => .lastSliceRoot p.1 p.2.1 p.2.2.1 p.2.2.2)
        (fun | .lastSliceRoot r i h pr => (r, i, h, pr) | _ => (dReq, 0, [], [])))
    | 1 => some (iso (pair reqType (pair hash hashVec)) (fun p => .sliceRoot p.1 p.2.1 p.2.2)
        (fun | .sliceRoot r h pr => (r, h, pr) | _ => (dReq, [], [])))
    | 2 => some (iso (pair reqType shred) (fun p => .shred p.1 p.2) (fun | .shred r s => (r, s) | _ => (dReq, dShred)))
    | 3 => some (iso reqType .nack (fun | .nack r => r | _ => dReq))
    | _ => none

end AgModel.Wire
