import AgModel.Gen.Consts
import AgModel.Model.Merkle
import AgModel.Model.Blockstore
/-
Model of `src/repair.rs` (import-free, executable): the requester `Repair` (outstanding requests,
timeout queue, proven slice roots, proven last slice indices, the three response handlers with their checks in code order) and
the responder `RepairRequestHandler::try_build_response`, over `AgModel.Blockstore`.

Abstractions: the request hash is injective (the request itself is the key); the timeout heap is a
FIFO queue (expiry = now + constant, so heap order = order of (re)insertion); the choice of target
peers is not modelled (outputs are the request types sent); the leader signature check of
`ValidatedShred::try_new(_, None, leader_pk)` is a Boolean attribute of the shred response
(symbolic signatures: whether the leader signed exactly this commitment).
-/
namespace AgModel.Repair
open AgModel.Merkle AgModel.Blockstore

structure Bid where
  slot : Nat
  hash : H
deriving DecidableEq, Repr

inductive Req where
  | last (b : Bid)
  | root (b : Bid) (slice : Nat)
  | shred (b : Bid) (slice idx : Nat)
deriving DecidableEq, Repr

inductive Resp where
  | nack (req : Req)
  | lastRoot (req : Req) (lastSlice : Nat) (root : Nat) (proof : List H)
  | sliceRoot (req : Req) (root : Nat) (proof : List H)
  /-- `slot`: slot in the shred header; `sigOk`: the leader signed the shred's commitment -/
  | shred (req : Req) (slot : Nat) (s : Shred) (sigOk : Bool)
deriving DecidableEq, Repr

def Resp.req : Resp → Req
  | .nack r => r
  | .lastRoot r _ _ _ => r
  | .sliceRoot r _ _ => r
  | .shred r _ _ _ => r

/-- the blockstore: per-slot data (absent = `SlotBlockData::new`) -/
abbrev Store := List (Nat × SlotData)

def storeGet (cap : Nat) (st : Store) (slot : Nat) : SlotData :=
  match st with
  | [] => SlotData.new cap slot
  | (k, v) :: rest => if k = slot then v else storeGet cap rest slot

def storeSet (st : Store) (slot : Nat) (v : SlotData) : Store :=
  match st with
  | [] => [(slot, v)]
  | (k, w) :: rest => if k = slot then (k, v) :: rest else (k, w) :: storeSet rest slot v

structure RepairSt where
  outstanding : List Req
  /-- earliest first -/
  timeouts : List Req
  sliceRoots : List ((Bid × Nat) × Nat)
  /-- `last_slices`: the last slice index of a block, as proven by an accepted `LastSliceRoot` response -/
  lastSlices : List (Bid × Nat)

def RepairSt.init : RepairSt := ⟨[], [], [], []⟩

def rootGet (m : List ((Bid × Nat) × Nat)) (k : Bid × Nat) : Option Nat :=
  match m with
  | [] => none
  | (k', v) :: rest => if k' = k then some v else rootGet rest k

def rootSet (m : List ((Bid × Nat) × Nat)) (k : Bid × Nat) (v : Nat) : List ((Bid × Nat) × Nat) :=
  match m with
  | [] => [(k, v)]
  | (k', w) :: rest => if k' = k then (k', v) :: rest else (k', w) :: rootSet rest k v

def lastGet (m : List (Bid × Nat)) (k : Bid) : Option Nat :=
  match m with
  | [] => none
  | (k', v) :: rest => if k' = k then some v else lastGet rest k

def lastSet (m : List (Bid × Nat)) (k : Bid) (v : Nat) : List (Bid × Nat) :=
  match m with
  | [] => [(k, v)]
  | (k', w) :: rest => if k' = k then (k', v) :: rest else (k', w) :: lastSet rest k v

/-- `send_request`: (re)registers the request and its timeout; the request goes out -/
def sendRequest (st : RepairSt) (r : Req) : RepairSt :=
  { st with outstanding := if r ∈ st.outstanding then st.outstanding else st.outstanding ++ [r],
            timeouts := st.timeouts.filter (· ≠ r) ++ [r] }

def sendAll (st : RepairSt) (rs : List Req) : RepairSt := rs.foldl sendRequest st

/-- what one step of the repair task did -/
structure Out where
  sent : List Req := []
  /-- events the blockstore sent to Votor -/
  events : List Event := []
  /-- `pool.add_block(block_id, parent)` -/
  poolAdd : Option (Bid × (Nat × Nat)) := none
  panic : Bool := false
deriving DecidableEq, Repr

/-- `repair_block` -/
def repairBlock (cap : Nat) (st : RepairSt) (store : Store) (b : Bid) : RepairSt × Out :=
  if (getBlock (storeGet cap store b.slot) b.hash).isSome then (st, {})
  else (sendRequest st (.last b), { sent := [.last b] })

/-- the timeout arm of `repair_loop`: pops the earliest timeout; retries if still outstanding -/
def fireTimeout (st : RepairSt) : RepairSt × Out :=
  match st.timeouts with
  | [] => (st, {})
  | r :: rest =>
    let st := { st with timeouts := rest }
    if r ∈ st.outstanding then
      (sendRequest { st with outstanding := st.outstanding.filter (· ≠ r) } r, { sent := [r] })
    else (st, {})

def done (st : RepairSt) (r : Req) : RepairSt := { st with outstanding := st.outstanding.filter (· ≠ r) }

/-- `handle_response` (with fix D4: the request stays outstanding until a response passed validation;
    with fix D26: a repaired shred's last-slice flag is compared with the proven last slice index;
    with fix D15b: a shred whose data/coding type does not fit its index is not a valid answer) -/
def handleResponse (env : Nat → Content) (cap : Nat) (st : RepairSt) (store : Store) (resp : Resp) :
    RepairSt × Store × Out :=
  if resp.req ∉ st.outstanding then (st, store, {})
  else match resp with
    | .nack r => (sendRequest st r, store, { sent := [r] })
    | .lastRoot r lastSlice root proof =>
      match r with
      | .last b =>
        if !checkProofLast root lastSlice b.hash proof then (st, store, {})
        else
          let st := done st r
          let st := { st with sliceRoots := rootSet st.sliceRoots (b, lastSlice) root,
                              lastSlices := lastSet st.lastSlices b lastSlice }
          let reqs := (List.range (lastSlice + 1)).map (fun i => Req.root b i)
          (sendAll st reqs, store, { sent := reqs })
      | _ => (st, store, {})
    | .sliceRoot r root proof =>
      match r with
      | .root b slice =>
        if !checkProof root slice b.hash proof then (st, store, {})
        else
          let st := done st r
          let st := { st with sliceRoots := rootSet st.sliceRoots (b, slice) root }
          let reqs := (List.range TOTAL_SHREDS).map (fun j => Req.shred b slice j)
          (sendAll st reqs, store, { sent := reqs })
      | _ => (st, store, {})
    | .shred r slot s sigOk =>
      match r with
      | .shred b slice idx =>
        if slot ≠ b.slot ∨ s.slice ≠ slice ∨ s.idx ≠ idx then (st, store, {})
        else match rootGet st.sliceRoots (b, slice) with
          | none => (st, store, { panic := true })   -- `unreachable!("issued repair request (Shred) before knowing slice root")`
          | some root =>
            if s.root ≠ root then (st, store, {})
            -- fix D26: the last-slice flag must agree with the proven last slice index
            else if s.isLast ≠ decide (lastGet st.lastSlices b = some slice) then (st, store, {})
            -- fix D15b: a shred whose data/coding type does not fit its index would be dropped by the blockstore;
            -- the request stays outstanding
            else if !s.ty then (st, store, {})
            else if !sigOk then (st, store, {})
            else
              let st := done st r
              let (sd, res, evs) := addRepair env (storeGet cap store b.slot) b.hash s
              let store := storeSet store b.slot sd
              match res with
              | .panic => (st, store, { events := evs, panic := true })
              | .ev (.block info) =>
                if info.hash ≠ b.hash then (st, store, { events := evs, panic := true })   -- `assert_eq!`
                else if info.parent.1 ≥ b.slot then
                  -- `PoolImpl::add_block`: `assert!(block_id.0 > parent_id.0)`
                  (st, store, { events := evs, panic := true })
                else (st, store, { events := evs, poolAdd := some (b, info.parent) })
              | _ => (st, store, { events := evs })
      | _ => (st, store, {})

/-! ### responder -/

/-- `try_build_response(..).unwrap_or(Nack)`; `none` = panic inside `create_double_merkle_proof` -/
def answer (sd : SlotData) (r : Req) : Option Resp :=
  match r with
  | .last b =>
    match getLastSliceIndex sd b.hash with
    | none => some (.nack r)
    | some last =>
      match getSliceRoot sd b.hash last with
      | none => some (.nack r)
      | some root =>
        match createProof sd b.hash last with
        | none => some (.nack r)
        | some none => none
        | some (some π) => some (.lastRoot r last root π)
  | .root b slice =>
    match getSliceRoot sd b.hash slice with
    | none => some (.nack r)
    | some root =>
      match createProof sd b.hash slice with
      | none => some (.nack r)
      | some none => none
      | some (some π) => some (.sliceRoot r root π)
  | .shred b slice idx =>
    match getShred sd b.hash slice idx with
    | none => some (.nack r)
    | some s => some (.shred r b.slot s true)

end AgModel.Repair
