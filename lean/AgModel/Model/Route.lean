import AgModel.Gen.Consts
/-
Model of the routing decisions of `src/disseminator/{rotor,turbine,trivial}.rs` (import-free, executable).

Validators are `0 … n-1` (`ValidatorIndex`).  The pseudo-random parts (`StdRng::from_seed`, the
`QuorumSamplingStrategy` producing the relay committee of a `(slot, slice)`, the `WeightedShuffle`
producing the Turbine permutation of a `(slot, shred)`) are *parameters*: a committee is a list of
validators, a Turbine permutation is a list of validators.  What is modelled is everything the code
does around them: `EpochInfo::leader`, `Rotor::{send_as_leader, broadcast_if_relay, sample_relay,
sample_relays}` including the `(slot, slice)` cache, `TurbineTree::new` (root, own position,
children by position), `Turbine::{send_shred_to_root, forward_shred}`, `TrivialDisseminator::send`,
and the receive path of `consensus.rs::handle_disseminator_shred` (every received shred is forwarded,
without de-duplication) as a loss-free FIFO run.
Index panics / `expect`s / checked-arithmetic panics of the code are explicit `Out.panic` outcomes.
-/
namespace AgModel.Route

/-- `TOTAL_SHREDS` (size of the relay committee `Rotor::new`/`new_fa1` ask the sampler for). -/
def totalShreds : Nat := AgModel.Gen.TOTAL_SHREDS

/-- `EpochInfo::leader(slot)`: `window = slot / SLOTS_PER_WINDOW`, `leader = window % n`. -/
def leader (n slot : Nat) : Nat := (slot / AgModel.Gen.SLOTS_PER_WINDOW) % n

/-- `ShredPayload::index_in_slot`: the key of the Turbine tree cache together with the slot. -/
def indexInSlot (slice shred : Nat) : Nat := slice * totalShreds + shred

/-- Result of one `Disseminator::send` / `forward` call: the destinations handed to
    `Network::send` / `send_to_many` in order, or a panic. -/
inductive Out where
  | to (dests : List Nat)
  | panic
deriving DecidableEq, Repr, Inhabited

/-! ## Rotor -/

/-- `Rotor::sample_relay`: `self.sample_relays(slot, slice)[shred]` (slice index panic when the
    sampler's quorum is shorter than the shred index) followed by `epoch_info.validator(relay)`
    (index panic when the sampler returns somebody outside the validator set). -/
def rotorRelay (n : Nat) (committee : List Nat) (shred : Nat) : Option Nat :=
  match committee[shred]? with
  | some r => if r < n then some r else none
  | none => none

/-- `Rotor::send_as_leader`. -/
def rotorSend (n : Nat) (committee : List Nat) (shred : Nat) : Out :=
  match rotorRelay n committee shred with
  | some r => .to [r]
  | none => .panic

/-- destinations of the relay's broadcast: everybody but the relay and the leader, ascending. -/
def broadcastDests (n relay ldr : Nat) : List Nat :=
  (List.range n).filter (fun i => i != relay && i != ldr)

/-- `Rotor::broadcast_if_relay` executed by validator `own`. -/
def rotorForward (n ldr own : Nat) (committee : List Nat) (shred : Nat) : Out :=
  match rotorRelay n committee shred with
  | none => .panic
  | some r => if own = r then .to (broadcastDests n r ldr) else .to []

/-! ### the `(slot, slice)` relay cache of `sample_relays` -/

abbrev Key := Nat × Nat

/-- association-list cache (`quick_cache` may evict any entry at any time: see `Cache.evict`). -/
structure Cache where
  entries : List (Key × List Nat)
deriving Repr

def Cache.empty : Cache := ⟨[]⟩

def Cache.get (c : Cache) (k : Key) : Option (List Nat) :=
  (c.entries.find? (fun e => e.1 == k)).map (·.2)

def Cache.insert (c : Cache) (k : Key) (v : List Nat) : Cache := ⟨(k, v) :: c.entries⟩

/-- eviction of everything stored under a key (any eviction policy is a sequence of these). -/
def Cache.evict (c : Cache) (k : Key) : Cache := ⟨c.entries.filter (fun e => !(e.1 == k))⟩

/-- `Rotor::sample_relays` with the sampler-on-seeded-RNG as a function of the key. -/
def sampleRelays (sampler : Key → List Nat) (c : Cache) (k : Key) : List Nat × Cache :=
  match c.get k with
  | some v => (v, c)
  | none => let v := sampler k; (v, c.insert k v)

/-- operations on one Rotor instance's cache: a query or an eviction. -/
inductive CacheOp where
  | query (k : Key)
  | evict (k : Key)
deriving Repr

/-- runs a sequence of cache operations, collecting the answers of the queries. -/
def runCache (sampler : Key → List Nat) : Cache → List CacheOp → List (Key × List Nat)
  | _, [] => []
  | c, .query k :: ops =>
    let (v, c') := sampleRelays sampler c k
    (k, v) :: runCache sampler c' ops
  | c, .evict k :: ops => runCache sampler (c.evict k) ops

/-! ## Turbine -/

/-- `validator_indices.iter().position(|v| *v == own_id)`. -/
def posOf : List Nat → Nat → Option Nat
  | [], _ => none
  | x :: xs, v => if x = v then some 0 else (posOf xs v).map (· + 1)

/-- `TurbineTree::new` from the perspective of validator `own`: `(root, children)`, or `none` for a
    panic: `validator_indices[0]` on an empty set, `expect("own validator id …")`,
    `(own_pos - 1) / fanout` with `fanout = 0`, `own_pos * fanout + 1` overflowing `usize`.
    (`Turbine::get_tree` only memoises this per `(slot, index_in_slot)`.) -/
def turbineTree (perm : List Nat) (f own : Nat) : Option (Nat × List Nat) :=
  match perm with
  | [] => none
  | r :: _ =>
    match posOf perm own with
    | none => none
    | some p =>
      if p ≠ 0 ∧ f = 0 then none
      else if p * f + 1 ≥ 2 ^ 64 then none
      else some (r, (perm.drop (p * f + 1)).take f)

/-- `Turbine::send_shred_to_root` executed by validator `own` (the leader): the tree is built from
    `own`'s perspective first, then the shred goes to the root. -/
def turbineSend (perm : List Nat) (f own : Nat) : Out :=
  match turbineTree perm f own with
  | none => .panic
  | some (r, _) => .to [r]

/-- `Turbine::forward_shred` by validator `own`: to the children kept by `TurbineTree::new`. -/
def turbineForward (perm : List Nat) (f own : Nat) : Out :=
  match turbineTree perm f own with
  | none => .panic
  | some (_, cs) => .to cs

/-- children *positions* of position `p` among `n` positions with fanout `f`. -/
def childPos (n f p : Nat) : List Nat := (List.range' (p * f + 1) f).filter (· < n)

/-- parent position of a position `q ≥ 1` (`TurbineTree::new`: `(own_pos - 1) / fanout`). -/
def parentPos (f q : Nat) : Nat := (q - 1) / f

/-- `true` iff the list is a permutation of `0 … n-1`. -/
def isPermOfRange (perm : List Nat) : Bool :=
  (List.range perm.length).all (fun v => perm.count v == 1)

/-! ## Trivial disseminator -/

/-- `TrivialDisseminator::send`: the leader sends to every validator (itself included). -/
def trivialSend (n : Nat) : Out := .to (List.range n)

/-! ## Loss-free runs (receive path: every received shred is forwarded, no de-duplication) -/

/-- FIFO run: `queue` holds the validators with an undelivered copy; delivering to `v` appends the
    destinations of `v`'s `forward`.  Returns the delivery sequence (stops at a panic or when the
    fuel is exhausted; `runOk` tells whether it ran to completion). -/
def run (fwd : Nat → Out) : Nat → List Nat → List Nat
  | 0, _ => []
  | _, [] => []
  | fuel + 1, v :: q =>
    match fwd v with
    | .to ds => v :: run fwd fuel (q ++ ds)
    | .panic => [v]

/-- the run terminated with an empty queue and without panic within the fuel. -/
def runOk (fwd : Nat → Out) : Nat → List Nat → Bool
  | _, [] => true
  | 0, _ :: _ => false
  | fuel + 1, v :: q =>
    match fwd v with
    | .to ds => runOk fwd fuel (q ++ ds)
    | .panic => false

def outDests : Out → List Nat
  | .to ds => ds
  | .panic => []

/-- full Turbine dissemination of one shred: the leader's `send`, then forwarding. -/
def turbineRun (perm : List Nat) (f ldr : Nat) : List Nat :=
  run (turbineForward perm f) (perm.length + 1) (outDests (turbineSend perm f ldr))

def turbineRunOk (perm : List Nat) (f ldr : Nat) : Bool :=
  turbineSend perm f ldr != .panic &&
    runOk (turbineForward perm f) (perm.length + 1) (outDests (turbineSend perm f ldr))

/-- full Rotor dissemination of one shred. -/
def rotorRun (n ldr : Nat) (committee : List Nat) (shred : Nat) : List Nat :=
  run (fun v => rotorForward n ldr v committee shred) (n + 1) (outDests (rotorSend n committee shred))

def rotorRunOk (n ldr : Nat) (committee : List Nat) (shred : Nat) : Bool :=
  rotorSend n committee shred != .panic &&
    runOk (fun v => rotorForward n ldr v committee shred) (n + 1) (outDests (rotorSend n committee shred))

/-- full dissemination with the trivial disseminator (`forward` does nothing). -/
def trivialRun (n : Nat) : List Nat := run (fun _ => .to []) (n + 1) (outDests (trivialSend n))

end AgModel.Route
