import AgModel.Gen.Consts
/-
Model of the padding / chunking arithmetic of `src/shredder/reed_solomon.rs`
(`ReedSolomonCoder::shred` l.88-128 and the padding removal of `deshred` l.190-203).

Bytes are `Nat`s (nothing below depends on them being < 256 except that the marker `0x80` is not `0`).
`usize` subtraction is modelled by truncated `Nat` subtraction; `Props/C11.lean::pad_arith` shows that
no subtraction underflows (an underflow would be a panic: overflow checks are on in every profile).
-/
namespace AgModel.Pad

/-- `DATA_SHREDS`. -/
def DATA : Nat := AgModel.Gen.DATA_SHREDS
/-- `TOTAL_SHREDS`. -/
def TOTAL : Nat := AgModel.Gen.TOTAL_SHREDS
/-- `MAX_DATA_PER_SHRED`. -/
def MAX_PER_SHRED : Nat := AgModel.Gen.MAX_DATA_PER_SHRED
/-- `MAX_DATA_PER_SLICE_AFTER_PADDING`. -/
def MAX_AFTER_PADDING : Nat := AgModel.Gen.MAX_DATA_PER_SLICE_AFTER_PADDING
/-- `MAX_DATA_PER_SLICE`. -/
def MAX_PER_SLICE : Nat := AgModel.Gen.MAX_DATA_PER_SLICE

/-- the padding marker byte `0x80` -/
def marker : Nat := 128

/-- `let padding_bytes = 2 * DATA_SHREDS - payload.len() % (2 * DATA_SHREDS);` -/
def paddingBytes (len : Nat) : Nat := 2 * DATA - len % (2 * DATA)

/-- `let shred_bytes = (payload.len() + padding_bytes).div_ceil(DATA_SHREDS);` -/
def shredBytes (len : Nat) : Nat := (len + paddingBytes len + (DATA - 1)) / DATA

/-- `usize::next_multiple_of` (the caller guarantees `b > 0`; Rust panics on `b = 0`). -/
def nextMultipleOf (a b : Nat) : Nat := if a % b = 0 then a else a + (b - a % b)

/-- `let last_shreds_bytes = (2 * DATA_SHREDS).next_multiple_of(shred_bytes);` -/
def lastShredsBytes (len : Nat) : Nat := nextMultipleOf (2 * DATA) (shredBytes len)

/-- `let boundary = payload.len() - (last_shreds_bytes - padding_bytes);` -/
def boundary (len : Nat) : Nat := len - (lastShredsBytes len - paddingBytes len)

/-- `<[T]>::chunks(n)` with explicit fuel (`n > 0`; every non-empty remainder yields one chunk). -/
def chunksF {α : Type} : Nat → Nat → List α → List (List α)
  | 0, _, _ => []
  | _ + 1, _, [] => []
  | f + 1, n, a :: l => (a :: l).take n :: chunksF f n ((a :: l).drop n)

def chunks {α : Type} (n : Nat) (l : List α) : List (List α) := chunksF l.length n l

/-- `Vec::resize(n, 0)` (truncates when longer). -/
def resize (l : List Nat) (n : Nat) : List Nat := (l ++ List.replicate (n - l.length) 0).take n

/-- the `last_shreds` buffer: tail of the payload, marker, zero fill -/
def lastShreds (payload : List Nat) : List Nat :=
  resize (payload.drop (boundary payload.length) ++ [marker]) (lastShredsBytes payload.length)

/-- The `DATA_SHREDS` data shards `ReedSolomonCoder::shred` feeds to the encoder
    (`payload[..boundary].chunks(shred_bytes).chain(last_shreds.chunks(shred_bytes))`). -/
def rsSplit (payload : List Nat) : List (List Nat) :=
  chunks (shredBytes payload.length) (payload.take (boundary payload.length))
    ++ chunks (shredBytes payload.length) (lastShreds payload)

/-- number of trailing zero bytes: `iter().rev().take_while(|b| **b == 0).count()` -/
def trailingZeros (l : List Nat) : Nat := (l.reverse.takeWhile (· == 0)).length

/-- Padding removal of `ReedSolomonCoder::deshred`; `none` = `InvalidPadding`. -/
def unpad (l : List Nat) : Option (List Nat) :=
  let pb := trailingZeros l + 1
  if l.length < pb then none
  else
    let m := l.length - pb
    if l.getD m 0 ≠ marker then none else some (l.take m)

end AgModel.Pad
