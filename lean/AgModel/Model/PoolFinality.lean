import AgModel.Gen.Consts
/-!
Executable model of `src/consensus/pool/finality_tracker.rs`, as used *inside* the Pool model
(`Model/Pool.lean`): it supplies `highest_finalized_slot`, `first_unpruned_slot` (vote/cert bounds,
pruning of per-slot state) and the finalization events. Block hashes are interned `Nat` ids; id `0`
is `GENESIS_BLOCK_HASH`. `assert!`/`panic!` sites are explicit: a step that would panic returns
`none` for the tracker and the caller reports `panic`.
(The property theorems about this tracker live with C08; here it is a component of the Pool model.)
-/
namespace AgModel.PoolFin

inductive Status where
  | notarized (h : Nat)
  | finalPendingNotar
  | finalized (h : Nat)
  | implFinalized (h : Nat)
  | implSkipped
deriving DecidableEq, Repr, Inhabited

structure FinEvent where
  finalized : Option (Nat × Nat) := none
  implFinalized : List (Nat × Nat) := []
  implSkipped : List Nat := []
deriving DecidableEq, Repr, Inhabited

structure Tracker where
  status : List (Nat × Status) := [(0, .notarized 0)]
  parents : List ((Nat × Nat) × (Nat × Nat)) := []
  highestFinalized : Nat := 0
  firstUnpruned : Nat := 0
deriving Repr, Inhabited

def getStatus (t : Tracker) (s : Nat) : Option Status := t.status.lookup s

def setStatus (t : Tracker) (s : Nat) (st : Status) : Tracker :=
  { t with status := (s, st) :: t.status.filter (·.1 ≠ s) }

def getParent (t : Tracker) (b : Nat × Nat) : Option (Nat × Nat) := t.parents.lookup b

def isDecided : Status → Bool
  | .finalized _ | .implFinalized _ | .implSkipped => true
  | _ => false

/-- the `while` loop of `prune` (fuel = number of status entries + 1 suffices). -/
def advance : Nat → Tracker → Nat → Nat
  | 0, _, fu => fu
  | fuel + 1, t, fu =>
    match getStatus t (fu + 1) with
    | some st => if isDecided st then advance fuel t (fu + 1) else fu
    | none => fu

def prune (t : Tracker) : Tracker :=
  let root := advance (t.status.length + 1) t t.firstUnpruned
  { t with firstUnpruned := root,
           status := t.status.filter (·.1 ≥ root),
           parents := t.parents.filter (·.1.1 ≥ root) }

/-- skip loop of `handle_implicitly_finalized`: slots `from+1 .. source-1`. Returns
    `none` on a "consensus safety violation" panic, `some (t, skipped, stop)` otherwise where `stop`
    means the early `return` (an already implicitly skipped slot was met). -/
def skipLoop : Nat → Tracker → Nat → Nat → List Nat → Option (Tracker × List Nat × Bool)
  | 0, t, _, _, acc => some (t, acc, false)
  | fuel + 1, t, slot, source, acc =>
    if slot ≥ source then some (t, acc, false)
    else
      match getStatus t slot with
      | some .implSkipped => some (setStatus t slot .implSkipped, acc, true)
      | some (.notarized _) => skipLoop fuel (setStatus t slot .implSkipped) (slot + 1) source (acc ++ [slot])
      | none => skipLoop fuel (setStatus t slot .implSkipped) (slot + 1) source (acc ++ [slot])
      | some _ => none

/-- `handle_implicitly_finalized` with explicit fuel for the ancestor recursion. -/
def implFinalize : Nat → Tracker → Nat → (Nat × Nat) → FinEvent → Option (Tracker × FinEvent)
  | 0, t, _, _, ev => some (t, ev)
  | fuel + 1, t, source, b, ev =>
    if ¬ (source > b.1) then none
    else if b.1 < t.firstUnpruned then some (t, ev)
    else
      match skipLoop (source - b.1) t (b.1 + 1) source [] with
      | none => none
      | some (t, skipped, stop) =>
        let ev := { ev with implSkipped := ev.implSkipped ++ skipped }
        if stop then some (t, ev)
        else
          let old := getStatus t b.1
          let t' := setStatus t b.1 (.implFinalized b.2)
          match old with
          | some (.finalized h) => if h = b.2 then some (setStatus t' b.1 (.finalized h), ev) else none
          | some (.implFinalized h) => if h = b.2 then some (t, ev) else none
          | some .implSkipped => none
          | some (.notarized h) =>
            if h ≠ b.2 then none
            else
              let ev := { ev with implFinalized := ev.implFinalized ++ [b] }
              match getParent t' b with
              | some p => implFinalize fuel t' b.1 p ev
              | none => some (t', ev)
          | _ =>
            let ev := { ev with implFinalized := ev.implFinalized ++ [b] }
            match getParent t' b with
            | some p => implFinalize fuel t' b.1 p ev
            | none => some (t', ev)

def handleFinalizedBlock (t : Tracker) (b : Nat × Nat) : Option (Tracker × FinEvent) :=
  let ev : FinEvent := { finalized := some b }
  let t := { t with highestFinalized := max b.1 t.highestFinalized }
  match getParent t b with
  | some p =>
    match implFinalize (b.1 + 2) t b.1 p ev with
    | some (t, ev) => some (prune t, ev)
    | none => none
  | none => some (prune t, ev)

def addParent (t : Tracker) (b p : Nat × Nat) : Option (Tracker × FinEvent) :=
  if ¬ (b.1 > p.1) then none
  else if b.1 < t.firstUnpruned then some (t, {})
  else
    match getParent t b with
    | some p' => if p' = p then some (t, {}) else none
    | none =>
      let t := { t with parents := (b, p) :: t.parents }
      match getStatus t b.1 with
      | some (.finalized h) | some (.implFinalized h) =>
        if b.2 = h then
          match implFinalize (b.1 + 2) t b.1 p {} with
          | some (t, ev) => some (prune t, ev)
          | none => none
        else some (t, {})
      | _ => some (t, {})

def markFastFinalized (t : Tracker) (b : Nat × Nat) : Option (Tracker × FinEvent) :=
  if b.1 < t.firstUnpruned then some (t, {})
  else
    let old := getStatus t b.1
    let t' := setStatus t b.1 (.finalized b.2)
    match old with
    | some (.finalized h) | some (.implFinalized h) => if h = b.2 then some (t', {}) else none
    | some (.notarized h) => if h = b.2 then handleFinalizedBlock t' b else none
    | some .implSkipped => none
    | _ => handleFinalizedBlock t' b

def markNotarized (t : Tracker) (b : Nat × Nat) : Option (Tracker × FinEvent) :=
  if b.1 < t.firstUnpruned then some (t, {})
  else
    let old := getStatus t b.1
    let t' := setStatus t b.1 (.notarized b.2)
    match old with
    | none => some (t', {})
    | some (.notarized h) | some (.finalized h) | some (.implFinalized h) =>
      if h = b.2 then some (t', {}) else none
    | some .implSkipped => some (t', {})
    | some .finalPendingNotar => handleFinalizedBlock (setStatus t' b.1 (.finalized b.2)) b

def markFinalized (t : Tracker) (s : Nat) : Option (Tracker × FinEvent) :=
  if s < t.firstUnpruned then some (t, {})
  else
    let old := getStatus t s
    let t' := setStatus t s .finalPendingNotar
    match old with
    | none => some (t', {})
    | some .finalPendingNotar | some (.finalized _) | some (.implFinalized _) => some (t', {})
    | some (.notarized h) => handleFinalizedBlock (setStatus t' s (.finalized h)) (s, h)
    | some .implSkipped => none

end AgModel.PoolFin
