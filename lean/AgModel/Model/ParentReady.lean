import AgModel.Gen.Consts
import AgModel.Model.Finality
/-
Model of `src/consensus/pool/parent_ready_tracker.rs` + `parent_ready_state.rs` (import-free, executable).

Per slot: `skip` flag, notar-fallback hashes (insertion order), the ready list (`IsReady::Ready(list)`; the empty
list stands for `IsReady::NotReady`, a `Ready` list is never empty) and whether a waiter is registered
(`NotReady(Some(sender))`).  The `HashMap<Slot, ParentReadyState>` is a function into `Option`; `slot_state(slot)`
creates default entries exactly where the code does (`entry().or_default()`), because retained entries are
observable through the hook and bounded by the property.

`add_to_ready`'s `assert!(!ready_ids.contains(&id))` and `wait_for_parent_ready`'s `assert!(maybe_waiter.is_none())`
are `none` (= panic) outcomes.

The two `for slot in x.future_slots()` loops are unbounded iterators that `break` at the first slot that is not
skip-certified; the model runs them on explicit fuel `top + 1 - slot + 1`, where the ghost field `top` is an upper bound of
all skip-marked slots (so the loop always ends by `break` before the fuel does: `Proofs.ParentReady.fwd_*`).
-/
namespace AgModel.ParentReady

def W : Nat := AgModel.Gen.SLOTS_PER_WINDOW

def isWindowStart (s : Nat) : Bool := s % W == 0
def windowFirst (s : Nat) : Nat := s / W * W

structure PState where
  skip : Bool := false
  nfs : List Nat := []
  ready : List (Nat × Nat) := []
  waiter : Bool := false
deriving DecidableEq, Repr, Inhabited

structure Tracker where
  states : Nat → Option PState
  root : Nat
  /-- ghost: upper bound of the skip-marked slots (fuel of the forward loops) -/
  top : Nat

/-- `ParentReadyTracker::default()`: genesis is notarized-fallback. -/
def init : Tracker where
  states := fun s => if s = 0 then some { nfs := [0] } else none
  root := 0
  top := 0

def get (t : Tracker) (s : Nat) : PState := (t.states s).getD {}

/-- `*self.slot_state(s) = v` (creates the entry). -/
def put (t : Tracker) (s : Nat) (v : PState) : Tracker :=
  { t with states := fun x => if x = s then some v else t.states x }

/-- `self.slot_state(s)` without modification: creates a default entry if missing. -/
def touch (t : Tracker) (s : Nat) : Tracker := put t s (get t s)

/-- A wake-up of the waiter registered for `slot` with block `id` (`sender.send(id)`). -/
abbrev Wake := Nat × (Nat × Nat)

/-- `ParentReadyState::add_to_ready` on slot `s`; `none` = assertion failure. -/
def addToReady (t : Tracker) (s : Nat) (id : Nat × Nat) : Option (Tracker × List Wake) :=
  let st := get t s
  if st.ready.isEmpty then
    some (put t s { st with ready := [id], waiter := false }, if st.waiter then [(s, id)] else [])
  else if st.ready.contains id then none
  else some (put t s { st with ready := st.ready ++ [id] }, [])

/-- adds all `ids` in order -/
def addAllToReady (t : Tracker) (s : Nat) : List (Nat × Nat) → Option (Tracker × List Wake)
  | [] => some (t, [])
  | id :: rest =>
    match addToReady t s id with
    | none => none
    | some (t1, w1) =>
      match addAllToReady t1 s rest with
      | none => none
      | some (t2, w2) => some (t2, w1 ++ w2)

/-- The forward loop shared by `mark_notar_fallback` (`ids = [id]`) and `mark_skipped` (`ids = potential_parents`):
    from `slot` on, add `ids` to every window start, stop after the first slot that is not skip-certified.
    Returns the tracker, the newly certified `(slot, parent)` pairs and the wake-ups. -/
def fwd : Nat → Tracker → Nat → List (Nat × Nat) → Option (Tracker × List (Nat × (Nat × Nat)) × List Wake)
  | 0, t, _, _ => some (t, [], [])
  | f + 1, t, slot, ids =>
    let t0 := touch t slot
    let r := if isWindowStart slot then addAllToReady t0 slot ids else some (t0, [])
    match r with
    | none => none
    | some (t1, w1) =>
      let new1 := if isWindowStart slot then ids.map (fun p => (slot, p)) else []
      if (get t1 slot).skip then
        match fwd f t1 (slot + 1) ids with
        | none => none
        | some (t2, new2, w2) => some (t2, new1 ++ new2, w1 ++ w2)
      else some (t1, new1, w1)

/-- result of an operation: tracker, announced `(slot, parent)` pairs, wake-ups; `none` = panic -/
abbrev Res := Option (Tracker × List (Nat × (Nat × Nat)) × List Wake)

/-- `mark_notar_fallback`. -/
def markNotarFallback (t : Tracker) (id : Nat × Nat) : Res :=
  if id.1 < t.root then some (t, [], [])
  else
    let st := get t id.1
    if st.nfs.contains id.2 then some (touch t id.1, [], [])
    else
      let t1 := put t id.1 { st with nfs := st.nfs ++ [id.2] }
      fwd (t1.top + 1 - id.1 + 1) t1 (id.1 + 1) [id]

/-- The backward collection of `mark_skipped` over the slots `lo ≤ s ≤ marked` of the window, from `marked`
    downwards (`n` = number of slots still to visit, `s` = current slot + 1). -/
def collect (marked : Nat) : Nat → Tracker → Nat → List (Nat × Nat) → Tracker × List (Nat × Nat)
  | 0, t, _, acc => (t, acc)
  | n + 1, t, s1, acc =>
    let s := s1 - 1
    let t0 := touch t s
    let st := get t0 s
    let acc1 := if s ≠ marked then acc ++ st.nfs.map (fun h => (s, h)) else acc
    if ¬ st.skip then (t0, acc1)
    else collect marked n t0 s (acc1 ++ st.ready)

/-- `mark_skipped`. -/
def markSkipped (t : Tracker) (ms : Nat) : Res :=
  if ms < t.root then some (t, [], [])
  else
    let st := get t ms
    if st.skip then some (touch t ms, [], [])
    else
      let t1 : Tracker := { put t ms { st with skip := true } with top := max t.top ms }
      let lo := max (windowFirst ms) t1.root
      let (t2, potential) := collect ms (ms + 1 - lo) t1 (ms + 1) []
      fwd (t2.top + 1 - ms + 1) t2 (ms + 1) potential

/-- `max_by_key(|(slot, _)| slot)`: the *last* element with the maximal slot. -/
def lastMax : List (Nat × (Nat × Nat)) → Option (Nat × (Nat × Nat))
  | [] => none
  | x :: rest =>
    match lastMax rest with
    | none => some x
    | some y => if y.1 ≥ x.1 then some y else some x

def markAllNf (t : Tracker) : List (Nat × Nat) → Res
  | [] => some (t, [], [])
  | b :: rest =>
    match markNotarFallback t b with
    | none => none
    | some (t1, n1, w1) =>
      match markAllNf t1 rest with
      | none => none
      | some (t2, n2, w2) => some (t2, n1 ++ n2, w1 ++ w2)

def markAllSkipped (t : Tracker) : List Nat → Res
  | [] => some (t, [], [])
  | s :: rest =>
    match markSkipped t s with
    | none => none
    | some (t1, n1, w1) =>
      match markAllSkipped t1 rest with
      | none => none
      | some (t2, n2, w2) => some (t2, n1 ++ n2, w1 ++ w2)

/-- `handle_finalization`: all marks are applied, only the highest-slot pair is announced. -/
def handleFinalization (t : Tracker) (ev : Finality.Event) : Res :=
  match markAllNf t (ev.finalized.toList ++ ev.implFinalized) with
  | none => none
  | some (t1, n1, w1) =>
    match markAllSkipped t1 ev.implSkipped with
    | none => none
    | some (t2, n2, w2) => some (t2, (lastMax (n1 ++ n2)).toList, w1 ++ w2)

/-- `parents_ready(slot)`. -/
def parentsReady (t : Tracker) (s : Nat) : List (Nat × Nat) :=
  match t.states s with
  | some st => st.ready
  | none => []

def blkLe (a b : Nat × Nat) : Bool := a.1 < b.1 || (a.1 == b.1 && a.2 ≤ b.2)

def insertSorted (x : Nat × Nat) : List (Nat × Nat) → List (Nat × Nat)
  | [] => [x]
  | y :: ys => if blkLe x y then x :: y :: ys else y :: insertSorted x ys

/-- `block_ids.sort()` (ids are distinct, so stability does not matter). -/
def sortBlocks (l : List (Nat × Nat)) : List (Nat × Nat) := l.foldr insertSorted []

inductive WaitRes where
  | ready (t : Tracker) (b : Nat × Nat)   -- `Either::Left(parent)`; the ready list is now sorted
  | waiting (t : Tracker)                 -- `Either::Right(receiver)`; a waiter is registered
  | panic                                 -- a waiter was already registered

/-- `wait_for_parent_ready(slot)`. -/
def waitForParentReady (t : Tracker) (s : Nat) : WaitRes :=
  let st := get t s
  match sortBlocks st.ready with
  | b :: rest => .ready (put t s { st with ready := b :: rest }) b
  | [] => if st.waiter then .panic else .waiting (put t s { st with waiter := true })

/-- `prune(new_root)`. -/
def prune (t : Tracker) (newRoot : Nat) : Tracker :=
  { t with root := newRoot, states := fun s => if s < newRoot then none else t.states s }

end AgModel.ParentReady
