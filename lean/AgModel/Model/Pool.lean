import AgModel.Gen.Consts
import AgModel.Model.Finality
import AgModel.Model.ParentReady
/-!
Executable model of `src/consensus/pool/slot_state.rs` and of the vote / certificate / block paths of
`src/consensus/pool.rs` (`PoolImpl::{add_vote, add_cert, add_block, add_valid_cert, prune,
recover_from_standstill}`), following the statement order of the Rust code (as repaired by the
`fix:` commits recorded in known_findings.json).

* validators are indices `0..n`, stakes a `List Nat`, block hashes interned `Nat` ids;
* a certificate is `(kind, slot, hash, signers of the first aggregate, signers of the second
  aggregate, declared stake)`; signatures are symbolic (C09 owns their validation);
* the finality tracker (`Model/Finality.lean`, C08) and the parent-ready tracker
  (`Model/ParentReady.lean`, C07) are components of the pool exactly as in `PoolImpl`: the first
  decides the slot bounds and pruning, the second produces the `ParentReady` events.
-/
namespace AgModel.Pool
open AgModel

/-! ### epoch, thresholds -/

structure Epoch where
  stakes : List Nat
  own : Nat
deriving Repr, Inhabited

def Epoch.n (e : Epoch) : Nat := e.stakes.length
def Epoch.total (e : Epoch) : Nat := e.stakes.sum
def Epoch.stake (e : Epoch) (v : Nat) : Nat := e.stakes.getD v 0

/-- `Fraction::is_met` (u128 arithmetic cannot overflow for u64 inputs, so `Nat` is exact). -/
def isMet (num den value total : Nat) : Bool := decide (value * den ≥ total * num)

def Epoch.isWeakest (e : Epoch) (s : Nat) : Bool :=
  isMet Gen.WEAKEST_QUORUM_THRESHOLD_NUM Gen.WEAKEST_QUORUM_THRESHOLD_DEN s e.total
def Epoch.isWeak (e : Epoch) (s : Nat) : Bool :=
  isMet Gen.WEAK_QUORUM_THRESHOLD_NUM Gen.WEAK_QUORUM_THRESHOLD_DEN s e.total
def Epoch.isQuorum (e : Epoch) (s : Nat) : Bool :=
  isMet Gen.QUORUM_THRESHOLD_NUM Gen.QUORUM_THRESHOLD_DEN s e.total
def Epoch.isStrong (e : Epoch) (s : Nat) : Bool :=
  isMet Gen.STRONG_QUORUM_THRESHOLD_NUM Gen.STRONG_QUORUM_THRESHOLD_DEN s e.total

/-! ### votes, certificates, outputs -/

inductive VoteKind where
  | notar | nf | skip | sf | final
deriving DecidableEq, Repr, Inhabited

structure Vote where
  kind : VoteKind
  slot : Nat
  hash : Nat
  signer : Nat
deriving DecidableEq, Repr, Inhabited

inductive CertKind where
  | notar | nf | skip | ff | final
deriving DecidableEq, Repr, Inhabited

structure Cert where
  kind : CertKind
  slot : Nat
  hash : Nat
  sig1 : List Nat
  sig2 : List Nat
  stake : Nat
deriving DecidableEq, Repr, Inhabited

inductive Offence where
  | notarDifferentHash | skipAndNotarize | skipAndFinalize | nfAndFinalize
deriving DecidableEq, Repr, Inhabited

inductive Verdict where
  | ok | oob | dup | slash (o : Offence) | panic
deriving DecidableEq, Repr, Inhabited

inductive Event where
  | cert (c : Cert)
  | s2n (slot hash : Nat)
  | s2s (slot : Nat)
  | repair (slot hash : Nat)
  | parentReady (slot pslot phash : Nat)
  | standstill (slot : Nat) (certs : List Cert) (votes : List Vote)
  | panic
deriving DecidableEq, Repr, Inhabited

/-! ### per-slot state (`SlotState`) -/

structure SlotState where
  slot : Nat
  vNotar : List (Nat × Nat) := []      -- validator ↦ hash           (`votes.notar`)
  vNf : List (Nat × Nat) := []         -- (validator, hash) pairs     (`votes.notar_fallback`)
  vSkip : List Nat := []
  vSf : List Nat := []
  vFin : List Nat := []
  sNotar : List (Nat × Nat) := []      -- hash ↦ stake                (`voted_stakes.notar`)
  sNf : List (Nat × Nat) := []
  sSkip : Nat := 0
  sSf : Nat := 0
  sFin : Nat := 0
  sNotarOrSkip : Nat := 0
  sTopNotar : Nat := 0
  cNotar : Option Cert := none
  cNf : List Cert := []
  cSkip : Option Cert := none
  cFf : Option Cert := none
  cFin : Option Cert := none
  parents : List (Nat × Bool) := []    -- hash ↦ certified?
  pending : List Nat := []
  sent : List Nat := []
  sentS2S : Bool := false
deriving Repr, Inhabited

def lookupD (l : List (Nat × Nat)) (k : Nat) : Nat := (l.lookup k).getD 0

def addTo (l : List (Nat × Nat)) (k v : Nat) : List (Nat × Nat) :=
  if l.any (·.1 == k) then l.map (fun p => if p.1 == k then (p.1, p.2 + v) else p) else l ++ [(k, v)]

/-- `SortedVecSet::insert`: the set is kept in ascending order (it is iterated in that order) -/
def insertSet : List Nat → Nat → List Nat
  | [], k => [k]
  | x :: xs, k => if k < x then k :: x :: xs else if k = x then x :: xs else x :: insertSet xs k

def SlotState.isNf (st : SlotState) (h : Nat) : Bool := st.cNf.any (·.hash == h)

def SlotState.isNfOrStronger (st : SlotState) (h : Nat) : Bool :=
  (match st.cNotar with | some c => c.hash == h | none => false) ||
  (match st.cFf with | some c => c.hash == h | none => false) || st.isNf h

/-- validators (ascending) whose stored notar vote is for `h` (`SlotVotes::notar_votes`). -/
def SlotState.notarVoters (st : SlotState) (n : Nat) (h : Nat) : List Nat :=
  (List.range n).filter (fun v => st.vNotar.lookup v == some h)
def SlotState.nfVoters (st : SlotState) (n : Nat) (h : Nat) : List Nat :=
  (List.range n).filter (fun v => st.vNf.contains (v, h))
def SlotState.skipVoters (st : SlotState) (n : Nat) : List Nat := (List.range n).filter (st.vSkip.contains ·)
def SlotState.sfVoters (st : SlotState) (n : Nat) : List Nat := (List.range n).filter (st.vSf.contains ·)
def SlotState.finVoters (st : SlotState) (n : Nat) : List Nat := (List.range n).filter (st.vFin.contains ·)

def stakeOf (e : Epoch) (vs : List Nat) : Nat := (vs.map e.stake).sum

inductive S2N where
  | safe | missing | awaiting
deriving DecidableEq, Repr

/-- `SlotState::check_safe_to_notar` (with its side effects on `pending` / `sent`). -/
def SlotState.checkS2N (e : Epoch) (st : SlotState) (h : Nat) : SlotState × S2N :=
  let notarStake := lookupD st.sNotar h
  if !e.isWeakest notarStake then (st, .awaiting)
  else if !e.isWeak notarStake && !e.isQuorum (notarStake + st.sSkip) then
    ({ st with pending := insertSet st.pending h }, .awaiting)
  else
    match st.parents.lookup h with
    | none => (st, .missing)
    | some false => (st, .awaiting)
    | some true =>
      if st.vSkip.contains e.own then
        ({ st with pending := st.pending.erase h, sent := insertSet st.sent h }, .safe)
      else
        match st.vNotar.lookup e.own with
        | some h' =>
          if h' ≠ h then ({ st with pending := st.pending.erase h, sent := insertSet st.sent h }, .safe)
          else (st, .awaiting)
        | none => ({ st with pending := insertSet st.pending h }, .awaiting)

def s2nOut (slot h : Nat) : S2N → List Event
  | .safe => [.s2n slot h]
  | .missing => [.repair slot h]
  | .awaiting => []

/-- re-evaluation loop over a snapshot of `pending_safe_to_notar`. -/
def SlotState.recheckPending (e : Epoch) : SlotState → List Nat → List Event → SlotState × List Event
  | st, [], acc => (st, acc)
  | st, h :: hs, acc =>
    if st.sent.contains h then SlotState.recheckPending e st hs acc
    else
      let (st, r) := st.checkS2N e h
      SlotState.recheckPending e st hs (acc ++ s2nOut st.slot h r)

def SlotState.s2sCheck (e : Epoch) (st : SlotState) : SlotState × List Event :=
  if !st.sentS2S && e.isWeak (st.sNotarOrSkip - st.sTopNotar) && (st.vNotar.lookup e.own).isSome then
    ({ st with sentS2S := true }, [.s2s st.slot])
  else (st, [])

def mkNfCert (e : Epoch) (st : SlotState) (h : Nat) : Cert :=
  let a := st.notarVoters e.n h
  let b := st.nfVoters e.n h
  { kind := .nf, slot := st.slot, hash := h, sig1 := a, sig2 := b, stake := stakeOf e a + stakeOf e b }

/-- `count_notar_stake` -/
def SlotState.countNotar (e : Epoch) (st : SlotState) (h stake : Nat) : SlotState × List Cert × List Event :=
  let st := { st with sNotar := addTo st.sNotar h stake }
  let notarStake := lookupD st.sNotar h
  let st := { st with sNotarOrSkip := st.sNotarOrSkip + stake, sTopNotar := max notarStake st.sTopNotar }
  let (st, ev1) :=
    if !st.sent.contains h then
      let (st, r) := st.checkS2N e h
      (st, s2nOut st.slot h r)
    else (st, [])
  let (st, ev2) := st.s2sCheck e
  let nfStake := lookupD st.sNf h
  let c1 := if e.isQuorum (nfStake + notarStake) && !st.isNf h then [mkNfCert e st h] else []
  let voters := st.notarVoters e.n h
  let c2 := if e.isQuorum notarStake && st.cNotar.isNone then
      [{ kind := .notar, slot := st.slot, hash := h, sig1 := voters, sig2 := [], stake := stakeOf e voters : Cert }] else []
  let c3 := if e.isStrong notarStake && st.cFf.isNone then
      [{ kind := .ff, slot := st.slot, hash := h, sig1 := voters, sig2 := [], stake := stakeOf e voters : Cert }] else []
  (st, c1 ++ c2 ++ c3, ev1 ++ ev2)

/-- `count_notar_fallback_stake` -/
def SlotState.countNf (e : Epoch) (st : SlotState) (h stake : Nat) : SlotState × List Cert × List Event :=
  let st := { st with sNf := addTo st.sNf h stake }
  let nfStake := lookupD st.sNf h
  let notarStake := lookupD st.sNotar h
  let c1 := if e.isQuorum (nfStake + notarStake) && !st.isNf h then [mkNfCert e st h] else []
  (st, c1, [])

/-- `count_skip_stake` -/
def SlotState.countSkip (e : Epoch) (st : SlotState) (stake : Nat) (fallback : Bool) : SlotState × List Cert × List Event :=
  let st := if fallback then { st with sSf := st.sSf + stake } else { st with sSkip := st.sSkip + stake }
  let (st, ev1) := SlotState.recheckPending e st st.pending []
  let a := st.skipVoters e.n
  let b := st.sfVoters e.n
  let c1 := if e.isQuorum (st.sSkip + st.sSf) && st.cSkip.isNone then
      [{ kind := .skip, slot := st.slot, hash := 0, sig1 := a, sig2 := b, stake := stakeOf e a + stakeOf e b : Cert }] else []
  let (st, ev2) := st.s2sCheck e
  (st, c1, ev1 ++ ev2)

/-- `count_finalize_stake` -/
def SlotState.countFin (e : Epoch) (st : SlotState) (stake : Nat) : SlotState × List Cert × List Event :=
  let st := { st with sFin := st.sFin + stake }
  let a := st.finVoters e.n
  let c1 := if e.isQuorum st.sFin && st.cFin.isNone then
      [{ kind := .final, slot := st.slot, hash := 0, sig1 := a, sig2 := [], stake := stakeOf e a : Cert }] else []
  (st, c1, [])

/-- `SlotState::add_vote`: store, count, then the own-vote re-check of pending safe-to-notar blocks. -/
def SlotState.addVote (e : Epoch) (st : SlotState) (v : Vote) : SlotState × List Cert × List Event :=
  let stake := e.stake v.signer
  let (st, certs, evs) :=
    match v.kind with
    | .notar => SlotState.countNotar e { st with vNotar := st.vNotar ++ [(v.signer, v.hash)] } v.hash stake
    | .nf => SlotState.countNf e { st with vNf := st.vNf ++ [(v.signer, v.hash)] } v.hash stake
    | .skip => SlotState.countSkip e { st with vSkip := st.vSkip ++ [v.signer], sNotarOrSkip := st.sNotarOrSkip + stake } stake false
    | .sf => SlotState.countSkip e { st with vSf := st.vSf ++ [v.signer] } stake true
    | .final => SlotState.countFin e { st with vFin := st.vFin ++ [v.signer] } stake
  if v.signer = e.own then
    let (st, ev2) := SlotState.recheckPending e st st.pending []
    (st, certs, evs ++ ev2)
  else (st, certs, evs)

/-- `check_slashable_offence` -/
def SlotState.checkSlashable (st : SlotState) (v : Vote) : Option Offence :=
  let s := v.signer
  match v.kind with
  | .notar =>
    if st.vSkip.contains s then some .skipAndNotarize
    else match st.vNotar.lookup s with
      | some h => if v.hash ≠ h then some .notarDifferentHash else none
      | none => none
  | .nf => if st.vFin.contains s then some .nfAndFinalize else none
  | .skip =>
    if st.vFin.contains s then some .skipAndFinalize
    else if (st.vNotar.lookup s).isSome then some .skipAndNotarize else none
  | .sf => if st.vFin.contains s then some .skipAndFinalize else none
  | .final =>
    if st.vSkip.contains s || st.vSf.contains s then some .skipAndFinalize
    else if st.vNf.any (·.1 == s) then some .nfAndFinalize else none

/-- `should_ignore_vote` (any `Some(_)` is reported as `Duplicate` by the pool). -/
def SlotState.shouldIgnore (st : SlotState) (v : Vote) : Bool :=
  let s := v.signer
  match v.kind with
  | .notar => (st.vNotar.lookup s).isSome || st.vNf.contains (s, v.hash)
  | .nf => st.vNf.contains (s, v.hash) || st.vNotar.lookup s == some v.hash
  | .skip => st.vSkip.contains s || st.vSf.contains s
  | .sf => st.vSf.contains s || st.vSkip.contains s
  | .final => st.vFin.contains s

/-- `SlotState::add_cert` -/
def SlotState.addCert (st : SlotState) (c : Cert) : SlotState :=
  match c.kind with
  | .notar => { st with cNotar := some c }
  | .nf => if st.isNf c.hash then st else { st with cNf := st.cNf ++ [c] }
  | .skip => { st with cSkip := some c }
  | .ff => { st with cFf := some c }
  | .final => { st with cFin := some c }

/-- `notify_parent_certified`; `none` = `panic!("parent not known")`. -/
def SlotState.notifyParentCertified (e : Epoch) (st : SlotState) (h : Nat) : Option (SlotState × List Event) :=
  match st.parents.lookup h with
  | none => none
  | some _ =>
    let st := { st with parents := st.parents.map (fun p => if p.1 == h then (p.1, true) else p) }
    if st.sent.contains h then some (st, [])
    else
      let (st, r) := st.checkS2N e h
      some (st, s2nOut st.slot h r)

def SlotState.notifyParentKnown (st : SlotState) (h : Nat) : SlotState :=
  if (st.parents.lookup h).isSome then st else { st with parents := st.parents ++ [(h, false)] }

/-! ### the pool -/

structure Pool where
  epoch : Epoch
  slots : List SlotState := []                          -- `slot_states` (keyed by slot)
  waiting : List ((Nat × Nat) × List (Nat × Nat)) := [] -- `s2n_waiting_parent_cert`: parent ↦ children
  fin : Finality.Tracker := Finality.init
  pr : ParentReady.Tracker := ParentReady.init
  /-- wake-ups of `wait_for_parent_ready` receivers produced so far (observable through the receivers) -/
  wakes : List ParentReady.Wake := []

def Pool.getSlot (p : Pool) (s : Nat) : Option SlotState := p.slots.find? (·.slot == s)

/-- `slot_state(slot)`: get or create. -/
def Pool.slotState (p : Pool) (s : Nat) : Pool × SlotState :=
  match p.getSlot s with
  | some st => (p, st)
  | none => ({ p with slots := p.slots ++ [{ slot := s }] }, { slot := s })

def Pool.putSlot (p : Pool) (st : SlotState) : Pool :=
  if p.slots.any (·.slot == st.slot) then { p with slots := p.slots.map (fun x => if x.slot == st.slot then st else x) }
  else { p with slots := p.slots ++ [st] }

/-- `PoolImpl::prune`: per-slot states, parent-ready tracker, waiting children below the watermark. -/
def Pool.prune (p : Pool) : Pool :=
  { p with slots := p.slots.filter (·.slot ≥ p.fin.first),
           pr := ParentReady.prune p.pr p.fin.first,
           waiting := (p.waiting.map (fun w => (w.1, w.2.filter (·.1 ≥ p.fin.first)))).filter (fun w => !w.2.isEmpty) }

def Pool.outOfBounds (p : Pool) (slot : Nat) : Bool :=
  slot < p.fin.first || slot ≥ p.fin.highest + 2 * Gen.SLOTS_PER_EPOCH

def prEvents (anns : List (Nat × (Nat × Nat))) : List Event := anns.map (fun a => Event.parentReady a.1 a.2.1 a.2.2)

/-- apply a result of the parent-ready tracker (`none` = its `add_to_ready` assertion failed) -/
def Pool.applyPr (p : Pool) (r : ParentReady.Res) : Pool × List Event :=
  match r with
  | none => (p, [.panic])
  | some (pr, anns, wk) => ({ p with pr := pr, wakes := p.wakes ++ wk }, prEvents anns)

/-- `handle_finalization`: parent-ready tracker, `ParentReady` events, then `prune`. A `.panic`
    tracker result is a "consensus safety violation" assertion. -/
def Pool.handleFin (p : Pool) (r : Finality.Res) : Pool × List Event :=
  match r with
  | .panic => (p, [.panic])
  | .ok t ev =>
    let p := { p with fin := t }
    let (p, evs) := p.applyPr (ParentReady.handleFinalization p.pr ev)
    (p.prune, evs)

/-- notify the children waiting for a certificate of `parent` (`notify_waiting_children`). -/
def Pool.notifyChildren (p : Pool) : List (Nat × Nat) → List Event → Pool × List Event
  | [], acc => (p, acc)
  | (cs, ch) :: rest, acc =>
    if cs < p.fin.first then Pool.notifyChildren p rest acc
    else
    let (p, st) := p.slotState cs
    match st.notifyParentCertified p.epoch ch with
    | none => (p, acc ++ [.panic])
    | some (st, evs) => Pool.notifyChildren (p.putSlot st) rest (acc ++ evs)

/-- `notify_waiting_children` -/
def Pool.notifyWaiting (p : Pool) (b : Nat × Nat) : Pool × List Event :=
  let kids := (p.waiting.lookup b).getD []
  let p := { p with waiting := p.waiting.filter (·.1 ≠ b) }
  p.notifyChildren kids []

/-- `add_valid_cert` -/
def Pool.addValidCert (p : Pool) (c : Cert) : Pool × List Event :=
  let (p, st) := p.slotState c.slot
  let p := p.putSlot (st.addCert c)
  let (p, evs) : Pool × List Event :=
    match c.kind with
    | .notar | .nf =>
      let (p, e1) : Pool × List Event :=
        if c.kind == CertKind.notar then p.handleFin (Finality.markNotarized p.fin (c.slot, c.hash)) else (p, [])
      let (p, e2) := p.notifyWaiting (c.slot, c.hash)
      let (p, e3) := p.applyPr (ParentReady.markNotarFallback p.pr (c.slot, c.hash))
      (p, e1 ++ e2 ++ e3 ++ [Event.repair c.slot c.hash])
    | .skip => p.applyPr (ParentReady.markSkipped p.pr c.slot)
    | .ff =>
      let (p, e1) := p.handleFin (Finality.markFastFinalized p.fin (c.slot, c.hash))
      let (p, e2) := p.notifyWaiting (c.slot, c.hash)
      (p, e1 ++ e2)
    | .final => p.handleFin (Finality.markFinalized p.fin c.slot)
  (p, evs ++ [Event.cert c])

def Pool.addValidCerts (p : Pool) : List Cert → List Event → Pool × List Event
  | [], acc => (p, acc)
  | c :: cs, acc =>
    let (p, evs) := p.addValidCert c
    Pool.addValidCerts p cs (acc ++ evs)

/-- `Pool::add_vote` (the vote is already signature-validated: `signer < n`). -/
def Pool.addVote (p : Pool) (v : Vote) : Pool × Verdict × List Event :=
  if p.outOfBounds v.slot then (p, .oob, [])
  else if v.signer ≥ p.epoch.n then (p, .panic, [.panic])
  else
    let (p, st) := p.slotState v.slot
    match st.checkSlashable v with
    | some o => (p, .slash o, [])
    | none =>
      if st.shouldIgnore v then (p, .dup, [])
      else
        let (st, certs, evs) := st.addVote p.epoch v
        let p := p.putSlot st
        let (p, evs2) := p.addValidCerts certs []
        (p, .ok, evs2 ++ evs)

/-- `Pool::add_cert` (the certificate is already validated). -/
def Pool.addCert (p : Pool) (c : Cert) : Pool × Verdict × List Event :=
  if p.outOfBounds c.slot then (p, .oob, [])
  else
    let (p, st) := p.slotState c.slot
    let dup := match c.kind with
      | .notar => st.cNotar.isSome
      | .nf => st.isNf c.hash
      | .skip => st.cSkip.isSome
      | .ff => st.cFf.isSome
      | .final => st.cFin.isSome
    if dup then (p, .dup, [])
    else
      let (p, evs) := p.addValidCert c
      (p, .ok, evs)

def Pool.addWaiting (p : Pool) (par b : Nat × Nat) : Pool :=
  if p.waiting.any (·.1 == par) then
    { p with waiting := p.waiting.map (fun w => if w.1 == par then (w.1, w.2 ++ [b]) else w) }
  else { p with waiting := p.waiting ++ [(par, [b])] }

/-- second half of `add_block`: notify the block's slot if the parent is already certified, else wait -/
def Pool.addBlockTail (p : Pool) (b par : Nat × Nat) (e0 : List Event) (certified : Bool) : Pool × List Event :=
  if certified then
    match (p.slotState b.1).2.notifyParentCertified (p.slotState b.1).1.epoch b.2 with
    | none => ((p.slotState b.1).1, e0 ++ [.panic])
    | some (st, evs) =>
      if evs.isEmpty then (Pool.addWaiting ((p.slotState b.1).1.putSlot st) par b, e0)
      else ((p.slotState b.1).1.putSlot st, e0 ++ evs)
  else (Pool.addWaiting p par b, e0)

/-- `Pool::add_block` -/
def Pool.addBlock (p : Pool) (b par : Nat × Nat) : Pool × List Event :=
  if ¬ (b.1 > par.1) then (p, [.panic])
  else
    match Finality.addParent p.fin b par with
    | .panic => (p, [.panic])
    | .ok t ev =>
      -- parent-ready tracker, events, `prune()` (the new link may have finalized ancestors)
      let p := { p with fin := t }
      let (p, e0) := p.applyPr (ParentReady.handleFinalization p.pr ev)
      let p := p.prune
      -- blocks of already decided (pruned) slots need no further tracking
      if b.1 < p.fin.first then (p, e0)
      else
      let (p, st) := p.slotState b.1
      let p := p.putSlot (st.notifyParentKnown b.2)
      let certified := match p.getSlot par.1 with
        | some ps => ps.isNfOrStronger par.2
        | none => false
      Pool.addBlockTail p b par e0 certified

/-! ### standstill recovery -/

def SlotState.certs (st : SlotState) : List Cert :=
  st.cFin.toList ++ st.cFf.toList ++ st.cNotar.toList ++ st.cNf ++ st.cSkip.toList

def Pool.getFinalCerts (p : Pool) (slot : Nat) : List Cert :=
  match p.getSlot slot with
  | none => []
  | some st =>
    match st.cFf with
    | some ff => [ff]
    | none =>
      match st.cFin, st.cNotar with
      | some f, some n => [f, n]
      | _, _ => []

def insertSorted (st : SlotState) : List SlotState → List SlotState
  | [] => [st]
  | x :: xs => if st.slot ≤ x.slot then st :: x :: xs else x :: insertSorted st xs

def sortSlots (l : List SlotState) : List SlotState := l.foldr insertSorted []

def SlotState.ownVotes (e : Epoch) (st : SlotState) : List Vote :=
  (if st.vFin.contains e.own then [{ kind := .final, slot := st.slot, hash := 0, signer := e.own : Vote }] else []) ++
  (match st.vNotar.lookup e.own with | some h => [{ kind := .notar, slot := st.slot, hash := h, signer := e.own : Vote }] | none => []) ++
  ((st.vNf.filter (·.1 == e.own)).map (fun x => { kind := .nf, slot := st.slot, hash := x.2, signer := e.own : Vote })) ++
  (if st.vSkip.contains e.own then [{ kind := .skip, slot := st.slot, hash := 0, signer := e.own : Vote }] else []) ++
  (if st.vSf.contains e.own then [{ kind := .sf, slot := st.slot, hash := 0, signer := e.own : Vote }] else [])

/-- `recover_from_standstill` (repaired: no panic when nothing beyond genesis is finalized). -/
def Pool.recover (p : Pool) : List Event :=
  let slot := p.fin.highest
  let later := sortSlots (p.slots.filter (·.slot > slot))
  let certs := p.getFinalCerts slot ++ later.flatMap SlotState.certs
  let votes := later.flatMap (SlotState.ownVotes p.epoch)
  [.standstill (slot + 1) certs votes]

end AgModel.Pool
