import AgModel.Gen.Consts
/-!
# Model of `src/consensus/votor.rs` (C05)

One `step` per event delivered to `Votor` (`handle_pool_event`, `handle_blockstore_event`,
`handle_timeout_event`), in the order of side effects of the Rust code. Block hashes are interned
natural numbers (`0` = `GENESIS_BLOCK_HASH`). The state carries a *ghost log* (`log`, newest first)
of every event received and every message handed to `All2All::broadcast` / every timer request, so
that the voting rules can be stated over the whole history.

`assert!`s are explicit: `set_timeouts` (`slot.is_start_of_window()`) and the three
`slot >= first_unpruned_slot()` asserts of `try_notar` / `try_final` / `try_skip_window` set
`panicked`. A panicked Votor ignores everything (the harness stops the case there). The model does
not unwind out of the middle of a handler: the only assert that can fire (`set_timeouts`, last
statement of the `ParentReady` arm) needs no unwinding, the other three are proved unreachable
(`Props/C05.lean`, `votor_asserts_unreachable`).
-/
namespace AgModel.Votor

/-- `SLOTS_PER_WINDOW` of the source -/
def W : Nat := AgModel.Gen.SLOTS_PER_WINDOW

structure BlockInfo where
  hash : Nat
  pslot : Nat
  phash : Nat
deriving DecidableEq, Repr

/-- `SlotState` of votor.rs -/
structure SlotState where
  voted : Bool := false
  votedNotar : Option Nat := none
  badWindow : Bool := false
  blockNotarized : Option Nat := none
  parentsReady : List (Nat × Nat) := []
  receivedShred : Bool := false
  pendingBlock : Option BlockInfo := none
  retired : Bool := false
deriving DecidableEq, Repr

inductive CertKind | notar | notarFallback | skip | fastFinal | final
deriving DecidableEq, Repr

/-- everything that can be delivered to Votor -/
inductive Event
  | parentReady (slot pslot phash : Nat)
  | safeToNotar (slot hash : Nat)
  | safeToSkip (slot : Nat)
  | cert (kind : CertKind) (slot hash : Nat)
  /-- `relay`: opaque ids of the certificates, then votes, to re-broadcast -/
  | standstill (slot : Nat) (relay : List Nat)
  | firstShred (slot : Nat)
  | invalidBlock (slot : Nat)
  | block (slot : Nat) (b : BlockInfo)
  | timeout (slot : Nat)
  | timeoutCrashed (slot : Nat)
deriving DecidableEq, Repr

/-- everything Votor hands to `All2All::broadcast`, and timer requests.
    `notar` carries the parent of the block voted for (ghost: not part of the vote). -/
inductive Out
  | notar (slot hash pslot phash : Nat)
  | skip (slot : Nat)
  | final (slot : Nat)
  | notarFallback (slot hash : Nat)
  | skipFallback (slot : Nat)
  | cert (kind : CertKind) (slot hash : Nat)
  | relay (id : Nat)
  | timer (slot : Nat)
deriving DecidableEq, Repr

inductive Item
  | ev (e : Event)
  | out (o : Out)
deriving DecidableEq, Repr

abbrev Slots := List (Nat × SlotState)

def lookup : Slots → Nat → Option SlotState
  | [], _ => none
  | (k, v) :: t, s => if k = s then some v else lookup t s

/-- `BTreeMap::insert`, keeping the list in key order -/
def insertS : Slots → Nat → SlotState → Slots
  | [], s, v => [(s, v)]
  | (k, w) :: t, s, v =>
    if k = s then (s, v) :: t else if s < k then (s, v) :: (k, w) :: t else (k, w) :: insertS t s v

structure V where
  slots : Slots
  hfcs : Nat
  log : List Item
  panicked : Bool
deriving DecidableEq, Repr

def genesisState : SlotState :=
  { voted := true, votedNotar := some 0, blockNotarized := some 0, parentsReady := [(0, 0)], retired := true }

/-- `Votor::new` (which also calls `set_timeouts(0)`) -/
def init : V := { slots := [(0, genesisState)], hfcs := 0, log := [.out (.timer 0)], panicked := false }

/-- the slot's state, or the default state when there is none (`is_some_and` / `and_then` reads) -/
def V.getS (v : V) (s : Nat) : SlotState := (lookup v.slots s).getD {}

/-- `state_mut(slot)` followed by a field update -/
def V.upd (v : V) (s : Nat) (f : SlotState → SlotState) : V :=
  { v with slots := insertS v.slots s (f (v.getS s)) }

def V.emit (v : V) (o : Out) : V := { v with log := .out o :: v.log }

def V.panic (v : V) : V := { v with panicked := true }

def firstInWindow (s : Nat) : Nat := s / W * W

def V.firstUnpruned (v : V) : Nat := firstInWindow v.hfcs

def windowSlots (s : Nat) : List Nat := List.range' (firstInWindow s) W

/-- `set_timeouts` -/
def V.setTimeouts (v : V) (s : Nat) : V :=
  if s % W = 0 then v.emit (.timer s) else v.panic

/-- `try_final` -/
def V.tryFinal (v : V) (slot hash : Nat) : V :=
  if slot < v.firstUnpruned then v.panic else
  let st := v.getS slot
  if st.blockNotarized = some hash ∧ st.votedNotar = some hash ∧ st.badWindow = false then
    (v.emit (.final slot)).upd slot (fun s => { s with retired := true })
  else v

/-- the parent test of `try_notar` -/
def V.parentOk (v : V) (slot : Nat) (b : BlockInfo) : Bool :=
  if slot % W = 0 then (v.getS slot).parentsReady.contains (b.pslot, b.phash)
  else b.pslot + 1 = slot && (v.getS b.pslot).votedNotar = some b.phash

/-- `try_notar` -/
def V.tryNotar (v : V) (slot : Nat) (b : BlockInfo) : V × Bool :=
  if slot < v.firstUnpruned then (v.panic, false) else
  if (v.getS slot).voted then (v, false) else
  if v.parentOk slot b then
    let v1 := (v.emit (.notar slot b.hash b.pslot b.phash)).upd slot
      (fun s => { s with voted := true, votedNotar := some b.hash, pendingBlock := none })
    (v1.tryFinal slot b.hash, true)
  else (v, false)

def V.skipSlots (v : V) : List Nat → V
  | [] => v
  | s :: rest =>
    if (v.getS s).voted then v.skipSlots rest
    else ((v.upd s (fun st => { st with voted := true, badWindow := true })).emit (.skip s)).skipSlots rest

/-- `try_skip_window` -/
def V.trySkipWindow (v : V) (slot : Nat) : V :=
  if slot < v.firstUnpruned then v.panic else v.skipSlots (windowSlots slot)

def V.pendingSlots (v : V) : List Nat :=
  (v.slots.filter (fun p => p.2.pendingBlock.isSome)).map (·.1)

def V.checkPendingLoop (v : V) : List Nat → V
  | [] => v
  | s :: rest =>
    match (v.getS s).pendingBlock with
    | some b => (v.tryNotar s b).1.checkPendingLoop rest
    | none => v.checkPendingLoop rest

/-- `check_pending_blocks` -/
def V.checkPending (v : V) : V := v.checkPendingLoop v.pendingSlots

def V.emitAll (v : V) : List Out → V
  | [] => v
  | o :: os => (v.emit o).emitAll os

/-- `prune` -/
def V.prune (v : V) : V := { v with slots := v.slots.filter (fun p => decide (v.firstUnpruned ≤ p.1)) }

def Event.slot : Event → Nat
  | .parentReady s _ _ | .safeToNotar s _ | .safeToSkip s | .cert _ s _ | .standstill s _
  | .firstShred s | .invalidBlock s | .block s _ | .timeout s | .timeoutCrashed s => s

/-- `should_ignore_pool_event`, and the `slot <= highest_final_cert_slot || is_retired` filter of the
    blockstore / timeout handlers -/
def V.ignores (v : V) : Event → Bool
  | .standstill _ _ => false
  | .cert _ s _ => decide (s < v.firstUnpruned)
  | .parentReady s _ _ | .safeToNotar s _ | .safeToSkip s =>
    decide (s < v.firstUnpruned) || (v.getS s).retired
  | .firstShred s | .invalidBlock s | .block s _ | .timeout s | .timeoutCrashed s =>
    decide (s ≤ v.hfcs) || (v.getS s).retired

def insertParent (l : List (Nat × Nat)) (p : Nat × Nat) : List (Nat × Nat) :=
  if l.contains p then l else p :: l

/-- the handler bodies (event not ignored) -/
def V.handle (v : V) : Event → V
  | .parentReady slot ps ph =>
    let v := v.upd slot (fun s => { s with parentsReady := insertParent s.parentsReady (ps, ph) })
    let v := v.checkPending
    v.setTimeouts slot
  | .safeToNotar slot hash =>
    let v := v.emit (.notarFallback slot hash)
    let v := v.trySkipWindow slot
    v.upd slot (fun s => { s with badWindow := true })
  | .safeToSkip slot =>
    let v := v.emit (.skipFallback slot)
    let v := v.trySkipWindow slot
    v.upd slot (fun s => { s with badWindow := true })
  | .cert .notar slot hash =>
    let v := v.upd slot (fun s => { s with blockNotarized := some hash })
    let v := v.tryFinal slot hash
    v.emit (.cert .notar slot hash)
  | .cert .final slot hash =>
    let v := v.setTimeouts (firstInWindow slot)
    let v := { v with hfcs := max v.hfcs slot }
    let v := v.prune
    v.emit (.cert .final slot hash)
  | .cert .fastFinal slot hash =>
    let v := v.setTimeouts (firstInWindow slot)
    let v := { v with hfcs := max v.hfcs slot }
    let v := v.prune
    v.emit (.cert .fastFinal slot hash)
  | .cert k slot hash => v.emit (.cert k slot hash)
  | .standstill _ relay => v.emitAll (relay.map .relay)
  | .firstShred slot => v.upd slot (fun s => { s with receivedShred := true })
  | .invalidBlock slot => v.trySkipWindow slot
  | .block slot b =>
    if (v.getS slot).voted then v else
    let r := v.tryNotar slot b
    if r.2 then r.1.checkPending else r.1.upd slot (fun s => { s with pendingBlock := some b })
  | .timeout slot => if (v.getS slot).voted then v else v.trySkipWindow slot
  | .timeoutCrashed slot =>
    if (v.getS slot).receivedShred || (v.getS slot).voted then v else v.trySkipWindow slot

def V.logEv (v : V) (e : Event) : V := { v with log := .ev e :: v.log }

/-- one event delivered to Votor -/
def step (v : V) (e : Event) : V :=
  if v.panicked then v else
  let v := v.logEv e
  if v.ignores e then v else v.handle e

def run (v : V) : List Event → V
  | [] => v
  | e :: es => run (step v e) es

end AgModel.Votor
