import AgModel.Model.Trie
import AgModel.Model.OrdMap
import AgModel.Model.LtHash
/-
Operation sequences on the account state, on forks of it, and on the ordered-map specification
(import-free, executable). Used to state C20 over *all* sequences.
-/
namespace AgModel.Trie

/-- a write -/
inductive Op where
  | ins (k : Key) (v : Nat)
  | rem (k : Key)
deriving DecidableEq, Repr

def Op.key : Op → Key
  | .ins k _ => k
  | .rem k => k

/-- the value stored under the key after the write -/
def Op.newVal : Op → Option Nat
  | .ins _ v => some v
  | .rem _ => none

def State.apply (s : State) : Op → Res
  | .ins k v => s.insert k v
  | .rem k => s.remove k

/-- runs the writes in order, collecting the returned previous values; `none` = the Rust code panicked -/
def State.run (s : State) : List Op → Option (State × List (Option Nat))
  | [] => some (s, [])
  | op :: ops =>
    match s.apply op with
    | .panic => none
    | .ok s' old => (State.run s' ops).map (fun r => (r.1, old :: r.2))

/-- writes with the lattice-hash commitment maintained by `observe` (as in the module example of
    commitment.rs: `let old = state.insert(k, v); commitment.observe(&k, old, Some(&v))`) -/
def State.runCommit (h : Key → Nat → LtHash.Lanes) (s : State) (acc : LtHash.Lanes) :
    List Op → Option (State × LtHash.Lanes)
  | [] => some (s, acc)
  | op :: ops =>
    match s.apply op with
    | .panic => none
    | .ok s' old =>
      State.runCommit h s' (LtHash.observe acc (old.map (h op.key)) (op.newVal.map (h op.key))) ops

/-- operations on a family of forks: `fork i` appends a clone of fork `i`, `write i op` writes to fork `i` -/
inductive FOp where
  | fork (i : Nat)
  | write (i : Nat) (op : Op)
deriving DecidableEq, Repr

def FOp.keyValid (p : Key → Prop) : FOp → Prop
  | .fork _ => True
  | .write _ op => p op.key

/-- `none` = index out of range or panic -/
def forksStep (fs : List State) : FOp → Option (List State)
  | .fork i =>
    match fs[i]? with
    | none => none
    | some s => some (fs ++ [s])
  | .write i op =>
    match fs[i]? with
    | none => none
    | some s =>
      match s.apply op with
      | .panic => none
      | .ok s' _ => some (fs.set i s')

def forksRun (fs : List State) : List FOp → Option (List State)
  | [] => some fs
  | op :: ops =>
    match forksStep fs op with
    | none => none
    | some fs' => forksRun fs' ops

end AgModel.Trie

namespace AgModel.OrdMap
open AgModel.Trie

def apply (lt : Key → Key → Bool) (m : Map) : Op → Map × Option Nat
  | .ins k v => (put lt m k v, find m k)
  | .rem k => (del m k, find m k)

def run (lt : Key → Key → Bool) (m : Map) : List Op → Map × List (Option Nat)
  | [] => (m, [])
  | op :: ops =>
    let r := apply lt m op
    let q := run lt r.1 ops
    (q.1, r.2 :: q.2)

/-- the same fork operations on plain ordered maps (values: isolation holds by construction) -/
def forksStep (lt : Key → Key → Bool) (ms : List Map) : FOp → Option (List Map)
  | .fork i =>
    match ms[i]? with
    | none => none
    | some m => some (ms ++ [m])
  | .write i op =>
    match ms[i]? with
    | none => none
    | some m => some (ms.set i (apply lt m op).1)

def forksRun (lt : Key → Key → Bool) (ms : List Map) : List FOp → Option (List Map)
  | [] => some ms
  | op :: ops =>
    match forksStep lt ms op with
    | none => none
    | some ms' => forksRun lt ms' ops

end AgModel.OrdMap
