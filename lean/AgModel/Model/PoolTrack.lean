import AgModel.Gen.Consts
import AgModel.Model.Finality
import AgModel.Model.ParentReady
/-
Model of the parts of `src/consensus/pool.rs` that connect the two trackers: `add_cert` (bounds check against the
pruning watermark and the far-future bound, per-slot duplicate check, `add_valid_cert`), `add_block`,
`handle_finalization`, `prune` (import-free, executable).

Scope ("certificate-only regime"): certificates arrive already validated (`ValidatedCert`), no votes are added,
so `SlotState::notify_parent_certified` never emits safe-to-notar / repair (`AwaitingVotes`) and the only
`PoolEvent`s are `ParentReady` (modelled) and `CertCreated` (one per accepted certificate, not modelled).
Per-slot state is reduced to which certificates are held and for which blocks the parent is known; the vote side of
`slot_state.rs` is modelled elsewhere (C03/C04/C06).

The model follows the code after the `fix:` commits for D12 (`add_block` prunes and does not re-create state of
pruned slots) and for the `s2n_waiting_parent_cert` leak (entries of pruned children are dropped in `prune`).
`pruneOld` / `addBlockOld` keep the behaviour of the pinned snapshot for the witness theorems.
-/
namespace AgModel.PoolTrack
open AgModel

inductive CertKind where
  | notar | notarFallback | skip | fastFinal | final
deriving DecidableEq, Repr

structure SlotCerts where
  notar : Option Nat := none
  nfs : List Nat := []
  skip : Bool := false
  ff : Option Nat := none
  fin : Bool := false
  /-- blocks of this slot whose parent is known (`SlotState::parents` keys) -/
  known : List Nat := []
deriving DecidableEq, Repr, Inhabited

structure Pool where
  slots : Nat → Option SlotCerts
  fin : Finality.Tracker
  pr : ParentReady.Tracker
  /-- `s2n_waiting_parent_cert`: (parent, child) pairs; a parent may have several waiting children -/
  s2n : List ((Nat × Nat) × (Nat × Nat))

def init : Pool where
  slots := fun _ => none
  fin := Finality.init
  pr := ParentReady.init
  s2n := []

def getSlot (p : Pool) (s : Nat) : SlotCerts := (p.slots s).getD {}

def putSlot (p : Pool) (s : Nat) (v : SlotCerts) : Pool :=
  { p with slots := fun x => if x = s then some v else p.slots x }

/-- `PoolImpl::prune` (after the s2n repair). -/
def prune (p : Pool) : Pool :=
  let f := p.fin.first
  { p with
    slots := fun s => if s < f then none else p.slots s
    pr := ParentReady.prune p.pr f
    s2n := p.s2n.filter (fun e => f ≤ e.2.1) }

/-- `PoolImpl::prune` of the pinned snapshot: `s2n_waiting_parent_cert` is never pruned. -/
def pruneOld (p : Pool) : Pool :=
  let f := p.fin.first
  { p with
    slots := fun s => if s < f then none else p.slots s
    pr := ParentReady.prune p.pr f }

abbrev Ann := Nat × (Nat × Nat)

inductive Out where
  | ok (p : Pool) (announced : List Ann) (wakes : List ParentReady.Wake)
  | oob
  | dup (p : Pool)
  | panic

/-- `handle_finalization`: parent-ready tracker first, then `prune`. -/
def handleFinalization (p : Pool) (ev : Finality.Event) : Option (Pool × List Ann × List ParentReady.Wake) :=
  match ParentReady.handleFinalization p.pr ev with
  | none => none
  | some (pr1, ann, wk) => some (prune { p with pr := pr1 }, ann, wk)

def s2nRemove (l : List ((Nat × Nat) × (Nat × Nat))) (k : Nat × Nat) : List ((Nat × Nat) × (Nat × Nat)) :=
  l.filter (fun e => e.1 ≠ k)

def s2nGet (l : List ((Nat × Nat) × (Nat × Nat))) (k : Nat × Nat) : Option (Nat × Nat) :=
  (l.find? (fun e => e.1 = k)).map (·.2)

/-- all children waiting for parent `k` (the map's `Vec` value, in insertion order) -/
def s2nAll (l : List ((Nat × Nat) × (Nat × Nat))) (k : Nat × Nat) : List (Nat × Nat) :=
  (l.filter (fun e => e.1 = k)).map (·.2)

/-- the far-future bound of `add_cert` / `add_vote` -/
def farFuture (p : Pool) : Nat := p.fin.highest + 2 * Gen.SLOTS_PER_EPOCH

/-- `SlotOutOfBounds` -/
def outOfBounds (p : Pool) (slot : Nat) : Bool := slot < p.fin.first || slot ≥ farFuture p

def isDuplicate (c : SlotCerts) (k : CertKind) (h : Nat) : Bool :=
  match k with
  | .notar => c.notar.isSome
  | .notarFallback => c.nfs.contains h
  | .skip => c.skip
  | .fastFinal => c.ff.isSome
  | .final => c.fin

def storeCert (c : SlotCerts) (k : CertKind) (h : Nat) : SlotCerts :=
  match k with
  | .notar => { c with notar := some h }
  | .notarFallback => if c.nfs.contains h then c else { c with nfs := c.nfs ++ [h] }
  | .skip => { c with skip := true }
  | .fastFinal => { c with ff := some h }
  | .final => { c with fin := true }

/-- `notify_waiting_children`: children below the watermark are skipped; `notify_parent_certified` panics with
    "parent not known" when the child's parent was never registered (cannot happen: `add_block` registers it) -/
def notifyKids (p : Pool) : List (Nat × Nat) → Option Pool
  | [] => some p
  | child :: rest =>
    if child.1 < p.fin.first then notifyKids p rest
    else
      let cs := getSlot p child.1
      if cs.known.contains child.2 then notifyKids (putSlot p child.1 cs) rest else none

/-- the finality half of `add_valid_cert` -/
def finalityOf (p : Pool) (k : CertKind) (slot h : Nat) : Option Finality.Res :=
  match k with
  | .notar => some (Finality.markNotarized p.fin (slot, h))
  | .fastFinal => some (Finality.markFastFinalized p.fin (slot, h))
  | .final => some (Finality.markFinalized p.fin slot)
  | _ => none

/-- `add_cert` (+ `add_valid_cert`). -/
def addCert (p : Pool) (k : CertKind) (slot h : Nat) : Out :=
  if outOfBounds p slot then .oob
  else
    -- `self.slot_state(slot)` creates the entry before the duplicate check
    let p0 := putSlot p slot (getSlot p slot)
    if isDuplicate (getSlot p0 slot) k h then .dup p0
    else
      let p1 := putSlot p0 slot (storeCert (getSlot p0 slot) k h)
      -- finality tracker + handle_finalization (+ prune)
      let r1 : Option (Pool × List Ann × List ParentReady.Wake) :=
        match finalityOf p1 k slot h with
        | none => some (p1, [], [])
        | some .panic => none
        | some (.ok f1 ev) => handleFinalization { p1 with fin := f1 } ev
      match r1 with
      | none => .panic
      | some (p2, a1, w1) =>
        -- `notify_waiting_children` (notar / notar-fallback / fast-final certificates)
        let notify (p2 : Pool) : Option Pool :=
          let kids := s2nAll p2.s2n (slot, h)
          let p3 := { p2 with s2n := s2nRemove p2.s2n (slot, h) }
          notifyKids p3 kids
        match k with
        | .notar | .notarFallback =>
          match notify p2 with
          | none => .panic
          | some p3 =>
            match ParentReady.markNotarFallback p3.pr (slot, h) with
            | none => .panic
            | some (pr1, a2, w2) => .ok { p3 with pr := pr1 } (a1 ++ a2) (w1 ++ w2)
        | .skip =>
          match ParentReady.markSkipped p2.pr slot with
          | none => .panic
          | some (pr1, a2, w2) => .ok { p2 with pr := pr1 } (a1 ++ a2) (w1 ++ w2)
        | .fastFinal =>
          match notify p2 with
          | none => .panic
          | some p3 => .ok p3 a1 w1
        | _ => .ok p2 a1 w1

/-- `add_block` (after the D12 repair). -/
def addBlock (p : Pool) (blk par : Nat × Nat) : Out :=
  if ¬ par.1 < blk.1 then .panic
  else
    match Finality.addParent p.fin blk par with
    | .panic => .panic
    | .ok f1 ev =>
      match handleFinalization { p with fin := f1 } ev with
      | none => .panic
      | some (p1, ann, wk) =>
        if blk.1 < p1.fin.first then .ok p1 ann wk
        else
          let cs := getSlot p1 blk.1
          let cs1 := if cs.known.contains blk.2 then cs else { cs with known := cs.known ++ [blk.2] }
          let p2 := putSlot p1 blk.1 cs1
          -- certificate-only regime: `notify_parent_certified` returns `None`, so the entry is always inserted
          .ok { p2 with s2n := p2.s2n ++ [(par, blk)] } ann wk

/-- `add_block` of the pinned snapshot: no `prune()`, state of pruned slots is re-created. -/
def addBlockOld (p : Pool) (blk par : Nat × Nat) : Out :=
  if ¬ par.1 < blk.1 then .panic
  else
    match Finality.addParent p.fin blk par with
    | .panic => .panic
    | .ok f1 ev =>
      match ParentReady.handleFinalization p.pr ev with
      | none => .panic
      | some (pr1, ann, wk) =>
        let p1 := { p with fin := f1, pr := pr1 }
        let cs := getSlot p1 blk.1
        let cs1 := if cs.known.contains blk.2 then cs else { cs with known := cs.known ++ [blk.2] }
        let p2 := putSlot p1 blk.1 cs1
        .ok { p2 with s2n := s2nRemove p2.s2n par ++ [(par, blk)] } ann wk

inductive Op where
  | cert (k : CertKind) (slot h : Nat)
  | block (blk par : Nat × Nat)
deriving DecidableEq, Repr

def step (p : Pool) : Op → Out
  | .cert k s h => addCert p k s h
  | .block b q => addBlock p b q

end AgModel.PoolTrack
