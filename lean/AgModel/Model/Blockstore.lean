import AgModel.Gen.Consts
import AgModel.Model.Merkle
/-
Model of `src/consensus/blockstore.rs` and `src/consensus/blockstore/slot_block_data.rs`
(import-free, executable), for ONE slot (`SlotBlockData` + the event logic of `BlockstoreImpl`).

Abstractions (DESIGN.md §4 / §6 C13):
* a slice root is a data id `Nat ≥ 1` (leaf of the double-Merkle tree; id 0 is the empty leaf);
  block hashes are terms `Merkle.H` (root of `Tree.new roots`);
* what a signed slice root *decodes to* (Reed–Solomon + padding + Merkle re-check + payload
  decoding, all of `Shredder::deshred`, and the later wincode decoding of the transactions) is an
  environment `env : Nat → Content` supplied from outside (by the harness: what the leader encoded);
* a shred carries, besides its commitment `(slice, isLast, root)` and index, the two attributes the
  layout check of `ValidatedShreds::try_new` looks at: a payload size class `sz` (0 = empty or odd
  size) and whether its data/coding tag matches its index (`ty`);
* parent block ids are `(slot, hash id)` with opaque hash ids; transactions are ids.
BTreeMaps keyed by `SliceIndex` are functions `Nat → Option _` together with the type bound
`cap = MAX_SLICES_PER_BLOCK` (`len`, `is_empty`, iteration = bounded scans over `range cap`).
-/
namespace AgModel.Blockstore
open AgModel.Merkle

def TOTAL_SHREDS : Nat := AgModel.Gen.TOTAL_SHREDS
def DATA_SHREDS : Nat := AgModel.Gen.DATA_SHREDS
def MAX_SLICES : Nat := AgModel.Gen.MAX_SLICES_PER_BLOCK

/-- `SliceCommitment` without the slot (fixed per `SlotBlockData`). -/
structure Commitment where
  slice : Nat
  isLast : Bool
  root : Nat
deriving DecidableEq, Repr

structure Shred where
  slice : Nat
  isLast : Bool
  root : Nat
  idx : Nat
  /-- payload size class; `0` = empty or odd length (rejected by the layout check) -/
  sz : Nat
  /-- data/coding tag matches the index -/
  ty : Bool
deriving DecidableEq, Repr

def Shred.commitment (s : Shred) : Commitment := ⟨s.slice, s.isLast, s.root⟩

/-- What the 64 leaves committed to by a slice root decode to. -/
inductive Content where
  /-- a Reed–Solomon codeword whose payload decodes to `SlicePayload {parent, data}`;
      `txs = none`: `data` is not a wincode `Vec<Transaction>` -/
  | ok (parent : Option (Nat × Nat)) (txs : Option (List Nat))
  /-- not a codeword / bad padding / payload not a `SlicePayload` / too large -/
  | bad
deriving DecidableEq, Repr

/-- `ReconstructedSlice` -/
structure RSlice where
  slice : Nat
  isLast : Bool
  root : Nat
  parent : Option (Nat × Nat)
  txs : Option (List Nat)
deriving DecidableEq, Repr

structure Block where
  hash : H
  parent : Nat × Nat
  txs : List Nat
deriving DecidableEq, Repr

structure BlockInfo where
  hash : H
  parent : Nat × Nat
deriving DecidableEq, Repr

def Block.info (b : Block) : BlockInfo := ⟨b.hash, b.parent⟩

inductive Event where
  | firstShred
  | block (info : BlockInfo)
  | invalidBlock
deriving DecidableEq, Repr

inductive AddErr where
  | duplicate | equivocation | invalidShred
  /-- `WrongType` (D15 `fix:`): the data/coding type does not fit the index; ignored like a duplicate -/
  | wrongType
deriving DecidableEq, Repr

/-- outcome of `add_shred*`: `Ok(None)`, `Ok(Some(event))`, `Err(_)`, or a Rust panic -/
inductive AddRes where
  | none
  | ev (e : Event)
  | err (e : AddErr)
  | panic
deriving DecidableEq, Repr

abbrev ShredArr := Nat → Option Shred

structure BlockData where
  cap : Nat
  slot : Nat
  completed : Option Block
  shreds : Nat → Option ShredArr
  slices : Nat → Option RSlice
  lastSlice : Option Nat
  /-- leaves of `double_merkle_tree` (the tree is `Tree.new` of them) -/
  tree : Option (List Nat)
  cache : Nat → Option Commitment

def BlockData.new (cap slot : Nat) : BlockData :=
  { cap, slot, completed := none, shreds := fun _ => none, slices := fun _ => none,
    lastSlice := none, tree := none, cache := fun _ => none }

def upd {α : Type} (f : Nat → Option α) (k : Nat) (v : Option α) : Nat → Option α :=
  fun i => if i = k then v else f i

/-- number of entries of a map with keys `< cap` -/
def mapLen {α : Type} (cap : Nat) (f : Nat → Option α) : Nat :=
  (List.range cap).countP (fun i => (f i).isSome)

def mapEmpty {α : Type} (cap : Nat) (f : Nat → Option α) : Bool :=
  (List.range cap).all (fun i => (f i).isNone)

/-- values in key order -/
def mapVals {α : Type} (cap : Nat) (f : Nat → Option α) : List α :=
  (List.range cap).filterMap f

/-- `retain(|&ind, _| ind <= k)` -/
def retainLe {α : Type} (f : Nat → Option α) (k : Nat) : Nat → Option α :=
  fun i => if i ≤ k then f i else none

/-- a key `> k` exists -/
def hasKeyAbove {α : Type} (cap : Nat) (f : Nat → Option α) (k : Nat) : Bool :=
  (List.range cap).any (fun i => decide (k < i) && (f i).isSome)

/-! ### `Shredder::deshred` (abstract) -/

def present (arr : ShredArr) : List Shred := (List.range TOTAL_SHREDS).filterMap arr

inductive Deshred where
  | notEnough
  | error
  | ok (r : RSlice) (arr : ShredArr)

/-- `ValidatedShreds::try_new`: `true` = layout accepted. -/
def layoutOk (ps : List Shred) : Bool :=
  match ps with
  | [] => false
  | f :: _ => decide (f.sz ≠ 0) && ps.all (fun s => decide (s.sz = f.sz)) && ps.all (fun s => s.ty)

/-- missing shreds are rebuilt from the header / signature of the first present shred -/
def refill (f : Shred) (arr : ShredArr) : ShredArr :=
  fun j => if j < TOTAL_SHREDS then (match arr j with | some s => some s | none => some { f with idx := j, ty := true }) else arr j

def deshred (env : Nat → Content) (arr : ShredArr) : Deshred :=
  match present arr with
  | [] => .notEnough
  | f :: rest =>
    if !layoutOk (f :: rest) then .error
    else if (f :: rest).length < DATA_SHREDS then .notEnough
    else match env f.root with
      | .bad => .error
      | .ok parent txs => .ok ⟨f.slice, f.isLast, f.root, parent, txs⟩ (refill f arr)

/-! ### `BlockData` -/

inductive RecSlice where
  | noAction | error | complete | panic
deriving DecidableEq, Repr

def tryReconstructSlice (env : Nat → Content) (b : BlockData) (index : Nat) : BlockData × RecSlice :=
  if b.completed.isSome then (b, .noAction)
  else if (b.slices index).isSome then (b, .noAction)
  else match b.shreds index with
    | none => (b, .panic)   -- `.expect("caller must insert at least one shred …")`
    | some arr =>
      match deshred env arr with
      | .notEnough => (b, .noAction)
      | .error => (b, .error)
      | .ok r arr' =>
        -- the array was refilled in place before the parent check
        let b := { b with shreds := upd b.shreds index (some arr') }
        if r.parent.isNone && r.slice == 0 then (b, .error)
        else ({ b with slices := upd b.slices index (some r) }, .complete)

inductive RecBlock where
  | noAction | error | complete (info : BlockInfo) | panic
deriving DecidableEq, Repr

/-- the `for (ind, slice) in &self.slices` loop: `none` = `ReconstructBlockResult::Error` -/
def foldSlices : List RSlice → (Nat × Nat) → Bool → List Nat → Option ((Nat × Nat) × List Nat)
  | [], parent, _, txs => some (parent, txs)
  | s :: rest, parent, switched, txs =>
    let handover : Option ((Nat × Nat) × Bool) :=
      if s.slice ≠ 0 then
        match s.parent with
        | some np => if np = parent then none else if switched then none else some (np, true)
        | none => some (parent, switched)
      else some (parent, switched)
    match handover with
    | none => none
    | some (parent', switched') =>
      match s.txs with
      | none => none
      | some t => foldSlices rest parent' switched' (txs ++ t)

def tryReconstructBlock (b : BlockData) : BlockData × RecBlock :=
  if b.completed.isSome then (b, .noAction)
  else match b.lastSlice with
    | none => (b, .noAction)
    | some last =>
      if mapLen b.cap b.slices ≠ last + 1 then (b, .noAction)
      else
        let vals := mapVals b.cap b.slices
        let roots := vals.map (·.root)
        let hash := (Tree.new roots).root
        let b := { b with tree := some roots }
        match b.slices 0 with
        | none => (b, .panic)          -- `.expect("all slices are present, including the first")`
        | some first =>
          match first.parent with
          | none => (b, .panic)        -- `.expect("first slice contains a parent …")`
          | some p0 =>
            match foldSlices vals p0 false [] with
            | none => (b, .error)
            | some (parent, txs) =>
              -- fix D3: the parent must be in an earlier slot
              if parent.1 ≥ b.slot then (b, .error)
              else
                let blk : Block := ⟨hash, parent, txs⟩
                ({ b with completed := some blk, slices := fun i => if i ≤ last then none else b.slices i },
                 .complete blk.info)

/-- `mark_last_slice` -/
def markLastSlice (b : BlockData) (k : Nat) : BlockData :=
  { b with lastSlice := some k, slices := retainLe b.slices k, shreds := retainLe b.shreds k }

def arrEmpty : ShredArr := fun _ => none

/-- first stage of `add_shred`: the commitment cache (`none` = `Err(Equivocation)`) -/
def cacheStep (b : BlockData) (s : Shred) : Option BlockData :=
  match b.cache s.slice with
  | some c => if c ≠ s.commitment then none else some b
  | none => some { b with cache := upd b.cache s.slice (some s.commitment) }

/-- second stage: last-slice bookkeeping (`none` = `Err(Equivocation)`); with fix D2: a slice
    already seen beyond a newly declared last slice is equivocation -/
def lastStep (b : BlockData) (s : Shred) : Option BlockData :=
  match b.lastSlice with
  | none =>
    if s.isLast then
      (if hasKeyAbove b.cap b.cache s.slice then none else some (markLastSlice b s.slice))
    else some b
  | some l =>
    if (s.slice < l && !s.isLast) || (s.slice == l && s.isLast) then some b else none

/-- `try_reconstruct_slice` then `try_reconstruct_block`, as at the end of `add_shred` -/
def reconstruct (env : Nat → Content) (b : BlockData) (slice : Nat) : BlockData × AddRes :=
  match tryReconstructSlice env b slice with
  | (b, .noAction) => (b, .none)
  | (b, .error) => (b, .err .invalidShred)
  | (b, .panic) => (b, .panic)
  | (b, .complete) =>
    match tryReconstructBlock b with
    | (b, .noAction) => (b, .none)
    | (b, .error) => (b, .err .invalidShred)
    | (b, .panic) => (b, .panic)
    | (b, .complete info) => (b, .ev (.block info))

/-- third stage: duplicate check, storing, first-shred event, reconstruction -/
def storeStep (env : Nat → Content) (b : BlockData) (s : Shred) : BlockData × AddRes :=
  let isFirst := mapEmpty b.cap b.shreds
  let arr := (b.shreds s.slice).getD arrEmpty
  if (arr s.idx).isSome then
    ({ b with shreds := upd b.shreds s.slice (some arr) }, .err .duplicate)
  else
    let b := { b with shreds := upd b.shreds s.slice (some (upd arr s.idx (some s))) }
    if isFirst then (b, .ev .firstShred)
    else reconstruct env b s.slice

/-- `BlockData::add_shred` of the pinned snapshot (before the D15 `fix:`: no look at the data/coding type); the
    core of `addShred`, kept for the witness theorems -/
def addShredCore (env : Nat → Content) (b : BlockData) (s : Shred) : BlockData × AddRes :=
  match cacheStep b s with
  | none => (b, .err .equivocation)
  | some b1 =>
    match lastStep b1 s with
    | none => (b1, .err .equivocation)
    | some b2 => storeStep env b2 s

/-- `BlockData::add_shred` (after the D15 `fix:`): a shred whose data/coding type does not fit its index
    (`RegularShredder::has_expected_type`, here the attribute `ty`) is dropped before its commitment is cached or
    anything is stored: `Err(WrongType)`, which no caller treats as the leader's doing -/
def addShred (env : Nat → Content) (b : BlockData) (s : Shred) : BlockData × AddRes :=
  if !s.ty then (b, .err .wrongType) else addShredCore env b s

/-- `BlockData::add_own_slice`: returns `(is_first, completed)`; `none` = Rust panic -/
def addOwnSlice (b : BlockData) (c : Commitment) (sz : Nat) (parent : Option (Nat × Nat)) (txs : Option (List Nat)) :
    BlockData × Option (Bool × Option BlockInfo) :=
  let isFirst := mapEmpty b.cap b.shreds
  let b := { b with cache := upd b.cache c.slice (some c) }
  if b.lastSlice.isSome then (b, none)     -- `assert!(self.last_slice.is_none(), …)`
  else
    let b := if c.isLast then markLastSlice b c.slice else b
    let arr : ShredArr := fun j => if j < TOTAL_SHREDS then some ⟨c.slice, c.isLast, c.root, j, sz, true⟩ else none
    let b := { b with shreds := upd b.shreds c.slice (some arr),
                      slices := upd b.slices c.slice (some ⟨c.slice, c.isLast, c.root, parent, txs⟩) }
    match tryReconstructBlock b with
    | (b, .noAction) => (b, some (isFirst, none))
    | (b, .complete info) => (b, some (isFirst, some info))
    | (b, _) => (b, none)                  -- `unreachable!("own block failed reconstruction")`

/-! ### `SlotBlockData` and the per-slot part of `BlockstoreImpl` -/

structure SlotData where
  dis : BlockData
  /-- `repaired`, keyed by the requested block hash -/
  rep : List (H × BlockData)
  misbehaved : Bool

def SlotData.new (cap slot : Nat) : SlotData := ⟨BlockData.new cap slot, [], false⟩

def repGet (rep : List (H × BlockData)) (h : H) : Option BlockData :=
  match rep with
  | [] => none
  | (k, v) :: rest => if k = h then some v else repGet rest h

def repSet (rep : List (H × BlockData)) (h : H) (v : BlockData) : List (H × BlockData) :=
  match rep with
  | [] => [(h, v)]
  | (k, w) :: rest => if k = h then (k, v) :: rest else (k, w) :: repSet rest h v

def repDel (rep : List (H × BlockData)) (h : H) : List (H × BlockData) :=
  rep.filter (fun kv => decide (kv.1 ≠ h))

/-- `flag_leader_misbehavior`: the events it sends -/
def flag (sd : SlotData) : SlotData × List Event :=
  if sd.misbehaved then (sd, []) else ({ sd with misbehaved := true }, [.invalidBlock])

def evOf : AddRes → List Event
  | .ev e => [e]
  | _ => []

def isBadErr : AddRes → Bool
  | .err .equivocation => true
  | .err .invalidShred => true
  | _ => false

/-- `Blockstore::add_shred_from_dissemination`: new state, result, events sent to Votor in order -/
def addDissem (env : Nat → Content) (sd : SlotData) (s : Shred) : SlotData × AddRes × List Event :=
  if sd.misbehaved then
    -- Err(InvalidShred) → flag_leader_misbehavior (already flagged: nothing sent)
    (sd, .err .invalidShred, [])
  else
    let (b, r) := addShred env sd.dis s
    let sd := { sd with dis := b }
    if isBadErr r then
      let (sd, evs) := flag sd
      (sd, r, evs)
    else (sd, r, evOf r)

/-- files the result of `add_shred` in the repair spot of `h` (with the fix: a block that
    reconstructs to a hash other than the requested one is dropped and reported as `InvalidShred`) -/
def fileRepair (sd : SlotData) (h : H) (b : BlockData) (r : AddRes) : SlotData × AddRes :=
  match r with
  | .ev (.block info) =>
    if info.hash ≠ h then ({ sd with rep := repDel sd.rep h }, AddRes.err .invalidShred)
    else ({ sd with rep := repSet sd.rep h b }, r)
  | _ => ({ sd with rep := repSet sd.rep h b }, r)

/-- `Equivocation | InvalidShred` ⇒ `flag_leader_misbehavior`; otherwise the event (if any) is sent -/
def flagIfBad (sd : SlotData) (r : AddRes) : SlotData × AddRes × List Event :=
  if isBadErr r then ((flag sd).1, r, (flag sd).2) else (sd, r, evOf r)

/-- `Blockstore::add_shred_from_repair` -/
def addRepair (env : Nat → Content) (sd : SlotData) (h : H) (s : Shred) : SlotData × AddRes × List Event :=
  let br := addShred env ((repGet sd.rep h).getD (BlockData.new sd.dis.cap sd.dis.slot)) s
  let p := fileRepair sd h br.1 br.2
  flagIfBad p.1 p.2

/-- `Blockstore::add_own_slice`: result `none` = panic -/
def addOwn (sd : SlotData) (c : Commitment) (sz : Nat) (parent : Option (Nat × Nat)) (txs : Option (List Nat)) :
    SlotData × Option (Option BlockInfo) × List Event :=
  match addOwnSlice sd.dis c sz parent txs with
  | (b, none) => ({ sd with dis := b }, none, [])
  | (b, some (isFirst, done)) =>
    ({ sd with dis := b }, some done,
      (if isFirst then [Event.firstShred] else []) ++ (match done with | some i => [Event.block i] | none => []))

/-! ### queries -/

/-- `get_block_data` -/
def blockData (sd : SlotData) (h : H) : Option BlockData :=
  match sd.dis.completed with
  | some blk => if blk.hash = h then some sd.dis else repGet sd.rep h
  | none => repGet sd.rep h

def disseminatedHash (sd : SlotData) : Option H := sd.dis.completed.map (·.hash)

def getBlock (sd : SlotData) (h : H) : Option Block := (blockData sd h).bind (·.completed)

def getLastSliceIndex (sd : SlotData) (h : H) : Option Nat := (blockData sd h).bind (·.lastSlice)

def getShred (sd : SlotData) (h : H) (slice idx : Nat) : Option Shred :=
  (blockData sd h).bind fun b => (b.shreds slice).bind fun arr => arr idx

def getSliceRoot (sd : SlotData) (h : H) (slice : Nat) : Option Nat :=
  (blockData sd h).bind fun b => (b.shreds slice).bind fun arr => (present arr).head?.map (·.root)

def cachedCommitment (sd : SlotData) (slice : Nat) : Option Commitment := sd.dis.cache slice

/-- `create_double_merkle_proof`: outer `none` = `None`; inner `none` = panic (`assert!(index < leaves)`) -/
def createProof (sd : SlotData) (h : H) (slice : Nat) : Option (Option (List H)) :=
  (blockData sd h).bind fun b => b.tree.map fun roots =>
    if slice < roots.length then some ((Tree.new roots).createProof slice) else none

end AgModel.Blockstore
